/-
  drv_cache — driver for the cache / corruption model (C08, C09).
  Input:  `run <op> | <op> | …`      Output: one token per op.
-/
import Signac.Json
import Signac.Md5
import Signac.Wire
import Signac.Workspace
import Signac.Cache
import Signac.Chunks
open Signac Signac.Ws Signac.Cache

def insertSorted (x : String) : List String → List String
  | [] => [x]
  | y :: ys => if x < y then x :: y :: ys else y :: insertSorted x ys

def sortStrings (l : List String) : List String := l.foldr insertSorted []

def commaSorted (l : List String) : String := ",".intercalate (sortStrings l)

def errStr : Err → String
  | .corrupted ids => "JobsCorruptedError=" ++ commaSorted ids
  | .keyError => "KeyError"
  | .destExists => "DestinationExistsError"

def strTok (t : String) : Option String :=
  match t.toList with
  | 'S' :: hx => unhex (String.ofList hx)
  | _ => none

def splitBar : List String → List (List String)
  | [] => [[]]
  | t :: ts =>
    match splitBar ts with
    | [] => [[t]]
    | g :: gs => if t == "|" then [] :: g :: gs else (t :: g) :: gs

def stateTok (s : St) : String :=
  (match s.cacheFile with
   | some c => commaSorted (c.map Prod.fst)
   | none => "-") ++ ":" ++ commaSorted (s.ws.map Prod.fst)

def spFileTok : SpFile → String
  | .absent => "absent"
  | .garbage => "garbage"
  | .valid v => "valid=" ++ calcId v

/-- full description of the workspace: id, kind of state point file, payload identity -/
def wsTok (s : St) : String :=
  commaSorted (s.ws.map fun (id, d) => id ++ "/" ++ spFileTok d.sp ++ "/" ++ toString d.payload)

def parseSpFile (ts : List String) : Option SpFile :=
  match ts with
  | ["absent"] => some .absent
  | ["garbage"] => some .garbage
  | "valid" :: rest => match parseValue rest with
    | some (v, []) => some (.valid v)
    | _ => none
  | _ => none

def stepOp (s : St) (ts : List String) : Option (St × String) :=
  match ts with
  | "init" :: rest => do
    let (v, r) ← parseValue rest
    if !r.isEmpty then none
    let (s', e) := initJob calcId s v
    pure (s', (match e with | none => "ok" | some e => errStr e) ++ ":" ++ stateTok s')
  | "remove" :: rest => do
    let (v, r) ← parseValue rest
    if !r.isEmpty then none
    let s' := removeJob calcId s v
    pure (s', "ok:" ++ stateTok s')
  | "rekey" :: rest => do
    let (sp, r) ← parseValue rest
    match r with
    | k :: r2 =>
      let k ← strTok k
      let (v, r3) ← parseValue r2
      if !r3.isEmpty then none
      let (s', e) := rekeyJob calcId s sp k v
      pure (s', (match e with | none => "ok" | some e => errStr e) ++ ":" ++ stateTok s')
    | [] => none
  | ["ucache"] =>
    let (s', n, e) := updateCache calcId s
    some (s', (match e, n with
      -- which corrupted id the thread pool reports first is not determined: compare the kind only
      | some (.corrupted _), _ => "JobsCorruptedError"
      | some e, _ => errStr e
      | none, some n => toString n
      | none, none => "none") ++ ":" ++ stateTok s')
  | ["session"] => let s' := newSession s; some (s', "ok:" ++ stateTok s')
  | ["rmcache"] => let s' := rmCache s; some (s', "ok:" ++ stateTok s')
  | ["observe"] => some (observe calcId s, "obs")
  | "damage" :: id :: rest => do
    let id ← strTok id
    let f ← parseSpFile rest
    pure (damage s id f, "ok")
  | ["rename", a, b] => do
    let a ← strTok a
    let b ← strTok b
    pure (renameDir s a b, "ok")
  | "order" :: ids => do
    -- the listing order of the real workspace is an input of the model (os.listdir order)
    let ids ← ids.mapM strTok
    let first := ids.filterMap (fun i => (alookup i s.ws).map (fun d => (i, d)))
    let rest := s.ws.filter (fun e => !ids.contains e.1)
    pure ({ s with ws := first ++ rest }, "ok")
  | ["forget", id] => do
    let id ← strTok id
    pure ({ s with ws := aerase id s.ws }, "ok")
  | ["payload", id] => do
    let id ← strTok id
    pure (setPayload s id, "ok")
  | ["check"] => some (s, "check=" ++ commaSorted (check calcId s))
  | ["openid", id] => do
    let id ← strTok id
    let (s', r) := openById calcId s id
    pure (s', match r with
      | .ok v => "ok=" ++ calcId v
      | .error e => errStr e)
  | ["repair"] =>
    let (s', bad) := repair calcId s
    some (s', "repair=" ++ commaSorted bad ++ ";" ++ wsTok s')
  | ["ws"] => some (s, wsTok s)
  | ["chunks", n, k] => do
    -- `_split_and_print_progress(list(range(n)), num_chunks=k)`: the chunks as "first-last+1" ranges
    let n ← n.toNat?
    let k ← k.toNat?
    pure (s, match Chunks.splitChunks (List.range n) k with
      | none => "ValueError"
      | some cs => " ".intercalate (cs.map fun c => toString (c.headD 0) ++ ":" ++ toString c.length))
  | ["numchunks", n] => do
    let n ← n.toNat?
    pure (s, toString (Chunks.numChunks n))
  | _ => none

def runLine (groups : List (List String)) : String :=
  let rec go (s : St) (gs : List (List String)) (acc : List String) : List String :=
    match gs with
    | [] => acc.reverse
    | g :: rest =>
      match stepOp s g with
      | none => ("bad-op" :: acc).reverse
      | some (s', out) => go s' rest (out :: acc)
  " ".intercalate (go St.empty groups [])

def stepCache (line : String) : String :=
  match tokens line with
  | "run" :: ts => runLine (splitBar ts)
  | _ => "bad-op"

def main : IO Unit := driverLoop stepCache

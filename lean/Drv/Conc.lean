/- driver for C12 (exe drv_conc).  One line = one query about one case:

     <query> ws <0|1> jobs <n> {J <val> (D0 | D1 <val>) (P0|P1)}*n
             actors <m> {ops <k> {op}*k}*m sched <len> <actor>*len
     op    := project | init <val> | set <val> S<hexkey> <val> | get <val> | len
            | assign <val> <val>      (job state point, then the mapping: must be an object)
     query := trace   every step of the schedule:  actor|kind|path[|path2]|result[|payload] ;…
            | final   the workspace tree afterwards: path=D / path=F:<content>, sorted ;…
            | exits   per actor: ok|exc:<why> then the values handed back (doc:<val> / count:<n>)

   State points and document values are `JVal`s, the job id is `calcId` (own MD5). -/
import Signac.Json
import Signac.Md5
import Signac.Wire
import Signac.Extracted
import Signac.Concurrency
open Signac Signac.Conc

abbrev S := Sys JVal JVal

def joinWith (sep : String) (xs : List String) : String := sep.intercalate xs

def insertStr (x : String) : List String → List String
  | [] => [x]
  | y :: r => if x < y then x :: y :: r else y :: insertStr x r

def sortStrs (xs : List String) : List String := xs.foldr insertStr []

def wireC (v : JVal) : String := joinWith "," (wireVal v)

def kindFile : Kind → String
  | .sp => Extracted.FN_STATE_POINT
  | .doc => Extracted.FN_JOB_DOCUMENT

def pathStr : Path → String
  | .ws => "workspace"
  | .jobdir i => "workspace/" ++ i
  | .file i k => "workspace/" ++ i ++ "/" ++ kindFile k
  | .tmp i k _ => "workspace/" ++ i ++ "/._TMP_" ++ kindFile k

def contentStr : Content JVal JVal → String
  | .torn => "TORN"
  | .spc v => wireC v
  | .docc d => wireC (.obj d)

def errStr : Errno → String
  | .enoent => "ENOENT"
  | .eexist => "EEXIST"
  | .eisdir => "EISDIR"
  | .enotdir => "ENOTDIR"
  | .ebadf => "EBADF"

def resStr : Res JVal JVal → String
  | .bool true => "T"
  | .bool false => "F"
  | .ok => "ok"
  | .err e => errStr e
  | .data c => contentStr c
  | .names l => "[" ++ joinWith "," (sortStrs l) ++ "]"

def stepStr (a : Nat) (ins : Instr JVal JVal) (r : Res JVal JVal) : String :=
  let body := match ins with
    | .isdir p => ["isdir", pathStr p, resStr r]
    | .isfile p => ["isfile", pathStr p, resStr r]
    | .pexists p => ["exists", pathStr p, resStr r]
    | .mkdir p => ["mkdir", pathStr p, resStr r]
    | .read p => ["read", pathStr p, resStr r]
    | .openw p => ["openw", pathStr p, resStr r]
    | .write p c => ["write", pathStr p, resStr r, contentStr c]
    | .close p => ["close", pathStr p, resStr r]
    | .rename p q => ["rename", pathStr p, pathStr q, resStr r]
    | .listdir p => ["listdir", pathStr p, resStr r]
  joinWith "|" (toString a :: body)

def nodeStr : Path × Node JVal JVal → String
  | (p, .dir) => pathStr p ++ "=D"
  | (p, .file c) => pathStr p ++ "=F:" ++ contentStr c

def obsStr : Obs JVal JVal → String
  | .doc d => "doc:" ++ wireC (.obj d)
  | .count n => "count:" ++ toString n

def exitStr (st : AState JVal JVal) : String :=
  let head := match st.failed with
    | none => if st.script.isEmpty then "ok" else "unfinished"
    | some w => "exc:" ++ w
  joinWith "/" (head :: st.out.reverse.map obsStr)

/-! parsing -/

def parseJobs : Nat → List String → FS JVal JVal → Option (FS JVal JVal × List String)
  | 0, ts, fs => some (fs, ts)
  | n+1, "J" :: ts, fs => do
    let (v, ts) ← parseValue ts
    let i := calcId v
    let fs := fs.set (.jobdir i) .dir
    let (fs, ts) ← match ts with
      | "D0" :: ts => some (fs, ts)
      | "D1" :: ts => match parseValue ts with
        | some (.obj d, ts) => some (fs.set (.file i .doc) (.file (.docc d)), ts)
        | _ => none
      | _ => none
    match ts with
    | "P0" :: ts => parseJobs n ts fs
    | "P1" :: ts => parseJobs n ts (fs.set (.file i .sp) (.file (.spc v)))
    | _ => none
  | _, _, _ => none

def parseOps : Nat → List String → Option (List (Op JVal JVal) × List String)
  | 0, ts => some ([], ts)
  | n+1, "project" :: ts => do
    let (ops, ts) ← parseOps n ts
    pure (.project :: ops, ts)
  | n+1, "len" :: ts => do
    let (ops, ts) ← parseOps n ts
    pure (.len :: ops, ts)
  | n+1, "init" :: ts => do
    let (v, ts) ← parseValue ts
    let (ops, ts) ← parseOps n ts
    pure (.init v :: ops, ts)
  | n+1, "get" :: ts => do
    let (v, ts) ← parseValue ts
    let (ops, ts) ← parseOps n ts
    pure (.docGet v :: ops, ts)
  | n+1, "set" :: ts => do
    let (v, ts) ← parseValue ts
    match ts with
    | k :: ts =>
      let key ← match k.toList with
        | 'S' :: hx => unhex (String.ofList hx)
        | _ => none
      let (x, ts) ← parseValue ts
      let (ops, ts) ← parseOps n ts
      pure (.docSet v key x :: ops, ts)
    | [] => none
  | n+1, "assign" :: ts => do
    let (v, ts) ← parseValue ts
    match parseValue ts with
    | some (.obj d, ts) =>
      let (ops, ts) ← parseOps n ts
      pure (.docAssign v d :: ops, ts)
    | _ => none
  | _, _ => none

def parseActors : Nat → List String → Option (List (AState JVal JVal) × List String)
  | 0, ts => some ([], ts)
  | n+1, "ops" :: k :: ts => do
    let k ← k.toNat?
    let (ops, ts) ← parseOps k ts
    let (rest, ts) ← parseActors n ts
    pure (AState.start ops :: rest, ts)
  | _, _ => none

def parseNats : Nat → List String → Option (List Nat × List String)
  | 0, ts => some ([], ts)
  | n+1, t :: ts => do
    let x ← t.toNat?
    let (xs, ts) ← parseNats n ts
    pure (x :: xs, ts)
  | _, _ => none

def parseCase (ts : List String) : Option (S × List Nat) :=
  match ts with
  | "ws" :: w :: "jobs" :: n :: ts => do
    let n ← n.toNat?
    let fs0 : FS JVal JVal ← match w with
      | "1" => some (FS.set [] .ws .dir)
      | "0" => if n = 0 then some [] else none
      | _ => none
    let (fs, ts) ← parseJobs n ts fs0
    match ts with
    | "actors" :: m :: ts => do
      let m ← m.toNat?
      let (actors, ts) ← parseActors m ts
      match ts with
      | "sched" :: l :: ts => do
        let l ← l.toNat?
        let (sched, ts) ← parseNats l ts
        if ts.isEmpty then pure ({ fs := fs, actors := actors }, sched) else none
      | _ => none
    | _ => none
  | _ => none

def stepConc (line : String) : String :=
  match tokens line with
  | q :: ts =>
    if q = "trace" ∨ q = "final" ∨ q = "exits" then
      match parseCase ts with
      | none => "bad-value"
      | some (s, sched) =>
        let (tr, s') := runTrace calcId s sched
        if q = "trace" then joinWith ";" (tr.map (fun (a, ins, r) => stepStr a ins r))
        else if q = "final" then joinWith ";" (sortStrs (s'.fs.map nodeStr))
        else joinWith ";" (s'.actors.map exitStr)
    else "bad-op"
  | [] => "bad-op"

def main : IO Unit := driverLoop stepConc

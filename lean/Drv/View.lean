/- driver for C17 (linked views).

   view <PA|PI|PS<hex spec>> J<n> (<id> <state point value>)*n T<m> (D <hexpath> | L <hexpath> <hex target>)*m
     -> <outcome> <entry>*      entries sorted; D:<hexpath>  |  L:<hexpath>:<hex target>   (target = job id the link resolves to)
        outcome: done | reject:RuntimeError | reject:_SchemaPathEvaluationError | fail:<errno name> | unmodelled
   links <PA|…> J<n> …           -> the link set only:  <hexpath>=<id> … | reject:… | unmodelled
   plan  <PA|…> J<n> … T<m> …    -> sorted obsolete / stale / update / new sets of the analysis
-/
import Signac.LinkedView
import Signac.Wire
open Signac Signac.LV

def parseSpec (t : String) : Option PathSpec :=
  match t.toList with
  | ['P', 'A'] => some .auto
  | ['P', 'I'] => some .byId
  | 'P' :: 'S' :: hx => (unhex (String.ofList hx)).map .fmt
  | _ => none

def parseCount (c : Char) (t : String) : Option Nat :=
  match t.toList with
  | c' :: rest => if c' = c then (String.ofList rest).toNat? else none
  | [] => none

def isIdTok (t : String) : Bool := !t.isEmpty && t.toList.all (fun c => c.isAlphanum)

def parseJobs : Nat → List String → Option (List Job × List String)
  | 0, ts => some ([], ts)
  | n + 1, id :: ts =>
    if !isIdTok id then none else
    match parseValue ts with
    | some (.obj kvs, rest) =>
      (parseJobs n rest).map (fun (js, r) => ({ id := id, sp := kvs } :: js, r))
    | _ => none
  | _ + 1, [] => none

def parsePath (hx : String) : Option Path :=
  (unhex hx).bind (fun s => if s.isEmpty then none else some (splitSep s))

def parseTree : Nat → List String → Option (View × List String)
  | 0, ts => some ([], ts)
  | n + 1, "D" :: p :: ts => do
    let p ← parsePath p
    let (v, r) ← parseTree n ts
    pure ((p, Entry.dir) :: v, r)
  | n + 1, "L" :: p :: t :: ts => do
    let p ← parsePath p
    let t ← unhex t
    let (v, r) ← parseTree n ts
    pure ((p, Entry.link t) :: v, r)
  | _ + 1, _ => none

def insertStr (s : String) : List String → List String
  | [] => [s]
  | x :: xs => if s < x then s :: x :: xs else x :: insertStr s xs

def sortStrs : List String → List String
  | [] => []
  | x :: xs => insertStr x (sortStrs xs)

def pathHex (p : Path) : String := toHex (joinWith "/" p)

def showView (v : View) : List String :=
  sortStrs (v.map (fun (p, e) =>
    match e with
    | .dir => "D:" ++ pathHex p
    | .link t => "L:" ++ pathHex p ++ ":" ++ toHex t))

def showReject : Reject → String
  | .runtime => "reject:RuntimeError"
  | .schemaEval => "reject:_SchemaPathEvaluationError"

def showErr : FsErr → String
  | .noEnt => "fail:ENOENT"
  | .notEmpty => "fail:ENOTEMPTY"
  | .exist => "fail:EEXIST"
  | .notDir => "fail:ENOTDIR"

def showOutcome : Outcome → String
  | .done => "done"
  | .rejected e => showReject e
  | .failed e => showErr e
  | .unmodelled => "unmodelled"

def parseJobsPart (ts : List String) : Option (PathSpec × List Job × List String) :=
  match ts with
  | sp :: jn :: rest => do
    let spec ← parseSpec sp
    let n ← parseCount 'J' jn
    let (jobs, r) ← parseJobs n rest
    pure (spec, jobs, r)
  | _ => none

def parseTreePart (ts : List String) : Option View :=
  match ts with
  | tn :: rest => do
    let m ← parseCount 'T' tn
    let (v, r) ← parseTree m rest
    if r.isEmpty then pure v else none
  | [] => none

def stepView (line : String) : String :=
  match tokens line with
  | "view" :: ts =>
    (match parseJobsPart ts with
     | some (spec, jobs, rest) =>
       (match parseTreePart rest with
        | some v =>
          let (v', out) := createView v jobs spec
          " ".intercalate (showOutcome out :: showView v')
        | none => "bad-value")
     | none => "bad-value")
  | "links" :: ts =>
    (match parseJobsPart ts with
     | some (spec, jobs, []) =>
       (match createLinks jobs spec with
        | .ok links => " ".intercalate ("ok" :: sortStrs (links.map (fun (p, t) => pathHex p ++ "=" ++ t)))
        | .reject e => showReject e
        | .unmodelled => "unmodelled")
     | _ => "bad-value")
  | "plan" :: ts =>
    (match parseJobsPart ts with
     | some (spec, jobs, rest) =>
       (match parseTreePart rest, createLinks jobs spec with
        | some v, .ok links =>
          let pl := analyzeView v links
          let sh (tag : String) (ps : List Path) := tag ++ "[" ++ ",".intercalate (sortStrs (ps.map pathHex)) ++ "]"
          " ".intercalate [sh "obsolete" pl.obsolete, sh "stale" pl.stale, sh "update" pl.toUpdate, sh "new" pl.fresh]
        | some _, .reject e => showReject e
        | some _, .unmodelled => "unmodelled"
        | none, _ => "bad-value")
     | none => "bad-value")
  | _ => "bad-op"

def main : IO Unit := driverLoop stepView

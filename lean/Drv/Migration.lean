/- driver for C20 (exe drv_mig).

   gate <cfg: -|n|NAT> <rc: -|NAT> <ws: 0|1>
        a directory /p with that `.signac/config` version / legacy `signac.rc` version, with or
        without a workspace directory, nothing above it.
        -> four tokens: Project(/p) get_project(/p) get_project(/p, search=False) init_project(/p)
           each  ok{:+d<path>|:+c<path>}* | LookupError | IncompatibleSchemaVersion | AssertionError

   mig <state>      -> <result> <state>      (apply_migrations)
   state  := <conf> <conf> <dot 0|1> E <n> (<hex key> <hex blob>)*n <doc> <blob>*4 <lock 0|1> <blob>
             (signac.rc, .signac/config, .signac exists, root entries, project document,
              v1 cache, v1 history, v2 cache, v2 history, lock file, everything else)
   conf   := - | C <ver: -|NAT> <project: -|s<hex>> <workspace_dir: -|s<hex>>
   doc    := - | D <wire object>
   blob   := - | b<hex>
   result := ok | unableToLoad | tooNew | failed<N> | noConfig | noPath

   vgate <hex>      -> ok | incompatible | valueError
        `_check_schema_compatibility` on the configured `schema_version` STRING (hex-encoded
        UTF-8; no argument = the empty string): int() then the comparison.
   pyint <hex>      -> none | <integer>          Python's int(<string>), none = ValueError -/
import Signac.Wire
import Signac.Migration
import Signac.Discovery
import Signac.PyInt
open Signac Signac.Mig

def parseOptNat (s : String) : Option (Option Nat) :=
  if s = "-" then some none else s.toNat?.map some

def parseOptStr (s : String) : Option (Option String) :=
  if s = "-" then some none
  else match s.toList with
    | 's' :: hx => (unhex (String.ofList hx)).map some
    | _ => none

def parseBlob (s : String) : Option (Option Blob) :=
  if s = "-" then some none
  else match s.toList with
    | 'b' :: hx => (unhex (String.ofList hx)).map some
    | _ => none

def parseBool (s : String) : Option Bool :=
  if s = "0" then some false else if s = "1" then some true else none

def parseConf : List String → Option (Option Conf × List String)
  | "-" :: ts => some (none, ts)
  | "C" :: v :: p :: w :: ts => do
    let v ← parseOptNat v
    let p ← parseOptStr p
    let w ← parseOptStr w
    pure (some ⟨v, p, w⟩, ts)
  | _ => none

def parseEnts : Nat → List String → Option (List (String × Blob) × List String)
  | 0, ts => some ([], ts)
  | n + 1, k :: b :: ts => do
    let k ← unhex k
    let b ← unhex b
    let (es, rest) ← parseEnts n ts
    pure ((k, b) :: es, rest)
  | _, _ => none

def parseDoc : List String → Option (Option (List (String × JVal)) × List String)
  | "-" :: ts => some (none, ts)
  | "D" :: ts =>
    match parseVal (2 * ts.length + 2) ts with
    | some (.obj kvs, rest) => some (some kvs, rest)
    | _ => none
  | _ => none

def parseState (ts : List String) : Option Proj := do
  let (rc, ts) ← parseConf ts
  let (cfg, ts) ← parseConf ts
  match ts with
  | dot :: "E" :: n :: ts =>
    let dot ← parseBool dot
    let n ← n.toNat?
    let (ents, ts) ← parseEnts n ts
    let (doc, ts) ← parseDoc ts
    match ts with
    | [co, ho, cn, hn, lock, rest] =>
      let co ← parseBlob co
      let ho ← parseBlob ho
      let cn ← parseBlob cn
      let hn ← parseBlob hn
      let lock ← parseBool lock
      let rest ← parseBlob rest
      pure { rc := rc, cfg := cfg, dotSignac := dot, ents := ents, doc := doc, cacheOld := co,
             histOld := ho, cacheNew := cn, histNew := hn, lock := lock, rest := rest.getD "" }
    | _ => none
  | _ => none

def showOptNat : Option Nat → String
  | none => "-"
  | some n => toString n

def showOptStr : Option String → String
  | none => "-"
  | some s => "s" ++ toHex s

def showBlob : Option Blob → String
  | none => "-"
  | some b => "b" ++ toHex b

def showConf : Option Conf → String
  | none => "-"
  | some c => "C " ++ showOptNat c.version ++ " " ++ showOptStr c.project ++ " " ++ showOptStr c.wsDir

def showEnts (es : List (String × Blob)) : String :=
  " ".intercalate (es.map (fun (k, b) => toHex k ++ " " ++ toHex b))

def showState (P : Proj) : String :=
  " ".intercalate ([showConf P.rc, showConf P.cfg, (if P.dotSignac then "1" else "0"),
    "E", toString P.ents.length] ++ (if P.ents.isEmpty then [] else [showEnts P.ents]) ++
    [match P.doc with | none => "-" | some d => "D " ++ wire (.obj d),
     showBlob P.cacheOld, showBlob P.histOld, showBlob P.cacheNew, showBlob P.histNew,
     (if P.lock then "1" else "0"), showBlob (some P.rest)])

def showResult : MigResult → String
  | .ok => "ok"
  | .unableToLoad => "unableToLoad"
  | .tooNew => "tooNew"
  | .failed n => "failed" ++ toString n
  | .noConfig => "noConfig"
  | .noPath => "noPath"

/-! gate queries -/
open Signac.Disc in
def gateTree (cfg : Option (Option Nat)) (rc : Option Nat) (ws : Bool) : Tree :=
  Tree.ofNodes ([⟨[], .dir, none, none⟩, ⟨["p"], .dir, cfg, rc⟩] ++
    (if ws then [⟨["workspace", "p"], .dir, none, none⟩] else []))

def pathStr (p : Disc.Path) : String := "/" ++ "/".intercalate p.reverse

def showOut (r : Except Disc.Err Disc.Path × List Disc.Step) : String :=
  let steps := String.join (r.2.map (fun s => match s with
    | .mkdir p => ":+d" ++ pathStr p
    | .writeConfig p => ":+c" ++ pathStr p))
  match r.1 with
  | .ok q => "ok:" ++ pathStr q ++ steps
  | .error .lookup => "LookupError" ++ steps
  | .error .incompatible => "IncompatibleSchemaVersion" ++ steps
  | .error .assertion => "AssertionError" ++ steps

def parseCfgTok (s : String) : Option (Option (Option Nat)) :=
  if s = "-" then some none else if s = "n" then some (some none) else s.toNat?.map (fun v => some (some v))

def showGateS : PyInt.GateS → String
  | .ok => "ok"
  | .incompatible => "incompatible"
  | .valueError => "valueError"

def showPyInt : Option Int → String
  | none => "none"
  | some v => toString v

/-- the string argument of `vgate` / `pyint`: one hex token, or nothing for "" -/
def parseStrArg : List String → Option String
  | [] => some ""
  | [hx] => unhex hx
  | _ => none

def stepMig (line : String) : String :=
  match tokens line with
  | "vgate" :: ts =>
    match parseStrArg ts with
    | some s => showGateS (PyInt.gateStr s)
    | none => "bad-value"
  | "pyint" :: ts =>
    match parseStrArg ts with
    | some s => showPyInt (PyInt.pyInt s)
    | none => "bad-value"
  | ["gate", c, r, w] =>
    match parseCfgTok c, parseOptNat r, parseBool w with
    | some c, some r, some w =>
      let t := gateTree c r w
      " ".intercalate [showOut (Disc.openProject t ["p"]), showOut (Disc.getProject t ["p"] true),
        showOut (Disc.getProject t ["p"] false), showOut (Disc.initProject t ["p"])]
    | _, _, _ => "bad-value"
  | "mig" :: ts =>
    match parseState ts with
    | some P =>
      let (Q, r) := applyMigrations P
      showResult r ++ " " ++ showState Q
    | none => "bad-value"
  | _ => "bad-op"

def main : IO Unit := driverLoop stepMig

/- driver for C01: `id <value>` -> calcId ; `text <value>` -> hex of canonical text ; `dump <value>` -> hex of insertion-order text ; `ftok <value>` -> are all float reprs float tokens (hypothesis of the injectivity theorems) ; `parse <hex of utf-8 text>` -> the model's JSON reader `parseText` on that text, result in wire form (floats as D0/0:<hex of token>, i.e. by their token text only: the reader is run with fv := fun _ => (0, 0)) or `parse-error` -/
import Signac.Json
import Signac.Md5
import Signac.Wire
import Signac.FloatTok
import Signac.JsonParse
open Signac

def stepC01 (line : String) : String :=
  match tokens line with
  | "id" :: ts =>
    match parseValue ts with
    | some (v, []) => calcId v
    | _ => "bad-value"
  | "text" :: ts =>
    match parseValue ts with
    | some (v, []) => toHex (canonText v)
    | _ => "bad-value"
  | "dump" :: ts =>
    match parseValue ts with
    | some (v, []) => toHex (String.ofList (dumpChars v))
    | _ => "bad-value"
  | "ftok" :: ts =>
    match parseValue ts with
    | some (v, []) => if floatsTokB v then "ok" else "not-a-float-token"
    | _ => "bad-value"
  | "parse" :: [hx] =>
    match unhex hx with
    | some t =>
      match parseText (fun _ => (0, 0)) t.toList with
      | some v => wire v
      | none => "parse-error"
    | none => "bad-value"
  | "md5" :: [hx] =>
    match hexBytes hx.toList with
    | some bs => md5hex bs
    | none => "bad-value"
  | ["md5"] => md5hex []
  | _ => "bad-op"

def main : IO Unit := driverLoop stepC01

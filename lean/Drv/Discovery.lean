/- driver for C19 (exe drv_disc).  One line = one tree + its queries, one answer token per query:

     T <n> (<hex abs path> <a|f|d> <cfg: -|n|NAT> <rc: -|NAT>)*n  Q <m> (<op> <hex cwd> <-|r<hex raw path>>)*m

   op ∈ gp1 (get_project search=True) | gp0 (search=False) | gj (get_job) | init (init_project)
        | open (Project(path)).   `-` as raw path = argument omitted (cwd is used).
   answer: ok:<hex path>{:+d<hex path> | :+c<hex path>}*   |  ok:<id>:<hex path>{…}*  |
           LookupError | IncompatibleSchemaVersion | AssertionError -/
import Signac.Wire
import Signac.Discovery
open Signac Signac.Disc

def pathOfString (s : String) : Path := ((s.splitOn "/").filter (fun c => !c.isEmpty)).reverse

def pathToString (p : Path) : String := "/" ++ "/".intercalate p.reverse

def parsePath (hx : String) : Option Path := (unhex hx).map pathOfString

def parseKind (s : String) : Option Kind :=
  if s = "a" then some .absent else if s = "f" then some .file else if s = "d" then some .dir else none

def parseCfg (s : String) : Option (Option (Option Nat)) :=
  if s = "-" then some none else if s = "n" then some (some none) else s.toNat?.map (fun v => some (some v))

def parseRc (s : String) : Option (Option Nat) :=
  if s = "-" then some none else s.toNat?.map some

def parseNodes : Nat → List String → Option (List Node × List String)
  | 0, ts => some ([], ts)
  | n + 1, p :: k :: c :: r :: ts => do
    let p ← parsePath p
    let k ← parseKind k
    let c ← parseCfg c
    let r ← parseRc r
    let (ns, rest) ← parseNodes n ts
    pure (⟨p, k, c, r⟩ :: ns, rest)
  | _, _ => none

def errName : Err → String
  | .lookup => "LookupError"
  | .incompatible => "IncompatibleSchemaVersion"
  | .assertion => "AssertionError"

def stepStr : Step → String
  | .mkdir p => ":+d" ++ toHex (pathToString p)
  | .writeConfig p => ":+c" ++ toHex (pathToString p)

def stepsStr (ss : List Step) : String := String.join (ss.map stepStr)

def showProj (r : Except Err Path × List Step) : String :=
  match r with
  | (.ok q, ss) => "ok:" ++ toHex (pathToString q) ++ stepsStr ss
  | (.error e, _) => errName e

def showJob (r : Except Err (String × Path) × List Step) : String :=
  match r with
  | (.ok (j, q), ss) => "ok:" ++ j ++ ":" ++ toHex (pathToString q) ++ stepsStr ss
  | (.error e, _) => errName e

def answer (t : Tree) (op : String) (cwd : Path) (raw : Option String) : Option String :=
  let p := match raw with
    | none => cwd
    | some r => absPath cwd r
  if op = "gp1" then some (showProj (getProject t p true))
  else if op = "gp0" then some (showProj (getProject t p false))
  else if op = "gj" then some (showJob (getJob t p))
  else if op = "init" then some (showProj (initProject t p))
  else if op = "open" then some (showProj (openProject t p))
  else none

def parseRaw (s : String) : Option (Option String) :=
  if s = "-" then some none
  else match s.toList with
    | 'r' :: hx => (unhex (String.ofList hx)).map some
    | _ => none

def answers (t : Tree) : Nat → List String → Option (List String)
  | 0, [] => some []
  | n + 1, op :: cwd :: raw :: ts => do
    let cwd ← parsePath cwd
    let raw ← parseRaw raw
    let a ← answer t op cwd raw
    let rest ← answers t n ts
    pure (a :: rest)
  | _, _ => none

def stepDisc (line : String) : String :=
  match tokens line with
  | "T" :: n :: ts =>
    match n.toNat? with
    | none => "bad-value"
    | some n =>
      match parseNodes n ts with
      | some (ns, "Q" :: m :: qs) =>
        match m.toNat? with
        | none => "bad-value"
        | some m =>
          match answers (Tree.ofNodes ns) m qs with
          | some as => " ".intercalate as
          | none => "bad-value"
      | _ => "bad-value"
  | _ => "bad-op"

def main : IO Unit := driverLoop stepDisc

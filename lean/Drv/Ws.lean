/-
  drv_ws — driver for the workspace model (C02, C03, C04).
  Input line:  `run <op> @h1,h2,… | <op> @… | …`
  Output line: one token per op  `<result>:<digest p0>:<digest p1>:<digest of the listed handles>`
  Digests are `calcId` of a JSON rendering of the state, so the harness can compute the
  same digest from what a fresh session sees of the real workspace.
-/
import Signac.Json
import Signac.Md5
import Signac.Wire
import Signac.PyVal
import Signac.Workspace
open Signac Signac.Ws

def resStr : Res → String
  | .ok => "ok"
  | .okId i => "ok=" ++ i
  | .keyError => "KeyError"
  | .lookupError => "LookupError"
  | .destExists => "DestinationExistsError"
  | .runtimeError => "RuntimeError"
  | .valueError => "ValueError"
  | .typeError => "TypeError"
  | .recursionError => "RecursionError"
  | .undefinedHandle => "undefined"

def jobsVal (js : Jobs) : JVal :=
  .obj (js.map fun (id, jd) =>
    (id, .obj [("sp", jd.sp), ("doc", .obj jd.doc),
               ("files", .obj (jd.files.map fun (n, c) => (n, JVal.str c)))]))

def handlesVal (hs : List (String × Handle)) (names : List String) : JVal :=
  .obj ((hs.filter fun (n, _) => names.contains n).map fun (n, hd) =>
    (n, .obj [("p", .int hd.proj), ("id", .str (calcId hd.sp))]))

def strTok (t : String) : Option String :=
  match t.toList with
  | 'S' :: hx => unhex (String.ofList hx)
  | _ => none

def objEntries : JVal → Option (List (String × JVal))
  | .obj kvs => some kvs
  | _ => none

def parseOp (ts : List String) : Option Op :=
  match ts with
  | "open" :: h :: p :: rest => do
    let p ← p.toNat?
    let (v, r) ← parseValue rest
    if r.isEmpty then pure (.openSp h p v) else none
  | "openid" :: h :: p :: pre :: rest => do
    let p ← p.toNat?
    let pre ← strTok pre
    match rest with
    | ["-"] => pure (.openId h p pre none)
    | _ =>
      let (v, r) ← parseValue rest
      if r.isEmpty then pure (.openId h p pre (some v)) else none
  | ["init", h] => some (.init h)
  | "dset" :: h :: k :: rest => do
    let k ← strTok k
    let (v, r) ← parseValue rest
    if r.isEmpty then pure (.dset h k v) else none
  | ["ddel", h, k] => (strTok k).map (.ddel h)
  | ["dclear", h] => some (.dclear h)
  | "dreset" :: h :: rest => do
    let (v, r) ← parseValue rest
    let kvs ← objEntries v
    if r.isEmpty then pure (.dreset h kvs) else none
  | ["put", h, n, c] => do
    let n ← strTok n
    let c ← strTok c
    pure (.put h n c)
  | ["clear", h] => some (.clear h)
  | ["reset", h] => some (.reset h)
  | ["remove", h] => some (.remove h)
  | "spset" :: h :: k :: rest => do
    let k ← strTok k
    let (v, r) ← parseValue rest
    if r.isEmpty then pure (.spset h k v) else none
  | ["spdel", h, k] => (strTok k).map (.spdel h)
  | "spnest" :: h :: k :: k2 :: rest => do
    let k ← strTok k
    let k2 ← strTok k2
    let (v, r) ← parseValue rest
    if r.isEmpty then pure (.spnest h k k2 v) else none
  | "spassign" :: h :: rest => do
    let (v, r) ← parseValue rest
    if r.isEmpty then pure (.spassign h v) else none
  | "update" :: h :: ow :: rest => do
    let (v, r) ← parseValue rest
    let kvs ← objEntries v
    if r.isEmpty then pure (.update h kvs (ow == "T")) else none
  | ["move", h, p] => p.toNat?.map (.move h)
  | ["clone", h, p, h2] => p.toNat?.map (fun p => .clone h p h2)
  | ["ucache", p] => p.toNat?.map .ucache
  | ["rmcache", p] => p.toNat?.map .rmcache
  | ["session", p] => p.toNat?.map .session
  | ["copy", h, h2] => some (.copy h h2)
  | ["deepcopy", h, h2] => some (.deepcopy h h2)
  | ["pickle", h, h2] => some (.pickle h h2)
  | ["drop", h] => some (.drop h)
  | ["plant", p, n] => do
    let p ← p.toNat?
    let n ← strTok n
    pure (.plant p n)
  | _ => none

/-- split a token list at the separator `|` -/
def splitBar : List String → List (List String)
  | [] => [[]]
  | t :: ts =>
    match splitBar ts with
    | [] => [[t]]
    | g :: gs => if t == "|" then [] :: g :: gs else (t :: g) :: gs

def namesOf (t : String) : List String :=
  ((String.ofList (t.toList.drop 1)).splitOn ",").filter (fun s => !s.isEmpty)

/-- One wire operation = one or more model steps.  `xinit p <value>`: ANOTHER session creates the job —
    open by state point, `init`, forget the handle (a private handle name no history uses). -/
def parseOps (ts : List String) : Option (List Op) :=
  match ts with
  | "xinit" :: p :: rest => do
    let p ← p.toNat?
    let (v, r) ← parseValue rest
    if r.isEmpty then pure [.openSp "\x01other-session" p v, .init "\x01other-session", .drop "\x01other-session"]
    else none
  | _ => (parseOp ts).map fun op => [op]

def runLine (groups : List (List String)) : String :=
  let rec go (w : World) (gs : List (List String)) (acc : List String) : List String :=
    match gs with
    | [] => acc.reverse
    | g :: rest =>
      let (opToks, names) := match g.reverse with
        | last :: init => if last.startsWith "@" then (init.reverse, namesOf last) else (g, [])
        | [] => (g, [])
      match parseOps opToks with
      | none => ("bad-op" :: acc).reverse
      | some ops =>
        -- the result of a macro is that of its first failing step, else of the `init` (second) step
        let (w', r) := ops.foldl (fun (wr : World × Option Res) op =>
          let (w2, r2) := step calcId wr.1 op
          (w2, match wr.2 with
               | some prev => if prev.isOk then (if op matches .drop _ then some prev else some r2) else some prev
               | none => some r2)) (w, none)
        let r := r.getD .ok
        let out := resStr r ++ ":" ++ calcId (jobsVal w'.p0) ++ ":" ++ calcId (jobsVal w'.p1) ++ ":"
                   ++ calcId (handlesVal w'.handles names)
        go w' rest (out :: acc)
  " ".intercalate (go World.empty groups [])

def stepWs (line : String) : String :=
  match tokens line with
  | "run" :: ts => runLine (splitBar ts)
  | _ => "bad-op"

def main : IO Unit := driverLoop stepWs

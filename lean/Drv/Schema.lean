/- driver for C18 (schema detection, job diffs).
   `schema <0|1> <n> (S<hex id> <state point value>)*n`
        jobs in the iteration order of the index; answer
        `<hex key>><type>=<v>,<v>;<type>=...|<hex key>>...`  keys, types and values sorted
   `diff <n> (S<hex id> <state point value>)*n`
        jobs in argument order; answer `<hex id>><wire of the key-sorted diff>|...`
   `flat <state point value>`  -> `<hex dotted key>=<v>|...` in yield order
   `unflat <state point value>` -> wire of `unflatten (flatten sp)` (entry order as produced)
   `gate <nS> (S<hex id> <value>)*nS <nD> (S<hex id> <value>)*nD`
        source jobs, then destination jobs (index order each); answer `g1` (SchemaSyncConflict) / `g0`
   `sdiff <0|1 = ignore_values> <nA> jobsA... <nB> jobsB...`
        `detect_schema(A).difference(detect_schema(B), ignore_values)`: hex keys, sorted, joined by `|` -/
import Signac.Json
import Signac.PyVal
import Signac.Wire
import Signac.SchemaGate
open Signac Signac.Schema

def insertSorted (s : String) : List String → List String
  | [] => [s]
  | t :: ts => if s < t then s :: t :: ts else t :: insertSorted s ts

def sortStrings (l : List String) : List String := l.foldl (fun acc s => insertSorted s acc) []

def parseJobs : Nat → List String → Option (List Job × List String)
  | 0, ts => some ([], ts)
  | n + 1, t :: ts =>
    match t.toList with
    | 'S' :: hx =>
      match unhex (String.ofList hx) with
      | some id =>
        match parseValue ts with
        | some (.obj kvs, rest) =>
          match parseJobs n rest with
          | some (js, rest') => some ({ id := id, sp := kvs } :: js, rest')
          | none => none
        | _ => none
      | none => none
    | _ => none
  | _ + 1, [] => none

def renderVal (v : JVal) : String := wire (canon v)

def renderTypes (tvs : List (String × List JVal)) : String :=
  ";".intercalate (sortStrings (tvs.map (fun tv =>
    tv.1 ++ "=" ++ ",".intercalate (sortStrings (tv.2.map renderVal)))))

def renderSchema (s : List (String × List (String × List JVal))) : String :=
  "|".intercalate (sortStrings (s.map (fun kv => toHex kv.1 ++ ">" ++ renderTypes kv.2)))

def renderDiff (d : List (String × KVs)) : String :=
  "|".intercalate (d.map (fun kv => toHex kv.1 ++ ">" ++ renderVal (.obj kv.2)))

def stepSchema (line : String) : String :=
  match tokens line with
  | "schema" :: ex :: n :: ts =>
    match (if ex = "0" then some false else if ex = "1" then some true else none), n.toNat? with
    | some excl, some n =>
      match parseJobs n ts with
      | some (jobs, []) => renderSchema (detectSchema excl jobs)
      | _ => "bad-value"
    | _, _ => "bad-value"
  | "diff" :: n :: ts =>
    match n.toNat? with
    | some n =>
      match parseJobs n ts with
      | some (jobs, []) => renderDiff (diffJobs jobs)
      | _ => "bad-value"
    | none => "bad-value"
  | "flat" :: ts =>
    match parseValue ts with
    | some (.obj kvs, []) =>
      "|".intercalate ((flatten kvs).map (fun kv => toHex kv.1 ++ "=" ++ wire kv.2))
    | _ => "bad-value"
  | "unflat" :: ts =>
    match parseValue ts with
    | some (.obj kvs, []) => wire (.obj (unflatten (flatten kvs)))
    | _ => "bad-value"
  | "gate" :: n :: ts =>
    match n.toNat? with
    | some n =>
      match parseJobs n ts with
      | some (src, m :: ts') =>
        match m.toNat? with
        | some m =>
          match parseJobs m ts' with
          | some (dst, []) => if syncGate src dst then "g1" else "g0"
          | _ => "bad-value"
        | none => "bad-value"
      | _ => "bad-value"
    | none => "bad-value"
  | "sdiff" :: ig :: n :: ts =>
    match (if ig = "0" then some false else if ig = "1" then some true else none), n.toNat? with
    | some ign, some n =>
      match parseJobs n ts with
      | some (ja, m :: ts') =>
        match m.toNat? with
        | some m =>
          match parseJobs m ts' with
          | some (jb, []) =>
            "|".intercalate (sortStrings
              ((schemaDifference ign (detectSchema false ja) (detectSchema false jb)).map toHex))
          | _ => "bad-value"
        | none => "bad-value"
      | _ => "bad-value"
    | _, _ => "bad-value"
  | _ => "bad-op"

def main : IO Unit := driverLoop stepSchema

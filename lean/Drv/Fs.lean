/- driver for the FS-step model (C10).  One request per line, `|` separates sections.

   paths     hex of the UTF-8 of the canonical `/`-separated path (fsx canonical form)
   steps     create P | opena P | openu P | write P n e1 … en | truncate P n | close P | fsync P
             | replace A B | rename A B | unlink P | rmdir P | mkdir P | symlink TARGETHEX P | read P
             (content units e_i are natural numbers: ids of the pieces a real chunk was cut into)
   init      f P n e1 … en | d P | l P TARGETHEX

   atomic T1 … Tn | steps                  ->  AtomicOn Ti steps, e.g. `true false`
   proto | steps                           ->  `flush T1:kind1 …` when the steps are literally a flush over
                                               unrelated paths (kind: tmpOf | tildeOf | other), else `none`
   crash K P T1 … Tn | init | steps        ->  for the state `crashAt init steps K P`: one tag per target
                                               (old | new | absent | torn | other) and `strays=` the other
                                               mentioned paths whose node differs from the initial one
   read POS T | init | steps               ->  tag of what a `read T` inserted before step POS sees
-/
import Signac.FsSteps
import Signac.Wire
open Signac Signac.Fs

def parsePath (tok : String) : Option Path :=
  (unhex tok).map (fun s => s.splitOn "/")

def takeNats : Nat → List String → Option (List Nat × List String)
  | 0, ts => some ([], ts)
  | _ + 1, [] => none
  | n + 1, t :: ts => do
    let x ← t.toNat?
    let (xs, rest) ← takeNats n ts
    pure (x :: xs, rest)

def parseSteps : Nat → List String → Option (List (Step Nat))
  | _, [] => some []
  | 0, _ => none
  | fuel + 1, kind :: ts =>
    match kind, ts with
    | "write", p :: n :: rest => do
      let p ← parsePath p
      let n ← n.toNat?
      let (xs, rest') ← takeNats n rest
      let more ← parseSteps fuel rest'
      pure (.append p xs :: more)
    | "truncate", p :: n :: rest => do
      let p ← parsePath p
      let n ← n.toNat?
      let more ← parseSteps fuel rest
      pure (.truncate p n :: more)
    | "replace", a :: b :: rest => do
      let a ← parsePath a
      let b ← parsePath b
      let more ← parseSteps fuel rest
      pure (.rename a b :: more)
    | "rename", a :: b :: rest => do
      let a ← parsePath a
      let b ← parsePath b
      let more ← parseSteps fuel rest
      pure (.rename a b :: more)
    | "symlink", tg :: p :: rest => do
      let tg ← unhex tg
      let p ← parsePath p
      let more ← parseSteps fuel rest
      pure (.symlink tg p :: more)
    | k, p :: rest => do
      let p ← parsePath p
      let more ← parseSteps fuel rest
      let s ← (match k with
        | "create" => some (Step.create p)
        | "opena" => some (.openAppend p)
        | "openu" => some (.openAppend p)
        | "close" => some (.close p)
        | "fsync" => some (.fsync p)
        | "unlink" => some (.unlink p)
        | "rmdir" => some (.rmdir p)
        | "mkdir" => some (.mkdir p)
        | "read" => some (.read p)
        | _ => none)
      pure (s :: more)
    | _, _ => none

def parseInit : Nat → List String → Option (List (Path × Node Nat))
  | _, [] => some []
  | 0, _ => none
  | fuel + 1, kind :: ts =>
    match kind, ts with
    | "f", p :: n :: rest => do
      let p ← parsePath p
      let n ← n.toNat?
      let (xs, rest') ← takeNats n rest
      let more ← parseInit fuel rest'
      pure ((p, .file xs) :: more)
    | "d", p :: rest => do
      let p ← parsePath p
      let more ← parseInit fuel rest
      pure ((p, .dir) :: more)
    | "l", p :: tg :: rest => do
      let p ← parsePath p
      let tg ← unhex tg
      let more ← parseInit fuel rest
      pure ((p, .link tg) :: more)
    | _, _ => none

def initFs (entries : List (Path × Node Nat)) : FS Nat :=
  fun q => (entries.find? (fun e => e.1 == q)).map (·.2)

def splitBar (ts : List String) : List (List String) :=
  ts.foldr (fun t acc =>
    if t == "|" then [] :: acc
    else match acc with
      | [] => [[t]]
      | a :: rest => (t :: a) :: rest) [[]]

def parsePaths (ts : List String) : Option (List Path) := ts.mapM parsePath

def stepPaths : Step Nat → List Path
  | .create p => [p] | .openAppend p => [p] | .append p _ => [p] | .truncate p _ => [p]
  | .close p => [p] | .fsync p => [p] | .rename a b => [a, b] | .unlink p => [p]
  | .mkdir p => [p] | .rmdir p => [p] | .symlink _ p => [p] | .read p => [p]

def tagOf (fs0 final f : FS Nat) (t : Path) : String :=
  if f t = fs0 t then "old"
  else if f t = final t then "new"
  else match f t with
    | none => "absent"
    | some (.file _) => "torn"
    | some _ => "other"

def insertSorted (s : String) : List String → List String
  | [] => [s]
  | x :: xs => if s < x then s :: x :: xs else if s = x then x :: xs else x :: insertSorted s xs

def pathHex (p : Path) : String := toHex ("/".intercalate p)

def kindOf (w : W Nat) : String :=
  if w.tmp = tmpOf w.t then "tmpOf" else if w.tmp = tildeOf w.t then "tildeOf" else "other"

def boolStr (b : Bool) : String := if b then "true" else "false"

def stepFs (line : String) : String :=
  match splitBar (tokens line) with
  | ["atomic" :: ts, steps] =>
    match parsePaths ts, parseSteps (steps.length + 1) steps with
    | some targets, some ss => " ".intercalate (targets.map (fun t => boolStr (AtomicOn t ss)))
    | _, _ => "bad-value"
  | [["proto"], steps] =>
    match parseSteps (steps.length + 1) steps with
    | some ss =>
      match asFlush ss with
      | some ws => " ".intercalate ("flush" :: ws.map (fun w => pathHex w.t ++ ":" ++ kindOf w))
      | none => "none"
    | none => "bad-value"
  | ["crash" :: k :: p :: ts, ini, steps] =>
    match k.toNat?, p.toNat?, parsePaths ts, parseInit (ini.length + 1) ini, parseSteps (steps.length + 1) steps with
    | some k, some p, some targets, some entries, some ss =>
      let fs0 := initFs entries
      let final := run fs0 ss
      let f := crashAt fs0 ss k p
      let mentioned := entries.map (·.1) ++ ss.flatMap stepPaths
      let strays := (mentioned.filter (fun q => !targets.contains q && decide (f q ≠ fs0 q))).foldl
        (fun acc q => insertSorted (pathHex q) acc) []
      " ".intercalate (targets.map (tagOf fs0 final f)) ++ " strays=" ++ ",".intercalate strays
    | _, _, _, _, _ => "bad-value"
  | [["read", pos, t], ini, steps] =>
    match pos.toNat?, parsePath t, parseInit (ini.length + 1) ini, parseSteps (steps.length + 1) steps with
    | some pos, some t, some entries, some ss =>
      let fs0 := initFs entries
      let final := run fs0 ss
      let log := readLog fs0 (ss.take pos ++ .read t :: ss.drop pos)
      match log.filter (fun e => e.1 == t) with
      | [(_, v)] => tagOf fs0 final (fun _ => v) t
      | _ => "bad-value"
    | _, _, _, _ => "bad-value"
  | _ => "bad-op"

def main : IO Unit := driverLoop stepFs

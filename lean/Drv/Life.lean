/- driver stub (Life): replaced by the owner of this model group -/
import Signac.Wire
open Signac
def main : IO Unit := driverLoop (fun _ => "bad-op")

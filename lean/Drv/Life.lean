/- driver for the lifecycle model (C11).  One line in, one line out.

   exec <world> <op> <events>
     world  := <n> dir*            dir := <proj> <id> <optc> <optc> <ns> (x<hexname> <c>)* <ne> (x<hexpath> (F x<hex> | D))*
     optc   := - | <c>             c   := K <wire JSON value> | J x<hex bytes>
     op     := init <p> <value> <T|F>
             | rekey <p> <old id> <value>
             | move <p> <id> <q>
             | clone <p> <id> <q> <refs> | remove <p> <id> <refs> | clear <p> <id> <refs>
             | reset <p> <id> <value> <refs>        (Job.reset() = clear(); init(): `resetProg`)
     refs   := <n> (s | b | t x<hexname> | f x<hexpath> | d x<hexpath>)*
     events := <n> (<step> F <errno> | <step> C | <step> T <bytes>)*
   answer:  ev <events as given>|<result>|<step>,<step>,…|<dir>;<dir>;…|<ids check() reports in project 0>|<… project 1>
-/
import Signac.Json
import Signac.Md5
import Signac.Wire
import Signac.Lifecycle
open Signac Signac.Life

def jcodec : Codec JVal := { hash := calcId, text := fun v => String.ofList (dumpChars v) }

def unx (t : String) : Option String :=
  match t.toList with
  | 'x' :: rest => unhex (String.ofList rest)
  | _ => none

abbrev P (α : Type) := List String → Option (α × List String)

def pNat : P Nat
  | t :: ts => t.toNat?.map (·, ts)
  | [] => none

def pStr : P String
  | t :: ts => (unx t).map (·, ts)
  | [] => none

def pContent : P (Content JVal)
  | "K" :: ts => (parseValue ts).map (fun (v, r) => (.ok v, r))
  | "J" :: t :: ts => (unx t).map (fun s => (.junk s, ts))
  | _ => none

def pOptContent : P (Option (Content JVal))
  | "-" :: ts => some (none, ts)
  | ts => (pContent ts).map (fun (c, r) => (some c, r))

def pMany {α} (p : P α) : Nat → P (List α)
  | 0, ts => some ([], ts)
  | n + 1, ts => do
    let (x, r) ← p ts
    let (xs, r') ← pMany p n r
    pure (x :: xs, r')

def pCounted {α} (p : P α) : P (List α) := fun ts => do
  let (n, r) ← pNat ts
  pMany p n r

def pStray : P (String × Content JVal) := fun ts => do
  let (n, r) ← pStr ts
  let (c, r') ← pContent r
  pure ((n, c), r')

def pEntry : P (String × Option String) := fun ts => do
  let (p, r) ← pStr ts
  match r with
  | "F" :: t :: r' => (unx t).map (fun b => ((p, some b), r'))
  | "D" :: r' => some ((p, none), r')
  | _ => none

def pDir : P (Key × JobDir JVal) := fun ts => do
  let (p, r) ← pNat ts
  match r with
  | id :: r =>
    let (sp, r) ← pOptContent r
    let (bak, r) ← pOptContent r
    let (strays, r) ← pCounted pStray r
    let (entries, r) ← pCounted pEntry r
    pure (((p, id), { sp := sp, bak := bak, strays := strays, entries := entries }), r)
  | [] => none

def pRef : P Ref
  | "s" :: ts => some (.sp, ts)
  | "b" :: ts => some (.bak, ts)
  | "t" :: t :: ts => (unx t).map (fun s => (.stray s, ts))
  | "f" :: t :: ts => (unx t).map (fun s => (.file s, ts))
  | "d" :: t :: ts => (unx t).map (fun s => (.dir s, ts))
  | _ => none

def pErrno : String → Option Errno
  | "EIO" => some .EIO | "ENOSPC" => some .ENOSPC | "EACCES" => some .EACCES | "EXDEV" => some .EXDEV
  | "EROFS" => some .EROFS | "ENOENT" => some .ENOENT | "EEXIST" => some .EEXIST | "ENOTEMPTY" => some .ENOTEMPTY
  | _ => none

def pEvent : P (Nat × Ev) := fun ts => do
  let (k, r) ← pNat ts
  match r with
  | "F" :: e :: r' => (pErrno e).map (fun e => ((k, .fault e), r'))
  | "C" :: r' => some ((k, .crash), r')
  | "T" :: r' => do
    let (t, r'') ← pNat r'
    pure ((k, .torn t), r'')
  | _ => none

def pBool : P Bool
  | "T" :: ts => some (true, ts)
  | "F" :: ts => some (false, ts)
  | _ => none

/-- the operation and the keys it may create -/
def pOp : P (Op JVal × List Key) := fun ts =>
  match ts with
  | "init" :: r => do
    let (p, r) ← pNat r
    let (v, r) ← parseValue r
    let (f, r) ← pBool r
    pure ((.init (p, calcId v) v f, [(p, calcId v)]), r)
  | "rekey" :: r => do
    let (p, r) ← pNat r
    match r with
    | old :: r =>
      let (v, r) ← parseValue r
      pure ((.rekey (p, old) (p, calcId v) v, [(p, old), (p, calcId v)]), r)
    | [] => none
  | "move" :: r => do
    let (p, r) ← pNat r
    match r with
    | id :: r =>
      let (q, r) ← pNat r
      pure ((.move (p, id) (q, id), [(p, id), (q, id)]), r)
    | [] => none
  | "clone" :: r => do
    let (p, r) ← pNat r
    match r with
    | id :: r =>
      let (q, r) ← pNat r
      let (refs, r) ← pCounted pRef r
      pure ((.clone (p, id) (q, id) refs, [(p, id), (q, id)]), r)
    | [] => none
  | "remove" :: r => do
    let (p, r) ← pNat r
    match r with
    | id :: r =>
      let (refs, r) ← pCounted pRef r
      pure ((.remove (p, id) refs, [(p, id)]), r)
    | [] => none
  | "clear" :: r => do
    let (p, r) ← pNat r
    match r with
    | id :: r =>
      let (refs, r) ← pCounted pRef r
      pure ((.clear (p, id) refs, [(p, id)]), r)
    | [] => none
  | _ => none

/-- the program to run and the keys it may create: the six operations of `pOp` (unchanged) and
    `reset <proj> <id> <value> <refs>` = `Job.reset()` of the job in directory `<id>` whose in-memory
    state point is `<value>`: `clear` with scan order `<refs>`, then `init` (no force) -/
def pCmd : P (Prog JVal × List Key) := fun ts =>
  match ts with
  | "reset" :: r => do
    let (p, r) ← pNat r
    match r with
    | id :: r =>
      let (v, r) ← parseValue r
      let (refs, r) ← pCounted pRef r
      pure ((resetProg jcodec (p, id) refs v, [(p, id)]), r)
    | [] => none
  | ts => (pOp ts).map (fun ((op, keys), r) => ((op.prog jcodec, keys), r))

def worldOf (dirs : List (Key × JobDir JVal)) : World JVal :=
  fun k => (dirs.find? (fun kd => kd.1 = k)).map (·.2)

def evOf (evs : List (Nat × Ev)) : Nat → Option Ev :=
  fun n => (evs.find? (fun ke => ke.1 = n)).map (·.2)

/- ---- rendering ---- -/
def keyPath (k : Key) : String := "P" ++ toString k.1 ++ "/" ++ k.2

def refPath (k : Key) (r : Ref) : String := keyPath k ++ "/" ++ r.path

def blen (c : Content JVal) : String := toString (c.bytes jcodec).utf8ByteSize

def renderStep : Step JVal → String
  | .mkdir k => "mkdir " ++ keyPath k
  | .tmpOpen k n => "open " ++ keyPath k ++ "/._TMP_" ++ n ++ " w"
  | .tmpWrite k n c => "write " ++ keyPath k ++ "/._TMP_" ++ n ++ " " ++ blen c
  | .tmpCommit k n => "replace " ++ keyPath k ++ "/._TMP_" ++ n ++ " " ++ keyPath k ++ "/" ++ n
  | .spToBak k => "replace " ++ refPath k .sp ++ " " ++ refPath k .bak
  | .bakToSp k => "replace " ++ refPath k .bak ++ " " ++ refPath k .sp
  | .rmBak k => "remove " ++ refPath k .bak
  | .rmSp k => "remove " ++ refPath k .sp
  | .renameDir a b => "replace " ++ keyPath a ++ " " ++ keyPath b
  | .rmItem k (.dir p) => "rmdir " ++ keyPath k ++ "/" ++ p
  | .rmItem k r => "remove " ++ refPath k r
  | .rmJobDir k => "rmdir " ++ keyPath k
  | .cpMkdir k p => if p = "" then "mkdir " ++ keyPath k else "mkdir " ++ keyPath k ++ "/" ++ p
  | .cpOpen k r => "open " ++ refPath k r ++ " w"
  | .cpWrite k r c => "write " ++ refPath k r ++ " " ++ blen c

def renderContent : Content JVal → String
  | .ok v => "K" ++ toHex (String.ofList (dumpChars v))
  | .junk s => "J" ++ toHex s

def renderOpt : Option (Content JVal) → String
  | none => "-"
  | some c => renderContent c

def sortStrs (xs : List String) : List String := xs.mergeSort (fun a b => decide (a ≤ b))

def renderDir (k : Key) (d : JobDir JVal) : String :=
  keyPath k ++ "{S=" ++ renderOpt d.sp ++ " B=" ++ renderOpt d.bak ++ " T=" ++
    ",".intercalate (sortStrs (d.strays.map (fun nc => nc.1 ++ ":" ++ renderContent nc.2))) ++ " E=" ++
    ",".intercalate (sortStrs (d.entries.map (fun pb => pb.1 ++ ":" ++
      (match pb.2 with | none => "D" | some b => "F" ++ toHex b)))) ++ "}"

def dedupKeys : List Key → List Key
  | [] => []
  | k :: ks => if ks.contains k then dedupKeys ks else k :: dedupKeys ks

def renderWorld (w : World JVal) (keys : List Key) : String :=
  ";".intercalate (sortStrs (keys.filterMap (fun k => (w k).map (renderDir k))))

def renderRes : Res → String
  | .ok => "ok"
  | .exc n => "exc:" ++ n
  | .crashed => "crashed"

def renderCheck (w : World JVal) (keys : List Key) (p : Nat) : String :=
  ",".intercalate (sortStrs (check jcodec w p ((keys.filter (fun k => k.1 = p ∧ (w k).isSome)).map (·.2))))

def stepLife (line : String) : String :=
  match tokens line with
  | "exec" :: ts =>
    match pCounted pDir ts with
    | none => "bad-value"
    | some (dirs, r) =>
      match pCmd r with
      | none => "bad-op"
      | some ((prog, opKeys), r) =>
        match pCounted pEvent r with
        | some (evs, []) =>
          let w := worldOf dirs
          let keys := dedupKeys (dirs.map (·.1) ++ opKeys)
          let out := run jcodec (evOf evs) prog w
          "ev " ++ " ".intercalate r ++ "|" ++ renderRes out.res ++ "|" ++ ",".intercalate (out.acc.trace.reverse.map renderStep) ++ "|" ++
            renderWorld out.w keys ++ "|" ++ renderCheck out.w keys 0 ++ "|" ++ renderCheck out.w keys 1
        | _ => "bad-value"
  | _ => "bad-op"

def main : IO Unit := driverLoop stepLife

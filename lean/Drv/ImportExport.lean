/- driver for C16 (export / import).  One request per line, one answer per line.

   values      : as in Signac.Wire
   strings     : S<hex utf8>
   project     : P<n> job*          job := J S<id> <sp value> F<m> (S<rel path> <content>)*
                 content := s (state point file of this job) | b<nat> (other bytes) | d (empty sub-directory)
   path spec   : none | id | fmt N<n> piece* | call N<n> S<path>*
                 piece := L<hex> | K<hex key> | Q<hex key> | I | A | U<hex sep>
   schema      : none | str S<schema string> | tab N<n> (S<rel path> <value>)*
   target      : dir | zip | tar

   auto <A|U<hex>> <project>                      -> per job  S<hex path> | !
   paths <spec> <project>                         -> ok S<path>* | err <Name>
   checks N<n> S<path>*                           -> u<0|1> l<0|1> c<0|1>   (unique, leaf/node repaired, leaf/node as coded)
   members <target> <spec> <project>              -> ok (<hex path>:<content>)* | err <Name>     (sorted; tar adds <hex>:d)
   rt <target> <spec> <schema> <dst project> <project> [W<n> S<dir>*]      (W: os.walk order of the exported tree, dir only)
                                                  -> export-err <Name> | (ok | err <Name>) <project rendering>
   parse S<schema> S<path>                        -> none | <value> | bad-schema
   render S<schema> <value>                       -> S<path> | none | bad-schema
   norm S<path>                                   -> S<normpath>
   join N<n> S<token>*                            -> S<os.path.join(*tokens)>
-/
import Signac.Json
import Signac.Md5
import Signac.Wire
import Signac.ImportExport
open Signac Signac.IE

abbrev Toks := List String

def pStr : Toks → Option (String × Toks)
  | t :: ts =>
    match t.toList with
    | 'S' :: hx => (unhex (String.ofList hx)).map (·, ts)
    | _ => none
  | [] => none

def pNat (tag : Char) : Toks → Option (Nat × Toks)
  | t :: ts =>
    match t.toList with
    | c :: rest => if c = tag then (String.ofList rest).toNat?.map (·, ts) else none
    | [] => none
  | [] => none

def pMany {α : Type} (p : Toks → Option (α × Toks)) : Nat → Toks → Option (List α × Toks)
  | 0, ts => some ([], ts)
  | n + 1, ts => do
    let (x, r) ← p ts
    let (xs, r') ← pMany p n r
    pure (x :: xs, r')

def relComps (s : String) : Comps := if s = "" ∨ s = "." then [] else splitSlash s

def pContent (sp : JVal) : Toks → Option (Content × Toks)
  | t :: ts =>
    match t.toList with
    | ['s'] => some (.sp sp, ts)
    | ['d'] => some (.dir, ts)
    | 'b' :: n => (String.ofList n).toNat?.map (fun k => (.blob k, ts))
    | _ => none
  | [] => none

def pFile (sp : JVal) (ts : Toks) : Option ((Comps × Content) × Toks) := do
  let (p, r) ← pStr ts
  let (c, r') ← pContent sp r
  pure ((relComps p, c), r')

def pJob : Toks → Option (Job × Toks)
  | "J" :: ts => do
    let (id, r) ← pStr ts
    let (sp, r) ← parseValue r
    let (m, r) ← pNat 'F' r
    let (fs, r) ← pMany (pFile sp) m r
    pure (⟨id, fs⟩, r)
  | _ => none

def pProject (ts : Toks) : Option (Project × Toks) := do
  let (n, r) ← pNat 'P' ts
  pMany pJob n r

def pPiece : Toks → Option (Piece × Toks)
  | t :: ts =>
    match t.toList with
    | ['I'] => some (.jobid, ts)
    | ['A'] => some (.auto none, ts)
    | 'L' :: hx => (unhex (String.ofList hx)).map (fun s => (.lit s, ts))
    | 'K' :: hx => (unhex (String.ofList hx)).map (fun s => (.key s, ts))
    | 'Q' :: hx => (unhex (String.ofList hx)).map (fun s => (.jobsp s, ts))
    | 'U' :: hx => (unhex (String.ofList hx)).map (fun s => (.auto (some s), ts))
    | _ => none
  | [] => none

def pSpec : Toks → Option (PathSpec × Toks)
  | "none" :: ts => some (.none, ts)
  | "id" :: ts => some (.byId, ts)
  | "fmt" :: ts => do
    let (n, r) ← pNat 'N' ts
    let (ps, r) ← pMany pPiece n r
    pure (.fmt ps, r)
  | "call" :: ts => do
    let (n, r) ← pNat 'N' ts
    let (ps, r) ← pMany pStr n r
    pure (.call ps, r)
  | _ => none

def pTabEntry (ts : Toks) : Option ((Comps × JVal) × Toks) := do
  let (p, r) ← pStr ts
  let (v, r) ← parseValue r
  pure ((relComps p, v), r)

/-- `some none` = a schema string outside the modelled fragment -/
def pSchema : Toks → Option (Option Schema × Toks)
  | "none" :: ts => some (some .none, ts)
  | "str" :: ts => do
    let (s, r) ← pStr ts
    pure ((parseSchema s).map Schema.pattern, r)
  | "tab" :: ts => do
    let (n, r) ← pNat 'N' ts
    let (es, r) ← pMany pTabEntry n r
    pure (some (.table es), r)
  | _ => none

def pTarget : Toks → Option (Target × Toks)
  | "dir" :: ts => some (.dir, ts)
  | "zip" :: ts => some (.zip, ts)
  | "tar" :: ts => some (.tar, ts)
  | _ => none

def spList (P : Project) : List (String × JVal) := P.map (fun j => (j.id, spOf j))

def hexPath (cs : Comps) : String := toHex (joinSlash cs)

def showContent (id : String) : Content → String
  | .sp v => if calcId v = id then "s" else "x"
  | .blob n => "b" ++ toString n
  | .dir => "d"

def memberLe (a b : String × String) : Bool := decide (a.1 < b.1) || (a.1 == b.1 && decide (a.2 ≤ b.2))

/-- sorted `hex(path):content` list -/
def showFiles (id : String) (fs : List (Comps × Content)) : List String :=
  let items := fs.map (fun fc => (joinSlash fc.1, showContent id fc.2))
  (sortBy memberLe items).map (fun pc => toHex pc.1 ++ ":" ++ pc.2)

def showProject (P : Project) : String :=
  let js := sortBy (fun (a b : Job) => decide (a.id ≤ b.id)) P
  " ".intercalate (js.map (fun j =>
    " ".intercalate (["J", toHex j.id, toString j.files.length] ++ showFiles j.id j.files)))

/-- physical components of every exported path (`none` cannot happen after `exportPaths` accepted) -/
def physAll (ds : List String) : Option (List Comps) :=
  match mapExcept (fun d =>
      match physComps d with
      | some cs => Except.ok cs
      | none => Except.error ()) ds with
  | .ok r => some r
  | .error _ => none

/-- sorted member list; a state point file is shown as `s` when it is the one of some exported job.
    zip: files only; tar: files + every directory member (`d`); dir: files + empty directories (`e`) -/
def memberList (t : Target) (P : Project) (ds : List Comps) : List String :=
  let showC : Content → String
    | .sp v => if P.any (fun j => calcId v = j.id) then "s" else "x"
    | .blob n => "b" ++ toString n
    | .dir => "e"
  let all := match t with
    | .zip => zipMembers P ds
    | .tar => (exportMembers P ds).filter (fun fc => !isDirEntry fc.2)
    | .dir => exportMembers P ds
  let fl := all.map (fun fc => (joinSlash fc.1, showC fc.2))
  let dl := match t with
    | .tar => (exportDirMembers P ds).map (fun d => (joinSlash d, "d"))
    | _ => []
  (sortBy memberLe (fl ++ dl)).map (fun pc => toHex pc.1 ++ ":" ++ pc.2)

def stepIE (line : String) : String :=
  match tokens line with
  | "auto" :: sepTok :: ts =>
    let sep : Option (Option String) := match sepTok.toList with
      | ['A'] => some none
      | 'U' :: hx => (unhex (String.ofList hx)).map some
      | _ => none
    match sep, pProject ts with
    | some sep, some (P, []) =>
      let jobs := spList P
      " ".intercalate (jobs.map (fun j => match autoPath jobs [] sep j.1 with
        | some p => "S" ++ toHex p
        | none => "!"))
    | _, _ => "bad-value"
  | "paths" :: ts =>
    match pSpec ts with
    | some (spec, r) =>
      match pProject r with
      | some (P, []) =>
        match exportProject spec P with
        | .ok ps => " ".intercalate ("ok" :: ps.map (fun p => "S" ++ toHex p))
        | .error e => "err " ++ e.name
      | _ => "bad-value"
    | none => "bad-value"
  | "checks" :: ts =>
    match pNat 'N' ts with
    | some (n, r) =>
      match pMany pStr n r with
      | some (ps, []) =>
        let b (x : Bool) := if x then "1" else "0"
        "u" ++ b (checkUnique ps) ++ " l" ++ b (checkLeafNode ps) ++ " c" ++ b (checkLeafNodeCoded [] ps)
      | _ => "bad-value"
    | none => "bad-value"
  | "members" :: ts =>
    match pTarget ts with
    | some (t, r) =>
      match pSpec r with
      | some (spec, r) =>
        match pProject r with
        | some (P, []) =>
          match exportProject spec P with
          | .error e => "err " ++ e.name
          | .ok ds =>
            match physAll ds with
            | none => "unsupported-path"
            | some cs => " ".intercalate ("ok" :: memberList t P cs)
        | _ => "bad-value"
      | none => "bad-value"
    | none => "bad-value"
  | "rt" :: ts =>
    match pTarget ts with
    | some (t, r) =>
      match pSpec r with
      | some (spec, r) =>
        match pSchema r with
        | some (schema, r) =>
          match pProject r with
          | some (dst, r) =>
            match pProject r with
            | some (P, wtoks) =>
              let worder : Option (Option (List Comps)) := match wtoks with
                | [] => some none
                | _ => match pNat 'W' wtoks with
                  | some (n, r) => match pMany pStr n r with
                    | some (ds, []) => some (some (ds.map relComps))
                    | _ => none
                  | none => none
              match worder with
              | none => "bad-value"
              | some worder =>
              match exportProject spec P with
              | .error e => "export-err " ++ e.name
              | .ok ds =>
                match physAll ds, schema with
                | none, _ => "unsupported-path"
                | _, none => "bad-schema"
                | some cs, some schema =>
                  let order := match worder with
                    | some o => o
                    | none => walkOrder (exportMembers P cs)
                  let res := importFrom t calcId schema dst P cs order
                  let shown := showProject res.proj
                  (match res.err with
                   | none => "ok"
                   | some e => "err " ++ e.name) ++ (if shown = "" then "" else " " ++ shown)
            | _ => "bad-value"
          | none => "bad-value"
        | none => "bad-value"
      | none => "bad-value"
    | none => "bad-value"
  | "parse" :: ts =>
    match pStr ts with
    | some (s, r) =>
      match pStr r with
      | some (p, []) =>
        match parseSchema s with
        | none => "bad-schema"
        | some sc =>
          match parsePath sc (splitSlash (normpath p)) with
          | some v => wire v
          | none => "none"
      | _ => "bad-value"
    | none => "bad-value"
  | "render" :: ts =>
    match pStr ts with
    | some (s, r) =>
      match parseValue r with
      | some (v, []) =>
        match parseSchema s with
        | none => "bad-schema"
        | some sc =>
          match formatPath sc v with
          | some cs => "S" ++ toHex (joinSlash cs)
          | none => "none"
      | _ => "bad-value"
    | none => "bad-value"
  | "norm" :: ts =>
    match pStr ts with
    | some (p, []) => "S" ++ toHex (normpath p)
    | _ => "bad-value"
  | "join" :: ts =>
    match pNat 'N' ts with
    | some (n, r) =>
      match pMany pStr n r with
      | some (ps, []) => "S" ++ toHex (osJoin ps)
      | _ => "bad-value"
    | none => "bad-value"
  | _ => "bad-op"

def main : IO Unit := driverLoop stepIE

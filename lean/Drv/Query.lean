/- driver for the query model (C06, C07).  One line in, one line out.

   find    <payload>   ->  "ok id,id,…" (corpus order) | "err <Exception>"      Project._find_job_ids
   ref     <payload>   ->  per job "T" | "F" | "E:<Exception>", comma separated    reference evaluator
   flat    <payload>   ->  "ok <wire of flattened, prefixed filter>" | "err …"     spelling normal form
   parse   <payload>   ->  "ok <wire of parse_filter_arg(tokens)>" | "none" | "err …"
   pstr    <payload>   ->  "ok <wire of dict(parse_filter(tokens as split str))>" | "err …"
   cursor  <payload>   ->  answers of len / getitem / slice / contains on a given id list
   groupby <payload>   ->  "ok label=id,id;label=id…" | "err …"

   payload = one wire value, a mapping with the fields each verb needs:
     jobs   [[id, sp, doc|null], …]     filter  <json>
     rx     [[pattern, string, "T"|"F"|"E"], …]          re.search table
     fstr   [[string, true|false], …]                    does float(string) succeed
     near   [[value, a, rel|null, abs|null, "T"|"F"|"E"], …]   math.isclose table
     toks   [string, …]   ints [[string, int|null]…]  floats [[string, float|null]…]
     jsons  [[string, value | null, ok?]…]
   A table entry that is missing answers like the exceptional outcome, never like a match. -/
import Signac.Query
import Signac.Wire
open Signac Signac.Query

def fieldOf (k : String) : JVal → Option JVal
  | .obj kvs => lookupKV k kvs
  | _ => none

def arrOf : Option JVal → Option (List JVal)
  | some (.arr xs) => some xs
  | _ => none

def strOf : JVal → Option String
  | .str s => some s
  | _ => none

def parseJobs : List JVal → Option Corpus
  | [] => some []
  | .arr [.str i, sp, d] :: rest => do
    let r ← parseJobs rest
    let doc : Option JVal := match d with
      | .null => none
      | x => some x
    pure (⟨i, sp, doc⟩ :: r)
  | _ => none

def rxTable (t : List JVal) (p s : String) : Option Bool :=
  match t with
  | [] => none
  | .arr [.str p', .str s', .str r] :: rest =>
    if p = p' ∧ s = s' then (if r = "T" then some true else if r = "F" then some false else none)
    else rxTable rest p s
  | _ :: rest => rxTable rest p s

def fstrTable (t : List JVal) (s : String) : Bool :=
  match t with
  | [] => false
  | .arr [.str s', .bool b] :: rest => if s = s' then b else fstrTable rest s
  | _ :: rest => fstrTable rest s

def wireOpt : Option JVal → String
  | none => "-"
  | some v => wire v

def nearKey (v a : JVal) (r t : Option JVal) : String :=
  wire v ++ "|" ++ wire a ++ "|" ++ wireOpt r ++ "|" ++ wireOpt t

def optOfNull : JVal → Option JVal
  | .null => none
  | v => some v

def nearTable (tb : List JVal) (v a : JVal) (r t : Option JVal) : Option Bool :=
  match tb with
  | [] => none
  | .arr [v', a', r', t', .str res] :: rest =>
    if nearKey v a r t = nearKey v' a' (optOfNull r') (optOfNull t') then
      (if res = "T" then some true else if res = "F" then some false else none)
    else nearTable rest v a r t
  | _ :: rest => nearTable rest v a r t

def paramsOf (pl : JVal) : Params :=
  let rx := (arrOf (fieldOf "rx" pl)).getD []
  let fs := (arrOf (fieldOf "fstr" pl)).getD []
  let nr := (arrOf (fieldOf "near" pl)).getD []
  { rx := rxTable rx, floatStr := fstrTable fs, isclose := nearTable nr }

def showIds (c : Corpus) (r : List JobId) : String :=
  ",".intercalate ((c.map (·.id)).filter (fun i => r.contains i))

def showRes (c : Corpus) : Except Err (List JobId) → String
  | .ok r => "ok " ++ showIds c r
  | .error e => "err " ++ e.name

def showBool : Except Err Bool → String
  | .ok true => "T"
  | .ok false => "F"
  | .error e => "E:" ++ e.name

mutual
  def fltToJson : Flt → JVal
    | .mk atoms n a o =>
      .obj (flatten atoms
        ++ (match n with | none => [] | some f => [("$not", fltToJson f)])
        ++ (match a with | none => [] | some fs => [("$and", .arr (fltsToJson fs))])
        ++ (match o with | none => [] | some fs => [("$or", .arr (fltsToJson fs))]))
  def fltsToJson : List Flt → List JVal
    | [] => []
    | f :: fs => fltToJson f :: fltsToJson fs
end

def tokStrings : List JVal → Option (List String)
  | [] => some []
  | .str s :: rest => (tokStrings rest).map (s :: ·)
  | _ => none

def intTable (t : List JVal) (s : String) : Option Int :=
  match t with
  | [] => none
  | .arr [.str s', .int i] :: rest => if s = s' then some i else intTable rest s
  | _ :: rest => intTable rest s

def floatTable (t : List JVal) (s : String) : Option JVal :=
  match t with
  | [] => none
  | .arr [.str s', .flt n e r] :: rest => if s = s' then some (.flt n e r) else floatTable rest s
  | _ :: rest => floatTable rest s

def jsonTable (t : List JVal) (s : String) : Option JVal :=
  match t with
  | [] => none
  | .arr [.str s', v, .bool true] :: rest => if s = s' then some v else jsonTable rest s
  | _ :: rest => jsonTable rest s

def cliParamsOf (pl : JVal) : CliParams :=
  { pyInt := intTable ((arrOf (fieldOf "ints" pl)).getD []),
    pyFloat := floatTable ((arrOf (fieldOf "floats" pl)).getD []),
    jsonLoads := jsonTable ((arrOf (fieldOf "jsons" pl)).getD []) }

def showLabelGroups (c : Corpus) : List (JVal × List JobId) → String
  | [] => ""
  | [(l, ids)] => canonLabel (canon l) ++ "=" ++ showIds c ids
  | (l, ids) :: rest => canonLabel (canon l) ++ "=" ++ showIds c ids ++ ";" ++ showLabelGroups c rest

def showOptIds : Option (List JobId) → String
  | none => "IndexError"
  | some ids => ",".intercalate ids

def cursorAnswers (ids : List JobId) : List JVal → Option (List String)
  | [] => some []
  | .arr [.str "len"] :: rest => (cursorAnswers ids rest).map (toString (Cursor.len ids) :: ·)
  | .arr [.str "get", .int i] :: rest =>
    (cursorAnswers ids rest).map ((match Cursor.getitem ids i with
      | some x => x
      | none => "IndexError") :: ·)
  | .arr [.str "slice", a, b, s] :: rest =>
    let oi : JVal → Option (Option Int) := fun v => match v with
      | .null => some none
      | .int i => some (some i)
      | _ => none
    match oi a, oi b, oi s with
    | some a, some b, some s =>
      (cursorAnswers ids rest).map ((match Cursor.slice ids a b s with
        | some xs => "[" ++ ",".intercalate xs ++ "]"
        | none => "ValueError") :: ·)
    | _, _, _ => none
  | .arr [.str "in", .str j] :: rest =>
    (cursorAnswers ids rest).map ((if Cursor.contains ids j then "T" else "F") :: ·)
  | _ => none

def stepQuery (line : String) : String :=
  match tokens line with
  | verb :: ts =>
    match parseValue ts with
    | some (pl, []) =>
      let P := paramsOf pl
      if verb = "find" ∨ verb = "ref" ∨ verb = "flat" ∨ verb = "groupby" then
        match (arrOf (fieldOf "jobs" pl)).bind parseJobs, fieldOf "filter" pl with
        | some c, some f =>
          if verb = "find" then showRes c (findJobs P c f)
          else if verb = "ref" then ",".intercalate (c.map (fun j => showBool (evalJob P j f)))
          else if verb = "flat" then
            if falsy f then "ok-all"
            else match ofJson f with
              | .ok g => "ok " ++ wire (fltToJson g) ++ (if includeDoc g then " +doc" else " -doc")
              | .error e => "err " ++ e.name
          else
            match fieldOf "keys" pl, fieldOf "default" pl with
            | some ks, some dflt =>
              match groupKeysOf ks with
              | some gk =>
                match groupby P c f gk (optOfNull dflt) with
                | .ok gs => "ok " ++ showLabelGroups c gs
                | .error e => "err " ++ e.name
              | none => "bad-value"
            | _, _ => "bad-value"
        | _, _ => "bad-value"
      else if verb = "parse" ∨ verb = "pstr" then
        match (arrOf (fieldOf "toks" pl)).bind tokStrings with
        | some toks =>
          let C := cliParamsOf pl
          if verb = "parse" then
            match parseFilterArg C toks with
            | .ok none => "none"
            | .ok (some v) => "ok " ++ wire v
            | .error e => "err " ++ e.name
          else
            match parseSimpleDict C toks with
            | .ok v => "ok " ++ wire v
            | .error e => "err " ++ e.name
        | none => "bad-value"
      else if verb = "cursor" then
        match (arrOf (fieldOf "ids" pl)).bind tokStrings, arrOf (fieldOf "ops" pl) with
        | some ids, some ops =>
          match cursorAnswers ids ops with
          | some as => " ".intercalate as
          | none => "bad-value"
        | _, _ => "bad-value"
      else "bad-op"
    | _ => "bad-value"
  | [] => "bad-op"

def main : IO Unit := driverLoop stepQuery

/-
  drv_sync — driver of the sync model (C13, C14, C15).

  input :  sync <strategy> <docsync> r0|r1 x <n> (S<name> T|F T|F T|F)*n
                (lN | lS <k> S<id>*k) c0|c1 g0|g1 y0|y1 p0|p1 n<now>
                (eP | eJ S<src id> S<dst id> <sp cid>) <src root node> <dst root node>
           strategy : sN | sA | sV | sU | sC <k> S<path>*k
           docsync  : dD | dK <u> (S<key> T|F)*u | dU | dN | dC
           node     : f <cid> <size> <mtime> | j <cid> <size> <mtime> <value> | d <n> (S<name> node)*n
  output:  <outcome>;<destination tree after the call>;log-ok   (log-ok: replaying the logged steps gives that tree)
  A name / key that is not in the supplied tables and influences the answer gives `bad-value`.
-/
import Signac.Sync
import Signac.Wire
open Signac Signac.Sync

namespace SyncDrv

def hexName (t : String) : Option String :=
  match t.toList with
  | 'S' :: hx => unhex (String.ofList hx)
  | _ => none

def parseBool (t : String) : Option Bool :=
  if t == "T" then some true else if t == "F" then some false else none

def parseFlag (c : Char) (t : String) : Option Bool :=
  match t.toList with
  | [c', '0'] => if c = c' then some false else none
  | [c', '1'] => if c = c' then some true else none
  | _ => none

mutual
  def parseNode : Nat → List String → Option (Node × List String)
    | 0, _ => none
    | _, [] => none
    | fuel+1, t :: ts =>
      if t == "f" then
        match ts with
        | a :: b :: c :: rest => do
          let a ← a.toNat?
          let b ← b.toNat?
          let c ← c.toNat?
          pure (.file ⟨a, b, c, none⟩, rest)
        | _ => none
      else if t == "j" then
        match ts with
        | a :: b :: c :: rest => do
          let a ← a.toNat?
          let b ← b.toNat?
          let c ← c.toNat?
          let (v, rest') ← parseValue rest
          match v with
          | .obj _ => pure (.file ⟨a, b, c, some v⟩, rest')
          | _ => none
        | _ => none
      else if t == "d" then
        match ts with
        | n :: rest => do
          let n ← n.toNat?
          let (es, rest') ← parseEntries fuel n rest
          pure (.dir es, rest')
        | _ => none
      else none
  def parseEntries : Nat → Nat → List String → Option (List (Name × Node) × List String)
    | 0, _, _ => none
    | _, 0, ts => some ([], ts)
    | fuel+1, n+1, ts =>
      match ts with
      | [] => none
      | k :: ts' => do
        let name ← hexName k
        let (c, rest) ← parseNode fuel ts'
        let (es, rest') ← parseEntries fuel n rest
        pure ((name, c) :: es, rest')
end

def parseNames : Nat → List String → Option (List String × List String)
  | 0, ts => some ([], ts)
  | n+1, t :: ts => do
    let s ← hexName t
    let (r, rest) ← parseNames n ts
    pure (s :: r, rest)
  | _, [] => none

def parseKeyTable : Nat → List String → Option (List (String × Bool) × List String)
  | 0, ts => some ([], ts)
  | n+1, k :: b :: ts => do
    let k ← hexName k
    let b ← parseBool b
    let (r, rest) ← parseKeyTable n ts
    pure ((k, b) :: r, rest)
  | _, _ => none

def parseExclTable : Nat → List String → Option (List (String × Bool × Bool × Bool) × List String)
  | 0, ts => some ([], ts)
  | n+1, k :: a :: b :: c :: ts => do
    let k ← hexName k
    let a ← parseBool a
    let b ← parseBool b
    let c ← parseBool c
    let (r, rest) ← parseExclTable n ts
    pure ((k, a, b, c) :: r, rest)
  | _, _ => none

def tbl {α : Type} (t : List (String × α)) (k : String) : Option α :=
  match t.find? (fun e => e.1 == k) with
  | some e => some e.2
  | none => none

/-- everything but the tables, which are closed over with a default for missing entries -/
structure Parsed where
  strategy : Strategy
  docKind : String
  keyTbl : List (String × Bool)
  recursive : Bool
  exclTbl : List (String × Bool × Bool × Bool)
  selection : Option (List String)
  checkSchema : Bool
  gate : Bool
  dry : Bool
  deep : Bool
  now : Nat
  entry : Entry
  src : Entries
  dst : Entries

def parseLine (ts : List String) : Option Parsed := do
  -- strategy
  let (strategy, ts) ← (match ts with
    | "sN" :: r => some (Strategy.none, r)
    | "sA" :: r => some (Strategy.always, r)
    | "sV" :: r => some (Strategy.never, r)
    | "sU" :: r => some (Strategy.update, r)
    | "sC" :: k :: r => do
      let k ← k.toNat?
      let (ps, r') ← parseNames k r
      pure (Strategy.custom (fun p => ps.contains p), r')
    | _ => none)
  let (docKind, keyTbl, ts) ← (match ts with
    | "dD" :: r => some ("D", [], r)
    | "dU" :: r => some ("U", [], r)
    | "dN" :: r => some ("N", [], r)
    | "dC" :: r => some ("C", [], r)
    | "dK" :: u :: r => do
      let u ← u.toNat?
      let (t, r') ← parseKeyTable u r
      pure ("K", t, r')
    | _ => none)
  let (recursive, ts) ← (match ts with
    | t :: r => (parseFlag 'r' t).map (·, r)
    | _ => none)
  let (exclTbl, ts) ← (match ts with
    | "x" :: n :: r => do
      let n ← n.toNat?
      parseExclTable n r
    | _ => none)
  let (selection, ts) ← (match ts with
    | "lN" :: r => some (none, r)
    | "lS" :: k :: r => do
      let k ← k.toNat?
      let (ids, r') ← parseNames k r
      pure (some ids, r')
    | _ => none)
  let (checkSchema, ts) ← (match ts with | t :: r => (parseFlag 'c' t).map (·, r) | _ => none)
  let (gate, ts) ← (match ts with | t :: r => (parseFlag 'g' t).map (·, r) | _ => none)
  let (dry, ts) ← (match ts with | t :: r => (parseFlag 'y' t).map (·, r) | _ => none)
  let (deep, ts) ← (match ts with | t :: r => (parseFlag 'p' t).map (·, r) | _ => none)
  let (now, ts) ← (match ts with
    | t :: r => (match t.toList with
      | 'n' :: ds => (String.ofList ds).toNat?.map (·, r)
      | _ => none)
    | _ => none)
  let (entry, ts) ← (match ts with
    | "eP" :: r => some (Entry.project, r)
    | "eJ" :: a :: b :: c :: r => do
      let a ← hexName a
      let b ← hexName b
      let c ← c.toNat?
      pure (Entry.job a b c, r)
    | _ => none)
  let fuel := 2 * ts.length + 2
  let (srcN, ts) ← parseNode fuel ts
  let (dstN, ts) ← parseNode fuel ts
  match srcN, dstN, ts with
  | .dir s, .dir d, [] =>
    pure ⟨strategy, docKind, keyTbl, recursive, exclTbl, selection, checkSchema, gate, dry, deep, now, entry, s, d⟩
  | _, _, _ => none

def mkOpts (p : Parsed) (dflt : Bool) : Opts :=
  let ks : String → Bool := fun k => (tbl p.keyTbl k).getD dflt
  { strategy := p.strategy
    docSync := (if p.docKind == "D" then .byKey none
                else if p.docKind == "K" then .byKey (some ks)
                else if p.docKind == "U" then .update
                else if p.docKind == "N" then .noSync
                else .copy)
    recursive := p.recursive
    userExcl := fun n => ((tbl p.exclTbl n).map (·.1)).getD dflt
    spPat := fun n => ((tbl p.exclTbl n).map (·.2.1)).getD dflt
    docPat := fun n => ((tbl p.exclTbl n).map (·.2.2)).getD dflt
    selection := p.selection
    checkSchema := p.checkSchema
    gate := p.gate
    dry := p.dry
    deep := p.deep
    now := p.now }

/-! rendering -/

def insertSorted (x : String) : List String → List String
  | [] => [x]
  | y :: ys => if x < y then x :: y :: ys else if x = y then y :: ys else y :: insertSorted x ys

def sortDedup (xs : List String) : List String := xs.foldl (fun acc x => insertSorted x acc) []

def insertEntry (e : Name × Node) : List (Name × Node) → List (Name × Node)
  | [] => [e]
  | y :: ys => if e.1 < y.1 then e :: y :: ys else y :: insertEntry e ys

mutual
  def sortNode : Node → Node
    | .file m => .file m
    | .dir es => .dir (sortEs es)
  def sortEs : List (Name × Node) → List (Name × Node)
    | [] => []
    | (n, c) :: tl => insertEntry (n, sortNode c) (sortEs tl)
end

mutual
  def renderNode (path : String) : Node → List String
    | .file m =>
      match m.js with
      | some v => [toHex path ++ "=j:" ++ ",".intercalate (wireVal (canon v))]
      | none => [toHex path ++ "=f" ++ toString m.cid]
    | .dir es => (toHex path ++ "=d") :: renderEs path es
  def renderEs (path : String) : List (Name × Node) → List String
    | [] => []
    | (n, c) :: tl => renderNode (if path.isEmpty then n else path ++ "/" ++ n) c ++ renderEs path tl
end

def renderRoot (es : Entries) : String :=
  " ".intercalate (renderEs "" (sortEs es))

/-! input sanity: listings below a job directory come in `dircmp`'s (sorted) order, names are unique -/

def strictlySorted : List String → Bool
  | [] => true
  | [_] => true
  | a :: b :: rest => decide (a < b) && strictlySorted (b :: rest)

def distinct : List String → Bool
  | [] => true
  | a :: rest => !rest.contains a && distinct rest

mutual
  def sortedNode : Node → Bool
    | .file _ => true
    | .dir es => strictlySorted (es.map Prod.fst) && sortedEs es
  def sortedEs : List (Name × Node) → Bool
    | [] => true
    | (_, c) :: tl => sortedNode c && sortedEs tl
end

def projectOk (root : Entries) : Bool :=
  distinct (root.map Prod.fst) &&
  (match getE WS root with
   | some (.dir jobs) => distinct (jobs.map Prod.fst) && sortedEs jobs
   | _ => false)

def renderErr : Option Err → String
  | none => "ok"
  | some (.fileConflict fn) => "FileSyncConflict:" ++ toHex fn
  | some (.docConflict ks) => "DocumentSyncConflict:" ++ ",".intercalate ((sortDedup ks).map toHex)
  | some .schemaConflict => "SchemaSyncConflict"
  | some .typeError => "TypeError"
  | some .backupExists => "RuntimeError"

def answer (p : Parsed) (dflt : Bool) : String :=
  let o := mkOpts p dflt
  let r := run o p.entry ⟨p.src, p.dst⟩
  -- the logged steps replayed on the initial destination must give the result (refinement)
  let replay := applyAll p.dst r.log
  renderErr r.err ++ ";" ++ renderRoot r.d ++ ";" ++
    (if renderRoot replay == renderRoot r.d then "log-ok" else "log-mismatch")

def step (line : String) : String :=
  match tokens line with
  | "sync" :: ts =>
    match parseLine ts with
    | some p =>
      if !(projectOk p.src && projectOk p.dst) then "bad-value" else
      let a := answer p false
      let b := answer p true
      if a == b then a else "bad-value"
    | none => "bad-value"
  | _ => "bad-op"

end SyncDrv

def main : IO Unit := driverLoop SyncDrv.step

/- driver for C05 (documents):
   `run <nf> <nobj> <fileOf_0> … <fileOf_{nobj-1}> <cmd>*`  ->  outputs of all commands, joined by " ; "
   cmds:  E - | E <cap> | X | F <file> | R <file> | K <file> | H | O <obj> <op>
   ops :  set <path> S<key> <val> | del <path> S<key> | app <path> <val> | ext <path> <A…> |
          idx <path> I<int> <val> | pop S<key> <val> | sdf S<key> <val> | upd <O…> | clr |
          rst <O…> | get S<key> | read
   path:  P<n> then n segments  k<hex key> | i<int>
   outputs:  -  |  V <wire value>  |  E:<ErrorName>                                           -/
import Signac.Json
import Signac.PyVal
import Signac.Wire
import Signac.Doc
open Signac Signac.Doc

def errName : Err → String
  | .keyError => "KeyError"
  | .indexError => "IndexError"
  | .typeError => "TypeError"
  | .attributeError => "AttributeError"
  | .keyTypeError => "KeyTypeError"

def showOut : Out → String
  | .none => "-"
  | .val v => "V " ++ wire v
  | .err e => "E:" ++ errName e

def parseKey (t : String) : Option String :=
  match t.toList with
  | 'S' :: hx => unhex (String.ofList hx)
  | _ => none

def parseSeg (t : String) : Option Seg :=
  match t.toList with
  | 'k' :: hx => (unhex (String.ofList hx)).map Seg.key
  | 'i' :: n => (String.ofList n).toInt?.map Seg.idx
  | _ => none

def parseSegs : Nat → List String → Option (List Seg × List String)
  | 0, ts => some ([], ts)
  | n+1, t :: ts => do
    let s ← parseSeg t
    let (ss, rest) ← parseSegs n ts
    pure (s :: ss, rest)
  | _+1, [] => none

def parsePath : List String → Option (List Seg × List String)
  | t :: ts =>
    match t.toList with
    | 'P' :: n => do
      let n ← (String.ofList n).toNat?
      parseSegs n ts
    | _ => none
  | [] => none

def parseOp : List String → Option (DictOp × List String)
  | "set" :: ts => do
    let (p, ts) ← parsePath ts
    match ts with
    | k :: ts => do
      let k ← parseKey k
      let (v, ts) ← parseValue ts
      pure (.nset p k v, ts)
    | [] => none
  | "del" :: ts => do
    let (p, ts) ← parsePath ts
    match ts with
    | k :: ts => do
      let k ← parseKey k
      pure (.ndel p k, ts)
    | [] => none
  | "app" :: ts => do
    let (p, ts) ← parsePath ts
    let (v, ts) ← parseValue ts
    pure (.napp p v, ts)
  | "ext" :: ts => do
    let (p, ts) ← parsePath ts
    let (v, ts) ← parseValue ts
    match v with
    | .arr xs => pure (.next p xs, ts)
    | _ => none
  | "idx" :: ts => do
    let (p, ts) ← parsePath ts
    match ts with
    | i :: ts =>
      match i.toList with
      | 'I' :: n => do
        let i ← (String.ofList n).toInt?
        let (v, ts) ← parseValue ts
        pure (.nidx p i v, ts)
      | _ => none
    | [] => none
  | "pop" :: k :: ts => do
    let k ← parseKey k
    let (v, ts) ← parseValue ts
    pure (.pop k v, ts)
  | "sdf" :: k :: ts => do
    let k ← parseKey k
    let (v, ts) ← parseValue ts
    pure (.setdefault k v, ts)
  | "upd" :: ts => do
    let (v, ts) ← parseValue ts
    match v with
    | .obj o => pure (.update o, ts)
    | _ => none
  | "clr" :: ts => some (.clear, ts)
  | "rst" :: ts => do
    let (v, ts) ← parseValue ts
    match v with
    | .obj o => pure (.reset o, ts)
    | _ => none
  | "get" :: k :: ts => do
    let k ← parseKey k
    pure (.get k, ts)
  | "read" :: ts => some (.read, ts)
  | _ => none

partial def parseCmds : List String → Option (List Cmd)
  | [] => some []
  | "E" :: "-" :: ts => (parseCmds ts).map (Cmd.enter none :: ·)
  | "E" :: n :: ts => do
    let n ← n.toNat?
    let cs ← parseCmds ts
    pure (.enter (some n) :: cs)
  | "X" :: ts => (parseCmds ts).map (Cmd.exit :: ·)
  | "F" :: f :: ts => do
    let f ← f.toNat?
    let cs ← parseCmds ts
    pure (.file f :: cs)
  | "H" :: ts => (parseCmds ts).map (Cmd.hit :: ·)
  | "K" :: f :: ts => do
    let f ← f.toNat?
    let cs ← parseCmds ts
    pure (.reopen f :: cs)
  | "R" :: f :: ts => do
    let f ← f.toNat?
    let cs ← parseCmds ts
    pure (.rm f :: cs)
  | "O" :: o :: ts => do
    let o ← o.toNat?
    let (op, ts) ← parseOp ts
    let cs ← parseCmds ts
    pure (.op o op :: cs)
  | _ => none

def parseNats : Nat → List String → Option (List Nat × List String)
  | 0, ts => some ([], ts)
  | n+1, t :: ts => do
    let x ← t.toNat?
    let (xs, rest) ← parseNats n ts
    pure (x :: xs, rest)
  | _+1, [] => none

def stepDoc (line : String) : String :=
  match tokens line with
  | "run" :: nf :: nobj :: ts =>
    match nf.toNat?, nobj.toNat? with
    | some nf, some nobj =>
      match parseNats nobj ts with
      | some (fo, ts) =>
        if fo.any (fun f => f ≥ nf) then "bad-value" else
        match parseCmds ts with
        | some cmds =>
          let w := World.init nf (fun o => fo.getD o 0) (fun _ => none)
          let (_, outs) := run cmds w
          " ; ".intercalate (outs.map showOut)
        | none => "bad-op"
      | none => "bad-value"
    | _, _ => "bad-value"
  | _ => "bad-op"

def main : IO Unit := driverLoop stepDoc

-- Root of the `Signac` library: models, proofs, property theorems.
-- `lake build` (MANIFEST setup_cmd) builds everything listed here.
import Signac.Json
import Signac.Md5
import Signac.Wire
import Signac.PyVal
import Signac.Extracted
import Signac.Properties.C01
import Signac.Properties.C10
import Signac.Properties.C18
import Signac.Properties.C19
import Signac.Properties.C20
import Signac.Workspace
import Signac.Properties.C03
import Signac.Properties.C04
import Signac.Properties.C11
import Signac.Properties.C17
import Signac.Cache
import Signac.Properties.C08
import Signac.Properties.C09
import Signac.Properties.C16
import Signac.Properties.C05
import Signac.Properties.C12
import Signac.Properties.C02

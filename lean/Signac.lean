-- Root of the `Signac` library: models, proofs, property theorems.
import Signac.Json
import Signac.Md5
import Signac.Wire

/-
  Signac.FsSteps — the file system as the steps `harness/fsx.py` records
  (DESIGN §2.4, §3).  Import-free (core only) so that drivers link.

  * A path is the list of its components; a file system is a function
    `Path → Option (Node α)`.  `α` is the unit of file content: `UInt8` for
    bytes, or a *piece* (a run of bytes that is never split) when the driver
    replays a real trace whose chunks are cut at the tested torn offsets.
    Every theorem is stated for an arbitrary `α`.
  * `Step` mirrors the step kinds of fsx.  `apply` is the effect of a primitive
    that RETURNED SUCCESSFULLY (the harness drops failed attempts: they have no
    effect); where it is cheap an impossible step is a no-op (rename of a
    missing source, rename into the own subtree).  `rename` moves the whole
    subtree below the source, and whatever was below the destination is gone.
  * `crashStates fs steps` — every state a process death can leave: the state
    before each step, after every proper prefix of each write chunk (torn
    write), and the final state.  `crashAt fs steps k p` is the one state for
    "die before step k after p units of it" (what the driver evaluates).
  * `touches t s` — may step `s` change what is at path `t`.
  * `AtomicOn t steps` — the decidable discipline of C10: the only steps that
    touch `t` are renames *onto* `t` of an unrelated path that is not open for
    writing at that moment.  (The model addresses writes by path, the kernel
    by open file; they agree as long as a file is not renamed while a writer
    still holds it open — which is exactly what the last clause demands for
    the files moved onto `t`.)
  * the concrete write protocols of signac / synced_collections:
    `docWrite`, `cacheWrite`, `flush`.

  Modelled code: synced_collections `JSONCollection._save_to_resource`
  (temp file `._<uuid>_<name>` + `os.replace`), signac `Project.update_cache`
  (gzip to `<name>~` + `os.replace`), buffered flush (one save per dirty file).
-/
namespace Signac.Fs

abbrev Path := List String

inductive Node (α : Type) where
  | file (content : List α)
  | dir
  | link (target : String)
  deriving DecidableEq, Repr

abbrev FS (α : Type) := Path → Option (Node α)

inductive Step (α : Type) where
  | create (p : Path)                    -- open(p, "w" | "x"): p becomes an empty file
  | openAppend (p : Path)                -- open(p, "a" | "r+"): created empty when absent
  | append (p : Path) (b : List α)       -- one write(2) of chunk b at the end of p
  | truncate (p : Path) (n : Nat)
  | close (p : Path)                     -- close of a handle opened for writing
  | fsync (p : Path)
  | rename (a b : Path)                  -- os.replace / os.rename
  | unlink (p : Path)
  | mkdir (p : Path)
  | rmdir (p : Path)
  | symlink (target : String) (p : Path)
  | read (p : Path)                      -- observer: another process opens p and reads it
  deriving DecidableEq, Repr

variable {α : Type}

/-- `t` is `a` or lies below `a`. -/
def under (a t : Path) : Bool := a.isPrefixOf t

def upd (fs : FS α) (p : Path) (v : Option (Node α)) : FS α :=
  fun q => if q = p then v else fs q

def apply (fs : FS α) : Step α → FS α
  | .create p => upd fs p (some (.file []))
  | .openAppend p =>
    match fs p with
    | none => upd fs p (some (.file []))
    | some _ => fs
  | .append p b =>
    match fs p with
    | some (.file c) => upd fs p (some (.file (c ++ b)))
    | _ => fs
  | .truncate p n =>
    match fs p with
    | some (.file c) => upd fs p (some (.file (c.take n)))
    | _ => fs
  | .rename a b =>
    match fs a with
    | none => fs
    | some _ =>
      if under a b || under b a then fs
      else fun q => if under b q then fs (a ++ q.drop b.length)
                    else if under a q then none else fs q
  | .unlink p => upd fs p none
  | .mkdir p =>
    match fs p with
    | none => upd fs p (some .dir)
    | some _ => fs
  | .rmdir p =>
    match fs p with
    | some .dir => upd fs p none
    | _ => fs
  | .symlink target p =>
    match fs p with
    | none => upd fs p (some (.link target))
    | some _ => fs
  | .close _ => fs
  | .fsync _ => fs
  | .read _ => fs

def run (fs : FS α) (steps : List (Step α)) : FS α := steps.foldl apply fs

/-- States left by dying inside a step: a write may have put any proper prefix of its chunk. -/
def torn (fs : FS α) : Step α → List (FS α)
  | .append p b => (List.range b.length).map (fun n => apply fs (.append p (b.take n)))
  | _ => []

def crashStates (fs : FS α) : List (Step α) → List (FS α)
  | [] => [fs]
  | s :: ss => (fs :: torn fs s) ++ crashStates (apply fs s) ss

/-- The state after dying right before step `k`, `p` units into it when it is a write of more
    than `p` units (beyond the end of the list: the final state). -/
def crashAt (fs : FS α) : List (Step α) → Nat → Nat → FS α
  | [], _, _ => fs
  | s :: _, 0, p =>
    match s with
    | .append q b => if p < b.length then apply fs (.append q (b.take p)) else fs
    | _ => fs
  | s :: ss, k + 1, p => crashAt (apply fs s) ss k p

def touches (t : Path) : Step α → Bool
  | .create p => decide (p = t)
  | .openAppend p => decide (p = t)
  | .append p _ => decide (p = t)
  | .truncate p _ => decide (p = t)
  | .unlink p => decide (p = t)
  | .mkdir p => decide (p = t)
  | .rmdir p => decide (p = t)
  | .symlink _ p => decide (p = t)
  | .rename a b => under a t || under b t
  | .close _ => false
  | .fsync _ => false
  | .read _ => false

/-- Paths currently open for writing (by path, with multiplicity). -/
def track (opened : List Path) : Step α → List Path
  | .create p => p :: opened
  | .openAppend p => p :: opened
  | .close p => opened.erase p
  | _ => opened

/-- Is this step allowed by the discipline for target `t`, given the open write handles? -/
def stepOk (t : Path) (opened : List Path) (s : Step α) : Bool :=
  match s with
  | .rename a b =>
    if b = t then !under a t && !under t a && !opened.contains a
    else !touches t s
  | _ => !touches t s

def atomicScan (t : Path) : List Path → List (Step α) → Bool
  | _, [] => true
  | o, s :: ss => stepOk t o s && atomicScan t (track o s) ss

/-- The discipline of C10 for target `t` (see the header). -/
def AtomicOn (t : Path) (steps : List (Step α)) : Bool := atomicScan t [] steps

/-- What a reader step sees: the log of `(path, node seen)` of all `read` steps of a run. -/
def readLog (fs : FS α) : List (Step α) → List (Path × Option (Node α))
  | [] => []
  | s :: ss =>
    match s with
    | .read p => (p, fs p) :: readLog fs ss
    | _ => readLog (apply fs s) ss

/-! ### the write protocols -/

/-- temp + replace: create tmp, write the chunks, close, rename onto the target. -/
def docWrite (tmp t : Path) (chunks : List (List α)) : List (Step α) :=
  .create tmp :: (chunks.map (fun b => .append tmp b) ++ [.close tmp, .rename tmp t])

/-- the sibling of `t` whose name is `f name`. -/
def sibling (f : String → String) (t : Path) : Path :=
  t.dropLast ++ [f (t.getLast?.getD "")]

/-- canonical name of the temp file of synced_collections: `._<uuid>_<name>` ↦ `._TMP_<name>`. -/
def tmpOf (t : Path) : Path := sibling (fun n => "._TMP_" ++ n) t

/-- temp file of `Project.update_cache`: `<name>~`. -/
def tildeOf (t : Path) : Path := sibling (fun n => n ++ "~") t

/-- `JSONCollection._save_to_resource` for the file `t`. -/
def jsonSave (t : Path) (chunks : List (List α)) : List (Step α) := docWrite (tmpOf t) t chunks

/-- the write of `Project.update_cache` for the cache file `t` (gzip member chunks). -/
def cacheWrite (t : Path) (chunks : List (List α)) : List (Step α) := docWrite (tildeOf t) t chunks

structure W (α : Type) where
  tmp : Path
  t : Path
  chunks : List (List α)
  deriving DecidableEq, Repr

/-- a buffered flush: one temp+replace write per dirty file, one after the other. -/
def flush (ws : List (W α)) : List (Step α) := ws.flatMap (fun w => docWrite w.tmp w.t w.chunks)

/-- all files named by a flush are unrelated to each other -/
def unrelated (a b : Path) : Bool := !under a b && !under b a

def pairwiseUnrelated : List Path → Bool
  | [] => true
  | p :: ps => ps.all (unrelated p) && pairwiseUnrelated ps

def flushPaths (ws : List (W α)) : List Path := ws.flatMap (fun w => [w.tmp, w.t])

/-! ### reading a flush back out of a step list (used by the driver on real traces) -/

/-- split `create tmp, append tmp*, close tmp, rename tmp t` off the front -/
def takeAppends (tmp : Path) : List (Step α) → List (List α) × List (Step α)
  | .append p b :: rest =>
    if p = tmp then
      let r := takeAppends tmp rest
      (b :: r.1, r.2)
    else ([], .append p b :: rest)
  | rest => ([], rest)

def parseFlush : Nat → List (Step α) → Option (List (W α))
  | _, [] => some []
  | 0, _ => none
  | fuel + 1, .create tmp :: rest =>
    match takeAppends tmp rest with
    | (chunks, .close p :: .rename a t :: rest') =>
      if p = tmp ∧ a = tmp then
        (parseFlush fuel rest').map (fun ws => { tmp := tmp, t := t, chunks := chunks } :: ws)
      else none
    | _ => none
  | _, _ => none

/-- `some ws` iff the steps are literally `flush ws` over pairwise unrelated paths. -/
def asFlush [DecidableEq α] (steps : List (Step α)) : Option (List (W α)) :=
  match parseFlush (steps.length + 1) steps with
  | some ws => if flush ws = steps ∧ pairwiseUnrelated (flushPaths ws) = true then some ws else none
  | none => none

end Signac.Fs

/-
  Lemmas on the schema gate of `sync_projects` (`Signac/SchemaGate.lean`): Mapping equality of detected
  schemas is an equivalence on well-formed schemas, `difference` is empty both ways exactly for equal
  schemas, hence the inner test of the gate is redundant and the gate is symmetric.  Core only.
-/
import Signac.SchemaGate
import Signac.Proofs.SchemaSpec
namespace Signac.Schema
open Signac

/-! ### association lists -/

theorem alookup_mem {β : Type} {k : String} {l : List (String × β)} {w : β}
    (h : alookup k l = some w) : (k, w) ∈ l := by
  induction l with
  | nil => simp [alookup] at h
  | cons a l ih =>
    obtain ⟨k', v'⟩ := a
    simp only [alookup] at h
    split at h
    · next e => cases h; subst e; simp
    · simp [ih h]

theorem alookup_of_mem {β : Type} {k : String} {l : List (String × β)} {w : β}
    (hn : (l.map Prod.fst).Nodup) (h : (k, w) ∈ l) : alookup k l = some w := by
  induction l with
  | nil => simp at h
  | cons a l ih =>
    obtain ⟨k', v'⟩ := a
    simp only [List.map_cons, List.nodup_cons, List.mem_map, not_exists, not_and] at hn
    simp only [List.mem_cons, Prod.mk.injEq] at h
    simp only [alookup]
    rcases h with ⟨e1, e2⟩ | h
    · subst e1; subst e2; simp
    · have : ¬ k = k' := fun e => hn.1 (k, w) h e
      simp only [this, if_false]
      exact ih hn.2 h

theorem alookup_none {β : Type} {k : String} {l : List (String × β)} :
    alookup k l = none ↔ k ∉ l.map Prod.fst := by
  induction l with
  | nil => simp [alookup]
  | cons a l ih =>
    obtain ⟨k', v'⟩ := a
    simp only [alookup, List.map_cons, List.mem_cons, not_or]
    split
    · next e => simp [e]
    · next e => simp [ih, e]

theorem alookup_of_key {β : Type} {k : String} {l : List (String × β)} (h : k ∈ l.map Prod.fst) :
    ∃ w, alookup k l = some w := by
  cases hl : alookup k l with
  | none => exact absurd h (alookup_none.mp hl)
  | some w => exact ⟨w, rfl⟩

theorem key_of_alookup {β : Type} {k : String} {l : List (String × β)} {w : β}
    (h : alookup k l = some w) : k ∈ l.map Prod.fst :=
  List.mem_map.mpr ⟨(k, w), alookup_mem h, rfl⟩

/-- a duplicate-free list contained in another one is not longer -/
theorem length_le_of_nodup_subset {a : List String} :
    ∀ {b : List String}, a.Nodup → (∀ x ∈ a, x ∈ b) → a.length ≤ b.length := by
  induction a with
  | nil => intro b _ _; simp
  | cons x a' ih =>
    intro b hn hs
    simp only [List.nodup_cons] at hn
    have hxb : x ∈ b := hs x (by simp)
    have hlen : (b.erase x).length = b.length - 1 := List.length_erase_of_mem hxb
    have hsub : ∀ z ∈ a', z ∈ b.erase x := by
      intro z hz
      have hzx : z ≠ x := fun e => hn.1 (e ▸ hz)
      exact (List.mem_erase_of_ne hzx).mpr (hs z (by simp [hz]))
    have hb : 0 < b.length := List.length_pos_of_mem hxb
    have := @ih (b.erase x) hn.2 hsub
    simp only [List.length_cons]
    omega

/-! ### dict equality -/

theorem dictEq_iff {β : Type} {eqv : β → β → Bool} {a b : List (String × β)} :
    dictEq eqv a b = true ↔
      a.length = b.length ∧ ∀ kv ∈ a, ∃ w, alookup kv.1 b = some w ∧ eqv kv.2 w = true := by
  simp only [dictEq, Bool.and_eq_true, beq_iff_eq, List.all_eq_true]
  constructor
  · rintro ⟨h1, h2⟩
    refine ⟨h1, fun kv hkv => ?_⟩
    have := h2 kv hkv
    cases hl : alookup kv.1 b with
    | none => simp [hl] at this
    | some w => exact ⟨w, rfl, by simpa [hl] using this⟩
  · rintro ⟨h1, h2⟩
    refine ⟨h1, fun kv hkv => ?_⟩
    obtain ⟨w, hw, he⟩ := h2 kv hkv
    simp [hw, he]

theorem dictEq_refl {β : Type} {eqv : β → β → Bool} {a : List (String × β)}
    (hn : (a.map Prod.fst).Nodup) (hr : ∀ kv ∈ a, eqv kv.2 kv.2 = true) : dictEq eqv a a = true :=
  dictEq_iff.mpr ⟨rfl, fun kv hkv => ⟨kv.2, alookup_of_mem hn hkv, hr kv hkv⟩⟩

theorem dictEq_symm {β : Type} {eqv : β → β → Bool} {a b : List (String × β)}
    (ha : (a.map Prod.fst).Nodup) (hb : (b.map Prod.fst).Nodup)
    (hs : ∀ kv ∈ a, ∀ kw ∈ b, eqv kv.2 kw.2 = true → eqv kw.2 kv.2 = true)
    (h : dictEq eqv a b = true) : dictEq eqv b a = true := by
  obtain ⟨hl, h⟩ := dictEq_iff.mp h
  refine dictEq_iff.mpr ⟨hl.symm, fun kw hkw => ?_⟩
  have hsub : ∀ k ∈ a.map Prod.fst, k ∈ b.map Prod.fst := by
    intro k hk
    obtain ⟨kv, hkv, e⟩ := List.mem_map.mp hk
    obtain ⟨w, hw, _⟩ := h kv hkv
    exact e ▸ key_of_alookup hw
  have hk : kw.1 ∈ a.map Prod.fst :=
    subset_of_nodup_length ha hsub (by simp [hl]) kw.1 (List.mem_map.mpr ⟨kw, hkw, rfl⟩)
  obtain ⟨v, hv⟩ := alookup_of_key hk
  obtain ⟨w', hw', he⟩ := h (kw.1, v) (alookup_mem hv)
  have hw : alookup kw.1 b = some kw.2 := alookup_of_mem hb hkw
  simp only [hw] at hw'
  cases hw'
  exact ⟨v, hv, hs (kw.1, v) (alookup_mem hv) kw hkw he⟩

/-! ### `pyEq` is reflexive on values whose mappings have distinct keys -/

mutual
  theorem pyEq_refl_val : ∀ (v : JVal), NodupKeysVal v → pyEq v v = true
    | .null, _ => by simp [pyEq]
    | .bool b, _ => by cases b <;> simp [pyEq, numVal, numEq]
    | .int i, _ => by simp [pyEq, numVal, numEq]
    | .flt n e r, _ => by simp [pyEq, numVal, numEq]
    | .str s, _ => by simp [pyEq]
    | .arr xs, h => by
      simp only [pyEq]
      exact pyEq_refl_list xs (by simpa [NodupKeysVal] using h)
    | .obj a, h => by
      have ha : NodupKeysObj a := by simpa [NodupKeysVal] using h
      simp only [pyEq, beq_self_eq_true, Bool.true_and]
      rw [pyEqEntries_iff]
      intro kv hkv
      exact ⟨kv.2, lookupKV_of_mem ha hkv, pyEq_refl_obj a ha kv hkv⟩
  theorem pyEq_refl_list : ∀ (xs : List JVal), NodupKeysList xs → pyEqList xs xs = true
    | [], _ => by simp [pyEqList]
    | x :: xs, h => by
      simp only [NodupKeysList] at h
      simp only [pyEqList, Bool.and_eq_true]
      exact ⟨pyEq_refl_val x h.1, pyEq_refl_list xs h.2⟩
  theorem pyEq_refl_obj : ∀ (kvs : List (String × JVal)), NodupKeysObj kvs →
      ∀ kv ∈ kvs, pyEq kv.2 kv.2 = true
    | [], _ => by intro x hx; simp at hx
    | (k, v) :: rest, h => by
      intro x hx
      simp only [NodupKeysObj] at h
      simp only [List.mem_cons] at hx
      rcases hx with hx | hx
      · subst hx; exact pyEq_refl_val v h.2.1
      · exact pyEq_refl_obj rest h.2.2 x hx
end

/-! ### set equality -/

/-- no two members are `==` (a Python set) -/
abbrev PyApart (l : List JVal) : Prop := l.Pairwise (fun x y => pyEq x y = false)

theorem valSetEq_iff {a b : List JVal} :
    valSetEq a b = true ↔ a.length = b.length ∧ ∀ x ∈ a, ∃ r ∈ b, pyEq r x = true := by
  simp [valSetEq]

theorem valSetEq_refl {a : List JVal} (h : ∀ x ∈ a, NodupKeysVal x) : valSetEq a a = true :=
  valSetEq_iff.mpr ⟨rfl, fun x hx => ⟨x, hx, pyEq_refl_val x (h x hx)⟩⟩

/-- pigeonhole up to `==`: if every member of the set `a` has an equal in `b` and `b` is not longer,
    every member of `b` has an equal in `a` -/
theorem valSet_pigeon : ∀ (a b : List JVal), PyApart a →
    (∀ x ∈ a, NodupKeysVal x) → (∀ y ∈ b, NodupKeysVal y) →
    (∀ x ∈ a, ∃ r ∈ b, pyEq r x = true) → b.length ≤ a.length →
    ∀ y ∈ b, ∃ x ∈ a, pyEq x y = true := by
  intro a
  induction a with
  | nil =>
    intro b _ _ _ _ hl y hy
    have : b = [] := List.eq_nil_of_length_eq_zero (by simpa using hl)
    subst this; simp at hy
  | cons x a' ih =>
    intro b hp ha hb hs hl y hy
    simp only [List.pairwise_cons] at hp
    obtain ⟨r, hr, hrx⟩ := hs x (by simp)
    obtain ⟨b1, b2, e⟩ := List.append_of_mem hr
    subst e
    have hxr : pyEq x r = true := pyEq_symm (hb r hr) (ha x (by simp)) hrx
    have hs' : ∀ x' ∈ a', ∃ r' ∈ b1 ++ b2, pyEq r' x' = true := by
      intro x' hx'
      obtain ⟨r', hr', he⟩ := hs x' (by simp [hx'])
      simp only [List.mem_append, List.mem_cons] at hr'
      rcases hr' with h1 | h1 | h1
      · exact ⟨r', by simp [h1], he⟩
      · subst h1
        have := pyEq_trans hxr he
        rw [hp.1 x' hx'] at this
        cases this
      · exact ⟨r', by simp [h1], he⟩
    have hl' : (b1 ++ b2).length ≤ a'.length := by
      simp only [List.length_append, List.length_cons] at hl ⊢
      omega
    have := ih (b1 ++ b2) hp.2 (fun z hz => ha z (by simp [hz]))
      (fun z hz => hb z (by
        simp only [List.mem_append, List.mem_cons] at hz ⊢
        rcases hz with h | h
        · exact Or.inl h
        · exact Or.inr (Or.inr h))) hs' hl'
    simp only [List.mem_append, List.mem_cons] at hy
    rcases hy with h1 | h1 | h1
    · obtain ⟨z, hz, he⟩ := this y (by simp [h1])
      exact ⟨z, by simp [hz], he⟩
    · subst h1; exact ⟨x, by simp, hxr⟩
    · obtain ⟨z, hz, he⟩ := this y (by simp [h1])
      exact ⟨z, by simp [hz], he⟩

theorem valSetEq_symm {a b : List JVal} (hp : PyApart a)
    (ha : ∀ x ∈ a, NodupKeysVal x) (hb : ∀ y ∈ b, NodupKeysVal y)
    (h : valSetEq a b = true) : valSetEq b a = true := by
  obtain ⟨hl, h⟩ := valSetEq_iff.mp h
  exact valSetEq_iff.mpr ⟨hl.symm, valSet_pigeon a b hp ha hb h (by omega)⟩

/-! ### well-formed schemas -/

/-- a value dict as Python holds it: distinct type names, every value set a set (no two members
    `==`), every mapping inside a value has distinct keys -/
structure ValsWF (tvs : List (String × List JVal)) : Prop where
  types_nodup : (tvs.map Prod.fst).Nodup
  apart : ∀ tv ∈ tvs, PyApart tv.2
  ok : ∀ tv ∈ tvs, ∀ v ∈ tv.2, NodupKeysVal v

/-- a schema as Python holds it: distinct keys, every value dict well-formed -/
structure SchemaWF (s : Schema) : Prop where
  keys_nodup : (s.map Prod.fst).Nodup
  vals : ∀ kv ∈ s, ValsWF kv.2

theorem typedEq_refl {a : List (String × List JVal)} (h : ValsWF a) : typedEq a a = true :=
  dictEq_refl h.types_nodup (fun tv htv => valSetEq_refl (h.ok tv htv))

theorem typedEq_symm {a b : List (String × List JVal)} (ha : ValsWF a) (hb : ValsWF b)
    (h : typedEq a b = true) : typedEq b a = true :=
  dictEq_symm ha.types_nodup hb.types_nodup
    (fun tv htv tw htw he => valSetEq_symm (ha.apart tv htv) (ha.ok tv htv) (hb.ok tw htw) he) h

theorem schemaEq_refl {a : Schema} (h : SchemaWF a) : schemaEq a a = true :=
  dictEq_refl h.keys_nodup (fun kv hkv => typedEq_refl (h.vals kv hkv))

theorem schemaEq_symm' {a b : Schema} (ha : SchemaWF a) (hb : SchemaWF b)
    (h : schemaEq a b = true) : schemaEq b a = true :=
  dictEq_symm ha.keys_nodup hb.keys_nodup
    (fun kv hkv kw hkw he => typedEq_symm (ha.vals kv hkv) (hb.vals kw hkw) he) h

theorem schemaEq_symm {a b : Schema} (ha : SchemaWF a) (hb : SchemaWF b) :
    schemaEq a b = schemaEq b a := by
  cases h1 : schemaEq a b with
  | true => exact (schemaEq_symm' ha hb h1).symm
  | false =>
    cases h2 : schemaEq b a with
    | false => rfl
    | true => rw [schemaEq_symm' hb ha h2] at h1; cases h1

/-! ### `difference` -/

theorem mem_schemaDifference {ig : Bool} {a b : Schema} {k : String} :
    k ∈ schemaDifference ig a b ↔
      ∃ v, (k, v) ∈ a ∧ (alookup k b = none ∨
        (ig = false ∧ ∃ w, alookup k b = some w ∧ typedEq w v = false)) := by
  simp only [schemaDifference, List.mem_map, List.mem_filter]
  constructor
  · rintro ⟨kv, ⟨hkv, hc⟩, rfl⟩
    refine ⟨kv.2, hkv, ?_⟩
    cases hl : alookup kv.1 b with
    | none => exact Or.inl rfl
    | some w =>
      simp only [hl, Bool.and_eq_true, Bool.not_eq_true'] at hc
      exact Or.inr ⟨hc.1, w, rfl, hc.2⟩
  · rintro ⟨v, hv, h⟩
    refine ⟨(k, v), ⟨hv, ?_⟩, rfl⟩
    rcases h with h | ⟨hi, w, hw, he⟩
    · simp [h]
    · simp [hw, hi, he]

theorem schemaDifference_nodup {ig : Bool} {a b : Schema} (ha : (a.map Prod.fst).Nodup) :
    (schemaDifference ig a b).Nodup := by
  unfold schemaDifference
  exact List.Nodup.sublist (List.Sublist.map _ List.filter_sublist) ha

theorem schemaDifference_nil_iff {a b : Schema} :
    schemaDifference false a b = [] ↔
      ∀ kv ∈ a, ∃ w, alookup kv.1 b = some w ∧ typedEq w kv.2 = true := by
  rw [List.eq_nil_iff_forall_not_mem]
  constructor
  · intro h kv hkv
    cases hl : alookup kv.1 b with
    | none => exact absurd (mem_schemaDifference.mpr ⟨kv.2, hkv, Or.inl hl⟩) (h kv.1)
    | some w =>
      refine ⟨w, rfl, ?_⟩
      cases he : typedEq w kv.2 with
      | true => rfl
      | false =>
        exact absurd (mem_schemaDifference.mpr ⟨kv.2, hkv, Or.inr ⟨rfl, w, hl, he⟩⟩) (h kv.1)
  · intro h k hk
    obtain ⟨v, hv, hc⟩ := mem_schemaDifference.mp hk
    obtain ⟨w, hw, he⟩ := h (k, v) hv
    rcases hc with hc | ⟨_, w', hw', he'⟩
    · simp only [hw] at hc; cases hc
    · simp only [hw] at hw'
      cases hw'
      rw [he] at he'
      cases he'

/-- `ignore_values=True` reports exactly the keys of `a` that are not keys of `b` -/
theorem difference_ignore_keys {a b : Schema} {k : String} :
    k ∈ schemaDifference true a b ↔ k ∈ a.map Prod.fst ∧ k ∉ b.map Prod.fst := by
  rw [mem_schemaDifference, ← alookup_none]
  constructor
  · rintro ⟨v, hv, h | ⟨h, _⟩⟩
    · exact ⟨List.mem_map.mpr ⟨(k, v), hv, rfl⟩, h⟩
    · cases h
  · rintro ⟨h1, h2⟩
    obtain ⟨kv, hkv, rfl⟩ := List.mem_map.mp h1
    exact ⟨kv.2, hkv, Or.inl h2⟩

theorem difference_ignore_subset {a b : Schema} :
    ∀ k ∈ schemaDifference true a b, k ∈ schemaDifference false a b := by
  intro k hk
  obtain ⟨v, hv, h⟩ := mem_schemaDifference.mp hk
  rcases h with h | ⟨h, _⟩
  · exact mem_schemaDifference.mpr ⟨v, hv, Or.inl h⟩
  · cases h

/-- both differences empty ⇒ equal (distinct keys suffice) -/
theorem schemaEq_of_differences {a b : Schema}
    (ha : (a.map Prod.fst).Nodup) (hb : (b.map Prod.fst).Nodup)
    (h1 : schemaDifference false a b = []) (h2 : schemaDifference false b a = []) :
    schemaEq a b = true := by
  rw [schemaDifference_nil_iff] at h1 h2
  have hab : ∀ k ∈ a.map Prod.fst, k ∈ b.map Prod.fst := by
    intro k hk
    obtain ⟨kv, hkv, e⟩ := List.mem_map.mp hk
    obtain ⟨w, hw, _⟩ := h1 kv hkv
    exact e ▸ key_of_alookup hw
  have hba : ∀ k ∈ b.map Prod.fst, k ∈ a.map Prod.fst := by
    intro k hk
    obtain ⟨kv, hkv, e⟩ := List.mem_map.mp hk
    obtain ⟨w, hw, _⟩ := h2 kv hkv
    exact e ▸ key_of_alookup hw
  have l1 := length_le_of_nodup_subset ha hab
  have l2 := length_le_of_nodup_subset hb hba
  simp only [List.length_map] at l1 l2
  refine dictEq_iff.mpr ⟨by omega, fun kv hkv => ?_⟩
  obtain ⟨w, hw, _⟩ := h1 kv hkv
  obtain ⟨v, hv, he⟩ := h2 (kv.1, w) (alookup_mem hw)
  have : alookup kv.1 a = some kv.2 := alookup_of_mem ha hkv
  simp only [this] at hv
  cases hv
  exact ⟨w, hw, he⟩

/-- equal both ways ⇒ the difference is empty (distinct keys suffice) -/
theorem difference_nil_of_eq {a b : Schema} (ha : (a.map Prod.fst).Nodup)
    (h1 : schemaEq a b = true) (h2 : schemaEq b a = true) : schemaDifference false a b = [] := by
  rw [schemaDifference_nil_iff]
  intro kv hkv
  obtain ⟨w, hw, _⟩ := (dictEq_iff.mp h1).2 kv hkv
  obtain ⟨v, hv, he⟩ := (dictEq_iff.mp h2).2 (kv.1, w) (alookup_mem hw)
  have : alookup kv.1 a = some kv.2 := alookup_of_mem ha hkv
  simp only [this] at hv
  cases hv
  exact ⟨w, hw, he⟩

/-- for dicts with distinct keys: both differences are empty iff the schemas are equal both ways -/
theorem difference_empty_iff' {a b : Schema}
    (ha : (a.map Prod.fst).Nodup) (hb : (b.map Prod.fst).Nodup) :
    (schemaDifference false a b = [] ∧ schemaDifference false b a = []) ↔
      (schemaEq a b = true ∧ schemaEq b a = true) :=
  ⟨fun h => ⟨schemaEq_of_differences ha hb h.1 h.2, schemaEq_of_differences hb ha h.2 h.1⟩,
   fun h => ⟨difference_nil_of_eq ha h.1 h.2, difference_nil_of_eq hb h.2 h.1⟩⟩

/-- for well-formed schemas (where `==` is symmetric): both differences are empty iff equal -/
theorem difference_empty_iff {a b : Schema} (ha : SchemaWF a) (hb : SchemaWF b) :
    (schemaDifference false a b = [] ∧ schemaDifference false b a = []) ↔ schemaEq a b = true := by
  rw [difference_empty_iff' ha.keys_nodup hb.keys_nodup]
  exact ⟨fun h => h.1, fun h => ⟨h, schemaEq_symm' ha hb h⟩⟩

/-! ### detected schemas are well-formed -/

theorem mem_addTyped_types {v : JVal} {tvs : List (String × List JVal)} {t : String} :
    t ∈ (addTyped v tvs).map Prod.fst ↔ t ∈ tvs.map Prod.fst ∨ t = pyTypeName v := by
  induction tvs with
  | nil => simp [addTyped]
  | cons a l ih =>
    obtain ⟨t', vs⟩ := a
    simp only [addTyped]
    split
    · next e => simp only [List.map_cons, List.mem_cons]; rw [← e]; grind
    · simp only [List.map_cons, List.mem_cons, ih]; grind

theorem nodup_addTyped {v : JVal} {tvs : List (String × List JVal)}
    (h : (tvs.map Prod.fst).Nodup) : ((addTyped v tvs).map Prod.fst).Nodup := by
  induction tvs with
  | nil => simp [addTyped]
  | cons a l ih =>
    obtain ⟨t', vs⟩ := a
    simp only [List.map_cons, List.nodup_cons] at h
    simp only [addTyped]
    split
    · simp only [List.map_cons, List.nodup_cons]; exact h
    · next e =>
      simp only [List.map_cons, List.nodup_cons, mem_addTyped_types, not_or]
      exact ⟨⟨h.1, e⟩, ih h.2⟩

theorem addSet_pyApart {v : JVal} {vs : List JVal} (h : PyApart vs) : PyApart (addSet v vs) := by
  unfold addSet
  split
  · exact h
  · next hn =>
    simp only [List.any_eq_true, not_exists, not_and, Bool.not_eq_true] at hn
    exact List.pairwise_append.mpr ⟨h, by simp, fun r hr y hy => by
      simp only [List.mem_singleton] at hy; subst hy; exact hn r hr⟩

/-- every value set is a set whose members satisfy `Q` -/
def TypedInv (Q : JVal → Prop) (tvs : List (String × List JVal)) : Prop :=
  ∀ tv ∈ tvs, PyApart tv.2 ∧ ∀ x ∈ tv.2, Q x

theorem typedInv_addTyped {Q : JVal → Prop} {v : JVal} {tvs : List (String × List JVal)}
    (hv : Q v) (h : TypedInv Q tvs) : TypedInv Q (addTyped v tvs) := by
  induction tvs with
  | nil =>
    intro tv htv
    simp only [addTyped, List.mem_singleton] at htv
    subst htv
    exact ⟨by simp, by simpa using hv⟩
  | cons a l ih =>
    obtain ⟨t', vs⟩ := a
    have h0 := h (t', vs) (by simp)
    have hl : TypedInv Q l := fun tv htv => h tv (by simp [htv])
    simp only [addTyped]
    split
    · intro tv htv
      simp only [List.mem_cons] at htv
      rcases htv with htv | htv
      · subst htv
        refine ⟨addSet_pyApart h0.1, fun x hx => ?_⟩
        rcases mem_addSet hx with hx | hx
        · exact h0.2 x hx
        · exact hx ▸ hv
      · exact hl tv htv
    · intro tv htv
      simp only [List.mem_cons] at htv
      rcases htv with htv | htv
      · subst htv; exact h0
      · exact ih hl tv htv

theorem foldl_addTyped_wf {Q : JVal → Prop} {vals : List JVal} :
    ∀ {acc : List (String × List JVal)}, (∀ v ∈ vals, Q v) → (acc.map Prod.fst).Nodup →
      TypedInv Q acc →
      ((vals.foldl (fun a v => addTyped v a) acc).map Prod.fst).Nodup ∧
        TypedInv Q (vals.foldl (fun a v => addTyped v a) acc) := by
  induction vals with
  | nil => intro acc _ hn hi; exact ⟨hn, hi⟩
  | cons v vs ih =>
    intro acc hq hn hi
    simp only [List.foldl_cons]
    exact ih (fun x hx => hq x (by simp [hx])) (nodup_addTyped hn)
      (typedInv_addTyped (hq v (by simp)) hi)

theorem collectByType_wf {vals : List JVal} (h : ∀ v ∈ vals, NodupKeysVal v) :
    ValsWF (collectByType vals) := by
  have := @foldl_addTyped_wf NodupKeysVal vals [] h (by simp) (by intro tv htv; simp at htv)
  exact ⟨this.1, fun tv htv => (this.2 tv htv).1, fun tv htv => (this.2 tv htv).2⟩

theorem getPath_nodupKeys : ∀ (nodes : List String) (v w : JVal),
    NodupKeysVal v → getPath nodes v = some w → NodupKeysVal w
  | [], v, w, h, hg => by simp only [getPath] at hg; cases hg; exact h
  | n :: ns, .obj kvs, w, h, hg => by
    simp only [getPath] at hg
    cases hu : lookupKV n kvs with
    | none => simp [hu] at hg
    | some u =>
      simp only [hu] at hg
      exact getPath_nodupKeys ns u w
        (NodupKeysObj_mem (by simpa [NodupKeysVal] using h) (n, u) (lookupKV_mem hu)) hg
  | _ :: _, .null, _, _, hg => by simp [getPath] at hg
  | _ :: _, .bool _, _, _, hg => by simp [getPath] at hg
  | _ :: _, .int _, _, _, hg => by simp [getPath] at hg
  | _ :: _, .flt _ _ _, _, _, hg => by simp [getPath] at hg
  | _ :: _, .str _, _, _, hg => by simp [getPath] at hg
  | _ :: _, .arr _, _, _, hg => by simp [getPath] at hg

theorem slotValues_nodupKeys {jobs : List Job} (hj : ∀ j ∈ jobs, NodupKeysObj j.sp) (k : String) :
    ∀ v ∈ slotValues (buildIndex k jobs), NodupKeysVal v := by
  intro r hin
  rw [mem_slotValues] at hin
  rcases buildFrom_keys_sound hin with h0 | ⟨j, hjm, v, hv, hr⟩
  · simp [Index.keys] at h0
  · obtain ⟨e, _⟩ := keyOf_eq_val hr
    subst e
    exact getPath_nodupKeys _ _ _ (by simpa [NodupKeysVal] using hj j hjm) hv

/-- the value dicts of a detected schema have distinct type names and hold sets (no hypothesis) -/
theorem detectSchema_types_nodup (excl : Bool) (jobs : List Job) :
    ∀ kv ∈ detectSchema excl jobs, (kv.2.map Prod.fst).Nodup ∧ ∀ tv ∈ kv.2, PyApart tv.2 := by
  intro kv hkv
  rw [detectSchema_eq] at hkv
  obtain ⟨k, _, rfl⟩ := List.mem_map.mp hkv
  have := @foldl_addTyped_wf (fun _ => True) (slotValues (buildIndex k jobs)) []
    (fun _ _ => trivial) (by simp) (by intro tv htv; simp at htv)
  exact ⟨this.1, fun tv htv => (this.2 tv htv).1⟩

/-- a schema detected from jobs whose state points are Python dicts (distinct keys in every
    mapping, also inside lists) is well-formed -/
theorem detectSchema_wf (excl : Bool) {jobs : List Job} (hj : ∀ j ∈ jobs, NodupKeysObj j.sp) :
    SchemaWF (detectSchema excl jobs) := by
  refine ⟨schema_keys_nodup' excl jobs, fun kv hkv => ?_⟩
  rw [detectSchema_eq] at hkv
  obtain ⟨k, _, rfl⟩ := List.mem_map.mp hkv
  exact collectByType_wf (slotValues_nodupKeys hj k)

/-! ### the gate -/

/-- the inner test `only_in_src or only_in_dst` of the gate is redundant (no hypothesis) -/
theorem syncGate_simple (src dst : List Job) :
    syncGate src dst =
      (!(detectSchema false src).isEmpty && !(detectSchema false dst).isEmpty &&
        !schemaEq (detectSchema false src) (detectSchema false dst)) := by
  have key : schemaEq (detectSchema false src) (detectSchema false dst) = false →
      (!(schemaDifference false (detectSchema false src) (detectSchema false dst)).isEmpty ||
        !(schemaDifference false (detectSchema false dst) (detectSchema false src)).isEmpty) = true := by
    intro hne
    cases h1 : (schemaDifference false (detectSchema false src) (detectSchema false dst)).isEmpty with
    | false => rfl
    | true =>
      cases h2 : (schemaDifference false (detectSchema false dst) (detectSchema false src)).isEmpty with
      | false => rfl
      | true =>
        rw [List.isEmpty_iff] at h1 h2
        rw [schemaEq_of_differences (schema_keys_nodup' false src) (schema_keys_nodup' false dst) h1 h2]
          at hne
        cases hne
  cases hE : schemaEq (detectSchema false src) (detectSchema false dst) with
  | true => simp [syncGate, hE]
  | false =>
    have k := key hE
    simp only [syncGate, hE, k]
    cases (detectSchema false src).isEmpty <;> cases (detectSchema false dst).isEmpty <;> simp

/-- the gate does not depend on which project is the source (state points are Python dicts) -/
theorem syncGate_symm {a b : List Job} (ha : ∀ j ∈ a, NodupKeysObj j.sp)
    (hb : ∀ j ∈ b, NodupKeysObj j.sp) : syncGate a b = syncGate b a := by
  rw [syncGate_simple, syncGate_simple,
    schemaEq_symm (detectSchema_wf false ha) (detectSchema_wf false hb)]
  cases (detectSchema false a).isEmpty <;> cases (detectSchema false b).isEmpty <;> simp

/-- a project never conflicts with itself -/
theorem syncGate_same {jobs : List Job} (h : ∀ j ∈ jobs, NodupKeysObj j.sp) :
    syncGate jobs jobs = false := by
  rw [syncGate_simple, schemaEq_refl (detectSchema_wf false h)]
  simp

theorem dottedKeysFrom_empty {jobs : List Job} (h : ∀ j ∈ jobs, j.sp = []) :
    ∀ acc, dottedKeysFrom acc jobs = acc := by
  induction jobs with
  | nil => intro acc; rfl
  | cons j js ih =>
    intro acc
    have hj : j.sp = [] := h j (by simp)
    simp only [dottedKeysFrom, hj, flatten, flattenKVs, List.map_nil, List.foldl_nil]
    exact ih (fun x hx => h x (by simp [hx])) acc

/-- no jobs, or only jobs with the empty state point: the detected schema is empty -/
theorem detectSchema_empty (excl : Bool) {jobs : List Job} (h : ∀ j ∈ jobs, j.sp = []) :
    detectSchema excl jobs = [] := by
  rw [detectSchema_eq]
  simp [dottedKeys, dottedKeysFrom_empty h]

theorem syncGate_empty_left {src : List Job} (dst : List Job) (h : ∀ j ∈ src, j.sp = []) :
    syncGate src dst = false := by
  rw [syncGate_simple, detectSchema_empty false h]
  simp

theorem syncGate_empty_right (src : List Job) {dst : List Job} (h : ∀ j ∈ dst, j.sp = []) :
    syncGate src dst = false := by
  rw [syncGate_simple, detectSchema_empty false h]
  simp

theorem syncGate_nil_left (dst : List Job) : syncGate [] dst = false :=
  syncGate_empty_left dst (by intro j hj; simp at hj)

theorem syncGate_nil_right (src : List Job) : syncGate src [] = false :=
  syncGate_empty_right src (by intro j hj; simp at hj)

/-! ### the hypotheses are needed; non-vacuity -/

/-- `JVal.obj` with a repeated key is not a Python dict; on such a "mapping" (here inside a list)
    `pyEq` is not even reflexive and the gate would fire for a project against itself.  This is an
    artefact of association lists, not of signac: hence `NodupKeysObj` in `syncGate_same/_symm`. -/
theorem syncGate_same_needs_dicts :
    syncGate [⟨"j", [("a", .arr [.obj [("k", .int 1), ("k", .int 2)]])]⟩]
             [⟨"j", [("a", .arr [.obj [("k", .int 1), ("k", .int 2)]])]⟩] = true := by decide

/-- For lists that are not sets `valSetEq` is not symmetric, so "distinct keys" alone does not give
    `difference_empty_iff` with a one-sided `schemaEq` (only `difference_empty_iff'`). -/
theorem difference_empty_iff_needs_sets :
    let a : Schema := [("k", [("int", [.int 1, .int 1])])]
    let b : Schema := [("k", [("int", [.int 1, .int 2])])]
    schemaEq a b = true ∧ schemaDifference false a b ≠ [] := by decide

/-- The gate DOES depend on the order of the jobs of a project (F-6a: `True` and `1` share a dict
    slot and the first one inserted decides under which type the slot is reported): source
    `{a: True}, {a: 1}` has schema `a ↦ bool ↦ {True}`, which equals that of the destination `{a: True}`;
    the same source jobs listed as `{a: 1}, {a: True}` give `a ↦ int ↦ {1}` and the gate fires. -/
theorem syncGate_perm_false :
    ¬ (∀ src src' dst : List Job, src.Perm src' → syncGate src dst = syncGate src' dst) := by
  intro h
  have := h [⟨"j1", [("a", .bool true)]⟩, ⟨"j2", [("a", .int 1)]⟩]
    [⟨"j2", [("a", .int 1)]⟩, ⟨"j1", [("a", .bool true)]⟩]
    [⟨"j3", [("a", .bool true)]⟩] (List.Perm.swap _ _ _)
  revert this
  decide

/-- gate fires: `{a: 1}` vs `{a: 2}` -/
example : syncGate [⟨"j1", [("a", .int 1)]⟩] [⟨"j2", [("a", .int 2)]⟩] = true := by decide

/-- gate silent: same keys and values, jobs in another order and under other ids -/
example : syncGate [⟨"j1", [("a", .int 1), ("b", .str "x")]⟩, ⟨"j2", [("a", .int 2), ("b", .str "x")]⟩]
    [⟨"j3", [("b", .str "x"), ("a", .int 2)]⟩, ⟨"j4", [("a", .int 1), ("b", .str "x")]⟩] = false := by
  decide

/-- gate fires: `{a: 1}` vs `{a: 1.0}` — equal values, different type -/
example : syncGate [⟨"j1", [("a", .int 1)]⟩] [⟨"j2", [("a", .flt 1 0 "1.0")]⟩] = true := by decide

/-- gate silent: one side has no jobs / only the empty state point -/
example : syncGate [] [⟨"j2", [("a", .int 2)]⟩] = false ∧
    syncGate [⟨"j1", [("a", .int 1)]⟩] [⟨"j0", []⟩] = false := by decide

/-- gate fires on a value difference below a common nested key; `difference` names the key, and
    with `ignore_values` only the missing key -/
example :
    let a : List Job := [⟨"j1", [("a", .obj [("b", .int 1)]), ("c", .null)]⟩]
    let b : List Job := [⟨"j2", [("a", .obj [("b", .int 2)])]⟩]
    syncGate a b = true ∧
      schemaDifference false (detectSchema false a) (detectSchema false b) = ["a.b", "c"] ∧
      schemaDifference true (detectSchema false a) (detectSchema false b) = ["c"] ∧
      schemaDifference false (detectSchema false b) (detectSchema false a) = ["a.b"] := by decide

/-- a key that holds only the empty mapping is reported with an EMPTY value dict (`a ↦ {}`): equal
    to itself, different from `a ↦ int ↦ {1}` -/
example : syncGate [⟨"j1", [("a", .obj [])]⟩] [⟨"j2", [("a", .obj [])]⟩] = false ∧
    syncGate [⟨"j1", [("a", .obj [])]⟩] [⟨"j2", [("a", .int 1)]⟩] = true := by decide

/-- the hypothesis of `syncGate_symm` / `syncGate_same` holds of a nested, mixed corpus -/
example : ∀ j ∈ ([⟨"j1", [("a", .obj [("b", .int 1)]), ("c", .arr [.obj [("x", .null), ("y", .bool true)]])]⟩,
    ⟨"j2", [("a", .flt 1 0 "1.0")]⟩] : List Job), NodupKeysObj j.sp := by
  intro j hj
  simp only [List.mem_cons, List.not_mem_nil, or_false] at hj
  rcases hj with hj | hj <;> subst hj <;> simp [NodupKeysObj, NodupKeysVal, NodupKeysList]

end Signac.Schema

/-
  Proofs/ConcFs — the file-system layer of the C12 model: lookup laws of `set` / `del`,
  the file-system invariant `FsInv`, and what a step of one actor guarantees to the others (`Guar`).
-/
import Signac.Concurrency
namespace Signac.Conc
variable {SP DV : Type}

theorem get_del (fs : FS SP DV) (p q : Path) :
    (fs.del p).get q = if p = q then none else fs.get q := by
  induction fs with
  | nil => simp [FS.del, FS.get]
  | cons e r ih =>
    obtain ⟨q', n⟩ := e
    simp only [FS.del, List.filter] at ih ⊢
    by_cases h : q' = p
    · subst h
      simp only [ne_eq, not_true_eq_false, decide_false, FS.get]
      rw [ih]
      by_cases h2 : q' = q <;> simp [h2]
    · simp only [ne_eq, h, not_false_eq_true, decide_true, FS.get]
      rw [ih]
      by_cases h2 : q' = q
      · subst h2
        have : ¬ p = q' := fun e => h e.symm
        simp [this]
      · simp [h2]

theorem get_set (fs : FS SP DV) (p : Path) (n : Node SP DV) (q : Path) :
    (fs.set p n).get q = if p = q then some n else fs.get q := by
  simp only [FS.set, FS.get]
  by_cases h : p = q
  · simp [h]
  · simp [h, get_del]

def IsDir (fs : FS SP DV) (p : Path) : Prop := fs.get p = some .dir
def IsFile (fs : FS SP DV) (p : Path) : Prop := ∃ c, fs.get p = some (.file c)

/-- complete content of the right kind for job `i` -/
def GoodC (hash : SP → JobId) (i : JobId) : Kind → Content SP DV → Prop
  | .sp, .spc v => hash v = i
  | .doc, .docc _ => True
  | _, _ => False

theorem goodC_not_torn {hash : SP → JobId} {i : JobId} {k : Kind} {c : Content SP DV}
    (h : GoodC hash i k c) : c ≠ .torn := by
  intro e; subst e; cases k <;> exact h

/-- what may sit at a path: directories at directory paths; a *complete* state point that hashes
    to the directory name / a *complete* JSON object at the published file names; an empty-or-complete
    payload in temp files -/
def NodeOk (hash : SP → JobId) : Path → Node SP DV → Prop
  | .ws, n => n = .dir
  | .jobdir _, n => n = .dir
  | .file i k, n => ∃ c, n = .file c ∧ GoodC hash i k c
  | .tmp i k _, n => ∃ c, n = .file c ∧ (c = .torn ∨ GoodC hash i k c)

/-- Shape of every reachable file system: every entry is `NodeOk`, and nothing exists without
    its parent directory. -/
structure FsInv (hash : SP → JobId) (fs : FS SP DV) : Prop where
  ok : ∀ p n, fs.get p = some n → NodeOk hash p n
  par : ∀ p n, fs.get p = some n → parentOk fs p = true

/-- What a step of actor `a` guarantees to everybody else: directories stay, published files
    stay files, nobody else's temp file is touched. -/
structure Guar (a : Nat) (fs fs' : FS SP DV) : Prop where
  dirs : ∀ p, IsDir fs p → IsDir fs' p
  files : ∀ i k, IsFile fs (.file i k) → IsFile fs' (.file i k)
  tmps : ∀ i k b, b ≠ a → fs'.get (.tmp i k b) = fs.get (.tmp i k b)

theorem Guar.refl (a : Nat) (fs : FS SP DV) : Guar a fs fs :=
  ⟨fun _ h => h, fun _ _ h => h, fun _ _ _ _ => rfl⟩

theorem parentOk_iff (fs : FS SP DV) (p : Path) :
    parentOk fs p = true ↔ ∀ q, p.parent = some q → IsDir fs q := by
  unfold parentOk IsDir
  cases hp : p.parent with
  | none => simp
  | some q =>
    simp only [Option.some.injEq, forall_eq']
    cases hq : fs.get q with
    | none => simp
    | some n => cases n <;> simp


variable {hash : SP → JobId}

theorem FsInv.fileT {fs : FS SP DV} (h : FsInv hash fs) {i : JobId} {k : Kind} {n : Node SP DV}
    (hg : fs.get (.file i k) = some n) : ∃ c, n = .file c ∧ GoodC hash i k c := h.ok _ _ hg

theorem FsInv.tmpT {fs : FS SP DV} (h : FsInv hash fs) {i : JobId} {k : Kind} {a : Nat} {n : Node SP DV}
    (hg : fs.get (.tmp i k a) = some n) : ∃ c, n = .file c ∧ (c = .torn ∨ GoodC hash i k c) :=
  h.ok _ _ hg

theorem dirs_set {fs : FS SP DV} (h : FsInv hash fs) {p : Path} {n : Node SP DV}
    (hn : NodeOk hash p n) : ∀ q, IsDir fs q → IsDir (fs.set p n) q := by
  intro q hq
  simp only [IsDir, get_set] at hq ⊢
  split
  · subst_vars
    have := h.ok _ _ hq
    cases q <;> simp_all [NodeOk]
  · exact hq

theorem fsinv_set {fs : FS SP DV} (h : FsInv hash fs) {p : Path} {n : Node SP DV}
    (hn : NodeOk hash p n) (hp : parentOk fs p = true) : FsInv hash (fs.set p n) := by
  refine ⟨?_, ?_⟩
  · intro q m hq
    simp only [get_set] at hq
    split at hq
    · subst_vars; cases hq; exact hn
    · exact h.ok _ _ hq
  · intro q m hq
    rw [parentOk_iff]
    intro r hr
    apply dirs_set h hn
    simp only [get_set] at hq
    split at hq
    · subst_vars; exact (parentOk_iff fs _).1 hp r hr
    · exact (parentOk_iff fs q).1 (h.par _ _ hq) r hr

theorem fsinv_del_tmp {fs : FS SP DV} (h : FsInv hash fs) (i : JobId) (k : Kind) (a : Nat) :
    FsInv hash (fs.del (.tmp i k a)) := by
  refine ⟨?_, ?_⟩
  · intro q m hq
    simp only [get_del] at hq
    split at hq
    · cases hq
    · exact h.ok _ _ hq
  · intro q m hq
    simp only [get_del] at hq
    split at hq
    · cases hq
    · rw [parentOk_iff]
      intro r hr
      have := (parentOk_iff fs q).1 (h.par _ _ hq) r hr
      simp only [IsDir, get_del] at this ⊢
      split
      · subst_vars
        have := h.ok _ _ this
        simp [NodeOk] at this
      · exact this

theorem guar_set {fs : FS SP DV} (h : FsInv hash fs) {p : Path} {n : Node SP DV} (a : Nat)
    (hn : NodeOk hash p n) (hp : ∀ i k b, p = .tmp i k b → b = a) : Guar a fs (fs.set p n) := by
  refine ⟨dirs_set h hn, ?_, ?_⟩
  · intro i k ⟨c, hc⟩
    simp only [IsFile, get_set]
    split
    · subst_vars
      obtain ⟨c', rfl, _⟩ := hn
      exact ⟨c', rfl⟩
    · exact ⟨c, hc⟩
  · intro i k b hb
    simp only [get_set]
    split
    · subst_vars; exact absurd (hp i k b rfl) hb
    · rfl

theorem guar_del_tmp {fs : FS SP DV} (h : FsInv hash fs) (i : JobId) (k : Kind) (a : Nat) :
    Guar a fs (fs.del (.tmp i k a)) := by
  refine ⟨?_, ?_, ?_⟩
  · intro q hq
    simp only [IsDir, get_del] at hq ⊢
    split
    · subst_vars
      have := h.ok _ _ hq
      simp [NodeOk] at this
    · exact hq
  · intro j k' ⟨c, hc⟩
    simp only [IsFile, get_del]
    split
    · rename_i he; cases he
    · exact ⟨c, hc⟩
  · intro j k' b hb
    simp only [get_del]
    split
    · rename_i he; cases he; exact absurd rfl hb
    · rfl

theorem fsinv_nil : FsInv hash ([] : FS SP DV) :=
  ⟨fun _ _ h => by simp [FS.get] at h, fun _ _ h => by simp [FS.get] at h⟩

theorem Guar.trans {a : Nat} {f1 f2 f3 : FS SP DV} (h1 : Guar a f1 f2) (h2 : Guar a f2 f3) :
    Guar a f1 f3 :=
  ⟨fun p h => h2.dirs p (h1.dirs p h), fun i k h => h2.files i k (h1.files i k h),
   fun i k b hb => (h2.tmps i k b hb).trans (h1.tmps i k b hb)⟩

/-! results of the primitives, by case -/

theorem exec_isdir_T {fs : FS SP DV} {p : Path} (h : IsDir fs p) : exec fs (.isdir p) = (fs, .bool true) := by
  simp only [exec]; unfold IsDir at h; rw [h]
theorem exec_isdir_F {fs : FS SP DV} {p : Path} (h : ¬ IsDir fs p) : exec fs (.isdir p) = (fs, .bool false) := by
  simp only [exec]; unfold IsDir at h; split <;> simp_all
theorem exec_isfile_T {fs : FS SP DV} {p : Path} (h : IsFile fs p) : exec fs (.isfile p) = (fs, .bool true) := by
  obtain ⟨c, hc⟩ := h; simp only [exec, hc]
theorem exec_isfile_F {fs : FS SP DV} {p : Path} (h : ¬ IsFile fs p) : exec fs (.isfile p) = (fs, .bool false) := by
  simp only [exec]; unfold IsFile at h; split <;> simp_all
theorem exec_exists_T {fs : FS SP DV} {p : Path} {n : Node SP DV} (h : fs.get p = some n) :
    exec fs (.pexists p) = (fs, .bool true) := by simp only [exec, h]
theorem exec_read_file {fs : FS SP DV} {p : Path} {c : Content SP DV} (h : fs.get p = some (.file c)) :
    exec fs (.read p) = (fs, .data c) := by simp only [exec, h]
theorem exec_read_none {fs : FS SP DV} {p : Path} (h : fs.get p = none) :
    exec fs (.read p) = (fs, .err .enoent) := by simp only [exec, h]
theorem exec_mkdir_some {fs : FS SP DV} {p : Path} {n : Node SP DV} (h : fs.get p = some n) :
    exec fs (.mkdir p) = (fs, .err .eexist) := by simp only [exec, h]
theorem exec_mkdir_none {fs : FS SP DV} {p : Path} (h : fs.get p = none) (hp : parentOk fs p = true) :
    exec fs (.mkdir p) = (fs.set p .dir, .ok) := by simp only [exec, h, hp, if_true]
theorem exec_openw {fs : FS SP DV} {p : Path} (h : ¬ IsDir fs p) (hp : parentOk fs p = true) :
    exec fs (.openw p) = (fs.set p (.file .torn), .ok) := by
  simp only [exec]; unfold IsDir at h; split <;> simp_all
theorem exec_write {fs : FS SP DV} {p : Path} {c : Content SP DV} (h : IsFile fs p) :
    exec fs (.write p c) = (fs.set p (.file c), .ok) := by
  obtain ⟨c', hc⟩ := h; simp only [exec, hc]
theorem exec_close {fs : FS SP DV} {p : Path} : exec fs (.close p) = (fs, .ok) := rfl
theorem exec_rename {fs : FS SP DV} {p q : Path} {c : Content SP DV} (h : fs.get p = some (.file c))
    (hq : ¬ IsDir fs q) (hp : parentOk fs q = true) :
    exec fs (.rename p q) = ((fs.del p).set q (.file c), .ok) := by
  simp only [exec, h]; unfold IsDir at hq; split <;> simp_all
theorem exec_listdir {fs : FS SP DV} {p : Path} (h : IsDir fs p) :
    exec fs (.listdir p) = (fs, .names fs.jobs) := by
  simp only [exec]; unfold IsDir at h; rw [h]

end Signac.Conc

/-
  The abstract operations of `Signac.Proofs.LifeRefine` (`specInit`, `specRekey`, `specMove`,
  `specClone`, `specRemove`, `specClear` on `AbsW JVal`) coincide with what `Signac.Ws.step`
  does to the job tables of the projects involved.

  `WsRel R A w`: for both projects of the `Ws` world, id by id, the abstract state `A` and the
  job table agree: same ids, same state points, and the payload corresponds to (document, files)
  through `R` — a parameter, because the `Ws` model keeps the document as a JSON value and the
  files as a name ↦ content list while the lifecycle model keeps a flat path ↦ bytes map; all the
  theorems need of `R` is that "no payload" and "only an empty document `{}`" correspond to
  (no document entries, no files).
  Model-to-model; handles, sharing groups and foreign entries of `Ws.World` have no counterpart
  in the lifecycle model and are not related.
-/
import Signac.Proofs.LifeRefine
import Signac.Proofs.WsOps
namespace Signac.Refine
open Signac Signac.Life

abbrev PayRel := Payload → List (String × JVal) → List (String × String) → Prop

def Rel1 (R : PayRel) : Option (JVal × Payload) → Option Ws.JobData → Prop
  | none, none => True
  | some (v, P), some jd => jd.sp = v ∧ R P jd.doc jd.files
  | _, _ => False

/-- abstract lifecycle state and `Ws` job tables agree on projects 0 and 1 -/
def WsRel (R : PayRel) (A : AbsW JVal) (w : Ws.World) : Prop :=
  ∀ q, q < 2 → ∀ id, Rel1 R (A (q, id)) (Ws.alookup id (w.jobs q))

def resMap : Ws.Res → Life.Res
  | .ok => .ok
  | .okId _ => .ok
  | .destExists => destExists
  | .runtimeError => .exc "RuntimeError"
  | .valueError => .exc "ValueError"
  | .keyError => .exc "KeyError"
  | .lookupError => .exc "LookupError"
  | .typeError => .exc "TypeError"
  | .recursionError => .exc "RecursionError"
  | .undefinedHandle => .exc "undefined"

variable {R : PayRel}

theorem rel1_none_left {b : Option Ws.JobData} (h : Rel1 R none b) : b = none := by
  cases b with
  | none => rfl
  | some _ => simp [Rel1] at h

theorem rel1_none_right {a : Option (JVal × Payload)} (h : Rel1 R a none) : a = none := by
  cases a with
  | none => rfl
  | some x => obtain ⟨v, P⟩ := x; simp [Rel1] at h

theorem rel1_some_right {a : Option (JVal × Payload)} {jd : Ws.JobData} (h : Rel1 R a (some jd)) :
    ∃ P, a = some (jd.sp, P) ∧ R P jd.doc jd.files := by
  cases a with
  | none => simp [Rel1] at h
  | some x => obtain ⟨v, P⟩ := x; exact ⟨P, by rw [← h.1], h.2⟩

theorem jobs_setJobs (w : Ws.World) {p q : Nat} (hp : p < 2) (hq : q < 2) (j : Ws.Jobs) :
    (w.setJobs p j).jobs q = if q = p then j else w.jobs q := by
  unfold Ws.World.setJobs Ws.World.jobs
  by_cases hp0 : p = 0 <;> by_cases hq0 : q = 0 <;> simp_all <;> omega

theorem alookup_append_ne {β : Type} {i k : String} (h : i ≠ k) (v : β) (l : List (String × β)) :
    Ws.alookup i (l ++ [(k, v)]) = Ws.alookup i l := by
  rw [Ws.alookup_append_new]; cases Ws.alookup i l <;> simp [h]

theorem alookup_append_self {β : Type} {k : String} (v : β) (l : List (String × β))
    (h : Ws.alookup k l = none) : Ws.alookup k (l ++ [(k, v)]) = some v := by
  rw [Ws.alookup_append_new, h]; simp

theorem key_ne {p q : Nat} {i j : String} : ((q, i) : Key) = (p, j) ↔ q = p ∧ i = j := by simp

section
variable (hash : JVal → String)

/-- `init` -/
theorem ws_init {A : AbsW JVal} {w : Ws.World} (hrel : WsRel R A w) (h : String) (hd : Ws.Handle)
    (hh : Ws.alookup h w.handles = some hd) (hp : hd.proj < 2) (hR : R noPayload [] []) :
    WsRel R (specInit (hd.proj, hash hd.sp) hd.sp A).1 (Ws.step hash w (.init h)).1 ∧
      resMap (Ws.step hash w (.init h)).2 = (specInit (hd.proj, hash hd.sp) hd.sp A).2 := by
  simp only [Ws.step, hh, Ws.ensure]
  have h0 := hrel _ hp (hash hd.sp)
  cases hl : Ws.alookup (hash hd.sp) (w.jobs hd.proj) with
  | some jd =>
    rw [hl] at h0
    obtain ⟨P, hA, _⟩ := rel1_some_right h0
    simp only [specInit, hA]
    exact ⟨hrel, rfl⟩
  | none =>
    rw [hl] at h0
    have hA := rel1_none_right h0
    simp only [specInit, hA]
    refine ⟨?_, rfl⟩
    intro q hq i
    rw [jobs_setJobs w hp hq]
    by_cases hqp : q = hd.proj
    · subst hqp
      simp only [if_true]
      by_cases hi : i = hash hd.sp
      · subst hi
        rw [alookup_append_self _ _ hl]
        simp only [aupd, if_true, Rel1]
        exact ⟨trivial, hR⟩
      · rw [alookup_append_ne hi]
        simp only [aupd, Prod.mk.injEq, hi, and_false, if_false]
        exact hrel _ hq i
    · simp only [hqp, if_false, aupd, Prod.mk.injEq, false_and]
      exact hrel q hq i

/-- re-key (`_StatePointDict._save`; reached from `spset`, `spdel`, `spnest`, `spassign`, `update`) -/
theorem ws_rekey {A : AbsW JVal} {w : Ws.World} (hrel : WsRel R A w) (hd : Ws.Handle) (newSp : JVal)
    (hp : hd.proj < 2) (hne : hash hd.sp ≠ hash newSp) :
    WsRel R (specRekey (hd.proj, hash hd.sp) (hd.proj, hash newSp) newSp A).1 (Ws.rekey hash w hd newSp).1 ∧
      resMap (Ws.rekey hash w hd newSp).2 =
        (specRekey (hd.proj, hash hd.sp) (hd.proj, hash newSp) newSp A).2 := by
  simp only [Ws.rekey, if_neg hne]
  have h0 := hrel _ hp (hash hd.sp)
  have h1 := hrel _ hp (hash newSp)
  cases hsrc : Ws.alookup (hash hd.sp) (w.jobs hd.proj) with
  | none =>
    rw [hsrc] at h0
    simp only [specRekey, rel1_none_right h0]
    exact ⟨hrel, rfl⟩
  | some jd =>
    rw [hsrc] at h0
    obtain ⟨P, hA, hRP⟩ := rel1_some_right h0
    cases hdst : Ws.alookup (hash newSp) (w.jobs hd.proj) with
    | some jd' =>
      rw [hdst] at h1
      obtain ⟨P', hA', _⟩ := rel1_some_right h1
      simp only [specRekey, hA, hA', Option.isSome_some, if_true]
      exact ⟨hrel, rfl⟩
    | none =>
      rw [hdst] at h1
      simp only [specRekey, hA, rel1_none_right h1, Option.isSome_none, Bool.false_eq_true, if_false]
      refine ⟨?_, rfl⟩
      intro q hq i
      rw [Ws.jobs_withHandles, jobs_setJobs w hp hq]
      by_cases hqp : q = hd.proj
      · subst hqp
        simp only [if_true]
        by_cases hi : i = hash hd.sp
        · subst hi
          rw [alookup_append_ne hne, Ws.alookup_aerase_self]
          simp [aupd, Rel1]
        · by_cases hi2 : i = hash newSp
          · subst hi2
            rw [alookup_append_self _ _ (by rw [Ws.alookup_aerase_ne hi, hdst])]
            simp only [aupd, Prod.mk.injEq, hi, and_false, if_false, if_true, Rel1]
            exact ⟨trivial, hRP⟩
          · rw [alookup_append_ne hi2, Ws.alookup_aerase_ne hi]
            simp only [aupd, Prod.mk.injEq, hi, hi2, and_false, if_false]
            exact hrel _ hq i
      · simp only [hqp, if_false, aupd, Prod.mk.injEq, false_and]
        exact hrel q hq i

/-- `remove` -/
theorem ws_remove {A : AbsW JVal} {w : Ws.World} (hrel : WsRel R A w) (h : String) (hd : Ws.Handle)
    (hh : Ws.alookup h w.handles = some hd) (hp : hd.proj < 2) :
    WsRel R (specRemove (hd.proj, hash hd.sp) A).1 (Ws.step hash w (.remove h)).1 ∧
      resMap (Ws.step hash w (.remove h)).2 = (specRemove (hd.proj, hash hd.sp) A).2 := by
  simp only [Ws.step, hh, specRemove]
  refine ⟨?_, rfl⟩
  intro q hq i
  rw [jobs_setJobs w hp hq]
  by_cases hqp : q = hd.proj
  · subst hqp
    simp only [if_true]
    by_cases hi : i = hash hd.sp
    · subst hi
      rw [Ws.alookup_aerase_self]
      simp [aupd, Rel1]
    · rw [Ws.alookup_aerase_ne hi]
      simp only [aupd, Prod.mk.injEq, hi, and_false, if_false]
      exact hrel _ hq i
  · simp only [hqp, if_false, aupd, Prod.mk.injEq, false_and]
    exact hrel q hq i

/-- `clear` -/
theorem ws_clear {A : AbsW JVal} {w : Ws.World} (hrel : WsRel R A w) (h : String) (hd : Ws.Handle)
    (hh : Ws.alookup h w.handles = some hd) (hp : hd.proj < 2) (hR : R emptyDoc [] []) :
    WsRel R (specClear (hd.proj, hash hd.sp) A).1 (Ws.step hash w (.clear h)).1 ∧
      resMap (Ws.step hash w (.clear h)).2 = (specClear (hd.proj, hash hd.sp) A).2 := by
  simp only [Ws.step, hh]
  have h0 := hrel _ hp (hash hd.sp)
  cases hl : Ws.alookup (hash hd.sp) (w.jobs hd.proj) with
  | none =>
    rw [hl] at h0
    simp only [specClear, rel1_none_right h0]
    exact ⟨hrel, rfl⟩
  | some jd =>
    rw [hl] at h0
    obtain ⟨P, hA, _⟩ := rel1_some_right h0
    simp only [specClear, hA, Ws.modJob, Ws.ensure, hl]
    refine ⟨?_, rfl⟩
    intro q hq i
    rw [jobs_setJobs w hp hq]
    by_cases hqp : q = hd.proj
    · subst hqp
      simp only [if_true]
      by_cases hi : i = hash hd.sp
      · subst hi
        rw [Ws.alookup_aset_self]
        simp only [aupd, if_true, Rel1]
        exact ⟨trivial, hR⟩
      · rw [Ws.alookup_aset_ne hi]
        simp only [aupd, Prod.mk.injEq, hi, and_false, if_false]
        exact hrel _ hq i
    · simp only [hqp, if_false, aupd, Prod.mk.injEq, false_and]
      exact hrel q hq i

/-- `move` to another project -/
theorem ws_move {A : AbsW JVal} {w : Ws.World} (hrel : WsRel R A w) (h : String) (hd : Ws.Handle) (p : Nat)
    (hh : Ws.alookup h w.handles = some hd) (hp : hd.proj < 2) (hp' : p < 2) (hne : hd.proj ≠ p) :
    WsRel R (specMove (hd.proj, hash hd.sp) (p, hash hd.sp) A).1 (Ws.step hash w (.move h p)).1 ∧
      resMap (Ws.step hash w (.move h p)).2 = (specMove (hd.proj, hash hd.sp) (p, hash hd.sp) A).2 := by
  simp only [Ws.step, hh]
  have h0 := hrel _ hp (hash hd.sp)
  have h1 := hrel _ hp' (hash hd.sp)
  cases hsrc : Ws.alookup (hash hd.sp) (w.jobs hd.proj) with
  | none =>
    rw [hsrc] at h0
    simp only [specMove, rel1_none_right h0]
    exact ⟨hrel, rfl⟩
  | some jd =>
    rw [hsrc] at h0
    obtain ⟨P, hA, hRP⟩ := rel1_some_right h0
    simp only [if_neg hne]
    cases hdst : Ws.alookup (hash hd.sp) (w.jobs p) with
    | some jd' =>
      rw [hdst] at h1
      obtain ⟨P', hA', _⟩ := rel1_some_right h1
      simp only [specMove, hA, hA', Option.isSome_some, if_true]
      exact ⟨hrel, rfl⟩
    | none =>
      rw [hdst] at h1
      simp only [specMove, hA, rel1_none_right h1, Option.isSome_none, Bool.false_eq_true, if_false]
      refine ⟨?_, rfl⟩
      intro q hq i
      show Rel1 R _ (Ws.alookup i (((w.setJobs hd.proj _).setJobs p _).jobs q))
      rw [jobs_setJobs _ hp' hq, jobs_setJobs _ hp hp', if_neg (Ne.symm hne), jobs_setJobs _ hp hq]
      by_cases hqp : q = p
      · subst hqp
        simp only [if_true]
        by_cases hi : i = hash hd.sp
        · subst hi
          rw [alookup_append_self _ _ hdst]
          simp only [aupd, Prod.mk.injEq, Ne.symm hne, and_true, if_false, if_true, Rel1]
          exact ⟨trivial, hRP⟩
        · rw [alookup_append_ne hi]
          simp only [aupd, Prod.mk.injEq, hi, and_false, if_false]
          exact hrel _ hq i
      · simp only [hqp, if_false]
        by_cases hq2 : q = hd.proj
        · subst hq2
          simp only [if_true]
          by_cases hi : i = hash hd.sp
          · subst hi
            rw [Ws.alookup_aerase_self]
            simp [aupd, Rel1]
          · rw [Ws.alookup_aerase_ne hi]
            simp only [aupd, Prod.mk.injEq, hi, and_false, if_false]
            exact hrel _ hq i
        · simp only [hq2, if_false, aupd, Prod.mk.injEq, hqp, false_and]
          exact hrel q hq i

/-- `clone` into project `p` -/
theorem ws_clone {A : AbsW JVal} {w : Ws.World} (hrel : WsRel R A w) (h h2 : String) (hd : Ws.Handle) (p : Nat)
    (hh : Ws.alookup h w.handles = some hd) (hp : hd.proj < 2) (hp' : p < 2) :
    WsRel R (specClone (hd.proj, hash hd.sp) (p, hash hd.sp) A).1 (Ws.step hash w (.clone h p h2)).1 ∧
      resMap (Ws.step hash w (.clone h p h2)).2 = (specClone (hd.proj, hash hd.sp) (p, hash hd.sp) A).2 := by
  simp only [Ws.step, hh]
  have h0 := hrel _ hp (hash hd.sp)
  have h1 := hrel _ hp' (hash hd.sp)
  cases hsrc : Ws.alookup (hash hd.sp) (w.jobs hd.proj) with
  | none =>
    rw [hsrc] at h0
    simp only [specClone, rel1_none_right h0]
    exact ⟨hrel, rfl⟩
  | some jd =>
    rw [hsrc] at h0
    obtain ⟨P, hA, hRP⟩ := rel1_some_right h0
    cases hdst : Ws.alookup (hash hd.sp) (w.jobs p) with
    | some jd' =>
      rw [hdst] at h1
      obtain ⟨P', hA', _⟩ := rel1_some_right h1
      simp only [specClone, hA, hA', Option.isSome_some, if_true]
      exact ⟨hrel, rfl⟩
    | none =>
      rw [hdst] at h1
      simp only [specClone, hA, rel1_none_right h1, Option.isSome_none, Bool.false_eq_true, if_false]
      refine ⟨?_, rfl⟩
      intro q hq i
      show Rel1 R _ (Ws.alookup i ((Ws.World.setJobs _ p (w.jobs p ++ _)).jobs q))
      rw [jobs_setJobs _ hp' hq]
      by_cases hqp : q = p
      · subst hqp
        simp only [if_true]
        by_cases hi : i = hash hd.sp
        · subst hi
          rw [alookup_append_self _ _ hdst]
          simp only [aupd, if_true, Rel1]
          exact ⟨trivial, hRP⟩
        · rw [alookup_append_ne hi]
          simp only [aupd, Prod.mk.injEq, hi, and_false, if_false]
          exact hrel _ hq i
      · simp only [hqp, if_false, aupd, Prod.mk.injEq, false_and]
        exact hrel q hq i

end

/- ---------------------------------------------------------------- the commuting squares -/
/-- gluing a refinement statement to a `Ws` statement about the same abstract operation -/
theorem glue {C : Codec JVal} {p : Prog JVal} {w : Life.World JVal} {sp : AbsW JVal → AbsW JVal × Life.Res}
    (href : Refines C p w sp) {ws' : Ws.World} {r : Ws.Res}
    (h : WsRel R (sp (absW w)).1 ws' ∧ resMap r = (sp (absW w)).2) :
    Clean C (run C noEv p w).w ∧ WsRel R (absW (run C noEv p w).w) ws' ∧ (run C noEv p w).res = resMap r := by
  obtain ⟨hres, hclean, habs⟩ := href
  exact ⟨hclean, habs ▸ h.1, by rw [hres, h.2]⟩

variable (C : Codec JVal)

/-- init: file-system program and `Ws.step` agree -/
theorem square_init (w : Life.World JVal) (ws : Ws.World) (hc : Clean C w) (hrel : WsRel R (absW w) ws)
    (h : String) (hd : Ws.Handle) (f : Bool) (hh : Ws.alookup h ws.handles = some hd) (hp : hd.proj < 2)
    (hR : R noPayload [] []) :
    let o := run C noEv (initProg C (hd.proj, C.hash hd.sp) hd.sp f) w
    Clean C o.w ∧ WsRel R (absW o.w) (Ws.step C.hash ws (.init h)).1 ∧
      o.res = resMap (Ws.step C.hash ws (.init h)).2 :=
  glue (init_refines C _ hd.sp f w (hc.but _) rfl) (ws_init C.hash hrel h hd hh hp hR)

/-- re-key -/
theorem square_rekey (w : Life.World JVal) (ws : Ws.World) (hc : Clean C w) (hrel : WsRel R (absW w) ws)
    (hd : Ws.Handle) (newSp : JVal) (hp : hd.proj < 2) (hne : C.hash hd.sp ≠ C.hash newSp) :
    let o := run C noEv (rekeyProg C (hd.proj, C.hash hd.sp) (hd.proj, C.hash newSp) newSp) w
    Clean C o.w ∧ WsRel R (absW o.w) (Ws.rekey C.hash ws hd newSp).1 ∧
      o.res = resMap (Ws.rekey C.hash ws hd newSp).2 :=
  glue (rekey_refines C _ _ newSp w (fun e => hne (congrArg Prod.snd e)) hc rfl) (ws_rekey C.hash hrel hd newSp hp hne)

/-- move -/
theorem square_move (w : Life.World JVal) (ws : Ws.World) (hc : Clean C w) (hrel : WsRel R (absW w) ws)
    (h : String) (hd : Ws.Handle) (p : Nat) (hh : Ws.alookup h ws.handles = some hd) (hp : hd.proj < 2)
    (hp' : p < 2) (hne : hd.proj ≠ p) :
    let o := run C noEv (moveProg (hd.proj, C.hash hd.sp) (p, C.hash hd.sp)) w
    Clean C o.w ∧ WsRel R (absW o.w) (Ws.step C.hash ws (.move h p)).1 ∧
      o.res = resMap (Ws.step C.hash ws (.move h p)).2 :=
  glue (move_refines C (hd.proj, C.hash hd.sp) (p, C.hash hd.sp) w (fun e => hne (congrArg Prod.fst e)) rfl hc) (ws_move C.hash hrel h hd p hh hp hp' hne)

/-- clone -/
theorem square_clone (w : Life.World JVal) (ws : Ws.World) (hc : Clean C w) (hrel : WsRel R (absW w) ws)
    (h h2 : String) (hd : Ws.Handle) (p : Nat) (order : List Ref) (hh : Ws.alookup h ws.handles = some hd)
    (hp : hd.proj < 2) (hp' : p < 2)
    (hs : ∀ v P, absW w (hd.proj, C.hash hd.sp) = some (v, P) → Scans P order) :
    let o := run C noEv (cloneProg (hd.proj, C.hash hd.sp) (p, C.hash hd.sp) order) w
    Clean C o.w ∧ WsRel R (absW o.w) (Ws.step C.hash ws (.clone h p h2)).1 ∧
      o.res = resMap (Ws.step C.hash ws (.clone h p h2)).2 :=
  glue (clone_refines C (hd.proj, C.hash hd.sp) (p, C.hash hd.sp) order w rfl hc hs) (ws_clone C.hash hrel h h2 hd p hh hp hp')

/-- remove -/
theorem square_remove (w : Life.World JVal) (ws : Ws.World) (hc : Clean C w) (hrel : WsRel R (absW w) ws)
    (h : String) (hd : Ws.Handle) (order : List Ref) (hh : Ws.alookup h ws.handles = some hd) (hp : hd.proj < 2)
    (hs : ∀ v P, absW w (hd.proj, C.hash hd.sp) = some (v, P) → Scans P order) :
    let o := run C noEv (removeProg (hd.proj, C.hash hd.sp) order) w
    Clean C o.w ∧ WsRel R (absW o.w) (Ws.step C.hash ws (.remove h)).1 ∧
      o.res = resMap (Ws.step C.hash ws (.remove h)).2 :=
  glue (remove_refines C _ order w hc hs) (ws_remove C.hash hrel h hd hh hp)

/-- clear -/
theorem square_clear (w : Life.World JVal) (ws : Ws.World) (hc : Clean C w) (hrel : WsRel R (absW w) ws)
    (h : String) (hd : Ws.Handle) (order : List Ref) (hh : Ws.alookup h ws.handles = some hd) (hp : hd.proj < 2)
    (hs : ∀ v P, absW w (hd.proj, C.hash hd.sp) = some (v, P) → Scans P order) (hR : R emptyDoc [] []) :
    let o := run C noEv (clearProg (hd.proj, C.hash hd.sp) order) w
    Clean C o.w ∧ WsRel R (absW o.w) (Ws.step C.hash ws (.clear h)).1 ∧
      o.res = resMap (Ws.step C.hash ws (.clear h)).2 :=
  glue (clear_refines C _ order w hc hs) (ws_clear C.hash hrel h hd hh hp hR)

/-- the empty workspaces are related -/
theorem wsRel_empty : WsRel R (absW (Sp := JVal) (fun _ => none)) Ws.World.empty := by
  intro q _ i
  simp only [Ws.World.jobs, Ws.World.empty]
  split <;> simp [absW, Ws.alookup, Rel1]

end Signac.Refine

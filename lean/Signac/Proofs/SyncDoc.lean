/-
  Document synchronisation of the sync model: `DocSync.ByKey`, `DocSync.update`, the
  backup-and-restore context.  Core only.
-/
import Signac.Proofs.SyncWalk
namespace Signac.Sync

abbrev keys (d : Doc) : List String := d.map Prod.fst

/-! ### setKV / lookupKV -/

theorem lookupKV_setKV_same (k : String) (v : JVal) (d : Doc) : lookupKV k (setKV k v d) = some v := by
  induction d with
  | nil => simp [setKV, lookupKV]
  | cons hd tl ih =>
    obtain ⟨k', v'⟩ := hd
    by_cases h : k' = k
    · simp [setKV, lookupKV, h]
    · have h' : ¬ k = k' := fun e => h e.symm
      simp [setKV, lookupKV, h, h', ih]

theorem lookupKV_setKV_other {j k : String} (h : j ≠ k) (v : JVal) (d : Doc) :
    lookupKV j (setKV k v d) = lookupKV j d := by
  induction d with
  | nil => simp [setKV, lookupKV, h]
  | cons hd tl ih =>
    obtain ⟨k', v'⟩ := hd
    by_cases hk : k' = k
    · subst hk
      simp [setKV, lookupKV, h]
    · by_cases hj : j = k'
      · subst hj
        simp [setKV, lookupKV, hk]
      · simp [setKV, lookupKV, hk, hj, ih]

theorem lookupKV_none_of_not_mem {k : String} {d : Doc} (h : k ∉ keys d) : lookupKV k d = none := by
  induction d with
  | nil => rfl
  | cons hd tl ih =>
    obtain ⟨k', v'⟩ := hd
    simp only [keys, List.map, List.mem_cons, not_or] at h
    simp [lookupKV, h.1, ih h.2]

theorem mem_keys_of_lookupKV {k : String} {d : Doc} {v : JVal} (h : lookupKV k d = some v) : k ∈ keys d := by
  induction d with
  | nil => simp [lookupKV] at h
  | cons hd tl ih =>
    obtain ⟨k', v'⟩ := hd
    by_cases hk : k = k'
    · simp [keys, hk]
    · simp only [lookupKV, hk, if_false] at h
      simp [keys, List.mem_cons, ih h]

/-! ### one step of ByKey only touches its own key -/

theorem byKeyValue_other (ks : Option (String → Bool)) (root k j : String) (h : j ≠ k) (v w : JVal)
    (st : ByKeySt) : lookupKV j (byKeyValue ks root k v w st).dst = lookupKV j st.dst := by
  cases v with
  | obj sv =>
    cases w with
    | obj dw => simp [byKeyValue, lookupKV_setKV_other h]
    | null => cases sv <;> simp [byKeyValue]
    | bool b => cases sv <;> simp [byKeyValue]
    | int i => cases sv <;> simp [byKeyValue]
    | flt a b c => cases sv <;> simp [byKeyValue]
    | str s => cases sv <;> simp [byKeyValue]
    | arr xs => cases sv <;> simp [byKeyValue]
  | null => cases ks <;> simp [byKeyValue] <;> split <;> simp [lookupKV_setKV_other h]
  | bool b => cases ks <;> simp [byKeyValue] <;> split <;> simp [lookupKV_setKV_other h]
  | int i => cases ks <;> simp [byKeyValue] <;> split <;> simp [lookupKV_setKV_other h]
  | flt a b c => cases ks <;> simp [byKeyValue] <;> split <;> simp [lookupKV_setKV_other h]
  | str s => cases ks <;> simp [byKeyValue] <;> split <;> simp [lookupKV_setKV_other h]
  | arr xs => cases ks <;> simp [byKeyValue] <;> split <;> simp [lookupKV_setKV_other h]

/-- keys the source document does not have are not touched (at this level) -/
theorem byKeyItems_other (ks : Option (String → Bool)) (root j : String) (items : Doc) :
    ∀ st : ByKeySt, j ∉ keys items →
    lookupKV j (byKeyItems ks root items st).dst = lookupKV j st.dst := by
  induction items with
  | nil => intro st _; simp [byKeyItems]
  | cons hd tl ih =>
    intro st hj
    obtain ⟨k, v⟩ := hd
    simp only [keys, List.map, List.mem_cons, not_or] at hj
    simp only [byKeyItems]
    split
    · rfl
    · split
      · rw [ih _ hj.2]; simp [lookupKV_setKV_other hj.1]
      · split
        · exact ih _ hj.2
        · rw [ih _ hj.2]; exact byKeyValue_other ks root k j hj.1 _ _ st

/-! ### DocSync.update -/

theorem updateItems_other (j : String) (items : Doc) : ∀ d : Doc, j ∉ keys items →
    lookupKV j (updateItems items d) = lookupKV j d := by
  induction items with
  | nil => intro d _; simp [updateItems]
  | cons hd tl ih =>
    intro d hj
    obtain ⟨k, v⟩ := hd
    simp only [keys, List.map, List.mem_cons, not_or] at hj
    simp only [updateItems]
    rw [ih _ hj.2, lookupKV_setKV_other hj.1]

/-- `DocSync.update` overwrites every key of the source document -/
theorem updateItems_get (j : String) (v : JVal) (items : Doc) : ∀ d : Doc, (keys items).Nodup →
    lookupKV j items = some v → lookupKV j (updateItems items d) = some v := by
  induction items with
  | nil => intro d _ h; simp [lookupKV] at h
  | cons hd tl ih =>
    intro d hnd h
    obtain ⟨k, v'⟩ := hd
    have hnd' : (keys tl).Nodup := (List.nodup_cons.mp hnd).2
    have hk : k ∉ keys tl := (List.nodup_cons.mp hnd).1
    simp only [updateItems]
    by_cases hjk : j = k
    · subst hjk
      simp only [lookupKV, if_true, Option.some.injEq] at h
      subst h
      rw [updateItems_other j tl _ hk, lookupKV_setKV_same]
    · simp only [lookupKV, hjk, if_false] at h
      exact ih _ hnd' h

/-! ### ByKey on a conflicting scalar key -/

theorem byKeyItems_typeErr_mono (ks : Option (String → Bool)) (root : String) (items : Doc) :
    ∀ st : ByKeySt, st.typeErr = true → byKeyItems ks root items st = st := by
  cases items with
  | nil => intro st _; simp [byKeyItems]
  | cons hd tl => intro st h; obtain ⟨k, v⟩ := hd; simp [byKeyItems, h]

/-- `v` is not a mapping -/
def IsLeaf : JVal → Prop
  | .obj _ => False
  | _ => True

theorem byKeyValue_leaf (ks : Option (String → Bool)) (root k : String) (v w : JVal) (hl : IsLeaf v)
    (st : ByKeySt) :
    byKeyValue ks root k v w st =
      match ks with
      | none => { st with skipped := st.skipped ++ [root ++ k] }
      | some f =>
        if f (root ++ k) then { st with dst := setKV k v st.dst, wrote := true }
        else { st with skipped := st.skipped ++ [root ++ k] } := by
  cases v with
  | obj sv => simp [IsLeaf] at hl
  | _ => cases ks <;> simp [byKeyValue]

mutual
  /-- conflicts once recorded stay recorded -/
  theorem byKeyItems_skipped_grow (ks : Option (String → Bool)) (x : String) :
      (root : String) → (items : List (String × JVal)) → (st : ByKeySt) → x ∈ st.skipped →
      x ∈ (byKeyItems ks root items st).skipped
    | _, [], st, hx => by simpa [byKeyItems] using hx
    | root, (k, v) :: tl, st, hx => by
      simp only [byKeyItems]
      split
      · exact hx
      · split
        · exact byKeyItems_skipped_grow ks x root tl _ hx
        · split
          · exact byKeyItems_skipped_grow ks x root tl _ hx
          · exact byKeyItems_skipped_grow ks x root tl _ (byKeyValue_skipped_grow ks x root k v _ st hx)
  theorem byKeyValue_skipped_grow (ks : Option (String → Bool)) (x : String) :
      (root k : String) → (v w : JVal) → (st : ByKeySt) → x ∈ st.skipped →
      x ∈ (byKeyValue ks root k v w st).skipped
    | root, k, .obj sv, w, st, hx => by
      cases w with
      | obj dw =>
        simp only [byKeyValue]
        exact byKeyItems_skipped_grow ks x (root ++ k ++ ".") sv _ hx
      | null => cases sv <;> simpa [byKeyValue] using hx
      | bool b => cases sv <;> simpa [byKeyValue] using hx
      | int i => cases sv <;> simpa [byKeyValue] using hx
      | flt a b c => cases sv <;> simpa [byKeyValue] using hx
      | str s => cases sv <;> simpa [byKeyValue] using hx
      | arr xs => cases sv <;> simpa [byKeyValue] using hx
    | root, k, .null, w, st, hx => by
      rw [byKeyValue_leaf ks root k _ w (by simp [IsLeaf]) st]
      cases ks <;> simp <;> (try split) <;> simp [hx]
    | root, k, .bool _, w, st, hx => by
      rw [byKeyValue_leaf ks root k _ w (by simp [IsLeaf]) st]
      cases ks <;> simp <;> (try split) <;> simp [hx]
    | root, k, .int _, w, st, hx => by
      rw [byKeyValue_leaf ks root k _ w (by simp [IsLeaf]) st]
      cases ks <;> simp <;> (try split) <;> simp [hx]
    | root, k, .flt _ _ _, w, st, hx => by
      rw [byKeyValue_leaf ks root k _ w (by simp [IsLeaf]) st]
      cases ks <;> simp <;> (try split) <;> simp [hx]
    | root, k, .str _, w, st, hx => by
      rw [byKeyValue_leaf ks root k _ w (by simp [IsLeaf]) st]
      cases ks <;> simp <;> (try split) <;> simp [hx]
    | root, k, .arr _, w, st, hx => by
      rw [byKeyValue_leaf ks root k _ w (by simp [IsLeaf]) st]
      cases ks <;> simp <;> (try split) <;> simp [hx]
end

/-- the verdict of the key strategy; no strategy = not selected -/
def keySelected (ks : Option (String → Bool)) (key : String) : Bool :=
  match ks with
  | none => false
  | some f => f key

/-- a key on both sides with different, non-mapping source value: overwritten iff selected,
    recorded as skipped otherwise (`bykey_selective`, one level) -/
theorem byKeyItems_conflict (ks : Option (String → Bool)) (root j : String) (v w : JVal) (items : Doc) :
    ∀ st : ByKeySt, (keys items).Nodup → lookupKV j items = some v → lookupKV j st.dst = some w →
    pyEq w v = false → IsLeaf v → (byKeyItems ks root items st).typeErr = false →
    lookupKV j (byKeyItems ks root items st).dst = some (if keySelected ks (root ++ j) then v else w) ∧
    (keySelected ks (root ++ j) = false → (root ++ j) ∈ (byKeyItems ks root items st).skipped) := by
  induction items with
  | nil => intro st _ h; simp [lookupKV] at h
  | cons hd tl ih =>
    intro st hnd hs hd' hne hl hte
    obtain ⟨k, v'⟩ := hd
    have hnd' : (keys tl).Nodup := (List.nodup_cons.mp hnd).2
    have hk : k ∉ keys tl := (List.nodup_cons.mp hnd).1
    have hst : st.typeErr = false := by
      cases h : st.typeErr with
      | false => rfl
      | true => rw [byKeyItems_typeErr_mono ks root _ st h] at hte; rw [h] at hte; cases hte
    by_cases hjk : j = k
    · subst hjk
      simp only [lookupKV, if_true, Option.some.injEq] at hs
      subst hs
      simp only [byKeyItems, hst, Bool.false_eq_true, if_false, hd', hne] at hte ⊢
      rw [byKeyItems_other ks root j tl _ hk]
      rw [byKeyValue_leaf ks root j v' w hl st] at hte ⊢
      refine ⟨?_, ?_⟩
      · cases ks with
        | none => simp [keySelected, hd']
        | some f =>
          simp only [keySelected]
          by_cases hf : f (root ++ j) = true
          · simp [hf, lookupKV_setKV_same]
          · simp [hf, hd']
      · intro hsel
        apply byKeyItems_skipped_grow
        cases ks with
        | none => simp
        | some f =>
          simp only [keySelected] at hsel
          simp [hsel]
    · simp only [lookupKV, hjk, if_false] at hs
      have hjk' : j ≠ k := hjk
      simp only [byKeyItems, hst, Bool.false_eq_true, if_false] at hte ⊢
      cases hk0 : lookupKV k st.dst with
      | none =>
        simp only [hk0] at hte ⊢
        exact ih _ hnd' hs (by simp [lookupKV_setKV_other hjk', hd']) hne hl hte
      | some w' =>
        simp only [hk0] at hte ⊢
        by_cases heq : pyEq w' v' = true
        · simp only [heq, if_true] at hte ⊢
          exact ih _ hnd' hs hd' hne hl hte
        · simp only [heq, Bool.false_eq_true, if_false] at hte ⊢
          exact ih _ hnd' hs (by rw [byKeyValue_other ks root k j hjk']; exact hd') hne hl hte

/-! ### what ByKey does at one key, in general -/

/-- the body of the `for key, value in src.items()` loop for one item -/
def byKeyStep (ks : Option (String → Bool)) (root k : String) (v : JVal) (st : ByKeySt) : ByKeySt :=
  match lookupKV k st.dst with
  | none => { st with dst := setKV k v st.dst, wrote := true }
  | some w => if pyEq w v then st else byKeyValue ks root k v w st

theorem byKeyItems_cons (ks : Option (String → Bool)) (root k : String) (v : JVal) (tl : Doc) (st : ByKeySt) :
    byKeyItems ks root ((k, v) :: tl) st =
      if st.typeErr then st else byKeyItems ks root tl (byKeyStep ks root k v st) := by
  by_cases ht : st.typeErr = true
  · simp [byKeyItems, ht]
  · cases hl : lookupKV k st.dst with
    | none => simp [byKeyItems, byKeyStep, ht, hl]
    | some w => by_cases he : pyEq w v = true <;> simp [byKeyItems, byKeyStep, ht, hl, he]

theorem byKeyStep_other (ks : Option (String → Bool)) (root k j : String) (h : j ≠ k) (v : JVal)
    (st : ByKeySt) : lookupKV j (byKeyStep ks root k v st).dst = lookupKV j st.dst := by
  unfold byKeyStep
  split
  · simp [lookupKV_setKV_other h]
  · split
    · rfl
    · exact byKeyValue_other ks root k j h _ _ st

theorem byKeyStep_skipped_grow (ks : Option (String → Bool)) (root k x : String) (v : JVal)
    (st : ByKeySt) (hx : x ∈ st.skipped) : x ∈ (byKeyStep ks root k v st).skipped := by
  unfold byKeyStep
  split
  · exact hx
  · split
    · exact hx
    · exact byKeyValue_skipped_grow ks x root k v _ st hx

theorem byKeyItems_typeErr_false (ks : Option (String → Bool)) (root : String) (items : Doc) (st : ByKeySt)
    (h : (byKeyItems ks root items st).typeErr = false) : st.typeErr = false := by
  cases hst : st.typeErr with
  | false => rfl
  | true => rw [byKeyItems_typeErr_mono ks root items st hst, hst] at h; cases h

/-- the item `(j, v)` of the source is processed in some state whose destination still has the
    original value under `j`; what that one step leaves under `j` is final, and the conflicts it
    records stay recorded -/
theorem byKeyItems_at (ks : Option (String → Bool)) (root j : String) (v : JVal) (items : Doc) :
    ∀ st : ByKeySt, (keys items).Nodup → lookupKV j items = some v →
    (byKeyItems ks root items st).typeErr = false →
    ∃ stj : ByKeySt, lookupKV j stj.dst = lookupKV j st.dst ∧ stj.typeErr = false ∧
      (byKeyStep ks root j v stj).typeErr = false ∧
      lookupKV j (byKeyItems ks root items st).dst = lookupKV j (byKeyStep ks root j v stj).dst ∧
      (∀ x, x ∈ (byKeyStep ks root j v stj).skipped → x ∈ (byKeyItems ks root items st).skipped) := by
  induction items with
  | nil => intro st _ h; simp [lookupKV] at h
  | cons hd tl ih =>
    intro st hnd hs hte
    obtain ⟨k, v'⟩ := hd
    have hnd' : (keys tl).Nodup := (List.nodup_cons.mp hnd).2
    have hk : k ∉ keys tl := (List.nodup_cons.mp hnd).1
    have hst := byKeyItems_typeErr_false ks root _ st hte
    rw [byKeyItems_cons, hst] at hte ⊢
    simp only [Bool.false_eq_true, if_false] at hte ⊢
    by_cases hjk : j = k
    · subst hjk
      simp only [lookupKV, if_true, Option.some.injEq] at hs
      subst hs
      refine ⟨st, rfl, hst, byKeyItems_typeErr_false ks root tl _ hte, ?_, ?_⟩
      · exact byKeyItems_other ks root j tl _ hk
      · intro x hx; exact byKeyItems_skipped_grow ks x root tl _ hx
    · simp only [lookupKV, hjk, if_false] at hs
      obtain ⟨stj, h1, h2, h3, h4, h5⟩ := ih _ hnd' hs hte
      exact ⟨stj, by rw [h1, byKeyStep_other ks root k j hjk], h2, h3, h4, h5⟩

/-! ### path level: conflicts at any depth -/

def docGet : Doc → List String → Option JVal
  | _, [] => none
  | d, [k] => lookupKV k d
  | d, k :: k' :: p =>
    match lookupKV k d with
    | some (.obj sub) => docGet sub (k' :: p)
    | _ => none

/-- `p` leads, through mappings present and different on both sides, to a key whose source value
    `v` is not a mapping and whose destination value `w` is not `==` to it; `key` is the dotted
    key handed to the key strategy and reported in `DocumentSyncConflict` -/
inductive DocConf : String → Doc → Doc → List String → JVal → JVal → String → Prop
  | leaf {root s d k v w} : (keys s).Nodup → lookupKV k s = some v → lookupKV k d = some w →
      pyEq w v = false → IsLeaf v → DocConf root s d [k] v w (root ++ k)
  | sub {root s d k sv dw k' p v w key} : (keys s).Nodup → lookupKV k s = some (.obj sv) →
      lookupKV k d = some (.obj dw) → pyEq (.obj dw) (.obj sv) = false →
      DocConf (root ++ k ++ ".") sv dw (k' :: p) v w key → DocConf root s d (k :: k' :: p) v w key

/-- `bykey_selective`: a conflicting key at any depth is overwritten iff the key strategy
    selects its dotted key; otherwise it keeps its value and the dotted key is recorded -/
theorem byKeyItems_selective (ks : Option (String → Bool)) {root : String} {s d : Doc} {p : List String}
    {v w : JVal} {key : String} (hc : DocConf root s d p v w key) :
    ∀ st : ByKeySt, st.dst = d → (byKeyItems ks root s st).typeErr = false →
    docGet (byKeyItems ks root s st).dst p = some (if keySelected ks key then v else w) ∧
    (keySelected ks key = false → key ∈ (byKeyItems ks root s st).skipped) := by
  induction hc with
  | leaf hnd hs hd hne hl =>
    intro st hst hte
    subst hst
    simp only [docGet]
    exact byKeyItems_conflict ks _ _ _ _ _ st hnd hs hd hne hl hte
  | @sub root s d k sv dw k' p v w key hnd hs hd hne _ ih =>
    intro st hst hte
    subst hst
    obtain ⟨stj, h1, h2, h3, h4, h5⟩ := byKeyItems_at ks root k (.obj sv) s st hnd hs hte
    have hstep : byKeyStep ks root k (.obj sv) stj =
        { (byKeyItems ks (root ++ k ++ ".") sv { stj with dst := dw }) with
          dst := setKV k (.obj (byKeyItems ks (root ++ k ++ ".") sv { stj with dst := dw }).dst) stj.dst } := by
      simp only [byKeyStep, h1, hd, hne, Bool.false_eq_true, if_false, byKeyValue]
    rw [hstep] at h3 h4 h5
    simp only at h3 h5
    have := ih { stj with dst := dw } rfl h3
    simp only [docGet, h4, lookupKV_setKV_same]
    exact ⟨this.1, fun hsel => h5 _ (this.2 hsel)⟩

/-! ### the strategies as a whole -/

/-- `DocSync.ByKey()` without key strategy raises exactly when a conflict was recorded, and the
    exception carries the recorded keys -/
theorem runDocSync_default_err (s d : Doc) :
    (runDocSync (.byKey none) s d).err =
      if (byKeyItems none "" s ⟨d, [], false, false⟩).typeErr then some .typeError
      else match (byKeyItems none "" s ⟨d, [], false, false⟩).skipped with
        | [] => none
        | k :: rest => some (.docConflict (k :: rest)) := by
  simp only [runDocSync]
  split
  · rfl
  · cases (byKeyItems none "" s ⟨d, [], false, false⟩).skipped <;> rfl

/-- with a key strategy the merge never raises a conflict -/
theorem runDocSync_strategy_err (f : String → Bool) (s d : Doc) :
    (runDocSync (.byKey (some f)) s d).err =
      if (byKeyItems (some f) "" s ⟨d, [], false, false⟩).typeErr then some .typeError else none := by
  simp only [runDocSync]
  split <;> rfl

/-- `update_overwrites_all` -/
theorem runDocSync_update (s d : Doc) (hnd : (keys s).Nodup) :
    (runDocSync .update s d).err = none ∧
    (∀ k v, lookupKV k s = some v → lookupKV k (runDocSync .update s d).doc = some v) ∧
    (∀ k, k ∉ keys s → lookupKV k (runDocSync .update s d).doc = lookupKV k d) := by
  simp only [runDocSync]
  exact ⟨trivial, fun k v h => updateItems_get k v s d hnd h, fun k h => updateItems_other k s d h⟩

/-! ### the backup-and-restore context -/

theorem str_append_tilde_ne (fn : String) : fn ≠ fn ++ "~" := by
  intro h
  have := congrArg String.length h
  simp [String.length_append] at this

theorem docOf_setE_other {fn n : Name} (h : fn ≠ n) (c : Node) (es : Entries) :
    docOf fn (setE n c es) = docOf fn es := by
  simp [docOf, getE_setE_other h]

theorem docOf_delE_other {fn n : Name} (h : fn ≠ n) (es : Entries) :
    docOf fn (delE n es) = docOf fn es := by
  simp [docOf, getE_delE_other h]

theorem docOf_docFile (fn : Name) (now : Nat) (d : Doc) (es : Entries) :
    docOf fn (setE fn (docFile now d) es) = d := by
  simp [docOf, getE_setE_same, docFile]

/-- `nosync_none`: NO_SYNC (and COPY) never touch a document through the document merge -/
theorem syncDoc_noSync (o : Opts) (fn : Name) (src : Entries) (a : Acc) (h : o.docSync = .noSync ∨ o.docSync = .copy) :
    syncDoc o fn src a = ⟨a.d, a.log, none⟩ := by
  unfold syncDoc
  rcases h with h | h <;> simp [h]

/-- restoring the backup gives back the directory exactly -/
theorem withBackup_rollback (o : Opts) (fn : Name) (orig : Node) (r : DocRes) (a : Acc) (e : Err)
    (he : r.err = some e) (hg : getE fn a.d = some orig) (hb : getE (fn ++ "~") a.d = none) :
    (withBackup o fn orig r a).d = a.d ∧ (withBackup o fn orig r a).err = some e := by
  have hne' := str_append_tilde_ne fn
  have key : ∀ es : Entries, getE fn es = some orig → getE (fn ++ "~") es = none →
      delE (fn ++ "~") (setE fn orig (setE (fn ++ "~") orig es)) = es := by
    intro es h1 h2
    have : setE fn orig (setE (fn ++ "~") orig es) = setE (fn ++ "~") orig es :=
      setE_getE (by rw [getE_setE_other hne']; exact h1)
    rw [this, delE_setE_absent _ h2]
  have key2 : ∀ (es : Entries) (c : Node), getE fn es = some orig → getE (fn ++ "~") es = none →
      delE (fn ++ "~") (setE fn orig (setE fn c (setE (fn ++ "~") orig es))) = es := by
    intro es c h1 h2
    rw [setE_setE]
    exact key es h1 h2
  unfold withBackup
  simp only [he]
  refine ⟨?_, trivial⟩
  cases hdry : o.dry with
  | true => split <;> simp [pPut, pDel]
  | false =>
    split
    · simp only [pPut, pDel, Bool.false_eq_true, if_false]
      exact key2 a.d _ hg hb
    · simp only [pPut, pDel, Bool.false_eq_true, if_false]
      exact key a.d hg hb

/-- after a successful merge under the file backup: the new document, and the backup is gone -/
theorem withBackup_ok (o : Opts) (fn : Name) (orig : Node) (r : DocRes) (a : Acc)
    (he : r.err = none) (hdry : o.dry = false) :
    (withBackup o fn orig r a).err = none ∧
    getE (fn ++ "~") (withBackup o fn orig r a).d = none ∧
    docOf fn (withBackup o fn orig r a).d = (if r.wrote then r.doc else docOf fn a.d) ∧
    (∀ n, n ≠ fn → n ≠ fn ++ "~" → getE n (withBackup o fn orig r a).d = getE n a.d) := by
  have hne' := str_append_tilde_ne fn
  unfold withBackup
  simp only [he, hdry]
  refine ⟨trivial, ?_, ?_, ?_⟩
  · split <;> simp [pPut, pDel, getE_delE_same]
  · split
    · simp only [pPut, pDel, Bool.false_eq_true, if_false]
      rw [docOf_delE_other hne', docOf_docFile]
    · simp only [pPut, pDel, Bool.false_eq_true, if_false]
      rw [docOf_delE_other hne', docOf_setE_other hne']
  · intro n h1 h2
    split
    · simp only [pPut, pDel, Bool.false_eq_true, if_false]
      rw [getE_delE_other h2, getE_setE_other h1, getE_setE_other h2]
    · simp only [pPut, pDel, Bool.false_eq_true, if_false]
      rw [getE_delE_other h2, getE_setE_other h2]

/-- `doc_rollback`: whenever the document merge of a non-empty destination document raises
    (DocumentSyncConflict, or anything else inside the backup context), the destination directory
    — the document file in particular, node for node — is what it was before -/
theorem mergeDocs_rollback (o : Opts) (ds : DocSync) (fn : Name) (src : Entries) (a : Acc) (e : Err)
    (h : (mergeDocs o ds fn src a).err = some e) (hne : (docOf fn a.d).isEmpty = false)
    (hnodir : ∀ x, getE (fn ++ "~") a.d ≠ some (.dir x)) :
    (mergeDocs o ds fn src a).d = a.d := by
  unfold mergeDocs at h ⊢
  dsimp only at h ⊢
  by_cases hpe : pyEq (.obj (docOf fn src)) (.obj (docOf fn a.d)) = true
  · simp [hpe]
  · simp only [hpe, Bool.false_eq_true, if_false] at h ⊢
    have hfile : isFile fn a.d = true := by
      cases hf : isFile fn a.d with
      | true => rfl
      | false =>
        exfalso
        simp only [isFile] at hf
        simp only [docOf] at hne
        cases hg : getE fn a.d with
        | none => simp [hg] at hne
        | some c =>
          cases c with
          | file m => simp [hg] at hf
          | dir x => simp [hg] at hne
    simp only [hne, hfile, Bool.not_true, Bool.or_self, Bool.false_eq_true, if_false] at h ⊢
    by_cases hbk : isFile (fn ++ "~") a.d = true
    · simp [hbk]
    · simp only [hbk, Bool.false_eq_true, if_false] at h ⊢
      cases hg : getE fn a.d with
      | none => simp
      | some orig =>
        simp only [hg] at h ⊢
        cases hr : (runDocSync ds (docOf fn src) (docOf fn a.d)).err with
        | none =>
          exfalso
          simp only [withBackup, hr] at h
          cases h
        | some e' =>
          -- the backup name must be free: a directory of that name is not modelled
          cases hb : getE (fn ++ "~") a.d with
          | none => exact (withBackup_rollback o fn orig _ a e' hr hg hb).1
          | some c =>
            cases c with
            | file m => simp [isFile, hb] at hbk
            | dir x => exact absurd hb (hnodir x)

end Signac.Sync

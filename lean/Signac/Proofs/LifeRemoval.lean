/- `Job.remove` and `Job.clear` satisfy `RemovalSpec` (and `remove` only shrinks the payload)
   under every event schedule. -/
import Signac.Proofs.LifeRekey
namespace Signac.Life
variable {Sp : Type}

theorem docName_ne_spName : docName ≠ spName := by decide

/-- steps that stay in directory `k` and never write a state-point file -/
inductive RmLike (k : Key) : Step Sp → Prop
  | rmItem (r : Ref) : RmLike k (.rmItem k r)
  | rmJobDir : RmLike k (.rmJobDir k)
  | tmpOpen (n : String) : RmLike k (.tmpOpen k n)
  | tmpWrite (n : String) (c : Content Sp) : RmLike k (.tmpWrite k n c)
  | tmpCommitDoc : RmLike k (.tmpCommit k docName)

def SpKept (k : Key) (D : JobDir Sp) (w : World Sp) : Prop :=
  w k = none ∨ ∃ d, w k = some d ∧ (d.sp = D.sp ∨ d.sp = none)

theorem spKept_apply (C : Codec Sp) (k : Key) (D : JobDir Sp) (s : Step Sp) (w w' : World Sp)
    (hs : RmLike k s) (hR : SpKept k D w) (h : apply C w s = .ok w') : SpKept k D w' := by
  rcases hR with hR | ⟨d, hd, hsp⟩
  · cases hs <;> simp [apply, hR] at h
  · cases hs with
    | rmItem r =>
      simp only [apply, hd] at h
      split at h <;> cases h
      refine Or.inr ⟨_, upd_same .., ?_⟩
      cases r <;> first | exact hsp | exact Or.inr rfl
    | rmJobDir =>
      simp only [apply, hd] at h
      split at h <;> cases h
      exact Or.inl (upd_same ..)
    | tmpOpen n =>
      simp only [apply, hd] at h; cases h
      exact Or.inr ⟨_, upd_same .., hsp⟩
    | tmpWrite n c =>
      simp only [apply, hd] at h; cases h
      exact Or.inr ⟨_, upd_same .., hsp⟩
    | tmpCommitDoc =>
      simp only [apply, hd, docName_ne_spName, if_false] at h
      split at h <;> cases h
      exact Or.inr ⟨_, upd_same .., hsp⟩

theorem spKept_torn (C : Codec Sp) (k : Key) (D : JobDir Sp) (s : Step Sp) (w : World Sp) (t : Nat)
    (hs : RmLike k s) (hR : SpKept k D w) : SpKept k D (tornApply C w s t) := by
  cases hs with
  | tmpWrite n c =>
    rcases hR with hR | ⟨d, hd, hsp⟩
    · simp only [tornApply, hR]; exact Or.inl hR
    · simp only [tornApply, hd]; exact Or.inr ⟨_, upd_same .., hsp⟩
  | _ => exact hR

theorem rmOrder_rmLike (k : Key) : ∀ (rs : List Ref) (stack : List String) (s : Step Sp),
    s ∈ rmOrder k rs stack → ∃ r, s = .rmItem k r
  | [], stack, s, h => by
    simp only [rmOrder, List.mem_map] at h
    obtain ⟨p, _, rfl⟩ := h; exact ⟨_, rfl⟩
  | r :: rs, stack, s, h => by
    simp only [rmOrder, List.mem_append, List.mem_map] at h
    rcases h with ⟨p, _, rfl⟩ | h
    · exact ⟨_, rfl⟩
    · split at h
      · exact rmOrder_rmLike k rs _ s h
      · rcases List.mem_cons.mp h with rfl | h
        · exact ⟨_, rfl⟩
        · exact rmOrder_rmLike k rs _ s h

theorem removeSteps_rmLike (k : Key) (order : List Ref) : ∀ s ∈ removeSteps (Sp := Sp) k order, RmLike k s := by
  intro s hs
  simp only [removeSteps, List.mem_append, List.mem_singleton] at hs
  rcases hs with hs | rfl
  · obtain ⟨r, rfl⟩ := rmOrder_rmLike k _ _ s hs; exact .rmItem r
  · exact .rmJobDir

theorem clearSteps_rmLike (k : Key) (order : List Ref) : ∀ s ∈ clearSteps (Sp := Sp) k order, RmLike k s := by
  intro s hs
  simp only [clearSteps, List.mem_append, List.mem_cons, List.not_mem_nil, or_false] at hs
  rcases hs with hs | rfl | rfl | rfl
  · obtain ⟨r, rfl⟩ := rmOrder_rmLike k _ _ s hs; exact .rmItem r
  · exact .tmpOpen _
  · exact .tmpWrite _ _
  · exact .tmpCommitDoc

/-- a run of `seqProg rmErr (done ok)` that returns normally consumed no fault (ENOENT not injected) -/
theorem seq_fault_propagates (C : Codec Sp) (ev : Nat → Option Ev) (hne : NoENOENT ev) :
    ∀ (ss : List (Step Sp)) (a : Acc Sp) (w : World Sp),
      (exec C ev (seqProg rmErr (.done .ok) ss) a w).res = .ok →
      (exec C ev (seqProg rmErr (.done .ok) ss) a w).acc.faulted = a.faulted
  | [], a, w => by simp [seqProg, exec]
  | s :: ss, a, w => by
    simp only [seqProg]
    refine exec_step C ev (fun o => o.res = .ok → o.acc.faulted = a.faulted) _ _ a w ?_ ?_ ?_ ?_ ?_
    · intro h; cases h
    · intro t h; cases h
    · intro e he
      have : e ≠ .ENOENT := fun h => hne _ (h ▸ he)
      simp [rmErr, this, exec, osExc]
    · intro w' _
      simpa [Acc.ok] using seq_fault_propagates C ev hne ss (a.ok s) w'
    · intro e _
      simp only [rmErr]
      split <;> simp [exec, osExc, Acc.ok]

theorem removal_core (C : Codec Sp) (ev : Nat → Option Ev) (k : Key) (D : JobDir Sp) (w : World Sp)
    (hD : w k = some D) (ss : List (Step Sp)) (hss : ∀ s ∈ ss, RmLike k s) :
    RemovalSpec ev k D (run C ev (.look fun w => match w k with
      | none => .done .ok
      | some _ => seqProg rmErr (.done .ok) ss) w) := by
  simp only [run]
  rw [exec]
  simp only [hD]
  constructor
  · refine exec_inv C ev (RmLike k) (SpKept k D) (fun s w w' => spKept_apply C k D s w w')
      (fun s w t => spKept_torn C k D s w t) ?_ _ _ (Or.inr ⟨D, hD, Or.inl rfl⟩)
    exact seqProg_all (fun e => rmErr_all _ e) (.done _) ss hss
  · intro hne hf
    intro hok
    have := seq_fault_propagates C ev hne ss {} w hok
    simp only [Outcome.faulted] at hf
    rw [this] at hf
    cases hf

theorem remove_spec (C : Codec Sp) (ev : Nat → Option Ev) (k : Key) (order : List Ref) (D : JobDir Sp)
    (w : World Sp) (hD : w k = some D) : RemovalSpec ev k D (run C ev (removeProg k order) w) :=
  removal_core C ev k D w hD _ (removeSteps_rmLike k order)

theorem clear_spec (C : Codec Sp) (ev : Nat → Option Ev) (k : Key) (order : List Ref) (D : JobDir Sp)
    (w : World Sp) (hD : w k = some D) : RemovalSpec ev k D (run C ev (clearProg k order) w) :=
  removal_core C ev k D w hD _ (clearSteps_rmLike k order)

/- ---- `remove` only shrinks the payload ---- -/
theorem eraseEntry_sublist (p : String) : ∀ l : List (String × Option String), (eraseEntry p l).Sublist l
  | [] => List.Sublist.slnil
  | (q, c) :: rest => by
    simp only [eraseEntry]
    split
    · exact List.Sublist.cons _ (List.Sublist.refl _)
    · exact List.Sublist.cons_cons _ (eraseEntry_sublist p rest)

def Shrunk (k : Key) (D : JobDir Sp) (w : World Sp) : Prop :=
  w k = none ∨ ∃ d, w k = some d ∧ d.entries.Sublist D.entries

inductive RmOnly (k : Key) : Step Sp → Prop
  | rmItem (r : Ref) : RmOnly k (.rmItem k r)
  | rmJobDir : RmOnly k (.rmJobDir k)

theorem remove_shrinks (C : Codec Sp) (ev : Nat → Option Ev) (k : Key) (order : List Ref) (D : JobDir Sp)
    (w : World Sp) (hD : w k = some D) : RemoveShrinks k D (run C ev (removeProg k order) w) := by
  simp only [run, removeProg]
  rw [exec]
  simp only [hD]
  refine exec_inv C ev (RmOnly k) (Shrunk k D) ?_ ?_ ?_ _ _ (Or.inr ⟨D, hD, List.Sublist.refl _⟩)
  · intro s w w' hs hR h
    rcases hR with hR | ⟨d, hd, hsub⟩
    · cases hs <;> simp [apply, hR] at h
    · cases hs with
      | rmItem r =>
        simp only [apply, hd] at h
        split at h <;> cases h
        refine Or.inr ⟨_, upd_same .., ?_⟩
        cases r <;> simp only [dropItem] <;>
          first | exact hsub | exact (eraseEntry_sublist _ _).trans hsub
      | rmJobDir =>
        simp only [apply, hd] at h
        split at h <;> cases h
        exact Or.inl (upd_same ..)
  · intro s w t hs hR
    cases hs <;> exact hR
  · refine seqProg_all (fun e => rmErr_all _ e) (.done _) _ ?_
    intro s hs
    simp only [removeSteps, List.mem_append, List.mem_singleton] at hs
    rcases hs with hs | rfl
    · obtain ⟨r, rfl⟩ := rmOrder_rmLike k _ _ s hs; exact .rmItem r
    · exact .rmJobDir

end Signac.Life

/- Helper lemmas for C19: the upward search returns the nearest enclosing project. -/
import Signac.Discovery
namespace Signac.Disc
open Signac

/-- `q` is the nearest project at or above `p`. -/
def Nearest (t : Tree) (p q : Path) : Prop :=
  q <:+ p ∧ isProject t q = true ∧ ∀ r, r <:+ p → isProject t r = true → r <:+ q

theorem suffix_antisymm {a b : Path} (h1 : a <:+ b) (h2 : b <:+ a) : a = b :=
  h1.eq_of_length (Nat.le_antisymm h1.length_le h2.length_le)

theorem nearest_unique {t : Tree} {p q q' : Path} (h : Nearest t p q) (h' : Nearest t p q') : q = q' :=
  suffix_antisymm (h'.2.2 q h.1 h.2.1) (h.2.2 q' h'.1 h'.2.1)

theorem findProject_nearest (t : Tree) (p q : Path) :
    findProject t p = some q ↔ Nearest t p q := by
  induction p with
  | nil =>
    simp only [findProject, Nearest]
    constructor
    · intro h
      split at h
      · cases h
        exact ⟨List.suffix_refl _, by assumption, fun r hr _ => hr⟩
      · cases h
    · intro ⟨h1, h2, _⟩
      have : q = [] := List.suffix_nil.mp h1
      subst this
      simp [h2]
  | cons c rest ih =>
    simp only [findProject]
    split
    · rename_i hp
      constructor
      · intro h
        cases h
        exact ⟨List.suffix_refl _, hp, fun r hr _ => hr⟩
      · intro hn
        have hself : Nearest t (c :: rest) (c :: rest) :=
          ⟨List.suffix_refl _, hp, fun r hr _ => hr⟩
        rw [nearest_unique hn hself]
    · rename_i hp
      rw [ih]
      constructor
      · intro ⟨h1, h2, h3⟩
        refine ⟨List.suffix_cons_iff.mpr (Or.inr h1), h2, ?_⟩
        intro r hr hpr
        rcases List.suffix_cons_iff.mp hr with rfl | hr'
        · exact absurd hpr hp
        · exact h3 r hr' hpr
      · intro ⟨h1, h2, h3⟩
        rcases List.suffix_cons_iff.mp h1 with rfl | h1'
        · exact absurd h2 hp
        · exact ⟨h1', h2, fun r hr hpr => h3 r (List.suffix_cons_iff.mpr (Or.inr hr)) hpr⟩

theorem findProject_none (t : Tree) (p : Path) :
    findProject t p = none ↔ ∀ r, r <:+ p → isProject t r = false := by
  induction p with
  | nil =>
    simp only [findProject]
    constructor
    · intro h r hr
      have : r = [] := List.suffix_nil.mp hr
      subst this
      split at h
      · cases h
      · simpa using ‹¬ isProject t [] = true›
    · intro h
      simp [h [] (List.suffix_refl _)]
  | cons c rest ih =>
    simp only [findProject]
    split
    · rename_i hp
      constructor
      · intro h; cases h
      · intro h
        have := h (c :: rest) (List.suffix_refl _)
        simp [hp] at this
    · rename_i hp
      rw [ih]
      constructor
      · intro h r hr
        rcases List.suffix_cons_iff.mp hr with rfl | hr'
        · simpa using hp
        · exact h r hr'
      · intro h r hr
        exact h r (List.suffix_cons_iff.mpr (Or.inr hr))

/-- a project directory is found at once -/
theorem findProject_self {t : Tree} {p : Path} (h : isProject t p = true) : findProject t p = some p := by
  cases p <;> simp [findProject, h]

theorem findProject_skip {t : Tree} {c : String} {rest : Path} (h : isProject t (c :: rest) = false) :
    findProject t (c :: rest) = findProject t rest := by
  simp [findProject, h]

theorem findOlder_none (t : Tree) (p : Path) :
    findOlder t p = none ↔ ∀ r, r <:+ p → olderErr t r = none := by
  induction p with
  | nil =>
    simp only [findOlder]
    constructor
    · intro h r hr
      have : r = [] := List.suffix_nil.mp hr
      subst this; exact h
    · intro h; exact h [] (List.suffix_refl _)
  | cons c rest ih =>
    simp only [findOlder]
    split
    · rename_i e he
      constructor
      · intro h; cases h
      · intro h
        have := h (c :: rest) (List.suffix_refl _)
        rw [he] at this; cases this
    · rename_i he
      rw [ih]
      constructor
      · intro h r hr
        rcases List.suffix_cons_iff.mp hr with rfl | hr'
        · exact he
        · exact h r hr'
      · intro h r hr
        exact h r (List.suffix_cons_iff.mpr (Or.inr hr))

/-- the version gate lets the project at `q` through -/
def GateOk (t : Tree) (q : Path) : Prop := ∃ v, t.cfg q = some v ∧ Mig.gate (v.getD 1) = .ok

theorem openProject_ok_iff (t : Tree) (p q : Path) :
    (openProject t p).1 = .ok q ↔ q = p ∧ GateOk t p := by
  unfold openProject GateOk
  cases h : t.cfg p with
  | none =>
    simp only []
    cases olderErr t p <;> simp
  | some v =>
    simp only []
    by_cases hg : Mig.gate (v.getD 1) = .ok
    · simp only [hg, if_true]
      by_cases hw : hasWorkspace t p = true
      · simp only [hw, if_true]
        constructor
        · intro h'; cases h'; exact ⟨rfl, v, rfl, hg⟩
        · intro ⟨h', _⟩; rw [h']
      · simp only [hw]
        constructor
        · intro h'; cases h'; exact ⟨rfl, v, rfl, hg⟩
        · intro ⟨h', _⟩; rw [h']; rfl
    · simp only [hg, if_false]
      constructor
      · intro h'; cases h'
      · intro ⟨_, v', hv', hg'⟩
        cases hv'; exact absurd hg' hg

theorem openProject_steps (t : Tree) (p : Path) :
    ∀ s ∈ (openProject t p).2, s = .mkdir ("workspace" :: p) := by
  unfold openProject
  intro s hs
  cases h : t.cfg p with
  | none =>
    rw [h] at hs
    simp only [] at hs
    cases ho : olderErr t p <;> rw [ho] at hs <;> simp at hs
  | some v =>
    rw [h] at hs
    simp only [] at hs
    by_cases hg : Mig.gate (v.getD 1) = .ok
    · simp only [hg, if_true] at hs
      by_cases hw : hasWorkspace t p = true
      · simp [hw] at hs
      · simp [hw] at hs; exact hs
    · simp [hg] at hs

theorem openProject_steps_ws (t : Tree) (p : Path) (h : hasWorkspace t p = true) :
    (openProject t p).2 = [] := by
  unfold openProject
  cases t.cfg p with
  | none => simp only []; cases olderErr t p <;> rfl
  | some v =>
    simp only []
    by_cases hg : Mig.gate (v.getD 1) = .ok
    · simp [hg, h]
    · simp [hg]

theorem openProject_err_steps (t : Tree) (p : Path) (e : Err) (h : (openProject t p).1 = .error e) :
    (openProject t p).2 = [] := by
  unfold openProject at h ⊢
  cases hc : t.cfg p with
  | none => simp only []; cases olderErr t p <;> rfl
  | some v =>
    rw [hc] at h
    simp only [] at h ⊢
    by_cases hg : Mig.gate (v.getD 1) = .ok
    · simp only [hg, if_true] at h
      by_cases hw : hasWorkspace t p = true
      · simp [hw] at h
      · simp [hw] at h
    · simp [hg]

theorem getProjectFrom_ok_iff (t : Tree) (p q : Path) :
    (getProjectFrom t p).1 = .ok q ↔ Nearest t p q ∧ GateOk t q := by
  unfold getProjectFrom locateConfigDir
  cases hf : findProject t p with
  | some q' =>
    simp only []
    rw [openProject_ok_iff]
    constructor
    · intro ⟨h1, h2⟩
      subst h1
      exact ⟨(findProject_nearest t p q).mp hf, h2⟩
    · intro ⟨hn, hg⟩
      have := (findProject_nearest t p q).mpr hn
      rw [hf] at this; cases this
      exact ⟨rfl, hg⟩
  | none =>
    have hno : ¬ (Nearest t p q ∧ GateOk t q) := by
      intro ⟨hn, _⟩
      rw [(findProject_nearest t p q).mpr hn] at hf; cases hf
    cases findOlder t p <;> simp [hno]

theorem getProjectFrom_steps (t : Tree) (p : Path) (q : Path) (h : (getProjectFrom t p).1 = .ok q) :
    ∀ s ∈ (getProjectFrom t p).2, s = .mkdir ("workspace" :: q) := by
  unfold getProjectFrom at h ⊢
  split at h
  · cases h
  · cases h
  · rename_i q' _
    have := (openProject_ok_iff t q' q).mp h
    rw [this.1]
    exact openProject_steps t q'

theorem getProjectFrom_err_steps (t : Tree) (p : Path) (e : Err) (h : (getProjectFrom t p).1 = .error e) :
    (getProjectFrom t p).2 = [] := by
  unfold getProjectFrom at h ⊢
  split
  · rfl
  · rfl
  · rename_i q' hq
    simp only [hq] at h
    exact openProject_err_steps t q' e h

/-- nothing at or above `p` is a project and no level holds a legacy config -/
theorem getProjectFrom_nothing (t : Tree) (p : Path)
    (h1 : ∀ r, r <:+ p → isProject t r = false) (h2 : ∀ r, r <:+ p → t.rc r = none) :
    getProjectFrom t p = (.error .lookup, []) := by
  unfold getProjectFrom locateConfigDir
  rw [(findProject_none t p).mpr h1]
  have : findOlder t p = none := by
    rw [findOlder_none]
    intro r hr
    simp [olderErr, h2 r hr, Mig.raiseIfOlder]
  simp [this]

end Signac.Disc

/-
  C09 helper lemmas, the rename route of `Project.repair()`: a directory whose (intact) state
  point file hashes to another id than the directory name is moved to that id, provided the cache
  does not know the directory name and the destination is free.  Core only.
-/
import Signac.Proofs.CacheRepair
namespace Signac.Cache
open Signac Signac.Ws

/- ---------- association lists ---------- -/
section
variable {β : Type}

theorem aset_lookup_self {k : String} {v : β} {l : List (String × β)}
    (h : alookup k l = some v) : aset k v l = l := by
  induction l with
  | nil => simp [alookup] at h
  | cons hd tl ih =>
    obtain ⟨k', v'⟩ := hd
    simp only [alookup] at h
    simp only [aset]
    split
    · rename_i e
      subst e
      simp only [if_true, Option.some.injEq] at h
      rw [h]
    · rename_i hne
      rw [if_neg hne] at h
      rw [ih h]

theorem mem_aset_of_ne {k : String} {v : β} {x : String × β} {l : List (String × β)}
    (hm : x ∈ l) (hne : x.1 ≠ k) : x ∈ aset k v l := by
  induction l with
  | nil => simp at hm
  | cons hd tl ih =>
    obtain ⟨k', v'⟩ := hd
    simp only [aset]
    rcases List.mem_cons.mp hm with h | h
    · subst h
      have : ¬ k = k' := fun e => hne e.symm
      rw [if_neg this]
      exact List.mem_cons_self
    · split
      · exact List.mem_cons_of_mem _ h
      · exact List.mem_cons_of_mem _ (ih h)

theorem mem_keys_aerase_of_ne {j k : String} {l : List (String × β)} (hj : j ∈ K l) (hne : j ≠ k) :
    j ∈ K (aerase k l) := by
  obtain ⟨x, hx, rfl⟩ := List.mem_map.mp hj
  exact List.mem_map.mpr ⟨x, mem_aerase_of_ne hx hne, rfl⟩

theorem not_mem_keys_aerase {j k : String} {l : List (String × β)} (hj : j ∉ K l) :
    j ∉ K (aerase k l) := by
  intro h
  obtain ⟨x, hx, rfl⟩ := List.mem_map.mp h
  exact hj (List.mem_map.mpr ⟨x, (mem_aerase hx).1, rfl⟩)

theorem aerase_of_not_mem {k : String} {l : List (String × β)} (h : k ∉ K l) : aerase k l = l := by
  induction l with
  | nil => rfl
  | cons hd tl ih =>
    obtain ⟨k', v'⟩ := hd
    simp only [K, List.map_cons, List.mem_cons, not_or] at h
    simp only [aerase, if_neg h.1]
    rw [ih h.2]

/-- with duplicate-free keys, erasing a key removes exactly its entry -/
theorem perm_aerase {k : String} {v : β} {l : List (String × β)} (hnd : (K l).Nodup)
    (h : alookup k l = some v) : l.Perm (aerase k l ++ [(k, v)]) := by
  induction l with
  | nil => simp [alookup] at h
  | cons hd tl ih =>
    obtain ⟨k', v'⟩ := hd
    simp only [K, List.map_cons, List.nodup_cons] at hnd
    simp only [alookup] at h
    simp only [aerase]
    split
    · rename_i e
      subst e
      simp only [if_true, Option.some.injEq] at h
      subst h
      rw [aerase_of_not_mem hnd.1]
      exact (List.perm_append_singleton _ _).symm
    · rename_i hne
      rw [if_neg hne] at h
      exact List.Perm.cons _ (ih hnd.2 h)

theorem map_aset_congr {γ : Type} {g1 g : String × β → γ} {k : String} {v v' : β}
    {l : List (String × β)} (hnd : (K l).Nodup) (h : alookup k l = some v)
    (hk : g1 (k, v') = g (k, v)) (ho : ∀ e, e ∈ l → e.1 ≠ k → g1 e = g e) :
    (aset k v' l).map g1 = l.map g := by
  induction l with
  | nil => simp [alookup] at h
  | cons hd tl ih =>
    obtain ⟨k', w⟩ := hd
    simp only [K, List.map_cons, List.nodup_cons] at hnd
    simp only [alookup] at h
    simp only [aset]
    split
    · rename_i e
      subst e
      simp only [if_true, Option.some.injEq] at h
      subst h
      simp only [List.map_cons, hk, List.cons.injEq, true_and]
      apply List.map_congr_left
      intro e he
      apply ho e (List.mem_cons_of_mem _ he)
      intro e1
      exact hnd.1 (List.mem_map.mpr ⟨e, he, e1⟩)
    · rename_i hne
      rw [if_neg hne] at h
      simp only [List.map_cons, List.cons.injEq]
      refine ⟨ho _ List.mem_cons_self (fun e => hne e.symm), ?_⟩
      exact ih hnd.2 h (fun e he => ho e (List.mem_cons_of_mem _ he))

theorem map_aerase_congr {γ : Type} {g1 g : String × β → γ} {k : String}
    {l : List (String × β)} (ho : ∀ e, e ∈ l → e.1 ≠ k → g1 e = g e) :
    (aerase k l).map g1 = (aerase k l).map g := by
  apply List.map_congr_left
  intro e he
  exact ho e (mem_aerase he).1 (mem_aerase he).2

end

/- ---------- reading the cache twice ---------- -/
section
variable {hash : JVal → String}

theorem ensureRead_of_read {s : St} (h : s.cacheRead = true) : ensureRead s = s := by
  simp [ensureRead, h]

theorem ensureRead_idem (s : St) : ensureRead (ensureRead s) = ensureRead s :=
  ensureRead_of_read (ensureRead_cacheRead s)

theorem repairOne_ensureRead (s : St) (id : String) :
    repairOne hash (ensureRead s) id = repairOne hash s id := by
  unfold repairOne
  rw [ensureRead_idem]

theorem repairLoop_ensureRead (s : St) (id : String) (r : List String) :
    repairLoop hash (ensureRead s) (id :: r) = repairLoop hash s (id :: r) := by
  simp only [repairLoop, repairOne_ensureRead]

theorem mem_keys_readCache_session (s : St) (j : String) :
    j ∈ K (readCache s).session ↔ j ∈ K s.session ∨ ∃ c, s.cacheFile = some c ∧ j ∈ K c := by
  unfold readCache
  split
  · rename_i c hc
    simp only [mem_keys_updateAll, hc, Option.some.injEq, exists_eq_left']
  · rename_i hc
    simp [hc]

/-- whether an id is known does not change when the cache file is merged a second time -/
theorem isSome_session_ensureRead_readCache (s : St) (j : String) :
    (alookup j (ensureRead (readCache s)).session).isSome = (alookup j (readCache s).session).isSome := by
  rw [Bool.eq_iff_iff, isSome_iff_mem_keys, isSome_iff_mem_keys]
  unfold ensureRead
  split
  · exact Iff.rfl
  · show j ∈ K (readCache (readCache s)).session ↔ _
    rw [mem_keys_readCache_session (readCache s), readCache_cacheFile, mem_keys_readCache_session s]
    constructor
    · rintro (h | h)
      · exact h
      · exact Or.inr h
    · exact Or.inl

theorem session_none_ensureRead_readCache {s : St} {j : String}
    (h : alookup j (readCache s).session = none) :
    alookup j (ensureRead (readCache s)).session = none := by
  have := isSome_session_ensureRead_readCache s j
  rw [h] at this
  cases hl : alookup j (ensureRead (readCache s)).session with
  | none => rfl
  | some v => simp [hl] at this

end
end Signac.Cache

/- ---------- one iteration of the loop: the rename route ---------- -/
namespace Signac.Cache
open Signac Signac.Ws

section
variable {hash : JVal → String}

theorem ensureRead_mk (ws : List (String × Dir)) (cf : Option (List (String × JVal)))
    (se : List (String × JVal)) (np : Nat) :
    ensureRead ⟨ws, cf, se, true, np⟩ = ⟨ws, cf, se, true, np⟩ := rfl

theorem ensureRead_cacheFile (t : St) : (ensureRead t).cacheFile = t.cacheFile := by
  unfold ensureRead
  split
  · rfl
  · exact readCache_cacheFile t

theorem repairOne_rename_read (u : St) (hr : u.cacheRead = true) (id id' : String) (d : Dir)
    (kvs : List (String × JVal))
    (hs : alookup id u.session = none)
    (hd : alookup id u.ws = some d) (hsp : d.sp = .valid (.obj kvs))
    (hh : hash (.obj kvs) = id') (hne : id' ≠ id) (hfree : alookup id' u.ws = none) :
    (repairOne hash u id).2 = false ∧
    (repairOne hash u id).1.ws = aerase id u.ws ++ [(id', d)] ∧
    (repairOne hash u id).1.session = aerase id (aset id (.obj kvs) u.session) ∧
    (repairOne hash u id).1.cacheRead = true ∧
    (repairOne hash u id).1.cacheFile = u.cacheFile := by
  have he : ensureRead u = u := ensureRead_of_read hr
  have hnew : alookup id' (aerase id u.ws ++ [(id', d)]) = some d := by
    rw [alookup_append_new, alookup_aerase_ne hne, hfree]
    simp
  have hlv : loadValid hash d id' = some (.obj kvs) := by
    simp [loadValid, hsp, hh]
  simp only [repairOne, he, hs, hd, hsp, hh, if_neg hne, register, hfree]
  simp only [initJob, hr, ensureRead_mk, hh, hnew, hlv]
  exact ⟨trivial, trivial, trivial, trivial, trivial⟩

/-- The rename route, for any state `t`: the directory `id` holds an intact mapping whose hash is
    `id' ≠ id`, the (merged) session does not know `id`, and `id'` is free.  The directory is moved
    as it is; the session forgets `id` again; nothing is reported. -/
theorem repairOne_rename (t : St) (id id' : String) (d : Dir) (kvs : List (String × JVal))
    (hs : alookup id (ensureRead t).session = none)
    (hd : alookup id t.ws = some d) (hsp : d.sp = .valid (.obj kvs))
    (hh : hash (.obj kvs) = id') (hne : id' ≠ id) (hfree : alookup id' t.ws = none) :
    (repairOne hash t id).2 = false ∧
    (repairOne hash t id).1.ws = aerase id t.ws ++ [(id', d)] ∧
    (repairOne hash t id).1.session = aerase id (aset id (.obj kvs) (ensureRead t).session) ∧
    (repairOne hash t id).1.cacheRead = true ∧
    (repairOne hash t id).1.cacheFile = t.cacheFile := by
  have h := repairOne_rename_read (hash := hash) (ensureRead t) (ensureRead_cacheRead t) id id' d kvs hs
    (by rw [ensureRead_ws]; exact hd) hsp hh hne (by rw [ensureRead_ws]; exact hfree)
  rw [repairOne_ensureRead, ensureRead_ws, ensureRead_cacheFile] at h
  exact h

/-- The destination is occupied by a non-empty directory: the id is reported and no directory
    changes. -/
theorem repairOne_rename_blocked (t : St) (id id' : String) (d d2 : Dir) (kvs : List (String × JVal))
    (hs : alookup id (ensureRead t).session = none)
    (hd : alookup id t.ws = some d) (hsp : d.sp = .valid (.obj kvs))
    (hh : hash (.obj kvs) = id') (hne : id' ≠ id)
    (hocc : alookup id' t.ws = some d2) (hfull : dirEmpty d2 = false) :
    (repairOne hash t id).2 = true ∧ (repairOne hash t id).1.ws = t.ws := by
  have hws := ensureRead_ws t
  have hd0 : alookup id (ensureRead t).ws = some d := by rw [hws]; exact hd
  have hf0 : alookup id' (ensureRead t).ws = some d2 := by rw [hws]; exact hocc
  simp only [repairOne, hs, hd0, hsp, hh, if_neg hne, register, hf0, hfull, Bool.false_eq_true, if_false]
  exact ⟨trivial, hws⟩

end
end Signac.Cache

/- ---------- one iteration of the loop: the in-place routes, without a global `Known` ---------- -/
namespace Signac.Cache
open Signac Signac.Ws

section
variable {hash : JVal → String}

/-- `init` of a job whose directory exists (state already read): either it succeeds and the
    directory validates afterwards with its payload kept, or (not forced, file unparsable or
    foreign) it fails and no directory changes.  Other session entries are not touched. -/
theorem initJob_at (s : St) (hr : s.cacheRead = true) (v : JVal) (force : Bool) (d : Dir)
    (hl : alookup (hash v) s.ws = some d) :
    (initJob hash s v force).1.cacheRead = true ∧
    (∀ j, j ≠ hash v → alookup j (initJob hash s v force).1.session = alookup j s.session) ∧
    (((initJob hash s v force).2 = none ∧
        ∃ d', (initJob hash s v force).1.ws = aset (hash v) d' s.ws ∧ d'.payload = d.payload ∧
          (loadValid hash d' (hash v)).isSome = true) ∨
     ((initJob hash s v force).2.isSome = true ∧ force = false ∧ (initJob hash s v force).1.ws = s.ws)) := by
  have he : ensureRead s = s := ensureRead_of_read hr
  simp only [initJob, he, hl]
  cases hlv : loadValid hash d (hash v) with
  | some w =>
    simp only []
    exact ⟨hr, fun _ _ => trivial, Or.inl ⟨trivial, d, (aset_lookup_self hl).symm, rfl, by simp [hlv]⟩⟩
  | none =>
    simp only []
    cases hsp : d.sp with
    | absent =>
      simp only [loadValid, if_true]
      exact ⟨hr, fun j hj => alookup_aset_ne hj _ _, Or.inl ⟨trivial, _, rfl, rfl, by simp⟩⟩
    | garbage =>
      cases force with
      | true =>
        simp only [if_true, loadValid]
        exact ⟨hr, fun j hj => alookup_aset_ne hj _ _, Or.inl ⟨trivial, _, rfl, rfl, by simp⟩⟩
      | false =>
        simp only [Bool.false_eq_true, if_false, loadValid]
        refine ⟨hr, fun _ _ => trivial, Or.inr ⟨rfl, trivial, ?_⟩⟩
        apply aset_lookup_self
        rw [hl]; cases d; simp_all
    | valid w =>
      have hne : hash w ≠ hash v := by
        intro e
        simp [loadValid, hsp, e] at hlv
      cases force with
      | true =>
        simp only [if_true, loadValid]
        exact ⟨hr, fun j hj => alookup_aset_ne hj _ _, Or.inl ⟨trivial, _, rfl, rfl, by simp⟩⟩
      | false =>
        simp only [Bool.false_eq_true, if_false, loadValid, if_neg hne]
        refine ⟨hr, fun _ _ => trivial, Or.inr ⟨rfl, trivial, ?_⟩⟩
        apply aset_lookup_self
        rw [hl]; cases d; simp_all

/-- the two-stage `init` of `repair` (plain, then forced) on an existing directory whose name is
    the hash of `v` -/
theorem initTwice_at (s : St) (hr : s.cacheRead = true) (v : JVal) (d : Dir)
    (hl : alookup (hash v) s.ws = some d) :
    let r : St × Bool := match initJob hash s v false with
      | (s', none) => (s', false)
      | (s', some _) => match initJob hash s' v true with
        | (s'', none) => (s'', false)
        | (s'', some _) => (s'', true)
    r.2 = false ∧ r.1.cacheRead = true ∧
    (∀ j, j ≠ hash v → alookup j r.1.session = alookup j s.session) ∧
    ∃ d', r.1.ws = aset (hash v) d' s.ws ∧ d'.payload = d.payload ∧
      (loadValid hash d' (hash v)).isSome = true := by
  obtain ⟨hr1, hs1, hcase⟩ := initJob_at (hash := hash) s hr v false d hl
  cases h1 : initJob hash s v false with
  | mk s1 e1 =>
    rw [h1] at hr1 hs1 hcase
    simp only [] at hr1 hs1 hcase
    rcases hcase with ⟨hnone, hd'⟩ | ⟨hsome, _, hws⟩
    · subst hnone
      exact ⟨rfl, hr1, hs1, hd'⟩
    · cases e1 with
      | none => simp at hsome
      | some e =>
        simp only []
        have hl1 : alookup (hash v) s1.ws = some d := by rw [hws]; exact hl
        obtain ⟨hr2, hs2, hcase2⟩ := initJob_at (hash := hash) s1 hr1 v true d hl1
        cases h2 : initJob hash s1 v true with
        | mk s2 e2 =>
          rw [h2] at hr2 hs2 hcase2
          simp only [] at hr2 hs2 hcase2
          rcases hcase2 with ⟨hnone2, d', hd', hp, hv⟩ | ⟨_, hf, _⟩
          · subst hnone2
            exact ⟨rfl, hr2, fun j hj => by rw [hs2 j hj, hs1 j hj], d', by rw [hd', hws], hp, hv⟩
          · exact absurd hf (by decide)

end
end Signac.Cache

/- ---------- where repair leaves each directory ---------- -/
namespace Signac.Cache
open Signac Signac.Ws

/-- the mapping held by the directory's state point file, if the file is intact and holds one -/
def spObj (d : Dir) : Option JVal :=
  match d.sp with
  | .valid (.obj kvs) => some (.obj kvs)
  | _ => none

/-- the id under which repair leaves the directory `e`, given the (merged) session cache `sess`:
    its own id if the cache knows it; otherwise the hash of the mapping its file holds -/
def dest (hash : JVal → String) (sess : List (String × JVal)) (e : String × Dir) : String :=
  if (alookup e.1 sess).isSome then e.1
  else match spObj e.2 with
    | some v => hash v
    | none => e.1

section
variable {hash : JVal → String}

theorem spObj_some {d : Dir} {w : JVal} (h : spObj d = some w) :
    ∃ kvs, w = .obj kvs ∧ d.sp = .valid (.obj kvs) := by
  unfold spObj at h
  split at h
  · rename_i kvs hsp
    simp only [Option.some.injEq] at h
    exact ⟨kvs, h.symm, hsp⟩
  · simp at h

theorem dest_congr {sess sess' : List (String × JVal)} {e : String × Dir}
    (h : (alookup e.1 sess').isSome = (alookup e.1 sess).isSome) :
    dest hash sess' e = dest hash sess e := by
  simp only [dest, h]

/-- what one iteration of the loop does to the directory `(id, d)` and to nothing else -/
structure StepR (hash : JVal → String) (t t' : St) (id : String) (d : Dir) : Prop where
  read : t'.cacheRead = true
  sess : ∀ j, j ≠ id → alookup j t'.session = alookup j t.session
  ws : (dest hash t.session (id, d) = id ∧
          ∃ d', t'.ws = aset id d' t.ws ∧ d'.payload = d.payload ∧ (loadValid hash d' id).isSome = true) ∨
       (dest hash t.session (id, d) ≠ id ∧
          t'.ws = aerase id t.ws ++ [(dest hash t.session (id, d), d)] ∧
          (loadValid hash d (dest hash t.session (id, d))).isSome = true)

/-- One iteration for a directory that is known to the cache, or holds an intact mapping whose
    hash is its own name or a free name. -/
theorem repairOne_step (t : St) (hr : t.cacheRead = true) (hc : CacheInv hash t) (id : String) (d : Dir)
    (hd : alookup id t.ws = some d)
    (hcls : (alookup id t.session).isSome = true ∨ (spObj d).isSome = true)
    (hfree : dest hash t.session (id, d) ≠ id → alookup (dest hash t.session (id, d)) t.ws = none) :
    (repairOne hash t id).2 = false ∧ StepR hash t (repairOne hash t id).1 id d := by
  have he : ensureRead t = t := ensureRead_of_read hr
  cases hs : alookup id t.session with
  | some v =>
    -- known from the cache
    have hv : hash v = id := hc.1 _ _ (alookup_some_mem hs)
    have hdest : dest hash t.session (id, d) = id := by simp [dest, hs]
    have h2 := initTwice_at (hash := hash) t hr v d (by rw [hv]; exact hd)
    simp only [repairOne, he, hs, hv, if_true]
    simp only [hv] at h2
    obtain ⟨hb, hr', hs', hd'⟩ := h2
    exact ⟨hb, hr', hs', Or.inl ⟨hdest, hd'⟩⟩
  | none =>
    have hobj : (spObj d).isSome = true := by
      rcases hcls with h | h
      · simp [hs] at h
      · exact h
    cases ho : spObj d with
    | none => simp [ho] at hobj
    | some w =>
      obtain ⟨kvs, rfl, hsp⟩ := spObj_some ho
      have hdest : dest hash t.session (id, d) = hash (.obj kvs) := by simp [dest, hs, ho]
      by_cases hcorr : hash (.obj kvs) = id
      · -- intact as it stands: only registered
        have h2 := initTwice_at (hash := hash) (register t id (.obj kvs))
          (by simpa [register] using hr) (.obj kvs) d (by rw [hcorr]; exact hd)
        simp only [repairOne, he, hs, hd, hsp, hcorr, if_true]
        simp only [hcorr] at h2
        obtain ⟨hb, hr', hs', hd'⟩ := h2
        refine ⟨hb, hr', ?_, Or.inl ⟨by rw [hdest, hcorr], hd'⟩⟩
        intro j hj
        exact (hs' j hj).trans (alookup_aset_ne hj _ _)
      · -- misnamed: moved
        rw [hdest] at hfree
        obtain ⟨h1, h2, h3, h4, _⟩ := repairOne_rename_read (hash := hash) t hr id _ d kvs hs hd hsp rfl
          hcorr (hfree hcorr)
        refine ⟨h1, h4, ?_, Or.inr ⟨by rw [hdest]; exact hcorr, by rw [hdest]; exact h2, ?_⟩⟩
        · intro j hj
          rw [h3, alookup_aerase_ne hj, alookup_aset_ne hj]
        · rw [hdest]; simp [loadValid, hsp]

end
end Signac.Cache

/- ---------- the loop ---------- -/
namespace Signac.Cache
open Signac Signac.Ws

/-- what is compared before and after: each directory's name and payload -/
abbrev pay (e : String × Dir) : String × Nat := (e.1, e.2.payload)

section
variable {hash : JVal → String}

theorem alookup_none_of_not_mem {β : Type} {k : String} {l : List (String × β)} (h : k ∉ K l) :
    alookup k l = none := by
  cases hl : alookup k l with
  | none => rfl
  | some v => exact absurd (List.mem_map.mpr ⟨(k, v), alookup_some_mem hl, rfl⟩) h

/-- consequences of one iteration for the rest of the loop -/
structure Frame (hash : JVal → String) (t t1 : St) (id : String) (d : Dir) (rest : List String) : Prop where
  read : t1.cacheRead = true
  nd : (K t1.ws).Nodup
  restWs : ∀ j, j ∈ rest → alookup j t1.ws = alookup j t.ws
  restSess : ∀ j, j ≠ id → alookup j t1.session = alookup j t.session
  keys : ∀ k, k ∈ K t1.ws → k ∈ K t.ws ∨ k = dest hash t.session (id, d)
  entry : ∃ d1, (dest hash t.session (id, d), d1) ∈ t1.ws ∧ d1.payload = d.payload ∧
      (loadValid hash d1 (dest hash t.session (id, d))).isSome = true
  mem : ∀ e, e ∈ t.ws → e.1 ≠ id → e ∈ t1.ws
  perm : (t1.ws.map fun e => ((if e.1 ∈ rest then dest hash t1.session e else e.1), e.2.payload)).Perm
         (t.ws.map fun e => ((if e.1 ∈ id :: rest then dest hash t.session e else e.1), e.2.payload))

theorem frame_of_step {t t1 : St} {id : String} {d : Dir} {rest : List String}
    (hst : StepR hash t t1 id d) (hnd : (K t.ws).Nodup) (hd : alookup id t.ws = some d)
    (hfree : dest hash t.session (id, d) ≠ id → dest hash t.session (id, d) ∉ K t.ws)
    (hnotin : id ∉ rest) (hsub : ∀ j, j ∈ rest → j ∈ K t.ws) :
    Frame hash t t1 id d rest := by
  have hidk : id ∈ K t.ws := List.mem_map.mpr ⟨(id, d), alookup_some_mem hd, rfl⟩
  -- the two maps agree away from `id`
  have hg : ∀ e : String × Dir, e.1 ≠ id →
      ((if e.1 ∈ rest then dest hash t1.session e else e.1), e.2.payload) =
      ((if e.1 ∈ id :: rest then dest hash t.session e else e.1), e.2.payload) := by
    intro e he
    have h1 : dest hash t1.session e = dest hash t.session e := dest_congr (by rw [hst.sess e.1 he])
    rw [h1]
    simp only [List.mem_cons, he, false_or]
  rcases hst.ws with ⟨hdest, d', hws, hp, hv⟩ | ⟨hdest, hws, hv⟩
  · -- in place
    have hkeys : K t1.ws = K t.ws := by rw [hws]; exact aset_keys_of_mem hidk
    refine ⟨hst.read, by rw [hkeys]; exact hnd, ?_, hst.sess, ?_, ?_, ?_, ?_⟩
    · intro j hj
      have : j ≠ id := fun e => hnotin (e ▸ hj)
      rw [hws, alookup_aset_ne this]
    · intro k hk; rw [hkeys] at hk; exact Or.inl hk
    · refine ⟨d', ?_, hp, by rw [hdest]; exact hv⟩
      rw [hdest, hws]
      exact alookup_some_mem (alookup_aset_self _ _ _)
    · intro e he hne; rw [hws]; exact mem_aset_of_ne he hne
    · rw [hws, map_aset_congr (g := fun e => ((if e.1 ∈ id :: rest then dest hash t.session e else e.1), e.2.payload))
        hnd hd ?_ (fun e _ hne => hg e hne)]
      simp only [if_neg hnotin, List.mem_cons_self, if_true, hdest, hp]
  · -- moved
    have hnk := hfree hdest
    have hne2 : dest hash t.session (id, d) ≠ id := hdest
    refine ⟨hst.read, ?_, ?_, hst.sess, ?_, ⟨d, ?_, rfl, hv⟩, ?_, ?_⟩
    · rw [hws]
      simp only [K, List.map_append, List.map_cons, List.map_nil]
      rw [List.nodup_append]
      refine ⟨aerase_nodup hnd, by simp, ?_⟩
      intro a ha b hb
      simp only [List.mem_singleton] at hb
      subst hb
      intro e; subst e
      exact not_mem_keys_aerase hnk ha
    · intro j hj
      have h1 : j ≠ id := fun e => hnotin (e ▸ hj)
      have h2 : j ≠ dest hash t.session (id, d) := fun e => hnk (e ▸ hsub j hj)
      rw [hws, alookup_append_new, alookup_aerase_ne h1, if_neg h2]
      cases alookup j t.ws <;> rfl
    · intro k hk
      rw [hws] at hk
      simp only [K, List.map_append, List.map_cons, List.map_nil, List.mem_append, List.mem_singleton] at hk
      rcases hk with hk | hk
      · obtain ⟨x, hx, rfl⟩ := List.mem_map.mp hk
        exact Or.inl (List.mem_map.mpr ⟨x, (mem_aerase hx).1, rfl⟩)
      · exact Or.inr hk
    · rw [hws]; simp
    · intro e he hne
      rw [hws]
      exact List.mem_append_left _ (mem_aerase_of_ne he hne)
    · have hnr : dest hash t.session (id, d) ∉ rest := fun h => hnk (hsub _ h)
      have hp := (perm_aerase hnd hd).map
        (fun e : String × Dir => ((if e.1 ∈ id :: rest then dest hash t.session e else e.1), e.2.payload))
      refine List.Perm.trans ?_ hp.symm
      rw [hws, List.map_append, List.map_append,
        map_aerase_congr (g := fun e : String × Dir =>
          ((if e.1 ∈ id :: rest then dest hash t.session e else e.1), e.2.payload)) (fun e _ hne => hg e hne)]
      simp only [List.map_cons, List.map_nil, if_neg hnr, List.mem_cons_self, if_true]
      exact List.Perm.refl _

end
end Signac.Cache

namespace Signac.Cache
open Signac Signac.Ws

section
variable {hash : JVal → String}

/-- hypotheses on the ids still to be processed, relative to the current state: each is known to
    the session or holds an intact mapping; a directory that will move has a free destination;
    destinations are pairwise distinct -/
structure LoopHyp (hash : JVal → String) (t : St) (ids : List String) : Prop where
  nd : ids.Nodup
  cls : ∀ id, id ∈ ids → ∃ d, alookup id t.ws = some d ∧
      ((alookup id t.session).isSome = true ∨ (spObj d).isSome = true)
  free : ∀ id d, id ∈ ids → alookup id t.ws = some d →
      dest hash t.session (id, d) ≠ id → dest hash t.session (id, d) ∉ K t.ws
  inj : ∀ i1 d1 i2 d2, i1 ∈ ids → i2 ∈ ids → alookup i1 t.ws = some d1 → alookup i2 t.ws = some d2 →
      dest hash t.session (i1, d1) = dest hash t.session (i2, d2) → i1 = i2

theorem loopHyp_step {t t1 : St} {id : String} {d : Dir} {rest : List String}
    (H : LoopHyp hash t (id :: rest)) (hd : alookup id t.ws = some d)
    (F : Frame hash t t1 id d rest) : LoopHyp hash t1 rest := by
  have hnd := List.nodup_cons.mp H.nd
  have hne : ∀ j, j ∈ rest → j ≠ id := fun j hj e => hnd.1 (e ▸ hj)
  have hdest : ∀ j dj, j ∈ rest → dest hash t1.session (j, dj) = dest hash t.session (j, dj) :=
    fun j dj hj => dest_congr (by rw [F.restSess j (hne j hj)])
  refine ⟨hnd.2, ?_, ?_, ?_⟩
  · intro j hj
    obtain ⟨dj, h1, h2⟩ := H.cls j (List.mem_cons_of_mem _ hj)
    exact ⟨dj, by rw [F.restWs j hj]; exact h1, by rw [F.restSess j (hne j hj)]; exact h2⟩
  · intro j dj hj hl hdn
    rw [F.restWs j hj] at hl
    rw [hdest j dj hj] at hdn ⊢
    intro hk
    rcases F.keys _ hk with hk | hk
    · exact H.free j dj (List.mem_cons_of_mem _ hj) hl hdn hk
    · exact hne j hj (H.inj j dj id d (List.mem_cons_of_mem _ hj) List.mem_cons_self hl hd hk)
  · intro i1 d1 i2 d2 h1 h2 hl1 hl2 he
    rw [F.restWs i1 h1] at hl1
    rw [F.restWs i2 h2] at hl2
    rw [hdest i1 d1 h1, hdest i2 d2 h2] at he
    exact H.inj i1 d1 i2 d2 (List.mem_cons_of_mem _ h1) (List.mem_cons_of_mem _ h2) hl1 hl2 he

/-- The loop of `repair` over ids each of which is known, intact, or misnamed with a free
    destination: nothing is reported; names and payloads are those of the start with every
    processed directory under its destination id; each processed directory validates there;
    entries of other ids stay. -/
theorem repairLoop_ok (ids : List String) (t : St) (hr : t.cacheRead = true) (hc : CacheInv hash t)
    (hnd : (K t.ws).Nodup) (H : LoopHyp hash t ids) :
    (repairLoop hash t ids).2 = [] ∧ (K (repairLoop hash t ids).1.ws).Nodup ∧
    ((repairLoop hash t ids).1.ws.map pay).Perm
      (t.ws.map fun e => ((if e.1 ∈ ids then dest hash t.session e else e.1), e.2.payload)) ∧
    (∀ id d, id ∈ ids → alookup id t.ws = some d →
      ∃ d', alookup (dest hash t.session (id, d)) (repairLoop hash t ids).1.ws = some d' ∧
        (loadValid hash d' (dest hash t.session (id, d))).isSome = true) ∧
    (∀ e, e ∈ t.ws → e.1 ∉ ids → e ∈ (repairLoop hash t ids).1.ws) := by
  induction ids generalizing t with
  | nil =>
    refine ⟨rfl, hnd, ?_, fun _ _ h => absurd h (by simp), fun e he _ => he⟩
    simp only [repairLoop, List.not_mem_nil, if_false]
    exact List.Perm.refl _
  | cons id rest ih =>
    obtain ⟨d, hd, hcls⟩ := H.cls id List.mem_cons_self
    have hfr := H.free id d List.mem_cons_self hd
    obtain ⟨hbad, hst⟩ := repairOne_step (hash := hash) t hr hc id d hd hcls
      (fun h => alookup_none_of_not_mem (hfr h))
    have hnd' := List.nodup_cons.mp H.nd
    have hsub : ∀ j, j ∈ rest → j ∈ K t.ws := by
      intro j hj
      obtain ⟨dj, h1, _⟩ := H.cls j (List.mem_cons_of_mem _ hj)
      exact List.mem_map.mpr ⟨(j, dj), alookup_some_mem h1, rfl⟩
    have F := frame_of_step hst hnd hd hfr hnd'.1 hsub
    have H1 := loopHyp_step H hd F
    obtain ⟨h1, h2, h3, h4, h5⟩ := ih (repairOne hash t id).1 F.read (cacheInv_repairOne t id hc) F.nd H1
    simp only [repairLoop, hbad]
    refine ⟨by simpa using h1, h2, h3.trans F.perm, ?_, ?_⟩
    · intro j dj hj hl
      rcases List.mem_cons.mp hj with rfl | hj
      · have : dj = d := by rw [hd] at hl; exact (Option.some.inj hl).symm
        subst this
        obtain ⟨d1, hm, _, hv⟩ := F.entry
        have hnr : dest hash t.session (j, dj) ∉ rest := by
          intro hin
          by_cases hdn : dest hash t.session (j, dj) = j
          · exact hnd'.1 (hdn ▸ hin)
          · exact hfr hdn (hsub _ hin)
        exact ⟨d1, alookup_of_mem_nodup (h5 _ hm hnr) h2, hv⟩
      · have hne : j ≠ id := fun e => hnd'.1 (e ▸ hj)
        have hl1 : alookup j (repairOne hash t id).1.ws = some dj := by rw [F.restWs j hj]; exact hl
        have hde : dest hash (repairOne hash t id).1.session (j, dj) = dest hash t.session (j, dj) :=
          dest_congr (by rw [F.restSess j hne])
        have := h4 j dj hj hl1
        rw [hde] at this
        exact this
    · intro e he hnin
      simp only [List.mem_cons, not_or] at hnin
      exact h5 e (F.mem e he hnin.1) hnin.2

end
end Signac.Cache

/- ---------- the whole of `repair()` ---------- -/
namespace Signac.Cache
open Signac Signac.Ws

/-- Hypotheses of the repair theorem, over the state before `repair()` (`readCache s` is the
    session cache merged with the cache file, as `repair` sees it):
    * every listed directory is known to the cache or holds an intact mapping (which then hashes
      to the directory's own name — the job is intact — or to another one — it was renamed);
    * the destination of a renamed directory is not a listed id;
    * no two directories have the same destination. -/
def Repairable (hash : JVal → String) (s : St) : Prop :=
  (∀ e, e ∈ s.ws → (alookup e.1 (readCache s).session).isSome = true ∨ (spObj e.2).isSome = true) ∧
  (∀ e, e ∈ s.ws → dest hash (readCache s).session e ≠ e.1 → dest hash (readCache s).session e ∉ K s.ws) ∧
  (s.ws.map (dest hash (readCache s).session)).Nodup

instance (hash : JVal → String) (s : St) : Decidable (Repairable hash s) := by
  unfold Repairable; infer_instance

section
variable {hash : JVal → String}

theorem eq_of_nodup_map {α β : Type} {f : α → β} {l : List α} (h : (l.map f).Nodup) {a b : α}
    (ha : a ∈ l) (hb : b ∈ l) (he : f a = f b) : a = b := by
  induction l with
  | nil => simp at ha
  | cons x xs ih =>
    simp only [List.map_cons, List.nodup_cons] at h
    rcases List.mem_cons.mp ha with ha' | ha' <;> rcases List.mem_cons.mp hb with hb' | hb'
    · rw [ha', hb']
    · subst ha'
      exact absurd (List.mem_map.mpr ⟨b, hb', he.symm⟩) h.1
    · subst hb'
      exact absurd (List.mem_map.mpr ⟨a, ha', he⟩) h.1
    · exact ih h.2 ha' hb'

theorem repairLoop_ensureRead_all (s : St) (ids : List String) :
    (repairLoop hash (ensureRead s) ids).2 = (repairLoop hash s ids).2 ∧
    (repairLoop hash (ensureRead s) ids).1.ws = (repairLoop hash s ids).1.ws := by
  cases ids with
  | nil => exact ⟨rfl, ensureRead_ws s⟩
  | cons id r => rw [repairLoop_ensureRead]; exact ⟨rfl, rfl⟩

theorem loopHyp_of_repairable {s : St} (hnd : (K s.ws).Nodup) (hR : Repairable hash s) :
    LoopHyp hash (ensureRead (readCache s)) (K s.ws) := by
  obtain ⟨hcls, hfree, hinj⟩ := hR
  have hws : (ensureRead (readCache s)).ws = s.ws := by rw [ensureRead_ws, readCache_ws]
  have hde : ∀ e, dest hash (ensureRead (readCache s)).session e = dest hash (readCache s).session e :=
    fun e => dest_congr (isSome_session_ensureRead_readCache s e.1)
  refine ⟨hnd, ?_, ?_, ?_⟩
  · intro id hid
    obtain ⟨d, hd⟩ := mem_keys_alookup hid
    refine ⟨d, by rw [hws]; exact hd, ?_⟩
    rw [isSome_session_ensureRead_readCache]
    exact hcls (id, d) (alookup_some_mem hd)
  · intro id d _ hl
    rw [hws] at hl ⊢
    rw [hde]
    exact hfree (id, d) (alookup_some_mem hl)
  · intro i1 d1 i2 d2 _ _ h1 h2 he
    rw [hws] at h1 h2
    rw [hde, hde] at he
    have := eq_of_nodup_map hinj (alookup_some_mem h1) (alookup_some_mem h2) he
    exact congrArg Prod.fst this

/-- `repair()` on a project in which every listed directory is known to the cache, intact, or
    renamed-but-intact with a free destination of its own: nothing is reported, `check()` passes
    afterwards, and the result lists exactly the directories of the start, each with its payload,
    under its destination id (`dest`: the old id for known/intact ones, the hash of its own state
    point for a renamed one). -/
theorem repair_restores_renamed (s : St) (hc : CacheInv hash s) (hnd : (K s.ws).Nodup)
    (hR : Repairable hash s) :
    (repair hash s).2 = [] ∧ check hash (repair hash s).1 = [] ∧
    (K (repair hash s).1.ws).Nodup ∧
    ((repair hash s).1.ws.map pay).Perm
      (s.ws.map fun e => (dest hash (readCache s).session e, e.2.payload)) ∧
    (∀ e, e ∈ s.ws → ∃ d', alookup (dest hash (readCache s).session e) (repair hash s).1.ws = some d' ∧
        d'.payload = e.2.payload ∧ (loadValid hash d' (dest hash (readCache s).session e)).isSome = true) := by
  have hws : (ensureRead (readCache s)).ws = s.ws := by rw [ensureRead_ws, readCache_ws]
  have hde : ∀ e, dest hash (ensureRead (readCache s)).session e = dest hash (readCache s).session e :=
    fun e => dest_congr (isSome_session_ensureRead_readCache s e.1)
  have H := loopHyp_of_repairable (hash := hash) hnd hR
  obtain ⟨h1, h2, h3, h4, _⟩ := repairLoop_ok (hash := hash) (K s.ws) (ensureRead (readCache s))
    (ensureRead_cacheRead _) (cacheInv_ensureRead (cacheInv_readCache hc)) (by rw [hws]; exact hnd) H
  obtain ⟨e1, e2⟩ := repairLoop_ensureRead_all (hash := hash) (readCache s) (K s.ws)
  rw [e1] at h1
  rw [e2] at h2 h3 h4
  rw [hws] at h3 h4
  -- the right-hand side of the permutation, simplified
  have hmap : (s.ws.map fun e => ((if e.1 ∈ K s.ws then dest hash (ensureRead (readCache s)).session e else e.1),
      e.2.payload)) = s.ws.map fun e => (dest hash (readCache s).session e, e.2.payload) := by
    apply List.map_congr_left
    intro e he
    have : e.1 ∈ K s.ws := List.mem_map.mpr ⟨e, he, rfl⟩
    simp only [this, if_true, hde]
  rw [hmap] at h3
  simp only [repair]
  have hlook : ∀ e, e ∈ s.ws → ∃ d', alookup (dest hash (readCache s).session e)
      (repairLoop hash (readCache s) (K s.ws)).1.ws = some d' ∧
      d'.payload = e.2.payload ∧ (loadValid hash d' (dest hash (readCache s).session e)).isSome = true := by
    intro e he
    obtain ⟨d', hd', hv⟩ := h4 e.1 e.2 (List.mem_map.mpr ⟨e, he, rfl⟩) (alookup_of_mem_nodup he hnd)
    rw [hde] at hd' hv
    refine ⟨d', hd', ?_, hv⟩
    have hm : (dest hash (readCache s).session e, e.2.payload) ∈
        (repairLoop hash (readCache s) (K s.ws)).1.ws.map pay :=
      h3.mem_iff.mpr (List.mem_map.mpr ⟨e, he, rfl⟩)
    obtain ⟨e', he', hp⟩ := List.mem_map.mp hm
    simp only [pay, Prod.mk.injEq] at hp
    have := alookup_of_mem_nodup (k := e'.1) (v := e'.2) he' h2
    rw [hp.1, hd'] at this
    simp only [Option.some.injEq] at this
    rw [this]; exact hp.2
  refine ⟨h1, ?_, h2, h3, hlook⟩
  rw [check_nil_iff]
  intro k dk hm
  have hm2 : (k, dk.payload) ∈ (repairLoop hash (readCache s) (K s.ws)).1.ws.map pay :=
    List.mem_map.mpr ⟨(k, dk), hm, rfl⟩
  obtain ⟨e, he, hp⟩ := List.mem_map.mp (h3.mem_iff.mp hm2)
  simp only [Prod.mk.injEq] at hp
  obtain ⟨d', hd', _, hv⟩ := hlook e he
  rw [hp.1, alookup_of_mem_nodup hm h2] at hd'
  simp only [Option.some.injEq] at hd'
  subst hd'
  rw [hp.1] at hv
  exact hv

end
end Signac.Cache

/- ---------- the statements about a single misnamed directory, as `repair()` meets it ---------- -/
namespace Signac.Cache
open Signac Signac.Ws

section
variable {hash : JVal → String}

/-- (1) A single misnamed directory, met by the loop of `repair()` right after the cache was read:
    it is not reported; afterwards `id` is no longer listed, `id'` is listed with the very same
    directory (state point file and payload), and every other entry is unchanged. -/
theorem repair_rename_one (s : St) (id id' : String) (d : Dir) (kvs : List (String × JVal))
    (hd : alookup id s.ws = some d) (hsp : d.sp = .valid (.obj kvs))
    (hh : hash (.obj kvs) = id') (hne : id' ≠ id) (hfree : id' ∉ K s.ws)
    (hunk : alookup id (readCache s).session = none) :
    (repairOne hash (readCache s) id).2 = false ∧
    (repairOne hash (readCache s) id).1.ws = aerase id s.ws ++ [(id', d)] ∧
    alookup id (repairOne hash (readCache s) id).1.ws = none ∧
    (∃ d', alookup id' (repairOne hash (readCache s) id).1.ws = some d' ∧
        d'.sp = .valid (.obj kvs) ∧ d'.payload = d.payload) ∧
    (∀ j, j ≠ id → j ≠ id' →
        alookup j (repairOne hash (readCache s) id).1.ws = alookup j s.ws) := by
  obtain ⟨h1, h2, _⟩ := repairOne_rename (hash := hash) (readCache s) id id' d kvs
    (session_none_ensureRead_readCache hunk) (by rw [readCache_ws]; exact hd) hsp hh hne
    (by rw [readCache_ws]; exact alookup_none_of_not_mem hfree)
  rw [readCache_ws] at h2
  have hf : alookup id' s.ws = none := alookup_none_of_not_mem hfree
  refine ⟨h1, h2, ?_, ⟨d, ?_, hsp, rfl⟩, ?_⟩
  · rw [h2, alookup_append_new, alookup_aerase_self, if_neg (fun e => hne e.symm)]
  · rw [h2, alookup_append_new, alookup_aerase_ne hne, hf]; simp
  · intro j hj hj'
    rw [h2, alookup_append_new, alookup_aerase_ne hj, if_neg hj']
    cases alookup j s.ws <;> rfl

/-- (3) The destination is occupied by a non-empty directory: `id` is reported as corrupted and
    the listing is exactly what it was. -/
theorem repair_rename_blocked (s : St) (id id' : String) (d d2 : Dir) (kvs : List (String × JVal))
    (hd : alookup id s.ws = some d) (hsp : d.sp = .valid (.obj kvs))
    (hh : hash (.obj kvs) = id') (hne : id' ≠ id)
    (hocc : alookup id' s.ws = some d2) (hfull : dirEmpty d2 = false)
    (hunk : alookup id (readCache s).session = none) :
    (repairOne hash (readCache s) id).2 = true ∧ (repairOne hash (readCache s) id).1.ws = s.ws := by
  have := repairOne_rename_blocked (hash := hash) (readCache s) id id' d d2 kvs
    (session_none_ensureRead_readCache hunk) (by rw [readCache_ws]; exact hd) hsp hh hne
    (by rw [readCache_ws]; exact hocc) hfull
  rw [readCache_ws] at this
  exact this

/-- The destination is occupied by an EMPTY directory (no state point file, no payload): the
    misnamed directory takes its place. -/
theorem repair_rename_onto_empty (s : St) (id id' : String) (d d2 : Dir) (kvs : List (String × JVal))
    (hd : alookup id s.ws = some d) (hsp : d.sp = .valid (.obj kvs))
    (hh : hash (.obj kvs) = id') (hne : id' ≠ id)
    (hocc : alookup id' s.ws = some d2) (hempty : dirEmpty d2 = true)
    (hunk : alookup id (readCache s).session = none) :
    (repairOne hash (readCache s) id).2 = false ∧
    (repairOne hash (readCache s) id).1.ws = aset id' d (aerase id s.ws) := by
  have hs := session_none_ensureRead_readCache hunk
  have hcr := ensureRead_cacheRead (readCache s)
  have hws : (ensureRead (readCache s)).ws = s.ws := by rw [ensureRead_ws, readCache_ws]
  have hlv : loadValid hash d id' = some (.obj kvs) := by simp [loadValid, hsp, hh]
  rw [← repairOne_ensureRead]
  generalize ensureRead (readCache s) = u at hs hcr hws
  have he : ensureRead u = u := ensureRead_of_read hcr
  rw [← hws] at hd hocc
  simp only [repairOne, he, hs, hd, hsp, hh, if_neg hne, register, hocc, hempty, if_true]
  simp only [initJob, hcr, ensureRead_mk, hh, alookup_aset_self, hlv]
  exact ⟨trivial, by rw [hws]⟩

end
end Signac.Cache

/-
  Lemmas about `dottedKeys`, `statepointIndex`, `collectByType`, `detectSchema`, `reported`.
  Core only.
-/
import Signac.Proofs.SchemaIndex
namespace Signac.Schema
open Signac

/-! ### the set of dotted keys -/

theorem mem_addNew {k x : String} {l : List String} : x ∈ addNew k l ↔ x ∈ l ∨ x = k := by
  unfold addNew
  split
  · next h =>
    simp only [List.contains_iff_mem] at h
    constructor
    · exact Or.inl
    · rintro (h' | h')
      · exact h'
      · subst h'; exact h
  · simp

theorem nodup_addNew {k : String} {l : List String} (h : l.Nodup) : (addNew k l).Nodup := by
  unfold addNew
  split
  · exact h
  · next hc =>
    simp only [List.contains_iff_mem] at hc
    rw [List.nodup_append]
    refine ⟨h, by simp, ?_⟩
    intro a ha b hb
    simp only [List.mem_singleton] at hb
    subst hb
    intro e; subst e; exact hc ha

theorem mem_foldl_addNew {ks : List String} : ∀ {acc : List String} {x : String},
    x ∈ ks.foldl (fun a k => addNew k a) acc ↔ x ∈ acc ∨ x ∈ ks := by
  induction ks with
  | nil => simp
  | cons k ks ih =>
    intro acc x
    simp only [List.foldl_cons, ih, mem_addNew, List.mem_cons]
    constructor
    · rintro ((h | h) | h)
      · exact Or.inl h
      · exact Or.inr (Or.inl h)
      · exact Or.inr (Or.inr h)
    · rintro (h | h | h)
      · exact Or.inl (Or.inl h)
      · exact Or.inl (Or.inr h)
      · exact Or.inr h

theorem nodup_foldl_addNew {ks : List String} : ∀ {acc : List String},
    acc.Nodup → (ks.foldl (fun a k => addNew k a) acc).Nodup := by
  induction ks with
  | nil => intro acc h; exact h
  | cons k ks ih => intro acc h; exact ih (nodup_addNew h)

theorem mem_dottedKeysFrom {jobs : List Job} : ∀ {acc : List String} {x : String},
    x ∈ dottedKeysFrom acc jobs ↔ x ∈ acc ∨ ∃ j ∈ jobs, x ∈ (flatten j.sp).map Prod.fst := by
  induction jobs with
  | nil => intro acc x; simp [dottedKeysFrom]
  | cons j js ih =>
    intro acc x
    simp only [dottedKeysFrom, ih, mem_foldl_addNew, List.mem_cons]
    constructor
    · rintro ((h | h) | ⟨j', hj', h⟩)
      · exact Or.inl h
      · exact Or.inr ⟨j, Or.inl rfl, h⟩
      · exact Or.inr ⟨j', Or.inr hj', h⟩
    · rintro (h | ⟨j', hj' | hj', h⟩)
      · exact Or.inl (Or.inl h)
      · subst hj'; exact Or.inl (Or.inr h)
      · exact Or.inr ⟨j', hj', h⟩

theorem nodup_dottedKeysFrom {jobs : List Job} : ∀ {acc : List String},
    acc.Nodup → (dottedKeysFrom acc jobs).Nodup := by
  induction jobs with
  | nil => intro acc h; exact h
  | cons j js ih => intro acc h; exact ih (nodup_foldl_addNew h)

theorem mem_dottedKeys {jobs : List Job} {x : String} :
    x ∈ dottedKeys jobs ↔ ∃ j ∈ jobs, ∃ v, (x, v) ∈ flatten j.sp := by
  unfold dottedKeys
  rw [mem_dottedKeysFrom]
  simp only [List.not_mem_nil, false_or, List.mem_map, Prod.exists, exists_and_right, exists_eq_right]

theorem nodup_dottedKeys (jobs : List Job) : (dottedKeys jobs).Nodup :=
  nodup_dottedKeysFrom List.nodup_nil

/-! ### reported keys -/

/-- whether `_build_job_statepoint_index` skips the key -/
def skipped (excludeConst : Bool) (jobs : List Job) (k : String) : Bool :=
  excludeConst && isConstIdx (buildIndex k jobs) jobs.length

theorem statepointIndex_keys (excl : Bool) (jobs : List Job) :
    (statepointIndex excl jobs).map Prod.fst = (dottedKeys jobs).filter (fun k => !skipped excl jobs k) := by
  simp only [statepointIndex, List.map_map, skipped]
  induction (List.filter (fun k => !(excl && isConstIdx (buildIndex k jobs) jobs.length)) (dottedKeys jobs)) with
  | nil => rfl
  | cons a l ih => simp only [List.map_cons, Function.comp, ih]

theorem detectSchema_keys (excl : Bool) (jobs : List Job) :
    (detectSchema excl jobs).map Prod.fst = (dottedKeys jobs).filter (fun k => !skipped excl jobs k) := by
  rw [← statepointIndex_keys]
  simp only [detectSchema, List.map_map]
  induction (statepointIndex excl jobs) with
  | nil => rfl
  | cons a l ih => simp only [List.map_cons, Function.comp, ih]

theorem find_map_key {β : Type} (f : String → β) (k : String) (l : List String) :
    (l.map (fun x => (x, f x))).find? (fun kv => kv.1 == k) = if k ∈ l then some (k, f k) else none := by
  induction l with
  | nil => simp
  | cons a l ih =>
    simp only [List.map_cons, List.find?_cons, List.mem_cons]
    by_cases h : a = k
    · subst h; simp
    · have h' : (a == k) = false := by simpa using h
      simp only [h', ih]
      have : ¬ k = a := fun e => h e.symm
      simp [this]

/-- `detectSchema` as a map over the reported keys -/
theorem detectSchema_eq (excl : Bool) (jobs : List Job) :
    detectSchema excl jobs =
      ((dottedKeys jobs).filter (fun k => !skipped excl jobs k)).map
        (fun k => (k, collectByType (slotValues (buildIndex k jobs)))) := by
  simp only [detectSchema, statepointIndex, List.map_map, skipped]
  rfl

/-! ### values grouped by type -/

/-- the values filed under type name `t` -/
def typedLookup (tvs : List (String × List JVal)) (t : String) : List JVal :=
  match tvs.find? (fun tv => tv.1 == t) with
  | some tv => tv.2
  | none => []

theorem reported_eq (schema : List (String × List (String × List JVal))) (key t : String) :
    reported schema key t =
      match schema.find? (fun kv => kv.1 == key) with
      | some kv => typedLookup kv.2 t
      | none => [] := by
  unfold reported typedLookup
  rfl

theorem typedLookup_addTyped (v : JVal) (t : String) (tvs : List (String × List JVal)) :
    typedLookup (addTyped v tvs) t =
      if t = pyTypeName v then addSet v (typedLookup tvs t) else typedLookup tvs t := by
  induction tvs with
  | nil =>
    simp only [addTyped, typedLookup, List.find?_cons, List.find?_nil]
    by_cases h : t = pyTypeName v
    · subst h; simp [addSet]
    · have : (pyTypeName v == t) = false := by simpa using fun e => h e.symm
      simp [this, h]
  | cons hd tl ih =>
    obtain ⟨t', vs⟩ := hd
    simp only [addTyped]
    by_cases h1 : t' = pyTypeName v
    · simp only [h1, if_true]
      by_cases h : t = pyTypeName v
      · subst h; simp [typedLookup]
      · have : (pyTypeName v == t) = false := by simpa using fun e => h e.symm
        simp [typedLookup, this, h]
    · simp only [h1, if_false]
      by_cases h2 : t' = t
      · subst h2
        simp [typedLookup, h1]
      · have : (t' == t) = false := by simpa using h2
        simp only [typedLookup, List.find?_cons, this] at ih ⊢
        exact ih

theorem mem_addSet {v x : JVal} {vs : List JVal} (h : x ∈ addSet v vs) : x ∈ vs ∨ x = v := by
  unfold addSet at h
  split at h
  · exact Or.inl h
  · simpa using h

theorem typedLookup_foldl_sound {vals : List JVal} :
    ∀ {acc : List (String × List JVal)} {t : String} {x : JVal},
      x ∈ typedLookup (vals.foldl (fun a v => addTyped v a) acc) t →
      x ∈ typedLookup acc t ∨ (x ∈ vals ∧ pyTypeName x = t) := by
  induction vals with
  | nil => intro acc t x h; exact Or.inl h
  | cons v vs ih =>
    intro acc t x h
    simp only [List.foldl_cons] at h
    rcases ih h with h | ⟨h, ht⟩
    · rw [typedLookup_addTyped] at h
      split at h
      · next e =>
        rcases mem_addSet h with h | h
        · exact Or.inl h
        · subst h; exact Or.inr ⟨by simp, e.symm⟩
      · exact Or.inl h
    · exact Or.inr ⟨by simp [h], ht⟩

/-- the relation between an earlier and a later slot value of one index -/
abbrev SlotApart (a b : JVal) : Prop := slotEq a b = false

theorem isFlt_of_typeName {a b : JVal} (h : pyTypeName a = pyTypeName b) : isFlt a = isFlt b := by
  cases a <;> cases b <;> simp_all [pyTypeName, isFlt]

theorem addSet_apart {v : JVal} {vs : List JVal}
    (h : ∀ r ∈ vs, SlotApart r v ∧ pyTypeName r = pyTypeName v) : addSet v vs = vs ++ [v] := by
  unfold addSet
  have : vs.any (fun r => pyEq r v) = false := by
    rw [List.any_eq_false]
    intro r hr
    obtain ⟨h1, h2⟩ := h r hr
    unfold SlotApart slotEq at h1
    rw [isFlt_of_typeName h2] at h1
    simpa using h1
  simp [this]

/-- with pairwise separated values nothing is dropped by `set.add` -/
theorem typedLookup_foldl_complete {vals : List JVal} :
    ∀ {acc : List (String × List JVal)} {seen : List JVal},
      (∀ t x, x ∈ typedLookup acc t → x ∈ seen ∧ pyTypeName x = t) →
      (seen ++ vals).Pairwise SlotApart →
      ∀ {x : JVal}, x ∈ vals →
        x ∈ typedLookup (vals.foldl (fun a v => addTyped v a) acc) (pyTypeName x) := by
  induction vals with
  | nil => intro acc seen _ _ x hx; simp at hx
  | cons v vs ih =>
    intro acc seen hacc hp x hx
    simp only [List.foldl_cons]
    have hacc' : ∀ t y, y ∈ typedLookup (addTyped v acc) t → y ∈ seen ++ [v] ∧ pyTypeName y = t := by
      intro t y hy
      rw [typedLookup_addTyped] at hy
      split at hy
      · next e =>
        rcases mem_addSet hy with hy | hy
        · obtain ⟨h1, h2⟩ := hacc t y hy
          exact ⟨by simp [h1], h2⟩
        · subst hy; exact ⟨by simp, e.symm⟩
      · obtain ⟨h1, h2⟩ := hacc t y hy
        exact ⟨by simp [h1], h2⟩
    have hp' : (seen ++ [v] ++ vs).Pairwise SlotApart := by
      simpa [List.append_assoc] using hp
    simp only [List.mem_cons] at hx
    rcases hx with hx | hx
    · subst hx
      -- `x` itself is added now and stays
      have hin : x ∈ typedLookup (addTyped x acc) (pyTypeName x) := by
        rw [typedLookup_addTyped, if_pos rfl, addSet_apart]
        · simp
        · intro r hr
          obtain ⟨h1, h2⟩ := hacc _ r hr
          refine ⟨?_, h2⟩
          rw [List.pairwise_append] at hp
          exact hp.2.2 r h1 x (by simp)
      clear ih hacc' hp'
      -- later additions only append
      have keep : ∀ (ws : List JVal) (a : List (String × List JVal)) (t : String) (y : JVal),
          y ∈ typedLookup a t → y ∈ typedLookup (ws.foldl (fun a v => addTyped v a) a) t := by
        intro ws
        induction ws with
        | nil => intro a t y h; exact h
        | cons w ws ihw =>
          intro a t y h
          simp only [List.foldl_cons]
          apply ihw
          rw [typedLookup_addTyped]
          split
          · unfold addSet
            split
            · exact h
            · simp [h]
          · exact h
      exact keep vs _ _ _ hin
    · exact ih hacc' hp' hx

theorem collectByType_sound {vals : List JVal} {t : String} {x : JVal}
    (h : x ∈ typedLookup (collectByType vals) t) : x ∈ vals ∧ pyTypeName x = t := by
  rcases typedLookup_foldl_sound h with h | h
  · simp [typedLookup] at h
  · exact h

theorem collectByType_complete {vals : List JVal} (hp : vals.Pairwise SlotApart) {x : JVal}
    (hx : x ∈ vals) : x ∈ typedLookup (collectByType vals) (pyTypeName x) := by
  apply typedLookup_foldl_complete (seen := []) _ (by simpa using hp) hx
  intro t y hy
  simp [typedLookup] at hy

/-! ### slot values of an index -/

theorem mem_slotValues {idx : Index} {v : JVal} : v ∈ slotValues idx ↔ IKey.val v ∈ idx.keys := by
  induction idx with
  | nil => simp [slotValues, Index.keys]
  | cons hd tl ih =>
    obtain ⟨r, ids⟩ := hd
    cases r with
    | dict => simp only [slotValues, ih, Index.keys, List.map_cons, List.mem_cons]; simp
    | val w =>
      simp only [slotValues, List.mem_cons, ih, Index.keys, List.map_cons]
      constructor
      · rintro (h | h)
        · subst h; exact Or.inl rfl
        · exact Or.inr h
      · rintro (h | h)
        · cases h; exact Or.inl rfl
        · exact Or.inr h

theorem slotValues_pairwise {idx : Index} (h : idx.Distinct) : (slotValues idx).Pairwise SlotApart := by
  unfold Index.Distinct at h
  induction idx with
  | nil => simp [slotValues]
  | cons hd tl ih =>
    obtain ⟨r, ids⟩ := hd
    simp only [Index.keys, List.map_cons, List.pairwise_cons] at h
    cases r with
    | dict => simp only [slotValues]; exact ih h.2
    | val w =>
      simp only [slotValues, List.pairwise_cons]
      refine ⟨?_, ih h.2⟩
      intro x hx
      have := h.1 (IKey.val x) (mem_slotValues.mp hx)
      simpa [IKey.same] using this

theorem buildIndex_distinct (k : String) (jobs : List Job) : (buildIndex k jobs).Distinct :=
  buildFrom_distinct (by simp [Index.Distinct, Index.keys])

end Signac.Schema

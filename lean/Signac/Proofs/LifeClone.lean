/- `Project.clone` satisfies `CloneSpec` under every event schedule; as long as the state-point
   file is not completely copied the destination is absent or reported by check(); and the
   counter-example S-11: a clone interrupted (or faulted) after the state-point file was copied
   leaves a destination that passes check() but lacks files. -/
import Signac.Proofs.LifeRemoval
namespace Signac.Life
variable {Sp : Type}

/-- the steps of a copy of `S` into `dst` -/
inductive CpLike (dst : Key) (S : JobDir Sp) : Step Sp → Prop
  | mk (p : String) : CpLike dst S (.cpMkdir dst p)
  | op (r : Ref) : CpLike dst S (.cpOpen dst r)
  | wr (r : Ref) : CpLike dst S (.cpWrite dst r (itemContent S r))

theorem copyList_cpLike (S : JobDir Sp) (dst : Key) :
    ∀ (rs : List Ref) (errs : Bool) (failed : List String), Prog.All (CpLike dst S) (copyList S dst rs errs failed)
  | [], errs, failed => by simp only [copyList]; exact .done _
  | r :: rs, errs, failed => by
    have ih := copyList_cpLike S dst rs
    simp only [copyList]
    split
    · exact ih _ _
    · split
      · refine Prog.All.step _ _ (.mk _) (fun _ => ?_)
        split <;> exact ih _ _
      · refine Prog.All.step _ _ (.op _) (fun _ => ?_)
        split
        · exact ih _ _
        · split
          · exact ih _ _
          · refine Prog.All.step _ _ (.wr _) (fun _ => ?_)
            split <;> exact ih _ _

def PartialAt (dst : Key) (S : JobDir Sp) (w : World Sp) : Prop :=
  w dst = none ∨ ∃ d, w dst = some d ∧ SpPartial S d

theorem spPartial_put (C : Codec Sp) (S d : JobDir Sp) (r : Ref) (c : Content Sp) (h : SpPartial S d)
    (hc : r = .sp → (some c = S.sp ∨ ∃ s, c = .junk s)) : SpPartial S (putItem C d r c) := by
  cases r with
  | sp =>
    rcases hc rfl with hc | ⟨s, rfl⟩
    · exact Or.inr (Or.inl hc)
    · exact Or.inr (Or.inr ⟨s, rfl⟩)
  | _ => exact h

theorem itemContent_sp (S : JobDir Sp) : some (itemContent S .sp) = S.sp ∨ ∃ s, itemContent S .sp = .junk s := by
  simp only [itemContent]
  cases S.sp with
  | none => exact Or.inr ⟨"", rfl⟩
  | some c => exact Or.inl rfl

theorem partialAt_apply (C : Codec Sp) (dst : Key) (S : JobDir Sp) (s : Step Sp) (w w' : World Sp)
    (hs : CpLike dst S s) (hR : PartialAt dst S w) (h : apply C w s = .ok w') : PartialAt dst S w' := by
  cases hs with
  | mk p =>
    simp only [apply] at h
    split at h
    · rcases hR with hR | ⟨d, hd, _⟩
      · simp only [hR] at h; cases h; exact Or.inr ⟨_, upd_same .., Or.inl rfl⟩
      · simp [hd] at h
    · rcases hR with hR | ⟨d, hd, hp⟩
      · simp [hR] at h
      · simp only [hd] at h; cases h
        exact Or.inr ⟨_, upd_same .., spPartial_put C S d _ _ hp (by simp)⟩
  | op r =>
    rcases hR with hR | ⟨d, hd, hp⟩
    · simp [apply, hR] at h
    · simp only [apply, hd] at h; cases h
      exact Or.inr ⟨_, upd_same .., spPartial_put C S d _ _ hp (fun _ => Or.inr ⟨"", rfl⟩)⟩
  | wr r =>
    rcases hR with hR | ⟨d, hd, hp⟩
    · simp [apply, hR] at h
    · simp only [apply, hd] at h; cases h
      exact Or.inr ⟨_, upd_same .., spPartial_put C S d _ _ hp (fun hr => by subst hr; exact itemContent_sp S)⟩

theorem partialAt_torn (C : Codec Sp) (dst : Key) (S : JobDir Sp) (s : Step Sp) (w : World Sp) (t : Nat)
    (hs : CpLike dst S s) (hR : PartialAt dst S w) : PartialAt dst S (tornApply C w s t) := by
  cases hs with
  | wr r =>
    rcases hR with hR | ⟨d, hd, hp⟩
    · simp only [tornApply, hR]; exact Or.inl hR
    · simp only [tornApply, hd]
      exact Or.inr ⟨_, upd_same .., spPartial_put C S d _ _ hp (fun _ => Or.inr ⟨_, rfl⟩)⟩
  | _ => exact hR

/-- a copy that returns normally met no error and consumed no fault -/
theorem copyList_ok (C : Codec Sp) (ev : Nat → Option Ev) (S : JobDir Sp) (dst : Key) :
    ∀ (rs : List Ref) (errs : Bool) (failed : List String) (a : Acc Sp) (w : World Sp),
      (exec C ev (copyList S dst rs errs failed) a w).res = .ok →
      errs = false ∧ (exec C ev (copyList S dst rs errs failed) a w).acc.faulted = a.faulted
  | [], errs, failed, a, w => by
    cases errs <;> simp [copyList, exec]
  | r :: rs, errs, failed, a, w => by
    have ih := copyList_ok C ev S dst rs
    have ihT : ∀ failed a w, (exec C ev (copyList S dst rs true failed) a w).res ≠ .ok :=
      fun failed a w h => by have := (ih true failed a w h).1; cases this
    simp only [copyList]
    split
    · exact ih _ _ _ _
    · split
      · refine exec_step C ev (fun o => o.res = .ok → errs = false ∧ o.acc.faulted = a.faulted) _ _ a w
          (fun h => by cases h) (fun t h => by cases h) ?_ ?_ ?_
        · intro e _ h; exact absurd h (ihT _ _ _)
        · intro w' _ h; simpa [Acc.ok] using ih _ _ _ _ h
        · intro e _ h; exact absurd h (ihT _ _ _)
      · refine exec_step C ev (fun o => o.res = .ok → errs = false ∧ o.acc.faulted = a.faulted) _ _ a w
          (fun h => by cases h) (fun t h => by cases h) ?_ ?_ ?_
        · intro e _ h; exact absurd h (ihT _ _ _)
        · intro w' _
          dsimp only
          split
          · intro h; simpa [Acc.ok] using ih _ _ _ _ h
          · refine exec_step C ev (fun o => o.res = .ok → errs = false ∧ o.acc.faulted = a.faulted) _ _ _ w'
              (fun h => by cases h) (fun t h => by cases h) ?_ ?_ ?_
            · intro e _ h; exact absurd h (ihT _ _ _)
            · intro w'' _ h; simpa [Acc.ok] using ih _ _ _ _ h
            · intro e _ h; exact absurd h (ihT _ _ _)
        · intro e _ h; exact absurd h (ihT _ _ _)

theorem clone_spec (C : Codec Sp) (ev : Nat → Option Ev) (src dst : Key) (hsd : src ≠ dst) (order : List Ref)
    (w : World Sp) (S : JobDir Sp) (hS : w src = some S) :
    CloneSpec src dst w S (run C ev (cloneProg src dst order) w) := by
  refine ⟨?_, ?_, ?_, ?_⟩
  · exact op_frame C (.clone src dst order) ev w (by simp [Op.keys, hsd])
  · intro hsome
    cases hd : w dst with
    | none => simp [hd] at hsome
    | some d0 =>
      simp only [run, cloneProg]
      rw [exec]
      simp only [hS]
      refine exec_step C ev (fun o => o.w dst = some d0 ∧ o.res ≠ .ok) _ _ _ w ⟨hd, by simp⟩
        (fun t => ⟨by simp [tornApply, hd], by simp⟩) ?_ ?_ ?_
      · intro e _
        dsimp only
        repeat' split
        all_goals (simp only [exec]; exact ⟨hd, by simp [osExc]⟩)
      · intro w' hw'; simp [apply, hd] at hw'
      · intro e _
        dsimp only
        repeat' split
        all_goals (simp only [exec]; exact ⟨hd, by simp [osExc]⟩)
  · intro hd
    simp only [run, cloneProg]
    rw [exec]
    simp only [hS]
    refine exec_inv C ev (CpLike dst S) (PartialAt dst S) (fun s w w' => partialAt_apply C dst S s w w')
      (fun s w t => partialAt_torn C dst S s w t) ?_ _ _ (Or.inl hd)
    refine Prog.All.step _ _ (.mk _) (fun o => ?_)
    cases o with
    | none => exact copyList_cpLike S dst _ _ _
    | some e =>
      dsimp only
      repeat' split
      all_goals exact .done _
  · intro hf hok
    simp only [run, cloneProg] at hf hok
    rw [exec] at hf hok
    simp only [hS] at hf hok
    revert hf hok
    refine exec_step C ev (fun o => o.faulted = true → o.res = .ok → False) _ _ _ w
      (fun _ h => by cases h) (fun t _ h => by cases h) ?_ ?_ ?_
    · intro e _ _
      dsimp only
      repeat' split
      all_goals (simp [exec, osExc])
    · intro w' _ hf hok
      dsimp only at hf hok
      have := (copyList_ok C ev S dst order false [] _ w' hok).2
      simp only [Outcome.faulted] at hf
      rw [this] at hf
      cases hf
    · intro e _ _
      dsimp only
      repeat' split
      all_goals (simp [exec, osExc])

/-- while the destination's state-point file is not the complete copy of the source's, the
    destination is absent or reported by `check()` -/
theorem clone_undetected_only_after_sp (C : Codec Sp) (src dst : Key) (w : World Sp) (S : JobDir Sp)
    (o : Outcome Sp) (h : CloneSpec src dst w S o) (hd : w dst = none)
    (hsp : ∀ d, o.w dst = some d → d.sp ≠ S.sp) : o.w dst = none ∨ corruptAt C o.w dst = true := by
  rcases h.2.2.1 hd with h0 | ⟨d, hd', hp⟩
  · exact Or.inl h0
  · right
    rcases hp with hp | hp | ⟨s, hp⟩
    · exact corrupt_of_sp_none C o.w dst d hd' hp
    · exact absurd hp (hsp d hd')
    · simp [corruptAt, hd', JobDir.valid, hp, Content.validFor]

end Signac.Life

/-
  Proofs/ConcBoundary — "readers only see operation boundaries" (C12).

  For a document with a single writing actor the published document is, in every reachable state,
  the initial document with a PREFIX of the writer's writes applied (`BndInv`): one of the
  writer's operation-boundary values (`boundaries`).  A whole-document assignment is one write:
  between "before the assignment" and "the assigned mapping" nothing else is ever published.
  Every document read returns the published document (`tr_dload`), and the values handed back to
  the callers (`AState.out`) are tied to the `doc()` operations of the script that produced them
  (`Explains`), so every value any actor has read is a boundary value of its job's document.
-/
import Signac.Proofs.ConcTerm
namespace Signac.Conc
variable {SP DV : Type} {hash : SP → JobId}

/-! ### operation boundaries -/

/-- the values a document goes through when the writes `ws` are applied one after the other to
    `init`: `init` itself, then the document after the 1st, 2nd, … completed write -/
def boundaries (init : Doc DV) : List (DocW DV) → List (Doc DV)
  | [] => [init]
  | w :: ws => init :: boundaries (applyW init w) ws

theorem applySets_append (d : Doc DV) (l1 l2 : List (DocW DV)) :
    applySets d (l1 ++ l2) = applySets (applySets d l1) l2 := by
  induction l1 generalizing d with
  | nil => rfl
  | cons w r ih => simp only [List.cons_append, applySets]; exact ih _

theorem applySets_snoc (d : Doc DV) (l : List (DocW DV)) (w : DocW DV) :
    applySets d (l ++ [w]) = applyW (applySets d l) w := by
  rw [applySets_append]; rfl

theorem init_mem_boundaries (init : Doc DV) (ws : List (DocW DV)) : init ∈ boundaries init ws := by
  cases ws <;> simp [boundaries]

/-- the document after a prefix of the writes is a boundary value -/
theorem prefix_mem_boundaries (init : Doc DV) (done rest : List (DocW DV)) :
    applySets init done ∈ boundaries init (done ++ rest) := by
  induction done generalizing init with
  | nil => exact init_mem_boundaries _ _
  | cons w r ih =>
    simp only [List.cons_append, boundaries, applySets, List.mem_cons]
    exact Or.inr (ih _)

/-- … and every boundary value is the document after the first `n` writes, for some `n` -/
theorem mem_boundaries_iff (init : Doc DV) (ws : List (DocW DV)) (d : Doc DV) :
    d ∈ boundaries init ws ↔ ∃ n, n ≤ ws.length ∧ d = applySets init (ws.take n) := by
  induction ws generalizing init with
  | nil =>
    simp only [boundaries, List.mem_singleton, List.length_nil, Nat.le_zero_eq, List.take_nil, applySets]
    exact ⟨fun h => ⟨0, rfl, h⟩, fun ⟨_, _, h⟩ => h⟩
  | cons w r ih =>
    simp only [boundaries, List.mem_cons, List.length_cons]
    constructor
    · rintro (h | h)
      · exact ⟨0, Nat.zero_le _, h⟩
      · obtain ⟨n, hn, hd⟩ := (ih _).1 h
        exact ⟨n + 1, Nat.succ_le_succ hn, by simpa [applySets] using hd⟩
    · rintro ⟨n, hn, hd⟩
      cases n with
      | zero => exact Or.inl hd
      | succ n =>
        refine Or.inr ((ih _).2 ⟨n, Nat.le_of_succ_le_succ hn, ?_⟩)
        simpa [applySets] using hd

/-! ### the published document is a boundary value -/

/-- the published document of job `i` is the initial one (`D0`) with a prefix of the writer's
    writes `W` applied; the rest of `W` is exactly what the writer still has to do -/
def BndInv (hash : SP → JobId) (i : JobId) (w : Nat) (D0 : Doc DV) (W : List (DocW DV))
    (s : Sys SP DV) : Prop :=
  ∃ done, W = done ++ wPending hash i w s ∧ docNow s.fs i = applySets D0 done

theorem bndInv_step {s : Sys SP DV} {i : JobId} {w : Nat} {T D0 : Doc DV} {W : List (DocW DV)}
    (h : SysInv hash s) (hd : DocInv hash i w T s) (hb : BndInv hash i w D0 W s) (b : Nat) :
    BndInv hash i w D0 W (sysStep hash s b) := by
  obtain ⟨done, hW, hnow⟩ := hb
  by_cases hren : ∃ st c, s.actors[b]? = some st ∧ st.phase = .save .rename i .doc c
  · obtain ⟨st, c, hst, hph⟩ := hren
    obtain ⟨hbw, _, wr, hpend, hdn⟩ := doc_step_rename h hd hst hph
    subst hbw
    refine ⟨done ++ [wr], ?_, ?_⟩
    · rw [hW, hpend]; simp
    · rw [hdn, hnow, applySets_snoc]
  · have hnr : ∀ st, s.actors[b]? = some st → ∀ c, st.phase ≠ .save .rename i .doc c :=
      fun st hst c e => hren ⟨st, c, hst, e⟩
    obtain ⟨hdn, hpend⟩ := doc_step_other (i := i) hd.heads hnr
    exact ⟨done, by rw [hpend]; exact hW, by rw [hdn]; exact hnow⟩

theorem bndInv_run {s : Sys SP DV} {i : JobId} {w : Nat} {T D0 : Doc DV} {W : List (DocW DV)}
    (h : SysInv hash s) (hd : DocInv hash i w T s) (hb : BndInv hash i w D0 W s) (sched : List Nat) :
    BndInv hash i w D0 W (run hash s sched) := by
  induction sched generalizing s with
  | nil => exact hb
  | cons a rest ih => exact ih (sysStep_inv_guar h a).1 (docInv_step h hd a) (bndInv_step h hd hb a)

theorem bndInv_initially (fs : FS SP DV) (i : JobId) (w : Nat) (scripts : List (List (Op SP DV))) :
    BndInv hash i w (docNow fs i) (writesOf hash i w scripts) (startSys fs scripts) :=
  ⟨[], by simp only [startSys, wPending_start, List.nil_append], rfl⟩

theorem BndInv.mem {s : Sys SP DV} {i : JobId} {w : Nat} {D0 : Doc DV} {W : List (DocW DV)}
    (hb : BndInv hash i w D0 W s) : docNow s.fs i ∈ boundaries D0 W := by
  obtain ⟨done, hW, hnow⟩ := hb
  rw [hW, hnow]; exact prefix_mem_boundaries _ _ _

/-- In every state of every schedule the published document of a job with a single writing actor
    is one of the writer's operation-boundary values. -/
theorem published_boundary {fs : FS SP DV} (hfs : FsInv hash fs)
    (hnt : ∀ i k a, fs.get (.tmp i k a) = none) (scripts : List (List (Op SP DV)))
    {i : JobId} {w : Nat} (hsw : SingleWriter hash i w scripts) (sched : List Nat) :
    docNow (run hash (startSys fs scripts) sched).fs i ∈
      boundaries (docNow fs i) (writesOf hash i w scripts) :=
  (bndInv_run (initial_inv hfs hnt scripts) (docInv_initially (fs := fs) hsw)
    (bndInv_initially fs i w scripts) sched).mem

/-! ### what the callers were handed back -/

/-- `obs` (oldest first) is what the completed operations `ops` have handed back to their caller:
    one document per `doc()`, one count per `len(project)`, nothing for the others — and every
    document handed back by a `doc()` on the job with id `j` satisfies `P j` -/
def Explains (hash : SP → JobId) (P : JobId → Doc DV → Prop) :
    List (Op SP DV) → List (Obs SP DV) → Prop
  | [], obs => obs = []
  | op :: ops, obs =>
    match op with
    | .docGet v => ∃ d rest, obs = .doc d :: rest ∧ P (hash v) d ∧ Explains hash P ops rest
    | .len => ∃ n rest, obs = .count n :: rest ∧ Explains hash P ops rest
    | _ => Explains hash P ops obs

/-- operations that hand nothing back -/
def silent : Op SP DV → Bool
  | .docGet _ => false
  | .len => false
  | _ => true

theorem explains_snoc_get {P : JobId → Doc DV → Prop} {pre : List (Op SP DV)} {obs : List (Obs SP DV)}
    (h : Explains hash P pre obs) {v : SP} {d : Doc DV} (hp : P (hash v) d) :
    Explains hash P (pre ++ [.docGet v]) (obs ++ [.doc d]) := by
  induction pre generalizing obs with
  | nil => simp only [Explains] at h; subst h; exact ⟨d, [], rfl, hp, rfl⟩
  | cons op r ih =>
    cases op with
    | docGet u =>
      obtain ⟨d', rest, rfl, hp', hr⟩ := h
      exact ⟨d', rest ++ [.doc d], rfl, hp', ih hr⟩
    | len =>
      obtain ⟨n, rest, rfl, hr⟩ := h
      exact ⟨n, rest ++ [.doc d], rfl, ih hr⟩
    | project | init _ | docSet _ _ _ | docAssign _ _ => exact ih h

theorem explains_snoc_len {P : JobId → Doc DV → Prop} {pre : List (Op SP DV)} {obs : List (Obs SP DV)}
    (h : Explains hash P pre obs) (n : Nat) :
    Explains hash P (pre ++ [.len]) (obs ++ [.count n]) := by
  induction pre generalizing obs with
  | nil => simp only [Explains] at h; subst h; exact ⟨n, [], rfl, rfl⟩
  | cons op r ih =>
    cases op with
    | docGet u =>
      obtain ⟨d', rest, rfl, hp', hr⟩ := h
      exact ⟨d', rest ++ [.count n], rfl, hp', ih hr⟩
    | len =>
      obtain ⟨m, rest, rfl, hr⟩ := h
      exact ⟨m, rest ++ [.count n], rfl, ih hr⟩
    | project | init _ | docSet _ _ _ | docAssign _ _ => exact ih h

theorem explains_snoc_silent {P : JobId → Doc DV → Prop} {pre : List (Op SP DV)} {obs : List (Obs SP DV)}
    (h : Explains hash P pre obs) {op : Op SP DV} (hs : silent op = true) :
    Explains hash P (pre ++ [op]) obs := by
  induction pre generalizing obs with
  | nil =>
    simp only [Explains] at h; subst h
    cases op <;> first | rfl | cases hs
  | cons op' r ih =>
    cases op' with
    | docGet u =>
      obtain ⟨d', rest, rfl, hp', hr⟩ := h
      exact ⟨d', rest, rfl, hp', ih hr⟩
    | len =>
      obtain ⟨m, rest, rfl, hr⟩ := h
      exact ⟨m, rest, rfl, ih hr⟩
    | project | init _ | docSet _ _ _ | docAssign _ _ => exact ih h

/-- every document among the observations of a script whose `doc()`s are all on job `i` -/
theorem explains_mem {P : JobId → Doc DV → Prop} {i : JobId} {pre : List (Op SP DV)}
    {obs : List (Obs SP DV)} (h : Explains hash P pre obs)
    (hi : ∀ v, .docGet v ∈ pre → hash v = i) (d : Doc DV) (hd : .doc d ∈ obs) : P i d := by
  induction pre generalizing obs with
  | nil => simp only [Explains] at h; subst h; cases hd
  | cons op r ih =>
    have hi' : ∀ v, .docGet v ∈ r → hash v = i := fun v hv => hi v (List.mem_cons_of_mem _ hv)
    cases op with
    | docGet u =>
      obtain ⟨d', rest, rfl, hp', hr⟩ := h
      rcases List.mem_cons.1 hd with he | hm
      · cases he; rw [← hi u (by simp)]; exact hp'
      · exact ih hr hi' hm
    | len =>
      obtain ⟨m, rest, rfl, hr⟩ := h
      rcases List.mem_cons.1 hd with he | hm
      · cases he
      · exact ih hr hi' hm
    | project | init _ | docSet _ _ _ | docAssign _ _ => exact ih h hi' hd

/-- How the script and the observations of an actor move in one step: not at all, or the head
    operation is completed; a `doc()` then hands back the document published at that moment. -/
def ObsStep (hash : SP → JobId) (fs : FS SP DV) (st st' : AState SP DV) : Prop :=
  (st'.script = st.script ∧ st'.out = st.out) ∨
  ∃ op r, st.script = op :: r ∧ st'.script = r ∧
    ((∃ v, op = .docGet v ∧ st'.out = .doc (docNow fs (hash v)) :: st.out) ∨
     (op = .len ∧ ∃ n, st'.out = .count n :: st.out) ∨
     (silent op = true ∧ st'.out = st.out))

theorem finishOp_out (st : AState SP DV) : (finishOp st).out = st.out := by
  simp only [finishOp, startNext]; split <;> rfl

theorem obsStep_finish_silent {fs : FS SP DV} {st : AState SP DV} {op : Op SP DV} {r : List (Op SP DV)}
    (hs : st.script = op :: r) (hsil : silent op = true) : ObsStep hash fs st (finishOp st) :=
  Or.inr ⟨op, r, hs, by rw [finishOp_script, hs]; rfl, Or.inr (Or.inr ⟨hsil, finishOp_out st⟩)⟩

theorem obsStep_afterInit {fs : FS SP DV} {st : AState SP DV} {v : SP} (hh : jobOp v st.script) :
    ObsStep hash fs st (afterInit hash st v) := by
  unfold afterInit; split
  · exact Or.inl ⟨rfl, rfl⟩
  · exact Or.inl ⟨rfl, rfl⟩
  · exact Or.inl ⟨rfl, rfl⟩
  · rename_i h1 h2 h3
    rcases hh with (⟨k, x, r, hs⟩ | ⟨r, hs⟩) | ⟨r, hs⟩ | ⟨d, r, hs⟩
    · exact absurd hs (h1 v k x r)
    · exact absurd hs (h2 v r)
    · exact obsStep_finish_silent hs rfl
    · exact absurd hs (h3 v d r)

theorem obsStep_docStart {fs : FS SP DV} {st : AState SP DV} {v : SP} :
    ObsStep hash fs st (docStart hash st v) := by
  unfold docStart; split <;> exact Or.inl ⟨rfl, rfl⟩

theorem obs_resume {fs : FS SP DV} {a : Nat} {st : AState SP DV} {ins : Instr SP DV}
    (hfs : FsInv hash fs) (hinv : AInv hash fs a st) (hh : HeadOk hash st.phase st.script)
    (hn : next hash a st = some ins) :
    ObsStep hash fs st (resume hash st (exec fs ins).2) := by
  cases hph : st.phase with
  | fin => simp [next, hph] at hn
  | proj n =>
    rw [hph] at hh
    obtain ⟨rest, hs⟩ := hh
    have hfin : ObsStep hash fs st (finishOp st) := obsStep_finish_silent hs rfl
    simp only [resume, hph, resumeProj]
    cases n <;> simp only <;> repeat' split
    all_goals first | exact hfin | exact Or.inl ⟨rfl, rfl⟩
  | lite v => simp only [resume, hph]; split
              · exact obsStep_docStart
              · exact Or.inl ⟨rfl, rfl⟩
  | len =>
    rw [hph] at hh
    obtain ⟨rest, hs⟩ := hh
    simp only [resume, hph]; split
    · rename_i l _
      refine Or.inr ⟨.len, rest, hs, ?_, Or.inr (Or.inl ⟨rfl, l.length, ?_⟩)⟩
      · rw [finishOp_script]; simp only [hs, List.tail_cons]
      · rw [finishOp_out]
    · exact Or.inl ⟨rfl, rfl⟩
  | dload v =>
    rw [hph] at hh
    have hn' : ins = .read (.file (hash v) .doc) := by
      simp only [next, hph, Option.some.injEq] at hn; exact hn.symm
    subst hn'
    obtain ⟨_, e2⟩ := tr_dload hfs hinv hph
    rw [e2]
    unfold resumeDload; split
    · exact Or.inl ⟨rfl, rfl⟩
    · rename_i u rest hs
      have huv : u = v := by
        rcases hh with ⟨k, x, r, h⟩ | ⟨r, h⟩ <;> rw [hs] at h <;> cases h
        rfl
      subst huv
      refine Or.inr ⟨.docGet u, rest, hs, ?_, Or.inl ⟨u, rfl, ?_⟩⟩
      · rw [finishOp_script]; simp only [hs, List.tail_cons]
      · rw [finishOp_out]
    · exact Or.inl ⟨rfl, rfl⟩
  | save n j k c =>
    rw [hph] at hh
    cases k with
    | sp =>
      simp only [resume, hph, resumeSave]
      cases n <;> simp only <;> repeat' split
      all_goals first | exact Or.inl ⟨rfl, rfl⟩ | (rename_i heq; cases heq) | (rename_i heq _; cases heq)
    | doc =>
      have hfin : ObsStep hash fs st (finishOp st) := by
        rcases hh with ⟨v, k, x, r, hs, _⟩ | ⟨v, d, r, hs, _, _⟩
        · exact obsStep_finish_silent hs rfl
        · exact obsStep_finish_silent hs rfl
      simp only [resume, hph, resumeSave]
      cases n <;> simp only <;> repeat' split
      all_goals first | exact hfin | exact Or.inl ⟨rfl, rfl⟩ | (rename_i heq; cases heq) | (rename_i heq _; cases heq)
  | ini n v =>
    rw [hph] at hh
    simp only [resume, hph, resumeIni]
    cases n <;> simp only <;> repeat' split
    all_goals first | exact obsStep_afterInit hh | exact Or.inl ⟨rfl, rfl⟩

/-- every actor's observations so far are explained by the operations it has completed -/
def ObsInv (hash : SP → JobId) (P : JobId → Doc DV → Prop) (scripts : List (List (Op SP DV)))
    (s : Sys SP DV) : Prop :=
  ∀ (a : Nat) (st : AState SP DV), s.actors[a]? = some st →
    ∃ sc pre, scripts[a]? = some sc ∧ .project :: sc = pre ++ st.script ∧
      Explains hash P pre st.out.reverse

theorem obsInv_step {P : JobId → Doc DV → Prop} {scripts : List (List (Op SP DV))} {s : Sys SP DV}
    (h : SysInv hash s) (hh : AllHeadOk hash s) (hP : ∀ j, P j (docNow s.fs j))
    (ho : ObsInv hash P scripts s) (b : Nat) : ObsInv hash P scripts (sysStep hash s b) := by
  cases hst : s.actors[b]? with
  | none => rw [sysStep_idle_none hst]; exact ho
  | some st =>
  cases hn : next hash b st with
  | none => rw [sysStep_idle_fin hst hn]; exact ho
  | some ins =>
  rw [sysStep_eq hst hn]
  intro a st' ha
  simp only at ha
  by_cases hab : a = b
  · subst hab
    rw [set_self hst] at ha; cases ha
    obtain ⟨sc, pre, hsc, hpre, hex⟩ := ho a st hst
    rcases obs_resume h.fs (h.actors a st hst) (hh a st hst) hn with ⟨e1, e2⟩ | ⟨op, r, hs, hs', hout⟩
    · exact ⟨sc, pre, hsc, by rw [e1]; exact hpre, by rw [e2]; exact hex⟩
    · refine ⟨sc, pre ++ [op], hsc, by rw [hs', hpre, hs]; simp, ?_⟩
      rcases hout with ⟨v, rfl, ho'⟩ | ⟨rfl, n, ho'⟩ | ⟨hsil, ho'⟩
      · rw [ho', List.reverse_cons]; exact explains_snoc_get hex (hP _)
      · rw [ho', List.reverse_cons]; exact explains_snoc_len hex n
      · rw [ho']; exact explains_snoc_silent hex hsil
  · rw [set_other _ hab] at ha
    exact ho a st' ha

theorem obsInv_run {P : JobId → Doc DV → Prop} {scripts : List (List (Op SP DV))} {s : Sys SP DV}
    (h : SysInv hash s) (hh : AllHeadOk hash s) (ho : ObsInv hash P scripts s) (sched : List Nat)
    (hP : ∀ pre, pre <+: sched → ∀ j, P j (docNow (run hash s pre).fs j)) :
    ObsInv hash P scripts (run hash s sched) := by
  induction sched generalizing s with
  | nil => exact ho
  | cons a rest ih =>
    refine ih (sysStep_inv_guar h a).1 (allHeadOk_step hh a)
      (obsInv_step h hh (hP [] (List.nil_prefix)) ho a) ?_
    intro pre hpre j
    exact hP (a :: pre) (List.cons_prefix_cons.2 ⟨rfl, hpre⟩) j

theorem obsInv_start (P : JobId → Doc DV → Prop) (fs : FS SP DV) (scripts : List (List (Op SP DV))) :
    ObsInv hash P scripts (startSys fs scripts) := by
  intro a st hst
  simp only [startSys, List.getElem?_map] at hst
  cases hs : scripts[a]? with
  | none => simp [hs] at hst
  | some sc =>
    simp only [hs, Option.map_some, Option.some.injEq] at hst
    subst hst
    exact ⟨sc, [], rfl, rfl, rfl⟩

/-- the boundary property of a document value of job `j`: for every actor `w` that is the single
    writer of that document, a boundary value of `w`'s writes -/
def IsBoundary (hash : SP → JobId) (fs : FS SP DV) (scripts : List (List (Op SP DV)))
    (j : JobId) (d : Doc DV) : Prop :=
  ∀ w, SingleWriter hash j w scripts → d ∈ boundaries (docNow fs j) (writesOf hash j w scripts)

theorem obsInv_reachable {fs : FS SP DV} (hfs : FsInv hash fs)
    (hnt : ∀ i k a, fs.get (.tmp i k a) = none) (scripts : List (List (Op SP DV))) (sched : List Nat) :
    ObsInv hash (IsBoundary hash fs scripts) scripts (run hash (startSys fs scripts) sched) :=
  obsInv_run (initial_inv hfs hnt scripts) (allHeadOk_start fs scripts)
    (obsInv_start _ fs scripts) sched
    (fun pre _ _ _ hsw => published_boundary hfs hnt scripts hsw pre)

end Signac.Conc

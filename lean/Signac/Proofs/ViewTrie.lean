/-
  Proofs/ViewTrie — the tree of `_build_tree` / `_color_path` / `_find_dead_branches`:
  a branch is reported dead exactly when it is a node that no new link path passes through.
-/
import Signac.LinkedView
namespace Signac.LV

mutual
  /-- the colour of the node reached by `path`, if there is one -/
  def tfind : Path → Trie → Option Bool
    | [], .node c _ => some c
    | n :: rest, .node _ ks => tfindKids n rest ks
  def tfindKids (n : String) (rest : Path) : List (String × Trie) → Option Bool
    | [] => none
    | (m, t) :: ks => if m = n then tfind rest t else tfindKids n rest ks
end

mutual
  /-- child names are distinct at every node -/
  def twf : Trie → Prop
    | .node _ ks => twfKids ks
  def twfKids : List (String × Trie) → Prop
    | [] => True
    | (n, t) :: ks => (∀ x ∈ ks, x.1 ≠ n) ∧ twf t ∧ twfKids ks
end

theorem tfindKids_modify (m : String) (f : Trie → Trie) (n : String) (rest : Path)
    (ks : List (String × Trie)) :
    tfindKids n rest (modifyKid m f ks) =
      if m = n then
        (match ks.find? (fun x => x.1 = m) with
         | some x => tfind rest (f x.2)
         | none => tfind rest (f (.node false [])))
      else tfindKids n rest ks := by
  induction ks with
  | nil =>
    by_cases h : m = n <;> simp [modifyKid, tfindKids, h]
  | cons x xs ih =>
    obtain ⟨k, t⟩ := x
    by_cases hk : k = m
    · subst hk
      by_cases h : k = n <;> simp [modifyKid, tfindKids, h]
    · by_cases h : m = n
      · subst h
        simp only [modifyKid, hk, if_false, tfindKids, List.find?, decide_false] 
        rw [ih]; simp
      · simp only [modifyKid, hk, if_false, tfindKids]
        rw [ih]; simp [h]

theorem tfindKids_eq_find (n : String) (rest : Path) (ks : List (String × Trie)) :
    tfindKids n rest ks = (match ks.find? (fun x => x.1 = n) with
      | some x => tfind rest x.2
      | none => none) := by
  induction ks with
  | nil => simp [tfindKids]
  | cons x xs ih =>
    obtain ⟨k, t⟩ := x
    by_cases hk : k = n <;> simp [tfindKids, hk, List.find?, ih]

theorem tfind_nil_touch (col : Bool) (p : Path) (t : Trie) :
    tfind [] (touch col p t) = (tfind [] t).map (· || col) := by
  cases t with
  | node c ks => cases p <;> simp [touch, tfind]

theorem tfind_fresh (q : Path) : tfind q (.node false []) = if q = [] then some false else none := by
  cases q <;> simp [tfind, tfindKids]

/-- colour of `q` after walking `p` -/
theorem tfind_touch (col : Bool) (p : Path) : ∀ (q : Path) (t : Trie),
    tfind q (touch col p t) =
      if q <+: p then some ((tfind q t).getD false || col) else tfind q t := by
  induction p with
  | nil =>
    intro q t
    cases t with
    | node c ks =>
      cases q with
      | nil => simp [touch, tfind]
      | cons n rest => simp [touch, tfind]
  | cons a p ih =>
    intro q t
    cases t with
    | node c ks =>
      cases q with
      | nil => simp [touch, tfind]
      | cons n rest =>
        simp only [touch, tfind, tfindKids_modify]
        by_cases han : a = n
        · subst han
          simp only [if_true, List.cons_prefix_cons, true_and]
          rw [tfindKids_eq_find]
          cases hf : ks.find? (fun x => x.1 = a) with
          | some x => simp only [ih]
          | none =>
            simp only [ih, tfind_fresh]
            by_cases hr : rest <+: p
            · by_cases hrn : rest = [] <;> simp [hr, hrn]
            · have : rest ≠ [] := by
                intro e; subst e; exact hr (List.nil_prefix)
              simp [hr, this]
        · have : ¬ (n :: rest <+: a :: p) := by
            rw [List.cons_prefix_cons]; intro h; exact han h.1.symm
          simp [han, this]

theorem twfKids_modify (m : String) (f : Trie → Trie) (hf : ∀ t, twf t → twf (f t))
    (ks : List (String × Trie)) (h : twfKids ks) :
    twfKids (modifyKid m f ks) ∧ ∀ x ∈ modifyKid m f ks, x.1 = m ∨ ∃ y ∈ ks, y.1 = x.1 := by
  induction ks with
  | nil =>
    simp only [modifyKid, twfKids]
    refine ⟨⟨by simp, hf _ (by simp [twf, twfKids]), trivial⟩, ?_⟩
    intro x hx; simp at hx; left; simp [hx]
  | cons x xs ih =>
    obtain ⟨k, t⟩ := x
    simp only [twfKids] at h
    by_cases hk : k = m
    · subst hk
      simp only [modifyKid, if_true, twfKids]
      refine ⟨⟨h.1, hf t h.2.1, h.2.2⟩, ?_⟩
      intro x hx
      right
      cases hx with
      | head => exact ⟨(k, t), List.mem_cons_self, rfl⟩
      | tail _ hx' => exact ⟨x, List.mem_cons_of_mem _ hx', rfl⟩
    · simp only [modifyKid, hk, if_false, twfKids]
      obtain ⟨ih1, ih2⟩ := ih h.2.2
      refine ⟨⟨?_, h.2.1, ih1⟩, ?_⟩
      · intro x hx
        rcases ih2 x hx with e | ⟨y, hy, e⟩
        · rw [e]; exact fun e' => hk e'.symm
        · rw [← e]; exact h.1 y hy
      · intro x hx
        cases hx with
        | head => right; exact ⟨(k, t), List.mem_cons_self, rfl⟩
        | tail _ hx' =>
          rcases ih2 x hx' with e | ⟨y, hy, e⟩
          · left; exact e
          · right; exact ⟨y, List.mem_cons_of_mem _ hy, e⟩

theorem twf_touch (col : Bool) (p : Path) : ∀ t, twf t → twf (touch col p t) := by
  induction p with
  | nil => intro t h; cases t; simpa [touch, twf] using h
  | cons a p ih =>
    intro t h
    cases t with
    | node c ks =>
      simp only [touch, twf] at h ⊢
      exact (twfKids_modify a (touch col p) ih ks h).1

theorem twf_foldl_touch (col : Bool) (ps : List Path) : ∀ t, twf t → twf (ps.foldl (fun t p => touch col p t) t) := by
  induction ps with
  | nil => intro t h; exact h
  | cons p ps ih => intro t h; exact ih _ (twf_touch col p t h)

/-- colour of `q` after walking all of `ps` -/
theorem tfind_foldl_touch (col : Bool) (ps : List Path) : ∀ (t : Trie) (q : Path),
    tfind q (ps.foldl (fun t p => touch col p t) t) =
      if ∃ p ∈ ps, q <+: p then some ((tfind q t).getD false || col) else tfind q t := by
  induction ps with
  | nil => intro t q; simp
  | cons p ps ih =>
    intro t q
    simp only [List.foldl_cons, ih, tfind_touch]
    by_cases h1 : q <+: p
    · by_cases h2 : ∃ p' ∈ ps, q <+: p'
      · have : ∃ p' ∈ p :: ps, q <+: p' := ⟨p, List.mem_cons_self, h1⟩
        simp only [h1, h2, this, if_true, Option.getD_some]
        cases col <;> simp
      · have : ∃ p' ∈ p :: ps, q <+: p' := ⟨p, List.mem_cons_self, h1⟩
        simp [h1, h2, this]
    · by_cases h2 : ∃ p' ∈ ps, q <+: p'
      · have : ∃ p' ∈ p :: ps, q <+: p' := by
          obtain ⟨p', hp', h⟩ := h2; exact ⟨p', List.mem_cons_of_mem _ hp', h⟩
        simp [h1, h2, this]
      · have : ¬ ∃ p' ∈ p :: ps, q <+: p' := by
          rintro ⟨p', hp', h⟩
          cases hp' with
          | head => exact h1 h
          | tail _ hp'' => exact h2 ⟨p', hp'', h⟩
        simp [h1, h2, this]

mutual
  theorem mem_deadBranches (br : Path) : ∀ (t : Trie), twf t → ∀ b,
      b ∈ deadBranches br t ↔ ∃ q, b = br ++ q ∧ tfind q t = some false
    | .node c ks, h, b => by
      simp only [deadBranches, List.mem_append]
      have ih := mem_deadKids br ks (by simpa [twf] using h) b
      constructor
      · rintro (h1 | h1)
        · obtain ⟨n, rest, hb, hf⟩ := ih.mp h1
          exact ⟨n :: rest, hb, by simpa [tfind] using hf⟩
        · cases c with
          | true => simp at h1
          | false =>
            simp only [Bool.false_eq_true, if_false, List.mem_singleton] at h1
            exact ⟨[], by simp [h1], by simp [tfind]⟩
      · rintro ⟨q, hb, hf⟩
        cases q with
        | nil =>
          right
          simp only [tfind, Option.some.injEq] at hf
          subst hf
          simp [hb]
        | cons n rest =>
          left
          exact ih.mpr ⟨n, rest, hb, by simpa [tfind] using hf⟩
  theorem mem_deadKids (br : Path) : ∀ (ks : List (String × Trie)), twfKids ks → ∀ b,
      b ∈ deadKids br ks ↔ ∃ n rest, b = br ++ n :: rest ∧ tfindKids n rest ks = some false
    | [], _, b => by simp [deadKids, tfindKids]
    | (m, t) :: ks, h, b => by
      simp only [twfKids] at h
      simp only [deadKids, List.mem_append]
      have ih1 := mem_deadBranches (br ++ [m]) t h.2.1 b
      have ih2 := mem_deadKids br ks h.2.2 b
      constructor
      · rintro (h1 | h1)
        · obtain ⟨q, hb, hf⟩ := ih1.mp h1
          exact ⟨m, q, by simp [hb], by simp [tfindKids, hf]⟩
        · obtain ⟨n, rest, hb, hf⟩ := ih2.mp h1
          refine ⟨n, rest, hb, ?_⟩
          have hne : m ≠ n := by
            intro e; subst e
            rw [tfindKids_eq_find] at hf
            cases hfd : ks.find? (fun x => x.1 = m) with
            | none => simp [hfd] at hf
            | some x =>
              have := List.find?_some hfd
              have hx := List.mem_of_find?_eq_some hfd
              exact h.1 x hx (by simpa using this)
          simp [tfindKids, hne, hf]
      · rintro ⟨n, rest, hb, hf⟩
        by_cases hmn : m = n
        · subst hmn
          left
          simp only [tfindKids, if_true] at hf
          exact ih1.mpr ⟨rest, by simp [hb], hf⟩
        · right
          simp only [tfindKids, hmn, if_false] at hf
          exact ih2.mpr ⟨n, rest, hb, hf⟩
end

mutual
  theorem deadBranches_prefix (br : Path) : ∀ (t : Trie) (b : Path), b ∈ deadBranches br t → br <+: b
    | .node c ks, b, h => by
      simp only [deadBranches, List.mem_append] at h
      rcases h with h | h
      · obtain ⟨n, _, hp⟩ := deadKids_prefix br ks b h
        exact (List.prefix_append br [n]).trans hp
      · cases c with
        | true => simp at h
        | false => simp at h; subst h; exact List.prefix_refl _
  theorem deadKids_prefix (br : Path) : ∀ (ks : List (String × Trie)) (b : Path), b ∈ deadKids br ks →
      ∃ n, (∃ x ∈ ks, x.1 = n) ∧ br ++ [n] <+: b
    | [], b, h => by simp [deadKids] at h
    | (m, t) :: ks, b, h => by
      simp only [deadKids, List.mem_append] at h
      rcases h with h | h
      · exact ⟨m, ⟨(m, t), List.mem_cons_self, rfl⟩, deadBranches_prefix (br ++ [m]) t b h⟩
      · obtain ⟨n, ⟨x, hx, hn⟩, hp⟩ := deadKids_prefix br ks b h
        exact ⟨n, ⟨x, List.mem_cons_of_mem _ hx, hn⟩, hp⟩
end

theorem snoc_prefix_inj {br b : Path} {m n : String} (h1 : br ++ [m] <+: b) (h2 : br ++ [n] <+: b) :
    m = n := by
  obtain ⟨r1, e1⟩ := h1
  obtain ⟨r2, e2⟩ := h2
  have : br ++ ([m] ++ r1) = br ++ ([n] ++ r2) := by
    simp only [← List.append_assoc]; rw [e1, e2]
  have := List.append_cancel_left this
  simpa using (List.cons.inj this).1

mutual
  theorem deadBranches_nodup (br : Path) : ∀ (t : Trie), twf t → (deadBranches br t).Nodup
    | .node c ks, h => by
      simp only [deadBranches]
      rw [List.nodup_append]
      refine ⟨deadKids_nodup br ks (by simpa [twf] using h), ?_, ?_⟩
      · cases c <;> simp
      · intro a ha b hb
        cases c with
        | true => simp at hb
        | false =>
          simp at hb; subst hb
          obtain ⟨n, _, hp⟩ := deadKids_prefix b ks a ha
          intro e; subst e
          have := hp.length_le
          simp at this
          omega
  theorem deadKids_nodup (br : Path) : ∀ (ks : List (String × Trie)), twfKids ks → (deadKids br ks).Nodup
    | [], _ => by simp [deadKids]
    | (m, t) :: ks, h => by
      simp only [twfKids] at h
      simp only [deadKids]
      rw [List.nodup_append]
      refine ⟨deadBranches_nodup (br ++ [m]) t h.2.1, deadKids_nodup br ks h.2.2, ?_⟩
      intro a ha b hb e
      subst e
      have h1 := deadBranches_prefix (br ++ [m]) t a ha
      obtain ⟨n, ⟨x, hx, hn⟩, h2⟩ := deadKids_prefix br ks a hb
      have := snoc_prefix_inj h1 h2
      subst this
      exact h.1 x hx hn
end

/-! ### the tree of a view analysis -/

theorem twf_analysis (ex keys : List Path) : twf (colorAll keys (buildTree ex)) := by
  unfold colorAll buildTree
  exact twf_foldl_touch true keys _ (twf_foldl_touch false ex _ (by simp [twf, twfKids]))

/-- A branch is dead iff it is a node of the tree of existing paths (the root, or a prefix of
    an existing path) and no new link path passes through it. -/
theorem mem_dead_iff (ex keys : List Path) (b : Path) :
    b ∈ deadBranches [] (colorAll keys (buildTree ex)) ↔
      (b = [] ∨ ∃ e ∈ ex, b <+: e) ∧ ¬ ∃ k ∈ keys, b <+: k := by
  rw [mem_deadBranches [] _ (twf_analysis ex keys) b]
  simp only [List.nil_append, exists_eq_left']
  unfold colorAll buildTree
  rw [tfind_foldl_touch, tfind_foldl_touch]
  by_cases hk : ∃ k ∈ keys, b <+: k
  · simp [hk]
  · simp only [hk, if_false, not_false_eq_true, and_true]
    by_cases he : ∃ e ∈ ex, b <+: e
    · simp only [he, if_true, or_true, iff_true]
      rw [tfind_fresh]
      by_cases hb : b = [] <;> simp [hb]
    · simp only [he, if_false, or_false]
      rw [tfind_fresh]
      by_cases hb : b = [] <;> simp [hb]

theorem dead_nodup (ex keys : List Path) : (deadBranches [] (colorAll keys (buildTree ex))).Nodup :=
  deadBranches_nodup [] _ (twf_analysis ex keys)

end Signac.LV

/-
  Proofs/ConcInv — the per-actor invariant of the C12 model and its preservation by every step
  (own step: case analysis on the program counter; other actors' steps: rely/guarantee).
-/
import Signac.Proofs.ConcFs
namespace Signac.Conc
variable {SP DV : Type} {hash : SP → JobId}

/-- what the program counter of actor `a` knows about the file system -/
def PhaseInv (hash : SP → JobId) (fs : FS SP DV) (a : Nat) : Phase SP DV → Prop
  | .proj .isdir3 => IsDir fs .ws
  | .ini .isdir2 v => IsDir fs (.jobdir (hash v))
  | .ini .isfile v => IsDir fs (.jobdir (hash v))
  | .ini .load2 v => IsFile fs (.file (hash v) .sp)
  | .save .openw i k c => IsDir fs (.jobdir i) ∧ GoodC hash i k c
  | .save .write i k c => IsFile fs (.tmp i k a) ∧ GoodC hash i k c
  | .save .close i k c => fs.get (.tmp i k a) = some (.file c) ∧ GoodC hash i k c
  | .save .rename i k c => fs.get (.tmp i k a) = some (.file c) ∧ GoodC hash i k c
  | .dload v => IsDir fs (.jobdir (hash v))
  | _ => True

def isProj : Phase SP DV → Bool
  | .proj _ => true
  | _ => false

/-- the operation in progress loads the document (`doc[k] = x`, `doc()`) -/
def loadHead : List (Op SP DV) → Bool
  | .docSet _ _ _ :: _ => true
  | .docGet _ :: _ => true
  | _ => false

/-- the operation in progress touches the document (also `job.doc = d`, which does not load) -/
def docHead : List (Op SP DV) → Bool
  | .docSet _ _ _ :: _ => true
  | .docGet _ :: _ => true
  | .docAssign _ _ :: _ => true
  | _ => false

/-- what the program counter needs to know about the operation in progress -/
def headFits : Phase SP DV → List (Op SP DV) → Bool
  | .lite _, s => docHead s
  | .dload _, s => loadHead s
  | _, _ => true

def tmpPhase (i : JobId) (k : Kind) : Phase SP DV → Prop
  | .save .write j k' _ => j = i ∧ k' = k
  | .save .close j k' _ => j = i ∧ k' = k
  | .save .rename j k' _ => j = i ∧ k' = k
  | _ => False

/-- invariant of one actor -/
structure AInv (hash : SP → JobId) (fs : FS SP DV) (a : Nat) (st : AState SP DV) : Prop where
  noFail : st.failed = none
  ws : isProj st.phase = false → IsDir fs .ws
  phase : PhaseInv hash fs a st.phase
  own : ∀ i k, fs.get (.tmp i k a) ≠ none → tmpPhase i k st.phase
  head : headFits st.phase st.script = true

/-- an actor's invariant only speaks about things other actors never destroy -/
theorem AInv.stable {fs fs' : FS SP DV} {a b : Nat} {st : AState SP DV} (hab : a ≠ b)
    (h : AInv hash fs a st) (g : Guar b fs fs') : AInv hash fs' a st := by
  refine ⟨h.noFail, fun hp => g.dirs _ (h.ws hp), ?_, ?_, h.head⟩
  · have hp := h.phase
    cases hph : st.phase with
    | proj n => cases n <;> simp_all [PhaseInv] <;> exact g.dirs _ hp
    | ini n v => cases n <;> simp_all [PhaseInv] <;> first | exact g.dirs _ hp | exact g.files _ _ hp
    | save n i k c =>
      rw [hph] at hp
      cases n
      · exact ⟨g.dirs _ hp.1, hp.2⟩
      · simpa only [PhaseInv, IsFile, g.tmps i k a hab] using hp
      · simpa only [PhaseInv, g.tmps i k a hab] using hp
      · simpa only [PhaseInv, g.tmps i k a hab] using hp
    | dload v => simp_all [PhaseInv]; exact g.dirs _ hp
    | _ => simp [PhaseInv]
  · intro i k hne
    rw [g.tmps i k a hab] at hne
    exact h.own i k hne


def NoTmp (fs : FS SP DV) (a : Nat) : Prop := ∀ i k, fs.get (.tmp i k a) = none

theorem AInv.noTmp {fs : FS SP DV} {a : Nat} {st : AState SP DV} (h : AInv hash fs a st)
    (hp : ∀ i k, ¬ tmpPhase i k st.phase) : NoTmp fs a := by
  intro i k
  cases hg : fs.get (.tmp i k a) with
  | none => rfl
  | some n => exact absurd (h.own i k (by simp [hg])) (hp i k)

theorem ainv_of_noTmp {fs : FS SP DV} {a : Nat} {st : AState SP DV}
    (h1 : st.failed = none) (h2 : isProj st.phase = false → IsDir fs .ws)
    (h3 : PhaseInv hash fs a st.phase) (h4 : NoTmp fs a)
    (h5 : headFits st.phase st.script = true) : AInv hash fs a st :=
  ⟨h1, h2, h3, fun i k hne => absurd (h4 i k) hne, h5⟩

theorem ainv_finish {fs : FS SP DV} {a : Nat} {st : AState SP DV}
    (h1 : st.failed = none) (h2 : IsDir fs .ws) (h4 : NoTmp fs a) : AInv hash fs a (finishOp st) := by
  apply ainv_of_noTmp _ (fun _ => h2) _ h4
  · simp only [finishOp, startNext]
    split
    · simp [headFits]
    · rename_i op rest heq
      cases op <;> simp_all [firstPhase, headFits, docHead]
  · simp only [finishOp, startNext]; split <;> exact h1
  · simp only [finishOp, startNext]
    split
    · simp [PhaseInv]
    · rename_i op rest heq
      cases op <;> simp [firstPhase, PhaseInv]

theorem ainv_afterInit {fs : FS SP DV} {a : Nat} {st : AState SP DV} {v : SP}
    (h1 : st.failed = none) (h2 : IsDir fs .ws) (h4 : NoTmp fs a)
    (hd : IsDir fs (.jobdir (hash v))) : AInv hash fs a (afterInit hash st v) := by
  unfold afterInit
  split
  · exact ainv_of_noTmp h1 (fun _ => h2) hd h4 (by simp_all [AState.goto, headFits, loadHead])
  · exact ainv_of_noTmp h1 (fun _ => h2) hd h4 (by simp_all [AState.goto, headFits, loadHead])
  · exact ainv_of_noTmp h1 (fun _ => h2) ⟨hd, trivial⟩ h4 (by simp [AState.goto, headFits])
  · exact ainv_finish h1 h2 h4

/-- the directory exists: `doc[k] = x` / `doc()` go on to load, `job.doc = d` starts its save -/
theorem ainv_docStart {fs : FS SP DV} {a : Nat} {st : AState SP DV} {v : SP}
    (h1 : st.failed = none) (h2 : IsDir fs .ws) (h4 : NoTmp fs a)
    (hd : IsDir fs (.jobdir (hash v))) (hh : docHead st.script = true) :
    AInv hash fs a (docStart hash st v) := by
  unfold docStart
  split
  · exact ainv_of_noTmp h1 (fun _ => h2) ⟨hd, trivial⟩ h4 (by simp [AState.goto, headFits])
  · rename_i hna
    refine ainv_of_noTmp h1 (fun _ => h2) hd h4 ?_
    simp only [AState.goto, headFits]
    cases hs : st.script with
    | nil => simp [hs, docHead] at hh
    | cons op r =>
      cases op with
      | docAssign w d => exact absurd hs (hna w d r)
      | docSet w k x => rfl
      | docGet w => rfl
      | _ => simp [hs, docHead] at hh

def StepOk (hash : SP → JobId) (fs : FS SP DV) (a : Nat) (st : AState SP DV) (ins : Instr SP DV) : Prop :=
  FsInv hash (exec fs ins).1 ∧ Guar a fs (exec fs ins).1 ∧
    AInv hash (exec fs ins).1 a (resume hash st (exec fs ins).2)

theorem ws_node {fs : FS SP DV} (hfs : FsInv hash fs) {n : Node SP DV} (h : fs.get .ws = some n) :
    IsDir fs .ws := by
  have := hfs.ok _ _ h
  simp only [NodeOk] at this
  subst this; exact h

theorem jd_node {fs : FS SP DV} (hfs : FsInv hash fs) {i : JobId} {n : Node SP DV}
    (h : fs.get (.jobdir i) = some n) : IsDir fs (.jobdir i) := by
  have := hfs.ok _ _ h
  simp only [NodeOk] at this
  subst this; exact h

theorem noTmp_set {fs : FS SP DV} {a : Nat} (h : NoTmp fs a) {p : Path} (n : Node SP DV)
    (hp : ∀ i k b, p ≠ .tmp i k b) : NoTmp (fs.set p n) a := by
  intro i k; simp only [get_set]; split
  · rename_i he; exact absurd he (hp i k a)
  · exact h i k

theorem step_proj {fs : FS SP DV} {a : Nat} {st : AState SP DV} {n : ProjPc} {ins : Instr SP DV}
    (hfs : FsInv hash fs) (hinv : AInv hash fs a st) (hph : st.phase = .proj n)
    (hn : next hash a st = some ins) : StepOk hash fs a st ins := by
  have hnt : NoTmp fs a := hinv.noTmp (by intro i k; simp [hph, tmpPhase])
  have hf := hinv.noFail
  have hgo : ∀ m, PhaseInv hash fs a (.proj m) → AInv hash fs a (st.goto (.proj m)) := fun m hm =>
    ainv_of_noTmp hf (by simp [AState.goto, isProj]) hm hnt (by simp [AState.goto, headFits])
  unfold StepOk
  cases n
  · -- isdir1
    simp only [next, hph, Option.some.injEq] at hn; subst hn
    by_cases hd : IsDir fs .ws
    · rw [exec_isdir_T hd]
      exact ⟨hfs, Guar.refl _ _, by simpa only [resume, hph, resumeProj] using ainv_finish hf hd hnt⟩
    · rw [exec_isdir_F hd]
      exact ⟨hfs, Guar.refl _ _, by simpa only [resume, hph, resumeProj] using hgo .isdir2 trivial⟩
  · -- isdir2
    simp only [next, hph, Option.some.injEq] at hn; subst hn
    by_cases hd : IsDir fs .ws
    · rw [exec_isdir_T hd]
      exact ⟨hfs, Guar.refl _ _, by simpa only [resume, hph, resumeProj] using ainv_finish hf hd hnt⟩
    · rw [exec_isdir_F hd]
      exact ⟨hfs, Guar.refl _ _, by simpa only [resume, hph, resumeProj] using hgo .mkdir trivial⟩
  · -- mkdir
    simp only [next, hph, Option.some.injEq] at hn; subst hn
    cases hg : fs.get .ws with
    | some n =>
      rw [exec_mkdir_some hg]
      exact ⟨hfs, Guar.refl _ _, by simpa only [resume, hph, resumeProj] using hgo .isdir3 (ws_node hfs hg)⟩
    | none =>
      have hp : parentOk fs .ws = true := by simp [parentOk, Path.parent]
      rw [exec_mkdir_none hg hp]
      have hok : NodeOk hash .ws (.dir : Node SP DV) := rfl
      refine ⟨fsinv_set hfs hok hp, guar_set hfs a hok (by intro i k b h; cases h), ?_⟩
      simp only [resume, hph, resumeProj]
      exact ainv_finish hf (by simp [IsDir, get_set]) (noTmp_set hnt _ (by intro i k b h; cases h))
  · -- isdir3
    simp only [next, hph, Option.some.injEq] at hn; subst hn
    have hd : IsDir fs .ws := by simpa [hph, PhaseInv] using hinv.phase
    rw [exec_isdir_T hd]
    exact ⟨hfs, Guar.refl _ _, by simpa only [resume, hph, resumeProj] using ainv_finish hf hd hnt⟩
theorem step_lite {fs : FS SP DV} {a : Nat} {st : AState SP DV} {v : SP} {ins : Instr SP DV}
    (hfs : FsInv hash fs) (hinv : AInv hash fs a st) (hph : st.phase = .lite v)
    (hn : next hash a st = some ins) : StepOk hash fs a st ins := by
  have hnt : NoTmp fs a := hinv.noTmp (by intro i k; simp [hph, tmpPhase])
  have hf := hinv.noFail
  have hws : IsDir fs .ws := hinv.ws (by simp [hph, isProj])
  have hhead : docHead st.script = true := by simpa [hph, headFits] using hinv.head
  unfold StepOk
  simp only [next, hph, Option.some.injEq] at hn; subst hn
  by_cases hd : IsDir fs (.jobdir (hash v))
  · rw [exec_isdir_T hd]
    refine ⟨hfs, Guar.refl _ _, ?_⟩
    simp only [resume, hph]
    exact ainv_docStart hf hws hnt hd hhead
  · rw [exec_isdir_F hd]
    refine ⟨hfs, Guar.refl _ _, ?_⟩
    simp only [resume, hph]
    exact ainv_of_noTmp hf (fun _ => hws) trivial hnt (by simp [AState.goto, headFits])

theorem parent_dir {fs : FS SP DV} (hfs : FsInv hash fs) {p q : Path} {n : Node SP DV}
    (h : fs.get p = some n) (hq : p.parent = some q) : IsDir fs q :=
  (parentOk_iff fs p).1 (hfs.par _ _ h) q hq

theorem step_ini {fs : FS SP DV} {a : Nat} {st : AState SP DV} {n : IniPc} {v : SP} {ins : Instr SP DV}
    (hfs : FsInv hash fs) (hinv : AInv hash fs a st) (hph : st.phase = .ini n v)
    (hn : next hash a st = some ins) : StepOk hash fs a st ins := by
  have hnt : NoTmp fs a := hinv.noTmp (by intro i k; simp [hph, tmpPhase])
  have hf := hinv.noFail
  have hws : IsDir fs .ws := hinv.ws (by simp [hph, isProj])
  have hgo : ∀ ph, PhaseInv hash fs a ph → (∀ s, headFits ph s = true) → AInv hash fs a (st.goto ph) :=
    fun ph hm hw => ainv_of_noTmp hf (fun _ => hws) hm hnt (by simp [AState.goto, hw])
  -- reading the state point file: complete and hashing to the directory, or absent
  have hload : ∀ c, fs.get (.file (hash v) .sp) = some (.file c) →
      AInv hash fs a (resumeIni hash st .load1 v (.data c)) ∧
      AInv hash fs a (resumeIni hash st .load2 v (.data c)) := by
    intro c hc
    obtain ⟨c', hc', hg⟩ := hfs.fileT hc
    cases hc'
    have hjd : IsDir fs (.jobdir (hash v)) := parent_dir hfs hc rfl
    cases c with
    | spc w =>
      simp only [GoodC] at hg
      simp only [resumeIni, hg, if_true]
      exact ⟨ainv_afterInit hf hws hnt hjd, ainv_afterInit hf hws hnt hjd⟩
    | torn => simp [GoodC] at hg
    | docc d => simp [GoodC] at hg
  unfold StepOk
  cases n
  · -- load1
    simp only [next, hph, Option.some.injEq] at hn; subst hn
    cases hg : fs.get (.file (hash v) .sp) with
    | none =>
      rw [exec_read_none hg]
      exact ⟨hfs, Guar.refl _ _, by simpa only [resume, hph, resumeIni] using hgo (.ini .isdir v) trivial (fun _ => rfl)⟩
    | some nd =>
      obtain ⟨c, rfl, _⟩ := hfs.fileT hg
      rw [exec_read_file hg]
      exact ⟨hfs, Guar.refl _ _, by simpa only [resume, hph] using (hload c hg).1⟩
  · -- isdir
    simp only [next, hph, Option.some.injEq] at hn; subst hn
    by_cases hd : IsDir fs (.jobdir (hash v))
    · rw [exec_isdir_T hd]
      exact ⟨hfs, Guar.refl _ _, by simpa only [resume, hph, resumeIni] using hgo (.ini .isfile v) hd (fun _ => rfl)⟩
    · rw [exec_isdir_F hd]
      exact ⟨hfs, Guar.refl _ _, by simpa only [resume, hph, resumeIni] using hgo (.ini .existsWs v) trivial (fun _ => rfl)⟩
  · -- existsWs
    simp only [next, hph, Option.some.injEq] at hn; subst hn
    rw [exec_exists_T hws]
    exact ⟨hfs, Guar.refl _ _, by simpa only [resume, hph, resumeIni] using hgo (.ini .mkdir v) trivial (fun _ => rfl)⟩
  · -- mkdir
    simp only [next, hph, Option.some.injEq] at hn; subst hn
    cases hg : fs.get (.jobdir (hash v)) with
    | some nd =>
      rw [exec_mkdir_some hg]
      exact ⟨hfs, Guar.refl _ _, by simpa only [resume, hph, resumeIni] using (hgo (.ini .isdir2 v) (jd_node hfs hg) (fun _ => rfl))⟩
    | none =>
      have hp : parentOk fs (.jobdir (hash v)) = true := by
        rw [parentOk_iff]; intro q hq; cases hq; exact hws
      rw [exec_mkdir_none hg hp]
      have hok : NodeOk hash (.jobdir (hash v)) (.dir : Node SP DV) := rfl
      have hG := guar_set hfs a hok (by intro i k b h; cases h)
      refine ⟨fsinv_set hfs hok hp, hG, ?_⟩
      simp only [resume, hph, resumeIni]
      exact ainv_of_noTmp hf (fun _ => hG.dirs _ hws) (by simp [AState.goto, PhaseInv, IsDir, get_set])
        (noTmp_set hnt _ (by intro i k b h; cases h)) (by simp [AState.goto, headFits])
  · -- isdir2
    simp only [next, hph, Option.some.injEq] at hn; subst hn
    have hd : IsDir fs (.jobdir (hash v)) := by simpa [hph, PhaseInv] using hinv.phase
    rw [exec_isdir_T hd]
    exact ⟨hfs, Guar.refl _ _, by simpa only [resume, hph, resumeIni] using hgo (.ini .isfile v) hd (fun _ => rfl)⟩
  · -- isfile
    simp only [next, hph, Option.some.injEq] at hn; subst hn
    have hd : IsDir fs (.jobdir (hash v)) := by simpa [hph, PhaseInv] using hinv.phase
    by_cases hfile : IsFile fs (.file (hash v) .sp)
    · rw [exec_isfile_T hfile]
      exact ⟨hfs, Guar.refl _ _, by simpa only [resume, hph, resumeIni] using hgo (.ini .load2 v) hfile (fun _ => rfl)⟩
    · rw [exec_isfile_F hfile]
      exact ⟨hfs, Guar.refl _ _, by simpa only [resume, hph, resumeIni] using (hgo (.save .openw (hash v) .sp (.spc v)) ⟨hd, rfl⟩ (fun _ => rfl))⟩
  · -- load2
    simp only [next, hph, Option.some.injEq] at hn; subst hn
    obtain ⟨c, hc⟩ : IsFile fs (.file (hash v) .sp) := by simpa [hph, PhaseInv] using hinv.phase
    rw [exec_read_file hc]
    exact ⟨hfs, Guar.refl _ _, by simpa only [resume, hph] using (hload c hc).2⟩

theorem tmp_not_dir {fs : FS SP DV} (hfs : FsInv hash fs) (i : JobId) (k : Kind) (a : Nat) :
    ¬ IsDir fs (.tmp i k a) := by
  intro h; have := hfs.ok _ _ h; simp [NodeOk] at this

theorem file_not_dir {fs : FS SP DV} (hfs : FsInv hash fs) (i : JobId) (k : Kind) :
    ¬ IsDir fs (.file i k) := by
  intro h; have := hfs.ok _ _ h; simp [NodeOk] at this

theorem step_save {fs : FS SP DV} {a : Nat} {st : AState SP DV} {n : SavePc} {i : JobId} {k : Kind}
    {c : Content SP DV} {ins : Instr SP DV}
    (hfs : FsInv hash fs) (hinv : AInv hash fs a st) (hph : st.phase = .save n i k c)
    (hn : next hash a st = some ins) : StepOk hash fs a st ins := by
  have hf := hinv.noFail
  have hws : IsDir fs .ws := hinv.ws (by simp [hph, isProj])
  -- the only temp file of this actor is the one of the save in progress
  have hother : ∀ j k', (j, k') ≠ (i, k) → fs.get (.tmp j k' a) = none := by
    intro j k' hne
    cases hg : fs.get (.tmp j k' a) with
    | none => rfl
    | some nd =>
      have := hinv.own j k' (by simp [hg])
      rw [hph] at this
      cases n <;> simp_all [tmpPhase]
  unfold StepOk
  cases n
  · -- openw
    simp only [next, hph, Option.some.injEq] at hn; subst hn
    obtain ⟨hd, hgood⟩ : IsDir fs (.jobdir i) ∧ GoodC hash i k c := by simpa [hph, PhaseInv] using hinv.phase
    have hp : parentOk fs (.tmp i k a) = true := by
      rw [parentOk_iff]; intro q hq; cases hq; exact hd
    rw [exec_openw (tmp_not_dir hfs i k a) hp]
    have hok : NodeOk hash (.tmp i k a) (.file .torn : Node SP DV) := ⟨_, rfl, Or.inl rfl⟩
    have hG := guar_set hfs a hok (by intro _ _ b h; cases h; rfl)
    refine ⟨fsinv_set hfs hok hp, hG, ?_⟩
    simp only [resume, hph, resumeSave]
    refine ⟨hf, fun _ => hG.dirs _ hws, ?_, ?_, by simp [AState.goto, headFits]⟩
    · exact ⟨⟨.torn, by simp [get_set]⟩, hgood⟩
    · intro j k' hne
      simp only [AState.goto, tmpPhase]
      by_cases he : (j, k') = (i, k)
      · cases he; exact ⟨rfl, rfl⟩
      · have : fs.get (.tmp j k' a) = none := hother j k' he
        simp only [get_set] at hne
        split at hne
        · rename_i h; cases h; exact absurd rfl he
        · exact absurd this hne
  · -- write
    simp only [next, hph, Option.some.injEq] at hn; subst hn
    obtain ⟨hfile, hgood⟩ : IsFile fs (.tmp i k a) ∧ GoodC hash i k c := by simpa [hph, PhaseInv] using hinv.phase
    obtain ⟨c0, hc0⟩ := hfile
    have hp : parentOk fs (.tmp i k a) = true := hfs.par _ _ hc0
    rw [exec_write ⟨c0, hc0⟩]
    have hok : NodeOk hash (.tmp i k a) (.file c : Node SP DV) := ⟨_, rfl, Or.inr hgood⟩
    have hG := guar_set hfs a hok (by intro _ _ b h; cases h; rfl)
    refine ⟨fsinv_set hfs hok hp, hG, ?_⟩
    simp only [resume, hph, resumeSave]
    refine ⟨hf, fun _ => hG.dirs _ hws, ?_, ?_, by simp [AState.goto, headFits]⟩
    · exact ⟨by simp [get_set], hgood⟩
    · intro j k' hne
      simp only [AState.goto, tmpPhase]
      by_cases he : (j, k') = (i, k)
      · cases he; exact ⟨rfl, rfl⟩
      · have : fs.get (.tmp j k' a) = none := hother j k' he
        simp only [get_set] at hne
        split at hne
        · rename_i h; cases h; exact absurd rfl he
        · exact absurd this hne
  · -- close
    simp only [next, hph, Option.some.injEq] at hn; subst hn
    have hpi : fs.get (.tmp i k a) = some (.file c) ∧ GoodC hash i k c := by simpa [hph, PhaseInv] using hinv.phase
    rw [exec_close]
    refine ⟨hfs, Guar.refl _ _, ?_⟩
    simp only [resume, hph, resumeSave]
    refine ⟨hf, fun _ => hws, hpi, ?_, by simp [AState.goto, headFits]⟩
    intro j k' hne
    have := hinv.own j k' hne
    rw [hph] at this
    simpa [AState.goto, tmpPhase] using this
  · -- rename
    simp only [next, hph, Option.some.injEq] at hn; subst hn
    obtain ⟨hc, hgood⟩ : fs.get (.tmp i k a) = some (.file c) ∧ GoodC hash i k c := by
      simpa [hph, PhaseInv] using hinv.phase
    have hjd : IsDir fs (.jobdir i) := parent_dir hfs hc rfl
    have hp : parentOk fs (.file i k) = true := by
      rw [parentOk_iff]; intro q hq; cases hq; exact hjd
    rw [exec_rename hc (file_not_dir hfs i k) hp]
    have hG1 := guar_del_tmp hfs i k a
    have hfs1 := fsinv_del_tmp hfs i k a
    have hp1 : parentOk (fs.del (.tmp i k a)) (.file i k) = true := by
      rw [parentOk_iff]; intro q hq; cases hq; exact hG1.dirs _ hjd
    have hok : NodeOk hash (.file i k) (.file c : Node SP DV) := ⟨_, rfl, hgood⟩
    have hG2 := guar_set hfs1 a hok (by intro _ _ b h; cases h)
    have hG := hG1.trans hG2
    refine ⟨fsinv_set hfs1 hok hp1, hG, ?_⟩
    have hnt : NoTmp ((fs.del (.tmp i k a)).set (.file i k) (.file c)) a := by
      intro j k'
      simp only [get_set, get_del]
      split
      · rename_i h; cases h
      · split
        · rfl
        · rename_i h
          exact hother j k' (by intro e; cases e; exact h rfl)
    simp only [resume, hph, resumeSave]
    cases k with
    | sp =>
      cases c with
      | spc v =>
        simp only [GoodC] at hgood
        subst hgood
        exact ainv_of_noTmp hf (fun _ => hG.dirs _ hws) ⟨.spc v, by simp [get_set]⟩ hnt
          (by simp [AState.goto, headFits])
      | torn => simp [GoodC] at hgood
      | docc d => simp [GoodC] at hgood
    | doc => exact ainv_finish hf (hG.dirs _ hws) hnt

theorem step_dload {fs : FS SP DV} {a : Nat} {st : AState SP DV} {v : SP} {ins : Instr SP DV}
    (hfs : FsInv hash fs) (hinv : AInv hash fs a st) (hph : st.phase = .dload v)
    (hn : next hash a st = some ins) : StepOk hash fs a st ins := by
  have hnt : NoTmp fs a := hinv.noTmp (by intro i k; simp [hph, tmpPhase])
  have hf := hinv.noFail
  have hws : IsDir fs .ws := hinv.ws (by simp [hph, isProj])
  have hhead : loadHead st.script = true := by simpa [hph, headFits] using hinv.head
  have hd : IsDir fs (.jobdir (hash v)) := by simpa [hph, PhaseInv] using hinv.phase
  have hres : ∀ d, AInv hash fs a (resumeDload hash st v d) := by
    intro d
    unfold resumeDload
    split
    · exact ainv_of_noTmp hf (fun _ => hws) ⟨hd, trivial⟩ hnt (by simp [AState.goto, headFits])
    · exact ainv_finish hf hws hnt
    · rename_i h1 h2
      cases hs : st.script with
      | nil => simp [hs, loadHead] at hhead
      | cons op rest =>
        cases op with
        | docSet w k x => exact absurd hs (h1 w k x rest)
        | docGet w => exact absurd hs (h2 w rest)
        | _ => simp [hs, loadHead] at hhead
  unfold StepOk
  simp only [next, hph, Option.some.injEq] at hn; subst hn
  cases hg : fs.get (.file (hash v) .doc) with
  | none =>
    rw [exec_read_none hg]
    exact ⟨hfs, Guar.refl _ _, by simpa only [resume, hph] using hres []⟩
  | some nd =>
    obtain ⟨c, rfl, hgood⟩ := hfs.fileT hg
    rw [exec_read_file hg]
    refine ⟨hfs, Guar.refl _ _, ?_⟩
    cases c with
    | docc d => simpa only [resume, hph] using hres d
    | torn => simp [GoodC] at hgood
    | spc w => simp [GoodC] at hgood

theorem step_len {fs : FS SP DV} {a : Nat} {st : AState SP DV} {ins : Instr SP DV}
    (hfs : FsInv hash fs) (hinv : AInv hash fs a st) (hph : st.phase = .len)
    (hn : next hash a st = some ins) : StepOk hash fs a st ins := by
  have hnt : NoTmp fs a := hinv.noTmp (by intro i k; simp [hph, tmpPhase])
  have hws : IsDir fs .ws := hinv.ws (by simp [hph, isProj])
  unfold StepOk
  simp only [next, hph, Option.some.injEq] at hn; subst hn
  rw [exec_listdir hws]
  refine ⟨hfs, Guar.refl _ _, ?_⟩
  simp only [resume, hph]
  exact ainv_finish hinv.noFail hws hnt

/-- Own step: the file-system invariant, the guarantee to the others and the actor's own
    invariant (in particular: no exception) hold again afterwards. -/
theorem step_own {fs : FS SP DV} {a : Nat} {st : AState SP DV} {ins : Instr SP DV}
    (hfs : FsInv hash fs) (hinv : AInv hash fs a st) (hn : next hash a st = some ins) :
    StepOk hash fs a st ins := by
  cases hph : st.phase with
  | fin => simp [next, hph] at hn
  | proj n => exact step_proj hfs hinv hph hn
  | lite v => exact step_lite hfs hinv hph hn
  | ini n v => exact step_ini hfs hinv hph hn
  | save n i k c => exact step_save hfs hinv hph hn
  | dload v => exact step_dload hfs hinv hph hn
  | len => exact step_len hfs hinv hph hn


/-! ### the whole system -/

/-- Invariant of the system: the file system is well-shaped, every actor satisfies its own
    invariant (no exception so far, what it relies on is there), temp files belong to actors. -/
structure SysInv (hash : SP → JobId) (s : Sys SP DV) : Prop where
  fs : FsInv hash s.fs
  actors : ∀ a st, s.actors[a]? = some st → AInv hash s.fs a st
  owned : ∀ i k a, s.fs.get (.tmp i k a) ≠ none → a < s.actors.length

theorem sysStep_eq {s : Sys SP DV} {a : Nat} {st : AState SP DV} {ins : Instr SP DV}
    (hst : s.actors[a]? = some st) (hn : next hash a st = some ins) :
    sysStep hash s a = { fs := (exec s.fs ins).1,
                         actors := s.actors.set a (resume hash st (exec s.fs ins).2) } := by
  simp only [sysStep, hst, hn]

theorem sysStep_idle_none {s : Sys SP DV} {a : Nat} (hst : s.actors[a]? = none) :
    sysStep hash s a = s := by simp only [sysStep, hst]

theorem sysStep_idle_fin {s : Sys SP DV} {a : Nat} {st : AState SP DV}
    (hst : s.actors[a]? = some st) (hn : next hash a st = none) : sysStep hash s a = s := by
  simp only [sysStep, hst, hn]

/-- every step of every actor preserves the invariant and guarantees `Guar` to the others -/
theorem sysStep_inv_guar {s : Sys SP DV} (h : SysInv hash s) (a : Nat) :
    SysInv hash (sysStep hash s a) ∧ Guar a s.fs (sysStep hash s a).fs := by
  cases hst : s.actors[a]? with
  | none => rw [sysStep_idle_none hst]; exact ⟨h, Guar.refl _ _⟩
  | some st =>
    cases hn : next hash a st with
    | none => rw [sysStep_idle_fin hst hn]; exact ⟨h, Guar.refl _ _⟩
    | some ins =>
      rw [sysStep_eq hst hn]
      obtain ⟨h1, h2, h3⟩ := step_own h.fs (h.actors a st hst) hn
      have halt : a < s.actors.length := by
        have := List.getElem?_eq_some_iff.1 hst
        exact this.1
      refine ⟨⟨h1, ?_, ?_⟩, h2⟩
      · intro b st' hb
        simp only [List.getElem?_set] at hb
        split at hb
        · rename_i hab
          subst hab
          simp only [halt, if_true, Option.some.injEq] at hb
          subst hb; exact h3
        · rename_i hab
          exact (h.actors b st' hb).stable (fun e => hab e.symm) h2
      · intro i k b hne
        simp only [List.length_set]
        by_cases hab : b = a
        · subst hab; exact halt
        · rw [h2.tmps i k b hab] at hne
          exact h.owned i k b hne

theorem run_inv {s : Sys SP DV} (h : SysInv hash s) (sched : List Nat) :
    SysInv hash (run hash s sched) := by
  induction sched generalizing s with
  | nil => exact h
  | cons a rest ih => exact ih (sysStep_inv_guar h a).1

/-- valid initial configurations: a well-shaped file system without temp files, every actor
    about to run `Project()` followed by an arbitrary script -/
theorem initial_inv {fs : FS SP DV} (hfs : FsInv hash fs) (hnt : ∀ i k a, fs.get (.tmp i k a) = none)
    (scripts : List (List (Op SP DV))) :
    SysInv hash { fs := fs, actors := scripts.map AState.start } := by
  refine ⟨hfs, ?_, fun i k a hne => absurd (hnt i k a) hne⟩
  intro a st hst
  simp only [List.getElem?_map] at hst
  cases hs : scripts[a]? with
  | none => simp [hs] at hst
  | some sc =>
    simp only [hs, Option.map_some, Option.some.injEq] at hst
    subst hst
    exact ainv_of_noTmp rfl (by simp [AState.start, isProj]) trivial (fun i k => hnt i k a)
      (by simp [AState.start, headFits])

/-- published files and directories are never removed, by anybody, in any schedule -/
theorem run_monotone {s : Sys SP DV} (h : SysInv hash s) (sched : List Nat) :
    (∀ p, IsDir s.fs p → IsDir (run hash s sched).fs p) ∧
    (∀ i k, IsFile s.fs (.file i k) → IsFile (run hash s sched).fs (.file i k)) := by
  induction sched generalizing s with
  | nil => exact ⟨fun _ h => h, fun _ _ h => h⟩
  | cons a rest ih =>
    obtain ⟨h1, g⟩ := sysStep_inv_guar h a
    obtain ⟨i1, i2⟩ := ih h1
    exact ⟨fun p hp => i1 p (g.dirs p hp), fun i k hf => i2 i k (g.files i k hf)⟩

end Signac.Conc

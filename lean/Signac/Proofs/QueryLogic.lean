/-
  Helper lemmas for C06, layer 2: the set algebra of `_find_result` (intersection of atom
  results, complement for `$not`, `$and`, `$or`, early exits) computes exactly the jobs the
  structural evaluator `evalRef` accepts — given that every atom's index lookup is exact
  (`AtomExact`, proved in Proofs/QueryIndex.lean).  Core only.
-/
import Signac.Query
namespace Signac.Query
open Signac

/-- `r` holds exactly the ids of the documents satisfying `p` -/
def Sel (docs : List (JobId × JVal)) (p : JVal → Prop) (r : List JobId) : Prop :=
  ∀ i, i ∈ r ↔ ∃ d, (i, d) ∈ docs ∧ p d

theorem mem_allIds {docs : List (JobId × JVal)} {i : JobId} :
    i ∈ allIds docs ↔ ∃ d, (i, d) ∈ docs := by
  simp only [allIds, List.mem_map]
  constructor
  · rintro ⟨⟨j, d⟩, h, rfl⟩; exact ⟨d, h⟩
  · rintro ⟨d, h⟩; exact ⟨(i, d), h, rfl⟩

theorem mem_interIds {a b : List JobId} {i : JobId} : i ∈ interIds a b ↔ i ∈ a ∧ i ∈ b := by
  simp [interIds, List.mem_filter]

theorem mem_diffIds {a b : List JobId} {i : JobId} : i ∈ diffIds a b ↔ i ∈ a ∧ i ∉ b := by
  simp [diffIds, List.mem_filter]

theorem sel_all (docs : List (JobId × JVal)) : Sel docs (fun _ => True) (allIds docs) := by
  intro i; rw [mem_allIds]; simp

/-- every id belongs to one document -/
def UniqueIds (docs : List (JobId × JVal)) : Prop :=
  ∀ i d d', (i, d) ∈ docs → (i, d') ∈ docs → d = d'

/-- what the accumulator `result_ids` of `_find_result` stands for: `none` = nothing reduced yet -/
def AccInv (docs : List (JobId × JVal)) (acc : Option (List JobId)) (q : JVal → Prop) : Prop :=
  match acc with
  | none => ∀ d, q d
  | some r => Sel docs q r

theorem stepE_spec {docs : List (JobId × JVal)} (hu : UniqueIds docs)
    {acc : Option (List JobId)} {q p : JVal → Prop} {r : Except Err (List JobId)}
    (hacc : AccInv docs acc q)
    (hr : acc ≠ some [] → ∃ m, r = .ok m ∧ Sel docs p m) :
    ∃ r', stepE acc r = .ok (some r') ∧ Sel docs (fun d => q d ∧ p d) r' := by
  cases acc with
  | none =>
    obtain ⟨m, rfl, hm⟩ := hr (by simp)
    refine ⟨m, rfl, ?_⟩
    intro i
    rw [hm i]
    constructor
    · rintro ⟨d, hd, hp⟩; exact ⟨d, hd, hacc d, hp⟩
    · rintro ⟨d, hd, _, hp⟩; exact ⟨d, hd, hp⟩
  | some l =>
    cases l with
    | nil =>
      refine ⟨[], rfl, ?_⟩
      intro i
      constructor
      · intro h; cases h
      · rintro ⟨d, hd, hq, _⟩
        exact (hacc i).mpr ⟨d, hd, hq⟩
    | cons x xs =>
      obtain ⟨m, rfl, hm⟩ := hr (by simp)
      refine ⟨interIds (x :: xs) m, rfl, ?_⟩
      intro i
      rw [mem_interIds, hacc i, hm i]
      constructor
      · rintro ⟨⟨d, hd, hq⟩, ⟨d', hd', hp⟩⟩
        have : d = d' := hu i d d' hd hd'
        subst this
        exact ⟨d, hd, hq, hp⟩
      · rintro ⟨d, hd, hq, hp⟩
        exact ⟨⟨d, hd, hq⟩, ⟨d, hd, hp⟩⟩

/-- the index lookup for one flattened atom is exact -/
def AtomGood (P : Params) (docs : List (JobId × JVal)) (k : String) (v : JVal) : Prop :=
  ∃ m, findExpression P docs k v = .ok m ∧ Sel docs (fun d => evalAtom P d k v = .ok true) m

theorem evalAtoms_true {P : Params} {d : JVal} {l : List (String × JVal)} :
    evalAtoms P d l = .ok true ↔ ∀ kv ∈ l, evalAtom P d kv.1 kv.2 = .ok true := by
  induction l with
  | nil => simp [evalAtoms]
  | cons kv rest ih =>
    obtain ⟨k, v⟩ := kv
    simp only [evalAtoms, List.mem_cons, forall_eq_or_imp]
    cases h1 : evalAtom P d k v with
    | error e => simp
    | ok b =>
      cases h2 : evalAtoms P d rest with
      | error e =>
        simp only [reduceCtorEq, false_iff, not_and]
        intro _ h
        rw [ih.mpr h] at h2
        cases h2
      | ok r =>
        rw [h2] at ih
        simp only [Except.ok.injEq, Bool.and_eq_true]
        rw [← ih]
        simp

theorem findAtoms_spec {P : Params} {docs : List (JobId × JVal)} (hu : UniqueIds docs)
    (l : List (String × JVal)) :
    ∀ (acc : Option (List JobId)) (q : JVal → Prop),
      (∀ kv ∈ l, AtomGood P docs kv.1 kv.2) → AccInv docs acc q →
      ∃ acc', findAtoms P docs acc l = .ok acc'
        ∧ AccInv docs acc' (fun d => q d ∧ ∀ kv ∈ l, evalAtom P d kv.1 kv.2 = .ok true)
        ∧ (acc' = none → acc = none ∧ l = []) := by
  induction l with
  | nil =>
    intro acc q _ hacc
    refine ⟨acc, rfl, ?_, fun h => ⟨h, rfl⟩⟩
    cases acc with
    | none => intro d; exact ⟨hacc d, by simp⟩
    | some r =>
      intro i; rw [hacc i]
      constructor
      · rintro ⟨d, hd, hq⟩; exact ⟨d, hd, hq, by simp⟩
      · rintro ⟨d, hd, hq, _⟩; exact ⟨d, hd, hq⟩
  | cons kv rest ih =>
    intro acc q hg hacc
    obtain ⟨k, v⟩ := kv
    have hkv : AtomGood P docs k v := hg (k, v) (by simp)
    obtain ⟨m, hm, hsel⟩ := hkv
    obtain ⟨r', hstep, hsel'⟩ := stepE_spec hu (r := findExpression P docs k v) hacc (fun _ => ⟨m, hm, hsel⟩)
    have hrest : ∀ kv ∈ rest, AtomGood P docs kv.1 kv.2 := fun kv h => hg kv (by simp [h])
    obtain ⟨acc', h1, h2, h3⟩ := ih (some r') _ hrest hsel'
    refine ⟨acc', ?_, ?_, ?_⟩
    · simp only [findAtoms, hstep, h1]
    · cases acc' with
      | none => exact absurd (h3 rfl).1 (by simp)
      | some r2 =>
        intro i; rw [h2 i]
        constructor
        · rintro ⟨d, hd, ⟨hq, hp⟩, hall⟩
          refine ⟨d, hd, hq, ?_⟩
          intro kv hkv
          rcases List.mem_cons.mp hkv with rfl | h
          · exact hp
          · exact hall kv h
        · rintro ⟨d, hd, hq, hall⟩
          exact ⟨d, hd, ⟨hq, hall (k, v) (by simp)⟩, fun kv h => hall kv (by simp [h])⟩
    · intro h; exact absurd (h3 h).1 (by simp)

/-- the filter is well-typed on the corpus: direct evaluation raises for no job -/
def WT (P : Params) (docs : List (JobId × JVal)) (f : Flt) : Prop :=
  ∀ i d, (i, d) ∈ docs → ∃ b, evalRef P d f = .ok b

mutual
  /-- every atom lookup anywhere in the filter is exact, logical operators have operands, and
      every sub-filter is well-typed -/
  def Good (P : Params) (docs : List (JobId × JVal)) : Flt → Prop
    | .mk atoms n a o =>
      (∀ kv ∈ flatten atoms, AtomGood P docs kv.1 kv.2) ∧ GoodOpt P docs n
        ∧ GoodOptList P docs a ∧ GoodOptList P docs o
  def GoodOpt (P : Params) (docs : List (JobId × JVal)) : Option Flt → Prop
    | none => True
    | some f => WT P docs f ∧ Good P docs f
  def GoodOptList (P : Params) (docs : List (JobId × JVal)) : Option (List Flt) → Prop
    | none => True
    | some fs => fs ≠ [] ∧ GoodList P docs fs
  def GoodList (P : Params) (docs : List (JobId × JVal)) : List Flt → Prop
    | [] => True
    | f :: fs => WT P docs f ∧ Good P docs f ∧ GoodList P docs fs
end

theorem evalNot_true {P : Params} {d : JVal} {f : Flt} :
    evalNot P d (some f) = .ok true ↔ evalRef P d f = .ok false := by
  simp only [evalNot]
  cases evalRef P d f with
  | error e => simp
  | ok b => cases b <;> simp

theorem evalAll_true {P : Params} {d : JVal} {fs : List Flt} :
    evalAll P d fs = .ok true ↔ ∀ f ∈ fs, evalRef P d f = .ok true := by
  induction fs with
  | nil => simp [evalAll]
  | cons f rest ih =>
    simp only [evalAll, List.mem_cons, forall_eq_or_imp]
    cases h1 : evalRef P d f with
    | error e => simp
    | ok b =>
      cases h2 : evalAll P d rest with
      | error e =>
        simp only [reduceCtorEq, false_iff, not_and]
        intro _ h
        rw [ih.mpr h] at h2
        cases h2
      | ok r =>
        rw [h2] at ih
        simp only [Except.ok.injEq, Bool.and_eq_true]
        rw [← ih]
        simp

/-- `evalAny` is strict: it is `ok` only if every operand is, and then it is their disjunction -/
theorem evalAny_ok {P : Params} {d : JVal} {fs : List Flt} {b : Bool} (h : evalAny P d fs = .ok b) :
    (b = true ↔ ∃ f ∈ fs, evalRef P d f = .ok true) := by
  induction fs generalizing b with
  | nil =>
    simp only [evalAny, Except.ok.injEq] at h
    subst h; simp
  | cons f rest ih =>
    simp only [evalAny] at h
    cases h1 : evalRef P d f with
    | error e => rw [h1] at h; cases h
    | ok b1 =>
      rw [h1] at h
      cases h2 : evalAny P d rest with
      | error e => rw [h2] at h; cases h
      | ok r =>
        rw [h2] at h
        simp only [Except.ok.injEq] at h
        subst h
        have := ih h2
        simp only [Bool.or_eq_true, List.mem_cons, exists_eq_or_imp]
        rw [this, h1]
        simp

theorem evalAllOpt_cons {P : Params} {d : JVal} {f : Flt} {fs : List Flt} :
    evalAllOpt P d (some (f :: fs)) = evalAll P d (f :: fs) := rfl

theorem evalAnyOpt_cons {P : Params} {d : JVal} {f : Flt} {fs : List Flt} :
    evalAnyOpt P d (some (f :: fs)) = evalAny P d (f :: fs) := rfl

/-- `evalRef` on a non-empty filter is the conjunction of its four parts -/
theorem evalRef_true {P : Params} {d : JVal} {atoms : List (String × JVal)} {n : Option Flt}
    {a o : Option (List Flt)}
    (hne : (atoms.isEmpty && n.isNone && a.isNone && o.isNone) = false) :
    evalRef P d (.mk atoms n a o) = .ok true ↔
      (evalAtoms P d (flatten atoms) = .ok true ∧ evalNot P d n = .ok true
        ∧ evalAllOpt P d a = .ok true ∧ evalAnyOpt P d o = .ok true) := by
  simp only [evalRef, hne, Bool.false_eq_true, if_false]
  cases evalAtoms P d (flatten atoms) with
  | error e => simp
  | ok b1 =>
    cases evalNot P d n with
    | error e => simp
    | ok b2 =>
      cases evalAllOpt P d a with
      | error e => simp
      | ok b3 =>
        cases evalAnyOpt P d o with
        | error e => simp
        | ok b4 => simp [Bool.and_eq_true, and_assoc]

/-- an `ok` verdict of `evalRef` means all four parts were `ok` -/
theorem evalRef_ok_parts {P : Params} {d : JVal} {atoms : List (String × JVal)} {n : Option Flt}
    {a o : Option (List Flt)} {b : Bool}
    (hne : (atoms.isEmpty && n.isNone && a.isNone && o.isNone) = false)
    (h : evalRef P d (.mk atoms n a o) = .ok b) :
    (∃ b1, evalAtoms P d (flatten atoms) = .ok b1) ∧ (∃ b2, evalNot P d n = .ok b2)
      ∧ (∃ b3, evalAllOpt P d a = .ok b3) ∧ (∃ b4, evalAnyOpt P d o = .ok b4) := by
  simp only [evalRef, hne, Bool.false_eq_true, if_false] at h
  cases h1 : evalAtoms P d (flatten atoms) with
  | error e => rw [h1] at h; cases h
  | ok b1 =>
    rw [h1] at h
    cases h2 : evalNot P d n with
    | error e => rw [h2] at h; cases h
    | ok b2 =>
      rw [h2] at h
      cases h3 : evalAllOpt P d a with
      | error e => rw [h3] at h; cases h
      | ok b3 =>
        rw [h3] at h
        cases h4 : evalAnyOpt P d o with
        | error e => rw [h4] at h; cases h
        | ok b4 => exact ⟨⟨b1, rfl⟩, ⟨b2, rfl⟩, ⟨b3, rfl⟩, ⟨b4, rfl⟩⟩

mutual
  theorem flattenVal_ne_nil : ∀ (v : JVal) (k : String), flattenVal k v ≠ []
    | .obj [], k => by simp [flattenVal]
    | .obj ((k', v') :: rest), k => by
      simp only [flattenVal, flattenKVs]
      intro h
      exact flattenVal_ne_nil v' _ (List.append_eq_nil_iff.mp h).1
    | .null, k => by simp [flattenVal]
    | .bool _, k => by simp [flattenVal]
    | .int _, k => by simp [flattenVal]
    | .flt _ _ _, k => by simp [flattenVal]
    | .str _, k => by simp [flattenVal]
    | .arr _, k => by simp [flattenVal]
end

theorem flatten_cons_ne_nil (kv : String × JVal) (rest : List (String × JVal)) :
    flatten (kv :: rest) ≠ [] := by
  obtain ⟨k, v⟩ := kv
  simp only [flatten]
  intro h
  exact flattenVal_ne_nil v k (List.append_eq_nil_iff.mp h).1

theorem accInv_congr {docs : List (JobId × JVal)} {acc : Option (List JobId)} {q q' : JVal → Prop}
    (h : ∀ d, q d ↔ q' d) (hacc : AccInv docs acc q) : AccInv docs acc q' := by
  cases acc with
  | none => intro d; exact (h d).mp (hacc d)
  | some r =>
    intro i; rw [hacc i]
    constructor
    · rintro ⟨d, hd, hq⟩; exact ⟨d, hd, (h d).mp hq⟩
    · rintro ⟨d, hd, hq⟩; exact ⟨d, hd, (h d).mpr hq⟩

/-- complement of an exact result is exact for the negation, on a well-typed filter -/
theorem sel_complement {P : Params} {docs : List (JobId × JVal)} (hu : UniqueIds docs) {f : Flt}
    (hwt : WT P docs f) {m : List JobId} (hm : Sel docs (fun d => evalRef P d f = .ok true) m) :
    Sel docs (fun d => evalNot P d (some f) = .ok true) (diffIds (allIds docs) m) := by
  intro i
  rw [mem_diffIds, mem_allIds, hm i]
  constructor
  · rintro ⟨⟨d, hd⟩, hn⟩
    refine ⟨d, hd, ?_⟩
    show evalNot P d (some f) = .ok true
    rw [evalNot_true]
    obtain ⟨b, hb⟩ := hwt i d hd
    cases b with
    | false => exact hb
    | true => exact absurd ⟨d, hd, hb⟩ hn
  · rintro ⟨d, hd, h⟩
    replace h : evalNot P d (some f) = .ok true := h
    rw [evalNot_true] at h
    refine ⟨⟨d, hd⟩, ?_⟩
    rintro ⟨d', hd', h'⟩
    have : d = d' := hu i d d' hd hd'
    subst this
    replace h' : evalRef P d f = .ok true := h'
    rw [h] at h'
    cases h'

theorem goodList_evalAny_ok {P : Params} {docs : List (JobId × JVal)} :
    ∀ {fs : List Flt}, GoodList P docs fs → ∀ i d, (i, d) ∈ docs → ∃ b, evalAny P d fs = .ok b
  | [], _, _, _, _ => ⟨false, rfl⟩
  | f :: fs, hg, i, d, hd => by
    obtain ⟨b1, h1⟩ := hg.1 i d hd
    obtain ⟨b2, h2⟩ := goodList_evalAny_ok hg.2.2 i d hd
    exact ⟨b1 || b2, by simp only [evalAny, h1, h2]⟩

mutual
  theorem findResult_spec {P : Params} {docs : List (JobId × JVal)} (hu : UniqueIds docs) :
      ∀ f : Flt, Good P docs f →
        ∃ r, findResult P docs f = .ok r ∧ Sel docs (fun d => evalRef P d f = .ok true) r
    | .mk atoms n a o, hg => by
      obtain ⟨hat, hn, ha, ho⟩ := hg
      cases hne : (atoms.isEmpty && n.isNone && a.isNone && o.isNone) with
      | true =>
        refine ⟨allIds docs, by simp only [findResult, hne, if_true], ?_⟩
        intro i
        rw [mem_allIds]
        simp only [evalRef, hne, if_true, and_true]
      | false =>
        obtain ⟨acc1, e1, i1, z1⟩ := findAtoms_spec hu (flatten atoms) none (fun _ => True) hat (fun _ => trivial)
        obtain ⟨acc2, e2, i2, z2⟩ := findNot_spec hu n acc1 _ hn i1
        obtain ⟨acc3, e3, i3, z3⟩ := findAndOpt_spec hu a acc2 _ ha i2
        obtain ⟨acc4, e4, i4, z4⟩ := findOrOpt_spec hu o acc3 _ ho i3
        cases acc4 with
        | none =>
          exfalso
          obtain ⟨h3, ho'⟩ := z4 rfl
          obtain ⟨h2, ha'⟩ := z3 h3
          obtain ⟨h1, hn'⟩ := z2 h2
          obtain ⟨_, hat'⟩ := z1 h1
          subst ho' ha' hn'
          have : atoms = [] := by
            cases atoms with
            | nil => rfl
            | cons kv rest => exact absurd hat' (flatten_cons_ne_nil kv rest)
          subst this
          simp at hne
        | some r =>
          refine ⟨r, ?_, ?_⟩
          · simp only [findResult, hne, Bool.false_eq_true, if_false, e1, e2, e3, e4]
          · intro i
            rw [i4 i]
            constructor
            · rintro ⟨d, hd, hq⟩
              refine ⟨d, hd, ?_⟩
              show evalRef P d (.mk atoms n a o) = .ok true
              rw [evalRef_true hne, evalAtoms_true]
              exact ⟨hq.1.1.1.2, hq.1.1.2, hq.1.2, hq.2⟩
            · rintro ⟨d, hd, hq⟩
              replace hq : evalRef P d (.mk atoms n a o) = .ok true := hq
              rw [evalRef_true hne, evalAtoms_true] at hq
              exact ⟨d, hd, ⟨⟨⟨trivial, hq.1⟩, hq.2.1⟩, hq.2.2.1⟩, hq.2.2.2⟩
  theorem findNot_spec {P : Params} {docs : List (JobId × JVal)} (hu : UniqueIds docs) :
      ∀ (n : Option Flt) (acc : Option (List JobId)) (q : JVal → Prop),
        GoodOpt P docs n → AccInv docs acc q →
        ∃ acc', findNot P docs acc n = .ok acc'
          ∧ AccInv docs acc' (fun d => q d ∧ evalNot P d n = .ok true)
          ∧ (acc' = none → acc = none ∧ n = none)
    | none, acc, q, _, hacc =>
      ⟨acc, rfl, accInv_congr (fun d => by simp [evalNot]) hacc, fun h => ⟨h, rfl⟩⟩
    | some f, acc, q, hg, hacc => by
      obtain ⟨hwt, hgf⟩ := hg
      obtain ⟨m, hm, hsel⟩ := findResult_spec hu f hgf
      have hc : complementE (allIds docs) (findResult P docs f) = .ok (diffIds (allIds docs) m) := by
        rw [hm]; rfl
      obtain ⟨r', hstep, hsel'⟩ := stepE_spec hu (r := complementE (allIds docs) (findResult P docs f))
        hacc (fun _ => ⟨_, hc, sel_complement hu hwt hsel⟩)
      exact ⟨some r', by simp only [findNot, hstep], hsel', fun h => by cases h⟩
  theorem findAndOpt_spec {P : Params} {docs : List (JobId × JVal)} (hu : UniqueIds docs) :
      ∀ (a : Option (List Flt)) (acc : Option (List JobId)) (q : JVal → Prop),
        GoodOptList P docs a → AccInv docs acc q →
        ∃ acc', findAndOpt P docs acc a = .ok acc'
          ∧ AccInv docs acc' (fun d => q d ∧ evalAllOpt P d a = .ok true)
          ∧ (acc' = none → acc = none ∧ a = none)
    | none, acc, q, _, hacc =>
      ⟨acc, rfl, accInv_congr (fun d => by simp [evalAllOpt]) hacc, fun h => ⟨h, rfl⟩⟩
    | some [], _, _, hg, _ => absurd rfl hg.1
    | some (f :: fs), acc, q, hg, hacc => by
      obtain ⟨acc', e, i, z⟩ := findAnd_spec hu (f :: fs) acc q hg.2 hacc
      refine ⟨acc', ?_, i, fun h => by have := (z h).2; cases this⟩
      cases acc with
      | none => simp only [findAndOpt, e]
      | some l =>
        cases l with
        | nil =>
          -- early exit: `findAnd` on an empty accumulator returns it unchanged
          have : findAnd P docs (some []) (f :: fs) = .ok (some []) := by
            clear e i z hg hacc
            induction (f :: fs) with
            | nil => rfl
            | cons g gs ih => simp only [findAnd, stepE, ih]
          rw [this] at e
          simp only [findAndOpt, e]
        | cons x xs => simp only [findAndOpt, e]
  theorem findAnd_spec {P : Params} {docs : List (JobId × JVal)} (hu : UniqueIds docs) :
      ∀ (fs : List Flt) (acc : Option (List JobId)) (q : JVal → Prop),
        GoodList P docs fs → AccInv docs acc q →
        ∃ acc', findAnd P docs acc fs = .ok acc'
          ∧ AccInv docs acc' (fun d => q d ∧ evalAll P d fs = .ok true)
          ∧ (acc' = none → acc = none ∧ fs = [])
    | [], acc, q, _, hacc =>
      ⟨acc, rfl, accInv_congr (fun d => by simp [evalAll]) hacc, fun h => ⟨h, rfl⟩⟩
    | f :: fs, acc, q, hg, hacc => by
      obtain ⟨_, hgf, hgs⟩ := hg
      obtain ⟨m, hm, hsel⟩ := findResult_spec hu f hgf
      obtain ⟨r', hstep, hsel'⟩ := stepE_spec hu (r := findResult P docs f) hacc (fun _ => ⟨m, hm, hsel⟩)
      obtain ⟨acc', e, i, z⟩ := findAnd_spec hu fs (some r') _ hgs hsel'
      refine ⟨acc', by simp only [findAnd, hstep, e], ?_, fun h => by have := (z h).1; cases this⟩
      refine accInv_congr (fun d => ?_) i
      rw [evalAll_true, evalAll_true]
      simp only [List.mem_cons, forall_eq_or_imp, and_assoc]
  theorem findOrOpt_spec {P : Params} {docs : List (JobId × JVal)} (hu : UniqueIds docs) :
      ∀ (o : Option (List Flt)) (acc : Option (List JobId)) (q : JVal → Prop),
        GoodOptList P docs o → AccInv docs acc q →
        ∃ acc', findOrOpt P docs acc o = .ok acc'
          ∧ AccInv docs acc' (fun d => q d ∧ evalAnyOpt P d o = .ok true)
          ∧ (acc' = none → acc = none ∧ o = none)
    | none, acc, q, _, hacc =>
      ⟨acc, rfl, accInv_congr (fun d => by simp [evalAnyOpt]) hacc, fun h => ⟨h, rfl⟩⟩
    | some [], _, _, hg, _ => absurd rfl hg.1
    | some (f :: fs), acc, q, hg, hacc => by
      obtain ⟨m, hm, hsel⟩ := findOr_spec hu (f :: fs) hg.2
      obtain ⟨r', hstep, hsel'⟩ := stepE_spec hu (r := findOr P docs (f :: fs)) hacc (fun _ => ⟨m, hm, hsel⟩)
      refine ⟨some r', ?_, hsel', fun h => by cases h⟩
      cases acc with
      | none =>
        simp only [stepE, hm] at hstep
        simp only [findOrOpt, hm, hstep]
      | some l =>
        cases l with
        | nil =>
          simp only [stepE] at hstep
          simp only [findOrOpt, hstep]
        | cons x xs =>
          simp only [stepE, hm] at hstep
          simp only [findOrOpt, hm, hstep]
  /-- the union of the operands' results is exact for `evalAny`, given that the disjunction is
      well-typed for every job (`evalAny` is strict) -/
  theorem findOr_spec {P : Params} {docs : List (JobId × JVal)} (hu : UniqueIds docs) :
      ∀ (fs : List Flt), GoodList P docs fs →
        ∃ m, findOr P docs fs = .ok m ∧ Sel docs (fun d => evalAny P d fs = .ok true) m
    | [], _ => ⟨[], rfl, fun i => by simp [evalAny]⟩
    | f :: fs, hg => by
      obtain ⟨hwt, hgf, hgs⟩ := hg
      obtain ⟨m, hm, hsel⟩ := findResult_spec hu f hgf
      obtain ⟨r, hr, hsel'⟩ := findOr_spec hu fs hgs
      refine ⟨m ++ r, by simp only [findOr, hm, hr], ?_⟩
      intro i
      rw [List.mem_append, hsel i, hsel' i]
      constructor
      · rintro (⟨d, hd, h⟩ | ⟨d, hd, h⟩)
        · refine ⟨d, hd, ?_⟩
          replace h : evalRef P d f = .ok true := h
          obtain ⟨b, hb⟩ := goodList_evalAny_ok hgs i d hd
          show evalAny P d (f :: fs) = .ok true
          simp only [evalAny, h, hb, Bool.true_or]
        · refine ⟨d, hd, ?_⟩
          replace h : evalAny P d fs = .ok true := h
          obtain ⟨b, hb⟩ := hwt i d hd
          show evalAny P d (f :: fs) = .ok true
          simp only [evalAny, h, hb, Bool.or_true]
      · rintro ⟨d, hd, h⟩
        replace h : evalAny P d (f :: fs) = .ok true := h
        simp only [evalAny] at h
        cases h1 : evalRef P d f with
        | error e => rw [h1] at h; cases h
        | ok b1 =>
          rw [h1] at h
          cases h2 : evalAny P d fs with
          | error e => rw [h2] at h; cases h
          | ok r1 =>
            rw [h2] at h
            simp only [Except.ok.injEq, Bool.or_eq_true] at h
            rcases h with rfl | rfl
            · exact Or.inl ⟨d, hd, h1⟩
            · exact Or.inr ⟨d, hd, h2⟩
end

end Signac.Query

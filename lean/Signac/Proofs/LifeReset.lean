/-
  `Job.reset()` = `clear(); init()` in the crash / fault model (C11), and "the job itself stays".

  Part 1 (all programs): sequencing.  `Prog.seq p q` is ONE program, so `exec` numbers its steps
    through.  `exec_seq` describes it with the accumulator of `p` handed to `q`; `exec_shift` /
    `run_seq` restate the second half as a fresh `run` of `q` under the schedule shifted by the
    number of steps `p` announced (`shiftEv`), the bookkeeping of both halves glued by `Acc.after`.
  Part 2: `clear` never removes the job directory and never touches the state-point file —
    under EVERY schedule, ENOENT injections included (`clear_keeps_sp`).
  Part 3: `reset`: the job stays and still validates (`reset_keeps`), frame (`reset_frame`),
    a consumed fault never ends in a normal return when ENOENT is not injected
    (`reset_fault_not_ok`; the proviso is needed: `reset_enoent_swallowed_cex`), a normal return is
    the event-free run (`reset_ok_event_free`) whose final state is "state point as before, payload =
    the empty document" (`reset_noEv_state`).
  Part 4: the regression `remove(); init()` loses the job when the process dies between the two
    halves (`remove_then_init_loses_cex`).
-/
import Signac.Proofs.LifeOkRun
import Signac.Proofs.LifeNoWrite
namespace Signac.Life
variable {Sp : Type}

/- ================================================================ part 1: sequencing -/

theorem exec_step_some (C : Codec Sp) (ev : Nat → Option Ev) (s : Step Sp) (k : Option Errno → Prog Sp)
    (a : Acc Sp) (w : World Sp) (e : Ev) (h : ev a.n = some e) :
    exec C ev (.step s k) a w =
      match e with
      | .crash => ⟨w, .crashed, a⟩
      | .torn t => ⟨tornApply C w s t, .crashed, a⟩
      | .fault e => exec C ev (k (some e)) (a.flt s) w := by
  rw [exec]; simp only [h]
  cases e <;> rfl

/-- the composite under `exec`: the first half, and — if it returned normally — the second half
    started from the world AND the accumulator (step count, trace, fault flag) the first left -/
theorem exec_seq (C : Codec Sp) (ev : Nat → Option Ev) (p q : Prog Sp) :
    ∀ (a : Acc Sp) (w : World Sp),
      exec C ev (p.seq q) a w =
        if (exec C ev p a w).res = .ok then exec C ev q (exec C ev p a w).acc (exec C ev p a w).w
        else exec C ev p a w := by
  induction p with
  | done r => intro a w; cases r <;> simp [Prog.seq, exec]
  | look f ih => intro a w; simp only [Prog.seq, exec]; exact ih w a w
  | step s k ih =>
    intro a w
    rw [Prog.seq]
    cases hev : ev a.n with
    | none =>
      rw [exec_step_none C ev s _ a w hev, exec_step_none C ev s k a w hev]
      cases happ : apply C w s with
      | ok w' => exact ih _ _ _
      | error e => exact ih _ _ _
    | some e =>
      rw [exec_step_some C ev s _ a w e hev, exec_step_some C ev s k a w e hev]
      cases e with
      | crash => simp
      | torn t => simp
      | fault e => exact ih _ _ _

/-- the schedule seen by a program that starts after `m` steps were announced -/
def shiftEv (m : Nat) (ev : Nat → Option Ev) : Nat → Option Ev := fun n => ev (m + n)

/-- bookkeeping `b` of a run started after the bookkeeping `a0`: step numbers add up, the trace
    (newest first) is continued, the fault flag is sticky -/
def Acc.after (a0 b : Acc Sp) : Acc Sp := ⟨a0.n + b.n, b.trace ++ a0.trace, a0.faulted || b.faulted⟩

def Outcome.after (a0 : Acc Sp) (o : Outcome Sp) : Outcome Sp := ⟨o.w, o.res, a0.after o.acc⟩

@[simp] theorem Outcome.after_w (a0 : Acc Sp) (o : Outcome Sp) : (o.after a0).w = o.w := rfl
@[simp] theorem Outcome.after_res (a0 : Acc Sp) (o : Outcome Sp) : (o.after a0).res = o.res := rfl
theorem Outcome.after_n (a0 : Acc Sp) (o : Outcome Sp) : (o.after a0).acc.n = a0.n + o.acc.n := rfl
theorem Outcome.after_trace (a0 : Acc Sp) (o : Outcome Sp) :
    (o.after a0).acc.trace = o.acc.trace ++ a0.trace := rfl
theorem Outcome.after_faulted (a0 : Acc Sp) (o : Outcome Sp) :
    (o.after a0).faulted = (a0.faulted || o.faulted) := rfl

theorem Acc.after_empty (a0 : Acc Sp) : a0.after {} = a0 := by
  cases a0; simp [Acc.after]

theorem Acc.after_ok (a0 b : Acc Sp) (s : Step Sp) : (a0.after b).ok s = a0.after (b.ok s) := by
  simp [Acc.after, Acc.ok, Nat.add_assoc]

theorem Acc.after_flt (a0 b : Acc Sp) (s : Step Sp) : (a0.after b).flt s = a0.after (b.flt s) := by
  simp [Acc.after, Acc.flt, Nat.add_assoc]

/-- a run started in the middle (accumulator `a0` + `b`) is the run under the shifted schedule,
    with `a0` put back under its bookkeeping -/
theorem exec_shift (C : Codec Sp) (ev : Nat → Option Ev) (a0 : Acc Sp) (q : Prog Sp) :
    ∀ (b : Acc Sp) (w : World Sp),
      exec C ev q (a0.after b) w = (exec C (shiftEv a0.n ev) q b w).after a0 := by
  induction q with
  | done r => intro b w; simp [exec, Outcome.after]
  | look f ih => intro b w; simp only [exec]; exact ih w b w
  | step s k ih =>
    intro b w
    cases hev : ev (a0.n + b.n) with
    | none =>
      have h1 : ev (a0.after b).n = none := hev
      have h2 : shiftEv a0.n ev b.n = none := hev
      rw [exec_step_none C ev s k _ w h1, exec_step_none C _ s k b w h2]
      cases happ : apply C w s with
      | ok w' => simp only []; rw [Acc.after_ok]; exact ih _ _ _
      | error e => simp only []; rw [Acc.after_ok]; exact ih _ _ _
    | some e =>
      have h1 : ev (a0.after b).n = some e := hev
      have h2 : shiftEv a0.n ev b.n = some e := hev
      rw [exec_step_some C ev s k _ w e h1, exec_step_some C _ s k b w e h2]
      cases e with
      | crash => rfl
      | torn t => rfl
      | fault e => simp only []; rw [Acc.after_flt]; exact ih _ _ _

/-- **sequencing.**  `run` of `p ; q`: the run of `p`; if that returned normally, the run of `q`
    from the world it left, under the schedule shifted by the number of steps `p` announced —
    with step count, trace and fault flag of `p` carried over (`Outcome.after`).  An exception or
    a death of `p` is the outcome of the composite. -/
theorem run_seq_eq (C : Codec Sp) (ev : Nat → Option Ev) (p q : Prog Sp) (w : World Sp) :
    run C ev (p.seq q) w =
      if (run C ev p w).res = .ok then
        (run C (shiftEv (run C ev p w).acc.n ev) q (run C ev p w).w).after (run C ev p w).acc
      else run C ev p w := by
  by_cases h : (run C ev p w).res = .ok
  · rw [if_pos h]
    show exec C ev (p.seq q) {} w =
      (exec C (shiftEv (exec C ev p {} w).acc.n ev) q {} (exec C ev p {} w).w).after (exec C ev p {} w).acc
    rw [exec_seq, if_pos (show (exec C ev p {} w).res = .ok from h), ← exec_shift, Acc.after_empty]
  · rw [if_neg h]
    show exec C ev (p.seq q) {} w = exec C ev p {} w
    rw [exec_seq, if_neg (show ¬ (exec C ev p {} w).res = .ok from h)]

theorem seq_all {φ : Step Sp → Prop} {p q : Prog Sp} (hp : Prog.All φ p) (hq : Prog.All φ q) :
    Prog.All φ (p.seq q) := by
  induction hp with
  | done r => cases r <;> simp only [Prog.seq] <;> first | exact hq | exact .done _
  | look f _ ih => simp only [Prog.seq]; exact .look _ ih
  | step s k hs _ ih => simp only [Prog.seq]; exact .step _ _ hs ih

/-- `Outcome` eta for a normal return -/
theorem outcome_eta_ok (o : Outcome Sp) (h : o.res = .ok) : (⟨o.w, .ok, o.acc⟩ : Outcome Sp) = o := by
  cases o; simp only at h; subst h; rfl

/- ================================================================ part 2: clear keeps the job -/

/-- the steps of `clear`: they stay in directory `k`, never unlink the state-point file, never
    remove the directory, and the only file they commit is the document -/
inductive ClearLike (k : Key) : Step Sp → Prop
  | rmItem (r : Ref) (h : r ≠ .sp) : ClearLike k (.rmItem k r)
  | tmpOpen (n : String) : ClearLike k (.tmpOpen k n)
  | tmpWrite (n : String) (c : Content Sp) : ClearLike k (.tmpWrite k n c)
  | tmpCommitDoc : ClearLike k (.tmpCommit k docName)

/-- directory `k` exists and its state-point file is the one of `D` -/
def SpSame (k : Key) (D : JobDir Sp) (w : World Sp) : Prop := ∃ d, w k = some d ∧ d.sp = D.sp

theorem spSame_apply (C : Codec Sp) (k : Key) (D : JobDir Sp) (s : Step Sp) (w w' : World Sp)
    (hs : ClearLike k s) (hR : SpSame k D w) (h : apply C w s = .ok w') : SpSame k D w' := by
  obtain ⟨d, hd, hsp⟩ := hR
  cases hs with
  | rmItem r hr =>
    simp only [apply, hd] at h
    split at h <;> cases h
    refine ⟨_, upd_same .., ?_⟩
    cases r <;> first | exact hsp | exact absurd rfl hr
  | tmpOpen n =>
    simp only [apply, hd] at h; cases h
    exact ⟨_, upd_same .., hsp⟩
  | tmpWrite n c =>
    simp only [apply, hd] at h; cases h
    exact ⟨_, upd_same .., hsp⟩
  | tmpCommitDoc =>
    simp only [apply, hd, docName_ne_spName, if_false] at h
    split at h <;> cases h
    exact ⟨_, upd_same .., hsp⟩

theorem spSame_torn (C : Codec Sp) (k : Key) (D : JobDir Sp) (s : Step Sp) (w : World Sp) (t : Nat)
    (hs : ClearLike k s) (hR : SpSame k D w) : SpSame k D (tornApply C w s t) := by
  cases hs with
  | tmpWrite n c =>
    obtain ⟨d, hd, hsp⟩ := hR
    simp only [tornApply, hd]; exact ⟨_, upd_same .., hsp⟩
  | _ => exact hR

/-- what `rmtree` unlinks: the items of the scan, and directories of the scan when it leaves them -/
theorem rmOrder_mem (k : Key) : ∀ (rs : List Ref) (stack : List String) (s : Step Sp),
    s ∈ rmOrder k rs stack → ∃ r, s = .rmItem k r ∧ (r ∈ rs ∨ ∃ p, r = .dir p)
  | [], stack, s, h => by
    simp only [rmOrder, List.mem_map] at h
    obtain ⟨p, _, rfl⟩ := h; exact ⟨_, rfl, Or.inr ⟨p, rfl⟩⟩
  | r :: rs, stack, s, h => by
    simp only [rmOrder, List.mem_append, List.mem_map] at h
    rcases h with ⟨p, _, rfl⟩ | h
    · exact ⟨_, rfl, Or.inr ⟨p, rfl⟩⟩
    · split at h
      · obtain ⟨r', hr', hm⟩ := rmOrder_mem k rs _ s h
        exact ⟨r', hr', hm.imp (List.mem_cons_of_mem _) id⟩
      · rcases List.mem_cons.mp h with rfl | h
        · exact ⟨_, rfl, Or.inl (List.mem_cons_self ..)⟩
        · obtain ⟨r', hr', hm⟩ := rmOrder_mem k rs _ s h
          exact ⟨r', hr', hm.imp (List.mem_cons_of_mem _) id⟩

theorem clearSteps_clearLike (k : Key) (order : List Ref) :
    ∀ s ∈ clearSteps (Sp := Sp) k order, ClearLike k s := by
  intro s hs
  simp only [clearSteps, List.mem_append, List.mem_cons, List.not_mem_nil, or_false] at hs
  rcases hs with hs | rfl | rfl | rfl
  · obtain ⟨r, rfl, hr | ⟨p, rfl⟩⟩ := rmOrder_mem k _ _ s hs
    · refine .rmItem r ?_
      have := (List.mem_filter.mp hr).2
      intro h; subst h; simp at this
    · exact .rmItem _ (by simp)
  · exact .tmpOpen _
  · exact .tmpWrite _ _
  · exact .tmpCommitDoc

theorem clearProg_clearLike (k : Key) (order : List Ref) :
    Prog.All (ClearLike (Sp := Sp) k) (clearProg k order) := by
  simp only [clearProg]
  refine .look _ (fun w => ?_)
  split
  · exact .done _
  · exact seqProg_all (fun e => rmErr_all _ e) (.done _) _ (clearSteps_clearLike k order)

/-- **clear never removes the job**: under EVERY schedule (death anywhere, torn writes, any
    injected errno — ENOENT included) the job directory is still there and its state-point file is
    untouched -/
theorem clear_keeps_sp (C : Codec Sp) (ev : Nat → Option Ev) (k : Key) (order : List Ref)
    (a : Acc Sp) (w : World Sp) (d : JobDir Sp) (hd : w k = some d) :
    ∃ d', (exec C ev (clearProg k order) a w).w k = some d' ∧ d'.sp = d.sp :=
  exec_inv C ev (ClearLike k) (SpSame k d) (fun s w w' => spSame_apply C k d s w w')
    (fun s w t => spSame_torn C k d s w t) (clearProg_clearLike k order) a w ⟨d, hd, rfl⟩

theorem validAt_of_sp_eq (C : Codec Sp) {w w' : World Sp} {k : Key} {d d' : JobDir Sp}
    (hw : w k = some d) (hw' : w' k = some d') (hsp : d'.sp = d.sp) :
    validAt C w' k = validAt C w k := by
  simp [validAt, hw, hw', JobDir.valid, hsp]

/- ================================================================ part 3: reset -/

theorem exec_init_valid (C : Codec Sp) (ev : Nat → Option Ev) (k : Key) (v : Sp) (f : Bool) (a : Acc Sp)
    (w : World Sp) (hv : validAt C w k = true) : exec C ev (initProg C k v f) a w = ⟨w, .ok, a⟩ := by
  simp [initProg, exec, hv]

/-- on a job that validates, `reset` IS `clear` — the whole outcome (world, result, steps, trace,
    fault flag): the closing `init` finds the untouched state-point file and announces no step -/
theorem reset_valid_eq_clear (C : Codec Sp) (ev : Nat → Option Ev) (k : Key) (order : List Ref) (v : Sp)
    (w : World Sp) (hv : validAt C w k = true) :
    run C ev (resetProg C k order v) w = run C ev (clearProg k order) w := by
  cases hd : w k with
  | none => simp [validAt, hd] at hv
  | some d =>
    obtain ⟨d', hd', hsp⟩ := clear_keeps_sp C ev k order {} w d hd
    have hv' : validAt C (exec C ev (clearProg k order) {} w).w k = true := by
      rw [validAt_of_sp_eq C hd hd' hsp]; exact hv
    simp only [run, resetProg]
    rw [exec_seq]
    split
    · rename_i hok
      rw [exec_init_valid C ev k v false _ _ hv']
      exact outcome_eta_ok _ hok
    · rfl

theorem reset_keeps (C : Codec Sp) (ev : Nat → Option Ev) (k : Key) (order : List Ref) (v : Sp)
    (w : World Sp) (d : JobDir Sp) (hd : w k = some d) (hv : validAt C w k = true) :
    ∃ d', (run C ev (resetProg C k order v) w).w k = some d' ∧ d'.sp = d.sp ∧
      validAt C (run C ev (resetProg C k order v) w).w k = true := by
  rw [reset_valid_eq_clear C ev k order v w hv]
  obtain ⟨d', hd', hsp⟩ := clear_keeps_sp C ev k order {} w d hd
  exact ⟨d', hd', hsp, by rw [validAt_of_sp_eq C hd (show (run C ev (clearProg k order) w).w k = some d' from hd') hsp]; exact hv⟩

/-- without the validity hypothesis: the directory of an existing job is still there after `reset`,
    whatever happens (by `run_seq_eq`, `clear_keeps_sp` and the first clause of `InitSpec`) -/
theorem reset_keeps_directory (C : Codec Sp) (ev : Nat → Option Ev) (k : Key) (order : List Ref) (v : Sp)
    (w : World Sp) (hd : (w k).isSome = true) :
    ((run C ev (resetProg C k order v) w).w k).isSome = true := by
  obtain ⟨d, hd⟩ := Option.isSome_iff_exists.mp hd
  obtain ⟨d1, hd1, _⟩ := clear_keeps_sp C ev k order {} w d hd
  rw [resetProg, run_seq_eq]
  split
  · have h := (init_spec C k v (run C ev (clearProg k order) w).w
      (shiftEv (run C ev (clearProg k order) w).acc.n ev)).1
    have hd1' : (run C ev (clearProg k order) w).w k = some d1 := hd1
    rw [hd1'] at h
    obtain ⟨d2, hd2, _⟩ := h
    rw [Outcome.after_w, hd2]; rfl
  · have hd1' : (run C ev (clearProg k order) w).w k = some d1 := hd1
    rw [hd1']; rfl

theorem resetProg_all (C : Codec Sp) (k : Key) (order : List Ref) (v : Sp) {ks : List Key} (hk : k ∈ ks) :
    Prog.All (Within ks) (resetProg C k order v) :=
  seq_all (clearProg_all k order hk) (initProg_all C k v false hk)

theorem reset_frame (C : Codec Sp) (ev : Nat → Option Ev) (k : Key) (order : List Ref) (v : Sp)
    (w : World Sp) {k' : Key} (hk : k' ≠ k) : (run C ev (resetProg C k order v) w).w k' = w k' :=
  exec_frame C ev [k] (resetProg_all C k order v (by simp)) w {} (by simpa using hk)

/-- a normal return of `reset` consumed no fault, when ENOENT is not injected — in ANY world
    (job missing, present without state-point file, corrupted, valid) -/
theorem reset_ok_not_faulted (C : Codec Sp) (ev : Nat → Option Ev) (hne : NoENOENT ev) (k : Key)
    (order : List Ref) (v : Sp) (w : World Sp) (hok : (run C ev (resetProg C k order v) w).res = .ok) :
    (run C ev (resetProg C k order v) w).faulted = false := by
  simp only [run, resetProg, Outcome.faulted] at hok ⊢
  rw [exec_seq] at hok ⊢
  by_cases h1 : (exec C ev (clearProg k order) {} w).res = .ok
  · simp only [h1, if_true] at hok ⊢
    rw [init_ok_not_faulted C ev k v false _ _ hok]
    exact covered_ok_not_faulted C (.clear k order) trivial ev hne w h1
  · simp only [h1, if_false] at hok

theorem reset_fault_not_ok (C : Codec Sp) (ev : Nat → Option Ev) (hne : NoENOENT ev) (k : Key)
    (order : List Ref) (v : Sp) (w : World Sp) (hf : (run C ev (resetProg C k order v) w).faulted = true) :
    (run C ev (resetProg C k order v) w).res ≠ .ok := by
  intro hok
  rw [reset_ok_not_faulted C ev hne k order v w hok] at hf
  cases hf

theorem reset_ok_event_free (C : Codec Sp) (ev : Nat → Option Ev) (hne : NoENOENT ev) (k : Key)
    (order : List Ref) (v : Sp) (w : World Sp) (hok : (run C ev (resetProg C k order v) w).res = .ok) :
    run C ev (resetProg C k order v) w = run C noEv (resetProg C k order v) w :=
  run_eq_noEv_of_ok C ev _ w hok (reset_ok_not_faulted C ev hne k order v w hok)

/-- the event-free `reset` of a settled job whose directory the scan order enumerates: normal
    return; the state-point file (and the absence of backup / temp files) as before, the payload
    is exactly the empty document `{}` -/
theorem reset_noEv_state (C : Codec Sp) (k : Key) (order : List Ref) (v : Sp) (w : World Sp) (d : JobDir Sp)
    (hw : w k = some d) (hd : Settled C k.2 d) (hs : Scans (fun p => getEntry p d.entries) order) :
    (run C noEv (resetProg C k order v) w).res = .ok ∧
    (run C noEv (resetProg C k order v) w).w = upd w k (some { d with entries := [(docName, some "{}")] }) := by
  rw [reset_valid_eq_clear C noEv k order v w (validAt_of_settled C hw hd), run_noEv_res, run_noEv_w,
    clear_ev0 C k order w d hw hd hs]
  exact ⟨rfl, rfl⟩

/- ---------------------------------------------------------------- the ENOENT proviso is needed -/
/-- `reset` of the job of `cexW`; the unlink of the data file `f` (step 0) fails with an injected
    ENOENT: `clear` reads it as "not there" and returns, `init` finds a valid job: normal return
    with a consumed fault, `f` still there, no document.  The event-free run deletes `f`. -/
theorem reset_enoent_swallowed_cex :
    let o := run cexCodec (faultAt 0 .ENOENT) (resetProg cexCodec cexSrc cexOrder 1) cexW
    let o0 := run cexCodec noEv (resetProg cexCodec cexSrc cexOrder 1) cexW
    o.res = .ok ∧ o.faulted = true ∧ hasFile o.w cexSrc "f" = true ∧ hasFile o.w cexSrc docName = false ∧
      o0.res = .ok ∧ hasFile o0.w cexSrc "f" = false ∧ hasFile o0.w cexSrc docName = true :=
  ⟨by decide, by decide, by decide, by decide, by decide, by decide, by decide⟩

/- ================================================================ part 4: the regression -/
/-- `remove(); init()` on the job of `cexW` (state-point file + data file `f`; steps: 0 unlink
    state point, 1 unlink `f`, 2 rmdir job directory, 3 mkdir job directory, …).  The process dies
    right after the last step of the removal (before step 3): the job — which validated — is gone. -/
theorem remove_then_init_loses_cex :
    let o := run cexCodec (crashAt 3) (removeThenInitProg cexCodec cexSrc cexOrder 1) cexW
    validAt cexCodec cexW cexSrc = true ∧ o.res = .crashed ∧ o.w cexSrc = none :=
  ⟨by decide, by decide, Option.isNone_iff_eq_none.mp (by decide)⟩

/-- … and also a handled I/O error loses it: `mkdir` (step 3) fails with EIO, `init` raises, no
    directory -/
theorem remove_then_init_loses_fault_cex :
    let o := run cexCodec (faultAt 3 .EIO) (removeThenInitProg cexCodec cexSrc cexOrder 1) cexW
    o.res = .exc "OSError(EIO)" ∧ o.w cexSrc = none :=
  ⟨by decide, Option.isNone_iff_eq_none.mp (by decide)⟩

end Signac.Life

/-
  Path-level consequences of the level-local walk lemmas: what a whole `_sync_job_workspaces`
  run does to the node at an arbitrary relative path.  Core only.
-/
import Signac.Proofs.SyncWalk
namespace Signac.Sync

/-! ### well-formed directory trees: names are unique in every listing -/

mutual
  def WFNode : Node → Prop
    | .file _ => True
    | .dir es => WFEntries es
  def WFEntries : List (Name × Node) → Prop
    | [] => True
    | (n, c) :: tl => n ∉ names tl ∧ WFNode c ∧ WFEntries tl
end

theorem WFEntries.nodup : ∀ {es : Entries}, WFEntries es → (names es).Nodup
  | [], _ => List.nodup_nil
  | (n, c) :: tl, h => by
    simp only [WFEntries] at h
    exact List.nodup_cons.mpr ⟨h.1, WFEntries.nodup h.2.2⟩

theorem WFEntries.child : ∀ {es : Entries} {n : Name} {c : Node}, WFEntries es → getE n es = some c → WFNode c
  | [], _, _, _, h => by simp [getE] at h
  | (k, v) :: tl, n, c, hw, h => by
    simp only [WFEntries] at hw
    by_cases hk : k = n
    · simp only [getE, hk, if_true, Option.some.injEq] at h
      subst h; exact hw.2.1
    · simp only [getE, hk, if_false] at h
      exact WFEntries.child hw.2.2 h

theorem WFEntries.sub {es ch : Entries} {n : Name} (hw : WFEntries es) (h : getE n es = some (.dir ch)) :
    WFEntries ch := by
  have := WFEntries.child hw h
  simpa [WFNode] using this

/-! ### copies -/

theorem getE_copyEntries (now : Nat) (ign : Name → Bool) (k : Name) : ∀ es : Entries,
    getE k (copyEntries now ign es) = if ign k then none else (getE k es).map (copyNode now ign)
  | [] => by simp [copyEntries, getE]
  | (n, c) :: tl => by
    have ih := getE_copyEntries now ign k tl
    by_cases hn : n = k
    · subst hn
      cases hi : ign n with
      | true => simp [copyEntries, hi, ih]
      | false => simp [copyEntries, hi, getE]
    · cases hi : ign n with
      | true => simp [copyEntries, hi, ih, getE, hn]
      | false => simp [copyEntries, hi, ih, getE, hn]

theorem getE_copyTop (now : Nat) (ignTop ign : Name → Bool) (k : Name) : ∀ es : Entries,
    getE k (copyTop now ignTop ign es) = if ignTop k then none else (getE k es).map (copyNode now ign)
  | [] => by simp [copyTop, getE]
  | (n, c) :: tl => by
    have ih := getE_copyTop now ignTop ign k tl
    by_cases hn : n = k
    · subst hn
      cases hi : ignTop n with
      | true => simp [copyTop, hi, ih]
      | false => simp [copyTop, hi, getE]
    · cases hi : ignTop n with
      | true => simp [copyTop, hi, ih, getE, hn]
      | false => simp [copyTop, hi, ih, getE, hn]

/-- the file at `k :: q` survives a copy: no component of the path is ignored -/
inductive InCopy (ign : Name → Bool) : Entries → Name → Path → FMeta → Prop
  | file {es k m} : getE k es = some (.file m) → ign k = false → InCopy ign es k [] m
  | dir {es k ch k' q m} : getE k es = some (.dir ch) → ign k = false → InCopy ign ch k' q m →
      InCopy ign es k (k' :: q) m

theorem copy_lookup (now : Nat) (ign : Name → Bool) {es : Entries} {k : Name} {q : Path} {m : FMeta}
    (h : InCopy ign es k q m) : lookupP k q (copyEntries now ign es) = some (.file (touch now m)) := by
  induction h with
  | file h1 h2 => simp [lookupP, getE_copyEntries, h1, h2, copyNode]
  | dir h1 h2 _ ih => simp [lookupP, getE_copyEntries, h1, h2, copyNode, ih]

theorem copy_lookup_none (now : Nat) (ign : Name → Bool) : ∀ (q : Path) (k : Name) (es : Entries),
    lookupP k q es = none → lookupP k q (copyEntries now ign es) = none
  | [], k, es, h => by
    simp only [lookupP] at h ⊢
    rw [getE_copyEntries, h]; simp
  | k' :: q, k, es, h => by
    simp only [lookupP] at h ⊢
    rw [getE_copyEntries]
    cases hi : ign k with
    | true => simp
    | false =>
      simp only [Bool.false_eq_true, if_false]
      cases hg : getE k es with
      | none => simp
      | some c =>
        cases c with
        | file m => simp [copyNode]
        | dir ch =>
          simp only [Option.map, copyNode]
          rw [hg] at h
          exact copy_lookup_none now ign q k' ch h

/-- the last component of a non-empty path -/
def lastName : Name → Path → Name
  | n, [] => n
  | _, k :: q => lastName k q

/-- a path whose last component is ignored does not exist in a copy -/
theorem copy_lookup_ignored (now : Nat) (ign : Name → Bool) : ∀ (q : Path) (k : Name) (es : Entries),
    ign (lastName k q) = true → lookupP k q (copyEntries now ign es) = none
  | [], k, es, h => by
    simp only [lastName] at h
    simp [lookupP, getE_copyEntries, h]
  | k' :: q, k, es, h => by
    simp only [lastName] at h
    simp only [lookupP]
    rw [getE_copyEntries]
    cases hi : ign k with
    | true => simp
    | false =>
      simp only [Bool.false_eq_true, if_false]
      cases hg : getE k es with
      | none => simp
      | some c =>
        cases c with
        | file m => simp [copyNode]
        | dir ch =>
          simp only [Option.map, copyNode]
          exact copy_lookup_ignored now ign q k' ch h

/-! ### both-files: result is one of two -/

theorem phase2_get_cases (o : Opts) (sub : Path) (dst0 : Entries) (n : Name) (l : Entries) :
    ∀ a : Acc, (names l).Nodup →
    getE n (phase2 o sub dst0 l a).1.d = getE n a.d ∨
    ∃ ms md, Conflict o l dst0 n ms md ∧ verdict o (sub ++ [n]) ms md = some true ∧
      getE n (phase2 o sub dst0 l a).1.d = some (.file (touch o.now ms)) := by
  intro a hnd
  by_cases h : ∃ ms md, Conflict o l dst0 n ms md ∧ verdict o (sub ++ [n]) ms md = some true
  case neg =>
    left
    exact phase2_get_other o sub dst0 n l a (fun ms md hc hv => h ⟨ms, md, hc, hv⟩) hnd
  case pos =>
    obtain ⟨ms, md, hc, hv'⟩ := h
    -- walk down the list to the entry `n`
    induction l generalizing a with
    | nil => simp [Conflict, getE] at hc
    | cons hd tl ih =>
      obtain ⟨k, sk⟩ := hd
      have hnd' : (names tl).Nodup := (List.nodup_cons.mp hnd).2
      have hk : k ∉ names tl := (List.nodup_cons.mp hnd).1
      by_cases hkn : k = n
      · subst hkn
        have hsk := conflict_head hc
        subst hsk
        obtain ⟨_, h2, h3, h4⟩ := hc
        have hcond : (differs o.deep ms md && !excluded o k) = true := by simp [h3, h4]
        have he : phase2 o sub dst0 ((k, .file ms) :: tl) a =
            phase2 o sub dst0 tl (pPut o.dry k (.file (touch o.now ms)) a) := by
          simp only [phase2, h2, hcond, if_true, hv']
        have hno : ∀ ms' md', Conflict o tl dst0 k ms' md' → verdict o (sub ++ [k]) ms' md' ≠ some true :=
          fun ms' md' hcf => absurd (mem_names_of_getE hcf.1) hk
        rw [he, phase2_get_other o sub dst0 k tl _ hno hnd', pPut_d]
        cases o.dry with
        | true => left; rfl
        | false =>
          right
          exact ⟨ms, md, ⟨by simp [getE], h2, h3, h4⟩, hv', by simp [getE_setE_same]⟩
      · have hc' := conflict_tail hkn hc
        rcases phase2_cons o sub dst0 k sk tl a with ⟨_, _, _, _, _, _, _, he⟩ | he | ⟨_, _, _, _, _, _, _, he⟩
        · left; rw [he]
        · rw [he]
          rcases ih a hnd' hc' with h | ⟨ms', md', hcc, hvv, hg⟩
          · left; exact h
          · right; exact ⟨ms', md', conflict_cons hk hcc, hvv, hg⟩
        · rw [he]
          rcases ih _ hnd' hc' with h | ⟨ms', md', hcc, hvv, hg⟩
          · left; rw [h]; exact getE_pPut_other (Ne.symm hkn) _ _ _
          · right; exact ⟨ms', md', conflict_cons hk hcc, hvv, hg⟩

/-- a file on both sides is afterwards the old file or the (freshly written) source file -/
theorem walkDir_get_file_cases (o : Opts) (sub : Path) (ses des : Entries) (n : Name) (ms md : FMeta)
    (hnd : (names ses).Nodup) (hs : getE n ses = some (.file ms)) (hd : getE n des = some (.file md)) :
    getE n (walkDir o sub (.dir ses) des).d = some (.file md) ∨
    getE n (walkDir o sub (.dir ses) des).d = some (.file (touch o.now ms)) := by
  rw [walkDir_get_of_subs o sub ses des n
    (fun a => walkSubs_get_other o sub des n ses a (by simp [hd]))]
  unfold acc2
  rcases phase2_get_cases o sub des n ses (phase1 o des ses ⟨des, []⟩) hnd with h | ⟨ms', md', hc, _, hg⟩
  · left
    rw [h, phase1_get o des n ses hnd]
    simp [hs, hd]
  · right
    obtain ⟨h1, _⟩ := hc
    rw [hs] at h1; cases h1
    exact hg

/-! ### destination-only paths are untouched -/

/-- a path the source job does not have keeps its destination node (in any run, failed or not) -/
theorem walk_dst_only (o : Opts) : ∀ (p : Path) (n : Name) (sub : Path) (ses des : Entries),
    WFEntries ses → lookupP n p ses = none →
    lookupP n p (walkDir o sub (.dir ses) des).d = lookupP n p des
  | [], n, sub, ses, des, hw, h => by
    simp only [lookupP] at h ⊢
    exact walkDir_get_absent o sub ses des n hw.nodup h
  | k :: q, n, sub, ses, des, hw, h => by
    have hnd := hw.nodup
    simp only [lookupP] at h ⊢
    cases hs : getE n ses with
    | none => rw [walkDir_get_absent o sub ses des n hnd hs]
    | some sn =>
      cases hd : getE n des with
      | none =>
        rw [walkDir_get_leftonly o sub ses des n sn hnd hs hd]
        cases o.dry with
        | true => simp
        | false =>
          simp only [Bool.false_eq_true, if_false, leftOnlyNode]
          cases excluded o n with
          | true => simp
          | false =>
            cases sn with
            | file m => simp
            | dir sch =>
              cases o.recursive with
              | false => simp
              | true =>
                simp only [Bool.false_eq_true, if_false, if_true]
                rw [hs] at h
                exact copy_lookup_none o.now (excluded o) q k sch h
      | some dn =>
        cases sn with
        | file ms =>
          cases dn with
          | file md =>
            rcases walkDir_get_file_cases o sub ses des n ms md hnd hs hd with h' | h' <;> rw [h']
          | dir x =>
            rw [walkDir_get_clash o sub ses des n _ _ hnd hs hd (Or.inl ⟨ms, x, rfl, rfl⟩)]
        | dir sch =>
          cases dn with
          | file md =>
            rw [walkDir_get_clash o sub ses des n _ _ hnd hs hd (Or.inr ⟨sch, md, rfl, rfl⟩)]
          | dir dch =>
            rw [hs] at h
            rcases walkDir_get_common o sub ses des n sch dch hnd hs hd with ⟨h', _⟩ | ⟨_, h', _⟩
            · rw [h']
            · rw [h']
              exact walk_dst_only o q k (sub ++ [n]) sch dch (hw.sub hs) h

/-! ### reachable, non-excluded source files that were absent are present afterwards -/

/-- the source file `m` at `n :: p` is one the walk has to deliver: it is reached through
    directories common to both sides (only when recursive), the first name missing in the
    destination is not excluded, and below a missing directory nothing on the way is excluded -/
inductive Reach (o : Opts) : Entries → Entries → Name → Path → FMeta → Prop
  | top {ses des n m} : getE n ses = some (.file m) → getE n des = none → excluded o n = false →
      Reach o ses des n [] m
  | tree {ses des n sch k q m} : getE n ses = some (.dir sch) → getE n des = none →
      excluded o n = false → o.recursive = true → InCopy (excluded o) sch k q m →
      Reach o ses des n (k :: q) m
  | sub {ses des n sch dch k q m} : getE n ses = some (.dir sch) → getE n des = some (.dir dch) →
      o.recursive = true → Reach o sch dch k q m → Reach o ses des n (k :: q) m

theorem walk_files_present (o : Opts) (hdry : o.dry = false) {ses des : Entries} {n : Name} {p : Path}
    {m : FMeta} (hr : Reach o ses des n p m) :
    ∀ sub, WFEntries ses → (walkDir o sub (.dir ses) des).err = none →
    lookupP n p (walkDir o sub (.dir ses) des).d = some (.file (touch o.now m)) := by
  induction hr with
  | top hs hd hx =>
    intro sub hw _
    simp only [lookupP]
    rw [walkDir_get_leftonly o sub _ _ _ _ hw.nodup hs hd]
    simp [hdry, leftOnlyNode, hx]
  | tree hs hd hx hrec hin =>
    intro sub hw _
    simp only [lookupP]
    rw [walkDir_get_leftonly o sub _ _ _ _ hw.nodup hs hd]
    simp only [hdry, Bool.false_eq_true, if_false, leftOnlyNode, hx, hrec, if_true]
    exact copy_lookup o.now (excluded o) hin
  | sub hs hd hrec _ ih =>
    intro sub hw hok
    simp only [lookupP]
    rcases walkDir_get_common o sub _ _ _ _ _ hw.nodup hs hd with ⟨_, h2⟩ | ⟨_, h', h2⟩
    · have := h2 hok
      rw [hrec] at this; cases this
    · rw [h']
      exact ih _ (hw.sub hs) (h2 hok)

/-! ### conflicting files: overwritten iff the strategy says so -/

/-- `n :: p` is a regular file on both sides, reached through directories common to both -/
inductive Both : Entries → Entries → Name → Path → FMeta → FMeta → Prop
  | top {ses des n ms md} : getE n ses = some (.file ms) → getE n des = some (.file md) →
      Both ses des n [] ms md
  | sub {ses des n sch dch k q ms md} : getE n ses = some (.dir sch) → getE n des = some (.dir dch) →
      Both sch dch k q ms md → Both ses des n (k :: q) ms md

theorem lastName_cons (n k : Name) (q : Path) : lastName n (k :: q) = lastName k q := rfl

theorem both_lookup {ses des : Entries} {n : Name} {p : Path} {ms md : FMeta}
    (hb : Both ses des n p ms md) : lookupP n p des = some (.file md) := by
  induction hb with
  | top _ hd => simpa [lookupP] using hd
  | sub _ hd _ ih => simp only [lookupP, hd]; exact ih

/-- not (conflict with verdict "overwrite") ⇒ the destination file is untouched, in every run -/
theorem walk_file_kept (o : Opts) {ses des : Entries} {n : Name} {p : Path} {ms md : FMeta}
    (hb : Both ses des n p ms md) :
    ∀ sub, WFEntries ses →
    ¬ (differs o.deep ms md = true ∧ excluded o (lastName n p) = false ∧
        verdict o (sub ++ n :: p) ms md = some true) →
    lookupP n p (walkDir o sub (.dir ses) des).d = some (.file md) := by
  induction hb with
  | top hs hd =>
    intro sub hw hk
    simp only [lookupP]
    exact walkDir_get_file_kept o sub _ _ _ _ _ hw.nodup hs hd (by simpa [lastName] using hk)
  | @sub ses des n sch dch k q ms md hs hd hb' ih =>
    intro sub hw hk
    simp only [lookupP]
    rcases walkDir_get_common o sub _ _ _ _ _ hw.nodup hs hd with ⟨h', _⟩ | ⟨_, h', _⟩
    · rw [h']
      -- the old directory: the file is where it was
      exact both_lookup hb'
    · rw [h']
      apply ih (sub ++ [n]) (hw.sub hs)
      simpa [lastName_cons, List.append_assoc] using hk

/-- a conflict with verdict "overwrite" carries the source's bytes after a successful real run -/
theorem walk_file_overwritten (o : Opts) (hdry : o.dry = false) {ses des : Entries} {n : Name} {p : Path}
    {ms md : FMeta} (hb : Both ses des n p ms md) :
    ∀ sub, WFEntries ses → (p ≠ [] → o.recursive = true) →
    differs o.deep ms md = true → excluded o (lastName n p) = false →
    verdict o (sub ++ n :: p) ms md = some true →
    (walkDir o sub (.dir ses) des).err = none →
    lookupP n p (walkDir o sub (.dir ses) des).d = some (.file (touch o.now ms)) := by
  induction hb with
  | top hs hd =>
    intro sub hw _ hdiff hx hv hok
    simp only [lookupP]
    exact walkDir_get_file_overwritten o sub _ _ _ _ _ hw.nodup hs hd hdiff (by simpa [lastName] using hx) hv hok hdry
  | @sub ses des n sch dch k q ms md hs hd _ ih =>
    intro sub hw hrec hdiff hx hv hok
    have hrec' : o.recursive = true := hrec (by simp)
    simp only [lookupP]
    rcases walkDir_get_common o sub _ _ _ _ _ hw.nodup hs hd with ⟨_, h2⟩ | ⟨_, h', h2⟩
    · have := h2 hok
      rw [hrec'] at this; cases this
    · rw [h']
      exact ih (sub ++ [n]) (hw.sub hs) (fun _ => hrec') hdiff (by simpa [lastName_cons] using hx)
        (by simpa [List.append_assoc] using hv) (h2 hok)

/-- a reachable conflict without verdict makes the walk fail -/
theorem walk_conflict_fails (o : Opts) {ses des : Entries} {n : Name} {p : Path}
    {ms md : FMeta} (hb : Both ses des n p ms md) :
    ∀ sub, WFEntries ses → (p ≠ [] → o.recursive = true) →
    differs o.deep ms md = true → excluded o (lastName n p) = false →
    o.strategy = Strategy.none →
    (walkDir o sub (.dir ses) des).err ≠ none := by
  induction hb with
  | top hs hd =>
    intro sub hw _ hdiff hx hst
    obtain ⟨fn, h⟩ := walkDir_conflict_fails o sub _ _ _ _ _ hw.nodup hs hd hdiff (by simpa [lastName] using hx)
      ((verdict_none_iff o _ _ _).mpr hst)
    simp [h]
  | @sub ses des n sch dch k q ms md hs hd _ ih =>
    intro sub hw hrec hdiff hx hst hok
    have hrec' : o.recursive = true := hrec (by simp)
    rcases walkDir_get_common o sub _ _ _ _ _ hw.nodup hs hd with ⟨_, h2⟩ | ⟨_, _, h2⟩
    · have := h2 hok
      rw [hrec'] at this; cases this
    · exact ih (sub ++ [n]) (hw.sub hs) (fun _ => hrec') hdiff (by simpa [lastName_cons] using hx) hst (h2 hok)

/-! ### excluded names are never created or modified -/

/-- a path whose last name is excluded and that the destination does not have is not created -/
theorem walk_excluded_not_created (o : Opts) : ∀ (p : Path) (n : Name) (sub : Path) (ses des : Entries),
    WFEntries ses → excluded o (lastName n p) = true → lookupP n p des = none →
    lookupP n p (walkDir o sub (.dir ses) des).d = none
  | [], n, sub, ses, des, hw, hx, h => by
    simp only [lookupP, lastName] at h hx ⊢
    cases hs : getE n ses with
    | none => rw [walkDir_get_absent o sub ses des n hw.nodup hs]; exact h
    | some sn =>
      rw [walkDir_get_leftonly o sub ses des n sn hw.nodup hs h]
      simp [leftOnlyNode, hx]
  | k :: q, n, sub, ses, des, hw, hx, h => by
    have hnd := hw.nodup
    simp only [lastName] at hx
    simp only [lookupP] at h ⊢
    cases hs : getE n ses with
    | none => rw [walkDir_get_absent o sub ses des n hnd hs]; exact h
    | some sn =>
      cases hd : getE n des with
      | none =>
        rw [walkDir_get_leftonly o sub ses des n sn hnd hs hd]
        cases o.dry with
        | true => simp
        | false =>
          simp only [Bool.false_eq_true, if_false, leftOnlyNode]
          cases excluded o n with
          | true => simp
          | false =>
            cases sn with
            | file m => simp
            | dir sch =>
              cases o.recursive with
              | false => simp
              | true =>
                simp only [Bool.false_eq_true, if_false, if_true]
                exact copy_lookup_ignored o.now (excluded o) q k sch hx
      | some dn =>
        rw [hd] at h
        cases sn with
        | file ms =>
          cases dn with
          | file md =>
            rcases walkDir_get_file_cases o sub ses des n ms md hnd hs hd with h' | h' <;> rw [h']
          | dir x =>
            rw [walkDir_get_clash o sub ses des n _ _ hnd hs hd (Or.inl ⟨ms, x, rfl, rfl⟩)]
            exact h
        | dir sch =>
          cases dn with
          | file md =>
            rw [walkDir_get_clash o sub ses des n _ _ hnd hs hd (Or.inr ⟨sch, md, rfl, rfl⟩)]
          | dir dch =>
            rcases walkDir_get_common o sub ses des n sch dch hnd hs hd with ⟨h', _⟩ | ⟨_, h', _⟩
            · rw [h']; exact h
            · rw [h']
              exact walk_excluded_not_created o q k (sub ++ [n]) sch dch (hw.sub hs) hx h

/-- a destination file whose name is excluded is not modified -/
theorem walk_excluded_not_modified (o : Opts) : ∀ (p : Path) (n : Name) (sub : Path) (ses des : Entries)
    (md : FMeta),
    WFEntries ses → excluded o (lastName n p) = true → lookupP n p des = some (.file md) →
    lookupP n p (walkDir o sub (.dir ses) des).d = some (.file md)
  | [], n, sub, ses, des, md, hw, hx, h => by
    simp only [lookupP, lastName] at h hx ⊢
    cases hs : getE n ses with
    | none => rw [walkDir_get_absent o sub ses des n hw.nodup hs]; exact h
    | some sn =>
      cases sn with
      | file ms =>
        exact walkDir_get_file_kept o sub ses des n ms md hw.nodup hs h (by simp [hx])
      | dir sch =>
        exact walkDir_get_clash o sub ses des n _ _ hw.nodup hs h (Or.inr ⟨sch, md, rfl, rfl⟩)
  | k :: q, n, sub, ses, des, md, hw, hx, h => by
    have hnd := hw.nodup
    simp only [lastName] at hx
    simp only [lookupP] at h ⊢
    cases hd : getE n des with
    | none => simp [hd] at h
    | some dn =>
      cases dn with
      | file m' => simp [hd] at h
      | dir dch =>
        rw [hd] at h
        cases hs : getE n ses with
        | none => rw [walkDir_get_absent o sub ses des n hnd hs, hd]; exact h
        | some sn =>
          cases sn with
          | file ms =>
            rw [walkDir_get_clash o sub ses des n _ _ hnd hs hd (Or.inl ⟨ms, dch, rfl, rfl⟩)]
            exact h
          | dir sch =>
            rcases walkDir_get_common o sub ses des n sch dch hnd hs hd with ⟨h', _⟩ | ⟨_, h', _⟩
            · rw [h']; exact h
            · rw [h']
              exact walk_excluded_not_modified o q k (sub ++ [n]) sch dch md (hw.sub hs) hx h

end Signac.Sync

/-
  The JSON write/read round trip (C01, C02): reading what `encChars` printed gives the value
  back, `readVal fv fuel (encChars v ++ rest) = some (v, rest)`, for every continuation `rest`
  that is empty or starts with `,` `]` `}` and every fuel ≥ `jsize v`; hence
  `parseText fv (encChars v) = some v` and `parseText fv (canonChars v) = some (canon v)`.
  Hypothesis `FloatsOk fv v` as in the injectivity theorems (Proofs/EncInj.lean).
-/
import Signac.JsonParse
import Signac.Proofs.JsonReadStr
import Signac.Proofs.EncInj
import Signac.Proofs.FloatTokB
namespace Signac

/-! ### parser steps -/

theorem skipWs_cons_of_not_ws {c : Char} (h : isWs c = false) (cs : List Char) :
    skipWs (c :: cs) = c :: cs := by
  simp [skipWs, List.dropWhile, h]

theorem skipWs_space (s : List Char) : skipWs (' ' :: s) = skipWs s := by
  simp [skipWs, List.dropWhile, isWs]

theorem readVal_space (fv : String → Int × Nat) (fuel : Nat) (s : List Char) :
    readVal fv fuel (' ' :: s) = readVal fv fuel s := by
  cases fuel with
  | zero => simp [readVal]
  | succ f => simp only [readVal, skipWs_space]

theorem readElems_space (fv : String → Int × Nat) (fuel : Nat) (s : List Char) :
    readElems fv fuel (' ' :: s) = readElems fv fuel s := by
  cases fuel with
  | zero => simp [readElems]
  | succ f => simp only [readElems, readVal_space]

theorem readMembers_space (fv : String → Int × Nat) (fuel : Nat) (s : List Char) :
    readMembers fv fuel (' ' :: s) = readMembers fv fuel s := by
  cases fuel with
  | zero => simp [readMembers]
  | succ f => simp only [readMembers, skipWs_space]

theorem readVal_str (fv : String → Int × Nat) (f : Nat) (s1 : List Char) {k r : List Char}
    (hk : readStrBody s1.length s1 = some (k, r)) :
    readVal fv (f + 1) ('"' :: s1) = some (.str (String.ofList k), r) := by
  simp [readVal, skipWs_cons_of_not_ws, isWs, hk]

theorem readVal_arr (fv : String → Int × Nat) (f : Nat) (s1 : List Char) {xs : List JVal}
    {r : List Char} (h : readArr fv f s1 = some (xs, r)) :
    readVal fv (f + 1) ('[' :: s1) = some (.arr xs, r) := by
  simp [readVal, skipWs_cons_of_not_ws, isWs, h]

theorem readVal_obj (fv : String → Int × Nat) (f : Nat) (s1 : List Char)
    {kvs : List (String × JVal)} {r : List Char} (h : readObj fv f s1 = some (kvs, r)) :
    readVal fv (f + 1) ('{' :: s1) = some (.obj kvs, r) := by
  simp [readVal, skipWs_cons_of_not_ws, isWs, h]

theorem readArr_nil (fv : String → Int × Nat) (f : Nat) (r : List Char) :
    readArr fv (f + 1) (']' :: r) = some ([], r) := by
  simp [readArr, skipWs_cons_of_not_ws, isWs]

theorem readArr_cons (fv : String → Int × Nat) (f : Nat) {c : Char} (cs : List Char)
    (hws : isWs c = false) (hc : c ≠ ']') :
    readArr fv (f + 1) (c :: cs) = readElems fv f (c :: cs) := by
  simp [readArr, skipWs_cons_of_not_ws hws, hc]

theorem readObj_nil (fv : String → Int × Nat) (f : Nat) (r : List Char) :
    readObj fv (f + 1) ('}' :: r) = some ([], r) := by
  simp [readObj, skipWs_cons_of_not_ws, isWs]

theorem readObj_cons (fv : String → Int × Nat) (f : Nat) (cs : List Char) :
    readObj fv (f + 1) ('"' :: cs) = readMembers fv f ('"' :: cs) := by
  simp [readObj, skipWs_cons_of_not_ws, isWs]

theorem readElems_last (fv : String → Int × Nat) (f : Nat) (s : List Char) {x : JVal}
    {r : List Char} (hv : readVal fv f s = some (x, ']' :: r)) :
    readElems fv (f + 1) s = some ([x], r) := by
  simp [readElems, hv, skipWs_cons_of_not_ws, isWs]

theorem readElems_more (fv : String → Int × Nat) (f : Nat) (s : List Char) {x : JVal}
    {r r' : List Char} {xs : List JVal} (hv : readVal fv f s = some (x, ',' :: r))
    (hr : readElems fv f r = some (xs, r')) :
    readElems fv (f + 1) s = some (x :: xs, r') := by
  simp [readElems, hv, hr, skipWs_cons_of_not_ws, isWs]

theorem readMembers_last (fv : String → Int × Nat) (f : Nat) (s1 : List Char)
    {k s3 r : List Char} {v : JVal} (hk : readStrBody s1.length s1 = some (k, ':' :: s3))
    (hv : readVal fv f s3 = some (v, '}' :: r)) :
    readMembers fv (f + 1) ('"' :: s1) = some ([(String.ofList k, v)], r) := by
  simp [readMembers, hk, hv, skipWs_cons_of_not_ws, isWs]

theorem readMembers_more (fv : String → Int × Nat) (f : Nat) (s1 : List Char)
    {k s3 r r' : List Char} {v : JVal} {kvs : List (String × JVal)}
    (hk : readStrBody s1.length s1 = some (k, ':' :: s3))
    (hv : readVal fv f s3 = some (v, ',' :: r))
    (hr : readMembers fv f r = some (kvs, r')) :
    readMembers fv (f + 1) ('"' :: s1) = some ((String.ofList k, v) :: kvs, r') := by
  simp [readMembers, hk, hv, hr, skipWs_cons_of_not_ws, isWs]


/-! ### atoms -/

theorem span_tok (p : Char → Bool) : ∀ (tok rest : List Char), (∀ c ∈ tok, p c = true) →
    (rest = [] ∨ ∃ d ds, rest = d :: ds ∧ p d = false) →
    (tok ++ rest).takeWhile p = tok ∧ (tok ++ rest).dropWhile p = rest
  | [], rest, _, hr => by
    rcases hr with rfl | ⟨d, ds, rfl, hd⟩
    · simp
    · simp [hd]
  | c :: cs, rest, ht, hr => by
    have hc : p c = true := ht c List.mem_cons_self
    obtain ⟨e1, e2⟩ := span_tok p cs rest (fun d hd => ht d (List.mem_cons_of_mem _ hd)) hr
    simp [hc, e1, e2]

theorem isAtomChar_of_mem {c : Char} (h : c ∈ atomChars) : isAtomChar c = true := by
  simp only [isAtomChar, List.contains_eq_mem, decide_eq_true_eq]
  exact h

theorem delims_not_atomChar : ∀ c ∈ delims, isAtomChar c = false := by decide

theorem atomChars_not_ws : ∀ c ∈ atomChars, isWs c = false := by decide

theorem restOk_span {rest : List Char} (h : RestOk rest) :
    rest = [] ∨ ∃ d ds, rest = d :: ds ∧ isAtomChar d = false := by
  rcases h with h | ⟨d, ds, h, hd⟩
  · exact Or.inl h
  · exact Or.inr ⟨d, ds, h, delims_not_atomChar d hd⟩

theorem nullLit_eq : "null".toList = nullLit := by decide
theorem trueLit_eq : "true".toList = trueLit := by decide
theorem falseLit_eq : "false".toList = falseLit := by decide

theorem floatTokB_intChars (i : Int) : floatTokB (String.ofList (intChars i)) = false := by
  cases h : floatTokB (String.ofList (intChars i)) with
  | false => rfl
  | true =>
    have ht := (floatTokB_iff _).mp h
    simp only [FloatTok, String.toList_ofList] at ht
    obtain ⟨c, hc, hn⟩ := ht.2.2
    exact absurd (intChars_mem i c hc) hn

theorem toInt?_intChars (i : Int) : (String.ofList (intChars i)).toInt? = some i := by
  simp only [intChars, String.ofList_toList, Int.toString_eq_repr, Int.toInt?_repr]

/-- a complete keyword / number token reads back as the atom that printed it -/
theorem readAtomTok_enc (fv : String → Int × Nat) : (v : JVal) → isAtom v = true →
    FloatsOk fv v → readAtomTok fv (encChars v) = some v
  | .null, _, _ => by
    show readAtomTok fv "null".toList = _
    rw [nullLit_eq, readAtomTok, if_pos rfl]
  | .bool true, _, _ => by
    show readAtomTok fv "true".toList = _
    rw [trueLit_eq, readAtomTok, if_neg (by decide), if_pos rfl]
  | .bool false, _, _ => by
    show readAtomTok fv "false".toList = _
    rw [falseLit_eq, readAtomTok, if_neg (by decide), if_neg (by decide), if_pos rfl]
  | .int i, _, _ => by
    have h1 : intChars i ≠ nullLit :=
      fun h => kw_ne_int (i := i) 'u' (kw := nullLit) (by decide) (by decide) h.symm
    have h2 : intChars i ≠ trueLit :=
      fun h => kw_ne_int (i := i) 'u' (kw := trueLit) (by decide) (by decide) h.symm
    have h3 : intChars i ≠ falseLit :=
      fun h => kw_ne_int (i := i) 'l' (kw := falseLit) (by decide) (by decide) h.symm
    simp only [encChars, readAtomTok, if_neg h1, if_neg h2, if_neg h3, floatTokB_intChars,
      toInt?_intChars, Bool.false_eq_true, if_false, if_true]
  | .flt n e r, _, hv => by
    simp only [FloatsOk] at hv
    have h1 : r.toList ≠ nullLit :=
      fun h => kw_ne_flt hv.1 'u' (kw := nullLit) (by decide) (by decide) h.symm
    have h2 : r.toList ≠ trueLit :=
      fun h => kw_ne_flt hv.1 'u' (kw := trueLit) (by decide) (by decide) h.symm
    have h3 : r.toList ≠ falseLit :=
      fun h => kw_ne_flt hv.1 'l' (kw := falseLit) (by decide) (by decide) h.symm
    have h4 : floatTokB r = true := (floatTokB_iff r).mpr hv.1
    simp only [encChars, readAtomTok, if_neg h1, if_neg h2, if_neg h3, String.ofList_toList, h4,
      if_true, hv.2]
  | .str _, h, _ => by simp [isAtom] at h
  | .arr _, h, _ => by simp [isAtom] at h
  | .obj _, h, _ => by simp [isAtom] at h

theorem readVal_atom_step (fv : String → Int × Nat) (f : Nat) (s : List Char) {c : Char}
    {cs : List Char} (hs : s = c :: cs) (hws : isWs c = false) (h1 : c ≠ '"') (h2 : c ≠ '[')
    (h3 : c ≠ '{') {v : JVal} (hv : readAtomTok fv (s.takeWhile isAtomChar) = some v) :
    readVal fv (f + 1) s = some (v, s.dropWhile isAtomChar) := by
  subst hs
  simp only [readVal, skipWs_cons_of_not_ws hws, if_neg h1, if_neg h2, if_neg h3, hv]

/-- an atom followed by a continuation reads back as the atom and the continuation -/
theorem readVal_atom (fv : String → Int × Nat) (f : Nat) {v : JVal} (hv : isAtom v = true)
    (fvv : FloatsOk fv v) {rest : List Char} (hr : RestOk rest) :
    readVal fv (f + 1) (encChars v ++ rest) = some (v, rest) := by
  have hch := atom_chars fv v hv fvv
  obtain ⟨e1, e2⟩ := span_tok isAtomChar (encChars v) rest
    (fun c hc => isAtomChar_of_mem (hch c hc)) (restOk_span hr)
  cases hcs : encChars v with
  | nil => exact absurd hcs (atom_ne_nil fv v hv fvv)
  | cons c cs =>
    have hc : c ∈ atomChars := hch c (hcs ▸ List.mem_cons_self)
    have hp := atomChars_props c hc
    have := readVal_atom_step fv f (encChars v ++ rest) (c := c) (cs := cs ++ rest)
      (by rw [hcs]; rfl) (atomChars_not_ws c hc) hp.2.1 hp.2.2.1 hp.2.2.2.1
      (by rw [e1]; exact readAtomTok_enc fv v hv fvv)
    rw [e2, hcs] at this
    exact this

/-- first character of a printed value: not whitespace, not a closing bracket -/
theorem encChars_head_ws (fv : String → Int × Nat) (v : JVal) (fvv : FloatsOk fv v) :
    ∃ c cs, encChars v = c :: cs ∧ isWs c = false ∧ c ≠ ']' := by
  cases hv : isAtom v with
  | false =>
    obtain ⟨d, ds, hd, hd'⟩ := nonatom_head v hv
    refine ⟨d, ds, hd, ?_⟩
    rcases hd' with e | e | e <;> (subst e; decide)
  | true =>
    have hch := atom_chars fv v hv fvv
    cases hcs : encChars v with
    | nil => exact absurd hcs (atom_ne_nil fv v hv fvv)
    | cons c cs =>
      rw [hcs] at hch
      have hc := hch c List.mem_cons_self
      have hp := (atomChars_props c hc).1
      exact ⟨c, cs, rfl, atomChars_not_ws c hc, fun h => hp (h ▸ (by decide))⟩

/-! ### fuel -/

mutual
  /-- fuel `readVal` needs for a printed value -/
  def jsize : JVal → Nat
    | .arr xs => 2 + jsizeList xs
    | .obj kvs => 2 + jsizeObj kvs
    | .null => 1
    | .bool _ => 1
    | .int _ => 1
    | .flt _ _ _ => 1
    | .str _ => 1
  def jsizeList : List JVal → Nat
    | [] => 0
    | x :: xs => 1 + jsize x + jsizeList xs
  def jsizeObj : List (String × JVal) → Nat
    | [] => 0
    | (_, v) :: r => 1 + jsize v + jsizeObj r
end

theorem jsize_pos (v : JVal) : 1 ≤ jsize v := by
  cases v <;> simp only [jsize] <;> omega

/-! ### the main induction -/

mutual
  theorem readVal_enc (fv : String → Int × Nat) : (v : JVal) → (fuel : Nat) →
      (rest : List Char) → FloatsOk fv v → RestOk rest → jsize v ≤ fuel →
      readVal fv fuel (encChars v ++ rest) = some (v, rest)
    | .null, fuel, rest, hv, hr, hf => by
      obtain ⟨f, rfl⟩ : ∃ f, fuel = f + 1 := ⟨fuel - 1, by simp only [jsize] at hf; omega⟩
      exact readVal_atom fv f rfl hv hr
    | .bool _, fuel, rest, hv, hr, hf => by
      obtain ⟨f, rfl⟩ : ∃ f, fuel = f + 1 := ⟨fuel - 1, by simp only [jsize] at hf; omega⟩
      exact readVal_atom fv f rfl hv hr
    | .int _, fuel, rest, hv, hr, hf => by
      obtain ⟨f, rfl⟩ : ∃ f, fuel = f + 1 := ⟨fuel - 1, by simp only [jsize] at hf; omega⟩
      exact readVal_atom fv f rfl hv hr
    | .flt _ _ _, fuel, rest, hv, hr, hf => by
      obtain ⟨f, rfl⟩ : ∃ f, fuel = f + 1 := ⟨fuel - 1, by simp only [jsize] at hf; omega⟩
      exact readVal_atom fv f rfl hv hr
    | .str s, fuel, rest, _, _, hf => by
      obtain ⟨f, rfl⟩ : ∃ f, fuel = f + 1 := ⟨fuel - 1, by simp only [jsize] at hf; omega⟩
      simp only [encChars, encStrChars, List.cons_append, List.append_assoc, List.nil_append]
      rw [readVal_str fv f _ (readStrBody_enc s rest), String.ofList_toList]
    | .arr xs, fuel, rest, hv, _, hf => by
      simp only [jsize] at hf
      simp only [FloatsOk] at hv
      obtain ⟨f, rfl⟩ : ∃ f, fuel = f + 2 := ⟨fuel - 2, by omega⟩
      have ih := readElems_enc fv xs f rest
      simp only [encChars, List.cons_append, List.append_assoc, List.nil_append]
      apply readVal_arr
      cases xs with
      | nil => simp only [encListChars, List.nil_append]; exact readArr_nil fv f rest
      | cons x xs' =>
        simp only [FloatsOkList] at hv
        obtain ⟨c, cs, hc, hws, hb⟩ := encChars_head_ws fv x hv.1
        have hcons : encListChars (x :: xs') ++ ']' :: rest
            = c :: (cs ++ listTail xs' (']' :: rest)) := by
          rw [encListChars_cons_append, hc]; rfl
        rw [hcons, readArr_cons fv f _ hws hb, ← hcons]
        exact ih (by simp) (by simp only [FloatsOkList]; exact hv) (by omega)
    | .obj kvs, fuel, rest, hv, _, hf => by
      simp only [jsize] at hf
      simp only [FloatsOk] at hv
      obtain ⟨f, rfl⟩ : ∃ f, fuel = f + 2 := ⟨fuel - 2, by omega⟩
      have ih := readMembers_enc fv kvs f rest
      simp only [encChars, List.cons_append, List.append_assoc, List.nil_append]
      apply readVal_obj
      cases kvs with
      | nil => simp only [encObjChars, List.nil_append]; exact readObj_nil fv f rest
      | cons kv kvs' =>
        obtain ⟨k, v⟩ := kv
        have hcons : encObjChars ((k, v) :: kvs') ++ '}' :: rest
            = '"' :: (escapeChars k.toList ++ '"' :: (':' :: ' ' ::
                (encChars v ++ objTail kvs' ('}' :: rest)))) := by
          rw [encObjChars_cons_append]
          simp only [encStrChars, List.cons_append, List.append_assoc, List.nil_append]
        rw [hcons, readObj_cons, ← hcons]
        exact ih (by simp) hv (by omega)
  theorem readElems_enc (fv : String → Int × Nat) : (xs : List JVal) → (fuel : Nat) →
      (rest : List Char) → xs ≠ [] → FloatsOkList fv xs → jsizeList xs ≤ fuel →
      readElems fv fuel (encListChars xs ++ ']' :: rest) = some (xs, rest)
    | [], _, _, h, _, _ => absurd rfl h
    | x :: xs, fuel, rest, _, hv, hf => by
      simp only [jsizeList] at hf
      simp only [FloatsOkList] at hv
      obtain ⟨f, rfl⟩ : ∃ f, fuel = f + 1 := ⟨fuel - 1, by omega⟩
      have ih := readElems_enc fv xs f rest
      have hx := readVal_enc fv x f (listTail xs (']' :: rest)) hv.1
        (listTail_restOk xs (restOk_brack rest)) (by omega)
      rw [encListChars_cons_append]
      cases xs with
      | nil =>
        simp only [listTail] at hx ⊢
        exact readElems_last fv f _ hx
      | cons x' xs' =>
        simp only [listTail] at hx ⊢
        refine readElems_more fv f _ hx ?_
        rw [readElems_space]
        exact ih (by simp) hv.2 (by omega)
  theorem readMembers_enc (fv : String → Int × Nat) : (kvs : List (String × JVal)) →
      (fuel : Nat) → (rest : List Char) → kvs ≠ [] → FloatsOkObj fv kvs → jsizeObj kvs ≤ fuel →
      readMembers fv fuel (encObjChars kvs ++ '}' :: rest) = some (kvs, rest)
    | [], _, _, h, _, _ => absurd rfl h
    | (k, v) :: kvs, fuel, rest, _, hv, hf => by
      simp only [jsizeObj] at hf
      simp only [FloatsOkObj] at hv
      obtain ⟨f, rfl⟩ : ∃ f, fuel = f + 1 := ⟨fuel - 1, by omega⟩
      have ih := readMembers_enc fv kvs f rest
      have hx := readVal_enc fv v f (objTail kvs ('}' :: rest)) hv.1
        (objTail_restOk kvs (restOk_brace rest)) (by omega)
      rw [← readVal_space] at hx
      rw [encObjChars_cons_append]
      simp only [encStrChars, List.cons_append, List.append_assoc, List.nil_append]
      have hk := readStrBody_enc k (':' :: ' ' :: (encChars v ++ objTail kvs ('}' :: rest)))
      cases kvs with
      | nil =>
        simp only [objTail] at hx hk ⊢
        have := readMembers_last fv f _ hk hx
        rw [String.ofList_toList] at this
        exact this
      | cons kv' kvs' =>
        simp only [objTail] at hx hk ⊢
        have := readMembers_more fv f _ hk hx
          (by rw [readMembers_space]; exact ih (by simp) hv.2 (by omega))
        rw [String.ofList_toList] at this
        exact this
end

/-! ### enough fuel from the text length -/

mutual
  theorem jsize_le : (v : JVal) → jsize v ≤ 2 * (encChars v).length + 1
    | .null => by simp only [jsize]; omega
    | .bool _ => by simp only [jsize]; omega
    | .int _ => by simp only [jsize]; omega
    | .flt _ _ _ => by simp only [jsize]; omega
    | .str _ => by simp only [jsize]; omega
    | .arr xs => by
      have := jsizeList_le xs
      simp only [jsize, encChars, List.length_cons, List.length_append, List.length_nil]
      omega
    | .obj kvs => by
      have := jsizeObj_le kvs
      simp only [jsize, encChars, List.length_cons, List.length_append, List.length_nil]
      omega
  theorem jsizeList_le : (xs : List JVal) → jsizeList xs ≤ 2 * (encListChars xs).length + 2
    | [] => by simp only [jsizeList]; omega
    | x :: xs => by
      have h1 := jsize_le x
      have h2 := jsizeList_le xs
      cases xs with
      | nil => simp only [jsizeList, encListChars] at h2 ⊢; omega
      | cons y ys =>
        simp only [jsizeList, encListChars, List.length_cons, List.length_append] at h2 ⊢
        omega
  theorem jsizeObj_le : (kvs : List (String × JVal)) →
      jsizeObj kvs ≤ 2 * (encObjChars kvs).length + 2
    | [] => by simp only [jsizeObj]; omega
    | (k, v) :: kvs => by
      have h1 := jsize_le v
      have h2 := jsizeObj_le kvs
      cases kvs with
      | nil =>
        simp only [jsizeObj, encObjChars, List.length_cons, List.length_append] at h2 ⊢; omega
      | cons y ys =>
        simp only [jsizeObj, encObjChars, List.length_cons, List.length_append] at h2 ⊢
        omega
end

/-- `parse_enc`: reading a printed value followed by a continuation, with the fuel `parseText`
    uses for that text, gives the value and the continuation back. -/
theorem parse_enc (fv : String → Int × Nat) {v : JVal} {rest : List Char}
    (hv : FloatsOk fv v) (hr : RestOk rest) :
    readVal fv (parseFuel (encChars v ++ rest)) (encChars v ++ rest) = some (v, rest) := by
  apply readVal_enc fv v _ rest hv hr
  have := jsize_le v
  simp only [parseFuel, List.length_append]
  omega

/-- reading the text `json.dumps(v)` gives `v` back -/
theorem parseText_enc (fv : String → Int × Nat) {v : JVal} (hv : FloatsOk fv v) :
    parseText fv (encChars v) = some v := by
  have h := parse_enc fv hv restOk_nil
  simp only [List.append_nil] at h
  simp [parseText, h, skipWs]

/-- reading the hashed text `json.dumps(v, sort_keys=True)` gives the canonical value -/
theorem parseText_canonChars (fv : String → Int × Nat) {v : JVal} (hv : FloatsOk fv v) :
    parseText fv (canonChars v) = some (canon v) :=
  parseText_enc fv (canon_floatsOk fv v hv)

/-- Remark (P1b item 3): with the reader, injectivity of the writer is a two-line corollary;
    the direct proof `encChars_inj` (Proofs/EncInj.lean) is kept. -/
theorem encChars_inj_via_parse (fv : String → Int × Nat) {v w : JVal} (hv : FloatsOk fv v)
    (hw : FloatsOk fv w) (h : encChars v = encChars w) : v = w := by
  have := parseText_enc fv hv
  rw [h, parseText_enc fv hw] at this
  exact (Option.some.inj this).symm

end Signac

/-
  Helper lemmas for C07 (groupby): sorting mutually orderable, well-formed labels with Python's
  `<` puts `==` labels next to each other, so `itertools.groupby` never opens two groups with
  `==` labels.
-/
import Signac.Proofs.QueryOrder
import Signac.Proofs.QueryFront
import Signac.Proofs.QueryFull
namespace Signac.Query
open Signac

/-- `a <= b` answered positively -/
def leL (a b : JVal) : Prop := pyCmp a b = .lt ∨ pyCmp a b = .eq

/-- `a` and `b` can be ordered, either way round -/
def Orderable (a b : JVal) : Prop := pyCmp a b ≠ .typeError ∧ pyCmp b a ≠ .typeError

theorem lt_of_lt_of_leL {a b c : JVal} (ha : keysOK a = true) (hb : keysOK b = true)
    (hc : keysOK c = true) (h1 : pyCmp a b = .lt) (h2 : leL b c) : pyCmp a c = .lt := by
  rcases h2 with h2 | h2
  · exact pyCmp_lt_trans a ha b c hb hc h1 h2
  · have e : pyEq b c = true := (pyCmp_eq_iff b hb c (by rw [h2]; exact fun e => Cmp.noConfusion e)).mpr h2
    rw [← pyCmp_congr_right ha hb hc e]; exact h1

theorem leL_trans {a b c : JVal} (ha : keysOK a = true) (hb : keysOK b = true)
    (hc : keysOK c = true) (h1 : leL a b) (h2 : leL b c) : leL a c := by
  rcases h1 with h1 | h1
  · exact Or.inl (lt_of_lt_of_leL ha hb hc h1 h2)
  · have e : pyEq a b = true := (pyCmp_eq_iff a ha b (by rw [h1]; exact fun e => Cmp.noConfusion e)).mpr h1
    unfold leL
    rw [pyCmp_congr_wf a ha b c e]; exact h2

theorem comparableWithAll_iff (l : JVal) : ∀ (rest : List (JVal × JobId)),
    comparableWithAll l rest = true ↔ ∀ q ∈ rest, Orderable l q.1
  | [] => by simp [comparableWithAll]
  | (l', i) :: rest => by
    simp only [comparableWithAll, Bool.and_eq_true, comparableWithAll_iff l rest, List.mem_cons,
      forall_eq_or_imp, Orderable, bne_iff_ne, ne_eq, and_assoc]

theorem allComparable_iff : ∀ (ls : List (JVal × JobId)),
    allComparable ls = true ↔ ls.Pairwise (fun p q => Orderable p.1 q.1)
  | [] => by simp [allComparable]
  | (l, i) :: rest => by
    simp only [allComparable, Bool.and_eq_true, comparableWithAll_iff, allComparable_iff rest,
      List.pairwise_cons]

theorem Orderable.symm {a b : JVal} (h : Orderable a b) : Orderable b a := ⟨h.2, h.1⟩

theorem insertSorted_sorted (x : JVal × JobId) (hx : keysOK x.1 = true) :
    ∀ (ys : List (JVal × JobId)), (∀ y ∈ ys, keysOK y.1 = true) → (∀ y ∈ ys, Orderable x.1 y.1) →
    ys.Pairwise (fun p q => leL p.1 q.1) → (insertSorted x ys).Pairwise (fun p q => leL p.1 q.1)
  | [], _, _, _ => by simp [insertSorted]
  | y :: ys, hw, ho, hs => by
    rw [List.pairwise_cons] at hs
    have hy := hw y List.mem_cons_self
    simp only [insertSorted]
    split
    · rename_i hgt
      have hgt' : pyCmp x.1 y.1 = .gt := by simpa using hgt
      rw [List.pairwise_cons]
      refine ⟨?_, insertSorted_sorted x hx ys (fun z hz => hw z (List.mem_cons_of_mem _ hz))
        (fun z hz => ho z (List.mem_cons_of_mem _ hz)) hs.2⟩
      intro z hz
      rcases List.mem_cons.mp ((insertSorted_perm x ys).mem_iff.mp hz) with e | hz
      · rw [e]; left
        rw [pyCmp_flip x.1 hx y.1 hy, hgt']; rfl
      · exact hs.1 z hz
    · rename_i hgt
      have hgt' : pyCmp x.1 y.1 ≠ .gt := by simpa using hgt
      have hxy : leL x.1 y.1 := by
        have := (ho y List.mem_cons_self).1
        unfold leL
        cases hc : pyCmp x.1 y.1 with
        | lt => exact Or.inl rfl
        | eq => exact Or.inr rfl
        | gt => exact absurd hc hgt'
        | typeError => exact absurd hc this
      rw [List.pairwise_cons]
      refine ⟨?_, List.pairwise_cons.mpr hs⟩
      intro z hz
      rcases List.mem_cons.mp hz with e | hz
      · rw [e]; exact hxy
      · exact leL_trans hx hy (hw z (List.mem_cons_of_mem _ hz)) hxy (hs.1 z hz)

theorem sortLabelled_sorted : ∀ (ls : List (JVal × JobId)), (∀ p ∈ ls, keysOK p.1 = true) →
    ls.Pairwise (fun p q => Orderable p.1 q.1) →
    (sortLabelled ls).Pairwise (fun p q => leL p.1 q.1)
  | [], _, _ => by simp [sortLabelled]
  | x :: xs, hw, ho => by
    rw [List.pairwise_cons] at ho
    simp only [sortLabelled]
    refine insertSorted_sorted x (hw x List.mem_cons_self) _ ?_ ?_
      (sortLabelled_sorted xs (fun p hp => hw p (List.mem_cons_of_mem _ hp)) ho.2)
    · intro y hy
      exact hw y (List.mem_cons_of_mem _ ((sortLabelled_perm xs).mem_iff.mp hy))
    · intro y hy
      exact ho.1 y ((sortLabelled_perm xs).mem_iff.mp hy)

/-- groups opened along a sorted run carry pairwise non-`==` labels -/
theorem groupFrom_distinct : ∀ (rest : List (JVal × JobId)) (l : JVal) (acc : List JobId),
    keysOK l = true → (∀ p ∈ rest, keysOK p.1 = true) → (∀ p ∈ rest, leL l p.1) →
    rest.Pairwise (fun p q => leL p.1 q.1) →
    (groupFrom l acc rest).Pairwise (fun g g' => pyEq g.1 g'.1 = false)
      ∧ ∀ g ∈ groupFrom l acc rest, g.1 = l ∨ ∃ p ∈ rest, g.1 = p.1
  | [], l, acc, _, _, _, _ => by
    simp only [groupFrom, List.pairwise_cons, List.not_mem_nil, false_implies, implies_true,
      List.Pairwise.nil, and_self, List.mem_singleton, true_and]
    intro g hg; left; rw [hg]
  | (l', i) :: rest, l, acc, hl, hw, hle, hs => by
    rw [List.pairwise_cons] at hs
    have hl' := hw (l', i) List.mem_cons_self
    have hw' : ∀ p ∈ rest, keysOK p.1 = true := fun p hp => hw p (List.mem_cons_of_mem _ hp)
    simp only [groupFrom]
    split
    · obtain ⟨h1, h2⟩ := groupFrom_distinct rest l (i :: acc) hl hw'
        (fun p hp => hle p (List.mem_cons_of_mem _ hp)) hs.2
      refine ⟨h1, ?_⟩
      intro g hg
      rcases h2 g hg with e | ⟨p, hp, e⟩
      · exact Or.inl e
      · exact Or.inr ⟨p, List.mem_cons_of_mem _ hp, e⟩
    · rename_i hne
      have hne' : pyEq l l' = false := by simpa using hne
      obtain ⟨h1, h2⟩ := groupFrom_distinct rest l' [i] hl' hw' hs.1 hs.2
      have hlt : pyCmp l l' = .lt := by
        rcases hle (l', i) List.mem_cons_self with h | h
        · exact h
        · have := (pyCmp_eq_iff l hl l' (by rw [h]; exact fun e => Cmp.noConfusion e)).mpr h
          rw [hne'] at this; cases this
      constructor
      · rw [List.pairwise_cons]
        refine ⟨?_, h1⟩
        intro g hg
        rcases h2 g hg with e | ⟨p, hp, e⟩
        · show pyEq l g.1 = false
          rw [e]; exact hne'
        · show pyEq l g.1 = false
          rw [e]
          exact pyCmp_lt_ne hl (lt_of_lt_of_leL hl hl' (hw' p hp) hlt (hs.1 p hp))
      · intro g hg
        rcases List.mem_cons.mp hg with e | hg
        · left; rw [e]
        · rcases h2 g hg with e | ⟨p, hp, e⟩
          · exact Or.inr ⟨(l', i), List.mem_cons_self, e⟩
          · exact Or.inr ⟨p, List.mem_cons_of_mem _ hp, e⟩

theorem groupAdjacent_distinct : ∀ (ls : List (JVal × JobId)), (∀ p ∈ ls, keysOK p.1 = true) →
    ls.Pairwise (fun p q => leL p.1 q.1) →
    (groupAdjacent ls).Pairwise (fun g g' => pyEq g.1 g'.1 = false)
  | [], _, _ => by simp [groupAdjacent]
  | (l, i) :: rest, hw, hs => by
    rw [List.pairwise_cons] at hs
    simp only [groupAdjacent]
    exact (groupFrom_distinct rest l [i] (hw (l, i) List.mem_cons_self)
      (fun p hp => hw p (List.mem_cons_of_mem _ hp)) hs.1 hs.2).1

/-! ### labels of well-formed jobs are well-formed -/

theorem keysOK_getPath : ∀ {nodes : List String} {d w : JVal},
    keysOK d = true → getPath nodes d = some w → keysOK w = true
  | [], d, w, hf, h => by simp only [getPath, Option.some.injEq] at h; rw [← h]; exact hf
  | n :: ns, .obj kvs, w, hf, h => by
    simp only [getPath] at h
    cases hl : lookupKV n kvs with
    | none => rw [hl] at h; cases h
    | some x =>
      rw [hl] at h
      exact keysOK_getPath ((keysOK_obj.mp hf).2 n x (lookupKV_mem hl)) h
  | _ :: _, .null, _, _, h => by simp [getPath] at h
  | _ :: _, .bool _, _, _, h => by simp [getPath] at h
  | _ :: _, .int _, _, _, h => by simp [getPath] at h
  | _ :: _, .flt _ _ _, _, _, h => by simp [getPath] at h
  | _ :: _, .str _, _, _, h => by simp [getPath] at h
  | _ :: _, .arr _, _, _, h => by simp [getPath] at h

theorem keysOK_job {j : Job} (h : keysOK (fullDoc j) = true) :
    keysOK j.sp = true ∧ keysOK (j.doc.getD (.obj [])) = true := by
  cases hd : j.doc with
  | none =>
    simp only [fullDoc, indexedDoc, hd] at h
    exact ⟨(keysOK_obj.mp h).2 "sp" j.sp (by simp), rfl⟩
  | some d =>
    simp only [fullDoc, indexedDoc, hd] at h
    exact ⟨(keysOK_obj.mp h).2 "sp" j.sp (by simp), (keysOK_obj.mp h).2 "doc" d (by simp)⟩

theorem keyValue_wf {j : Job} {key : String} {dflt : Option JVal} {v : JVal}
    (hj : keysOK (fullDoc j) = true) (hd : ∀ d, dflt = some d → keysOK d = true)
    (h : keyValue j key dflt = .ok v) : keysOK v = true := by
  unfold keyValue at h
  obtain ⟨h1, h2⟩ := keysOK_job hj
  have hsrc : keysOK (if isDocKey key then j.doc.getD (.obj []) else j.sp) = true := by
    split <;> assumption
  simp only at h
  cases hp : getPath (nodesOf (stripPrefix key)) (if isDocKey key then j.doc.getD (.obj []) else j.sp) with
  | some w =>
    rw [hp] at h
    simp only [Except.ok.injEq] at h
    rw [← h]; exact keysOK_getPath hsrc hp
  | none =>
    rw [hp] at h
    cases dflt with
    | none => cases h
    | some d =>
      simp only [Except.ok.injEq] at h
      rw [← h]; exact hd d rfl

theorem keyValues_wf {j : Job} {dflt : Option JVal}
    (hj : keysOK (fullDoc j) = true) (hd : ∀ d, dflt = some d → keysOK d = true) :
    ∀ {ks : List String} {vs : List JVal}, keyValues j dflt ks = .ok vs → ∀ v ∈ vs, keysOK v = true
  | [], vs, h => by
    simp only [keyValues, Except.ok.injEq] at h
    subst h; simp
  | k :: ks, vs, h => by
    simp only [keyValues] at h
    cases hv : keyValue j k dflt with
    | error e => rw [hv] at h; cases h
    | ok v =>
      rw [hv] at h
      simp only at h
      cases hr : keyValues j dflt ks with
      | error e => rw [hr] at h; cases h
      | ok r =>
        rw [hr] at h
        simp only [Except.ok.injEq] at h
        subst h
        intro w hw
        rcases List.mem_cons.mp hw with e | hw
        · rw [e]; exact keyValue_wf hj hd hv
        · exact keyValues_wf hj hd hr w hw

theorem labelOf_wf {j : Job} {gk : GroupKeys} {dflt : Option JVal} {l : JVal}
    (hj : keysOK (fullDoc j) = true) (hd : ∀ d, dflt = some d → keysOK d = true)
    (h : labelOf j gk dflt = .ok l) : keysOK l = true := by
  cases gk with
  | byId =>
    simp only [labelOf, Except.ok.injEq] at h
    rw [← h]; rfl
  | single k => exact keyValue_wf hj hd h
  | multi ks =>
    simp only [labelOf] at h
    cases hv : keyValues j dflt (ks.filter (fun k => !isDocKey k) ++ ks.filter isDocKey) with
    | error e => rw [hv] at h; cases h
    | ok vs =>
      rw [hv] at h
      simp only [Except.ok.injEq] at h
      rw [← h, keysOK_arr]
      exact keyValues_wf hj hd hv

/-- what `groupby` returned, unfolded -/
theorem groupby_ok {P : Params} {c : Corpus} {flt : JVal} {gk : GroupKeys} {dflt : Option JVal}
    {gs : List (JVal × List JobId)} (h : groupby P c flt gk dflt = .ok gs) :
    ∃ ls, (∀ p ∈ ls, ∃ j ∈ c, j.id = p.2 ∧ labelOf j gk dflt = .ok p.1) ∧ allComparable ls = true
      ∧ gs = groupAdjacent (sortLabelled ls) := by
  unfold groupby at h
  cases hf : findJobs P c (groupFilter flt gk dflt) with
  | error e => rw [hf] at h; cases h
  | ok ids =>
    rw [hf] at h
    simp only at h
    cases hl : labelJobs c gk dflt ((c.map (·.id)).filter (fun i => ids.contains i)) with
    | error e => rw [hl] at h; cases h
    | ok ls =>
      rw [hl] at h
      simp only at h
      split at h
      · rename_i hc
        simp only [Except.ok.injEq] at h
        exact ⟨ls, (labelJobs_spec hl).2, hc, h.symm⟩
      · cases h

/-- two different groups returned by `groupby` never carry `==` labels, for jobs (and a default)
    whose mappings have distinct keys -/
theorem groupby_distinct {P : Params} {c : Corpus} {flt : JVal} {gk : GroupKeys} {dflt : Option JVal}
    {gs : List (JVal × List JobId)} (hc : Full.CorpusKeysNodup c)
    (hd : ∀ d, dflt = some d → keysOK d = true) (h : groupby P c flt gk dflt = .ok gs) :
    gs.Pairwise (fun g g' => pyEq g.1 g'.1 = false) := by
  obtain ⟨ls, hlab, hcmp, rfl⟩ := groupby_ok h
  have hw : ∀ p ∈ ls, keysOK p.1 = true := by
    intro p hp
    obtain ⟨j, hj, _, hl⟩ := hlab p hp
    exact labelOf_wf (hc j hj) hd hl
  have hw' : ∀ p ∈ sortLabelled ls, keysOK p.1 = true :=
    fun p hp => hw p ((sortLabelled_perm ls).mem_iff.mp hp)
  exact groupAdjacent_distinct _ hw' (sortLabelled_sorted ls hw ((allComparable_iff ls).mp hcmp))

end Signac.Query

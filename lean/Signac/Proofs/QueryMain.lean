/-
  Helper lemmas for C06, assembly: a filter that is well-typed on the corpus and free of the
  bool/int slot clash has exact atom lookups everywhere (`Good`), hence `_find_result` returns
  exactly the jobs `evalRef` accepts.
-/
import Signac.Proofs.QueryIndex
namespace Signac.Query
open Signac

mutual
  /-- no `$type` atom anywhere in the filter is applied to a key under which two jobs hold
      slot-sharing values of different Python type -/
  def NoClash (docs : List (JobId × JVal)) : Flt → Prop
    | .mk atoms n a o =>
      (∀ kv ∈ flatten atoms, ∀ nodes, analyseKey kv.1 = .op nodes "$type" → TypeStable docs nodes)
        ∧ NoClashOpt docs n ∧ NoClashOptList docs a ∧ NoClashOptList docs o
  def NoClashOpt (docs : List (JobId × JVal)) : Option Flt → Prop
    | none => True
    | some f => NoClash docs f
  def NoClashOptList (docs : List (JobId × JVal)) : Option (List Flt) → Prop
    | none => True
    | some fs => NoClashList docs fs
  def NoClashList (docs : List (JobId × JVal)) : List Flt → Prop
    | [] => True
    | f :: fs => NoClash docs f ∧ NoClashList docs fs
end

/-- direct evaluation raises for no document of `D` -/
def WTon (P : Params) (D : JVal → Prop) (f : Flt) : Prop := ∀ d, D d → ∃ b, evalRef P d f = .ok b

theorem evalAtoms_ok_mem {P : Params} {d : JVal} : ∀ {l : List (String × JVal)} {b : Bool},
    evalAtoms P d l = .ok b → ∀ kv ∈ l, ∃ b', evalAtom P d kv.1 kv.2 = .ok b'
  | [], _, _, kv, h => by cases h
  | (k, v) :: rest, b, he, kv, h => by
    simp only [evalAtoms] at he
    cases h1 : evalAtom P d k v with
    | error e => rw [h1] at he; cases he
    | ok b1 =>
      rw [h1] at he
      cases h2 : evalAtoms P d rest with
      | error e => rw [h2] at he; cases he
      | ok b2 =>
        rcases List.mem_cons.mp h with rfl | h
        · exact ⟨b1, h1⟩
        · exact evalAtoms_ok_mem h2 kv h

theorem evalAll_ok_mem {P : Params} {d : JVal} : ∀ {l : List Flt} {b : Bool},
    evalAll P d l = .ok b → ∀ f ∈ l, ∃ b', evalRef P d f = .ok b'
  | [], _, _, f, h => by cases h
  | g :: rest, b, he, f, h => by
    simp only [evalAll] at he
    cases h1 : evalRef P d g with
    | error e => rw [h1] at he; cases he
    | ok b1 =>
      rw [h1] at he
      cases h2 : evalAll P d rest with
      | error e => rw [h2] at he; cases he
      | ok b2 =>
        rcases List.mem_cons.mp h with rfl | h
        · exact ⟨b1, h1⟩
        · exact evalAll_ok_mem h2 f h

theorem evalAny_ok_mem {P : Params} {d : JVal} : ∀ {l : List Flt} {b : Bool},
    evalAny P d l = .ok b → ∀ f ∈ l, ∃ b', evalRef P d f = .ok b'
  | [], _, _, f, h => by cases h
  | g :: rest, b, he, f, h => by
    simp only [evalAny] at he
    cases h1 : evalRef P d g with
    | error e => rw [h1] at he; cases he
    | ok b1 =>
      rw [h1] at he
      cases h2 : evalAny P d rest with
      | error e => rw [h2] at he; cases he
      | ok b2 =>
        rcases List.mem_cons.mp h with rfl | h
        · exact ⟨b1, h1⟩
        · exact evalAny_ok_mem h2 f h

/-- the documents a well-typedness hypothesis speaks about: every job's, and the empty document
    (so that exceptions that do not depend on any job are excluded for the empty corpus too) -/
def DocsAnd0 (docs : List (JobId × JVal)) (d : JVal) : Prop := d = .obj [] ∨ ∃ i, (i, d) ∈ docs

theorem wt_of_wton {P : Params} {docs : List (JobId × JVal)} {f : Flt}
    (h : WTon P (DocsAnd0 docs) f) : WT P docs f :=
  fun i d hd => h d (Or.inr ⟨i, hd⟩)

mutual
  theorem good_of_wt {P : Params} {docs : List (JobId × JVal)} (hu : UniqueIds docs)
      (hP : NearRespectsEq P) (hfl : ∀ nodes, FlatAt nodes docs) :
      ∀ f : Flt, WTon P (DocsAnd0 docs) f → NoClash docs f → Good P docs f
    | .mk atoms n a o, hwt, hnc => by
      obtain ⟨hc1, hc2, hc3, hc4⟩ := hnc
      cases hne : (atoms.isEmpty && n.isNone && a.isNone && o.isNone) with
      | true =>
        simp only [Bool.and_eq_true, List.isEmpty_iff, Option.isNone_iff_eq_none] at hne
        obtain ⟨⟨⟨rfl, rfl⟩, rfl⟩, rfl⟩ := hne
        exact ⟨by simp [flatten], trivial, trivial, trivial⟩
      | false =>
        have parts := fun d hd => (hwt d hd).elim (fun b hb => evalRef_ok_parts hne hb)
        refine ⟨?_, ?_, ?_, ?_⟩
        · intro kv hkv
          refine atomGood hu hP hfl kv.1 kv.2 ?_ ?_ (hc1 kv hkv)
          · intro i d hd
            obtain ⟨⟨b1, h1⟩, _⟩ := parts d (Or.inr ⟨i, hd⟩)
            exact evalAtoms_ok_mem h1 kv hkv
          · obtain ⟨⟨b1, h1⟩, _⟩ := parts (.obj []) (Or.inl rfl)
            exact evalAtoms_ok_mem h1 kv hkv
        · exact good_of_wt_opt hu hP hfl n (fun d hd => (parts d hd).2.1) hc2
        · exact good_of_wt_all hu hP hfl a (fun d hd => (parts d hd).2.2.1) hc3
        · exact good_of_wt_any hu hP hfl o (fun d hd => (parts d hd).2.2.2) hc4
  theorem good_of_wt_opt {P : Params} {docs : List (JobId × JVal)} (hu : UniqueIds docs)
      (hP : NearRespectsEq P) (hfl : ∀ nodes, FlatAt nodes docs) :
      ∀ n : Option Flt, (∀ d, DocsAnd0 docs d → ∃ b, evalNot P d n = .ok b) → NoClashOpt docs n →
        GoodOpt P docs n
    | none, _, _ => trivial
    | some f, h, hnc => by
      have hw : WTon P (DocsAnd0 docs) f := by
        intro d hd
        obtain ⟨b, hb⟩ := h d hd
        simp only [evalNot] at hb
        cases h1 : evalRef P d f with
        | error e => rw [h1] at hb; cases hb
        | ok b1 => exact ⟨b1, rfl⟩
      exact ⟨wt_of_wton hw, good_of_wt hu hP hfl f hw hnc⟩
  theorem good_of_wt_all {P : Params} {docs : List (JobId × JVal)} (hu : UniqueIds docs)
      (hP : NearRespectsEq P) (hfl : ∀ nodes, FlatAt nodes docs) :
      ∀ a : Option (List Flt), (∀ d, DocsAnd0 docs d → ∃ b, evalAllOpt P d a = .ok b) →
        NoClashOptList docs a → GoodOptList P docs a
    | none, _, _ => trivial
    | some [], h, _ => by
      obtain ⟨b, hb⟩ := h (.obj []) (Or.inl rfl)
      simp [evalAllOpt] at hb
    | some (f :: fs), h, hnc =>
      ⟨by simp, good_of_wt_list hu hP hfl (f :: fs)
        (fun g hg d hd => (h d hd).elim (fun b hb => evalAll_ok_mem hb g hg)) hnc⟩
  theorem good_of_wt_any {P : Params} {docs : List (JobId × JVal)} (hu : UniqueIds docs)
      (hP : NearRespectsEq P) (hfl : ∀ nodes, FlatAt nodes docs) :
      ∀ o : Option (List Flt), (∀ d, DocsAnd0 docs d → ∃ b, evalAnyOpt P d o = .ok b) →
        NoClashOptList docs o → GoodOptList P docs o
    | none, _, _ => trivial
    | some [], h, _ => by
      obtain ⟨b, hb⟩ := h (.obj []) (Or.inl rfl)
      simp [evalAnyOpt] at hb
    | some (f :: fs), h, hnc =>
      ⟨by simp, good_of_wt_list hu hP hfl (f :: fs)
        (fun g hg d hd => (h d hd).elim (fun b hb => evalAny_ok_mem hb g hg)) hnc⟩
  theorem good_of_wt_list {P : Params} {docs : List (JobId × JVal)} (hu : UniqueIds docs)
      (hP : NearRespectsEq P) (hfl : ∀ nodes, FlatAt nodes docs) :
      ∀ fs : List Flt, (∀ g ∈ fs, WTon P (DocsAnd0 docs) g) → NoClashList docs fs →
        GoodList P docs fs
    | [], _, _ => trivial
    | f :: fs, h, hnc =>
      ⟨wt_of_wton (h f (by simp)), good_of_wt hu hP hfl f (h f (by simp)) hnc.1,
        good_of_wt_list hu hP hfl fs (fun g hg => h g (by simp [hg])) hnc.2⟩
end

/-- `_find_result` on a well-typed, clash-free filter: exactly the jobs `evalRef` accepts -/
theorem findResult_exact {P : Params} {docs : List (JobId × JVal)} (hu : UniqueIds docs)
    (hP : NearRespectsEq P) (hfl : ∀ nodes, FlatAt nodes docs) (f : Flt)
    (hwt : WTon P (DocsAnd0 docs) f) (hnc : NoClash docs f) :
    ∃ r, findResult P docs f = .ok r ∧ Sel docs (fun d => evalRef P d f = .ok true) r :=
  findResult_spec hu f (good_of_wt hu hP hfl f hwt hnc)

end Signac.Query

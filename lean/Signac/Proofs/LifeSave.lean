/-
  Case rule for one step (`exec_step`) and the behaviour of `_StatePointDict.save` when the
  state-point file is absent (`save_absent`): under every event schedule the directory keeps
  payload and backup; the state-point file ends up absent or complete — never partial.
-/
import Signac.Proofs.LifeFrame
namespace Signac.Life
variable {Sp : Type}

/-- directory `d'` has the payload and backup of `d` and the given state-point file -/
def SpOnly (d d' : JobDir Sp) (sp : Option (Content Sp)) : Prop :=
  d'.sp = sp ∧ d'.entries = d.entries ∧ d'.bak = d.bak

theorem exec_step (C : Codec Sp) (ev : Nat → Option Ev) (Q : Outcome Sp → Prop) (s : Step Sp)
    (k : Option Errno → Prog Sp) (a : Acc Sp) (w : World Sp)
    (hcrash : Q ⟨w, .crashed, a⟩)
    (htorn : ∀ t, Q ⟨tornApply C w s t, .crashed, a⟩)
    (hfault : ∀ e, ev a.n = some (.fault e) → Q (exec C ev (k (some e)) (a.flt s) w))
    (hok : ∀ w', apply C w s = .ok w' → Q (exec C ev (k none) (a.ok s) w'))
    (herr : ∀ e, apply C w s = .error e → Q (exec C ev (k (some e)) (a.ok s) w)) :
    Q (exec C ev (.step s k) a w) := by
  simp only [exec]
  split
  · exact hcrash
  · exact htorn _
  · exact hfault _ ‹_›
  · split
    · exact hok _ ‹_›
    · exact herr _ ‹_›

section save
variable (C : Codec Sp) (ev : Nat → Option Ev) (Q : Outcome Sp → Prop) (k : Key) (v : Sp)
  (next : Prog Sp) (w : World Sp) (d : JobDir Sp)
  (hcrash : ∀ w' a' d', w' k = some d' → SpOnly d d' none → (∀ k', k' ≠ k → w' k' = w k') → Q ⟨w', .crashed, a'⟩)
  (hexc : ∀ w' a' d' e, w' k = some d' → SpOnly d d' none → (∀ k', k' ≠ k → w' k' = w k') →
    a'.faulted = true → Q ⟨w', osExc e, a'⟩)

include hcrash hexc in
/-- the error path of `save`: swallow (EEXIST/EACCES) or `os.remove(sp)` and re-raise -/
theorem saveErr_cases (e : Errno) (a' : Acc Sp) (w1 : World Sp) (d1 : JobDir Sp)
    (h1 : w1 k = some d1) (hs1 : SpOnly d d1 none) (hfr : ∀ k', k' ≠ k → w1 k' = w k')
    (hf : a'.faulted = true)
    (hnext : ∀ w' a' d', w' k = some d' → (∀ k', k' ≠ k → w' k' = w k') →
      SpOnly d d' none → a'.faulted = true → Q (exec C ev next a' w')) :
    Q (exec C ev (if e = .EEXIST ∨ e = .EACCES then next
                  else .step (.rmSp k) (fun _ => .done (osExc e))) a' w1) := by
  split
  · exact hnext w1 a' d1 h1 hfr hs1 hf
  · refine exec_step C ev Q _ _ a' w1 ?_ ?_ ?_ ?_ ?_
    · exact hcrash w1 a' d1 h1 hs1 hfr
    · intro t; simp only [tornApply]; exact hcrash w1 a' d1 h1 hs1 hfr
    · intro e' _; simp only [exec]; exact hexc w1 _ d1 e h1 hs1 hfr rfl
    · intro w' hw'; simp [apply, h1, hs1.1] at hw'
    · intro e' _; simp only [exec]; exact hexc w1 _ d1 e h1 hs1 hfr (by simpa [Acc.ok] using hf)

include hcrash hexc in
theorem save_absent (a : Acc Sp) (hd : w k = some d) (hsp : d.sp = none)
    (hnext : ∀ w' a' d', w' k = some d' → (∀ k', k' ≠ k → w' k' = w k') →
      (SpOnly d d' (some (.ok v)) ∧ a'.faulted = a.faulted ∨ SpOnly d d' none ∧ a'.faulted = true) →
      Q (exec C ev next a' w')) :
    Q (exec C ev (saveProg k v false next) a w) := by
  have hns : hasSpFile w k = false := by simp [hasSpFile, hd, hsp]
  have hnext' : ∀ w' a' d', w' k = some d' → (∀ k', k' ≠ k → w' k' = w k') →
      SpOnly d d' none → a'.faulted = true → Q (exec C ev next a' w') :=
    fun w' a' d' h1 h2 h3 h4 => hnext w' a' d' h1 h2 (Or.inr ⟨h3, h4⟩)
  have hself : ∀ k', k' ≠ k → w k' = w k' := fun _ _ => rfl
  simp only [saveProg]
  rw [exec]
  simp only [hns, Bool.false_or, Bool.not_false, if_true]
  -- step 1: open the temp file
  refine exec_step C ev Q _ _ a w (hcrash w a d hd ⟨hsp, rfl, rfl⟩ hself)
    (fun t => by simp only [tornApply]; exact hcrash w a d hd ⟨hsp, rfl, rfl⟩ hself) ?_ ?_ ?_
  · intro e _
    exact saveErr_cases C ev Q k next w d hcrash hexc e _ w d hd ⟨hsp, rfl, rfl⟩ hself rfl hnext'
  · intro w1 hw1
    simp only [apply, hd] at hw1
    cases hw1
    have h1 : upd w k (some { d with strays := (spName, Content.junk "") :: d.strays }) k = some _ := upd_same ..
    have hfr1 : ∀ k', k' ≠ k → upd w k (some { d with strays := (spName, Content.junk "") :: d.strays }) k' = w k' :=
      fun k' hk' => upd_other _ _ hk'
    -- step 2: write the chunk
    refine exec_step C ev Q _ _ _ _ (hcrash _ _ _ h1 ⟨hsp, rfl, rfl⟩ hfr1) ?_ ?_ ?_ ?_
    · intro t
      simp only [tornApply, h1]
      exact hcrash _ _ _ (upd_same ..) ⟨hsp, rfl, rfl⟩ (fun k' hk' => by rw [upd_other _ _ hk', upd_other _ _ hk'])
    · intro e _
      exact saveErr_cases C ev Q k next w d hcrash hexc e _ _ _ h1 ⟨hsp, rfl, rfl⟩ hfr1 rfl hnext'
    · intro w2 hw2
      simp only [apply, h1] at hw2
      cases hw2
      have h2 : ∀ (x : JobDir Sp), upd (upd w k (some { d with strays := (spName, Content.junk "") :: d.strays })) k (some x) k = some x :=
        fun x => upd_same ..
      have hfr2 : ∀ (x : JobDir Sp) k', k' ≠ k →
          upd (upd w k (some { d with strays := (spName, Content.junk "") :: d.strays })) k (some x) k' = w k' :=
        fun x k' hk' => by rw [upd_other _ _ hk', upd_other _ _ hk']
      -- step 3: replace temp -> state-point file
      refine exec_step C ev Q _ _ _ _ (hcrash _ _ _ (h2 _) ⟨hsp, rfl, rfl⟩ (hfr2 _)) ?_ ?_ ?_ ?_
      · intro t; simp only [tornApply]; exact hcrash _ _ _ (h2 _) ⟨hsp, rfl, rfl⟩ (hfr2 _)
      · intro e _
        exact saveErr_cases C ev Q k next w d hcrash hexc e _ _ _ (h2 _) ⟨hsp, rfl, rfl⟩ (hfr2 _) rfl hnext'
      · intro w3 hw3
        simp only [apply, h2, setStray, getStray, if_true] at hw3
        cases hw3
        refine hnext _ _ _ (upd_same ..) (fun k' hk' => by rw [upd_other _ _ hk']; exact hfr2 _ k' hk')
          (Or.inl ⟨⟨rfl, rfl, rfl⟩, rfl⟩)
      · intro e he
        simp [apply, h2, setStray, getStray] at he
    · intro e he
      simp [apply, h1] at he
  · intro e he
    simp [apply, hd] at he
end save

end Signac.Life

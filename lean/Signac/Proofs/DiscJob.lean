/- Helper lemmas for C19: `get_job` under the layout hypothesis; `init_project`. -/
import Signac.Proofs.DiscLocate
namespace Signac.Disc
open Signac

/-- the component contains a match of the id pattern -/
def HasMatch (c : String) : Prop := (lastMatchEnd c).isSome = true

/-- the component is exactly an id: `idLen` characters of `[a-f0-9]` -/
def IdLike (c : String) : Prop := c.toList.length = idLen ∧ ∀ ch ∈ c.toList, isIdChar ch = true

theorem idLen_pos : 0 < idLen := by decide

theorem scan_skip (cs : List Char) (pos k : Nat) (last : Option Nat) (h : cs.length ≤ k) :
    scan cs pos k last = last := by
  induction cs generalizing pos k with
  | nil => simp [scan]
  | cons c cs ih =>
    cases k with
    | zero => simp at h
    | succ k =>
      simp only [scan]
      exact ih (pos + 1) k (by simpa using h)

theorem idLike_lastMatchEnd {c : String} (h : IdLike c) : lastMatchEnd c = some idLen := by
  obtain ⟨hl, hc⟩ := h
  unfold lastMatchEnd
  cases hcs : c.toList with
  | nil => rw [hcs] at hl; have := idLen_pos; simp at hl; omega
  | cons x xs =>
    rw [hcs] at hl hc
    have hm : matchAt (x :: xs) = true := by
      unfold matchAt
      rw [List.take_of_length_le (by omega)]
      simp only [hl, decide_true, Bool.true_and, List.all_eq_true]
      exact hc
    simp only [scan, hm, if_true, Nat.zero_add]
    apply scan_skip
    simp at hl; omega

theorem idLike_hasMatch {c : String} (h : IdLike c) : HasMatch c := by
  simp [HasMatch, idLike_lastMatchEnd h]

theorem idLike_cut {c : String} (h : IdLike c) : cutAt c idLen = c := by
  unfold cutAt
  rw [List.take_of_length_le (by rw [h.1]; exact Nat.le_refl _), String.ofList_toList]

theorem idLike_matched {c : String} (h : IdLike c) : matchedId c idLen = c := by
  unfold matchedId
  rw [List.take_of_length_le (by rw [h.1]; exact Nat.le_refl _), Nat.sub_self, List.drop_zero,
    String.ofList_toList]

theorem lastJob_none (p : Path) : lastJob p = none ↔ ∀ c ∈ p, ¬ HasMatch c := by
  induction p with
  | nil => simp [lastJob]
  | cons c rest ih =>
    simp only [lastJob, HasMatch]
    cases h : lastMatchEnd c with
    | some e => simp [h]
    | none => simp [h, ih, HasMatch]

/-- The component chosen by `lastJob` is the innermost one containing a match: every
    ancestor-or-self of `p` whose last component contains a match lies at or above it. -/
theorem lastJob_spec (p : Path) (jid : String) (jp : Path) (h : lastJob p = some (jid, jp)) :
    ∃ c rest e, (c :: rest) <:+ p ∧ lastMatchEnd c = some e ∧ jid = matchedId c e ∧
      jp = cutAt c e :: rest ∧
      ∀ h' tl, (h' :: tl) <:+ p → HasMatch h' → (h' :: tl) <:+ (c :: rest) := by
  induction p with
  | nil => simp [lastJob] at h
  | cons x xs ih =>
    simp only [lastJob] at h
    cases hm : lastMatchEnd x with
    | some e =>
      rw [hm] at h
      simp only [Option.some.injEq, Prod.mk.injEq] at h
      exact ⟨x, xs, e, List.suffix_refl _, hm, h.1.symm, h.2.symm, fun _ _ hs _ => hs⟩
    | none =>
      rw [hm] at h
      obtain ⟨c, rest, e, hs, he, hj, hp, hmax⟩ := ih h
      refine ⟨c, rest, e, List.suffix_cons_iff.mpr (Or.inr hs), he, hj, hp, ?_⟩
      intro h' tl hs' hh
      rcases List.suffix_cons_iff.mp hs' with heq | hs''
      · cases heq
        simp [HasMatch, hm] at hh
      · exact hmax h' tl hs'' hh

/-- Layout hypothesis of C19: a name containing an id match occurs, among existing paths,
    only as a directory named exactly by an id, directly inside the `workspace` directory of
    a project, and that `workspace` directory is not itself a project; and every existing path
    sits in a directory. -/
structure Layout (t : Tree) : Prop where
  idlike : ∀ c rest, t.kind (c :: rest) ≠ .absent → HasMatch c →
    t.kind (c :: rest) = .dir ∧ IdLike c ∧
      ∃ q, rest = "workspace" :: q ∧ isProject t q = true ∧ isProject t rest = false
  closed : ∀ c rest, t.kind (c :: rest) ≠ .absent → t.kind rest = .dir

/-- `d` is the directory of job `j` of the project at `q`. -/
def IsJobDir (t : Tree) (d : Path) : Prop :=
  ∃ j q, d = j :: "workspace" :: q ∧ IdLike j ∧ isProject t q = true ∧ t.kind d = .dir

theorem Layout.exists_up {t : Tree} (L : Layout t) {p r : Path} (hp : t.kind p ≠ .absent)
    (hr : r <:+ p) : t.kind r ≠ .absent := by
  induction p with
  | nil =>
    have : r = [] := List.suffix_nil.mp hr
    subst this; exact hp
  | cons c rest ih =>
    rcases List.suffix_cons_iff.mp hr with rfl | hr'
    · exact hp
    · have := L.closed c rest hp
      exact ih (by rw [this]; intro h; cases h) hr'

/-- the result of `get_job` as a pair of the id and the project path, or the error -/
theorem getJob_ok_iff_aux (t : Tree) (p : Path) (j : String) (q : Path) :
    (getJob t p).1 = .ok (j, q) ↔
      t.kind p ≠ .absent ∧ ∃ jp, lastJob p = some (j, jp) ∧ t.kind jp = .dir ∧
        (getProjectFrom t jp.tail).1 = .ok q := by
  unfold getJob
  by_cases hk : t.kind p = .absent
  · simp [hk]
  · simp only [hk, if_false]
    cases hl : lastJob p with
    | none => simp
    | some pr =>
      obtain ⟨jid, jp⟩ := pr
      simp only []
      by_cases hd : t.kind jp = .dir
      · simp only [hd, if_true]
        cases hg : getProjectFrom t jp.tail with
        | mk r s =>
          cases r with
          | ok q' =>
            simp only []
            constructor
            · intro h; cases h
              exact ⟨hk, jp, rfl, hd, by rw [hg]⟩
            · intro ⟨_, jp', h1, _, h3⟩
              cases h1
              rw [hg] at h3
              cases h3; rfl
          | error e =>
            simp only []
            constructor
            · intro h; cases h
            · intro ⟨_, jp', h1, _, h3⟩
              cases h1
              rw [hg] at h3
              cases h3
      · simp only [hd, if_false]
        constructor
        · intro h; cases h
        · intro ⟨_, jp', h1, h2, _⟩
          cases h1
          exact absurd h2 hd

theorem getJob_innermost_aux (t : Tree) (L : Layout t) (p : Path) (j : String) (q : Path) :
    (getJob t p).1 = .ok (j, q) ↔
      t.kind p ≠ .absent ∧ GateOk t q ∧ IsJobDir t (j :: "workspace" :: q) ∧
        (j :: "workspace" :: q) <:+ p ∧
        ∀ d, IsJobDir t d → d <:+ p → d <:+ (j :: "workspace" :: q) := by
  rw [getJob_ok_iff_aux]
  constructor
  · intro ⟨hk, jp, hl, hd, hg⟩
    obtain ⟨c, rest, e, hs, he, hj, hjp, hmax⟩ := lastJob_spec p j jp hl
    have hex : t.kind (c :: rest) ≠ .absent := L.exists_up hk hs
    have hm : HasMatch c := by simp [HasMatch, he]
    obtain ⟨hdir, hid, q', hrest, hpq', hnp⟩ := L.idlike c rest hex hm
    have he' : e = idLen := by
      have := idLike_lastMatchEnd hid
      rw [he] at this; cases this; rfl
    subst he'
    rw [idLike_cut hid] at hjp
    rw [idLike_matched hid] at hj
    subst hj hjp
    simp only [List.tail_cons] at hg
    have hn := ((getProjectFrom_ok_iff t rest q).mp hg)
    -- the project found from `workspace :: q'` is `q'`
    have hq : q = q' := by
      have h1 : findProject t rest = some q := (findProject_nearest t rest q).mpr hn.1
      rw [hrest, findProject_skip (by rw [← hrest]; exact hnp), findProject_self hpq'] at h1
      cases h1; rfl
    subst hq
    subst hrest
    refine ⟨hk, hn.2, ⟨j, q, rfl, hid, hpq', hdir⟩, hs, ?_⟩
    intro d hdj hds
    obtain ⟨j', q'', rfl, hid', _, _⟩ := hdj
    exact hmax j' _ hds (idLike_hasMatch hid')
  · intro ⟨hk, hg, hjd, hs, hmax⟩
    obtain ⟨j0, q0, heq, hid, hpq, hdir⟩ := hjd
    cases heq
    have hne : lastJob p ≠ none := by
      intro hnone
      have := (lastJob_none p).mp hnone j (hs.mem (List.mem_cons_self ..))
      exact this (idLike_hasMatch hid)
    cases hl : lastJob p with
    | none => exact absurd hl hne
    | some pr =>
      obtain ⟨jid, jp⟩ := pr
      obtain ⟨c, rest, e, hs', he, hj, hjp, hmax'⟩ := lastJob_spec p jid jp hl
      have hex : t.kind (c :: rest) ≠ .absent := L.exists_up hk hs'
      have hm : HasMatch c := by simp [HasMatch, he]
      obtain ⟨hdir', hid', q', hrest, hpq', hnp⟩ := L.idlike c rest hex hm
      have he' : e = idLen := by
        have := idLike_lastMatchEnd hid'
        rw [he] at this; cases this; rfl
      subst he'
      rw [idLike_cut hid'] at hjp
      rw [idLike_matched hid'] at hj
      subst hj hjp
      -- both are job directories above p, each is at or above the other
      have h1 : (j :: "workspace" :: q) <:+ (jid :: rest) := hmax' j _ hs (idLike_hasMatch hid)
      have h2 : (jid :: rest) <:+ (j :: "workspace" :: q) :=
        hmax (jid :: rest) ⟨jid, q', by rw [hrest], hid', hpq', hdir'⟩ hs'
      have heq := suffix_antisymm h1 h2
      cases heq
      refine ⟨hk, _, rfl, hdir, ?_⟩
      simp only [List.tail_cons]
      rw [getProjectFrom_ok_iff]
      refine ⟨?_, hg⟩
      rw [← findProject_nearest]
      cases hrest
      rw [findProject_skip hnp, findProject_self hpq]

/-! ### init_project -/

theorem getProject_nosearch_ok_iff (t : Tree) (p q : Path) :
    (getProject t p false).1 = .ok q ↔
      q = p ∧ t.kind p ≠ .absent ∧ isProject t p = true ∧ GateOk t p := by
  unfold getProject
  by_cases hk : t.kind p = .absent
  · simp [hk]
  · by_cases hp : isProject t p = true
    · simp only [hk, if_false, hp, Bool.not_false, Bool.not_true, Bool.and_false, Bool.false_eq_true]
      rw [getProjectFrom_ok_iff]
      constructor
      · intro ⟨hn, hg⟩
        have : q = p := by
          have h1 := (findProject_nearest t p q).mpr hn
          rw [findProject_self hp] at h1; cases h1; rfl
        subst this
        exact ⟨rfl, hk, trivial, hg⟩
      · intro ⟨h1, _, _, hg⟩
        subst h1
        exact ⟨(findProject_nearest t q q).mp (findProject_self hp), hg⟩
    · have hp' : isProject t p = false := by simpa using hp
      simp [hk, hp']

theorem getProject_search_ok_iff (t : Tree) (p q : Path) :
    (getProject t p true).1 = .ok q ↔ t.kind p ≠ .absent ∧ Nearest t p q ∧ GateOk t q := by
  unfold getProject
  by_cases hk : t.kind p = .absent
  · simp [hk]
  · simp only [hk, if_false, Bool.not_true, Bool.false_and, Bool.false_eq_true]
    rw [getProjectFrom_ok_iff]
    simp [hk]

/-- On a project directory `init_project` is `get_project(search=False)`, which is the
    plain constructor. -/
theorem initProject_existing (t : Tree) (p : Path) (hp : isProject t p = true)
    (hk : t.kind p ≠ .absent) : initProject t p = openProject t p := by
  have hgp : getProject t p false = openProject t p := by
    unfold getProject getProjectFrom locateConfigDir
    simp [hk, hp, findProject_self hp]
  unfold initProject
  rw [hgp]
  cases ho : openProject t p with
  | mk r s =>
    cases r with
    | ok q => rfl
    | error e =>
      cases e with
      | lookup =>
        -- impossible: the config file is there
        exfalso
        unfold openProject at ho
        unfold isProject at hp
        cases hc : t.cfg p with
        | none => rw [hc] at hp; cases hp
        | some v =>
          rw [hc] at ho
          simp only [] at ho
          by_cases hg : Mig.gate (v.getD 1) = .ok
          · simp only [hg, if_true] at ho
            by_cases hw : hasWorkspace t p = true
            · simp [hw] at ho
            · simp [hw] at ho
          · simp [hg] at ho
      | incompatible => rfl
      | assertion => rfl

theorem gate_schema : Mig.gate Mig.SCHEMA = .ok := by simp [Mig.gate]

/-- `init_project` on a directory that is no project and holds no legacy config: the missing
    levels of `<p>/.signac` are created, the config is written, the project is opened (which
    creates the workspace if missing). -/
theorem initProject_fresh_aux (t : Tree) (p : Path) (hp : isProject t p = false)
    (hrc : t.rc p = none) :
    initProject t p = (.ok p, mkdirP t (".signac" :: p) ++ [.writeConfig p] ++
      (if hasWorkspace t p then [] else [.mkdir ("workspace" :: p)])) := by
  have hgp : getProject t p false = (.error .lookup, []) := by
    unfold getProject
    by_cases hk : t.kind p = .absent
    · simp [hk]
    · simp [hk, hp]
  have hold : olderErr t p = none := by simp [olderErr, hrc, Mig.raiseIfOlder]
  have hk' : (afterInit t p).kind p = .dir := by
    have h1 : p ≠ "config" :: ".signac" :: p := by
      intro h; have := congrArg List.length h; simp at this; omega
    have h2 : p <:+ ".signac" :: p := List.suffix_cons _ _
    simp [afterInit, h1, h2]
  have hproj : isProject (afterInit t p) p = true := by simp [isProject, afterInit]
  have hws : hasWorkspace (afterInit t p) p = hasWorkspace t p := by
    have h1 : ("workspace" :: p) ≠ "config" :: ".signac" :: p := by
      intro h; have := congrArg List.length h; simp at this
    have h2 : ¬ ("workspace" :: p) <:+ ".signac" :: p := by
      intro h
      rcases List.suffix_cons_iff.mp h with h | h
      · simp at h
      · have := h.length_le; simp at this; omega
    simp [hasWorkspace, afterInit, h1, h2]
  have hopen : getProject (afterInit t p) p true =
      (.ok p, if hasWorkspace t p then [] else [.mkdir ("workspace" :: p)]) := by
    unfold getProject getProjectFrom locateConfigDir
    simp only [hk', findProject_self hproj]
    unfold openProject
    have hc : (afterInit t p).cfg p = some (some Mig.SCHEMA) := by simp [afterInit]
    rw [hc]
    simp only [Option.getD_some, gate_schema, if_true, hws]
    by_cases hw : hasWorkspace t p = true <;> simp [hw]
  unfold initProject
  rw [hgp]
  simp only [hold, hopen, List.append_assoc]

/-! ### a decidable sufficient condition for `Layout` on listed trees (non-vacuity examples) -/

def idLikeB (c : String) : Bool := decide (c.toList.length = idLen) && c.toList.all isIdChar

theorem idLikeB_iff (c : String) : idLikeB c = true ↔ IdLike c := by
  simp [idLikeB, IdLike]

def nodeOk (t : Tree) : Path → Bool
  | [] => true
  | c :: rest =>
    decide (t.kind rest = .dir) &&
      (if (lastMatchEnd c).isSome then
        decide (t.kind (c :: rest) = .dir) && idLikeB c &&
          (match rest with
           | w :: q => decide (w = "workspace") && isProject t q && !isProject t rest
           | [] => false)
      else true)

def layoutCheck (ns : List Node) : Bool :=
  ns.all (fun n => decide (n.kind = .absent) || nodeOk (Tree.ofNodes ns) n.path)

theorem layout_of_check (ns : List Node) (h : layoutCheck ns = true) : Layout (Tree.ofNodes ns) := by
  have key : ∀ c rest, (Tree.ofNodes ns).kind (c :: rest) ≠ .absent →
      nodeOk (Tree.ofNodes ns) (c :: rest) = true := by
    intro c rest hk
    simp only [Tree.ofNodes] at hk
    cases hf : findNode ns (c :: rest) with
    | none => rw [hf] at hk; exact absurd rfl hk
    | some n =>
      rw [hf] at hk
      simp only [] at hk
      unfold findNode at hf
      have hmem := List.mem_of_find?_eq_some hf
      have hpath := List.find?_some hf
      simp only [decide_eq_true_eq] at hpath
      have := (List.all_eq_true.mp h) n hmem
      simp only [Bool.or_eq_true, decide_eq_true_eq] at this
      rcases this with h1 | h1
      · exact absurd h1 hk
      · rw [hpath] at h1; exact h1
  constructor
  · intro c rest hk hm
    have := key c rest hk
    simp only [nodeOk, Bool.and_eq_true, decide_eq_true_eq] at this
    obtain ⟨_, h2⟩ := this
    have hm' : (lastMatchEnd c).isSome = true := hm
    simp only [hm', if_true, Bool.and_eq_true, decide_eq_true_eq] at h2
    obtain ⟨⟨hd, hid⟩, h3⟩ := h2
    refine ⟨hd, (idLikeB_iff c).mp hid, ?_⟩
    cases rest with
    | nil => simp at h3
    | cons w q =>
      simp only [Bool.and_eq_true, decide_eq_true_eq, Bool.not_eq_true'] at h3
      obtain ⟨⟨hw, hp⟩, hn⟩ := h3
      exact ⟨q, by rw [hw], hp, hn⟩
  · intro c rest hk
    have := key c rest hk
    simp only [nodeOk, Bool.and_eq_true, decide_eq_true_eq] at this
    exact this.1

end Signac.Disc

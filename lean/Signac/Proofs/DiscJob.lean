/- Helper lemmas for C19: `get_job` (complete-component matches only), with and without the
   layout hypothesis; `init_project`. -/
import Signac.Proofs.DiscLocate
namespace Signac.Disc
open Signac

/-- the component contains a match of the id pattern somewhere (`re.finditer` yields one) -/
def HasMatch (c : String) : Prop := scan c.toList 0 0 ≠ []

/-- the component is exactly an id: `idLen` characters of `[a-f0-9]` -/
def IdLike (c : String) : Prop := c.toList.length = idLen ∧ ∀ ch ∈ c.toList, isIdChar ch = true

theorem idLen_pos : 0 < idLen := by decide

theorem isIdName_iff (c : String) : isIdName c = true ↔ IdLike c := by
  simp [isIdName, IdLike]

/-! ### the literal scan-and-filter agrees with `isIdName` -/

theorem scan_start_ge (cs : List Char) (pos skip : Nat) : ∀ m ∈ scan cs pos skip, pos ≤ m.1 := by
  induction cs generalizing pos skip with
  | nil => simp [scan]
  | cons c cs ih =>
    cases skip with
    | succ k =>
      simp only [scan]
      intro m hm
      have := ih (pos + 1) k m hm
      omega
    | zero =>
      simp only [scan]
      split
      · intro m hm
        rcases List.mem_cons.mp hm with rfl | hm
        · exact Nat.le_refl _
        · have := ih (pos + 1) (idLen - 1) m hm
          omega
      · intro m hm
        have := ih (pos + 1) 0 m hm
        omega

/-- a match that does not start at the head of the component is filtered out -/
theorem scan_filter_later (n : Nat) (cs : List Char) (pos skip : Nat) (h : 0 < pos) :
    (scan cs pos skip).filter (isComplete n) = [] := by
  rw [List.filter_eq_nil_iff]
  intro m hm
  have := scan_start_ge cs pos skip m hm
  simp only [isComplete, Bool.and_eq_true, decide_eq_true_eq]
  omega

theorem matchAt_of_length {cs : List Char} (hl : cs.length = idLen) :
    matchAt cs = cs.all isIdChar := by
  unfold matchAt
  rw [List.take_of_length_le (by omega)]
  simp [hl]

theorem matchAt_length {cs : List Char} (h : matchAt cs = true) : idLen ≤ cs.length := by
  unfold matchAt at h
  simp only [Bool.and_eq_true, decide_eq_true_eq, List.length_take] at h
  omega

/-- one component: a match passes the filter iff the whole component is an id, and then it ends
    at `idLen` -/
theorem lastCompleteEnd_eq (cs : List Char) :
    lastCompleteEnd cs =
      if (decide (cs.length = idLen) && cs.all isIdChar) = true then some idLen else none := by
  unfold lastCompleteEnd
  cases cs with
  | nil =>
    have : ¬ (0 = idLen) := by decide
    simp [scan, this]
  | cons x xs =>
    simp only [scan]
    by_cases hl : (x :: xs).length = idLen
    · rw [← matchAt_of_length hl]
      by_cases hm : matchAt (x :: xs) = true
      · simp [hm, hl, isComplete, scan_filter_later]
      · simp [hm, scan_filter_later]
    · have hl' : ¬ (xs.length + 1 = idLen) := by simpa using hl
      have hl'' : ¬ (idLen = xs.length + 1) := fun h => hl' h.symm
      by_cases hm : matchAt (x :: xs) = true
      · simp [hm, hl', hl'', isComplete, scan_filter_later]
      · simp [hm, hl', scan_filter_later]

theorem lastMatchEnd_eq (c : String) :
    lastMatchEnd c = if isIdName c = true then some idLen else none := by
  unfold lastMatchEnd isIdName
  exact lastCompleteEnd_eq c.toList

/-- a component has a complete match iff it is an id -/
theorem lastMatchEnd_isSome (c : String) : (lastMatchEnd c).isSome = isIdName c := by
  rw [lastMatchEnd_eq]; cases isIdName c <;> simp

theorem idLike_lastMatchEnd {c : String} (h : IdLike c) : lastMatchEnd c = some idLen := by
  rw [lastMatchEnd_eq, (isIdName_iff c).mpr h]; rfl

/-- an id contains a match: the old (wider) notion covers the new one -/
theorem idLike_hasMatch {c : String} (h : IdLike c) : HasMatch c := by
  obtain ⟨hl, hc⟩ := h
  unfold HasMatch
  cases hcs : c.toList with
  | nil => rw [hcs] at hl; have := idLen_pos; simp at hl; omega
  | cons x xs =>
    rw [hcs] at hl hc
    have hm : matchAt (x :: xs) = true := by
      rw [matchAt_of_length hl, List.all_eq_true]; exact hc
    simp [scan, hm]

theorem isIdName_hasMatch {c : String} (h : isIdName c = true) : HasMatch c :=
  idLike_hasMatch ((isIdName_iff c).mp h)

theorem idLike_cut {c : String} (h : IdLike c) : cutAt c idLen = c := by
  unfold cutAt
  rw [List.take_of_length_le (by rw [h.1]; exact Nat.le_refl _), String.ofList_toList]

theorem idLike_matched {c : String} (h : IdLike c) : matchedId c idLen = c := by
  unfold matchedId
  rw [List.take_of_length_le (by rw [h.1]; exact Nat.le_refl _), Nat.sub_self, List.drop_zero,
    String.ofList_toList]

/-- The literal form of the model (scan every component with `re.finditer`, keep the complete
    matches, take the last) is the simple one: the innermost component that is an id; the
    matched id and the cut component are that component itself. -/
theorem lastJob_eq_simple (p : Path) : lastJob p = lastJobSimple p := by
  induction p with
  | nil => rfl
  | cons c rest ih =>
    simp only [lastJob, lastJobSimple, lastMatchEnd_eq]
    by_cases h : isIdName c = true
    · have hid := (isIdName_iff c).mp h
      simp [h, idLike_cut hid, idLike_matched hid]
    · simp [h, ih]

theorem lastJob_none (p : Path) : lastJob p = none ↔ ∀ c ∈ p, isIdName c = false := by
  rw [lastJob_eq_simple]
  induction p with
  | nil => simp [lastJobSimple]
  | cons c rest ih =>
    simp only [lastJobSimple]
    by_cases h : isIdName c = true
    · simp [h]
    · simp [h, ih]

/-- The component chosen by `lastJob` is the innermost one that is an id: it is returned as
    it stands, with the path from there up, and every ancestor-or-self of `p` whose last
    component is an id lies at or above it. -/
theorem lastJob_spec (p : Path) (jid : String) (jp : Path) (h : lastJob p = some (jid, jp)) :
    ∃ rest, jp = jid :: rest ∧ (jid :: rest) <:+ p ∧ isIdName jid = true ∧
      ∀ h' tl, (h' :: tl) <:+ p → isIdName h' = true → (h' :: tl) <:+ (jid :: rest) := by
  rw [lastJob_eq_simple] at h
  induction p with
  | nil => simp [lastJobSimple] at h
  | cons x xs ih =>
    simp only [lastJobSimple] at h
    by_cases hm : isIdName x = true
    · simp only [hm, if_true, Option.some.injEq, Prod.mk.injEq] at h
      obtain ⟨rfl, rfl⟩ := h
      exact ⟨xs, rfl, List.suffix_refl _, hm, fun _ _ hs _ => hs⟩
    · simp only [hm] at h
      obtain ⟨rest, hp, hs, hid, hmax⟩ := ih h
      refine ⟨rest, hp, List.suffix_cons_iff.mpr (Or.inr hs), hid, ?_⟩
      intro h' tl hs' hh
      rcases List.suffix_cons_iff.mp hs' with heq | hs''
      · cases heq
        exact absurd hh hm
      · exact hmax h' tl hs'' hh

/-- Layout hypothesis of C19, old (strict) form: a name CONTAINING an id match occurs, among
    existing paths, only as a directory named exactly by an id, directly inside the
    `workspace` directory of a project, and that `workspace` directory is not itself a project;
    and every existing path sits in a directory. -/
structure Layout (t : Tree) : Prop where
  idlike : ∀ c rest, t.kind (c :: rest) ≠ .absent → HasMatch c →
    t.kind (c :: rest) = .dir ∧ IdLike c ∧
      ∃ q, rest = "workspace" :: q ∧ isProject t q = true ∧ isProject t rest = false
  closed : ∀ c rest, t.kind (c :: rest) ≠ .absent → t.kind rest = .dir

/-- Layout hypothesis of C19, weak form: only names that ARE ids matter.  A directory whose
    name is an id sits directly inside the `workspace` directory of a project, and that
    `workspace` directory is not itself a project; an existing path whose name is an id is a
    directory; and every existing path sits in a directory.  Names that merely contain an
    id-like run are unconstrained. -/
structure LayoutW (t : Tree) : Prop where
  idname : ∀ c rest, t.kind (c :: rest) = .dir → isIdName c = true →
    ∃ q, rest = "workspace" :: q ∧ isProject t q = true ∧ isProject t rest = false
  iddir : ∀ c rest, t.kind (c :: rest) ≠ .absent → isIdName c = true → t.kind (c :: rest) = .dir
  closed : ∀ c rest, t.kind (c :: rest) ≠ .absent → t.kind rest = .dir

theorem Layout.toW {t : Tree} (L : Layout t) : LayoutW t where
  idname := fun c rest hd hid =>
    (L.idlike c rest (by rw [hd]; intro h; cases h) (isIdName_hasMatch hid)).2.2
  iddir := fun c rest hk hid => (L.idlike c rest hk (isIdName_hasMatch hid)).1
  closed := L.closed

/-- `d` is the directory of job `j` of the project at `q`. -/
def IsJobDir (t : Tree) (d : Path) : Prop :=
  ∃ j q, d = j :: "workspace" :: q ∧ IdLike j ∧ isProject t q = true ∧ t.kind d = .dir

theorem LayoutW.exists_up {t : Tree} (L : LayoutW t) {p r : Path} (hp : t.kind p ≠ .absent)
    (hr : r <:+ p) : t.kind r ≠ .absent := by
  induction p with
  | nil =>
    have : r = [] := List.suffix_nil.mp hr
    subst this; exact hp
  | cons c rest ih =>
    rcases List.suffix_cons_iff.mp hr with rfl | hr'
    · exact hp
    · have := L.closed c rest hp
      exact ih (by rw [this]; intro h; cases h) hr'

/-- the result of `get_job` as a pair of the id and the project path, or the error -/
theorem getJob_ok_iff_aux (t : Tree) (p : Path) (j : String) (q : Path) :
    (getJob t p).1 = .ok (j, q) ↔
      t.kind p ≠ .absent ∧ ∃ jp, lastJob p = some (j, jp) ∧ t.kind jp = .dir ∧
        (getProjectFrom t jp.tail).1 = .ok q := by
  unfold getJob
  by_cases hk : t.kind p = .absent
  · simp [hk]
  · simp only [hk, if_false]
    cases hl : lastJob p with
    | none => simp
    | some pr =>
      obtain ⟨jid, jp⟩ := pr
      simp only []
      by_cases hd : t.kind jp = .dir
      · simp only [hd, if_true]
        cases hg : getProjectFrom t jp.tail with
        | mk r s =>
          cases r with
          | ok q' =>
            simp only []
            constructor
            · intro h; cases h
              exact ⟨hk, jp, rfl, hd, by rw [hg]⟩
            · intro ⟨_, jp', h1, _, h3⟩
              cases h1
              rw [hg] at h3
              cases h3; rfl
          | error e =>
            simp only []
            constructor
            · intro h; cases h
            · intro ⟨_, jp', h1, _, h3⟩
              cases h1
              rw [hg] at h3
              cases h3
      · simp only [hd, if_false]
        constructor
        · intro h; cases h
        · intro ⟨_, jp', h1, h2, _⟩
          cases h1
          exact absurd h2 hd

/-- `get_job` without any layout hypothesis: the returned id is the innermost component of `p`
    that is an id, the path from that component up is a directory, and the project is the
    nearest one strictly above it (and passes the gate). -/
theorem getJob_ok_iff_simple (t : Tree) (p : Path) (j : String) (q : Path) :
    (getJob t p).1 = .ok (j, q) ↔
      t.kind p ≠ .absent ∧ ∃ rest, (j :: rest) <:+ p ∧ isIdName j = true ∧
        (∀ h' tl, (h' :: tl) <:+ p → isIdName h' = true → (h' :: tl) <:+ (j :: rest)) ∧
        t.kind (j :: rest) = .dir ∧ Nearest t rest q ∧ GateOk t q := by
  rw [getJob_ok_iff_aux]
  constructor
  · intro ⟨hk, jp, hl, hd, hg⟩
    obtain ⟨rest, rfl, hs, hid, hmax⟩ := lastJob_spec p j jp hl
    simp only [List.tail_cons] at hg
    have hn := (getProjectFrom_ok_iff t rest q).mp hg
    exact ⟨hk, rest, hs, hid, hmax, hd, hn.1, hn.2⟩
  · intro ⟨hk, rest, hs, hid, hmax, hd, hn, hg⟩
    refine ⟨hk, j :: rest, ?_, hd, ?_⟩
    · cases hl : lastJob p with
      | none =>
        have := (lastJob_none p).mp hl j (hs.mem (List.mem_cons_self ..))
        rw [hid] at this; cases this
      | some pr =>
        obtain ⟨jid, jp⟩ := pr
        obtain ⟨rest', rfl, hs', hid', hmax'⟩ := lastJob_spec p jid _ hl
        have heq := suffix_antisymm (hmax' j rest hs hid) (hmax jid rest' hs' hid')
        cases heq; rfl
    · simp only [List.tail_cons]
      exact (getProjectFrom_ok_iff t rest q).mpr ⟨hn, hg⟩

theorem getJob_innermost_aux (t : Tree) (L : LayoutW t) (p : Path) (j : String) (q : Path) :
    (getJob t p).1 = .ok (j, q) ↔
      t.kind p ≠ .absent ∧ GateOk t q ∧ IsJobDir t (j :: "workspace" :: q) ∧
        (j :: "workspace" :: q) <:+ p ∧
        ∀ d, IsJobDir t d → d <:+ p → d <:+ (j :: "workspace" :: q) := by
  rw [getJob_ok_iff_simple]
  constructor
  · intro ⟨hk, rest, hs, hid, hmax, hdir, hn, hg⟩
    obtain ⟨q', hrest, hpq', hnp⟩ := L.idname j rest hdir hid
    -- the project found from `workspace :: q'` is `q'`
    have hq : q = q' := by
      have h1 : findProject t rest = some q := (findProject_nearest t rest q).mpr hn
      rw [hrest, findProject_skip (by rw [← hrest]; exact hnp), findProject_self hpq'] at h1
      cases h1; rfl
    subst hq
    subst hrest
    refine ⟨hk, hg, ⟨j, q, rfl, (isIdName_iff j).mp hid, hpq', hdir⟩, hs, ?_⟩
    intro d hdj hds
    obtain ⟨j', q'', rfl, hid', _, _⟩ := hdj
    exact hmax j' _ hds ((isIdName_iff j').mpr hid')
  · intro ⟨hk, hg, hjd, hs, hmax⟩
    obtain ⟨j0, q0, heq, hid, hpq, hdir⟩ := hjd
    cases heq
    have hnp : isProject t ("workspace" :: q) = false := by
      obtain ⟨q', hrest, _, hnp⟩ := L.idname j _ hdir ((isIdName_iff j).mpr hid)
      exact hnp
    refine ⟨hk, "workspace" :: q, hs, (isIdName_iff j).mpr hid, ?_, hdir, ?_, hg⟩
    · intro h' tl hs' hid'
      -- an id-named path at or above an existing path is a job directory
      have hex : t.kind (h' :: tl) ≠ .absent := L.exists_up hk hs'
      have hdir' := L.iddir h' tl hex hid'
      obtain ⟨q', hrest, hpq', _⟩ := L.idname h' tl hdir' hid'
      exact hmax (h' :: tl) ⟨h', q', by rw [hrest], (isIdName_iff h').mp hid', hpq', hdir'⟩ hs'
    · rw [← findProject_nearest, findProject_skip hnp, findProject_self hpq]

/-! ### init_project -/

theorem getProject_nosearch_ok_iff (t : Tree) (p q : Path) :
    (getProject t p false).1 = .ok q ↔
      q = p ∧ t.kind p ≠ .absent ∧ isProject t p = true ∧ GateOk t p := by
  unfold getProject
  by_cases hk : t.kind p = .absent
  · simp [hk]
  · by_cases hp : isProject t p = true
    · simp only [hk, if_false, hp, Bool.not_false, Bool.not_true, Bool.and_false, Bool.false_eq_true]
      rw [getProjectFrom_ok_iff]
      constructor
      · intro ⟨hn, hg⟩
        have : q = p := by
          have h1 := (findProject_nearest t p q).mpr hn
          rw [findProject_self hp] at h1; cases h1; rfl
        subst this
        exact ⟨rfl, hk, trivial, hg⟩
      · intro ⟨h1, _, _, hg⟩
        subst h1
        exact ⟨(findProject_nearest t q q).mp (findProject_self hp), hg⟩
    · have hp' : isProject t p = false := by simpa using hp
      simp [hk, hp']

theorem getProject_search_ok_iff (t : Tree) (p q : Path) :
    (getProject t p true).1 = .ok q ↔ t.kind p ≠ .absent ∧ Nearest t p q ∧ GateOk t q := by
  unfold getProject
  by_cases hk : t.kind p = .absent
  · simp [hk]
  · simp only [hk, if_false, Bool.not_true, Bool.false_and, Bool.false_eq_true]
    rw [getProjectFrom_ok_iff]
    simp [hk]

/-- On a project directory `init_project` is `get_project(search=False)`, which is the
    plain constructor. -/
theorem initProject_existing (t : Tree) (p : Path) (hp : isProject t p = true)
    (hk : t.kind p ≠ .absent) : initProject t p = openProject t p := by
  have hgp : getProject t p false = openProject t p := by
    unfold getProject getProjectFrom locateConfigDir
    simp [hk, hp, findProject_self hp]
  unfold initProject
  rw [hgp]
  cases ho : openProject t p with
  | mk r s =>
    cases r with
    | ok q => rfl
    | error e =>
      cases e with
      | lookup =>
        -- impossible: the config file is there
        exfalso
        unfold openProject at ho
        unfold isProject at hp
        cases hc : t.cfg p with
        | none => rw [hc] at hp; cases hp
        | some v =>
          rw [hc] at ho
          simp only [] at ho
          by_cases hg : Mig.gate (v.getD 1) = .ok
          · simp only [hg, if_true] at ho
            by_cases hw : hasWorkspace t p = true
            · simp [hw] at ho
            · simp [hw] at ho
          · simp [hg] at ho
      | incompatible => rfl
      | assertion => rfl

theorem gate_schema : Mig.gate Mig.SCHEMA = .ok := by simp [Mig.gate]

/-- `init_project` on a directory that is no project and holds no legacy config: the missing
    levels of `<p>/.signac` are created, the config is written, the project is opened (which
    creates the workspace if missing). -/
theorem initProject_fresh_aux (t : Tree) (p : Path) (hp : isProject t p = false)
    (hrc : t.rc p = none) :
    initProject t p = (.ok p, mkdirP t (".signac" :: p) ++ [.writeConfig p] ++
      (if hasWorkspace t p then [] else [.mkdir ("workspace" :: p)])) := by
  have hgp : getProject t p false = (.error .lookup, []) := by
    unfold getProject
    by_cases hk : t.kind p = .absent
    · simp [hk]
    · simp [hk, hp]
  have hold : olderErr t p = none := by simp [olderErr, hrc, Mig.raiseIfOlder]
  have hk' : (afterInit t p).kind p = .dir := by
    have h1 : p ≠ "config" :: ".signac" :: p := by
      intro h; have := congrArg List.length h; simp at this; omega
    have h2 : p <:+ ".signac" :: p := List.suffix_cons _ _
    simp [afterInit, h1, h2]
  have hproj : isProject (afterInit t p) p = true := by simp [isProject, afterInit]
  have hws : hasWorkspace (afterInit t p) p = hasWorkspace t p := by
    have h1 : ("workspace" :: p) ≠ "config" :: ".signac" :: p := by
      intro h; have := congrArg List.length h; simp at this
    have h2 : ¬ ("workspace" :: p) <:+ ".signac" :: p := by
      intro h
      rcases List.suffix_cons_iff.mp h with h | h
      · simp at h
      · have := h.length_le; simp at this; omega
    simp [hasWorkspace, afterInit, h1, h2]
  have hopen : getProject (afterInit t p) p true =
      (.ok p, if hasWorkspace t p then [] else [.mkdir ("workspace" :: p)]) := by
    unfold getProject getProjectFrom locateConfigDir
    simp only [hk', findProject_self hproj]
    unfold openProject
    have hc : (afterInit t p).cfg p = some (some Mig.SCHEMA) := by simp [afterInit]
    rw [hc]
    simp only [Option.getD_some, gate_schema, if_true, hws]
    by_cases hw : hasWorkspace t p = true <;> simp [hw]
  unfold initProject
  rw [hgp]
  simp only [hold, hopen, List.append_assoc]

/-! ### decidable sufficient conditions for `Layout` / `LayoutW` on listed trees (non-vacuity examples) -/

def hasMatchB (c : String) : Bool := !(scan c.toList 0 0).isEmpty

theorem hasMatchB_iff (c : String) : hasMatchB c = true ↔ HasMatch c := by
  simp [hasMatchB, HasMatch]

/-- a condition checked at every listed, existing node holds at every existing path -/
theorem ofNodes_forall (ns : List Node) (f : Path → Bool)
    (h : ns.all (fun n => decide (n.kind = .absent) || f n.path) = true) :
    ∀ p, (Tree.ofNodes ns).kind p ≠ .absent → f p = true := by
  intro p hk
  simp only [Tree.ofNodes] at hk
  cases hf : findNode ns p with
  | none => rw [hf] at hk; exact absurd rfl hk
  | some n =>
    rw [hf] at hk
    simp only [] at hk
    unfold findNode at hf
    have hmem := List.mem_of_find?_eq_some hf
    have hpath := List.find?_some hf
    simp only [decide_eq_true_eq] at hpath
    have := (List.all_eq_true.mp h) n hmem
    simp only [Bool.or_eq_true, decide_eq_true_eq] at this
    rcases this with h1 | h1
    · exact absurd h1 hk
    · rw [hpath] at h1; exact h1

def inWorkspace (t : Tree) (rest : Path) : Bool :=
  match rest with
  | w :: q => decide (w = "workspace") && isProject t q && !isProject t rest
  | [] => false

theorem inWorkspace_spec {t : Tree} {rest : Path} (h : inWorkspace t rest = true) :
    ∃ q, rest = "workspace" :: q ∧ isProject t q = true ∧ isProject t rest = false := by
  cases rest with
  | nil => simp [inWorkspace] at h
  | cons w q =>
    simp only [inWorkspace, Bool.and_eq_true, decide_eq_true_eq, Bool.not_eq_true'] at h
    obtain ⟨⟨hw, hp⟩, hn⟩ := h
    exact ⟨q, by rw [hw], hp, hn⟩

def nodeOk (t : Tree) : Path → Bool
  | [] => true
  | c :: rest =>
    decide (t.kind rest = .dir) &&
      (if hasMatchB c then
        decide (t.kind (c :: rest) = .dir) && isIdName c && inWorkspace t rest
      else true)

def layoutCheck (ns : List Node) : Bool :=
  ns.all (fun n => decide (n.kind = .absent) || nodeOk (Tree.ofNodes ns) n.path)

theorem layout_of_check (ns : List Node) (h : layoutCheck ns = true) : Layout (Tree.ofNodes ns) := by
  have key := ofNodes_forall ns (nodeOk (Tree.ofNodes ns)) h
  constructor
  · intro c rest hk hm
    have := key (c :: rest) hk
    simp only [nodeOk, Bool.and_eq_true, decide_eq_true_eq] at this
    obtain ⟨_, h2⟩ := this
    have hm' : hasMatchB c = true := (hasMatchB_iff c).mpr hm
    simp only [hm', if_true, Bool.and_eq_true, decide_eq_true_eq] at h2
    obtain ⟨⟨hd, hid⟩, h3⟩ := h2
    exact ⟨hd, (isIdName_iff c).mp hid, inWorkspace_spec h3⟩
  · intro c rest hk
    have := key (c :: rest) hk
    simp only [nodeOk, Bool.and_eq_true, decide_eq_true_eq] at this
    exact this.1

def nodeOkW (t : Tree) : Path → Bool
  | [] => true
  | c :: rest =>
    decide (t.kind rest = .dir) &&
      (if isIdName c then decide (t.kind (c :: rest) = .dir) && inWorkspace t rest else true)

def layoutCheckW (ns : List Node) : Bool :=
  ns.all (fun n => decide (n.kind = .absent) || nodeOkW (Tree.ofNodes ns) n.path)

theorem layoutW_of_check (ns : List Node) (h : layoutCheckW ns = true) :
    LayoutW (Tree.ofNodes ns) := by
  have key := ofNodes_forall ns (nodeOkW (Tree.ofNodes ns)) h
  have key' : ∀ c rest, (Tree.ofNodes ns).kind (c :: rest) ≠ .absent → isIdName c = true →
      (Tree.ofNodes ns).kind (c :: rest) = .dir ∧ inWorkspace (Tree.ofNodes ns) rest = true := by
    intro c rest hk hid
    have := key (c :: rest) hk
    simp only [nodeOkW, Bool.and_eq_true, decide_eq_true_eq, hid, if_true] at this
    exact this.2
  refine ⟨?_, ?_, ?_⟩
  · intro c rest hd hid
    exact inWorkspace_spec (key' c rest (by rw [hd]; intro h; cases h) hid).2
  · intro c rest hk hid
    exact (key' c rest hk hid).1
  · intro c rest hk
    have := key (c :: rest) hk
    simp only [nodeOkW, Bool.and_eq_true, decide_eq_true_eq] at this
    exact this.1

/-- The weak hypothesis WITHOUT its second clause: only id-named DIRECTORIES are constrained
    (used to show that the clause about id-named non-directories is needed). -/
structure LayoutDirOnly (t : Tree) : Prop where
  idname : ∀ c rest, t.kind (c :: rest) = .dir → isIdName c = true →
    ∃ q, rest = "workspace" :: q ∧ isProject t q = true ∧ isProject t rest = false
  closed : ∀ c rest, t.kind (c :: rest) ≠ .absent → t.kind rest = .dir

theorem LayoutW.toDirOnly {t : Tree} (L : LayoutW t) : LayoutDirOnly t := ⟨L.idname, L.closed⟩

def nodeOkD (t : Tree) : Path → Bool
  | [] => true
  | c :: rest =>
    decide (t.kind rest = .dir) &&
      (if isIdName c && decide (t.kind (c :: rest) = .dir) then inWorkspace t rest else true)

def layoutCheckD (ns : List Node) : Bool :=
  ns.all (fun n => decide (n.kind = .absent) || nodeOkD (Tree.ofNodes ns) n.path)

theorem layoutDirOnly_of_check (ns : List Node) (h : layoutCheckD ns = true) :
    LayoutDirOnly (Tree.ofNodes ns) := by
  have key := ofNodes_forall ns (nodeOkD (Tree.ofNodes ns)) h
  refine ⟨?_, ?_⟩
  · intro c rest hd hid
    have := key (c :: rest) (by rw [hd]; intro h; cases h)
    simp only [nodeOkD, Bool.and_eq_true, decide_eq_true_eq, hid, hd] at this
    exact inWorkspace_spec this.2
  · intro c rest hk
    have := key (c :: rest) hk
    simp only [nodeOkD, Bool.and_eq_true, decide_eq_true_eq] at this
    exact this.1

end Signac.Disc

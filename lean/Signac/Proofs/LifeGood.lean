/- The uniform statements: `Good` for every outcome of a covered operation (all event schedules
   without injected ENOENT), hence for every crash state; `FaultGood` + exception after a fault. -/
import Signac.Proofs.LifeS11
namespace Signac.Life
variable {Sp : Type}

theorem valid_or_corrupt (C : Codec Sp) (w : World Sp) (k : Key) (h : (w k).isSome = true) :
    validAt C w k = true ∨ corruptAt C w k = true := by
  cases hk : w k with
  | none => simp [hk] at h
  | some d => simp only [validAt, corruptAt, hk]; cases d.valid C k.2 <;> simp

theorem good_of_run (C : Codec Sp) (op : Op Sp) (hc : op.covered) (w : World Sp) (ev : Nat → Option Ev)
    (hne : NoENOENT ev) : Good C op w (run C ev (op.prog C) w).w := by
  refine ⟨fun k hk => valid_or_corrupt C _ k hk, fun k hk => op_frame C op ev w hk, ?_⟩
  cases op with
  | init k v f =>
    simp only [Op.covered] at hc; subst hc
    have h := init_spec C k v w ev
    exact ⟨h.1, h.2.1⟩
  | rekey x y v =>
    intro D hD hsp
    obtain ⟨c, hs⟩ := Option.isSome_iff_exists.mp hsp
    exact (rekey_spec C ev x y v w D hc hne hD c hs).1
  | move a b =>
    rcases move_spec C a b hc w ev with ⟨h1, h2, _⟩ | ⟨_, _, h3, h4, h5, h6⟩
    · exact Or.inl ⟨h1, h2⟩
    · exact Or.inr ⟨h3, h4, h5, h6⟩
  | clone s d o => trivial
  | remove k o => intro D hD; exact (remove_spec C ev k o D w hD).1
  | clear k o => intro D hD; exact (clear_spec C ev k o D w hD).1

theorem noENOENT_of_noFault (ev : Nat → Option Ev) (h : ∀ n e, ev n ≠ some (.fault e)) : NoENOENT ev :=
  fun n => h n _

theorem noENOENT_faultAt (k : Nat) (e : Errno) (he : e ≠ .ENOENT) : NoENOENT (faultAt k e) := by
  intro n; simp only [faultAt]; split
  · intro h; injection h with h; injection h with h; exact he h
  · simp

/-- state-point change of a job without state-point file (read as "not initialised"): the
    only steps are the failing `sp → sp~` and the removal of `y/sp~`; a consumed fault still
    ends in an exception -/
theorem rekey_uninit_exc (C : Codec Sp) (ev : Nat → Option Ev) (hne : NoENOENT ev) (x y : Key) (v : Sp)
    (w : World Sp) (happ : apply C w (.spToBak x) = .error .ENOENT)
    (hf : (run C ev (rekeyProg C x y v) w).faulted = true)
    (hnc : (run C ev (rekeyProg C x y v) w).res ≠ .crashed) :
    ∃ n, (run C ev (rekeyProg C x y v) w).res = .exc n := by
  simp only [run, rekeyProg] at hf hnc ⊢
  revert hf hnc
  refine exec_step C ev (fun o => o.faulted = true → o.res ≠ .crashed → ∃ n, o.res = .exc n) _ _ _ w
    (fun _ h => absurd rfl h) (fun t _ h => absurd rfl h) ?_ ?_ ?_
  · intro e he _ _
    have : e ≠ .ENOENT := fun h => hne _ (h ▸ he)
    dsimp only
    simp only [this, if_false, exec]; exact ⟨_, rfl⟩
  · intro w' hw'; rw [happ] at hw'; cases hw'
  · intro e he
    rw [happ] at he; cases he
    dsimp only
    rw [if_pos rfl]
    refine exec_step C ev (fun o => o.faulted = true → o.res ≠ .crashed → ∃ n, o.res = .exc n) _ _ _ w
      (fun _ h => absurd rfl h) (fun t _ h => absurd rfl h) ?_ ?_ ?_
    · intro e he _ _
      have : e ≠ .ENOENT := fun h => hne _ (h ▸ he)
      dsimp only
      simp only [this, if_false, exec]; exact ⟨_, rfl⟩
    · intro w' _ hf _
      dsimp only at hf
      simp [exec, Outcome.faulted, Acc.ok] at hf
    · intro e _
      dsimp only
      split
      · intro hf _; simp [exec, Outcome.faulted, Acc.ok] at hf
      · intro _ _; simp only [exec]; exact ⟨_, rfl⟩

theorem fault_good_of_run (C : Codec Sp) (op : Op Sp) (hc : op.covered) (w : World Sp) (ev : Nat → Option Ev)
    (hne : NoENOENT ev) (hf : (run C ev (op.prog C) w).faulted = true)
    (hnc : (run C ev (op.prog C) w).res ≠ .crashed) :
    (∃ n, (run C ev (op.prog C) w).res = .exc n) ∧ FaultGood C w (run C ev (op.prog C) w).w op := by
  have hexc : ∀ o : Outcome Sp, o.res ≠ .ok → o.res ≠ .crashed → ∃ n, o.res = .exc n := by
    intro o h1 h2
    cases hr : o.res with
    | ok => exact absurd hr h1
    | crashed => exact absurd hr h2
    | exc n => exact ⟨n, rfl⟩
  cases op with
  | init k v f =>
    simp only [Op.covered] at hc; subst hc
    have h := init_spec C k v w ev
    have hno : (run C ev (initProg C k v false) w).res ≠ .ok := by
      intro hok; have := (h.2.2.1 hok).2; simp only [Op.prog] at hf; rw [this] at hf; cases hf
    obtain ⟨n, hn⟩ := hexc _ hno hnc
    exact ⟨⟨n, hn⟩, h.2.2.2 n hn⟩
  | rekey x y v =>
    have hno : ∀ D c, w x = some D → D.sp = some c → (run C ev (rekeyProg C x y v) w).res ≠ .ok := by
      intro D c hD hs hok
      have := ((rekey_spec C ev x y v w D hc hne hD c hs).2.1 hok).1
      simp only [Op.prog] at hf; rw [this] at hf; cases hf
    -- without a state-point file at `x` the claim about the state is void, but the exception is still due
    cases hD : w x with
    | none =>
      refine ⟨?_, fun D hD' => by rw [hD] at hD'; cases hD'⟩
      exact rekey_uninit_exc C ev hne x y v w (by simp [apply, hD]) hf hnc
    | some D =>
      cases hs : D.sp with
      | none =>
        refine ⟨?_, fun D' hD' hsp => by rw [hD] at hD'; injection hD' with h; subst h; simp [hs] at hsp⟩
        exact rekey_uninit_exc C ev hne x y v w (by simp [apply, hD, hs]) hf hnc
      | some c =>
        obtain ⟨n, hn⟩ := hexc _ (hno D c hD hs) hnc
        refine ⟨⟨n, hn⟩, ?_⟩
        intro D' hD' _
        rw [hD] at hD'; injection hD' with h; subst h
        exact (rekey_spec C ev x y v w D hc hne hD c hs).2.2 n hn
  | move a b =>
    rcases move_spec C a b hc w ev with ⟨h1, h2, h3⟩ | ⟨_, h2, _⟩
    · exact ⟨hexc _ h3 hnc, h1, h2⟩
    · simp only [Op.prog] at hf; rw [h2] at hf; cases hf
  | clone s d o => exact absurd hc (by simp [Op.covered])
  | remove k o =>
    refine ⟨?_, trivial⟩
    cases hD : w k with
    | none =>
      simp only [Op.prog, run, removeProg] at hf
      rw [exec] at hf; simp [hD, exec, Outcome.faulted] at hf
    | some D => exact hexc _ ((remove_spec C ev k o D w hD).2 hne hf) hnc
  | clear k o =>
    refine ⟨?_, trivial⟩
    cases hD : w k with
    | none =>
      simp only [Op.prog, run, clearProg] at hf
      rw [exec] at hf; simp [hD, exec, Outcome.faulted] at hf
    | some D => exact hexc _ ((clear_spec C ev k o D w hD).2 hne hf) hnc

end Signac.Life

/-
  The keys `DocSync.ByKey` records as skipped (and raises in `DocumentSyncConflict` when there is
  no key strategy) are EXACTLY the conflicting keys the key strategy does not select.

  `confItems ks root s d` is a pure specification of the recorded list (in order); the main lemma
  `byKeyItems_skipped_eq` shows the model computes it, `mem_confItems_iff_docConf` ties it to the
  inductive predicate `DocConf`, `confItems_nodup` shows it has no duplicates when no key contains
  a dot (and `conflict_payload_dup_witness` that it may have duplicates otherwise).  Core only.
-/
import Signac.Proofs.SyncMore
import Signac.Proofs.SchemaPyEq
namespace Signac.Sync

/-! ### the specification of the recorded keys -/

mutual
  /-- the dotted keys `ByKey` records while walking the items of the source mapping against the
      destination mapping `d` (the destination as it was before the walk) -/
  def confItems (ks : Option (String → Bool)) (root : String) : List (String × JVal) → Doc → List String
    | [], _ => []
    | (k, v) :: tl, d =>
      (match lookupKV k d with
       | none => []
       | some w => if pyEq w v then [] else confValue ks root k v w) ++ confItems ks root tl d
  /-- … for one key on both sides with values `v` (source), `w` (destination) that are not `==` -/
  def confValue (ks : Option (String → Bool)) (root k : String) : JVal → JVal → List String
    | .obj sv, w =>
      match w with
      | .obj dw => confItems ks (root ++ k ++ ".") sv dw
      | _ => []
    | _, _ => if keySelected ks (root ++ k) then [] else [root ++ k]
end

theorem confValue_leaf (ks : Option (String → Bool)) (root k : String) (v w : JVal) (hl : IsLeaf v) :
    confValue ks root k v w = if keySelected ks (root ++ k) then [] else [root ++ k] := by
  cases v with
  | obj sv => simp [IsLeaf] at hl
  | _ => simp [confValue]

theorem confValue_obj_obj (ks : Option (String → Bool)) (root k : String) (sv dw : List (String × JVal)) :
    confValue ks root k (.obj sv) (.obj dw) = confItems ks (root ++ k ++ ".") sv dw := by
  simp [confValue]

/-! ### the model computes the specification -/

theorem byKeyValue_leaf_skipped (ks : Option (String → Bool)) (root k : String) (v w : JVal) (hl : IsLeaf v)
    (st : ByKeySt) :
    (byKeyValue ks root k v w st).skipped = st.skipped ++ confValue ks root k v w := by
  rw [byKeyValue_leaf ks root k v w hl st, confValue_leaf ks root k v w hl]
  cases ks with
  | none => simp [keySelected]
  | some f =>
    simp only [keySelected]
    by_cases hf : f (root ++ k) = true <;> simp [hf]

mutual
  /-- the walk over `items` appends exactly `confItems … items d0` to the recorded keys, `d0`
      being any mapping that agrees with the current destination on the keys still to come -/
  theorem byKeyItems_skipped_eq (ks : Option (String → Bool)) :
      (root : String) → (items : List (String × JVal)) → (st : ByKeySt) → (d0 : Doc) →
      NodupKeysObj items → (∀ j, j ∈ keys items → lookupKV j st.dst = lookupKV j d0) →
      (byKeyItems ks root items st).typeErr = false →
      (byKeyItems ks root items st).skipped = st.skipped ++ confItems ks root items d0
    | root, [], st, d0, _, _, _ => by simp [byKeyItems, confItems]
    | root, (k, v) :: tl, st, d0, hnd, hlk, hte => by
      have hst := byKeyItems_typeErr_false ks root _ st hte
      simp only [NodupKeysObj] at hnd
      obtain ⟨hk, hv, hndtl⟩ := hnd
      have hk0 : lookupKV k st.dst = lookupKV k d0 := hlk k (by simp [keys])
      have hne : ∀ j, j ∈ keys tl → j ≠ k := by
        intro j hj
        simp only [keys, List.mem_map] at hj
        obtain ⟨kv, hkv, rfl⟩ := hj
        exact hk kv hkv
      have hlk' : ∀ j, j ∈ keys tl → lookupKV j st.dst = lookupKV j d0 :=
        fun j hj => hlk j (by simp only [keys, List.map_cons, List.mem_cons]; exact Or.inr hj)
      simp only [byKeyItems, hst, Bool.false_eq_true, if_false, hk0] at hte ⊢
      simp only [confItems]
      cases hl : lookupKV k d0 with
      | none =>
        simp only [hl] at hte ⊢
        rw [byKeyItems_skipped_eq ks root tl _ d0 hndtl
          (fun j hj => by simp only [lookupKV_setKV_other (hne j hj)]; exact hlk' j hj) hte]
        simp
      | some w =>
        simp only [hl] at hte ⊢
        by_cases heq : pyEq w v = true
        · simp only [heq, if_true] at hte ⊢
          rw [byKeyItems_skipped_eq ks root tl st d0 hndtl hlk' hte]
          simp
        · simp only [heq, Bool.false_eq_true, if_false] at hte ⊢
          have hte1 := byKeyItems_typeErr_false ks root tl _ hte
          rw [byKeyItems_skipped_eq ks root tl _ d0 hndtl
            (fun j hj => by rw [byKeyValue_other ks root k j (hne j hj)]; exact hlk' j hj) hte,
            byKeyValue_skipped_eq ks root k v w st hv hte1, List.append_assoc]
  theorem byKeyValue_skipped_eq (ks : Option (String → Bool)) :
      (root k : String) → (v w : JVal) → (st : ByKeySt) → NodupKeysVal v →
      (byKeyValue ks root k v w st).typeErr = false →
      (byKeyValue ks root k v w st).skipped = st.skipped ++ confValue ks root k v w
    | root, k, .obj sv, w, st, hv, hte => by
      have hsv : NodupKeysObj sv := by simpa [NodupKeysVal] using hv
      cases w with
      | obj dw =>
        simp only [byKeyValue] at hte ⊢
        rw [confValue_obj_obj]
        exact byKeyItems_skipped_eq ks (root ++ k ++ ".") sv { st with dst := dw } dw hsv
          (fun _ _ => rfl) hte
      | null => cases sv <;> simp_all [byKeyValue, confValue]
      | bool b => cases sv <;> simp_all [byKeyValue, confValue]
      | int i => cases sv <;> simp_all [byKeyValue, confValue]
      | flt a b c => cases sv <;> simp_all [byKeyValue, confValue]
      | str s => cases sv <;> simp_all [byKeyValue, confValue]
      | arr xs => cases sv <;> simp_all [byKeyValue, confValue]
    | root, k, .null, w, st, _, _ => byKeyValue_leaf_skipped ks root k _ w (by simp [IsLeaf]) st
    | root, k, .bool _, w, st, _, _ => byKeyValue_leaf_skipped ks root k _ w (by simp [IsLeaf]) st
    | root, k, .int _, w, st, _, _ => byKeyValue_leaf_skipped ks root k _ w (by simp [IsLeaf]) st
    | root, k, .flt _ _ _, w, st, _, _ => byKeyValue_leaf_skipped ks root k _ w (by simp [IsLeaf]) st
    | root, k, .str _, w, st, _, _ => byKeyValue_leaf_skipped ks root k _ w (by simp [IsLeaf]) st
    | root, k, .arr _, w, st, _, _ => byKeyValue_leaf_skipped ks root k _ w (by simp [IsLeaf]) st
end

/-- the recorded keys of a whole `ByKey` run, as a list (order included) -/
theorem byKeyItems_skipped_spec (ks : Option (String → Bool)) (s d : Doc) (hs : NodupKeysObj s)
    (hte : (byKeyItems ks "" s ⟨d, [], false, false⟩).typeErr = false) :
    (byKeyItems ks "" s ⟨d, [], false, false⟩).skipped = confItems ks "" s d := by
  rw [byKeyItems_skipped_eq ks "" s ⟨d, [], false, false⟩ d hs (fun _ _ => rfl) hte]
  simp

/-! ### the specification and `DocConf` -/

theorem mem_confItems (ks : Option (String → Bool)) (root key : String) (d : Doc) :
    ∀ items : List (String × JVal), key ∈ confItems ks root items d ↔
      ∃ k v w, (k, v) ∈ items ∧ lookupKV k d = some w ∧ pyEq w v = false ∧
        key ∈ confValue ks root k v w := by
  intro items
  induction items with
  | nil => simp [confItems]
  | cons hd tl ih =>
    obtain ⟨k, v⟩ := hd
    simp only [confItems, List.mem_append, ih]
    constructor
    · rintro (h | ⟨k', v', w', hm, h1, h2, h3⟩)
      · cases hl : lookupKV k d with
        | none => simp [hl] at h
        | some w =>
          simp only [hl] at h
          by_cases heq : pyEq w v = true
          · simp [heq] at h
          · simp only [heq, Bool.false_eq_true, if_false] at h
            exact ⟨k, v, w, List.mem_cons_self, hl, by simpa using heq, h⟩
      · exact ⟨k', v', w', List.mem_cons_of_mem _ hm, h1, h2, h3⟩
    · rintro ⟨k', v', w', hm, h1, h2, h3⟩
      simp only [List.mem_cons, Prod.mk.injEq] at hm
      rcases hm with ⟨rfl, rfl⟩ | hm
      · left
        simp only [h1, h2, Bool.false_eq_true, if_false]
        exact h3
      · exact Or.inr ⟨k', v', w', hm, h1, h2, h3⟩

theorem DocConf.path_cons {root : String} {s d : Doc} {p : List String} {v w : JVal} {key : String}
    (h : DocConf root s d p v w key) : ∃ k q, p = k :: q := by
  cases h with
  | leaf => exact ⟨_, _, rfl⟩
  | sub => exact ⟨_, _, rfl⟩

/-- every conflicting key that the key strategy does not select is in the specification -/
theorem docConf_mem_confItems (ks : Option (String → Bool)) {root : String} {s d : Doc} {p : List String}
    {v w : JVal} {key : String} (hc : DocConf root s d p v w key) (hsel : keySelected ks key = false) :
    key ∈ confItems ks root s d := by
  induction hc with
  | @leaf root s d k v w hnd hs hd hne hl =>
    rw [mem_confItems]
    refine ⟨k, v, w, lookupKV_mem hs, hd, hne, ?_⟩
    rw [confValue_leaf ks root k v w hl]
    simp [hsel]
  | @sub root s d k sv dw k' p v w key hnd hs hd hne _ ih =>
    rw [mem_confItems]
    refine ⟨k, .obj sv, .obj dw, lookupKV_mem hs, hd, hne, ?_⟩
    rw [confValue_obj_obj]
    exact ih hsel

theorem confValue_sound_leaf (ks : Option (String → Bool)) {key root : String} {s d : Doc} {k : String}
    {v w : JVal} (hnd : (keys s).Nodup) (hs : lookupKV k s = some v) (hd : lookupKV k d = some w)
    (hne : pyEq w v = false) (hl : IsLeaf v) (h : key ∈ confValue ks root k v w) :
    (∃ p v' w', DocConf root s d p v' w' key) ∧ keySelected ks key = false := by
  rw [confValue_leaf ks root k v w hl] at h
  by_cases hsel : keySelected ks (root ++ k) = true
  · simp [hsel] at h
  · simp only [hsel, Bool.false_eq_true, if_false, List.mem_singleton] at h
    subst h
    exact ⟨⟨[k], v, w, DocConf.leaf hnd hs hd hne hl⟩, by simpa using hsel⟩

mutual
  theorem confItems_sound(ks : Option (String → Bool)) (key : String) :
      (root : String) → (s d : Doc) → NodupKeysObj s → (items : List (String × JVal)) →
      (∀ kv, kv ∈ items → kv ∈ s) → NodupKeysObj items → key ∈ confItems ks root items d →
      (∃ p v w, DocConf root s d p v w key) ∧ keySelected ks key = false
    | _, _, _, _, [], _, _, h => by simp [confItems] at h
    | root, s, d, hs, (k, v) :: tl, hsub, hnd, h => by
      simp only [NodupKeysObj] at hnd
      simp only [confItems, List.mem_append] at h
      rcases h with h | h
      · cases hl : lookupKV k d with
        | none => simp [hl] at h
        | some w =>
          simp only [hl] at h
          by_cases heq : pyEq w v = true
          · simp [heq] at h
          · simp only [heq, Bool.false_eq_true, if_false] at h
            exact confValue_sound ks key root s d k v w hnd.2.1 (NodupKeysObj_keys hs)
              (lookupKV_of_mem hs (hsub _ List.mem_cons_self)) hl (by simpa using heq) h
      · exact confItems_sound ks key root s d hs tl
          (fun kv hkv => hsub kv (List.mem_cons_of_mem _ hkv)) hnd.2.2 h
  theorem confValue_sound (ks : Option (String → Bool)) (key : String) :
      (root : String) → (s d : Doc) → (k : String) → (v w : JVal) → NodupKeysVal v →
      (keys s).Nodup → lookupKV k s = some v → lookupKV k d = some w → pyEq w v = false →
      key ∈ confValue ks root k v w →
      (∃ p v' w', DocConf root s d p v' w' key) ∧ keySelected ks key = false
    | root, s, d, k, .obj sv, w, hv, hnd, hs, hd, hne, h => by
      have hsv : NodupKeysObj sv := by simpa [NodupKeysVal] using hv
      cases w with
      | obj dw =>
        rw [confValue_obj_obj] at h
        obtain ⟨⟨p, v', w', hc⟩, hsel⟩ :=
          confItems_sound ks key (root ++ k ++ ".") sv dw hsv sv (fun _ h => h) hsv h
        obtain ⟨k', q, rfl⟩ := hc.path_cons
        exact ⟨⟨k :: k' :: q, v', w', DocConf.sub hnd hs hd hne hc⟩, hsel⟩
      | null => simp [confValue] at h
      | bool b => simp [confValue] at h
      | int i => simp [confValue] at h
      | flt a b c => simp [confValue] at h
      | str s => simp [confValue] at h
      | arr xs => simp [confValue] at h
    | root, s, d, k, .null, w, _, hnd, hs, hd, hne, h => confValue_sound_leaf ks hnd hs hd hne (by simp [IsLeaf]) h
    | root, s, d, k, .bool _, w, _, hnd, hs, hd, hne, h => confValue_sound_leaf ks hnd hs hd hne (by simp [IsLeaf]) h
    | root, s, d, k, .int _, w, _, hnd, hs, hd, hne, h => confValue_sound_leaf ks hnd hs hd hne (by simp [IsLeaf]) h
    | root, s, d, k, .flt _ _ _, w, _, hnd, hs, hd, hne, h => confValue_sound_leaf ks hnd hs hd hne (by simp [IsLeaf]) h
    | root, s, d, k, .str _, w, _, hnd, hs, hd, hne, h => confValue_sound_leaf ks hnd hs hd hne (by simp [IsLeaf]) h
    | root, s, d, k, .arr _, w, _, hnd, hs, hd, hne, h => confValue_sound_leaf ks hnd hs hd hne (by simp [IsLeaf]) h
end

/-- `mem_confItems_iff_docConf`: the specification lists exactly the conflicting keys the key
    strategy does not select -/
theorem mem_confItems_iff_docConf (ks : Option (String → Bool)) (root : String) (s d : Doc)
    (hs : NodupKeysObj s) (key : String) :
    key ∈ confItems ks root s d ↔ (∃ p v w, DocConf root s d p v w key) ∧ keySelected ks key = false :=
  ⟨fun h => confItems_sound ks key root s d hs s (fun _ h => h) hs h,
   fun ⟨⟨_, _, _, hc⟩, hsel⟩ => docConf_mem_confItems ks hc hsel⟩

/-! ### duplicates -/

/-- no key of any mapping reached through mappings contains a dot -/
def dotFree (k : String) : Prop := '.' ∉ k.toList

mutual
  def DotFreeVal : JVal → Prop
    | .obj kvs => DotFreeObj kvs
    | _ => True
  def DotFreeObj : List (String × JVal) → Prop
    | [] => True
    | (k, v) :: rest => dotFree k ∧ DotFreeVal v ∧ DotFreeObj rest
end

theorem DotFreeObj_keys {kvs : List (String × JVal)} (h : DotFreeObj kvs) : ∀ k, k ∈ keys kvs → dotFree k := by
  induction kvs with
  | nil => intro k hk; simp [keys] at hk
  | cons a l ih =>
    obtain ⟨k', v'⟩ := a
    simp only [DotFreeObj] at h
    intro k hk
    simp only [keys, List.map_cons, List.mem_cons] at hk
    rcases hk with rfl | hk
    · exact h.1
    · exact ih h.2.2 k hk

/-- what follows the key in a recorded dotted key: nothing, or a dot and more -/
def DotTail (r : String) : Prop := r = "" ∨ ∃ r', r = "." ++ r'

theorem list_prefix_unique {a b r r' : List Char} (ha : '.' ∉ a) (hb : '.' ∉ b)
    (hr : r = [] ∨ ∃ t, r = '.' :: t) (hr' : r' = [] ∨ ∃ t, r' = '.' :: t)
    (h : a ++ r = b ++ r') : a = b := by
  induction a generalizing b with
  | nil =>
    cases b with
    | nil => rfl
    | cons y b' =>
      exfalso
      simp only [List.nil_append, List.cons_append] at h
      rcases hr with rfl | ⟨t, rfl⟩
      · cases h
      · injection h with h1 _
        subst h1
        exact hb List.mem_cons_self
  | cons x a' ih =>
    cases b with
    | nil =>
      exfalso
      simp only [List.nil_append, List.cons_append] at h
      rcases hr' with rfl | ⟨t, rfl⟩
      · cases h
      · injection h with h1 _
        subst h1
        exact ha List.mem_cons_self
    | cons y b' =>
      simp only [List.cons_append] at h
      injection h with h1 h2
      subst h1
      rw [ih (fun hm => ha (List.mem_cons_of_mem _ hm)) (fun hm => hb (List.mem_cons_of_mem _ hm)) h2]

theorem DotTail.toList {r : String} (h : DotTail r) : r.toList = [] ∨ ∃ t, r.toList = '.' :: t := by
  rcases h with rfl | ⟨r', rfl⟩
  · exact Or.inl String.toList_empty
  · exact Or.inr ⟨r'.toList, by rw [String.toList_append]; rfl⟩

/-- two recorded keys below the same root whose first components have no dot have the same
    first component -/
theorem dotted_key_unique {root k k' r r' : String} (hk : dotFree k) (hk' : dotFree k')
    (hr : DotTail r) (hr' : DotTail r') (h : root ++ k ++ r = root ++ k' ++ r') : k = k' := by
  have := congrArg String.toList h
  simp only [String.toList_append, List.append_assoc, List.append_cancel_left_eq] at this
  exact String.toList_inj.mp (list_prefix_unique hk hk' hr.toList hr'.toList this)

theorem confValue_prefix_leaf (ks : Option (String → Bool)) {key root k : String} {v w : JVal}
    (hl : IsLeaf v) (h : key ∈ confValue ks root k v w) : ∃ r, key = root ++ k ++ r ∧ DotTail r := by
  rw [confValue_leaf ks root k v w hl] at h
  by_cases hsel : keySelected ks (root ++ k) = true
  · simp [hsel] at h
  · simp only [hsel, Bool.false_eq_true, if_false, List.mem_singleton] at h
    exact ⟨"", by rw [h, String.append_empty], Or.inl rfl⟩

mutual
  theorem confItems_prefix (ks : Option (String → Bool)) (key : String) :
      (root : String) → (items : List (String × JVal)) → (d : Doc) → key ∈ confItems ks root items d →
      ∃ k r, k ∈ keys items ∧ key = root ++ k ++ r ∧ DotTail r
    | _, [], _, h => by simp [confItems] at h
    | root, (k, v) :: tl, d, h => by
      simp only [confItems, List.mem_append] at h
      rcases h with h | h
      · cases hl : lookupKV k d with
        | none => simp [hl] at h
        | some w =>
          simp only [hl] at h
          by_cases heq : pyEq w v = true
          · simp [heq] at h
          · simp only [heq, Bool.false_eq_true, if_false] at h
            obtain ⟨r, h1, h2⟩ := confValue_prefix ks key root k v w h
            exact ⟨k, r, by simp [keys], h1, h2⟩
      · obtain ⟨k', r, h0, h1, h2⟩ := confItems_prefix ks key root tl d h
        exact ⟨k', r, by simp only [keys, List.map_cons, List.mem_cons]; exact Or.inr h0, h1, h2⟩
  theorem confValue_prefix (ks : Option (String → Bool)) (key : String) :
      (root k : String) → (v w : JVal) → key ∈ confValue ks root k v w →
      ∃ r, key = root ++ k ++ r ∧ DotTail r
    | root, k, .obj sv, w, h => by
      cases w with
      | obj dw =>
        rw [confValue_obj_obj] at h
        obtain ⟨k2, r2, _, h1, _⟩ := confItems_prefix ks key (root ++ k ++ ".") sv dw h
        exact ⟨"." ++ (k2 ++ r2), by rw [h1]; simp only [String.append_assoc], Or.inr ⟨_, rfl⟩⟩
      | null => simp [confValue] at h
      | bool b => simp [confValue] at h
      | int i => simp [confValue] at h
      | flt a b c => simp [confValue] at h
      | str s => simp [confValue] at h
      | arr xs => simp [confValue] at h
    | root, k, .null, w, h => confValue_prefix_leaf ks (by simp [IsLeaf]) h
    | root, k, .bool _, w, h => confValue_prefix_leaf ks (by simp [IsLeaf]) h
    | root, k, .int _, w, h => confValue_prefix_leaf ks (by simp [IsLeaf]) h
    | root, k, .flt _ _ _, w, h => confValue_prefix_leaf ks (by simp [IsLeaf]) h
    | root, k, .str _, w, h => confValue_prefix_leaf ks (by simp [IsLeaf]) h
    | root, k, .arr _, w, h => confValue_prefix_leaf ks (by simp [IsLeaf]) h
end

mutual
  /-- when no key contains a dot, no dotted key is recorded twice -/
  theorem confItems_nodup (ks : Option (String → Bool)) :
      (root : String) → (items : List (String × JVal)) → (d : Doc) → NodupKeysObj items →
      DotFreeObj items → (confItems ks root items d).Nodup
    | _, [], _, _, _ => by simp [confItems]
    | root, (k, v) :: tl, d, hnd, hdf => by
      simp only [NodupKeysObj] at hnd
      simp only [DotFreeObj] at hdf
      simp only [confItems]
      have htl := confItems_nodup ks root tl d hnd.2.2 hdf.2.2
      have hdisj : ∀ x, x ∈ confValue ks root k v (match lookupKV k d with | some w => w | none => .null) →
          x ∈ confItems ks root tl d → False := by
        intro x hx hy
        obtain ⟨r, h1, h2⟩ := confValue_prefix ks x root k v _ hx
        obtain ⟨k', r', h0, h1', h2'⟩ := confItems_prefix ks x root tl d hy
        have hkk : k = k' := dotted_key_unique hdf.1 (DotFreeObj_keys hdf.2.2 k' h0) h2 h2' (h1.symm.trans h1')
        simp only [keys, List.mem_map] at h0
        obtain ⟨kv, hkv, rfl⟩ := h0
        exact hnd.1 kv hkv hkk.symm
      cases hl : lookupKV k d with
      | none => simpa using htl
      | some w =>
        simp only [hl] at hdisj ⊢
        by_cases heq : pyEq w v = true
        · simpa [heq] using htl
        · simp only [heq, Bool.false_eq_true, if_false]
          rw [List.nodup_append]
          exact ⟨confValue_nodup ks root k v w hnd.2.1 hdf.2.1, htl,
            fun a ha b hb hab => hdisj a ha (hab ▸ hb)⟩
  theorem confValue_nodup (ks : Option (String → Bool)) :
      (root k : String) → (v w : JVal) → NodupKeysVal v → DotFreeVal v → (confValue ks root k v w).Nodup
    | root, k, .obj sv, w, hv, hdf => by
      cases w with
      | obj dw =>
        rw [confValue_obj_obj]
        exact confItems_nodup ks (root ++ k ++ ".") sv dw (by simpa [NodupKeysVal] using hv)
          (by simpa [DotFreeVal] using hdf)
      | null => simp [confValue]
      | bool b => simp [confValue]
      | int i => simp [confValue]
      | flt a b c => simp [confValue]
      | str s => simp [confValue]
      | arr xs => simp [confValue]
    | root, k, .null, w, _, _ => by simp only [confValue]; split <;> simp
    | root, k, .bool _, w, _, _ => by simp only [confValue]; split <;> simp
    | root, k, .int _, w, _, _ => by simp only [confValue]; split <;> simp
    | root, k, .flt _ _ _, w, _, _ => by simp only [confValue]; split <;> simp
    | root, k, .str _, w, _, _ => by simp only [confValue]; split <;> simp
    | root, k, .arr _, w, _, _ => by simp only [confValue]; split <;> simp
end

/-! ### the payload of DocumentSyncConflict -/

/-- the exception raised without key strategy carries the recorded keys -/
theorem runDocSync_conflict_payload {s d : Doc} {keys' : List String}
    (hte : (byKeyItems none "" s ⟨d, [], false, false⟩).typeErr = false)
    (herr : (runDocSync (.byKey none) s d).err = some (.docConflict keys')) :
    keys' = (byKeyItems none "" s ⟨d, [], false, false⟩).skipped := by
  rw [runDocSync_default_err, hte] at herr
  simp only [Bool.false_eq_true, if_false] at herr
  cases hsk : (byKeyItems none "" s ⟨d, [], false, false⟩).skipped with
  | nil => rw [hsk] at herr; cases herr
  | cons k rest =>
    rw [hsk] at herr
    injection herr with h
    injection h with h
    exact h.symm

/-- dotted keys can collide: key "a.b" at the top level versus key "b" below "a" -/
def dupSrc : Doc := [("a.b", .int 1), ("a", .obj [("b", .int 1)])]
def dupDst : Doc := [("a.b", .int 2), ("a", .obj [("b", .int 2)])]

theorem conflict_payload_dup_witness :
    NodupKeysObj dupSrc ∧ NodupKeysObj dupDst ∧
    (byKeyItems none "" dupSrc ⟨dupDst, [], false, false⟩).typeErr = false ∧
    (runDocSync (.byKey none) dupSrc dupDst).err = some (.docConflict ["a.b", "a.b"]) ∧
    ¬ ["a.b", "a.b"].Nodup :=
  ⟨by simp [dupSrc, NodupKeysObj, NodupKeysVal], by simp [dupDst, NodupKeysObj, NodupKeysVal],
   by rfl, by rfl, by decide⟩

end Signac.Sync

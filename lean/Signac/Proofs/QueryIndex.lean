/-
  Helper lemmas for C06, layer 1: the value index (`build_index` into a `_TypedSetDefaultDict`)
  groups jobs into slots, each with a representative key that shares the slot with every member;
  evaluating an operator on the representatives, or looking a key up, is exact for every job.
-/
import Signac.Proofs.QueryVal
import Signac.Proofs.QueryLogic
namespace Signac.Query
open Signac

/-- index keys whose lists hold no mappings -/
def flatKey : IKey → Bool
  | .val v => flatVal v
  | .dict => true

mutual
  theorem pyEq_refl_flat : ∀ (a : JVal), flatVal a = true → pyEq a a = true
    | .null, _ => rfl
    | .bool b, _ => by rw [pyEq_of_numVal (numVal_bool b), numVal_bool]; exact numEq_refl _
    | .int i, _ => by rw [pyEq_of_numVal (p := (i, 0)) rfl]; exact numEq_refl _
    | .flt n e r, _ => by rw [pyEq_of_numVal (p := (n, e)) rfl]; exact numEq_refl _
    | .str s, _ => by simp [pyEq]
    | .arr xs, h => by simp only [pyEq]; exact pyEqList_refl_flat xs (by simpa [flatVal] using h)
    | .obj _, h => by simp [flatVal] at h
  theorem pyEqList_refl_flat : ∀ (xs : List JVal), flatList xs = true → pyEqList xs xs = true
    | [], _ => rfl
    | x :: xs, h => by
      simp only [flatList, Bool.and_eq_true] at h
      simp only [pyEqList, Bool.and_eq_true]
      exact ⟨pyEq_refl_flat x h.1, pyEqList_refl_flat xs h.2⟩
end

theorem slotEq_refl {k : IKey} (h : flatKey k = true) : slotEq k k = true := by
  cases k with
  | dict => rfl
  | val v => simp only [slotEq, Bool.and_eq_true, beq_self_eq_true, and_true]; exact pyEq_refl_flat v h

theorem slotEq_symm {a : IKey} (h : flatKey a = true) (c : IKey) :
    slotEq a c = slotEq c a := by
  cases a with
  | dict => cases c <;> rfl
  | val v =>
    cases c with
    | dict => rfl
    | val w =>
      simp only [slotEq]
      rw [pyEq_symm_flat v h w]
      congr 1
      rw [Bool.eq_iff_iff]; simp only [beq_iff_eq]; exact eq_comm

theorem slotEq_eucl {a b : IKey} (h : flatKey a = true) (hab : slotEq a b = true)
    (c : IKey) : slotEq a c = slotEq b c := by
  cases a with
  | dict => cases b with
    | dict => rfl
    | val _ => simp [slotEq] at hab
  | val v =>
    cases b with
    | dict => simp [slotEq] at hab
    | val w =>
      simp only [slotEq, Bool.and_eq_true, beq_iff_eq] at hab
      cases c with
      | dict => rfl
      | val u =>
        simp only [slotEq]
        rw [pyEq_eucl_flat v h w u hab.1, hab.2]

/-- right-Euclidean form: two keys matching the same key match each other -/
theorem slotEq_right {a b : IKey} (ha : flatKey a = true) (hb : flatKey b = true)
    {c : IKey} (h1 : slotEq a c = true) (h2 : slotEq b c = true) : slotEq a b = true := by
  rw [slotEq_eucl ha h1 b, ← slotEq_symm hb c]
  exact h2

/-! ### inserting into the slot list -/

theorem insert_mem_cases {k : IKey} {i : JobId} : ∀ {idx : Index} {r : IKey} {ids : List JobId},
    (r, ids) ∈ Index.insert k i idx →
      (r, ids) ∈ idx
      ∨ (∃ ids0, (r, ids0) ∈ idx ∧ ids = ids0 ++ [i] ∧ slotEq r k = true)
      ∨ (r = k ∧ ids = [i] ∧ ∀ g ∈ idx, slotEq g.1 k = false)
  | [], r, ids, h => by
    simp only [Index.insert, List.mem_singleton, Prod.mk.injEq] at h
    exact Or.inr (Or.inr ⟨h.1, h.2, by simp⟩)
  | (r0, ids0) :: rest, r, ids, h => by
    simp only [Index.insert] at h
    by_cases hs : slotEq r0 k = true
    · rw [if_pos hs] at h
      rcases List.mem_cons.mp h with h | h
      · simp only [Prod.mk.injEq] at h
        exact Or.inr (Or.inl ⟨ids0, by rw [h.1]; exact List.mem_cons_self, h.2, by rw [h.1]; exact hs⟩)
      · exact Or.inl (List.mem_cons_of_mem _ h)
    · rw [if_neg hs] at h
      rcases List.mem_cons.mp h with h | h
      · exact Or.inl (by rw [h]; exact List.mem_cons_self)
      · rcases insert_mem_cases h with h' | ⟨ids1, h1, h2, h3⟩ | ⟨h1, h2, h3⟩
        · exact Or.inl (List.mem_cons_of_mem _ h')
        · exact Or.inr (Or.inl ⟨ids1, List.mem_cons_of_mem _ h1, h2, h3⟩)
        · refine Or.inr (Or.inr ⟨h1, h2, ?_⟩)
          intro g hg
          rcases List.mem_cons.mp hg with rfl | hg
          · simpa using hs
          · exact h3 g hg

theorem insert_has {k : IKey} {i : JobId} : ∀ (idx : Index),
    ∃ r ids, (r, ids) ∈ Index.insert k i idx ∧ i ∈ ids
  | [] => ⟨k, [i], by simp [Index.insert], by simp⟩
  | (r0, ids0) :: rest => by
    simp only [Index.insert]
    by_cases hs : slotEq r0 k = true
    · rw [if_pos hs]; exact ⟨r0, ids0 ++ [i], List.mem_cons_self, by simp⟩
    · rw [if_neg hs]
      obtain ⟨r, ids, h1, h2⟩ := insert_has (k := k) (i := i) rest
      exact ⟨r, ids, List.mem_cons_of_mem _ h1, h2⟩

theorem insert_keeps {k : IKey} {i : JobId} : ∀ {idx : Index} {r : IKey} {ids : List JobId},
    (r, ids) ∈ idx → ∃ ids', (r, ids') ∈ Index.insert k i idx ∧ ∀ j ∈ ids, j ∈ ids'
  | (r0, ids0) :: rest, r, ids, h => by
    simp only [Index.insert]
    by_cases hs : slotEq r0 k = true
    · rw [if_pos hs]
      rcases List.mem_cons.mp h with h | h
      · simp only [Prod.mk.injEq] at h
        exact ⟨ids0 ++ [i], by rw [h.1]; exact List.mem_cons_self, fun j hj => by rw [h.2] at hj; simp [hj]⟩
      · exact ⟨ids, List.mem_cons_of_mem _ h, fun j hj => hj⟩
    · rw [if_neg hs]
      rcases List.mem_cons.mp h with h | h
      · exact ⟨ids, by rw [h]; exact List.mem_cons_self, fun j hj => hj⟩
      · obtain ⟨ids', h1, h2⟩ := insert_keeps (k := k) (i := i) h
        exact ⟨ids', List.mem_cons_of_mem _ h1, h2⟩

theorem insert_pairwise {k : IKey} {i : JobId} : ∀ {idx : Index},
    idx.Pairwise (fun g g' => slotEq g.1 g'.1 = false) →
    (Index.insert k i idx).Pairwise (fun g g' => slotEq g.1 g'.1 = false)
  | [], _ => by simp [Index.insert]
  | (r0, ids0) :: rest, h => by
    simp only [Index.insert]
    rw [List.pairwise_cons] at h
    by_cases hs : slotEq r0 k = true
    · rw [if_pos hs, List.pairwise_cons]
      exact ⟨h.1, h.2⟩
    · rw [if_neg hs, List.pairwise_cons]
      refine ⟨?_, insert_pairwise h.2⟩
      intro g hg
      obtain ⟨r, ids⟩ := g
      rcases insert_mem_cases hg with h' | ⟨ids1, h1, _, _⟩ | ⟨h1, _, _⟩
      · exact h.1 _ h'
      · exact h.1 (r, ids1) h1
      · simp only at h1 ⊢; rw [h1]; simpa using hs

/-! ### the index built from a corpus -/

/-- under `nodes`, lists in the documents hold no mappings -/
def FlatAt (nodes : List String) (docs : List (JobId × JVal)) : Prop :=
  ∀ j d w, (j, d) ∈ docs → getPath nodes d = some w → flatKey (toIKey w) = true

structure IdxInv (nodes : List String) (seen : List (JobId × JVal)) (idx : Index) : Prop where
  /-- every member of a slot holds a value sharing the slot with the stored key -/
  memb : ∀ r ids, (r, ids) ∈ idx → ∀ j ∈ ids,
    ∃ d w, (j, d) ∈ seen ∧ getPath nodes d = some w ∧ slotEq r (toIKey w) = true
  /-- every job holding a value is in some slot -/
  cover : ∀ j d w, (j, d) ∈ seen → getPath nodes d = some w → ∃ r ids, (r, ids) ∈ idx ∧ j ∈ ids
  /-- every stored key is the value of some job -/
  rep : ∀ r ids, (r, ids) ∈ idx → ∃ j d w, (j, d) ∈ seen ∧ getPath nodes d = some w ∧ r = toIKey w
  /-- stored keys are pairwise in different slots -/
  distinct : idx.Pairwise (fun g g' => slotEq g.1 g'.1 = false)

theorem IdxInv.nil (nodes : List String) : IdxInv nodes [] [] :=
  ⟨by simp, by simp, by simp, List.Pairwise.nil⟩

theorem IdxInv.skip {nodes : List String} {seen : List (JobId × JVal)} {idx : Index}
    (h : IdxInv nodes seen idx) {i : JobId} {d : JVal} (hd : getPath nodes d = none) :
    IdxInv nodes (seen ++ [(i, d)]) idx := by
  refine ⟨?_, ?_, ?_, h.distinct⟩
  · intro r ids hg j hj
    obtain ⟨d', w, h1, h2, h3⟩ := h.memb r ids hg j hj
    exact ⟨d', w, List.mem_append_left _ h1, h2, h3⟩
  · intro j d' w hj hw
    rcases List.mem_append.mp hj with hj | hj
    · exact h.cover j d' w hj hw
    · simp only [List.mem_singleton, Prod.mk.injEq] at hj
      rw [hj.2, hd] at hw; cases hw
  · intro r ids hg
    obtain ⟨j, d', w, h1, h2, h3⟩ := h.rep r ids hg
    exact ⟨j, d', w, List.mem_append_left _ h1, h2, h3⟩

theorem IdxInv.add {nodes : List String} {seen : List (JobId × JVal)} {idx : Index}
    (h : IdxInv nodes seen idx) {i : JobId} {d w : JVal} (hd : getPath nodes d = some w)
    (hf : flatKey (toIKey w) = true) :
    IdxInv nodes (seen ++ [(i, d)]) (Index.insert (toIKey w) i idx) := by
  refine ⟨?_, ?_, ?_, insert_pairwise h.distinct⟩
  · intro r ids hg j hj
    rcases insert_mem_cases hg with h' | ⟨ids0, h1, h2, h3⟩ | ⟨h1, h2, _⟩
    · obtain ⟨d', w', a, b, c⟩ := h.memb r ids h' j hj
      exact ⟨d', w', List.mem_append_left _ a, b, c⟩
    · rw [h2] at hj
      rcases List.mem_append.mp hj with hj | hj
      · obtain ⟨d', w', a, b, c⟩ := h.memb r ids0 h1 j hj
        exact ⟨d', w', List.mem_append_left _ a, b, c⟩
      · simp only [List.mem_singleton] at hj
        exact ⟨d, w, by rw [hj]; simp, hd, h3⟩
    · rw [h2] at hj
      simp only [List.mem_singleton] at hj
      exact ⟨d, w, by rw [hj]; simp, hd, by rw [h1]; exact slotEq_refl hf⟩
  · intro j d' w' hj hw
    rcases List.mem_append.mp hj with hj | hj
    · obtain ⟨r, ids, a, b⟩ := h.cover j d' w' hj hw
      obtain ⟨ids', a', b'⟩ := insert_keeps (k := toIKey w) (i := i) a
      exact ⟨r, ids', a', b' j b⟩
    · simp only [List.mem_singleton, Prod.mk.injEq] at hj
      obtain ⟨r, ids, a, b⟩ := insert_has (k := toIKey w) (i := i) idx
      exact ⟨r, ids, a, by rw [hj.1]; exact b⟩
  · intro r ids hg
    rcases insert_mem_cases hg with h' | ⟨ids0, h1, _, _⟩ | ⟨h1, _, _⟩
    · obtain ⟨j, d', w', a, b, c⟩ := h.rep r ids h'
      exact ⟨j, d', w', List.mem_append_left _ a, b, c⟩
    · obtain ⟨j, d', w', a, b, c⟩ := h.rep r ids0 h1
      exact ⟨j, d', w', List.mem_append_left _ a, b, c⟩
    · exact ⟨i, d, w, by simp, hd, h1⟩

theorem buildIndexFrom_inv {nodes : List String} : ∀ (rest seen : List (JobId × JVal)) (idx : Index),
    FlatAt nodes rest → IdxInv nodes seen idx →
    IdxInv nodes (seen ++ rest) (buildIndexFrom nodes rest idx)
  | [], seen, idx, _, h => by simpa [buildIndexFrom] using h
  | (i, d) :: rest, seen, idx, hf, h => by
    have hf' : FlatAt nodes rest := fun j d' w hj hw => hf j d' w (List.mem_cons_of_mem _ hj) hw
    have e : seen ++ (i, d) :: rest = (seen ++ [(i, d)]) ++ rest := by simp
    rw [e]
    cases hd : getPath nodes d with
    | none =>
      simp only [buildIndexFrom, hd]
      exact buildIndexFrom_inv rest _ idx hf' (h.skip hd)
    | some w =>
      simp only [buildIndexFrom, hd]
      exact buildIndexFrom_inv rest _ _ hf' (h.add hd (hf i d w List.mem_cons_self hd))

theorem buildIndex_inv {nodes : List String} {docs : List (JobId × JVal)} (hf : FlatAt nodes docs) :
    IdxInv nodes docs (buildIndex docs nodes) := by
  have := buildIndexFrom_inv docs [] [] hf (IdxInv.nil nodes)
  simpa [buildIndex] using this

/-! ### reading the index -/

theorem matchGroups_spec {h : IKey → Except Err Bool} : ∀ {idx : Index},
    (∀ r ids, (r, ids) ∈ idx → ∃ b, h r = .ok b) →
    ∃ m, matchGroups h idx = .ok m ∧
      ∀ i, i ∈ m ↔ ∃ r ids, (r, ids) ∈ idx ∧ i ∈ ids ∧ h r = .ok true
  | [], _ => ⟨[], rfl, by simp⟩
  | (r0, ids0) :: rest, hok => by
    obtain ⟨b, hb⟩ := hok r0 ids0 List.mem_cons_self
    obtain ⟨m, hm, hsel⟩ := matchGroups_spec (h := h) (idx := rest)
      (fun r ids hg => hok r ids (List.mem_cons_of_mem _ hg))
    refine ⟨if b then ids0 ++ m else m, by simp only [matchGroups, hb, hm], ?_⟩
    intro i
    cases b with
    | true =>
      simp only [if_true, List.mem_append, hsel i, List.mem_cons]
      constructor
      · rintro (hi | ⟨r, ids, hg, hi, hr⟩)
        · exact ⟨r0, ids0, Or.inl rfl, hi, hb⟩
        · exact ⟨r, ids, Or.inr hg, hi, hr⟩
      · rintro ⟨r, ids, hg | hg, hi, hr⟩
        · simp only [Prod.mk.injEq] at hg; rw [hg.2] at hi; exact Or.inl hi
        · exact Or.inr ⟨r, ids, hg, hi, hr⟩
    | false =>
      simp only [Bool.false_eq_true, if_false, hsel i, List.mem_cons]
      constructor
      · rintro ⟨r, ids, hg, hi, hr⟩; exact ⟨r, ids, Or.inr hg, hi, hr⟩
      · rintro ⟨r, ids, hg | hg, hi, hr⟩
        · simp only [Prod.mk.injEq] at hg; rw [hg.1, hb] at hr; cases hr
        · exact ⟨r, ids, hg, hi, hr⟩

theorem mem_members {idx : Index} {i : JobId} :
    i ∈ idx.members ↔ ∃ r ids, (r, ids) ∈ idx ∧ i ∈ ids := by
  simp only [Index.members, List.mem_flatMap]
  constructor
  · rintro ⟨⟨r, ids⟩, hg, hi⟩; exact ⟨r, ids, hg, hi⟩
  · rintro ⟨r, ids, hg, hi⟩; exact ⟨(r, ids), hg, hi⟩

/-- `index.get(key)` returns the members of every slot whose stored key matches: with pairwise
    distinct stored keys there is at most one -/
theorem get_spec {key : IKey} : ∀ {idx : Index},
    idx.Pairwise (fun g g' => slotEq g.1 g'.1 = false) →
    (∀ r ids, (r, ids) ∈ idx → flatKey r = true) →
    ∀ i, i ∈ Index.get key idx ↔ ∃ r ids, (r, ids) ∈ idx ∧ i ∈ ids ∧ slotEq r key = true
  | [], _, _, i => by simp [Index.get]
  | (r0, ids0) :: rest, hp, hfl, i => by
    rw [List.pairwise_cons] at hp
    simp only [Index.get]
    by_cases hs : slotEq r0 key = true
    · rw [if_pos hs]
      constructor
      · intro hi; exact ⟨r0, ids0, List.mem_cons_self, hi, hs⟩
      · rintro ⟨r, ids, hg, hi, hr⟩
        rcases List.mem_cons.mp hg with hg | hg
        · simp only [Prod.mk.injEq] at hg; rw [hg.2] at hi; exact hi
        · exfalso
          have h1 : slotEq r0 r = true :=
            slotEq_right (hfl r0 ids0 List.mem_cons_self) (hfl r ids (List.mem_cons_of_mem _ hg)) hs hr
          have h2 := hp.1 (r, ids) hg
          simp only at h2
          rw [h1] at h2; cases h2
    · rw [if_neg hs, get_spec hp.2 (fun r ids hg => hfl r ids (List.mem_cons_of_mem _ hg)) i]
      constructor
      · rintro ⟨r, ids, hg, hi, hr⟩; exact ⟨r, ids, List.mem_cons_of_mem _ hg, hi, hr⟩
      · rintro ⟨r, ids, hg, hi, hr⟩
        rcases List.mem_cons.mp hg with hg | hg
        · simp only [Prod.mk.injEq] at hg; rw [hg.1] at hr; exact absurd hr hs
        · exact ⟨r, ids, hg, hi, hr⟩

/-! ### operators cannot tell keys of one slot apart -/

/-- `math.isclose` looks at the numeric value of its first argument only -/
def NearRespectsEq (P : Params) : Prop :=
  ∀ v w a r t, isNumber v = true → isNumber w = true → pyEq v w = true →
    P.isclose v a r t = P.isclose w a r t

theorem isNumber_iff (v : JVal) : isNumber v = true ↔ ∃ p, numVal v = some p := by
  cases v with
  | bool b => simp [isNumber, numVal_bool]
  | _ => simp [isNumber, numVal]

theorem isNumber_of_pyEq {v w : JVal} (h : pyEq v w = true) : isNumber v = isNumber w := by
  rw [Bool.eq_iff_iff, isNumber_iff, isNumber_iff]
  constructor
  · rintro ⟨p, hp⟩
    obtain ⟨q, hq, _⟩ := pyEq_num_true hp h
    exact ⟨q, hq⟩
  · rintro ⟨q, hq⟩
    cases hv : numVal v with
    | some p => exact ⟨p, rfl⟩
    | none => rw [pyEq_nonnum_num hv hq] at h; cases h

theorem pyEq_str_left {v : JVal} (hf : flatVal v = true) {t : String} (h : pyEq v (.str t) = true) :
    v = .str t := by
  rw [pyEq_symm_flat v hf] at h
  exact pyEq_str_true h

theorem nearHolds_val (P : Params) (s : NearSpec) (v : JVal) :
    nearHolds P s (.val v) =
      if isNumber v then
        (match P.isclose v s.a s.rel s.abs with
          | some r => .ok r
          | none => .error .valueError)
      else .error .typeError := by
  cases v <;> rfl

theorem anyEq_congr {a b : IKey} (h : ∀ c, ikEq a c = ikEq b c) : ∀ xs, anyEq a xs = anyEq b xs
  | [] => rfl
  | x :: xs => by simp only [anyEq, h x, anyEq_congr h xs]

/-- is this key a string (and which) -/
def strOfKey : IKey → Option String
  | .val (.str s) => some s
  | _ => none

theorem pyIn_eq (k : IKey) (arg : JVal) :
    pyIn k arg = (match arg with
      | .arr xs => .ok (anyEq k xs)
      | .str s => (match strOfKey k with
          | some t => .ok (isInfixChars t.toList s.toList)
          | none => .error .typeError)
      | .obj kvs => (match strOfKey k with
          | some t => .ok ((lookupKV t kvs).isSome)
          | none => .ok false)
      | _ => .error .typeError) := by
  cases arg with
  | arr xs => rfl
  | str s => cases k with
    | dict => rfl
    | val v => cases v <;> rfl
  | obj kvs => cases k with
    | dict => rfl
    | val v => cases v <;> rfl
  | _ => rfl

theorem regexHolds_eq (P : Params) (arg : JVal) (k : IKey) :
    regexHolds P arg k = (match strOfKey k with
      | some s => (match arg with
          | .str p => (match P.rx p s with
              | some b => .ok b
              | none => .error .reError)
          | _ => .error .typeError)
      | none => .ok false) := by
  cases k with
  | dict => rfl
  | val v => cases v <;> rfl

/-- keys of one slot agree on: `==` with anything, ordering with anything, being a string, being a
    number -/
theorem slot_facts {a b : IKey} (hf : flatKey a = true) (h : slotEq a b = true) :
    (∀ c, ikEq a c = ikEq b c) ∧ (∀ c, ikCmp a c = ikCmp b c) ∧ strOfKey a = strOfKey b := by
  cases a with
  | dict =>
    cases b with
    | dict => exact ⟨fun _ => rfl, fun _ => rfl, rfl⟩
    | val _ => simp [slotEq] at h
  | val v =>
    cases b with
    | dict => simp [slotEq] at h
    | val w =>
      simp only [slotEq, Bool.and_eq_true, beq_iff_eq] at h
      refine ⟨fun c => pyEq_eucl_flat v hf w c h.1, fun c => pyCmp_congr_flat v hf w c h.1, ?_⟩
      cases hv : strOfKey (.val v) with
      | some t =>
        have : v = .str t := by cases v <;> simp [strOfKey] at hv; rw [hv]
        subst this
        rw [pyEq_str_true h.1]; rfl
      | none =>
        cases hw : strOfKey (.val w) with
        | none => rfl
        | some t =>
          have : w = .str t := by cases w <;> simp [strOfKey] at hw; rw [hw]
          subst this
          rw [pyEq_str_left hf h.1] at hv
          simp [strOfKey] at hv

/-- the callable built for an operator gives the same answer (or raises the same exception) on
    two keys of one slot; for `$type` this needs the keys to be of one Python type -/
theorem opTest_congr {P : Params} (hP : NearRespectsEq P) {op : String} {arg : JVal}
    {h : IKey → Except Err Bool} (hop : opTest P op arg = .ok h) {a b : IKey}
    (hf : flatKey a = true) (hs : slotEq a b = true)
    (hty : op = "$type" → ∀ t, ikIsInstance a t = ikIsInstance b t) : h a = h b := by
  obtain ⟨heq, hcmp, hstr⟩ := slot_facts hf hs
  unfold opTest at hop
  by_cases hnear : op = "$near"
  · rw [if_pos hnear] at hop
    cases hsp : nearSpec P arg with
    | error e => rw [hsp] at hop; cases hop
    | ok sp =>
      rw [hsp] at hop
      simp only [Except.ok.injEq] at hop
      subst hop
      cases a with
      | dict => cases b with
        | dict => rfl
        | val _ => simp [slotEq] at hs
      | val v => cases b with
        | dict => simp [slotEq] at hs
        | val w =>
          simp only [slotEq, Bool.and_eq_true, beq_iff_eq] at hs
          rw [nearHolds_val, nearHolds_val, ← isNumber_of_pyEq hs.1]
          cases hn : isNumber v with
          | false => rfl
          | true =>
            rw [hP v w sp.a sp.rel sp.abs hn (by rw [← isNumber_of_pyEq hs.1]; exact hn) hs.1]
  · rw [if_neg hnear] at hop
    simp only [Except.ok.injEq] at hop
    subst hop
    simp only [holds]
    by_cases h1 : op = "$eq"
    · simp only [h1, if_true, heq]
    by_cases h2 : op = "$ne"
    · simp only [h2, if_true, heq]
    by_cases h3 : op = "$gt" ∨ op = "$gte" ∨ op = "$lt" ∨ op = "$lte"
    · simp only [if_neg h1, if_neg h2, if_pos h3, hcmp]
    by_cases h4 : op = "$in"
    · simp only [if_neg h1, if_neg h2, if_neg h3, if_pos h4, pyIn_eq, hstr, anyEq_congr heq]
    by_cases h5 : op = "$nin"
    · simp only [if_neg h1, if_neg h2, if_neg h3, if_neg h4, if_pos h5, pyIn_eq, hstr, anyEq_congr heq]
    by_cases h6 : op = "$regex"
    · simp only [if_neg h1, if_neg h2, if_neg h3, if_neg h4, if_neg h5, if_pos h6, regexHolds_eq, hstr]
    by_cases h7 : op = "$type"
    · simp only [if_neg h1, if_neg h2, if_neg h3, if_neg h4, if_neg h5, if_neg h6, if_pos h7]
      cases typeArg arg with
      | error e => rfl
      | ok t => simp only [hty h7 t]
    · simp only [if_neg h1, if_neg h2, if_neg h3, if_neg h4, if_neg h5, if_neg h6, if_neg h7]

/-! ### looking a filter value up -/

/-- `w == c` depends on a numeric `c` only through its value -/
theorem pyEq_right_num {w : JVal} (hf : flatVal w = true) {c c' : JVal} {p q : Int × Nat}
    (hc : numVal c = some p) (hc' : numVal c' = some q) (hpq : numEq p q = true) :
    pyEq w c = pyEq w c' := by
  rw [pyEq_symm_flat w hf c, pyEq_symm_flat w hf c']
  have : pyEq c c' = true := by rw [pyEq_of_numVal hc, hc']; exact hpq
  exact pyEq_num_eucl hc this w

theorem slotTag_le_one (w : JVal) : slotTag w = 0 ∨ slotTag w = 1 := by
  cases w <;> simp [slotTag]

theorem intValued_spec {v : JVal} {n : Int} (h : intValued v = some n) :
    ∃ p, numVal v = some p ∧ numEq p (n, 0) = true := by
  unfold intValued at h
  cases hv : numVal v with
  | none => rw [hv] at h; cases h
  | some p =>
    obtain ⟨m, e⟩ := p
    rw [hv] at h
    simp only at h
    split at h
    · rename_i hc
      simp only [Bool.and_eq_true, beq_iff_eq] at hc
      simp only [Option.some.injEq] at h
      refine ⟨(m, e), rfl, ?_⟩
      rw [numEq_iff]
      simp only [pow_zero, mul_one]
      rw [← h]
      exact (Int.ediv_mul_cancel (Int.dvd_of_emod_eq_zero hc.2)).symm
    · cases h

/-- the dual lookup `index.get(int(v)) ∪ index.get(_float(v))` for an integer-valued number is
    `==` on the job's value -/
theorem dual_lookup_eq {w v : JVal} (hf : flatKey (toIKey w) = true) {n : Int} (h : intValued v = some n) :
    (slotEq (toIKey w) (.val (.int n)) || slotEq (toIKey w) (.val (.flt n 0 ""))) = ikEq (toIKey w) v := by
  obtain ⟨p, hp, hpn⟩ := intValued_spec h
  cases w with
  | obj kvs => rfl
  | null | bool _ | int _ | flt _ _ _ | str _ | arr _ =>
    simp only [toIKey, flatKey] at hf
    simp only [toIKey, slotEq, ikEq]
    rw [pyEq_right_num hf (c := .int n) (c' := v) (p := (n, 0)) rfl hp (by rw [numEq_symm]; exact hpn),
      pyEq_right_num hf (c := .flt n 0 "") (c' := v) (p := (n, 0)) rfl hp (by rw [numEq_symm]; exact hpn)]
    cases pyEq _ v <;> simp [slotTag]

theorem numVal_nonflt_exp {w : JVal} {q : Int × Nat} (hw : numVal w = some q) (ht : slotTag w = 0) :
    q.2 = 0 := by
  cases w with
  | bool b => rw [numVal_bool] at hw; cases b <;> simp at hw <;> rw [← hw]
  | int i => simp only [numVal, Option.some.injEq] at hw; rw [← hw]
  | flt n e r => simp [slotTag] at ht
  | _ => simp [numVal] at hw

/-- a value `==` to a filter value that is not an integer-valued number sits in the slot the
    plain lookup `index.get(v)` probes -/
theorem slotTag_of_pyEq {w v : JVal} (hf : flatVal w = true) (h : intValued v = none)
    (he : pyEq w v = true) : slotTag w = slotTag v := by
  cases hv : numVal v with
  | none =>
    have hnv : isNumber v = false := by
      cases hn : isNumber v with
      | false => rfl
      | true => obtain ⟨p, hp⟩ := (isNumber_iff v).mp hn; rw [hp] at hv; cases hv
    have hnw : isNumber w = false := by rw [isNumber_of_pyEq he]; exact hnv
    have tv : slotTag v = 0 := by cases v <;> first | rfl | (simp [isNumber] at hnv)
    have tw : slotTag w = 0 := by cases w <;> first | rfl | (simp [isNumber] at hnw)
    rw [tv, tw]
  | some p =>
    obtain ⟨m, e⟩ := p
    have hnum : isNumber v = true := (isNumber_iff v).mpr ⟨_, hv⟩
    have hmod : ¬ (m % (2 : Int) ^ e = 0) := by
      intro hz
      unfold intValued at h
      rw [hv] at h
      simp only [hnum, Bool.true_and, beq_iff_eq] at h
      rw [if_pos hz] at h
      cases h
    -- v is not an exact integer, so it is a float, and so is anything equal to it
    have tv : slotTag v = 1 := by
      rcases slotTag_le_one v with t0 | t1
      · have := numVal_nonflt_exp hv t0
        simp only at this
        subst this
        simp at hmod
      · exact t1
    rcases slotTag_le_one w with t0 | t1
    · exfalso
      rw [pyEq_symm_flat w hf v] at he
      obtain ⟨q, hq, hmq⟩ := pyEq_num_true hv he
      have he0 := numVal_nonflt_exp hq t0
      obtain ⟨i, e'⟩ := q
      simp only at he0
      subst he0
      rw [numEq_iff] at hmq
      simp only [pow_zero, mul_one] at hmq
      apply hmod
      rw [hmq]
      exact Int.mul_emod_left i _
    · rw [t1, tv]

theorem single_lookup_eq {w v : JVal} (hf : flatKey (toIKey w) = true) (h : intValued v = none) :
    slotEq (toIKey w) (.val v) = ikEq (toIKey w) v := by
  cases w with
  | obj kvs => rfl
  | null | bool _ | int _ | flt _ _ _ | str _ | arr _ =>
    simp only [toIKey, flatKey] at hf
    simp only [toIKey, slotEq, ikEq]
    cases he : pyEq _ v with
    | false => rfl
    | true => simp [slotTag_of_pyEq hf h he]

/-! ### one flattened atom: index lookup = per-job evaluation -/

theorem idx_flat_reps {nodes : List String} {docs : List (JobId × JVal)} (hfl : FlatAt nodes docs)
    {idx : Index} (inv : IdxInv nodes docs idx) : ∀ r ids, (r, ids) ∈ idx → flatKey r = true := by
  intro r ids hg
  obtain ⟨j, d, w, h1, h2, h3⟩ := inv.rep r ids hg
  rw [h3]; exact hfl j d w h1 h2

/-- membership in a slot, seen from the job: the stored key shares the slot with the job's value -/
theorem idx_member {nodes : List String} {docs : List (JobId × JVal)} (hu : UniqueIds docs)
    {idx : Index} (inv : IdxInv nodes docs idx) {r : IKey} {ids : List JobId} (hg : (r, ids) ∈ idx)
    {i : JobId} (hi : i ∈ ids) {d w : JVal} (hd : (i, d) ∈ docs) (hw : getPath nodes d = some w) :
    slotEq r (toIKey w) = true := by
  obtain ⟨d', w', h1, h2, h3⟩ := inv.memb r ids hg i hi
  have : d' = d := hu i d' d h1 hd
  subst this
  rw [hw] at h2
  cases h2
  exact h3

theorem get_mem_iff {nodes : List String} {docs : List (JobId × JVal)} (hu : UniqueIds docs)
    (hfl : FlatAt nodes docs) (key : IKey) (i : JobId) :
    i ∈ Index.get key (buildIndex docs nodes) ↔
      ∃ d w, (i, d) ∈ docs ∧ getPath nodes d = some w ∧ slotEq (toIKey w) key = true := by
  have inv := buildIndex_inv hfl
  have hfr := idx_flat_reps hfl inv
  rw [get_spec inv.distinct hfr i]
  constructor
  · rintro ⟨r, ids, hg, hi, hr⟩
    obtain ⟨d, w, h1, h2, h3⟩ := inv.memb r ids hg i hi
    refine ⟨d, w, h1, h2, ?_⟩
    rw [← slotEq_eucl (hfr r ids hg) h3 key]; exact hr
  · rintro ⟨d, w, hd, hw, hk⟩
    obtain ⟨r, ids, hg, hi⟩ := inv.cover i d w hd hw
    refine ⟨r, ids, hg, hi, ?_⟩
    rw [slotEq_eucl (hfr r ids hg) (idx_member hu inv hg hi hd hw) key]; exact hk

/-- two jobs whose values under `nodes` share a slot are of one Python type there
    (false exactly when one holds a bool and the other an `==` int: finding F-6a) -/
def TypeStable (docs : List (JobId × JVal)) (nodes : List String) : Prop :=
  ∀ i d w j d' w', (i, d) ∈ docs → (j, d') ∈ docs → getPath nodes d = some w →
    getPath nodes d' = some w' → slotEq (toIKey w) (toIKey w') = true →
    ∀ t, ikIsInstance (toIKey w) t = ikIsInstance (toIKey w') t

theorem atomGood {P : Params} {docs : List (JobId × JVal)} (hu : UniqueIds docs)
    (hP : NearRespectsEq P) (hfl : ∀ nodes, FlatAt nodes docs) (k : String) (v : JVal)
    (hwt : ∀ i d, (i, d) ∈ docs → ∃ b, evalAtom P d k v = .ok b)
    (hst : ∃ b, evalAtom P (.obj []) k v = .ok b)
    (hty : ∀ nodes, analyseKey k = .op nodes "$type" → TypeStable docs nodes) :
    AtomGood P docs k v := by
  unfold AtomGood findExpression
  obtain ⟨b0, hst⟩ := hst
  unfold evalAtom at hst
  cases hk : analyseKey k with
  | bad => rw [hk] at hst; cases hst
  | plain nodes =>
    simp only
    have hev : ∀ d, evalAtom P d k v = .ok (evalPlain (getPath nodes d) v) := by
      intro d; unfold evalAtom; rw [hk]
    cases hiv : intValued v with
    | some n =>
      refine ⟨_, rfl, ?_⟩
      intro i
      rw [List.mem_append, get_mem_iff hu (hfl nodes), get_mem_iff hu (hfl nodes)]
      constructor
      · rintro (⟨d, w, hd, hw, hs⟩ | ⟨d, w, hd, hw, hs⟩)
        all_goals
          refine ⟨d, hd, ?_⟩
          show evalAtom P d k v = .ok true
          rw [hev, hw]
          simp only [evalPlain, ← dual_lookup_eq (hfl nodes i d w hd hw) hiv, hs, Bool.true_or, Bool.or_true]
      · rintro ⟨d, hd, he⟩
        replace he : evalAtom P d k v = .ok true := he
        rw [hev] at he
        cases hw : getPath nodes d with
        | none => rw [hw] at he; simp [evalPlain] at he
        | some w =>
          rw [hw] at he
          simp only [evalPlain, Except.ok.injEq, ← dual_lookup_eq (hfl nodes i d w hd hw) hiv,
            Bool.or_eq_true] at he
          rcases he with he | he
          · exact Or.inl ⟨d, w, hd, hw, he⟩
          · exact Or.inr ⟨d, w, hd, hw, he⟩
    | none =>
      refine ⟨_, rfl, ?_⟩
      intro i
      rw [get_mem_iff hu (hfl nodes)]
      constructor
      · rintro ⟨d, w, hd, hw, hs⟩
        refine ⟨d, hd, ?_⟩
        show evalAtom P d k v = .ok true
        rw [hev, hw]
        simp only [evalPlain, ← single_lookup_eq (hfl nodes i d w hd hw) hiv, hs]
      · rintro ⟨d, hd, he⟩
        replace he : evalAtom P d k v = .ok true := he
        rw [hev] at he
        cases hw : getPath nodes d with
        | none => rw [hw] at he; simp [evalPlain] at he
        | some w =>
          rw [hw] at he
          simp only [evalPlain, Except.ok.injEq, ← single_lookup_eq (hfl nodes i d w hd hw) hiv] at he
          exact ⟨d, w, hd, hw, he⟩
  | op nodes op =>
    rw [hk] at hst
    simp only at hst ⊢
    have inv := buildIndex_inv (hfl nodes)
    have hfr := idx_flat_reps (hfl nodes) inv
    by_cases hidx : Extracted.INDEX_OPERATORS.contains op = true
    · rw [if_pos hidx] at hst ⊢
      cases hot : opTest P op v with
      | error e => rw [hot] at hst; cases hst
      | ok h =>
        have hev : ∀ d, evalAtom P d k v =
            (match getPath nodes d with | none => .ok false | some w => h (toIKey w)) := by
          intro d; unfold evalAtom; rw [hk]; simp only [if_pos hidx, hot]; cases getPath nodes d <;> rfl
        have hok : ∀ r ids, (r, ids) ∈ buildIndex docs nodes → ∃ b, h r = .ok b := by
          intro r ids hg
          obtain ⟨j, d, w, h1, h2, h3⟩ := inv.rep r ids hg
          obtain ⟨b, hb⟩ := hwt j d h1
          rw [hev, h2] at hb
          exact ⟨b, by rw [h3]; exact hb⟩
        obtain ⟨m, hm, hsel⟩ := matchGroups_spec (h := h) hok
        refine ⟨m, by simp only [findWithOp, hot, hm], ?_⟩
        have hcongr : ∀ r ids, (r, ids) ∈ buildIndex docs nodes → ∀ i ∈ ids, ∀ d w, (i, d) ∈ docs →
            getPath nodes d = some w → h r = h (toIKey w) := by
          intro r ids hg i hi d w hd hw
          refine opTest_congr hP hot (hfr r ids hg) (idx_member hu inv hg hi hd hw) ?_
          intro hopt
          obtain ⟨j, d0, w0, a, b, c⟩ := inv.rep r ids hg
          rw [c]
          have hs := idx_member hu inv hg hi hd hw
          rw [c] at hs
          exact hty nodes (by rw [hopt] at hk; exact hk) j d0 w0 i d w a hd b hw hs
        intro i
        rw [hsel i]
        constructor
        · rintro ⟨r, ids, hg, hi, hr⟩
          obtain ⟨d, w, h1, h2, _⟩ := inv.memb r ids hg i hi
          refine ⟨d, h1, ?_⟩
          show evalAtom P d k v = .ok true
          rw [hev, h2]
          simp only
          rw [← hcongr r ids hg i hi d w h1 h2]; exact hr
        · rintro ⟨d, hd, he⟩
          replace he : evalAtom P d k v = .ok true := he
          rw [hev] at he
          cases hw : getPath nodes d with
          | none => rw [hw] at he; cases he
          | some w =>
            rw [hw] at he
            simp only at he
            obtain ⟨r, ids, hg, hi⟩ := inv.cover i d w hd hw
            exact ⟨r, ids, hg, hi, by rw [hcongr r ids hg i hi d w hd hw]; exact he⟩
    · rw [if_neg hidx] at hst ⊢
      by_cases hex : op = "$exists"
      · rw [if_pos hex] at hst ⊢
        cases v with
        | bool b =>
          simp only
          have hev : ∀ d, evalAtom P d k (.bool b) =
              (match getPath nodes d with | none => .ok (!b) | some _ => .ok b) := by
            intro d; unfold evalAtom; rw [hk]; simp only [if_neg hidx, if_pos hex]; cases getPath nodes d <;> rfl
          refine ⟨_, rfl, ?_⟩
          intro i
          have hmem : i ∈ (buildIndex docs nodes).members ↔
              ∃ d w, (i, d) ∈ docs ∧ getPath nodes d = some w := by
            rw [mem_members]
            constructor
            · rintro ⟨r, ids, hg, hi⟩
              obtain ⟨d, w, h1, h2, _⟩ := inv.memb r ids hg i hi
              exact ⟨d, w, h1, h2⟩
            · rintro ⟨d, w, hd, hw⟩
              exact inv.cover i d w hd hw
          cases b with
          | true =>
            simp only [if_true]
            rw [hmem]
            constructor
            · rintro ⟨d, w, hd, hw⟩
              exact ⟨d, hd, by show evalAtom P d k (.bool true) = .ok true; rw [hev, hw]⟩
            · rintro ⟨d, hd, he⟩
              replace he : evalAtom P d k (.bool true) = .ok true := he
              rw [hev] at he
              cases hw : getPath nodes d with
              | none => rw [hw] at he; simp at he
              | some w => exact ⟨d, w, hd, hw⟩
          | false =>
            simp only [Bool.false_eq_true, if_false]
            rw [mem_diffIds, mem_allIds, hmem]
            constructor
            · rintro ⟨⟨d, hd⟩, hn⟩
              refine ⟨d, hd, ?_⟩
              show evalAtom P d k (.bool false) = .ok true
              rw [hev]
              cases hw : getPath nodes d with
              | none => rfl
              | some w => exact absurd ⟨d, w, hd, hw⟩ hn
            · rintro ⟨d, hd, he⟩
              replace he : evalAtom P d k (.bool false) = .ok true := he
              rw [hev] at he
              refine ⟨⟨d, hd⟩, ?_⟩
              rintro ⟨d', w, hd', hw⟩
              have : d' = d := hu i d' d hd' hd
              subst this
              rw [hw] at he
              simp at he
        | _ => simp at hst
      · rw [if_neg hex] at hst; cases hst

end Signac.Query

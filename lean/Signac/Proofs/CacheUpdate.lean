/-
  update_cache makes the cache file exact and is idempotent; cache transparency.  Core only.
-/
import Signac.Proofs.CacheInv
namespace Signac.Cache
open Signac Signac.Ws

section
variable {hash : JVal → String}

theorem sameKeys_iff (a b : List (String × JVal)) :
    sameKeys a b = true ↔ ∀ x, x ∈ K a ↔ x ∈ K b := by
  simp only [sameKeys, Bool.and_eq_true, List.all_eq_true]
  constructor
  · rintro ⟨h1, h2⟩ x
    constructor
    · intro hx
      obtain ⟨e, he, rfl⟩ := List.mem_map.mp hx
      exact (isSome_iff_mem_keys e.1 b).mp (h1 e he)
    · intro hx
      obtain ⟨e, he, rfl⟩ := List.mem_map.mp hx
      exact (isSome_iff_mem_keys e.1 a).mp (h2 e he)
  · intro h
    constructor
    · intro e he
      exact (isSome_iff_mem_keys e.1 b).mpr ((h e.1).mp (List.mem_map.mpr ⟨e, he, rfl⟩))
    · intro e he
      exact (isSome_iff_mem_keys e.1 a).mpr ((h e.1).mpr (List.mem_map.mpr ⟨e, he, rfl⟩))

theorem readCache_ws (s : St) : (readCache s).ws = s.ws := by
  unfold readCache; split <;> rfl

theorem readCache_cacheFile (s : St) : (readCache s).cacheFile = s.cacheFile := by
  unfold readCache; split <;> rfl

/-- keys of the session cache after the in-memory update = ids of the workspace -/
theorem session_after_update_keys (s : St) (hv : AllValid hash s.ws) :
    (addMissing hash (readCache s).ws (dropStale (readCache s).ws (readCache s).session) (readCache s).ws).2 = [] ∧
    ∀ x, x ∈ K (addMissing hash (readCache s).ws (dropStale (readCache s).ws (readCache s).session)
              (readCache s).ws).1 ↔ x ∈ K s.ws := by
  rw [readCache_ws]
  have := addMissing_valid (hash := hash) s.ws s.ws (dropStale s.ws (readCache s).session) hv
  refine ⟨this.1, fun x => ?_⟩
  rw [this.2 x, mem_keys_dropStale]
  constructor
  · rintro (h | h)
    · exact h.2
    · exact h
  · exact Or.inr

/-- After `update_cache()` on an uncorrupted workspace: no error, the workspace is untouched, and
    the cache file lists exactly the ids of the workspace. -/
theorem updateCache_exact (s : St) (hv : AllValid hash s.ws) :
    (updateCache hash s).2.2.isNone = true ∧ (updateCache hash s).1.ws = s.ws ∧
    ∃ c, (updateCache hash s).1.cacheFile = some c ∧ ∀ x, x ∈ K c ↔ x ∈ K s.ws := by
  obtain ⟨hbad, hkeys⟩ := session_after_update_keys s hv
  simp only [updateCache, hbad]
  cases hc : s.cacheFile with
  | none =>
    simp only []
    exact ⟨rfl, readCache_ws s, _, rfl, hkeys⟩
  | some c =>
    simp only []
    split
    · rename_i hs
      refine ⟨rfl, readCache_ws s, c, ?_, fun x => ?_⟩
      · show (readCache s).cacheFile = some c
        rw [readCache_cacheFile, hc]
      · rw [(sameKeys_iff _ _).mp hs x, hkeys x]
    · exact ⟨rfl, readCache_ws s, _, rfl, hkeys⟩

/-- ... and each listed id is mapped to a state point hashing to it. -/
theorem updateCache_file_sound (s : St) (h : CacheInv hash s) :
    ∀ c, (updateCache hash s).1.cacheFile = some c → MapInv hash c :=
  (cacheInv_updateCache h).2

/-- A cache file whose ids are exactly the workspace ids: `update_cache()` reports nothing to do
    and leaves file and workspace alone (in particular an immediate second call). -/
theorem updateCache_uptodate (s : St) (hv : AllValid hash s.ws) {c : List (String × JVal)}
    (hc : s.cacheFile = some c) (hk : ∀ x, x ∈ K c ↔ x ∈ K s.ws) :
    (updateCache hash s).2.1 = none ∧ (updateCache hash s).1.cacheFile = some c ∧
    (updateCache hash s).1.ws = s.ws := by
  obtain ⟨hbad, hkeys⟩ := session_after_update_keys s hv
  have hs : sameKeys c (addMissing hash (readCache s).ws
      (dropStale (readCache s).ws (readCache s).session) (readCache s).ws).1 = true :=
    (sameKeys_iff _ _).mpr (fun x => by rw [hk x, hkeys x])
  simp only [updateCache, hbad, hc, hs, if_true]
  refine ⟨trivial, ?_, readCache_ws s⟩
  show (readCache s).cacheFile = some c
  rw [readCache_cacheFile, hc]

theorem updateCache_idempotent (s : St) (hv : AllValid hash s.ws) :
    (updateCache hash (updateCache hash s).1).2.1 = none ∧
    (updateCache hash (updateCache hash s).1).1.cacheFile = (updateCache hash s).1.cacheFile ∧
    (updateCache hash (updateCache hash s).1).1.ws = s.ws := by
  obtain ⟨_, hws, c, hc, hk⟩ := updateCache_exact (hash := hash) s hv
  have hv' : AllValid hash (updateCache hash s).1.ws := by rw [hws]; exact hv
  have := updateCache_uptodate (hash := hash) (updateCache hash s).1 hv' hc (by rw [hws]; exact hk)
  exact ⟨this.1, by rw [this.2.1, hc], by rw [this.2.2, hws]⟩

/-- Under an uncorrupted workspace a look-up of an existing id always succeeds ... -/
theorem getStatepoint_total (s : St) (hv : AllValid hash s.ws) (id : String) (hid : id ∈ K s.ws) :
    ∃ v, (getStatepoint hash s id).2 = .ok v := by
  have hws : (ensureRead s).ws = s.ws := by
    unfold ensureRead; split
    · rfl
    · exact readCache_ws s
  simp only [getStatepoint]
  split
  · exact ⟨_, rfl⟩
  · rw [hws]
    cases hl : alookup id s.ws with
    | none => exact absurd hid (alookup_none_not_mem hl)
    | some d =>
      simp only []
      have := hv id d (alookup_some_mem hl)
      cases hlv : loadValid hash d id with
      | none => simp [hlv] at this
      | some v => exact ⟨v, rfl⟩

/-- Cache transparency: two states with the same workspace but arbitrary (valid) caches — fresh,
    stale or none — hand out, for every existing id, state points with the same hash (= the id);
    equal values wherever the hash is injective. -/
theorem cache_transparent (s1 s2 : St) (hws : s1.ws = s2.ws) (hv : AllValid hash s1.ws)
    (h1 : CacheInv hash s1) (h2 : CacheInv hash s2) (id : String) (hid : id ∈ K s1.ws) :
    ∃ v1 v2, (getStatepoint hash s1 id).2 = .ok v1 ∧ (getStatepoint hash s2 id).2 = .ok v2 ∧
      hash v1 = id ∧ hash v2 = id ∧ ((∀ a b, hash a = hash b → a = b) → v1 = v2) := by
  obtain ⟨v1, e1⟩ := getStatepoint_total s1 hv id hid
  obtain ⟨v2, e2⟩ := getStatepoint_total s2 (hws ▸ hv) id (hws ▸ hid)
  have a1 := getStatepoint_sound h1 id e1
  have a2 := getStatepoint_sound h2 id e2
  exact ⟨v1, v2, e1, e2, a1, a2, fun inj => inj _ _ (a1.trans a2.symm)⟩

end
end Signac.Cache

/- `Job.move` satisfies `MoveSpec`, the state-point change satisfies `RekeySpec`, under every
   event schedule that does not inject ENOENT. -/
import Signac.Proofs.LifeInit
namespace Signac.Life
variable {Sp : Type}

theorem move_spec (C : Codec Sp) (a b : Key) (hab : a ≠ b) (w : World Sp) (ev : Nat → Option Ev) :
    MoveSpec a b w (run C ev (moveProg a b) w) := by
  have hQ0 : ∀ acc r, r ≠ Res.ok → MoveSpec a b w ⟨w, r, acc⟩ := fun acc r hr => Or.inl ⟨rfl, rfl, hr⟩
  have hmap : ∀ acc (e : Errno), MoveSpec a b w (exec C ev
      (if e = .ENOENT then .done (.exc "RuntimeError")
       else if e = .EEXIST ∨ e = .ENOTEMPTY ∨ e = .EACCES then .done (.exc "DestinationExistsError")
       else if e = .EXDEV then .done (.exc "RuntimeError")
       else .done (osExc e)) acc w) := by
    intro acc e
    repeat' split
    all_goals (simp only [exec]; exact hQ0 _ _ (by simp [osExc]))
  simp only [run, moveProg]
  refine exec_step C ev _ _ _ _ _ (hQ0 _ _ (by simp)) (fun t => by simpa [tornApply] using hQ0 _ _ (by simp)) ?_ ?_ ?_
  · intro e _; exact hmap _ e
  · intro w' hw'
    simp only [exec]
    simp only [apply] at hw'
    cases hwa : w a with
    | none => simp [hwa] at hw'
    | some d =>
      have hfin : w' = upd (upd w b (some d)) a none → DstFree w b → MoveSpec a b w ⟨w', .ok, Acc.ok {} (Step.renameDir a b)⟩ := by
        intro h hf
        subst h
        refine Or.inr ⟨rfl, rfl, hf, by simp [hwa], upd_same .., ?_⟩
        show upd (upd w b (some d)) a none b = w a
        rw [upd_other _ _ (Ne.symm hab), upd_same, hwa]
      simp only [hwa] at hw'
      cases hwb : w b with
      | none => simp only [hwb] at hw'; cases hw'; exact hfin rfl (Or.inl hwb)
      | some d' =>
        simp only [hwb] at hw'
        split at hw'
        · cases hw'; exact hfin rfl (Or.inr ⟨d', hwb, ‹_›⟩)
        · cases hw'
  · intro e _; exact hmap _ e

section rekey
variable (C : Codec Sp) (ev : Nat → Option Ev) (x y : Key) (v : Sp) (w : World Sp) (D : JobDir Sp)

/-- (A) with any result but a normal return -/
theorem rekeySpec_A (w' : World Sp) (r : Res) (acc : Acc Sp) (d : JobDir Sp)
    (hx : w' x = some d) (he : d.entries = D.entries) (hy : w' y = w y) (hsp : d.sp = D.sp ∨ d.sp = none)
    (hr : r ≠ .ok) : RekeySpec C x y v w D ⟨w', r, acc⟩ := by
  refine ⟨Or.inl ⟨d, hx, he, hy, hsp⟩, fun h => absurd h hr, fun n _ => ?_⟩
  rcases hsp with hsp | hsp
  · exact Or.inl ⟨d, hx, he, hsp, hy⟩
  · exact Or.inr (Or.inl (corrupt_of_sp_none C w' x d hx hsp))

/-- (B) without a state-point file, with any result but a normal return -/
theorem rekeySpec_B (w' : World Sp) (r : Res) (acc : Acc Sp) (d : JobDir Sp)
    (hx : w' x = none) (hf : DstFree w y) (hy : w' y = some d) (he : d.entries = D.entries) (hsp : d.sp = none)
    (hr : r ≠ .ok) : RekeySpec C x y v w D ⟨w', r, acc⟩ :=
  ⟨Or.inr ⟨hx, hf, d, hy, he, fun hv => by rw [not_valid_of_sp_none C w' y d hy hsp] at hv; cases hv⟩,
   fun h => absurd h hr,
   fun _ _ => Or.inr (Or.inr (corrupt_of_sp_none C w' y d hy hsp))⟩

/-- the rollback path: the rename failed with `e` -/
theorem rekey_rollback (hxy : x ≠ y) (hne : NoENOENT ev) (c : Content Sp) (hsp : D.sp = some c)
    (w1 : World Sp) (hx1 : w1 x = some { D with sp := none, bak := some c }) (hy1 : w1 y = w y)
    (e : Errno) (hee : e ≠ .ENOENT) (acc : Acc Sp) (fin : Prog Sp) :
    RekeySpec C x y v w D (exec C ev
      (.step (.bakToSp x) fun
        | some e2 => if e2 = .ENOENT then fin else .done (osExc e2)
        | none => .look fun w =>
          if !validAt C w x then .done (.exc "JobsCorruptedError")
          else if e = .EEXIST ∨ e = .ENOTEMPTY ∨ e = .EACCES then .done (.exc "DestinationExistsError")
          else if e = .ENOENT then fin
          else .done (osExc e)) acc w1) := by
  have hA1 : ∀ acc r, r ≠ Res.ok → RekeySpec C x y v w D ⟨w1, r, acc⟩ :=
    fun acc r hr => rekeySpec_A C x y v w D w1 r acc _ hx1 rfl hy1 (Or.inr rfl) hr
  refine exec_step C ev _ _ _ _ _ (hA1 _ _ (by simp)) (fun t => by simpa [tornApply] using hA1 _ _ (by simp)) ?_ ?_ ?_
  · intro e2 he2
    have : e2 ≠ .ENOENT := fun h => hne _ (h ▸ he2)
    simp only [this, if_false, exec]
    exact hA1 _ _ (by simp [osExc])
  · intro w2 hw2
    simp only [apply, hx1] at hw2
    cases hw2
    have hx2 : upd w1 x (some { D with sp := some c, bak := none }) x = some _ := upd_same ..
    have hy2 : upd w1 x (some { D with sp := some c, bak := none }) y = w y := by
      rw [upd_other _ _ (Ne.symm hxy)]; exact hy1
    have hA2 : ∀ acc r, r ≠ Res.ok → RekeySpec C x y v w D ⟨_, r, acc⟩ :=
      fun acc r hr => rekeySpec_A C x y v w D _ r acc _ hx2 rfl hy2 (Or.inl hsp.symm) hr
    rw [exec]
    repeat' split
    all_goals first
      | (simp only [exec]; exact hA2 _ _ (by simp [osExc]))
      | (exfalso; exact hee ‹_›)
  · intro e2 he2
    simp [apply, hx1] at he2

theorem rekey_spec (hxy : x ≠ y) (hne : NoENOENT ev) (hD : w x = some D) (c : Content Sp) (hsp : D.sp = some c) :
    RekeySpec C x y v w D (run C ev (rekeyProg C x y v) w) := by
  have hA0 : ∀ acc r, r ≠ Res.ok → RekeySpec C x y v w D ⟨w, r, acc⟩ :=
    fun acc r hr => rekeySpec_A C x y v w D w r acc D hD rfl rfl (Or.inl rfl) hr
  simp only [run, rekeyProg]
  -- step 0: park the state-point file
  refine exec_step C ev _ _ _ _ _ (hA0 _ _ (by simp)) (fun t => by simpa [tornApply] using hA0 _ _ (by simp)) ?_ ?_ ?_
  · intro e he
    have : e ≠ .ENOENT := fun h => hne _ (h ▸ he)
    simp only [this, if_false, exec]
    exact hA0 _ _ (by simp [osExc])
  · intro w1 hw1
    simp only [apply, hD, hsp] at hw1
    cases hw1
    have hx1 : upd w x (some { D with sp := none, bak := some c }) x = some _ := upd_same ..
    have hy1 : upd w x (some { D with sp := none, bak := some c }) y = w y := upd_other _ _ (Ne.symm hxy)
    have hA1 : ∀ acc r, r ≠ Res.ok → RekeySpec C x y v w D ⟨_, r, acc⟩ :=
      fun acc r hr => rekeySpec_A C x y v w D _ r acc _ hx1 rfl hy1 (Or.inr rfl) hr
    -- step 1: rename the directory
    refine exec_step C ev _ _ _ _ _ (hA1 _ _ (by simp)) (fun t => by simpa [tornApply] using hA1 _ _ (by simp)) ?_ ?_ ?_
    · intro e he
      exact rekey_rollback C ev x y v w D hxy hne c hsp _ hx1 hy1 e (fun h => hne _ (h ▸ he)) _ _
    · intro w2 hw2
      -- the rename happened: `y` was free
      have hfree : DstFree w y ∧ w2 = upd (upd (upd w x (some { D with sp := none, bak := some c })) y
          (some { D with sp := none, bak := some c })) x none := by
        simp only [apply, hx1, hy1] at hw2
        cases hwy : w y with
        | none => simp only [hwy] at hw2; cases hw2; exact ⟨Or.inl hwy, rfl⟩
        | some d' =>
          simp only [hwy] at hw2
          split at hw2
          · cases hw2; exact ⟨Or.inr ⟨d', hwy, ‹_›⟩, rfl⟩
          · cases hw2
      obtain ⟨hfree, rfl⟩ := hfree
      have hx2 : ∀ (wz : World Sp), upd wz x none x = none := fun _ => upd_same ..
      have hy2 : upd (upd (upd w x (some { D with sp := none, bak := some c })) y
          (some { D with sp := none, bak := some c })) x none y = some { D with sp := none, bak := some c } := by
        rw [upd_other _ _ (Ne.symm hxy), upd_same]
      have hB2 : ∀ acc r, r ≠ Res.ok → RekeySpec C x y v w D ⟨_, r, acc⟩ :=
        fun acc r hr => rekeySpec_B C x y v w D _ r acc _ (hx2 _) hfree hy2 rfl rfl hr
      -- step 2: drop the backup in the new directory
      refine exec_step C ev _ _ _ _ _ (hB2 _ _ (by simp)) (fun t => by simpa [tornApply] using hB2 _ _ (by simp)) ?_ ?_ ?_
      · intro e he
        have : e ≠ .ENOENT := fun h => hne _ (h ▸ he)
        simp only [this, if_false, exec]
        exact hB2 _ _ (by simp [osExc])
      · intro w3 hw3
        simp only [apply, hy2] at hw3
        cases hw3
        simp only [if_true]
        -- init of the new directory
        have hI := init_exec C y v (upd (upd (upd (upd w x (some { D with sp := none, bak := some c })) y
          (some { D with sp := none, bak := some c })) x none) y (some { D with sp := none, bak := none })) ev
          ((((({} : Acc Sp).ok (Step.spToBak x)).ok (Step.renameDir x y)).ok (Step.rmBak y)))
        have hfr := exec_frame C ev [y] (initProg_all C y v false (List.mem_singleton.mpr rfl))
          (upd (upd (upd (upd w x (some { D with sp := none, bak := some c })) y
          (some { D with sp := none, bak := some c })) x none) y (some { D with sp := none, bak := none }))
          ((((({} : Acc Sp).ok (Step.spToBak x)).ok (Step.renameDir x y)).ok (Step.rmBak y)))
          (k := x) (by simp [hxy])
        rw [upd_other _ _ hxy, upd_same] at hfr
        generalize exec C ev (initProg C y v false) _ _ = o at hI hfr ⊢
        obtain ⟨h1, h2, h3, h4⟩ := hI
        simp only [upd_same] at h1 h2 h4
        obtain ⟨d', hd', hent, _⟩ := h1
        have hnf : validAt C o.w y = true → d'.sp = some (.ok v) := by
          intro hv
          rcases h2 hv with h | ⟨_, d'', hd'', hs''⟩
          · rw [not_valid_of_sp_none C o.w y _ h rfl] at hv; cases hv
          · rw [hd'] at hd''; injection hd'' with h; subst h; exact hs''
        refine ⟨Or.inr ⟨hfr, hfree, d', hd', hent, hnf⟩, ?_, ?_⟩
        · intro hr
          obtain ⟨hv, hf⟩ := h3 hr
          exact ⟨hf, hfr, d', hd', hent, hnf hv, hv⟩
        · intro n hn
          rcases h4 n hn with h | h
          · refine Or.inr (Or.inr ?_)
            exact corrupt_of_sp_none C o.w y _ h rfl
          · exact Or.inr (Or.inr h)
      · intro e he
        simp [apply, hy2] at he
    · intro e he
      have hee : e ≠ .ENOENT := by
        simp only [apply, hx1] at he
        split at he
        · cases he
        · split at he <;> cases he; simp
      exact rekey_rollback C ev x y v w D hxy hne c hsp _ hx1 hy1 e hee _ _
  · intro e he
    simp [apply, hD, hsp] at he
end rekey

end Signac.Life

/-
  Lemmas about `diff_jobs`: the set algebra on flattened pairs.  Core only.
-/
import Signac.Schema
import Signac.Proofs.SchemaPyEq
namespace Signac.Schema
open Signac

theorem memPair_iff {x : String × JVal} {s : List (String × JVal)} :
    memPair x s = true ↔ ∃ y ∈ s, pairEq y x = true := by
  simp [memPair, List.any_eq_true]

theorem memPair_false_iff {x : String × JVal} {s : List (String × JVal)} :
    memPair x s = false ↔ ∀ y ∈ s, pairEq y x = false := by
  simp [memPair, List.any_eq_false]

theorem mem_inter_cons {x : String × JVal} {sp : KVs} {rest : List KVs} :
    x ∈ inter (sp :: rest) ↔ x ∈ flatten sp ∧ ∀ o ∈ rest, ∃ y ∈ flatten o, pairEq y x = true := by
  simp only [inter, List.mem_filter, List.all_eq_true, memPair_iff]

theorem diff_common_perm (all : List KVs) (sp : KVs) :
    (diffOf all sp ++ commonOf all sp).Perm (flatten sp) := by
  have h := List.filter_append_perm (fun x => !memPair x (inter all)) (flatten sp)
  simpa [diffOf, commonOf, Bool.not_not] using h

theorem mem_diffOf {all : List KVs} {sp : KVs} {x : String × JVal} :
    x ∈ diffOf all sp ↔ x ∈ flatten sp ∧ ∀ y ∈ inter all, pairEq y x = false := by
  simp only [diffOf, List.mem_filter, Bool.not_eq_true', memPair_false_iff]

theorem mem_commonOf {all : List KVs} {sp : KVs} {x : String × JVal} :
    x ∈ commonOf all sp ↔ x ∈ flatten sp ∧ ∃ y ∈ inter all, pairEq y x = true := by
  simp only [commonOf, List.mem_filter, memPair_iff]

/-! ### the set algebra read as "pairs not shared by all jobs" (needs `==` to be an equivalence) -/

mutual
  theorem flattenVal_nodupKeys : ∀ (v : JVal) (k : String), NodupKeysVal v →
      ∀ p ∈ flattenVal k v, NodupKeysVal p.2
    | .obj kvs, k, h => by
      intro p hp
      simp only [flattenVal] at hp
      split at hp
      · simp only [List.mem_singleton] at hp; subst hp; simp [NodupKeysVal, NodupKeysObj]
      · exact flattenKVs_nodupKeys kvs (some k) (by simpa [NodupKeysVal] using h) p hp
    | .null, _, _ => by intro p hp; simp only [flattenVal, List.mem_singleton] at hp; subst hp; simp [NodupKeysVal]
    | .bool _, _, _ => by intro p hp; simp only [flattenVal, List.mem_singleton] at hp; subst hp; simp [NodupKeysVal]
    | .int _, _, _ => by intro p hp; simp only [flattenVal, List.mem_singleton] at hp; subst hp; simp [NodupKeysVal]
    | .flt _ _ _, _, _ => by intro p hp; simp only [flattenVal, List.mem_singleton] at hp; subst hp; simp [NodupKeysVal]
    | .str _, _, _ => by intro p hp; simp only [flattenVal, List.mem_singleton] at hp; subst hp; simp [NodupKeysVal]
    | .arr xs, _, h => by intro p hp; simp only [flattenVal, List.mem_singleton] at hp; subst hp; exact h
  theorem flattenKVs_nodupKeys : ∀ (kvs : KVs) (key : Option String), NodupKeysObj kvs →
      ∀ p ∈ flattenKVs key kvs, NodupKeysVal p.2
    | [], _, _ => by intro p hp; simp [flattenKVs] at hp
    | (k, v) :: rest, key, h => by
      intro p hp
      simp only [NodupKeysObj] at h
      simp only [flattenKVs, List.mem_append] at hp
      rcases hp with hp | hp
      · exact flattenVal_nodupKeys v _ h.2.1 p hp
      · exact flattenKVs_nodupKeys rest key h.2.2 p hp
end

theorem flatten_nodupKeys {sp : KVs} (h : NodupKeysObj sp) : ∀ p ∈ flatten sp, NodupKeysVal p.2 :=
  flattenKVs_nodupKeys sp none h

theorem pairEq_symm {a b : String × JVal} (ha : NodupKeysVal a.2) (hb : NodupKeysVal b.2)
    (h : pairEq a b = true) : pairEq b a = true := by
  simp only [pairEq, Bool.and_eq_true, beq_iff_eq] at h ⊢
  exact ⟨h.1.symm, pyEq_symm ha hb h.2⟩

theorem pairEq_trans {a b c : String × JVal} (h1 : pairEq a b = true) (h2 : pairEq b c = true) :
    pairEq a c = true := by
  simp only [pairEq, Bool.and_eq_true, beq_iff_eq] at h1 h2 ⊢
  exact ⟨h1.1.trans h2.1, pyEq_trans h1.2 h2.2⟩

/-- a pair is held (up to Python `==`) by every job -/
def SharedByAll (all : List KVs) (x : String × JVal) : Prop :=
  ∀ o ∈ all, ∃ y ∈ flatten o, pairEq y x = true

/-- a member of the intersection equal to `x` exists iff every job holds a pair equal to `x` -/
theorem memPair_inter_iff {all : List KVs} (hall : ∀ o ∈ all, NodupKeysObj o) (hne : all ≠ [])
    {x : String × JVal} (hx : NodupKeysVal x.2) :
    (∃ y ∈ inter all, pairEq y x = true) ↔ SharedByAll all x := by
  cases all with
  | nil => exact absurd rfl hne
  | cons sp0 rest =>
    constructor
    · rintro ⟨y, hy, hyx⟩ o ho
      obtain ⟨hy0, hyr⟩ := mem_inter_cons.mp hy
      simp only [List.mem_cons] at ho
      rcases ho with ho | ho
      · subst ho; exact ⟨y, hy0, hyx⟩
      · obtain ⟨z, hz, hzy⟩ := hyr o ho
        exact ⟨z, hz, pairEq_trans hzy hyx⟩
    · intro h
      obtain ⟨y0, hy0, hy0x⟩ := h sp0 (by simp)
      refine ⟨y0, mem_inter_cons.mpr ⟨hy0, ?_⟩, hy0x⟩
      intro o ho
      obtain ⟨z, hz, hzx⟩ := h o (by simp [ho])
      have hy0n : NodupKeysVal y0.2 := flatten_nodupKeys (hall sp0 (by simp)) y0 hy0
      exact ⟨z, hz, pairEq_trans hzx (pairEq_symm hy0n hx hy0x)⟩

end Signac.Schema

/-
  Idempotence of the directory walk of the sync model: after a successful real run, running
  `_sync_job_workspaces` again on the result changes nothing and succeeds.  Core only.
-/
import Signac.Proofs.SyncMore
namespace Signac.Sync

/-! ### when a loop does nothing -/

theorem phase1_noop (o : Opts) (dst0 : Entries) (l : Entries)
    (h : ∀ n sn, (n, sn) ∈ l → getE n dst0 = none → leftOnlyNode o n sn = none) :
    ∀ a, phase1 o dst0 l a = a := by
  induction l with
  | nil => intro a; simp [phase1]
  | cons hd tl ih =>
    intro a
    obtain ⟨n, sn⟩ := hd
    have ih' := ih (fun n' sn' hm => h n' sn' (List.mem_cons_of_mem _ hm))
    simp only [phase1]
    cases hd0 : getE n dst0 with
    | some x => exact ih' a
    | none =>
      simp only [h n sn List.mem_cons_self hd0]
      exact ih' a

theorem phase2_noop (o : Opts) (sub : Path) (dst0 : Entries) (l : Entries)
    (h : ∀ n ms md, (n, Node.file ms) ∈ l → getE n dst0 = some (.file md) →
      differs o.deep ms md = true → excluded o n = false → verdict o (sub ++ [n]) ms md = some false) :
    ∀ a, phase2 o sub dst0 l a = (a, none) := by
  induction l with
  | nil => intro a; simp [phase2]
  | cons hd tl ih =>
    intro a
    obtain ⟨k, sk⟩ := hd
    have ih' := ih (fun n ms md hm => h n ms md (List.mem_cons_of_mem _ hm))
    rcases phase2_cons o sub dst0 k sk tl a with ⟨ms, md, hsk, hmd, hd, hx, hv, _⟩ | he | ⟨ms, md, hsk, hmd, hd, hx, hv, _⟩
    · subst hsk
      have := h k ms md List.mem_cons_self hmd hd hx
      rw [this] at hv; cases hv
    · rw [he]; exact ih' a
    · subst hsk
      have := h k ms md List.mem_cons_self hmd hd hx
      rw [this] at hv; cases hv

theorem walkSubs_noop (o : Opts) (sub : Path) (dst0 : Entries) (l : Entries)
    (h : ∀ n ses dch, (n, Node.dir ses) ∈ l → getE n dst0 = some (.dir dch) →
      (walkDir o (sub ++ [n]) (.dir ses) dch).d = dch ∧ (walkDir o (sub ++ [n]) (.dir ses) dch).err = none) :
    ∀ a : Acc, a.d = dst0 → (walkSubs o sub dst0 l a).d = dst0 ∧ (walkSubs o sub dst0 l a).err = none := by
  induction l with
  | nil => intro a ha; simp [walkSubs, ha]
  | cons hd tl ih =>
    intro a ha
    obtain ⟨k, sk⟩ := hd
    have ih' := ih (fun n ses dch hm => h n ses dch (List.mem_cons_of_mem _ hm))
    by_cases hc : ∃ ses x dch, sk = .dir ses ∧ getE k dst0 = some (.dir x) ∧ getE k a.d = some (.dir dch)
    · obtain ⟨ses, x, dch, hsk, h1, h2⟩ := hc
      subst hsk
      rw [ha, h1] at h2
      cases h2
      have hch := h k ses x List.mem_cons_self h1
      rw [walkSubs_cons_common o sub dst0 k ses x x tl a h1 (by rw [ha]; exact h1)]
      simp only [hch.2]
      apply ih'
      simp only [subAcc, hch.1, ha]
      exact setE_getE h1
    · rw [walkSubs_cons_skip o sub dst0 k sk tl a hc]; exact ih' a ha

/-- one level: if no entry of the source listing gives any of the three loops something to do on
    the destination `D`, the walk returns `D` and succeeds -/
theorem walkDir_noop (o : Opts) (sub : Path) (ses D : Entries)
    (h1 : ∀ n sn, (n, sn) ∈ ses → getE n D = none → leftOnlyNode o n sn = none)
    (h2 : ∀ n ms md, (n, Node.file ms) ∈ ses → getE n D = some (.file md) →
      differs o.deep ms md = true → excluded o n = false → verdict o (sub ++ [n]) ms md = some false)
    (h3 : o.recursive = true → ∀ n sch dch, (n, Node.dir sch) ∈ ses → getE n D = some (.dir dch) →
      (walkDir o (sub ++ [n]) (.dir sch) dch).d = dch ∧ (walkDir o (sub ++ [n]) (.dir sch) dch).err = none) :
    (walkDir o sub (.dir ses) D).d = D ∧ (walkDir o sub (.dir ses) D).err = none := by
  have e2 : phase2 o sub D ses (phase1 o D ses ⟨D, []⟩) = (⟨D, []⟩, none) := by
    rw [phase1_noop o D ses h1, phase2_noop o sub D ses h2]
  rw [walkDir_dir]
  simp only [e2]
  by_cases hr : o.recursive = true
  · simp only [hr, if_true]
    exact walkSubs_noop o sub D ses (h3 hr) ⟨D, []⟩ rfl
  · simp [hr]

/-! ### sizes, for recursion through `getE` -/

theorem sizeOf_getE {n : Name} {c : Node} : ∀ {es : Entries}, getE n es = some c → sizeOf c < sizeOf es
  | [], h => by simp [getE] at h
  | (k, v) :: tl, h => by
    by_cases hk : k = n
    · simp only [getE, hk, if_true, Option.some.injEq] at h
      subst h
      simp only [List.cons.sizeOf_spec, Prod.mk.sizeOf_spec]
      omega
    · simp only [getE, hk, if_false] at h
      have := sizeOf_getE (es := tl) h
      simp only [List.cons.sizeOf_spec]
      omega

theorem getE_of_mem {n : Name} {sn : Node} {es : Entries} (hnd : (names es).Nodup) (h : (n, sn) ∈ es) :
    getE n es = some sn := by
  induction es with
  | nil => cases h
  | cons hd tl ih =>
    obtain ⟨k, v⟩ := hd
    have hnd' : (names tl).Nodup := (List.nodup_cons.mp hnd).2
    have hk : k ∉ names tl := (List.nodup_cons.mp hnd).1
    rcases List.mem_cons.mp h with he | hm
    · cases he; simp [getE]
    · have : k ≠ n := by
        intro e; subst e
        exact hk (List.mem_map_of_mem (f := Prod.fst) hm)
      simp [getE, this, ih hnd' hm]

theorem differs_touch (deep : Bool) (now : Nat) (ms : FMeta) : differs deep ms (touch now ms) = false := by
  unfold differs sameSig touch
  by_cases h : ms.mtime = now <;> simp [h]

/-! ### a copy is a fixed point -/

/-- synchronising a directory with its own copy does nothing, provided everything the copy left out
    is excluded from the walk as well -/
theorem walk_copy_fix (o : Opts) (ign : Name → Bool) (hign : ∀ n, ign n = true → excluded o n = true) :
    ∀ (sch : Entries) (sub : Path), WFEntries sch →
    (walkDir o sub (.dir sch) (copyEntries o.now ign sch)).d = copyEntries o.now ign sch ∧
    (walkDir o sub (.dir sch) (copyEntries o.now ign sch)).err = none
  | sch, sub, hw => by
    have hnd := hw.nodup
    apply walkDir_noop
    · intro n sn hm hD
      have hs := getE_of_mem hnd hm
      rw [getE_copyEntries, hs] at hD
      cases hi : ign n with
      | true => simp [leftOnlyNode, hign n hi]
      | false => simp [hi] at hD
    · intro n ms md hm hD hdiff _
      have hs := getE_of_mem hnd hm
      rw [getE_copyEntries, hs] at hD
      cases hi : ign n with
      | true => simp [hi] at hD
      | false =>
        simp only [hi, Bool.false_eq_true, if_false, Option.map, copyNode, Option.some.injEq, Node.file.injEq] at hD
        subst hD
        rw [differs_touch] at hdiff; cases hdiff
    · intro _ n sch' dch hm hD
      have hs := getE_of_mem hnd hm
      rw [getE_copyEntries, hs] at hD
      cases hi : ign n with
      | true => simp [hi] at hD
      | false =>
        simp only [hi, Bool.false_eq_true, if_false, Option.map, copyNode, Option.some.injEq, Node.dir.injEq] at hD
        subst hD
        have : sizeOf sch' < sizeOf sch := by
          have := sizeOf_getE hs
          simp only [Node.dir.sizeOf_spec] at this
          omega
        exact walk_copy_fix o ign hign sch' (sub ++ [n]) (hw.sub hs)
termination_by sch => sizeOf sch

/-! ### the walk is idempotent -/

/-- `sync_idempotent`, file part: after a successful real walk, walking again over the result
    changes nothing and succeeds -/
theorem walk_idempotent (o : Opts) (hdry : o.dry = false) :
    ∀ (ses : Entries) (sub : Path) (des : Entries), WFEntries ses →
    (walkDir o sub (.dir ses) des).err = none →
    (walkDir o sub (.dir ses) (walkDir o sub (.dir ses) des).d).d = (walkDir o sub (.dir ses) des).d ∧
    (walkDir o sub (.dir ses) (walkDir o sub (.dir ses) des).d).err = none
  | ses, sub, des, hw, hok => by
    have hnd := hw.nodup
    apply walkDir_noop
    · -- first loop: what is still missing was skipped on purpose
      intro n sn hm hD
      have hs := getE_of_mem hnd hm
      cases hd : getE n des with
      | none =>
        rw [walkDir_get_leftonly o sub ses des n sn hnd hs hd, hdry] at hD
        simpa using hD
      | some dn =>
        exfalso
        cases sn with
        | file ms =>
          cases dn with
          | file md =>
            rcases walkDir_get_file_cases o sub ses des n ms md hnd hs hd with h' | h' <;> rw [h'] at hD <;> cases hD
          | dir x =>
            rw [walkDir_get_clash o sub ses des n _ _ hnd hs hd (Or.inl ⟨ms, x, rfl, rfl⟩)] at hD; cases hD
        | dir sch =>
          cases dn with
          | file md =>
            rw [walkDir_get_clash o sub ses des n _ _ hnd hs hd (Or.inr ⟨sch, md, rfl, rfl⟩)] at hD; cases hD
          | dir dch =>
            rcases walkDir_get_common o sub ses des n sch dch hnd hs hd with ⟨h', _⟩ | ⟨_, h', _⟩ <;>
              rw [h'] at hD <;> cases hD
    · -- second loop: written files are equal now, kept files are kept again
      intro n ms md' hm hD hdiff hx
      have hs := getE_of_mem hnd hm
      cases hd : getE n des with
      | none =>
        rw [walkDir_get_leftonly o sub ses des n _ hnd hs hd, hdry] at hD
        simp only [Bool.false_eq_true, if_false, leftOnlyNode, hx] at hD
        cases hD
        rw [differs_touch] at hdiff; cases hdiff
      | some dn =>
        cases dn with
        | dir x =>
          rw [walkDir_get_clash o sub ses des n _ _ hnd hs hd (Or.inl ⟨ms, x, rfl, rfl⟩)] at hD; cases hD
        | file md =>
          by_cases hk : differs o.deep ms md = true ∧ excluded o n = false ∧ verdict o (sub ++ [n]) ms md = some true
          · rw [walkDir_get_file_overwritten o sub ses des n ms md hnd hs hd hk.1 hk.2.1 hk.2.2 hok hdry] at hD
            cases hD
            rw [differs_touch] at hdiff; cases hdiff
          · rw [walkDir_get_file_kept o sub ses des n ms md hnd hs hd hk] at hD
            cases hD
            have he := walkDir_err_none o sub ses des hok
            have hv := phase2_ok_verdict o sub des ses _ hnd he n ms md' ⟨hs, hd, hdiff, hx⟩
            cases hvv : verdict o (sub ++ [n]) ms md' with
            | none => exact absurd hvv hv
            | some b =>
              cases b with
              | false => rfl
              | true => exact absurd ⟨hdiff, hx, hvv⟩ hk
    · -- third loop: copied directories are fixed points, common ones by recursion
      intro hrec n sch dch' hm hD
      have hs := getE_of_mem hnd hm
      have hlt : sizeOf sch < sizeOf ses := by
        have := sizeOf_getE hs
        simp only [Node.dir.sizeOf_spec] at this
        omega
      cases hd : getE n des with
      | none =>
        rw [walkDir_get_leftonly o sub ses des n _ hnd hs hd, hdry] at hD
        simp only [Bool.false_eq_true, if_false, leftOnlyNode] at hD
        cases hx : excluded o n with
        | true => simp [hx] at hD
        | false =>
          simp only [hx, Bool.false_eq_true, if_false, hrec, if_true, Option.some.injEq, Node.dir.injEq] at hD
          subst hD
          exact walk_copy_fix o (excluded o) (fun _ h => h) sch (sub ++ [n]) (hw.sub hs)
      | some dn =>
        cases dn with
        | file md =>
          rw [walkDir_get_clash o sub ses des n _ _ hnd hs hd (Or.inr ⟨sch, md, rfl, rfl⟩)] at hD; cases hD
        | dir dch =>
          rcases walkDir_get_common o sub ses des n sch dch hnd hs hd with ⟨_, h2⟩ | ⟨_, h', h2⟩
          · have := h2 hok
            rw [hrec] at this; cases this
          · rw [h'] at hD
            simp only [Option.some.injEq, Node.dir.injEq] at hD
            subst hD
            exact walk_idempotent o hdry sch (sub ++ [n]) dch (hw.sub hs) (h2 hok)
termination_by ses => sizeOf ses

end Signac.Sync

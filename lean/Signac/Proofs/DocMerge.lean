/-
  The dependency's in-place merge `_update` (`mergeVal`): what a lookup in the merged value
  gives, the merge lemma `Sim (mergeVal old new) new` (unless `None` meets a dict / list —
  finding F-5d, `nullHit`), and preservation of well-formedness.
-/
import Signac.Proofs.DocSim
namespace Signac.Doc
open Signac

/-! ### lookups in edited association lists -/
theorem lookupKV_setKV (k k' : String) (v : JVal) (l : Entries) :
    lookupKV k' (setKV k v l) = if k' = k then some v else lookupKV k' l := by
  induction l with
  | nil => simp only [setKV, lookupKV]
  | cons hd tl ih =>
    obtain ⟨k₀, v₀⟩ := hd
    simp only [setKV]
    split <;> simp only [lookupKV] <;> grind

theorem lookupKV_eraseKV (k k' : String) (l : Entries) :
    lookupKV k' (eraseKV k l) = if k' = k then none else lookupKV k' l := by
  induction l with
  | nil => simp [eraseKV, lookupKV]
  | cons hd tl ih =>
    obtain ⟨k₀, v₀⟩ := hd
    simp only [eraseKV]
    split <;> simp only [lookupKV] <;> grind

theorem lookupKV_append (k : String) (a b : Entries) :
    lookupKV k (a ++ b) = match lookupKV k a with
      | some v => some v
      | none => lookupKV k b := by
  induction a with
  | nil => simp [lookupKV]
  | cons hd tl ih =>
    obtain ⟨k₀, v₀⟩ := hd
    simp only [List.cons_append, lookupKV]
    split <;> simp_all

theorem lookupKV_filter_hasKey (k : String) (o n : Entries) :
    lookupKV k (n.filter (fun kv => !hasKey kv.1 o)) = if hasKey k o then none else lookupKV k n := by
  induction n with
  | nil => simp [lookupKV]
  | cons hd tl ih =>
    obtain ⟨k₀, v₀⟩ := hd
    simp only [List.filter]
    cases hh : hasKey k₀ o <;> simp only [Bool.not_true, Bool.not_false, lookupKV] <;> grind

theorem hasKey_eq (k : String) (l : Entries) : hasKey k l = (lookupKV k l).isSome := rfl

/-- the value a slot ends up with -/
def slot (ov nv : JVal) : JVal := if pyEq nv ov then ov else mergeVal ov nv

theorem lookupKV_mergeKeep (k : String) (o n : Entries) :
    lookupKV k (mergeKeep o n) = match lookupKV k o, lookupKV k n with
      | some ov, some nv => some (slot ov nv)
      | _, _ => none := by
  induction o with
  | nil => simp [mergeKeep, lookupKV]
  | cons hd tl ih =>
    obtain ⟨k₀, v₀⟩ := hd
    simp only [mergeKeep]
    by_cases hk : k = k₀
    · subst hk
      cases hn : lookupKV k n with
      | some nv => simp [lookupKV, slot]
      | none =>
        simp only [lookupKV, if_true]
        rw [ih, hn]
        cases lookupKV k tl <;> rfl
    · cases hn : lookupKV k₀ n with
      | some nv => simp only [lookupKV, if_neg hk]; exact ih
      | none => simp only [lookupKV, if_neg hk]; exact ih

theorem lookupKV_merged (k : String) (o n : Entries) :
    lookupKV k (mergeKeep o n ++ n.filter (fun kv => !hasKey kv.1 o)) =
      match lookupKV k o with
      | some ov => (match lookupKV k n with
          | some nv => some (slot ov nv)
          | none => none)
      | none => lookupKV k n := by
  rw [lookupKV_append, lookupKV_mergeKeep, lookupKV_filter_hasKey, hasKey_eq]
  cases lookupKV k o <;> cases lookupKV k n <;> simp

theorem getElem?_mergeArr (o n : List JVal) (i : Nat) :
    (mergeArr o n)[i]? = match o[i]?, n[i]? with
      | some ov, some nv => some (slot ov nv)
      | none, some nv => some nv
      | _, none => none := by
  induction o generalizing n i with
  | nil => simp only [mergeArr, List.getElem?_nil]; cases n[i]? <;> rfl
  | cons ov orest ih =>
    cases n with
    | nil => simp only [mergeArr, List.getElem?_nil]
    | cons nv nrest =>
      simp only [mergeArr]
      cases i with
      | zero => simp [slot]
      | succ i => simp only [List.getElem?_cons_succ]; exact ih nrest i

theorem length_mergeArr (o n : List JVal) : (mergeArr o n).length = n.length := by
  induction o generalizing n with
  | nil => simp [mergeArr]
  | cons ov orest ih =>
    cases n with
    | nil => simp [mergeArr]
    | cons nv nrest => simp [mergeArr, ih]

/-! ### `nullHit` decomposed -/
theorem nullHitKeep_false {o n : Entries} (h : nullHitKeep o n = false) {k : String} {ov nv : JVal}
    (ho : lookupKV k o = some ov) (hn : lookupKV k n = some nv) :
    pyEq nv ov = true ∨ nullHit ov nv = false := by
  induction o with
  | nil => simp [lookupKV] at ho
  | cons hd tl ih =>
    obtain ⟨k₀, v₀⟩ := hd
    simp only [nullHitKeep, Bool.or_eq_false_iff] at h
    simp only [lookupKV] at ho
    split at ho
    · next hk =>
      cases ho; subst hk
      have h1 := h.1
      rw [hn] at h1
      simp only [Bool.and_eq_false_iff, Bool.not_eq_false'] at h1
      exact h1
    · exact ih h.2 ho

theorem nullHitArr_false {o n : List JVal} (h : nullHitArr o n = false) {i : Nat} {ov nv : JVal}
    (ho : o[i]? = some ov) (hn : n[i]? = some nv) :
    pyEq nv ov = true ∨ nullHit ov nv = false := by
  induction o generalizing n i with
  | nil => simp at ho
  | cons x xs ih =>
    cases n with
    | nil => simp at hn
    | cons y ys =>
      simp only [nullHitArr, Bool.or_eq_false_iff] at h
      cases i with
      | zero =>
        simp at ho hn; subst ho hn
        have h1 := h.1
        simp only [Bool.and_eq_false_iff, Bool.not_eq_false'] at h1
        exact h1
      | succ i => simp at ho hn; exact ih h.2 ho hn

/-! ### the merge lemma -/
theorem mergeVal_other {old new : JVal}
    (h1 : ∀ o n, ¬ (old = .obj o ∧ new = .obj n)) (h2 : ∀ o n, ¬ (old = .arr o ∧ new = .arr n))
    (h3 : ∀ o, ¬ (old = .obj o ∧ new = .null)) (h4 : ∀ o, ¬ (old = .arr o ∧ new = .null)) :
    mergeVal old new = new := by
  cases old <;> cases new <;> simp_all [mergeVal]

mutual
  theorem merge_sim : (old new : JVal) → WF old → WF new → nullHit old new = false →
      Sim (mergeVal old new) new
    | .obj o, new, wo, wn, hh => by
        cases new with
        | obj n =>
          simp only [mergeVal]
          simp only [nullHit] at hh
          simp only [WF] at wo wn
          rw [sim_obj_iff]
          intro k
          rw [lookupKV_merged]
          cases ho : lookupKV k o with
          | none => exact OSim.refl _
          | some ov =>
            cases hn : lookupKV k n with
            | none => trivial
            | some nv =>
              exact merge_sim_entries o n wo.2 wn.2 hh k ov nv ho hn
        | null => simp [nullHit] at hh
        | _ => simp only [mergeVal]; exact Sim.refl _
    | .arr o, new, wo, wn, hh => by
        cases new with
        | arr n =>
          simp only [mergeVal]
          simp only [nullHit] at hh
          simp only [WF] at wo wn
          refine .arr (length_mergeArr o n) (fun i x y hx hy => ?_)
          rw [getElem?_mergeArr, hy] at hx
          cases ho : o[i]? with
          | none => simp [ho] at hx; subst hx; exact Sim.refl _
          | some ov =>
            simp [ho] at hx; subst hx
            exact merge_sim_list o n wo wn hh i ov y ho hy
        | null => simp [nullHit] at hh
        | _ => simp only [mergeVal]; exact Sim.refl _
    | .null, new, _, _, _ => by
        rw [mergeVal_other (by simp) (by simp) (by simp) (by simp)]; exact Sim.refl _
    | .bool _, new, _, _, _ => by
        rw [mergeVal_other (by simp) (by simp) (by simp) (by simp)]; exact Sim.refl _
    | .int _, new, _, _, _ => by
        rw [mergeVal_other (by simp) (by simp) (by simp) (by simp)]; exact Sim.refl _
    | .flt _ _ _, new, _, _, _ => by
        rw [mergeVal_other (by simp) (by simp) (by simp) (by simp)]; exact Sim.refl _
    | .str _, new, _, _, _ => by
        rw [mergeVal_other (by simp) (by simp) (by simp) (by simp)]; exact Sim.refl _
  theorem merge_sim_entries : (o n : Entries) → WFObj o → WFObj n → nullHitKeep o n = false →
      ∀ k ov nv, lookupKV k o = some ov → lookupKV k n = some nv → Sim (slot ov nv) nv
    | [], _, _, _, _ => by intro k ov nv ho; simp [lookupKV] at ho
    | (k₀, v₀) :: r, n, wo, wn, hh => by
        intro k ov nv ho hn
        simp only [lookupKV] at ho
        simp only [WFObj] at wo
        simp only [nullHitKeep, Bool.or_eq_false_iff] at hh
        split at ho
        · next hk =>
          obtain rfl : v₀ = ov := Option.some.inj ho
          have h1 := hh.1
          rw [← hk, hn] at h1
          simp only [Bool.and_eq_false_iff, Bool.not_eq_false'] at h1
          unfold slot
          split
          · next he => exact (pyEq_sim nv v₀ (wf_lookup wn hn) wo.1 he).symm
          · next he =>
            rcases h1 with h1 | h1
            · exact absurd h1 he
            · exact merge_sim v₀ nv wo.1 (wf_lookup wn hn) h1
        · exact merge_sim_entries r n wo.2 wn hh.2 k ov nv ho hn
  theorem merge_sim_list : (o n : List JVal) → WFList o → WFList n → nullHitArr o n = false →
      ∀ (i : Nat) ov nv, o[i]? = some ov → n[i]? = some nv → Sim (slot ov nv) nv
    | [], _, _, _, _ => by intro i ov nv ho; simp at ho
    | x :: xs, n, wo, wn, hh => by
        intro i ov nv ho hn
        cases n with
        | nil => simp at hn
        | cons y ys =>
          simp only [WFList] at wo wn
          simp only [nullHitArr, Bool.or_eq_false_iff] at hh
          cases i with
          | zero =>
            simp at ho hn; subst ho hn
            have h1 := hh.1
            simp only [Bool.and_eq_false_iff, Bool.not_eq_false'] at h1
            unfold slot
            split
            · next he => exact (pyEq_sim _ _ wn.1 wo.1 he).symm
            · next he =>
              rcases h1 with h1 | h1
              · exact absurd h1 he
              · exact merge_sim _ _ wo.1 wn.1 h1
          | succ i =>
            simp at ho hn
            exact merge_sim_list xs ys wo.2 wn.2 hh.2 i ov nv ho hn
end

end Signac.Doc

/-
  Helper lemmas for C06, corpus level: from a corpus of jobs (id, state point, optional document)
  to the documents `_build_index` yields, and back.
-/
import Signac.Proofs.QueryMain
import Signac.Proofs.QueryDoc
namespace Signac.Query
open Signac

mutual
  /-- job data in which lists hold no mappings (mappings may nest freely elsewhere) -/
  def dataFlat : JVal → Bool
    | .obj kvs => dataFlatKVs kvs
    | .arr xs => flatList xs
    | _ => true
  def dataFlatKVs : List (String × JVal) → Bool
    | [] => true
    | (_, v) :: rest => dataFlat v && dataFlatKVs rest
end

theorem dataFlat_lookup : ∀ {kvs : List (String × JVal)} {n : String} {w : JVal},
    dataFlatKVs kvs = true → lookupKV n kvs = some w → dataFlat w = true
  | [], _, _, _, h => by simp [lookupKV] at h
  | (k, v) :: rest, n, w, hf, h => by
    simp only [dataFlatKVs, Bool.and_eq_true] at hf
    simp only [lookupKV] at h
    by_cases hk : n = k
    · rw [if_pos hk] at h; cases h; exact hf.1
    · rw [if_neg hk] at h; exact dataFlat_lookup hf.2 h

theorem dataFlat_getPath : ∀ {nodes : List String} {d w : JVal},
    dataFlat d = true → getPath nodes d = some w → dataFlat w = true
  | [], d, w, hf, h => by simp only [getPath, Option.some.injEq] at h; rw [← h]; exact hf
  | n :: ns, .obj kvs, w, hf, h => by
    simp only [getPath] at h
    cases hl : lookupKV n kvs with
    | none => rw [hl] at h; cases h
    | some x =>
      rw [hl] at h
      exact dataFlat_getPath (dataFlat_lookup (by simpa [dataFlat] using hf) hl) h
  | _ :: _, .null, _, _, h => by simp [getPath] at h
  | _ :: _, .bool _, _, _, h => by simp [getPath] at h
  | _ :: _, .int _, _, _, h => by simp [getPath] at h
  | _ :: _, .flt _ _ _, _, _, h => by simp [getPath] at h
  | _ :: _, .str _, _, _, h => by simp [getPath] at h
  | _ :: _, .arr _, _, _, h => by simp [getPath] at h

theorem flatKey_of_dataFlat {w : JVal} (h : dataFlat w = true) : flatKey (toIKey w) = true := by
  cases w with
  | obj kvs => rfl
  | arr xs => simpa [toIKey, flatKey, flatVal, dataFlat] using h
  | _ => rfl

/-- the corpus' lists hold no mappings -/
def CorpusFlat (c : Corpus) : Prop := ∀ j ∈ c, dataFlat (fullDoc j) = true

theorem dataFlat_indexed {j : Job} (h : dataFlat (fullDoc j) = true) (b : Bool) :
    dataFlat (indexedDoc b j) = true := by
  cases b with
  | true => exact h
  | false =>
    cases hd : j.doc with
    | none => simpa [fullDoc, indexedDoc, hd] using h
    | some x =>
      simp only [fullDoc, indexedDoc, hd, dataFlat, dataFlatKVs, Bool.and_eq_true, Bool.and_true] at h ⊢
      exact h.1

theorem mem_indexedDocs {b : Bool} {c : Corpus} {i : JobId} {d : JVal} :
    (i, d) ∈ indexedDocs b c ↔ ∃ j ∈ c, j.id = i ∧ indexedDoc b j = d := by
  simp only [indexedDocs, List.mem_map, Prod.mk.injEq]

theorem flatAt_indexed {c : Corpus} (h : CorpusFlat c) (b : Bool) (nodes : List String) :
    FlatAt nodes (indexedDocs b c) := by
  intro i d w hd hw
  obtain ⟨j, hj, _, rfl⟩ := mem_indexedDocs.mp hd
  exact flatKey_of_dataFlat (dataFlat_getPath (dataFlat_indexed (h j hj) b) hw)

theorem uniqueIds_indexed {c : Corpus} (h : (c.map (·.id)).Nodup) (b : Bool) :
    UniqueIds (indexedDocs b c) := by
  intro i d d' hd hd'
  obtain ⟨j, hj, hji, rfl⟩ := mem_indexedDocs.mp hd
  obtain ⟨j', hj', hji', rfl⟩ := mem_indexedDocs.mp hd'
  have : j = j' := by
    clear hd hd'
    induction c with
    | nil => cases hj
    | cons x xs ih =>
      simp only [List.map_cons, List.nodup_cons, List.mem_map, not_exists, not_and] at h
      rcases List.mem_cons.mp hj with e1 | m1
      · rcases List.mem_cons.mp hj' with e2 | m2
        · rw [e1, e2]
        · subst e1
          exact absurd (hji'.trans hji.symm) (h.1 j' m2)
      · rcases List.mem_cons.mp hj' with e2 | m2
        · subst e2
          exact absurd (hji.trans hji'.symm) (h.1 j m1)
        · exact ih h.2 m1 m2
  rw [this]

/-! ### the clash-freeness hypothesis does not depend on whether documents are indexed -/

theorem typeStable_sp_only {c : Corpus} {n : String} {ns : List String} (hn : n ≠ "doc")
    (h : TypeStable (indexedDocs true c) (n :: ns)) : TypeStable (indexedDocs false c) (n :: ns) := by
  have key : ∀ j : Job, getPath (n :: ns) (indexedDoc false j) = getPath (n :: ns) (indexedDoc true j) := by
    intro j
    cases hd : j.doc with
    | none => simp only [indexedDoc, hd]
    | some x => simp only [indexedDoc, hd]; exact getPath_sp_only ns hn j.sp x
  intro i d w i' d' w' hd hd' hw hw' hs t
  obtain ⟨j, hj, hji, rfl⟩ := mem_indexedDocs.mp hd
  obtain ⟨j', hj', hji', rfl⟩ := mem_indexedDocs.mp hd'
  rw [key] at hw hw'
  exact h i _ w i' _ w' (mem_indexedDocs.mpr ⟨j, hj, hji, rfl⟩) (mem_indexedDocs.mpr ⟨j', hj', hji', rfl⟩)
    hw hw' hs t

theorem typeStable_atom_sp_only {c : Corpus} {k : String} (hk : rootOf k ≠ "doc") {nodes : List String}
    (ha : analyseKey k = .op nodes "$type") (h : TypeStable (indexedDocs true c) nodes) :
    TypeStable (indexedDocs false c) nodes := by
  rcases analyseKey_first k with ⟨n, hf, hroot⟩ | hbad
  · rw [ha] at hf
    cases nodes with
    | nil => simp [firstNode] at hf
    | cons m ms =>
      simp only [firstNode, Option.some.injEq] at hf
      subst hf
      refine typeStable_sp_only ?_ h
      rcases hroot with rfl | rfl
      · exact hk
      · decide
  · rw [hbad] at ha; cases ha

mutual
  theorem noClash_sp_only {c : Corpus} : ∀ f : Flt, ¬ "doc" ∈ rootKeys f →
      NoClash (indexedDocs true c) f → NoClash (indexedDocs false c) f
    | .mk atoms n a o, h, hc => by
      simp only [rootKeys, List.mem_append, not_or] at h
      obtain ⟨⟨⟨h1, h2⟩, h3⟩, h4⟩ := h
      obtain ⟨c1, c2, c3, c4⟩ := hc
      refine ⟨?_, noClashOpt_sp_only n h2 c2, noClashOptList_sp_only a h3 c3, noClashOptList_sp_only o h4 c4⟩
      intro kv hkv nodes ha
      obtain ⟨a', ha', hr⟩ := flatten_root atoms kv hkv
      refine typeStable_atom_sp_only ?_ ha (c1 kv hkv nodes ha)
      rw [hr]
      intro hd
      exact h1 (List.mem_map.mpr ⟨a', ha', hd⟩)
  theorem noClashOpt_sp_only {c : Corpus} : ∀ n : Option Flt, ¬ "doc" ∈ rootKeysOpt n →
      NoClashOpt (indexedDocs true c) n → NoClashOpt (indexedDocs false c) n
    | none, _, _ => trivial
    | some f, h, hc => noClash_sp_only f (by simpa [rootKeysOpt] using h) hc
  theorem noClashOptList_sp_only {c : Corpus} : ∀ a : Option (List Flt), ¬ "doc" ∈ rootKeysOptList a →
      NoClashOptList (indexedDocs true c) a → NoClashOptList (indexedDocs false c) a
    | none, _, _ => trivial
    | some fs, h, hc => noClashList_sp_only fs (by simpa [rootKeysOptList] using h) hc
  theorem noClashList_sp_only {c : Corpus} : ∀ fs : List Flt, ¬ "doc" ∈ rootKeysList fs →
      NoClashList (indexedDocs true c) fs → NoClashList (indexedDocs false c) fs
    | [], _, _ => trivial
    | f :: fs, h, hc => by
      simp only [rootKeysList, List.mem_append, not_or] at h
      exact ⟨noClash_sp_only f h.1 hc.1, noClashList_sp_only fs h.2 hc.2⟩
end

/-- the filter is well-typed for the corpus: direct evaluation raises for no job, and not on a
    job without any data either (exceptions that do not depend on the jobs) -/
def WellTyped (P : Params) (c : Corpus) (f : Flt) : Prop :=
  (∀ j ∈ c, ∃ b, evalRef P (fullDoc j) f = .ok b) ∧ ∃ b, evalRef P (.obj []) f = .ok b

/-- F-6a excluded: no `$type` atom of the filter (at any depth) is applied to a key under which two
    jobs hold values of different Python type in one slot of the value index -/
def NoBoolIntClash (c : Corpus) (f : Flt) : Prop := NoClash (indexedDocs true c) f

/-- `Project._find_job_ids` for a split filter returns exactly the ids of the jobs whose own
    state point and document satisfy the filter under direct evaluation -/
theorem findFlt_exact {P : Params} {c : Corpus} {f : Flt} (hids : (c.map (·.id)).Nodup)
    (hP : NearRespectsEq P) (hflat : CorpusFlat c) (hwt : WellTyped P c f)
    (hnc : NoBoolIntClash c f) :
    ∃ r, findFlt P c f = .ok r ∧
      ∀ i, i ∈ r ↔ ∃ j ∈ c, j.id = i ∧ evalRef P (fullDoc j) f = .ok true := by
  have hu := uniqueIds_indexed hids (includeDoc f)
  have hfl := flatAt_indexed hflat (includeDoc f)
  have hw : WTon P (DocsAnd0 (indexedDocs (includeDoc f) c)) f := by
    rintro d (rfl | ⟨i, hd⟩)
    · exact hwt.2
    · obtain ⟨j, hj, _, rfl⟩ := mem_indexedDocs.mp hd
      rw [evalRef_indexed]; exact hwt.1 j hj
  have hn : NoClash (indexedDocs (includeDoc f) c) f := by
    cases hi : includeDoc f with
    | true => exact hnc
    | false => exact noClash_sp_only f (by simpa [includeDoc] using hi) hnc
  obtain ⟨r, hr, hsel⟩ := findResult_exact hu hP hfl f hw hn
  refine ⟨r, hr, ?_⟩
  intro i
  rw [hsel i]
  constructor
  · rintro ⟨d, hd, he⟩
    obtain ⟨j, hj, hji, rfl⟩ := mem_indexedDocs.mp hd
    exact ⟨j, hj, hji, by rw [← evalRef_indexed]; exact he⟩
  · rintro ⟨j, hj, hji, he⟩
    exact ⟨_, mem_indexedDocs.mpr ⟨j, hj, hji, rfl⟩, by show evalRef P _ f = .ok true; rw [evalRef_indexed]; exact he⟩

theorem job_unique {c : Corpus} (h : (c.map (·.id)).Nodup) {j j' : Job} (hj : j ∈ c) (hj' : j' ∈ c)
    (he : j.id = j'.id) : j = j' := by
  induction c with
  | nil => cases hj
  | cons x xs ih =>
    simp only [List.map_cons, List.nodup_cons, List.mem_map, not_exists, not_and] at h
    rcases List.mem_cons.mp hj with e1 | m1
    · rcases List.mem_cons.mp hj' with e2 | m2
      · rw [e1, e2]
      · subst e1; exact absurd he.symm (h.1 j' m2)
    · rcases List.mem_cons.mp hj' with e2 | m2
      · subst e2; exact absurd he (h.1 j m1)
      · exact ih h.2 m1 m2

/-- membership form of exactness: a job of the corpus is selected iff its own data satisfy the
    filter -/
theorem findFlt_mem_iff {P : Params} {c : Corpus} {f : Flt} (hids : (c.map (·.id)).Nodup)
    (hP : NearRespectsEq P) (hflat : CorpusFlat c) (hwt : WellTyped P c f)
    (hnc : NoBoolIntClash c f) :
    ∃ r, findFlt P c f = .ok r ∧ (∀ i ∈ r, i ∈ c.map (·.id)) ∧
      ∀ j ∈ c, (j.id ∈ r ↔ evalRef P (fullDoc j) f = .ok true) := by
  obtain ⟨r, hr, h⟩ := findFlt_exact hids hP hflat hwt hnc
  refine ⟨r, hr, ?_, ?_⟩
  · intro i hi
    obtain ⟨j, hj, hji, _⟩ := (h i).mp hi
    exact List.mem_map.mpr ⟨j, hj, hji⟩
  · intro j hj
    rw [h j.id]
    constructor
    · rintro ⟨j', hj', he, hv⟩
      rw [job_unique hids hj hj' he.symm]; exact hv
    · intro hv; exact ⟨j, hj, rfl, hv⟩

/-- the three logical operators as filters of their own -/
def fNot (f : Flt) : Flt := .mk [] (some f) none none
def fAnd (f g : Flt) : Flt := .mk [] none (some [f, g]) none
def fOr (f g : Flt) : Flt := .mk [] none none (some [f, g])

theorem evalRef_fNot (P : Params) (d : JVal) (f : Flt) :
    evalRef P d (fNot f) = (match evalRef P d f with | .ok b => .ok (!b) | .error e => .error e) := by
  simp only [fNot, evalRef, flatten, evalAtoms, evalNot, evalAllOpt, evalAnyOpt]
  cases evalRef P d f <;> simp

theorem evalRef_fAnd (P : Params) (d : JVal) (f g : Flt) :
    evalRef P d (fAnd f g) = (match evalRef P d f, evalRef P d g with
      | .ok a, .ok b => .ok (a && b)
      | .error e, _ => .error e
      | .ok _, .error e => .error e) := by
  simp only [fAnd, evalRef, flatten, evalAtoms, evalNot, evalAllOpt, evalAnyOpt, evalAll]
  cases evalRef P d f <;> cases evalRef P d g <;> simp

theorem evalRef_fOr (P : Params) (d : JVal) (f g : Flt) :
    evalRef P d (fOr f g) = (match evalRef P d f, evalRef P d g with
      | .ok a, .ok b => .ok (a || b)
      | .error e, _ => .error e
      | .ok _, .error e => .error e) := by
  simp only [fOr, evalRef, flatten, evalAtoms, evalNot, evalAllOpt, evalAnyOpt, evalAny]
  cases evalRef P d f <;> cases evalRef P d g <;> simp

theorem wellTyped_fNot {P : Params} {c : Corpus} {f : Flt} (h : WellTyped P c (fNot f)) :
    WellTyped P c f := by
  constructor
  · intro j hj
    obtain ⟨b, hb⟩ := h.1 j hj
    rw [evalRef_fNot] at hb
    cases h1 : evalRef P (fullDoc j) f with
    | error e => rw [h1] at hb; cases hb
    | ok b1 => exact ⟨b1, rfl⟩
  · obtain ⟨b, hb⟩ := h.2
    rw [evalRef_fNot] at hb
    cases h1 : evalRef P (.obj []) f with
    | error e => rw [h1] at hb; cases hb
    | ok b1 => exact ⟨b1, rfl⟩

theorem ok_pair_of_match {x y : Except Err Bool} {g : Bool → Bool → Bool} {b : Bool}
    (h : (match x, y with
      | .ok a, .ok b => Except.ok (g a b)
      | .error e, _ => .error e
      | .ok _, .error e => .error e) = .ok b) : (∃ a, x = .ok a) ∧ (∃ a, y = .ok a) := by
  cases x with
  | error e => cases h
  | ok a => cases y with
    | error e => cases h
    | ok b' => exact ⟨⟨a, rfl⟩, ⟨b', rfl⟩⟩

theorem wellTyped_fAnd {P : Params} {c : Corpus} {f g : Flt} (h : WellTyped P c (fAnd f g)) :
    WellTyped P c f ∧ WellTyped P c g := by
  have key : ∀ d, (∃ b, evalRef P d (fAnd f g) = .ok b) →
      (∃ a, evalRef P d f = .ok a) ∧ (∃ a, evalRef P d g = .ok a) := by
    rintro d ⟨b, hb⟩
    rw [evalRef_fAnd] at hb
    exact ok_pair_of_match hb
  exact ⟨⟨fun j hj => (key _ (h.1 j hj)).1, (key _ h.2).1⟩, ⟨fun j hj => (key _ (h.1 j hj)).2, (key _ h.2).2⟩⟩

theorem wellTyped_fOr {P : Params} {c : Corpus} {f g : Flt} (h : WellTyped P c (fOr f g)) :
    WellTyped P c f ∧ WellTyped P c g := by
  have key : ∀ d, (∃ b, evalRef P d (fOr f g) = .ok b) →
      (∃ a, evalRef P d f = .ok a) ∧ (∃ a, evalRef P d g = .ok a) := by
    rintro d ⟨b, hb⟩
    rw [evalRef_fOr] at hb
    exact ok_pair_of_match hb
  exact ⟨⟨fun j hj => (key _ (h.1 j hj)).1, (key _ h.2).1⟩, ⟨fun j hj => (key _ (h.1 j hj)).2, (key _ h.2).2⟩⟩

end Signac.Query

/-
  Proofs/ConcFinal — consequences of the invariant for reads, temp files and final states (C12).
-/
import Signac.Proofs.ConcVisible
namespace Signac.Conc
variable {SP DV : Type} {hash : SP → JobId}

/-- actors only ever read published files -/
theorem next_read_file {a : Nat} {st : AState SP DV} {p : Path}
    (hn : next hash a st = some (.read p)) : ∃ i k, p = .file i k := by
  cases hph : st.phase with
  | fin => simp [next, hph] at hn
  | proj n => cases n <;> simp [next, hph] at hn
  | lite v => simp [next, hph] at hn
  | ini n v => cases n <;> simp [next, hph] at hn <;> exact ⟨_, _, hn.symm⟩
  | dload v => simp [next, hph] at hn; exact ⟨_, _, hn.symm⟩
  | len => simp [next, hph] at hn
  | save n j k c => cases n <;> simp [next, hph] at hn

theorem read_is_good {s : Sys SP DV} (h : SysInv hash s) {a : Nat} {st : AState SP DV} {p : Path}
    {c : Content SP DV} (_hst : s.actors[a]? = some st) (hn : next hash a st = some (.read p))
    (hr : (exec s.fs (.read p)).2 = .data c) : ∃ i k, p = .file i k ∧ GoodC hash i k c ∧ c ≠ .torn := by
  obtain ⟨i, k, rfl⟩ := next_read_file hn
  refine ⟨i, k, rfl, ?_⟩
  cases hg : s.fs.get (.file i k) with
  | none => rw [exec_read_none hg] at hr; cases hr
  | some nd =>
    obtain ⟨c', rfl, hgood⟩ := h.fs.fileT hg
    rw [exec_read_file hg] at hr
    cases hr
    exact ⟨hgood, goodC_not_torn hgood⟩

theorem files_valid {s : Sys SP DV} (h : SysInv hash s) (i : JobId) :
    (∀ n, s.fs.get (.file i .sp) = some n → ∃ v, n = .file (.spc v) ∧ hash v = i) ∧
    (∀ n, s.fs.get (.file i .doc) = some n → ∃ d, n = .file (.docc d)) := by
  constructor
  · intro n hn
    obtain ⟨c, rfl, hg⟩ := h.fs.fileT hn
    cases c with
    | spc v => exact ⟨v, rfl, hg⟩
    | torn => simp [GoodC] at hg
    | docc d => simp [GoodC] at hg
  · intro n hn
    obtain ⟨c, rfl, hg⟩ := h.fs.fileT hn
    cases c with
    | docc d => exact ⟨d, rfl⟩
    | torn => simp [GoodC] at hg
    | spc v => simp [GoodC] at hg

theorem tmp_owner {s : Sys SP DV} (h : SysInv hash s) (i : JobId) (k : Kind) (a : Nat)
    (hne : s.fs.get (.tmp i k a) ≠ none) :
    (∃ st, s.actors[a]? = some st ∧ tmpPhase i k st.phase) ∧
    ∀ b, b ≠ a → (sysStep hash s b).fs.get (.tmp i k a) = s.fs.get (.tmp i k a) := by
  have hlt := h.owned i k a hne
  refine ⟨⟨s.actors[a], List.getElem?_eq_getElem hlt, ?_⟩, ?_⟩
  · exact (h.actors a _ (List.getElem?_eq_getElem hlt)).own i k hne
  · intro b hb
    exact (sysStep_inv_guar h b).2.tmps i k a (fun e => hb e.symm)

theorem done_no_tmp {s : Sys SP DV} (h : SysInv hash s) (hd : AllDone s) (i : JobId) (k : Kind) (a : Nat) :
    s.fs.get (.tmp i k a) = none := by
  cases hg : s.fs.get (.tmp i k a) with
  | none => rfl
  | some nd =>
    have hne : s.fs.get (.tmp i k a) ≠ none := by simp [hg]
    obtain ⟨⟨st, hst, hp⟩, _⟩ := tmp_owner h i k a hne
    have hmem : st ∈ s.actors := List.mem_of_getElem? hst
    rw [hd st hmem] at hp
    exact absurd hp (by simp [tmpPhase])

end Signac.Conc

/-
  Basic lemmas for the lifecycle model: world updates, the frame of a step, and the generic
  invariant rule for programs (`exec_inv`): a predicate preserved by every step that occurs
  anywhere in a program (on any branch, under any event) holds of the outcome.
-/
import Signac.Lifecycle
namespace Signac.Life

variable {Sp : Type}

@[simp] theorem upd_same (w : World Sp) (k : Key) (v) : upd w k v k = v := by simp [upd]
theorem upd_other (w : World Sp) {k k' : Key} (v) (h : k' ≠ k) : upd w k v k' = w k' := by simp [upd, h]

/-- the directories a step can modify -/
def Step.keys : Step Sp → List Key
  | .mkdir k => [k] | .tmpOpen k _ => [k] | .tmpWrite k _ _ => [k] | .tmpCommit k _ => [k]
  | .spToBak k => [k] | .bakToSp k => [k] | .rmBak k => [k] | .rmSp k => [k]
  | .renameDir a b => [a, b]
  | .rmItem k _ => [k] | .rmJobDir k => [k]
  | .cpMkdir k _ => [k] | .cpOpen k _ => [k] | .cpWrite k _ _ => [k]

theorem apply_frame (C : Codec Sp) {w w' : World Sp} {s : Step Sp} (h : apply C w s = .ok w')
    {k : Key} (hk : k ∉ s.keys) : w' k = w k := by
  cases s <;> simp only [Step.keys, List.mem_cons, List.not_mem_nil, or_false, not_or] at hk <;>
    simp only [apply] at h <;> (repeat' split at h) <;> cases h <;> simp [upd, hk]

theorem torn_frame (C : Codec Sp) (w : World Sp) (s : Step Sp) (t : Nat) {k : Key} (hk : k ∉ s.keys) :
    tornApply C w s t k = w k := by
  cases s with
  | tmpWrite k' n c =>
    simp only [Step.keys, List.mem_cons, List.not_mem_nil, or_false] at hk
    simp only [tornApply]; cases hw : w k' <;> simp [upd, hk]
  | cpWrite k' r c =>
    simp only [Step.keys, List.mem_cons, List.not_mem_nil, or_false] at hk
    simp only [tornApply]; cases hw : w k' <;> simp [upd, hk]
  | _ => rfl

/-- `φ` holds of every step occurring anywhere in the program -/
inductive Prog.All (φ : Step Sp → Prop) : Prog Sp → Prop
  | done (r : Res) : Prog.All φ (.done r)
  | look (f : World Sp → Prog Sp) : (∀ w, Prog.All φ (f w)) → Prog.All φ (.look f)
  | step (s : Step Sp) (k : Option Errno → Prog Sp) : φ s → (∀ o, Prog.All φ (k o)) → Prog.All φ (.step s k)

theorem exec_inv (C : Codec Sp) (ev : Nat → Option Ev) (φ : Step Sp → Prop) (R : World Sp → Prop)
    (hstep : ∀ s w w', φ s → R w → apply C w s = .ok w' → R w')
    (htorn : ∀ s w t, φ s → R w → R (tornApply C w s t))
    {p : Prog Sp} (hp : Prog.All φ p) : ∀ a w, R w → R (exec C ev p a w).w := by
  induction hp with
  | done r => intro a w h; simpa [exec] using h
  | look f _ ih => intro a w h; simp only [exec]; exact ih w a w h
  | step s k hs _ ih =>
    intro a w h
    simp only [exec]
    split
    · exact h
    · exact htorn s w _ hs h
    · exact ih _ _ _ h
    · split
      · rename_i w' hw'; exact ih _ _ _ (hstep s w w' hs h hw')
      · exact ih _ _ _ h

theorem Prog.All.mono {φ ψ : Step Sp → Prop} (h : ∀ s, φ s → ψ s) {p : Prog Sp} (hp : Prog.All φ p) :
    Prog.All ψ p := by
  induction hp with
  | done r => exact .done r
  | look f _ ih => exact .look f ih
  | step s k hs _ ih => exact .step s k (h s hs) ih

/-- frame rule: a program all of whose steps stay inside `ks` leaves every other directory alone,
    whatever happens -/
theorem exec_frame (C : Codec Sp) (ev : Nat → Option Ev) (ks : List Key) {p : Prog Sp}
    (hp : Prog.All (fun s => ∀ k ∈ s.keys, k ∈ ks) p) (w : World Sp) (a) {k : Key} (hk : k ∉ ks) :
    (exec C ev p a w).w k = w k := by
  refine exec_inv C ev _ (fun w' => w' k = w k) ?_ ?_ hp a w rfl
  · intro s w1 w2 hs h1 h2
    rw [apply_frame C h2 (fun hmem => hk (hs k hmem))]; exact h1
  · intro s w1 t hs h1
    rw [torn_frame C w1 s t (fun hmem => hk (hs k hmem))]; exact h1

end Signac.Life

/-
  Association-list lemmas for the workspace model.  Core only.
-/
import Signac.Workspace
namespace Signac.Ws

variable {β : Type}

theorem alookup_some_mem {k : String} {v : β} {l : List (String × β)}
    (h : alookup k l = some v) : (k, v) ∈ l := by
  induction l with
  | nil => simp [alookup] at h
  | cons hd tl ih =>
    obtain ⟨k', v'⟩ := hd
    simp only [alookup] at h
    split at h
    · simp_all
    · exact List.mem_cons_of_mem _ (ih h)

theorem alookup_none_not_mem {k : String} {l : List (String × β)}
    (h : alookup k l = none) : k ∉ l.map Prod.fst := by
  induction l with
  | nil => simp
  | cons hd tl ih =>
    obtain ⟨k', v'⟩ := hd
    simp only [alookup] at h
    split at h
    · simp at h
    · simp only [List.map_cons, List.mem_cons, not_or]
      exact ⟨by assumption, ih h⟩

theorem alookup_isSome_mem {k : String} {l : List (String × β)}
    (h : (alookup k l).isSome = true) : k ∈ l.map Prod.fst := by
  cases hl : alookup k l with
  | none => simp [hl] at h
  | some v => exact List.mem_map.mpr ⟨(k, v), alookup_some_mem hl, rfl⟩

theorem alookup_of_mem_nodup {k : String} {v : β} {l : List (String × β)}
    (hm : (k, v) ∈ l) (hn : (l.map Prod.fst).Nodup) : alookup k l = some v := by
  induction l with
  | nil => simp at hm
  | cons hd tl ih =>
    obtain ⟨k', v'⟩ := hd
    simp only [List.map_cons, List.nodup_cons] at hn
    simp only [alookup]
    rcases List.mem_cons.mp hm with h | h
    · simp_all
    · have : k ≠ k' := by
        intro e; subst e
        exact hn.1 (List.mem_map.mpr ⟨(k, v), h, rfl⟩)
      simp [this, ih h hn.2]

theorem mem_aerase {k : String} {x : String × β} {l : List (String × β)}
    (h : x ∈ aerase k l) : x ∈ l ∧ x.1 ≠ k := by
  induction l with
  | nil => simp [aerase] at h
  | cons hd tl ih =>
    obtain ⟨k', v'⟩ := hd
    simp only [aerase] at h
    split at h
    · have := ih h
      exact ⟨List.mem_cons_of_mem _ this.1, this.2⟩
    · rcases List.mem_cons.mp h with h | h
      · subst h
        exact ⟨List.mem_cons_self, fun e => by simp_all⟩
      · have := ih h
        exact ⟨List.mem_cons_of_mem _ this.1, this.2⟩

theorem mem_aerase_of_ne {k : String} {x : String × β} {l : List (String × β)}
    (hm : x ∈ l) (hne : x.1 ≠ k) : x ∈ aerase k l := by
  induction l with
  | nil => simp at hm
  | cons hd tl ih =>
    obtain ⟨k', v'⟩ := hd
    simp only [aerase]
    rcases List.mem_cons.mp hm with h | h
    · subst h
      have : ¬ k = k' := fun e => hne e.symm
      simp [this]
    · split
      · exact ih h
      · exact List.mem_cons_of_mem _ (ih h)

theorem aerase_keys_sublist (k : String) (l : List (String × β)) :
    ((aerase k l).map Prod.fst).Sublist (l.map Prod.fst) := by
  induction l with
  | nil => simp [aerase]
  | cons hd tl ih =>
    obtain ⟨k', v'⟩ := hd
    simp only [aerase]
    split
    · exact List.Sublist.cons _ ih
    · exact List.Sublist.cons_cons _ ih

theorem aerase_nodup {k : String} {l : List (String × β)} (h : (l.map Prod.fst).Nodup) :
    ((aerase k l).map Prod.fst).Nodup :=
  List.Nodup.sublist (aerase_keys_sublist k l) h

theorem aerase_key_not_mem (k : String) (l : List (String × β)) :
    k ∉ (aerase k l).map Prod.fst := by
  intro h
  obtain ⟨x, hx, hk⟩ := List.mem_map.mp h
  exact (mem_aerase hx).2 hk

theorem alookup_aerase_self (k : String) (l : List (String × β)) : alookup k (aerase k l) = none := by
  cases h : alookup k (aerase k l) with
  | none => rfl
  | some v =>
    exact absurd (List.mem_map.mpr ⟨(k, v), alookup_some_mem h, rfl⟩) (aerase_key_not_mem k l)

theorem alookup_aerase_ne {k k' : String} (hne : k' ≠ k) (l : List (String × β)) :
    alookup k' (aerase k l) = alookup k' l := by
  induction l with
  | nil => rfl
  | cons hd tl ih =>
    obtain ⟨k2, v2⟩ := hd
    simp only [aerase]
    split
    · rename_i e
      subst e
      simp [alookup, hne, ih]
    · simp only [alookup, ih]

theorem mem_aset {k : String} {v : β} {x : String × β} {l : List (String × β)}
    (h : x ∈ aset k v l) : x = (k, v) ∨ x ∈ l := by
  induction l with
  | nil => simp [aset] at h; exact Or.inl h
  | cons hd tl ih =>
    obtain ⟨k', v'⟩ := hd
    simp only [aset] at h
    split at h
    · rcases List.mem_cons.mp h with h | h
      · exact Or.inl h
      · exact Or.inr (List.mem_cons_of_mem _ h)
    · rcases List.mem_cons.mp h with h | h
      · exact Or.inr (h ▸ List.mem_cons_self)
      · rcases ih h with h | h
        · exact Or.inl h
        · exact Or.inr (List.mem_cons_of_mem _ h)

theorem aset_keys_of_mem {k : String} {v : β} {l : List (String × β)}
    (h : k ∈ l.map Prod.fst) : (aset k v l).map Prod.fst = l.map Prod.fst := by
  induction l with
  | nil => simp at h
  | cons hd tl ih =>
    obtain ⟨k', v'⟩ := hd
    simp only [aset]
    split
    · rename_i e; subst e; simp
    · rename_i hne
      simp only [List.map_cons, List.mem_cons] at h
      rcases h with h | h
      · exact absurd h hne
      · simp [ih h]

theorem aset_keys_of_not_mem {k : String} {v : β} {l : List (String × β)}
    (h : k ∉ l.map Prod.fst) : (aset k v l).map Prod.fst = l.map Prod.fst ++ [k] := by
  induction l with
  | nil => simp [aset]
  | cons hd tl ih =>
    obtain ⟨k', v'⟩ := hd
    simp only [List.map_cons, List.mem_cons, not_or] at h
    simp only [aset, if_neg h.1, List.map_cons, ih h.2, List.cons_append]

theorem alookup_aset_self (k : String) (v : β) (l : List (String × β)) :
    alookup k (aset k v l) = some v := by
  induction l with
  | nil => simp [aset, alookup]
  | cons hd tl ih =>
    obtain ⟨k', v'⟩ := hd
    simp only [aset]
    split
    · simp [alookup]
    · rename_i hne
      simp [alookup, hne, ih]

theorem alookup_aset_ne {k k' : String} (hne : k' ≠ k) (v : β) (l : List (String × β)) :
    alookup k' (aset k v l) = alookup k' l := by
  induction l with
  | nil => simp [aset, alookup, hne]
  | cons hd tl ih =>
    obtain ⟨k2, v2⟩ := hd
    simp only [aset]
    split
    · rename_i e; subst e; simp [alookup, hne]
    · simp only [alookup, ih]

theorem alookup_append_new {k k' : String} (v : β) (l : List (String × β)) :
    alookup k' (l ++ [(k, v)]) = match alookup k' l with
      | some x => some x
      | none => if k' = k then some v else none := by
  induction l with
  | nil => simp [alookup]
  | cons hd tl ih =>
    obtain ⟨k2, v2⟩ := hd
    simp only [List.cons_append, alookup]
    split
    · rfl
    · exact ih

end Signac.Ws

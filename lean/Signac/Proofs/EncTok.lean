/-
  Helper lemmas for C01 (injectivity of the hashed text), part 2:
  delimiter-free tokens (null / true / false / numbers) followed by a
  delimiter-headed rest; integer tokens.
-/
import Signac.Json
import Std.Data.String.ToInt
namespace Signac

/-- the characters that can follow a complete JSON value inside a document -/
def delims : List Char := [',', ']', '}']

/-- a continuation: nothing, or something that starts with a delimiter -/
def RestOk (r : List Char) : Prop := r = [] ∨ ∃ c cs, r = c :: cs ∧ c ∈ delims

theorem restOk_nil : RestOk [] := Or.inl rfl
theorem restOk_comma (r : List Char) : RestOk (',' :: r) := Or.inr ⟨_, _, rfl, by decide⟩
theorem restOk_brack (r : List Char) : RestOk (']' :: r) := Or.inr ⟨_, _, rfl, by decide⟩
theorem restOk_brace (r : List Char) : RestOk ('}' :: r) := Or.inr ⟨_, _, rfl, by decide⟩

theorem restOk_cons {c : Char} {cs : List Char} (h : RestOk (c :: cs)) : c ∈ delims := by
  rcases h with h | ⟨d, ds, h, hd⟩
  · cases h
  · cases h; exact hd

/-- (b) of the brief: two delimiter-free tokens, each followed by a continuation. -/
theorem token_append_inj : ∀ (xs ys r1 r2 : List Char),
    (∀ c ∈ xs, c ∉ delims) → (∀ c ∈ ys, c ∉ delims) → RestOk r1 → RestOk r2 →
    xs ++ r1 = ys ++ r2 → xs = ys ∧ r1 = r2
  | [], [], _, _, _, _, _, _, h => ⟨rfl, by simpa using h⟩
  | [], y :: ys, r1, r2, _, hy, h1, _, h => by
    simp only [List.nil_append, List.cons_append] at h
    subst h
    exact absurd (restOk_cons h1) (hy y List.mem_cons_self)
  | x :: xs, [], r1, r2, hx, _, _, h2, h => by
    simp only [List.nil_append, List.cons_append] at h
    subst h
    exact absurd (restOk_cons h2) (hx x List.mem_cons_self)
  | x :: xs, y :: ys, r1, r2, hx, hy, h1, h2, h => by
    simp only [List.cons_append, List.cons.injEq] at h
    obtain ⟨e, er⟩ := token_append_inj xs ys r1 r2
      (fun c hc => hx c (List.mem_cons_of_mem _ hc)) (fun c hc => hy c (List.mem_cons_of_mem _ hc))
      h1 h2 h.2
    exact ⟨by rw [h.1, e], er⟩

/-! ### integer tokens -/

def intTokChars : List Char := "0123456789-".toList

theorem isDigit_mem {c : Char} (h : c.isDigit = true) : c ∈ intTokChars := by
  have h' : 48 ≤ c.toNat ∧ c.toNat ≤ 57 := by
    simp only [Char.isDigit, Bool.and_eq_true, decide_eq_true_eq, UInt32.le_iff_toNat_le] at h
    exact h
  have : c = Char.ofNat c.toNat := (Char.ofNat_toNat c).symm
  have hc : c.toNat = 48 ∨ c.toNat = 49 ∨ c.toNat = 50 ∨ c.toNat = 51 ∨ c.toNat = 52 ∨
      c.toNat = 53 ∨ c.toNat = 54 ∨ c.toNat = 55 ∨ c.toNat = 56 ∨ c.toNat = 57 := by omega
  rcases hc with e | e | e | e | e | e | e | e | e | e <;> (rw [this, e]; decide)

theorem natRepr_mem (n : Nat) : ∀ c ∈ (Nat.repr n).toList, c ∈ intTokChars := by
  intro c hc
  rw [Nat.toList_repr] at hc
  exact isDigit_mem (Nat.isDigit_of_mem_toDigits (by decide) (by decide) hc)

theorem intChars_mem (i : Int) : ∀ c ∈ intChars i, c ∈ intTokChars := by
  intro c hc
  simp only [intChars, Int.toString_eq_repr, Int.repr_eq_if] at hc
  split at hc
  · exact natRepr_mem _ c hc
  · simp only [String.toList_append, List.mem_append] at hc
    rcases hc with hc | hc
    · have : c = '-' := by simpa using hc
      subst this; decide
    · exact natRepr_mem _ c hc

theorem intChars_ne_nil (i : Int) : intChars i ≠ [] := by
  simp only [intChars, Int.toString_eq_repr, Int.repr_eq_if]
  split
  · rw [Nat.toList_repr]; exact Nat.toDigits_ne_nil
  · simp

theorem intChars_inj {i j : Int} (h : intChars i = intChars j) : i = j := by
  simp only [intChars, Int.toString_eq_repr] at h
  exact Int.repr_injective (String.toList_injective h)

end Signac

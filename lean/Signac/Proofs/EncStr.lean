/-
  Helper lemmas for C01 (injectivity of the hashed text), part 1:
  the string escaper `escapeChars` is a prefix code, hence a JSON string
  literal followed by anything determines the string and the rest.  Core only.
-/
import Signac.Json
namespace Signac

/-! ### hex digits -/

theorem hexDigit_inj {a b : Nat} (ha : a < 16) (hb : b < 16) (h : hexDigit a = hexDigit b) :
    a = b := by
  have key : ∀ x y : Fin 16, hexDigit x.val = hexDigit y.val → x = y := by decide
  have := key ⟨a, ha⟩ ⟨b, hb⟩ h
  exact congrArg Fin.val this

theorem hex4_inj {n m : Nat} (hn : n < 65536) (hm : m < 65536) (h : hex4 n = hex4 m) : n = m := by
  simp only [hex4, List.cons.injEq, and_true] at h
  obtain ⟨h1, h2, h3, h4⟩ := h
  have e1 := hexDigit_inj (Nat.mod_lt _ (by omega)) (Nat.mod_lt _ (by omega)) h1
  have e2 := hexDigit_inj (Nat.mod_lt _ (by omega)) (Nat.mod_lt _ (by omega)) h2
  have e3 := hexDigit_inj (Nat.mod_lt _ (by omega)) (Nat.mod_lt _ (by omega)) h3
  have e4 := hexDigit_inj (Nat.mod_lt _ (by omega)) (Nat.mod_lt _ (by omega)) h4
  omega

/-- `\uXXXX` followed by anything determines XXXX. -/
theorem uEsc_append_inj {n m : Nat} (hn : n < 65536) (hm : m < 65536) {r1 r2 : List Char}
    (h : uEsc n ++ r1 = uEsc m ++ r2) : n = m ∧ r1 = r2 := by
  simp only [uEsc, hex4, List.cons_append, List.nil_append, List.cons.injEq, true_and] at h
  obtain ⟨h1, h2, h3, h4, hr⟩ := h
  refine ⟨hex4_inj hn hm ?_, hr⟩
  simp only [hex4, h1, h2, h3, h4]

/-! ### shape of one escaped character -/

/-- the character a two-character escape `\x` stands for -/
def unShort (x : Char) : Char :=
  if x = '"' then '"' else if x = '\\' then '\\' else if x = 'n' then '\n'
  else if x = 'r' then '\r' else if x = 't' then '\t' else if x = 'b' then Char.ofNat 8
  else Char.ofNat 12

/-- The four shapes `escapeChar c` can have. -/
inductive EscShape (c : Char) : List Char → Prop
  | short (x : Char) : x ≠ 'u' → c = unShort x → EscShape c ['\\', x]
  | plain : c ≠ '\\' → c ≠ '"' → EscShape c [c]
  | bmp : c.toNat < 65536 → EscShape c (uEsc c.toNat)
  | astral (hi lo : Nat) : 55296 ≤ hi → hi < 56320 → 56320 ≤ lo → lo < 57344 →
      c.toNat = 65536 + (hi - 55296) * 1024 + (lo - 56320) →
      EscShape c (uEsc hi ++ uEsc lo)

theorem char_eq_of_toNat {c : Char} {n : Nat} (h : c.toNat = n) : c = Char.ofNat n := by
  rw [← h, Char.ofNat_toNat]

theorem escapeChar_shape (c : Char) : EscShape c (escapeChar c) := by
  simp only [escapeChar]
  split
  · exact .short '"' (by decide) (by simp_all [unShort])
  split
  · exact .short '\\' (by decide) (by simp_all [unShort])
  split
  · exact .short 'n' (by decide) (by simp_all [unShort])
  split
  · exact .short 'r' (by decide) (by simp_all [unShort])
  split
  · exact .short 't' (by decide) (by simp_all [unShort])
  split
  · next h => exact .short 'b' (by decide) (by rw [char_eq_of_toNat h]; decide)
  split
  · next h => exact .short 'f' (by decide) (by rw [char_eq_of_toNat h]; decide)
  split
  · next h1 h2 _ _ _ _ _ _ => exact .plain h2 h1
  split
  · next h => exact .bmp h
  · next hge =>
    have hv : c.toNat < 1114112 := by
      have := c.valid
      simp only [Char.toNat, UInt32.isValidChar, Nat.isValidChar] at this ⊢
      omega
    refine .astral _ _ (by omega) (by have := Nat.mod_lt ((c.toNat - 65536) / 1024) (by omega : 0 < 1024); omega)
      (by omega) (by have := Nat.mod_lt (c.toNat - 65536) (by omega : 0 < 1024); omega) ?_
    omega

theorem char_not_surrogate (c : Char) : c.toNat < 55296 ∨ 57343 < c.toNat := by
  have := c.valid
  simp only [Char.toNat, UInt32.isValidChar, Nat.isValidChar] at this ⊢
  omega

theorem char_toNat_inj {c d : Char} (h : c.toNat = d.toNat) : c = d := by
  rw [← Char.ofNat_toNat c, ← Char.ofNat_toNat d, h]

/-- `escapeChar` is a prefix code: an escaped character followed by anything
    determines the character (and therefore the rest). -/
theorem escapeChar_append_inj {c d : Char} {r1 r2 : List Char}
    (h : escapeChar c ++ r1 = escapeChar d ++ r2) : c = d := by
  have sc := escapeChar_shape c
  have sd := escapeChar_shape d
  generalize escapeChar c = ec at h sc
  generalize escapeChar d = ed at h sd
  cases sc with
  | short x hx hcx =>
    cases sd with
    | short y hy hdy =>
      simp only [List.cons_append, List.nil_append, List.cons.injEq, true_and] at h
      rw [hcx, hdy, h.1]
    | plain h1 h2 =>
      simp only [List.cons_append, List.nil_append, List.cons.injEq] at h
      exact absurd h.1.symm h1
    | bmp hlt =>
      simp only [uEsc, List.cons_append, List.nil_append, List.cons.injEq, true_and] at h
      exact absurd h.1 hx
    | astral hi lo _ _ _ _ _ =>
      simp only [uEsc, List.cons_append, List.nil_append, List.cons.injEq, true_and] at h
      exact absurd h.1 hx
  | plain h1 h2 =>
    cases sd with
    | short y hy hdy =>
      simp only [List.cons_append, List.nil_append, List.cons.injEq] at h
      exact absurd h.1 h1
    | plain _ _ =>
      simp only [List.cons_append, List.nil_append, List.cons.injEq] at h
      exact h.1
    | bmp hlt =>
      simp only [uEsc, List.cons_append, List.nil_append, List.cons.injEq] at h
      exact absurd h.1 h1
    | astral hi lo _ _ _ _ _ =>
      simp only [uEsc, List.cons_append, List.nil_append, List.cons.injEq] at h
      exact absurd h.1 h1
  | bmp hlt =>
    cases sd with
    | short y hy hdy =>
      simp only [uEsc, List.cons_append, List.nil_append, List.cons.injEq, true_and] at h
      exact absurd h.1.symm hy
    | plain h1 h2 =>
      simp only [uEsc, List.cons_append, List.nil_append, List.cons.injEq] at h
      exact absurd h.1.symm h1
    | bmp hlt' =>
      exact char_toNat_inj (uEsc_append_inj hlt hlt' h).1
    | astral hi lo h1 h2 h3 h4 h5 =>
      rw [List.append_assoc] at h
      have := (uEsc_append_inj hlt (by omega) h).1
      have := char_not_surrogate c
      omega
  | astral hi lo h1 h2 h3 h4 h5 =>
    cases sd with
    | short y hy hdy =>
      simp only [uEsc, List.cons_append, List.nil_append, List.cons.injEq, true_and] at h
      exact absurd h.1.symm hy
    | plain g1 g2 =>
      simp only [uEsc, List.cons_append, List.nil_append, List.cons.injEq] at h
      exact absurd h.1.symm g1
    | bmp hlt' =>
      rw [List.append_assoc] at h
      have := (uEsc_append_inj (by omega) hlt' h).1
      have := char_not_surrogate d
      omega
    | astral hi' lo' g1 g2 g3 g4 g5 =>
      rw [List.append_assoc, List.append_assoc] at h
      obtain ⟨e1, h'⟩ := uEsc_append_inj (by omega) (by omega) h
      obtain ⟨e2, _⟩ := uEsc_append_inj (by omega) (by omega) h'
      apply char_toNat_inj
      omega

/-- An escaped character never starts with an (unescaped) quote. -/
theorem escapeChar_head_ne_quote (c : Char) (r1 r2 : List Char) :
    escapeChar c ++ r1 ≠ '"' :: r2 := by
  intro h
  have sc := escapeChar_shape c
  generalize escapeChar c = ec at h sc
  cases sc with
  | short x _ _ => simp at h
  | plain _ h2 => simp only [List.cons_append, List.cons.injEq] at h; exact h2 h.1
  | bmp _ => simp [uEsc] at h
  | astral _ _ _ _ _ _ _ => simp [uEsc] at h

/-- (c) of the brief: the body of a string literal up to and including the closing
    quote, followed by anything, determines the string and the rest. -/
theorem escapeChars_quote_inj : ∀ (s t : List Char) (r1 r2 : List Char),
    escapeChars s ++ '"' :: r1 = escapeChars t ++ '"' :: r2 → s = t ∧ r1 = r2
  | [], [], r1, r2, h => by
    simp only [escapeChars, List.nil_append, List.cons.injEq, true_and] at h
    exact ⟨rfl, h⟩
  | [], d :: ds, r1, r2, h => by
    simp only [escapeChars, List.nil_append, List.append_assoc] at h
    exact absurd h.symm (escapeChar_head_ne_quote d _ _)
  | c :: cs, [], r1, r2, h => by
    simp only [escapeChars, List.nil_append, List.append_assoc] at h
    exact absurd h (escapeChar_head_ne_quote c _ _)
  | c :: cs, d :: ds, r1, r2, h => by
    simp only [escapeChars, List.append_assoc] at h
    have hcd := escapeChar_append_inj h
    subst hcd
    have h' := List.append_cancel_left h
    obtain ⟨e, er⟩ := escapeChars_quote_inj cs ds r1 r2 h'
    exact ⟨by rw [e], er⟩

/-- A string literal followed by anything determines the string and the rest. -/
theorem encStrChars_append_inj {s t : String} {r1 r2 : List Char}
    (h : encStrChars s ++ r1 = encStrChars t ++ r2) : s = t ∧ r1 = r2 := by
  simp only [encStrChars, List.cons_append, List.append_assoc, List.nil_append,
    List.cons.injEq, true_and] at h
  obtain ⟨e, er⟩ := escapeChars_quote_inj _ _ _ _ h
  exact ⟨String.toList_injective e, er⟩

end Signac

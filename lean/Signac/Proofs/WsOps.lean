/-
  What the individual operations of the workspace model do: re-key moves the payload,
  never clobbers, handles of the group follow; frame lemmas.  Core only.
-/
import Signac.Proofs.WsInv
namespace Signac.Ws
open Signac

section
variable {hash : JVal → String}

theorem followers_spec (g : Nat) (newSp : JVal) (hs : List (String × Handle)) :
    ∀ n hd, (n, hd) ∈ followers g newSp hs →
      ∃ hd0, (n, hd0) ∈ hs ∧ hd.proj = hd0.proj ∧ hd.grp = hd0.grp ∧
        (if hd0.grp = g then hd.sp = newSp else hd.sp = hd0.sp) := by
  induction hs with
  | nil => intro n hd h; simp [followers] at h
  | cons x xs ih =>
    obtain ⟨n0, h0⟩ := x
    intro n hd h
    simp only [followers, List.mem_cons] at h
    rcases h with h | h
    · simp only [Prod.mk.injEq] at h
      obtain ⟨rfl, rfl⟩ := h
      refine ⟨h0, List.mem_cons_self, ?_⟩
      by_cases hg : h0.grp = g <;> simp [hg]
    · obtain ⟨hd0, hm, hrest⟩ := ih n hd h
      exact ⟨hd0, List.mem_cons_of_mem _ hm, hrest⟩

/-- Destination already initialised: DestinationExistsError and nothing changes at all. -/
theorem rekey_dest_exists (w : World) (hd : Handle) (newSp : JVal) {jd : JobData}
    (hne : hash hd.sp ≠ hash newSp)
    (hsrc : alookup (hash hd.sp) (w.jobs hd.proj) = some jd)
    (hdst : (alookup (hash newSp) (w.jobs hd.proj)).isSome = true) :
    rekey hash w hd newSp = (w, .destExists) := by
  simp only [rekey, if_neg hne, hsrc, hdst, if_true]

/-- Same id (the edit does not change the JSON value): nothing happens. -/
theorem rekey_same_id (w : World) (hd : Handle) (newSp : JVal) (he : hash hd.sp = hash newSp) :
    rekey hash w hd newSp = (w, .ok) := by
  simp only [rekey, if_pos he]

/-- The job re-appears under the new id with document and files unchanged, the old id
    disappears, every other job of the project is untouched. -/
theorem jobs_withHandles (w : World) (hs : List (String × Handle)) (p : Nat) :
    (w.withHandles hs).jobs p = w.jobs p := rfl

theorem rekey_ok_world (w : World) (hd : Handle) (newSp : JVal) {jd : JobData}
    (hne : hash hd.sp ≠ hash newSp)
    (hsrc : alookup (hash hd.sp) (w.jobs hd.proj) = some jd)
    (hdst : alookup (hash newSp) (w.jobs hd.proj) = none) :
    rekey hash w hd newSp =
      ((w.setJobs hd.proj (aerase (hash hd.sp) (w.jobs hd.proj) ++ [(hash newSp, { jd with sp := newSp })])).withHandles
        (followers hd.grp newSp w.handles), .ok) := by
  simp [rekey, hne, hsrc, hdst]

theorem rekey_moves_payload (w : World) (hd : Handle) (newSp : JVal) {jd : JobData}
    (hne : hash hd.sp ≠ hash newSp)
    (hsrc : alookup (hash hd.sp) (w.jobs hd.proj) = some jd)
    (hdst : alookup (hash newSp) (w.jobs hd.proj) = none) :
    (rekey hash w hd newSp).2 = .ok ∧
    alookup (hash newSp) ((rekey hash w hd newSp).1.jobs hd.proj) = some { jd with sp := newSp } ∧
    alookup (hash hd.sp) ((rekey hash w hd newSp).1.jobs hd.proj) = none ∧
    (∀ i, i ≠ hash hd.sp → i ≠ hash newSp →
      alookup i ((rekey hash w hd newSp).1.jobs hd.proj) = alookup i (w.jobs hd.proj)) := by
  rw [rekey_ok_world w hd newSp hne hsrc hdst]
  simp only [jobs_withHandles, jobs_setJobs_same]
  refine ⟨trivial, ?_, ?_, ?_⟩
  · rw [alookup_append_new, alookup_aerase_ne (fun e => hne e.symm), hdst]
    simp
  · rw [alookup_append_new, alookup_aerase_self]
    simp [hne]
  · intro i h1 h2
    rw [alookup_append_new, alookup_aerase_ne h1]
    cases alookup i (w.jobs hd.proj) <;> simp [h2]

/-- The other project is not touched by a re-key. -/
theorem rekey_other_project (w : World) (hd : Handle) (newSp : JVal) (q : Nat)
    (hq : (hd.proj = 0) ≠ (q = 0)) :
    (rekey hash w hd newSp).1.jobs q = w.jobs q := by
  simp only [rekey]
  split
  · rfl
  · split
    · split
      · rfl
      · rw [jobs_withHandles]
        exact jobs_setJobs_other w _ hq
    · rfl

/-- After a successful re-key every handle of the group carries the new state point
    (hence the new id), handles of other groups are unchanged. -/
theorem rekey_handles_follow (w : World) (hd : Handle) (newSp : JVal)
    (hne : hash hd.sp ≠ hash newSp) (hok : (rekey hash w hd newSp).2 = .ok) :
    ∀ n h', (n, h') ∈ (rekey hash w hd newSp).1.handles →
      ∃ h0, (n, h0) ∈ w.handles ∧ h'.proj = h0.proj ∧ h'.grp = h0.grp ∧
        (if h0.grp = hd.grp then h'.sp = newSp else h'.sp = h0.sp) := by
  simp only [rekey, if_neg hne] at hok ⊢
  split at hok
  · split at hok
    · simp at hok
    · rename_i jd hl hnone
      simp only [hl, hnone, if_false]
      exact followers_spec hd.grp newSp w.handles
  · rename_i hl
    simp only [hl]
    exact followers_spec hd.grp newSp w.handles

/-- A re-key that fails leaves the handles as they were, too. -/
theorem rekey_fail_identity (w : World) (hd : Handle) (newSp : JVal)
    (hfail : (rekey hash w hd newSp).2 ≠ .ok) : (rekey hash w hd newSp).1 = w := by
  simp only [rekey] at hfail ⊢
  split
  · rfl
  · split
    · split
      · rfl
      · rename_i hne _ jd hl hnone
        simp [if_neg hne, hl, hnone] at hfail
    · rename_i hne _ hl
      simp [if_neg hne, hl] at hfail

/-- Operations that only create, copy or drop handles, touch the cache or plant a foreign
    directory never change any job. -/
def Op.isHandleOrCacheOp : Op → Bool
  | .openSp .. => true
  | .openId .. => true
  | .ucache _ => true
  | .rmcache _ => true
  | .session _ => true
  | .copy .. => true
  | .deepcopy .. => true
  | .pickle .. => true
  | .drop _ => true
  | .plant .. => true
  | _ => false

theorem handle_ops_keep_jobs (w : World) (op : Op) (h : op.isHandleOrCacheOp = true) :
    (step hash w op).1.p0 = w.p0 ∧ (step hash w op).1.p1 = w.p1 := by
  cases op <;> simp only [Op.isHandleOrCacheOp] at h <;> try (exact absurd h (by decide))
  case openSp => exact ⟨rfl, rfl⟩
  case openId hn p pre cached =>
    simp only [step]
    split
    · split <;> exact ⟨rfl, rfl⟩
    · exact ⟨rfl, rfl⟩
    · split
      · split <;> exact ⟨rfl, rfl⟩
      · exact ⟨rfl, rfl⟩
  case ucache => exact ⟨rfl, rfl⟩
  case rmcache => exact ⟨rfl, rfl⟩
  case session => exact ⟨rfl, rfl⟩
  case copy => simp only [step]; split <;> exact ⟨rfl, rfl⟩
  case deepcopy => simp only [step]; split <;> exact ⟨rfl, rfl⟩
  case pickle =>
    simp only [step]; split
    · split <;> exact ⟨rfl, rfl⟩
    · exact ⟨rfl, rfl⟩
  case drop => exact ⟨rfl, rfl⟩
  case plant => simp only [step]; split <;> exact ⟨rfl, rfl⟩

/-- `update_statepoint(..., overwrite=False)` with a key that already has another value:
    KeyError and no effect whatsoever. -/
theorem update_conflict_no_effect (w : World) (hn : String) (hd : Handle) (upd : List (String × JVal))
    (hh : alookup hn w.handles = some hd) (hc : updConflict (spEntries hd.sp) upd = true) :
    step hash w (.update hn upd false) = (w, .keyError) := by
  simp only [step, hh, hc, Bool.not_false, Bool.and_self, if_true]

/-- `move` to another project: same id there, gone here, payload identical. -/
theorem move_keeps_id (w : World) (hn : String) (hd : Handle) (p : Nat) {jd : JobData}
    (hh : alookup hn w.handles = some hd) (hpq : (hd.proj = 0) ≠ (p = 0))
    (hsrc : alookup (hash hd.sp) (w.jobs hd.proj) = some jd)
    (hdst : alookup (hash hd.sp) (w.jobs p) = none) :
    (step hash w (.move hn p)).2 = .ok ∧
    alookup (hash hd.sp) ((step hash w (.move hn p)).1.jobs p) = some jd ∧
    alookup (hash hd.sp) ((step hash w (.move hn p)).1.jobs hd.proj) = none := by
  have hne : hd.proj ≠ p := by
    intro e; apply hpq; rw [e]
  have hd' : ¬ (alookup (hash hd.sp) (w.jobs p)).isSome = true := by simp [hdst]
  simp only [step, hh, hsrc, if_neg hne, hd', if_false]
  have e1 := jobs_setJobs_other w (p := hd.proj) (q := p) (aerase (hash hd.sp) (w.jobs hd.proj)) hpq
  have e2 := jobs_setJobs_same w hd.proj (aerase (hash hd.sp) (w.jobs hd.proj))
  refine ⟨rfl, ?_, ?_⟩
  · show alookup (hash hd.sp) (World.jobs (World.setJobs _ p _) p) = some jd
    rw [jobs_setJobs_same, e1, alookup_append_new, hdst]; simp
  · show alookup (hash hd.sp) (World.jobs (World.setJobs _ p _) hd.proj) = none
    rw [jobs_setJobs_other _ _ (fun e => hpq e.symm), e2, alookup_aerase_self]

/-- `clone` into another project: an identical copy there, the source project unchanged. -/
theorem clone_independent (w : World) (hn h2 : String) (hd : Handle) (p : Nat) {jd : JobData}
    (hh : alookup hn w.handles = some hd) (hpq : (hd.proj = 0) ≠ (p = 0))
    (hsrc : alookup (hash hd.sp) (w.jobs hd.proj) = some jd)
    (hdst : alookup (hash hd.sp) (w.jobs p) = none) :
    (step hash w (.clone hn p h2)).2 = .ok ∧
    alookup (hash hd.sp) ((step hash w (.clone hn p h2)).1.jobs p) = some jd ∧
    (step hash w (.clone hn p h2)).1.jobs hd.proj = w.jobs hd.proj := by
  have hd' : ¬ (alookup (hash hd.sp) (w.jobs p)).isSome = true := by simp [hdst]
  simp only [step, hh, hsrc, hd', if_false]
  refine ⟨rfl, ?_, ?_⟩
  · show alookup (hash hd.sp) (World.jobs (World.setJobs _ p _) p) = some jd
    rw [jobs_setJobs_same]
    show alookup (hash hd.sp) (w.jobs p ++ [(hash hd.sp, jd)]) = some jd
    rw [alookup_append_new, hdst]; simp
  · show World.jobs (World.setJobs _ p _) hd.proj = w.jobs hd.proj
    rw [jobs_setJobs_other _ _ (fun e => hpq e.symm)]
    rfl

theorem clone_dest_exists (w : World) (hn h2 : String) (hd : Handle) (p : Nat) {jd : JobData}
    (hh : alookup hn w.handles = some hd)
    (hsrc : alookup (hash hd.sp) (w.jobs hd.proj) = some jd)
    (hdst : (alookup (hash hd.sp) (w.jobs p)).isSome = true) :
    (step hash w (.clone hn p h2)).2 = .destExists ∧
    (step hash w (.clone hn p h2)).1.p0 = w.p0 ∧ (step hash w (.clone hn p h2)).1.p1 = w.p1 := by
  simp [step, hh, hsrc, hdst]

end
end Signac.Ws

/-
  Refinement layer: the EVENT-FREE run of the file-system step program of a lifecycle operation
  (`Signac.Lifecycle`, property C11) has exactly the abstract effect the sentences of property
  C04 describe (IronFleet-style: concrete steps ⟶ abstract operation through an abstraction
  function).

    `Clean C w`   every directory of the world is settled (state-point file `ok v` with
                  `hash v` = directory name, no backup, no strays, payload paths distinct and
                  non-empty): the state between operations of a healthy workspace.
    `absW w`      abstraction: (project, id) ↦ (state point, payload as a path ↦ content map).
    `Op.spec`     the abstract operation on that state.
    `*_refines`   Clean + natural precondition ⟹ the event-free run returns the spec's result,
                  ends in a Clean world, and `absW final = spec (absW w)`.
    `ops_refine`  simulation for every finite list of operations.

  Trusted reading: this is model-to-model.  Both models are tied to the Python code separately
  (differential tests of the drivers `drv_life`, `drv_ws`); this file adds no link to the code.
-/
import Signac.Proofs.LifeS11
namespace Signac.Life
variable {Sp : Type}

/- ================================================================ event-free evaluation -/
/-- what a program does when nothing goes wrong from outside: every step is performed, a step
    that fails by itself hands its errno to the program's error handling -/
def ev0 (C : Codec Sp) : Prog Sp → World Sp → World Sp × Res
  | .done r, w => (w, r)
  | .look f, w => ev0 C (f w) w
  | .step s k, w =>
    match apply C w s with
    | .ok w' => ev0 C (k none) w'
    | .error e => ev0 C (k (some e)) w

theorem exec_noEv (C : Codec Sp) (p : Prog Sp) :
    ∀ (a : Acc Sp) (w : World Sp), ((exec C noEv p a w).w, (exec C noEv p a w).res) = ev0 C p w := by
  induction p with
  | done r => intro a w; simp [exec, ev0]
  | look f ih => intro a w; simp only [exec, ev0]; exact ih w a w
  | step s k ih =>
    intro a w
    simp only [exec, ev0, noEv]
    cases apply C w s <;> simp [ih]

theorem run_noEv_w (C : Codec Sp) (p : Prog Sp) (w : World Sp) : (run C noEv p w).w = (ev0 C p w).1 := by
  rw [← exec_noEv C p {} w]; rfl

theorem run_noEv_res (C : Codec Sp) (p : Prog Sp) (w : World Sp) : (run C noEv p w).res = (ev0 C p w).2 := by
  rw [← exec_noEv C p {} w]; rfl

theorem ev0_step_ok (C : Codec Sp) {s : Step Sp} {w w' : World Sp} (k : Option Errno → Prog Sp)
    (h : apply C w s = .ok w') : ev0 C (.step s k) w = ev0 C (k none) w' := by
  simp only [ev0, h]

theorem ev0_step_err (C : Codec Sp) {s : Step Sp} {w : World Sp} {e : Errno} (k : Option Errno → Prog Sp)
    (h : apply C w s = .error e) : ev0 C (.step s k) w = ev0 C (k (some e)) w := by
  simp only [ev0, h]

@[simp] theorem upd_upd_same (w : World Sp) (k : Key) (a b : Option (JobDir Sp)) :
    upd (upd w k a) k b = upd w k b := by
  funext k'; simp only [upd]; split <;> rfl

theorem upd_self (w : World Sp) (k : Key) (v : Option (JobDir Sp)) (h : w k = v) : upd w k v = w := by
  funext k'; simp only [upd]; split
  · subst_vars; rfl
  · rfl

/- ================================================================ clean worlds, abstraction -/
/-- a settled job directory named `name`: complete state-point file hashing to the name, no
    backup, no stray temp files; the payload is a well-formed listing (paths distinct, none empty) -/
structure Settled (C : Codec Sp) (name : String) (d : JobDir Sp) : Prop where
  sp : ∃ v, d.sp = some (.ok v) ∧ C.hash v = name
  bak : d.bak = none
  strays : d.strays = []
  nodup : (d.entries.map Prod.fst).Nodup
  nonempty : "" ∉ d.entries.map Prod.fst

/-- the state between operations of a healthy workspace -/
def Clean (C : Codec Sp) (w : World Sp) : Prop := ∀ k d, w k = some d → Settled C k.2 d

/-- a payload: path ↦ file bytes (`some (some b)`) | directory (`some none`) | absent -/
abbrev Payload := String → Option (Option String)

/-- abstract workspace state: (project, id) ↦ (state point, payload) -/
abbrev AbsW (Sp : Type) := Key → Option (Sp × Payload)

def absDir (d : JobDir Sp) : Option (Sp × Payload) :=
  match d.sp with
  | some (.ok v) => some (v, fun p => getEntry p d.entries)
  | _ => none

/-- the abstraction function (directories without a complete state-point file are not jobs) -/
def absW (w : World Sp) : AbsW Sp := fun k => (w k).bind absDir

def aupd (A : AbsW Sp) (k : Key) (v : Option (Sp × Payload)) : AbsW Sp :=
  fun k' => if k' = k then v else A k'

def noPayload : Payload := fun _ => none
/-- the payload after `clear`: only the (empty) job document `{}` -/
def emptyDoc : Payload := fun p => if p = docName then some (some "{}") else none

theorem absW_upd (w : World Sp) (k : Key) (v : Option (JobDir Sp)) :
    absW (upd w k v) = aupd (absW w) k (v.bind absDir) := by
  funext k'; simp only [absW, upd, aupd]; split <;> rfl

theorem clean_upd_some (C : Codec Sp) {w : World Sp} (hc : Clean C w) (k : Key) (d : JobDir Sp)
    (hd : Settled C k.2 d) : Clean C (upd w k (some d)) := by
  intro k' d' h
  simp only [upd] at h
  split at h
  · subst_vars; cases h; exact hd
  · exact hc k' d' h

theorem clean_upd_none (C : Codec Sp) {w : World Sp} (hc : Clean C w) (k : Key) : Clean C (upd w k none) := by
  intro k' d' h
  simp only [upd] at h
  split at h
  · cases h
  · exact hc k' d' h

theorem absDir_settled (C : Codec Sp) {name : String} {d : JobDir Sp} (h : Settled C name d) :
    ∃ v, d.sp = some (.ok v) ∧ C.hash v = name ∧ absDir d = some (v, fun p => getEntry p d.entries) := by
  obtain ⟨v, hv, hh⟩ := h.sp
  exact ⟨v, hv, hh, by simp [absDir, hv]⟩

theorem settled_not_empty (C : Codec Sp) {name : String} {d : JobDir Sp} (h : Settled C name d) :
    d.isEmpty = false := by
  obtain ⟨v, hv, _⟩ := h.sp
  simp [JobDir.isEmpty, hv]

theorem settled_valid (C : Codec Sp) {name : String} {d : JobDir Sp} (h : Settled C name d) :
    d.valid C name = true := by
  obtain ⟨v, hv, hh⟩ := h.sp
  simp [JobDir.valid, hv, Content.validFor, hh]

/- ================================================================ abstract operations (C04) -/
def destExists : Res := .exc "DestinationExistsError"

/-- init of the job with state point `v` in directory `k = (p, hash v)`:
    absent ⟹ it becomes `(v, no payload)`; otherwise nothing changes -/
def specInit (k : Key) (v : Sp) (A : AbsW Sp) : AbsW Sp × Res :=
  match A k with
  | none => (aupd A k (some (v, noPayload)), .ok)
  | some _ => (A, .ok)

/-- re-key `x → y` with the new state point `v` (`y = (p, hash v)`): `y` gets `x`'s payload with
    state point `v` and `x` disappears; `y` present: DestinationExistsError, nothing changes;
    `x` absent: nothing to move -/
def specRekey (x y : Key) (v : Sp) (A : AbsW Sp) : AbsW Sp × Res :=
  match A x with
  | none => (A, .ok)
  | some (_, P) =>
    match A y with
    | none => (aupd (aupd A y (some (v, P))) x none, .ok)
    | some _ => (A, destExists)

/-- move `a → b` (same id, other project): the same with the state point kept -/
def specMove (a b : Key) (A : AbsW Sp) : AbsW Sp × Res :=
  match A a with
  | none => (A, .exc "RuntimeError")
  | some j =>
    match A b with
    | none => (aupd (aupd A b (some j)) a none, .ok)
    | some _ => (A, destExists)

/-- clone `src → dst`: `dst` gets a copy of state point and payload, `src` unchanged -/
def specClone (src dst : Key) (A : AbsW Sp) : AbsW Sp × Res :=
  match A src with
  | none => (A, .exc "ValueError")
  | some j =>
    match A dst with
    | none => (aupd A dst (some j), .ok)
    | some _ => (A, destExists)

/-- remove: the job disappears -/
def specRemove (k : Key) (A : AbsW Sp) : AbsW Sp × Res := (aupd A k none, .ok)

/-- clear: document and files go (an empty document `{}` is written), the state point stays -/
def specClear (k : Key) (A : AbsW Sp) : AbsW Sp × Res :=
  match A k with
  | none => (A, .ok)
  | some (v, _) => (aupd A k (some (v, emptyDoc)), .ok)

def Op.spec : Op Sp → AbsW Sp → AbsW Sp × Res
  | .init k v _ => specInit k v
  | .rekey x y v => specRekey x y v
  | .move a b => specMove a b
  | .clone s d _ => specClone s d
  | .remove k _ => specRemove k
  | .clear k _ => specClear k

/-- `order` enumerates the items of a settled directory with payload `P` as `scandir` would:
    each item once — the state-point file, a `file` per file path, a `dir` per directory path -/
def Scans (P : Payload) (order : List Ref) : Prop :=
  order.Nodup ∧ ∀ r, r ∈ order ↔
    (r = .sp ∨ (∃ p b, r = .file p ∧ P p = some (some b)) ∨ (∃ p, r = .dir p ∧ P p = some none))

/-- what a refinement statement says about the event-free run of `p` from `w` -/
def Refines (C : Codec Sp) (p : Prog Sp) (w : World Sp) (sp : AbsW Sp → AbsW Sp × Res) : Prop :=
  (run C noEv p w).res = (sp (absW w)).2 ∧ Clean C (run C noEv p w).w ∧
    absW (run C noEv p w).w = (sp (absW w)).1

theorem refines_of_ev0 (C : Codec Sp) (p : Prog Sp) (w : World Sp) (sp : AbsW Sp → AbsW Sp × Res)
    (w' : World Sp) (r : Res) (h : ev0 C p w = (w', r)) (hr : r = (sp (absW w)).2) (hc : Clean C w')
    (ha : absW w' = (sp (absW w)).1) : Refines C p w sp := by
  refine ⟨?_, ?_, ?_⟩
  · rw [run_noEv_res, h]; exact hr
  · rw [run_noEv_w, h]; exact hc
  · rw [run_noEv_w, h]; exact ha

/- ================================================================ init -/
theorem init_ev0_absent (C : Codec Sp) (k : Key) (v : Sp) (f : Bool) (w : World Sp) (hk : w k = none)
    (hv : C.hash v = k.2) :
    ev0 C (initProg C k v f) w = (upd w k (some { sp := some (.ok v) }), .ok) := by
  simp [initProg, saveProg, loadProg, ev0, apply, validAt, hasSpFile, hk, setStray, getStray, eraseStray,
    JobDir.valid, Content.validFor, hv]

theorem init_ev0_present (C : Codec Sp) (k : Key) (v : Sp) (f : Bool) (w : World Sp) (d : JobDir Sp)
    (hk : w k = some d) (hd : Settled C k.2 d) : ev0 C (initProg C k v f) w = (w, .ok) := by
  simp [initProg, ev0, validAt, hk, settled_valid C hd]

theorem eq_empty_of_isEmpty {d : JobDir Sp} (h : d.isEmpty = true) : d = {} := by
  obtain ⟨sp, bak, strays, entries⟩ := d
  simp only [JobDir.isEmpty, Bool.and_eq_true, Option.isNone_iff_eq_none, List.isEmpty_iff] at h
  obtain ⟨⟨⟨rfl, rfl⟩, rfl⟩, rfl⟩ := h
  rfl

theorem init_ev0_empty (C : Codec Sp) (k : Key) (v : Sp) (f : Bool) (w : World Sp)
    (hk : w k = some {}) (hv : C.hash v = k.2) :
    ev0 C (initProg C k v f) w = (upd w k (some { sp := some (.ok v) }), .ok) := by
  simp [initProg, saveProg, loadProg, ev0, apply, validAt, hasSpFile, hk, setStray, getStray, eraseStray,
    JobDir.valid, Content.validFor, hv]

/-- clean, except that directory `y` may exist and be empty (an `os.replace` / `init` target) -/
def CleanBut (C : Codec Sp) (w : World Sp) (y : Key) : Prop :=
  ∀ k d, w k = some d → Settled C k.2 d ∨ (k = y ∧ d = {})

theorem Clean.but {C : Codec Sp} {w : World Sp} (h : Clean C w) (y : Key) : CleanBut C w y :=
  fun k d hd => Or.inl (h k d hd)

theorem settled_fresh (C : Codec Sp) (name : String) (v : Sp) (hv : C.hash v = name) :
    Settled C name ({ sp := some (.ok v) } : JobDir Sp) :=
  ⟨⟨v, rfl, hv⟩, rfl, rfl, by simp, by simp⟩

theorem absW_empty (w : World Sp) (k : Key) (h : w k = some {}) : absW w k = none := by
  simp [absW, h, absDir]

theorem cleanBut_upd_some (C : Codec Sp) {w : World Sp} {y : Key} (hc : CleanBut C w y) (d : JobDir Sp)
    (hd : Settled C y.2 d) : Clean C (upd w y (some d)) := by
  intro k' d' h
  simp only [upd] at h
  split at h
  · subst_vars; cases h; exact hd
  · rcases hc k' d' h with h1 | ⟨h1, _⟩
    · exact h1
    · contradiction

theorem cleanBut_clean (C : Codec Sp) {w : World Sp} {y : Key} (hc : CleanBut C w y) (d : JobDir Sp)
    (hy : w y = some d) (hd : Settled C y.2 d) : Clean C w := by
  intro k' d' h
  rcases hc k' d' h with h1 | ⟨rfl, _⟩
  · exact h1
  · rw [hy] at h; cases h; exact hd

/-- `Job.init()`: an absent job (no directory, or an empty directory) is created with its state
    point and no payload; an existing one is left alone.  `force` plays no role. -/
theorem init_refines (C : Codec Sp) (k : Key) (v : Sp) (f : Bool) (w : World Sp)
    (hc : CleanBut C w k) (hv : C.hash v = k.2) : Refines C (initProg C k v f) w (specInit k v) := by
  cases hk : w k with
  | none =>
    refine refines_of_ev0 C _ w _ _ _ (init_ev0_absent C k v f w hk hv) ?_ ?_ ?_
    · simp [specInit, absW, hk]
    · exact cleanBut_upd_some C hc _ (settled_fresh C _ v hv)
    · simp [specInit, absW_upd, absW, hk, absDir, getEntry]; rfl
  | some d =>
    rcases hc k d hk with hd | ⟨_, rfl⟩
    · obtain ⟨v0, _, _, ha⟩ := absDir_settled C hd
      refine refines_of_ev0 C _ w _ _ _ (init_ev0_present C k v f w d hk hd) ?_ ?_ ?_
      · simp [specInit, absW, hk, ha]
      · exact cleanBut_clean C hc d hk hd
      · simp [specInit, absW, hk, ha]
    · refine refines_of_ev0 C _ w _ _ _ (init_ev0_empty C k v f w hk hv) ?_ ?_ ?_
      · simp [specInit, absW_empty w k hk]
      · exact cleanBut_upd_some C hc _ (settled_fresh C _ v hv)
      · simp [specInit, absW_upd, absW_empty w k hk, absDir, getEntry]; rfl

/- ================================================================ re-key, move -/
theorem rekey_ev0_free (C : Codec Sp) (x y : Key) (v : Sp) (w : World Sp) (D : JobDir Sp) (hxy : x ≠ y)
    (hx : w x = some D) (hD : Settled C x.2 D) (hy : w y = none ∨ w y = some {}) (hv : C.hash v = y.2) :
    ev0 C (rekeyProg C x y v) w = (upd (upd w y (some { D with sp := some (.ok v) })) x none, .ok) := by
  obtain ⟨v0, hsp, hh⟩ := hD.sp
  have hyx : y ≠ x := fun h => hxy h.symm
  rcases hy with hy | hy <;>
  · simp [rekeyProg, initProg, saveProg, loadProg, ev0, apply, validAt, hasSpFile, hx, hy, hsp, hD.bak, hD.strays,
      upd_other, hyx, setStray, getStray, eraseStray, JobDir.valid, Content.validFor, hv, JobDir.isEmpty]
    funext k'
    by_cases h1 : k' = x <;> by_cases h2 : k' = y <;> simp [upd, h1, h2, hxy, hyx]

theorem rekey_ev0_taken (C : Codec Sp) (x y : Key) (v : Sp) (w : World Sp) (D D' : JobDir Sp) (hxy : x ≠ y)
    (hx : w x = some D) (hD : Settled C x.2 D) (hy : w y = some D') (hD' : D'.isEmpty = false) :
    ev0 C (rekeyProg C x y v) w = (w, destExists) := by
  obtain ⟨v0, hsp, hh⟩ := hD.sp
  have hyx : y ≠ x := fun h => hxy h.symm
  simp [rekeyProg, ev0, apply, validAt, hx, hy, hsp, upd_other, hyx, JobDir.valid, Content.validFor, hh, hD',
    destExists]
  apply upd_self
  rw [hx]
  obtain ⟨sp, bak, strays, entries⟩ := D
  simp only at hsp
  have := hD.bak
  simp only at this
  subst hsp this
  rfl

theorem rekey_ev0_absent (C : Codec Sp) (x y : Key) (v : Sp) (w : World Sp) (hx : w x = none)
    (hy : ∀ d, w y = some d → d.bak = none) : ev0 C (rekeyProg C x y v) w = (w, .ok) := by
  cases hwy : w y with
  | none => simp [rekeyProg, ev0, apply, hx, hwy]
  | some d => simp [rekeyProg, ev0, apply, hx, hwy, hy d hwy]

theorem cleanBut_bak (C : Codec Sp) {w : World Sp} {y : Key} (hc : CleanBut C w y) :
    ∀ k d, w k = some d → d.bak = none := by
  intro k d h
  rcases hc k d h with h1 | ⟨_, rfl⟩
  · exact h1.bak
  · rfl

theorem cleanBut_free_or (C : Codec Sp) {w : World Sp} {y : Key} (hc : CleanBut C w y) :
    (w y = none ∨ w y = some {}) ∨ ∃ d, w y = some d ∧ Settled C y.2 d := by
  cases h : w y with
  | none => exact Or.inl (Or.inl rfl)
  | some d =>
    rcases hc y d h with h1 | ⟨_, rfl⟩
    · exact Or.inr ⟨d, rfl, h1⟩
    · exact Or.inl (Or.inr rfl)

theorem absW_free {w : World Sp} {y : Key} (h : w y = none ∨ w y = some {}) : absW w y = none := by
  rcases h with h | h
  · simp [absW, h]
  · exact absW_empty w y h

theorem clean_moved (C : Codec Sp) {w : World Sp} {x y : Key} (hc : CleanBut C w y)
    (d : JobDir Sp) (hd : Settled C y.2 d) : Clean C (upd (upd w y (some d)) x none) :=
  clean_upd_none C (cleanBut_upd_some C hc d hd) x

/-- state-point change `x → y`, new state point `v`, job `x` present: with `y` free — absent, or
    (the code's peculiarity: `os.replace` accepts it) an existing EMPTY directory — the payload moves
    and the state point becomes `v`; with `y` taken: DestinationExistsError, nothing changes -/
theorem rekey_refines_emptyDst (C : Codec Sp) (x y : Key) (v : Sp) (w : World Sp) (hxy : x ≠ y)
    (hc : CleanBut C w y) (hv : C.hash v = y.2) (hx : (w x).isSome = true) :
    Refines C (rekeyProg C x y v) w (specRekey x y v) := by
  cases hwx : w x with
  | none => simp [hwx] at hx
  | some D =>
    have hD : Settled C x.2 D := by
      rcases hc x D hwx with h | ⟨h, _⟩
      · exact h
      · exact absurd h hxy
    obtain ⟨v0, hsp, hh, ha⟩ := absDir_settled C hD
    have hax : absW w x = some (v0, fun p => getEntry p D.entries) := by simp [absW, hwx, ha]
    rcases cleanBut_free_or C hc with hy | ⟨D', hy, hD'⟩
    · have hay := absW_free hy
      refine refines_of_ev0 C _ w _ _ _ (rekey_ev0_free C x y v w D hxy hwx hD hy hv) ?_ ?_ ?_
      · simp [specRekey, hax, hay]
      · exact clean_moved C hc _ ⟨⟨v, rfl, hv⟩, hD.bak, hD.strays, hD.nodup, hD.nonempty⟩
      · simp [specRekey, hax, hay, absW_upd, absDir]
    · obtain ⟨v1, _, _, ha'⟩ := absDir_settled C hD'
      have hay : absW w y = some (v1, fun p => getEntry p D'.entries) := by simp [absW, hy, ha']
      refine refines_of_ev0 C _ w _ _ _
        (rekey_ev0_taken C x y v w D D' hxy hwx hD hy (settled_not_empty C hD')) ?_ ?_ ?_
      · simp [specRekey, hax, hay]
      · exact cleanBut_clean C hc D' hy hD'
      · simp [specRekey, hax, hay]

/-- state-point change `x → y` from a clean world: `y` absent ⟹ payload moved, state point `v`;
    `y` present ⟹ DestinationExistsError and nothing changes; `x` absent ⟹ nothing happens -/
theorem rekey_refines (C : Codec Sp) (x y : Key) (v : Sp) (w : World Sp) (hxy : x ≠ y)
    (hc : Clean C w) (hv : C.hash v = y.2) : Refines C (rekeyProg C x y v) w (specRekey x y v) := by
  cases hx : w x with
  | none =>
    have hax : absW w x = none := by simp [absW, hx]
    refine refines_of_ev0 C _ w _ _ _ (rekey_ev0_absent C x y v w hx (fun d hd => (hc y d hd).bak)) ?_ hc ?_
    · simp [specRekey, hax]
    · simp [specRekey, hax]
  | some D => exact rekey_refines_emptyDst C x y v w hxy (hc.but y) hv (by simp [hx])

theorem move_ev0_free (C : Codec Sp) (a b : Key) (w : World Sp) (D : JobDir Sp)
    (ha : w a = some D) (hb : w b = none ∨ w b = some {}) :
    ev0 C (moveProg a b) w = (upd (upd w b (some D)) a none, .ok) := by
  rcases hb with hb | hb <;> simp [moveProg, ev0, apply, ha, hb, JobDir.isEmpty]

theorem move_ev0_taken (C : Codec Sp) (a b : Key) (w : World Sp) (D D' : JobDir Sp)
    (ha : w a = some D) (hb : w b = some D') (hD' : D'.isEmpty = false) :
    ev0 C (moveProg a b) w = (w, destExists) := by
  simp [moveProg, ev0, apply, ha, hb, hD', destExists]

theorem move_ev0_absent (C : Codec Sp) (a b : Key) (w : World Sp) (ha : w a = none) :
    ev0 C (moveProg a b) w = (w, .exc "RuntimeError") := by
  simp [moveProg, ev0, apply, ha]

/-- `Job.move` `a → b` (same id, other project), job `a` present: `b` free (absent or an empty
    directory) ⟹ the job, state point included, is at `b` and no longer at `a`; `b` taken ⟹
    DestinationExistsError, nothing changes -/
theorem move_refines_emptyDst (C : Codec Sp) (a b : Key) (w : World Sp) (hab : a ≠ b) (hid : a.2 = b.2)
    (hc : CleanBut C w b) (hx : (w a).isSome = true) : Refines C (moveProg a b) w (specMove a b) := by
  cases hwa : w a with
  | none => simp [hwa] at hx
  | some D =>
    have hD : Settled C a.2 D := by
      rcases hc a D hwa with h | ⟨h, _⟩
      · exact h
      · exact absurd h hab
    obtain ⟨v0, hsp, hh, ha⟩ := absDir_settled C hD
    have hax : absW w a = some (v0, fun p => getEntry p D.entries) := by simp [absW, hwa, ha]
    rcases cleanBut_free_or C hc with hy | ⟨D', hy, hD'⟩
    · have hay := absW_free hy
      refine refines_of_ev0 C _ w _ _ _ (move_ev0_free C a b w D hwa hy) ?_ ?_ ?_
      · simp [specMove, hax, hay]
      · exact clean_moved C hc _ (hid ▸ hD)
      · simp [specMove, hax, hay, absW_upd, ha]
    · obtain ⟨v1, _, _, ha'⟩ := absDir_settled C hD'
      have hay : absW w b = some (v1, fun p => getEntry p D'.entries) := by simp [absW, hy, ha']
      refine refines_of_ev0 C _ w _ _ _
        (move_ev0_taken C a b w D D' hwa hy (settled_not_empty C hD')) ?_ ?_ ?_
      · simp [specMove, hax, hay]
      · exact cleanBut_clean C hc D' hy hD'
      · simp [specMove, hax, hay]

/-- `Job.move` from a clean world; a job that is not there: RuntimeError, nothing changes -/
theorem move_refines (C : Codec Sp) (a b : Key) (w : World Sp) (hab : a ≠ b) (hid : a.2 = b.2)
    (hc : Clean C w) : Refines C (moveProg a b) w (specMove a b) := by
  cases hx : w a with
  | none =>
    have hax : absW w a = none := by simp [absW, hx]
    refine refines_of_ev0 C _ w _ _ _ (move_ev0_absent C a b w hx) ?_ hc ?_
    · simp [specMove, hax]
    · simp [specMove, hax]
  | some D => exact move_refines_emptyDst C a b w hab hid (hc.but b) (by simp [hx])

/- ================================================================ payload lists -/
abbrev Entries := List (String × Option String)

theorem mem_eraseEntry_iff (p : String) : ∀ (l : Entries), (l.map Prod.fst).Nodup →
    ∀ e, e ∈ eraseEntry p l ↔ e ∈ l ∧ e.1 ≠ p := by
  intro l
  induction l with
  | nil => intro _ e; simp [eraseEntry]
  | cons hd tl ih =>
    obtain ⟨q, c⟩ := hd
    intro hn e
    simp only [List.map_cons, List.nodup_cons] at hn
    simp only [eraseEntry]
    split
    · subst_vars
      constructor
      · intro h
        refine ⟨List.mem_cons_of_mem _ h, fun he => hn.1 (he ▸ List.mem_map.mpr ⟨e, h, rfl⟩)⟩
      · rintro ⟨h, hne⟩
        rcases List.mem_cons.mp h with rfl | h
        · exact absurd rfl hne
        · exact h
    · rename_i hqp
      simp only [List.mem_cons, ih hn.2 e]
      constructor
      · rintro (rfl | ⟨h, hne⟩)
        · exact ⟨Or.inl rfl, hqp⟩
        · exact ⟨Or.inr h, hne⟩
      · rintro ⟨rfl | h, hne⟩
        · exact Or.inl rfl
        · exact Or.inr ⟨h, hne⟩

theorem eraseEntry_nodup (p : String) (l : Entries) (h : (l.map Prod.fst).Nodup) :
    ((eraseEntry p l).map Prod.fst).Nodup :=
  List.Nodup.sublist ((eraseEntry_sublist p l).map Prod.fst) h

theorem getEntry_eq_some_iff : ∀ (l : Entries), (l.map Prod.fst).Nodup →
    ∀ p b, getEntry p l = some b ↔ (p, b) ∈ l := by
  intro l
  induction l with
  | nil => intro _ p b; simp [getEntry]
  | cons hd tl ih =>
    obtain ⟨q, c⟩ := hd
    intro hn p b
    simp only [List.map_cons, List.nodup_cons] at hn
    simp only [getEntry]
    split
    · subst_vars
      constructor
      · intro h; cases h; exact List.mem_cons_self
      · intro h
        rcases List.mem_cons.mp h with h | h
        · cases h; rfl
        · exact absurd (List.mem_map.mpr ⟨(_, b), h, rfl⟩) hn.1
    · rename_i hqp
      rw [ih hn.2]
      constructor
      · exact fun h => List.mem_cons_of_mem _ h
      · intro h
        rcases List.mem_cons.mp h with h | h
        · cases h; exact absurd rfl hqp
        · exact h

theorem getEntry_none_iff : ∀ (l : Entries) (p : String), getEntry p l = none ↔ p ∉ l.map Prod.fst := by
  intro l p
  induction l with
  | nil => simp [getEntry]
  | cons hd tl ih =>
    obtain ⟨q, c⟩ := hd
    simp only [getEntry]
    split
    · subst_vars; simp
    · rename_i hqp
      simp only [ih, List.map_cons, List.mem_cons, not_or]
      exact ⟨fun h => ⟨fun e => hqp e.symm, h⟩, fun h => h.2⟩

def entryRef : String × Option String → Ref
  | (p, some _) => .file p
  | (p, none) => .dir p

/-- `r` is an item of a directory without backup and strays -/
def ItemOf (d : JobDir Sp) (r : Ref) : Prop :=
  (r = .sp ∧ d.sp.isSome = true) ∨ ∃ e ∈ d.entries, r = entryRef e

theorem entryRef_ne_sp (e : String × Option String) : entryRef e ≠ .sp := by
  obtain ⟨p, b⟩ := e; cases b <;> simp [entryRef]

theorem entryRef_path (e : String × Option String) : (entryRef e).path = e.1 := by
  obtain ⟨p, b⟩ := e; cases b <;> simp [entryRef, Ref.path]

theorem getEntry_isSome_of_mem (l : Entries) (e : String × Option String) (h : e ∈ l) :
    (getEntry e.1 l).isSome = true := by
  cases hg : getEntry e.1 l with
  | none => exact absurd (List.mem_map.mpr ⟨e, h, rfl⟩) ((getEntry_none_iff l e.1).mp hg)
  | some _ => rfl

theorem itemOf_hasItem {d : JobDir Sp} {r : Ref} (h : ItemOf d r) : hasItem d r = true := by
  rcases h with ⟨rfl, h⟩ | ⟨e, he, rfl⟩
  · exact h
  · have := getEntry_isSome_of_mem d.entries e he
    obtain ⟨p, b⟩ := e
    cases b <;> simpa [entryRef, hasItem] using this

/-- the payload after dropping the item `r` -/
theorem mem_dropItem_entries {d : JobDir Sp} {r : Ref} (hn : (d.entries.map Prod.fst).Nodup)
    (h : ItemOf d r) (e : String × Option String) :
    e ∈ (dropItem d r).entries ↔ e ∈ d.entries ∧ entryRef e ≠ r := by
  rcases h with ⟨rfl, h⟩ | ⟨e0, he0, rfl⟩
  · simp [dropItem, entryRef_ne_sp]
  · have key : ∀ e, e ∈ d.entries → (entryRef e ≠ entryRef e0 ↔ e.1 ≠ e0.1) := by
      intro e he
      constructor
      · intro hne h1
        apply hne
        have : e = e0 := by
          obtain ⟨p, b⟩ := e; obtain ⟨p0, b0⟩ := e0
          simp only at h1; subst h1
          have h2 := (getEntry_eq_some_iff _ hn p b).mpr he
          have h3 := (getEntry_eq_some_iff _ hn p b0).mpr he0
          rw [h2] at h3; cases h3; rfl
        rw [this]
      · intro hne h1
        apply hne
        rw [← entryRef_path e, ← entryRef_path e0, h1]
    have hdrop : (dropItem d (entryRef e0)).entries = eraseEntry e0.1 d.entries := by
      obtain ⟨p0, b0⟩ := e0; cases b0 <;> rfl
    rw [hdrop, mem_eraseEntry_iff _ _ hn]
    constructor
    · rintro ⟨h1, h2⟩; exact ⟨h1, (key e h1).mpr h2⟩
    · rintro ⟨h1, h2⟩; exact ⟨h1, (key e h1).mp h2⟩

theorem dropItem_nodup {d : JobDir Sp} (r : Ref) (hn : (d.entries.map Prod.fst).Nodup) :
    ((dropItem d r).entries.map Prod.fst).Nodup := by
  cases r <;> first | exact hn | exact eraseEntry_nodup _ _ hn

theorem dropItem_rest {d : JobDir Sp} {r : Ref} (h : ItemOf d r) :
    (dropItem d r).bak = d.bak ∧ (dropItem d r).strays = d.strays ∧
      (dropItem d r).sp = if r = .sp then none else d.sp := by
  rcases h with ⟨rfl, h⟩ | ⟨e, he, rfl⟩
  · simp [dropItem]
  · obtain ⟨p, b⟩ := e; cases b <;> simp [entryRef, dropItem]

theorem ev0_seq_cons_ok (C : Codec Sp) (onErr : Errno → Prog Sp) (next : Prog Sp) (s : Step Sp)
    (ss : List (Step Sp)) {w w' : World Sp} (h : apply C w s = .ok w') :
    ev0 C (seqProg onErr next (s :: ss)) w = ev0 C (seqProg onErr next ss) w' := by
  simp only [seqProg, ev0, h]

/-- unlinking the distinct items `L` of directory `k` one after the other: every step succeeds;
    what is left -/
theorem rm_run (C : Codec Sp) (onErr : Errno → Prog Sp) (next : Prog Sp) (k : Key) (rest : List (Step Sp)) :
    ∀ (L : List Ref) (d : JobDir Sp) (w : World Sp), w k = some d → (d.entries.map Prod.fst).Nodup →
      L.Nodup → (∀ r ∈ L, ItemOf d r) →
      ∃ d', ev0 C (seqProg onErr next (L.map (fun r => Step.rmItem k r) ++ rest)) w
              = ev0 C (seqProg onErr next rest) (upd w k (some d')) ∧
        d'.bak = d.bak ∧ d'.strays = d.strays ∧ d'.sp = (if .sp ∈ L then none else d.sp) ∧
        (d'.entries.map Prod.fst).Nodup ∧
        (∀ e, e ∈ d'.entries ↔ e ∈ d.entries ∧ entryRef e ∉ L) := by
  intro L
  induction L with
  | nil =>
    intro d w hw hn _ _
    exact ⟨d, by simp [upd_self w k _ hw], rfl, rfl, by simp, hn, by simp⟩
  | cons r L ih =>
    intro d w hw hn hL hall
    have hr : ItemOf d r := hall r List.mem_cons_self
    have happ : apply C w (.rmItem k r) = .ok (upd w k (some (dropItem d r))) := by
      simp [apply, hw, itemOf_hasItem hr]
    have hL' := List.nodup_cons.mp hL
    have hall' : ∀ r' ∈ L, ItemOf (dropItem d r) r' := by
      intro r' hr'
      have hne : r' ≠ r := fun h => hL'.1 (h ▸ hr')
      rcases hall r' (List.mem_cons_of_mem _ hr') with ⟨rfl, h⟩ | ⟨e, he, rfl⟩
      · refine Or.inl ⟨rfl, ?_⟩
        rw [(dropItem_rest hr).2.2]; simp [Ne.symm hne, h]
      · exact Or.inr ⟨e, (mem_dropItem_entries hn hr e).mpr ⟨he, hne⟩, rfl⟩
    obtain ⟨d', hrun, hbak, hstr, hsp, hnd, hmem⟩ :=
      ih (dropItem d r) (upd w k (some (dropItem d r))) (upd_same ..) (dropItem_nodup r hn) hL'.2 hall'
    refine ⟨d', ?_, ?_, ?_, ?_, hnd, ?_⟩
    · rw [List.map_cons, List.cons_append, ev0_seq_cons_ok C onErr next _ _ happ, hrun, upd_upd_same]
    · rw [hbak, (dropItem_rest hr).1]
    · rw [hstr, (dropItem_rest hr).2.1]
    · rw [hsp, (dropItem_rest hr).2.2]
      by_cases h1 : r = .sp
      · subst h1; simp
      · have : Ref.sp ≠ r := fun h => h1 h.symm
        simp [h1, this]
    · intro e
      rw [hmem, mem_dropItem_entries hn hr]
      simp only [List.mem_cons, not_or]
      exact ⟨fun ⟨⟨a, b⟩, c⟩ => ⟨a, b, c⟩, fun ⟨a, b, c⟩ => ⟨⟨a, b⟩, c⟩⟩

/- ================================================================ rmtree order -/
/-- the items in the order `rmOrder` unlinks them -/
def rmRefs : List Ref → List String → List Ref
  | [], stack => stack.map Ref.dir
  | r :: rs, stack =>
    let pc := popClosed r.path stack
    pc.1.map Ref.dir ++
      (match r with
       | .dir p => rmRefs rs (p :: pc.2)
       | r => r :: rmRefs rs pc.2)

theorem rmOrder_eq_map (k : Key) : ∀ (rs : List Ref) (stack : List String),
    rmOrder (Sp := Sp) k rs stack = (rmRefs rs stack).map (fun r => Step.rmItem k r)
  | [], stack => by simp [rmOrder, rmRefs]
  | r :: rs, stack => by
    cases r <;> simp [rmOrder, rmRefs, rmOrder_eq_map k rs]

theorem popClosed_append (next : String) : ∀ stack, (popClosed next stack).1 ++ (popClosed next stack).2 = stack
  | [] => rfl
  | top :: rest => by
    simp only [popClosed]
    split
    · rfl
    · simp [popClosed_append next rest]

theorem rmRefs_cons_dir (p : String) (rs : List Ref) (stack : List String) :
    rmRefs (.dir p :: rs) stack = (popClosed p stack).1.map Ref.dir ++ rmRefs rs (p :: (popClosed p stack).2) := by
  simp [rmRefs, Ref.path]

theorem rmRefs_cons_other (r : Ref) (hr : ∀ p, r ≠ .dir p) (rs : List Ref) (stack : List String) :
    rmRefs (r :: rs) stack =
      (popClosed r.path stack).1.map Ref.dir ++ r :: rmRefs rs (popClosed r.path stack).2 := by
  cases r <;> first | exact absurd rfl (hr _) | simp [rmRefs]

theorem perm_shuffle {α : Type} (a : α) (l1 l2 l3 : List α) :
    (l1 ++ a :: (l2 ++ l3)).Perm (a :: l2 ++ (l1 ++ l3)) := by
  refine List.perm_middle.trans (List.Perm.cons _ ?_)
  show (l1 ++ (l2 ++ l3)).Perm (l2 ++ (l1 ++ l3))
  rw [← List.append_assoc, ← List.append_assoc]
  exact List.Perm.append_right _ List.perm_append_comm

theorem rmRefs_perm : ∀ (rs : List Ref) (stack : List String),
    (rmRefs rs stack).Perm (rs ++ stack.map Ref.dir)
  | [], stack => by simp [rmRefs]
  | r :: rs, stack => by
    by_cases hr : ∃ p, r = .dir p
    · obtain ⟨p, rfl⟩ := hr
      rw [rmRefs_cons_dir]
      refine (List.Perm.append_left _ (rmRefs_perm rs _)).trans ?_
      conv => rhs; rw [← popClosed_append p stack]
      simp only [List.map_cons, List.map_append]
      refine (List.Perm.append_left _ List.perm_middle).trans ?_
      exact perm_shuffle _ _ _ _
    · have hr' : ∀ p, r ≠ .dir p := fun p h => hr ⟨p, h⟩
      rw [rmRefs_cons_other r hr']
      refine (List.Perm.append_left _ ((rmRefs_perm rs _).cons _)).trans ?_
      conv => rhs; rw [← popClosed_append r.path stack]
      simp only [List.map_append]
      exact perm_shuffle _ _ _ _

/- ================================================================ remove, clear -/
theorem scans_iff (C : Codec Sp) {name : String} {d : JobDir Sp} (hd : Settled C name d) {order : List Ref}
    (hs : Scans (fun p => getEntry p d.entries) order) : ∀ r, r ∈ order ↔ ItemOf d r := by
  intro r
  obtain ⟨v, hv, _⟩ := hd.sp
  rw [hs.2 r]
  simp only [ItemOf, hv, Option.isSome_some, and_true, getEntry_eq_some_iff _ hd.nodup]
  constructor
  · rintro (h | ⟨p, b, rfl, h⟩ | ⟨p, rfl, h⟩)
    · exact Or.inl h
    · exact Or.inr ⟨_, h, rfl⟩
    · exact Or.inr ⟨_, h, rfl⟩
  · rintro (h | ⟨⟨p, b⟩, h, rfl⟩)
    · exact Or.inl h
    · cases b with
      | none => exact Or.inr (Or.inr ⟨p, rfl, h⟩)
      | some b => exact Or.inr (Or.inl ⟨p, b, rfl, h⟩)

theorem aupd_self (A : AbsW Sp) (k : Key) (v : Option (Sp × Payload)) (h : A k = v) : aupd A k v = A := by
  funext k'; simp only [aupd]; split
  · subst_vars; rfl
  · rfl

theorem remove_ev0 (C : Codec Sp) (k : Key) (order : List Ref) (w : World Sp) (d : JobDir Sp)
    (hw : w k = some d) (hd : Settled C k.2 d) (hs : Scans (fun p => getEntry p d.entries) order) :
    ev0 C (removeProg k order) w = (upd w k none, .ok) := by
  have hperm := rmRefs_perm order []
  simp only [List.map_nil, List.append_nil] at hperm
  have hitem := scans_iff C hd hs
  obtain ⟨d', hrun, hbak, hstr, hsp, _, hmem⟩ :=
    rm_run C rmErr (.done .ok) k [.rmJobDir k] (rmRefs order []) d w hw hd.nodup
      (hperm.nodup_iff.mpr hs.1) (fun r hr => (hitem r).mp (hperm.mem_iff.mp hr))
  have hsp' : d'.sp = none := by
    rw [hsp, if_pos (hperm.mem_iff.mpr ((hitem _).mpr (Or.inl ⟨rfl, by
      obtain ⟨v, hv, _⟩ := hd.sp; simp [hv]⟩)))]
  have hent : d'.entries = [] := by
    apply List.eq_nil_iff_forall_not_mem.mpr
    intro e he
    have := (hmem e).mp he
    exact this.2 (hperm.mem_iff.mpr ((hitem _).mpr (Or.inr ⟨e, this.1, rfl⟩)))
  have hemp : d'.isEmpty = true := by
    simp [JobDir.isEmpty, hsp', hent, hbak, hstr, hd.bak, hd.strays]
  simp only [removeProg, ev0, hw, removeSteps, rmOrder_eq_map, hrun]
  simp [seqProg, ev0, apply, hemp]

/-- `Job.remove()`: the job disappears (a job that is not there: nothing happens) -/
theorem remove_refines (C : Codec Sp) (k : Key) (order : List Ref) (w : World Sp) (hc : Clean C w)
    (hs : ∀ v P, absW w k = some (v, P) → Scans P order) :
    Refines C (removeProg k order) w (specRemove k) := by
  cases hw : w k with
  | none =>
    refine refines_of_ev0 C _ w _ w .ok (by simp [removeProg, ev0, hw]) rfl hc ?_
    simp only [specRemove]
    exact (aupd_self _ _ _ (by simp [absW, hw])).symm
  | some d =>
    have hd := hc k d hw
    obtain ⟨v, _, _, ha⟩ := absDir_settled C hd
    have hs' := hs v (fun p => getEntry p d.entries) (by simp [absW, hw, ha])
    refine refines_of_ev0 C _ w _ _ _ (remove_ev0 C k order w d hw hd hs') rfl (clean_upd_none C hc k) ?_
    simp [specRemove, absW_upd]

theorem setEntry_all_same (p : String) (x : Option String) : ∀ (l : Entries), (l.map Prod.fst).Nodup →
    (∀ e ∈ l, e.1 = p) → setEntry p x l = [(p, x)]
  | [], _, _ => rfl
  | (q, c) :: rest, hn, hall => by
    have hq : q = p := hall (q, c) List.mem_cons_self
    subst hq
    have : rest = [] := by
      cases rest with
      | nil => rfl
      | cons e t =>
        have he : e.1 = q := hall e (by simp)
        simp only [List.map_cons, List.nodup_cons, List.mem_cons, not_or] at hn
        exact absurd he.symm hn.1.1
    subst this
    simp [setEntry]

theorem docName_ne_empty : docName ≠ "" := by decide

theorem clear_ev0 (C : Codec Sp) (k : Key) (order : List Ref) (w : World Sp) (d : JobDir Sp)
    (hw : w k = some d) (hd : Settled C k.2 d) (hs : Scans (fun p => getEntry p d.entries) order) :
    ev0 C (clearProg k order) w = (upd w k (some { d with entries := [(docName, some "{}")] }), .ok) := by
  let f : Ref → Bool := fun r => !(r = .sp || r = .file docName)
  have hperm := rmRefs_perm (order.filter f) []
  simp only [List.map_nil, List.append_nil] at hperm
  have hitem := scans_iff C hd hs
  obtain ⟨d', hrun, hbak, hstr, hsp, hnd, hmem⟩ :=
    rm_run C rmErr (.done .ok) k [.tmpOpen k docName, .tmpWrite k docName (.junk "{}"), .tmpCommit k docName]
      (rmRefs (order.filter f) []) d w hw hd.nodup
      (hperm.nodup_iff.mpr (hs.1.filter _))
      (fun r hr => (hitem r).mp (List.mem_filter.mp (hperm.mem_iff.mp hr)).1)
  have hsp' : d'.sp = d.sp := by
    rw [hsp, if_neg]
    intro h
    have := (List.mem_filter.mp (hperm.mem_iff.mp h)).2
    simp [f] at this
  have hent : setEntry docName (some "{}") d'.entries = [(docName, some "{}")] := by
    apply setEntry_all_same _ _ _ hnd
    intro e he
    obtain ⟨he1, he2⟩ := (hmem e).mp he
    have h3 : f (entryRef e) = false := by
      cases hf : f (entryRef e) with
      | false => rfl
      | true =>
        exact absurd (hperm.mem_iff.mpr (List.mem_filter.mpr ⟨(hitem _).mpr (Or.inr ⟨e, he1, rfl⟩), hf⟩)) he2
    simp [f, entryRef_ne_sp] at h3
    rw [← entryRef_path e, h3]; rfl
  have hfin : ({ d' with entries := setEntry docName (some "{}") d'.entries, strays := [] } : JobDir Sp)
      = { d with entries := [(docName, some "{}")] } := by
    obtain ⟨sp', bak', str', ent'⟩ := d'
    simp only at hsp' hbak hent
    subst hsp' hbak
    rw [hent, hd.bak, hd.strays]
  have hstr' : d'.strays = [] := by rw [hstr, hd.strays]
  simp only [clearProg, ev0, hw, clearSteps, rmOrder_eq_map]
  rw [hrun, ← hfin]
  simp [seqProg, ev0, apply, hstr', setStray, getStray, eraseStray, docName_ne_spName, Content.bytes]

/-- `Job.clear()`: document and files go — what is left is the state point and an empty job
    document `{}` (a job that is not there: nothing happens) -/
theorem clear_refines (C : Codec Sp) (k : Key) (order : List Ref) (w : World Sp) (hc : Clean C w)
    (hs : ∀ v P, absW w k = some (v, P) → Scans P order) :
    Refines C (clearProg k order) w (specClear k) := by
  cases hw : w k with
  | none =>
    have : absW w k = none := by simp [absW, hw]
    refine refines_of_ev0 C _ w _ w .ok (by simp [clearProg, ev0, hw]) ?_ hc ?_ <;> simp [specClear, this]
  | some d =>
    have hd := hc k d hw
    obtain ⟨v, hv, hh, ha⟩ := absDir_settled C hd
    have hak : absW w k = some (v, fun p => getEntry p d.entries) := by simp [absW, hw, ha]
    have hs' := hs v _ hak
    refine refines_of_ev0 C _ w _ _ _ (clear_ev0 C k order w d hw hd hs') ?_ ?_ ?_
    · simp [specClear, hak]
    · refine clean_upd_some C hc k _ ⟨⟨v, hv, hh⟩, hd.bak, hd.strays, by simp, ?_⟩
      simpa using docName_ne_empty.symm
    · simp only [specClear, hak, absW_upd, Option.bind_some, absDir, hv]
      have : (fun p => getEntry p [(docName, some "{}")]) = emptyDoc := by
        funext p; simp [getEntry, emptyDoc, eq_comm]
      rw [this]

/- ================================================================ clone -/
theorem setEntry_setEntry (p : String) (x y : Option String) : ∀ l : Entries,
    setEntry p x (setEntry p y l) = setEntry p x l
  | [] => by simp [setEntry]
  | (q, c) :: rest => by
    simp only [setEntry]
    split
    · simp [setEntry]
    · rename_i h; simp [setEntry, h, setEntry_setEntry p x y rest]

theorem getEntry_setEntry (p : String) (x : Option String) (q : String) : ∀ l : Entries,
    getEntry q (setEntry p x l) = if q = p then some x else getEntry q l
  | [] => by simp [setEntry, getEntry, eq_comm]
  | (r, c) :: rest => by
    have ih := getEntry_setEntry p x q rest
    by_cases hrp : r = p <;> by_cases hqp : q = p <;> by_cases hrq : r = q <;>
      simp_all [setEntry, getEntry]

theorem copy_sp (C : Codec Sp) (d dd : JobDir Sp) (dst : Key) (rs : List Ref) (w : World Sp) (v : Sp)
    (hw : w dst = some dd) (hv : d.sp = some (.ok v)) :
    ev0 C (copyList d dst (.sp :: rs) false []) w =
      ev0 C (copyList d dst rs false []) (upd w dst (some { dd with sp := some (.ok v) })) := by
  simp [copyList, ev0, apply, hw, putItem, itemContent, hv]

theorem copy_dir (C : Codec Sp) (d dd : JobDir Sp) (dst : Key) (rs : List Ref) (w : World Sp) (p : String)
    (hw : w dst = some dd) (hp : p ≠ "") :
    ev0 C (copyList d dst (.dir p :: rs) false []) w =
      ev0 C (copyList d dst rs false []) (upd w dst (some { dd with entries := setEntry p none dd.entries })) := by
  simp [copyList, ev0, apply, hw, putItem, hp]

theorem copy_file (C : Codec Sp) (d dd : JobDir Sp) (dst : Key) (rs : List Ref) (w : World Sp) (p b : String)
    (hw : w dst = some dd) (hb : getEntry p d.entries = some (some b)) :
    ev0 C (copyList d dst (.file p :: rs) false []) w =
      ev0 C (copyList d dst rs false []) (upd w dst (some { dd with entries := setEntry p (some b) dd.entries })) := by
  by_cases hb0 : b = ""
  · subst hb0
    simp [copyList, ev0, apply, hw, putItem, itemContent, hb, Content.bytes]
  · simp [copyList, ev0, apply, hw, putItem, itemContent, hb, Content.bytes, hb0, setEntry_setEntry]

theorem mem_keys_setEntry (p : String) (x : Option String) (k : String) : ∀ l : Entries,
    k ∈ (setEntry p x l).map Prod.fst ↔ k = p ∨ k ∈ l.map Prod.fst
  | [] => by simp [setEntry]
  | (q, c) :: rest => by
    have ih := mem_keys_setEntry p x k rest
    by_cases hqp : q = p
    · subst hqp; simp [setEntry]
    · simp only [setEntry, hqp, if_false, List.map_cons, List.mem_cons, ih]
      constructor
      · rintro (h | h | h)
        · exact Or.inr (Or.inl h)
        · exact Or.inl h
        · exact Or.inr (Or.inr h)
      · rintro (h | h | h)
        · exact Or.inr (Or.inl h)
        · exact Or.inl h
        · exact Or.inr (Or.inr h)

theorem setEntry_nodup (p : String) (x : Option String) : ∀ l : Entries, (l.map Prod.fst).Nodup →
    ((setEntry p x l).map Prod.fst).Nodup
  | [], _ => by simp [setEntry]
  | (q, c) :: rest, hn => by
    simp only [List.map_cons, List.nodup_cons] at hn
    by_cases hqp : q = p
    · subst hqp; simpa [setEntry] using hn
    · simp only [setEntry, hqp, if_false, List.map_cons, List.nodup_cons, mem_keys_setEntry, not_or]
      exact ⟨⟨id, hn.1⟩, setEntry_nodup p x rest hn.2⟩

/-- copying one payload item `e0` of the source -/
theorem copy_entry (C : Codec Sp) (d dd : JobDir Sp) (dst : Key) (rs : List Ref) (w : World Sp)
    (e0 : String × Option String) (hw : w dst = some dd) (hn : (d.entries.map Prod.fst).Nodup)
    (hne : "" ∉ d.entries.map Prod.fst) (he0 : e0 ∈ d.entries) :
    ev0 C (copyList d dst (entryRef e0 :: rs) false []) w =
      ev0 C (copyList d dst rs false [])
        (upd w dst (some { dd with entries := setEntry e0.1 e0.2 dd.entries })) := by
  obtain ⟨p, b⟩ := e0
  have hp : p ≠ "" := fun h => hne (h ▸ List.mem_map.mpr ⟨(p, b), he0, rfl⟩)
  cases b with
  | none => exact copy_dir C d dd dst rs w p hw hp
  | some b => exact copy_file C d dd dst rs w p b hw ((getEntry_eq_some_iff _ hn p (some b)).mpr he0)

/-- `copytree` over the items `L` of the source `d`, no failures: what the destination holds -/
theorem copy_run (C : Codec Sp) (d : JobDir Sp) (dst : Key) (v : Sp) (hv : d.sp = some (.ok v))
    (hn : (d.entries.map Prod.fst).Nodup) (hne : "" ∉ d.entries.map Prod.fst) :
    ∀ (L : List Ref) (dd : JobDir Sp) (w : World Sp), w dst = some dd → (dd.entries.map Prod.fst).Nodup →
      (∀ r ∈ L, ItemOf d r) →
      ∃ dd', ev0 C (copyList d dst L false []) w = (upd w dst (some dd'), .ok) ∧
        dd'.bak = dd.bak ∧ dd'.strays = dd.strays ∧ dd'.sp = (if .sp ∈ L then d.sp else dd.sp) ∧
        (dd'.entries.map Prod.fst).Nodup ∧
        (∀ q, getEntry q dd'.entries =
          if (∃ e ∈ d.entries, entryRef e ∈ L ∧ e.1 = q) then getEntry q d.entries else getEntry q dd.entries) := by
  intro L
  induction L with
  | nil =>
    intro dd w hw hnd _
    exact ⟨dd, by simp [copyList, ev0, upd_self w dst _ hw], rfl, rfl, by simp, hnd, by simp⟩
  | cons r L ih =>
    intro dd w hw hnd hall
    have hall' : ∀ r ∈ L, ItemOf d r := fun r hr => hall r (List.mem_cons_of_mem _ hr)
    rcases hall r List.mem_cons_self with ⟨rfl, _⟩ | ⟨e0, he0, rfl⟩
    · obtain ⟨dd', hrun, hbak, hstr, hsp, hnd', hget⟩ :=
        ih { dd with sp := some (.ok v) } (upd w dst (some { dd with sp := some (.ok v) })) (upd_same ..) hnd hall'
      refine ⟨dd', ?_, hbak, hstr, ?_, hnd', ?_⟩
      · rw [copy_sp C d dd dst L w v hw hv, hrun, upd_upd_same]
      · rw [hsp]; simp only [List.mem_cons, true_or, if_true]; split <;> simp [hv]
      · intro q; rw [hget q]
        simp only [List.mem_cons, entryRef_ne_sp, false_or]
    · obtain ⟨dd', hrun, hbak, hstr, hsp, hnd', hget⟩ :=
        ih { dd with entries := setEntry e0.1 e0.2 dd.entries }
          (upd w dst (some { dd with entries := setEntry e0.1 e0.2 dd.entries })) (upd_same ..)
          (setEntry_nodup _ _ _ hnd) hall'
      refine ⟨dd', ?_, hbak, hstr, ?_, hnd', ?_⟩
      · rw [copy_entry C d dd dst L w e0 hw hn hne he0, hrun, upd_upd_same]
      · rw [hsp]; simp only [List.mem_cons, (entryRef_ne_sp e0).symm, false_or]
      · intro q; rw [hget q]
        simp only [getEntry_setEntry]
        by_cases hq : q = e0.1
        · subst hq
          have h1 : ∃ e ∈ d.entries, entryRef e ∈ entryRef e0 :: L ∧ e.1 = e0.1 :=
            ⟨e0, he0, List.mem_cons_self, rfl⟩
          have h2 : getEntry e0.1 d.entries = some e0.2 := (getEntry_eq_some_iff _ hn _ _).mpr he0
          simp only [if_pos h1, if_true, h2]
          split <;> rfl
        · have h1 : (∃ e ∈ d.entries, entryRef e ∈ entryRef e0 :: L ∧ e.1 = q) ↔
              (∃ e ∈ d.entries, entryRef e ∈ L ∧ e.1 = q) := by
            constructor
            · rintro ⟨e, he, hm, rfl⟩
              rcases List.mem_cons.mp hm with h | h
              · exact absurd (by rw [← entryRef_path e, h, entryRef_path]) hq
              · exact ⟨e, he, h, rfl⟩
            · rintro ⟨e, he, hm, rfl⟩
              exact ⟨e, he, List.mem_cons_of_mem _ hm, rfl⟩
          simp only [hq, if_false, h1]

theorem clone_ev0_fresh (C : Codec Sp) (src dst : Key) (order : List Ref) (w : World Sp) (d : JobDir Sp)
    (hsrc : w src = some d) (hd : Settled C src.2 d) (hdst : w dst = none)
    (hs : Scans (fun p => getEntry p d.entries) order) :
    ∃ dd', ev0 C (cloneProg src dst order) w = (upd w dst (some dd'), .ok) ∧ Settled C src.2 dd' ∧
      absDir dd' = absDir d := by
  obtain ⟨v, hv, hh, ha⟩ := absDir_settled C hd
  have hitem := scans_iff C hd hs
  obtain ⟨dd', hrun, hbak, hstr, hsp, hnd, hget⟩ :=
    copy_run C d dst v hv hd.nodup hd.nonempty order {} (upd w dst (some {})) (upd_same ..) (by simp)
      (fun r hr => (hitem r).mp hr)
  have hsp' : dd'.sp = some (.ok v) := by
    rw [hsp, if_pos ((hitem _).mpr (Or.inl ⟨rfl, by simp [hv]⟩)), hv]
  have hget' : ∀ q, getEntry q dd'.entries = getEntry q d.entries := by
    intro q
    rw [hget q]
    split
    · rfl
    · rename_i hno
      cases hq : getEntry q d.entries with
      | none => simp [getEntry]
      | some b =>
        have hmem := (getEntry_eq_some_iff _ hd.nodup q b).mp hq
        exact absurd ⟨(q, b), hmem, (hitem _).mpr (Or.inr ⟨_, hmem, rfl⟩), rfl⟩ hno
  refine ⟨dd', ?_, ⟨⟨v, hsp', hh⟩, by rw [hbak], by rw [hstr], hnd, ?_⟩, ?_⟩
  · simp only [cloneProg, ev0, hsrc, apply, if_true, hdst, hrun, upd_upd_same]
  · rw [← getEntry_none_iff, hget', getEntry_none_iff]; exact hd.nonempty
  · rw [ha]; simp only [absDir, hsp']
    congr 2
    funext q; exact hget' q

/-- `Project.clone`: the destination gets a copy of state point and payload (copied entry by
    entry), the source is unchanged; a taken destination: DestinationExistsError, nothing changes;
    a source that is not there: ValueError -/
theorem clone_refines (C : Codec Sp) (src dst : Key) (order : List Ref) (w : World Sp) (hid : src.2 = dst.2)
    (hc : Clean C w) (hs : ∀ v P, absW w src = some (v, P) → Scans P order) :
    Refines C (cloneProg src dst order) w (specClone src dst) := by
  cases hsrc : w src with
  | none =>
    have : absW w src = none := by simp [absW, hsrc]
    refine refines_of_ev0 C _ w _ w (.exc "ValueError") (by simp [cloneProg, ev0, hsrc]) ?_ hc ?_ <;>
      simp [specClone, this]
  | some d =>
    have hd := hc src d hsrc
    obtain ⟨v, hv, hh, ha⟩ := absDir_settled C hd
    have hax : absW w src = some (v, fun p => getEntry p d.entries) := by simp [absW, hsrc, ha]
    cases hdst : w dst with
    | some d' =>
      obtain ⟨v', _, _, ha'⟩ := absDir_settled C (hc dst d' hdst)
      have hay : absW w dst = some (v', fun p => getEntry p d'.entries) := by simp [absW, hdst, ha']
      refine refines_of_ev0 C _ w _ w destExists
        (by simp [cloneProg, ev0, hsrc, apply, hdst, destExists]) ?_ hc ?_ <;> simp [specClone, hax, hay]
    | none =>
      have hay : absW w dst = none := by simp [absW, hdst]
      obtain ⟨dd', hrun, hset, habs⟩ := clone_ev0_fresh C src dst order w d hsrc hd hdst (hs _ _ hax)
      refine refines_of_ev0 C _ w _ _ _ hrun ?_ (clean_upd_some C hc dst dd' (hid ▸ hset)) ?_
      · simp [specClone, hax, hay]
      · simp [specClone, hax, hay, absW_upd, habs, ha]

/- ================================================================ all operations, histories -/
/-- the natural precondition of an operation, stated on the abstract state: directory names are
    the ids of the state points involved, source and target differ, and `order` lists the items
    of the directory walked (as `scandir` would) -/
def Op.pre (C : Codec Sp) : Op Sp → AbsW Sp → Prop
  | .init k v _, _ => C.hash v = k.2
  | .rekey x y v, _ => x ≠ y ∧ C.hash v = y.2
  | .move a b, _ => a ≠ b ∧ a.2 = b.2
  | .clone s d o, A => s.2 = d.2 ∧ ∀ v P, A s = some (v, P) → Scans P o
  | .remove k o, A => ∀ v P, A k = some (v, P) → Scans P o
  | .clear k o, A => ∀ v P, A k = some (v, P) → Scans P o

/-- every operation: the event-free run of its step program from a clean world returns what the
    abstract operation returns, ends in a clean world, and commutes with the abstraction -/
theorem op_refines (C : Codec Sp) (op : Op Sp) (w : World Sp) (hc : Clean C w) (hp : op.pre C (absW w)) :
    Refines C (op.prog C) w op.spec := by
  cases op with
  | init k v f => exact init_refines C k v f w (hc.but k) hp
  | rekey x y v => exact rekey_refines C x y v w hp.1 hc hp.2
  | move a b => exact move_refines C a b w hp.1 hp.2 hc
  | clone s d o => exact clone_refines C s d o w hp.1 hc hp.2
  | remove k o => exact remove_refines C k o w hc hp
  | clear k o => exact clear_refines C k o w hc hp

/-- a history of operations, each run event-free: final world and the results -/
def runOps (C : Codec Sp) : List (Op Sp) → World Sp → World Sp × List Res
  | [], w => (w, [])
  | op :: ops, w =>
    let o := run C noEv (op.prog C) w
    ((runOps C ops o.w).1, o.res :: (runOps C ops o.w).2)

/-- the same history on the abstract state -/
def specOps : List (Op Sp) → AbsW Sp → AbsW Sp × List Res
  | [], A => (A, [])
  | op :: ops, A => ((specOps ops (op.spec A).1).1, (op.spec A).2 :: (specOps ops (op.spec A).1).2)

/-- the preconditions along the abstract history -/
def PreOps (C : Codec Sp) : List (Op Sp) → AbsW Sp → Prop
  | [], _ => True
  | op :: ops, A => op.pre C A ∧ PreOps C ops (op.spec A).1

/-- simulation: every finite history of operations run event-free from a clean world ends in a
    clean world whose abstraction is the fold of the abstract operations, with the same results -/
theorem ops_refine (C : Codec Sp) : ∀ (ops : List (Op Sp)) (w : World Sp), Clean C w → PreOps C ops (absW w) →
    Clean C (runOps C ops w).1 ∧ absW (runOps C ops w).1 = (specOps ops (absW w)).1 ∧
      (runOps C ops w).2 = (specOps ops (absW w)).2
  | [], w, hc, _ => ⟨hc, rfl, rfl⟩
  | op :: ops, w, hc, hp => by
    obtain ⟨hres, hclean, habs⟩ := op_refines C op w hc hp.1
    have ih := ops_refine C ops (run C noEv (op.prog C) w).w hclean (habs ▸ hp.2)
    simp only [runOps, specOps]
    rw [habs] at ih
    exact ⟨ih.1, ih.2.1, by rw [hres, ih.2.2]⟩

theorem clean_empty (C : Codec Sp) : Clean C (fun _ => none) := fun _ _ h => by cases h

theorem absW_none : absW (Sp := Sp) (fun _ => none) = fun _ => none := rfl

end Signac.Life

/-
  Helper lemmas for C06 without the `CorpusFlat` restriction: the chain index → atoms → filters →
  corpus of `QueryIndex.lean`, `QueryMain.lean`, `QueryCorpus.lean`, redone for job data in which
  lists may hold mappings at any depth.  The only assumption on the data is `keysOK`: every mapping
  has distinct keys (true of every Python dict).  Everything lives in the namespace
  `Signac.Query.Full`; lemmas of the flat chain that never mentioned flatness are reused as they are.
-/
import Signac.Proofs.QueryValFull
import Signac.Proofs.QueryCorpus
namespace Signac.Query.Full
open Signac Signac.Query

/-- index keys all of whose mappings have distinct keys -/
def okKey : IKey → Bool
  | .val v => keysOK v
  | .dict => true

theorem okKey_of_slotEq {a c : IKey} (h : okKey a = true) (hs : slotEq a c = true) : okKey c = true := by
  cases a with
  | dict => cases c with
    | dict => rfl
    | val _ => simp [slotEq] at hs
  | val v => cases c with
    | dict => rfl
    | val w =>
      simp only [slotEq, Bool.and_eq_true] at hs
      exact keysOK_of_pyEq v h w hs.1

theorem slotEq_refl {k : IKey} (h : okKey k = true) : slotEq k k = true := by
  cases k with
  | dict => rfl
  | val v => simp only [slotEq, Bool.and_eq_true, beq_self_eq_true, and_true]; exact pyEq_refl_wf v h

theorem slotEq_symm {a : IKey} (h : okKey a = true) {c : IKey} (hc : okKey c = true) :
    slotEq a c = slotEq c a := by
  cases a with
  | dict => cases c <;> rfl
  | val v =>
    cases c with
    | dict => rfl
    | val w =>
      simp only [slotEq]
      rw [pyEq_symm_wf v w h hc]
      congr 1
      rw [Bool.eq_iff_iff]; simp only [beq_iff_eq]; exact eq_comm

theorem slotEq_eucl {a b : IKey} (h : okKey a = true) (hab : slotEq a b = true)
    (c : IKey) : slotEq a c = slotEq b c := by
  cases a with
  | dict => cases b with
    | dict => rfl
    | val _ => simp [slotEq] at hab
  | val v =>
    cases b with
    | dict => simp [slotEq] at hab
    | val w =>
      simp only [slotEq, Bool.and_eq_true, beq_iff_eq] at hab
      cases c with
      | dict => rfl
      | val u =>
        simp only [slotEq]
        rw [pyEq_eucl_wf v h w u hab.1, hab.2]

/-- right-Euclidean form: two keys matching the same key match each other -/
theorem slotEq_right {a b : IKey} (ha : okKey a = true) (hb : okKey b = true)
    {c : IKey} (h1 : slotEq a c = true) (h2 : slotEq b c = true) : slotEq a b = true := by
  rw [slotEq_eucl ha h1 b, ← slotEq_symm hb (okKey_of_slotEq ha h1)]
  exact h2

/-! ### the index built from a corpus -/

/-- under `nodes`, every mapping in the documents' values has distinct keys -/
def OkAt (nodes : List String) (docs : List (JobId × JVal)) : Prop :=
  ∀ j d w, (j, d) ∈ docs → getPath nodes d = some w → okKey (toIKey w) = true

theorem idxInv_add {nodes : List String} {seen : List (JobId × JVal)} {idx : Index}
    (h : IdxInv nodes seen idx) {i : JobId} {d w : JVal} (hd : getPath nodes d = some w)
    (hf : okKey (toIKey w) = true) :
    IdxInv nodes (seen ++ [(i, d)]) (Index.insert (toIKey w) i idx) := by
  refine ⟨?_, ?_, ?_, insert_pairwise h.distinct⟩
  · intro r ids hg j hj
    rcases insert_mem_cases hg with h' | ⟨ids0, h1, h2, h3⟩ | ⟨h1, h2, _⟩
    · obtain ⟨d', w', a, b, c⟩ := h.memb r ids h' j hj
      exact ⟨d', w', List.mem_append_left _ a, b, c⟩
    · rw [h2] at hj
      rcases List.mem_append.mp hj with hj | hj
      · obtain ⟨d', w', a, b, c⟩ := h.memb r ids0 h1 j hj
        exact ⟨d', w', List.mem_append_left _ a, b, c⟩
      · simp only [List.mem_singleton] at hj
        exact ⟨d, w, by rw [hj]; simp, hd, h3⟩
    · rw [h2] at hj
      simp only [List.mem_singleton] at hj
      exact ⟨d, w, by rw [hj]; simp, hd, by rw [h1]; exact slotEq_refl hf⟩
  · intro j d' w' hj hw
    rcases List.mem_append.mp hj with hj | hj
    · obtain ⟨r, ids, a, b⟩ := h.cover j d' w' hj hw
      obtain ⟨ids', a', b'⟩ := insert_keeps (k := toIKey w) (i := i) a
      exact ⟨r, ids', a', b' j b⟩
    · simp only [List.mem_singleton, Prod.mk.injEq] at hj
      obtain ⟨r, ids, a, b⟩ := insert_has (k := toIKey w) (i := i) idx
      exact ⟨r, ids, a, by rw [hj.1]; exact b⟩
  · intro r ids hg
    rcases insert_mem_cases hg with h' | ⟨ids0, h1, _, _⟩ | ⟨h1, _, _⟩
    · obtain ⟨j, d', w', a, b, c⟩ := h.rep r ids h'
      exact ⟨j, d', w', List.mem_append_left _ a, b, c⟩
    · obtain ⟨j, d', w', a, b, c⟩ := h.rep r ids0 h1
      exact ⟨j, d', w', List.mem_append_left _ a, b, c⟩
    · exact ⟨i, d, w, by simp, hd, h1⟩

theorem buildIndexFrom_inv {nodes : List String} : ∀ (rest seen : List (JobId × JVal)) (idx : Index),
    OkAt nodes rest → IdxInv nodes seen idx →
    IdxInv nodes (seen ++ rest) (buildIndexFrom nodes rest idx)
  | [], seen, idx, _, h => by simpa [buildIndexFrom] using h
  | (i, d) :: rest, seen, idx, hf, h => by
    have hf' : OkAt nodes rest := fun j d' w hj hw => hf j d' w (List.mem_cons_of_mem _ hj) hw
    have e : seen ++ (i, d) :: rest = (seen ++ [(i, d)]) ++ rest := by simp
    rw [e]
    cases hd : getPath nodes d with
    | none =>
      simp only [buildIndexFrom, hd]
      exact buildIndexFrom_inv rest _ idx hf' (h.skip hd)
    | some w =>
      simp only [buildIndexFrom, hd]
      exact buildIndexFrom_inv rest _ _ hf' (idxInv_add h hd (hf i d w List.mem_cons_self hd))

theorem buildIndex_inv {nodes : List String} {docs : List (JobId × JVal)} (hf : OkAt nodes docs) :
    IdxInv nodes docs (buildIndex docs nodes) := by
  have := buildIndexFrom_inv docs [] [] hf (IdxInv.nil nodes)
  simpa [buildIndex] using this

/-! ### reading the index -/

/-- `index.get(key)` returns the members of every slot whose stored key matches: with pairwise
    distinct stored keys there is at most one -/
theorem get_spec {key : IKey} : ∀ {idx : Index},
    idx.Pairwise (fun g g' => slotEq g.1 g'.1 = false) →
    (∀ r ids, (r, ids) ∈ idx → okKey r = true) →
    ∀ i, i ∈ Index.get key idx ↔ ∃ r ids, (r, ids) ∈ idx ∧ i ∈ ids ∧ slotEq r key = true
  | [], _, _, i => by simp [Index.get]
  | (r0, ids0) :: rest, hp, hfl, i => by
    rw [List.pairwise_cons] at hp
    simp only [Index.get]
    by_cases hs : slotEq r0 key = true
    · rw [if_pos hs]
      constructor
      · intro hi; exact ⟨r0, ids0, List.mem_cons_self, hi, hs⟩
      · rintro ⟨r, ids, hg, hi, hr⟩
        rcases List.mem_cons.mp hg with hg | hg
        · simp only [Prod.mk.injEq] at hg; rw [hg.2] at hi; exact hi
        · exfalso
          have h1 : slotEq r0 r = true :=
            slotEq_right (hfl r0 ids0 List.mem_cons_self) (hfl r ids (List.mem_cons_of_mem _ hg)) hs hr
          have h2 := hp.1 (r, ids) hg
          simp only at h2
          rw [h1] at h2; cases h2
    · rw [if_neg hs, get_spec hp.2 (fun r ids hg => hfl r ids (List.mem_cons_of_mem _ hg)) i]
      constructor
      · rintro ⟨r, ids, hg, hi, hr⟩; exact ⟨r, ids, List.mem_cons_of_mem _ hg, hi, hr⟩
      · rintro ⟨r, ids, hg, hi, hr⟩
        rcases List.mem_cons.mp hg with hg | hg
        · simp only [Prod.mk.injEq] at hg; rw [hg.1] at hr; exact absurd hr hs
        · exact ⟨r, ids, hg, hi, hr⟩

/-! ### operators cannot tell keys of one slot apart -/

/-- keys of one slot agree on: `==` with anything, ordering with anything, being a string -/
theorem slot_facts {a b : IKey} (hf : okKey a = true) (h : slotEq a b = true) :
    (∀ c, ikEq a c = ikEq b c) ∧ (∀ c, ikCmp a c = ikCmp b c) ∧ strOfKey a = strOfKey b := by
  cases a with
  | dict =>
    cases b with
    | dict => exact ⟨fun _ => rfl, fun _ => rfl, rfl⟩
    | val _ => simp [slotEq] at h
  | val v =>
    cases b with
    | dict => simp [slotEq] at h
    | val w =>
      simp only [slotEq, Bool.and_eq_true, beq_iff_eq] at h
      refine ⟨fun c => pyEq_eucl_wf v hf w c h.1, fun c => pyCmp_congr_wf v hf w c h.1, ?_⟩
      cases hv : strOfKey (.val v) with
      | some t =>
        have : v = .str t := by cases v <;> simp [strOfKey] at hv; rw [hv]
        subst this
        rw [pyEq_str_true h.1]; rfl
      | none =>
        cases hw : strOfKey (.val w) with
        | none => rfl
        | some t =>
          have : w = .str t := by cases w <;> simp [strOfKey] at hw; rw [hw]
          subst this
          rw [pyEq_str_left' h.1] at hv
          simp [strOfKey] at hv

/-- the callable built for an operator gives the same answer (or raises the same exception) on
    two keys of one slot; for `$type` this needs the keys to be of one Python type -/
theorem opTest_congr {P : Params} (hP : NearRespectsEq P) {op : String} {arg : JVal}
    {h : IKey → Except Err Bool} (hop : opTest P op arg = .ok h) {a b : IKey}
    (hf : okKey a = true) (hs : slotEq a b = true)
    (hty : op = "$type" → ∀ t, ikIsInstance a t = ikIsInstance b t) : h a = h b := by
  obtain ⟨heq, hcmp, hstr⟩ := slot_facts hf hs
  unfold opTest at hop
  by_cases hnear : op = "$near"
  · rw [if_pos hnear] at hop
    cases hsp : nearSpec P arg with
    | error e => rw [hsp] at hop; cases hop
    | ok sp =>
      rw [hsp] at hop
      simp only [Except.ok.injEq] at hop
      subst hop
      cases a with
      | dict => cases b with
        | dict => rfl
        | val _ => simp [slotEq] at hs
      | val v => cases b with
        | dict => simp [slotEq] at hs
        | val w =>
          simp only [slotEq, Bool.and_eq_true, beq_iff_eq] at hs
          rw [nearHolds_val, nearHolds_val, ← isNumber_of_pyEq hs.1]
          cases hn : isNumber v with
          | false => rfl
          | true =>
            rw [hP v w sp.a sp.rel sp.abs hn (by rw [← isNumber_of_pyEq hs.1]; exact hn) hs.1]
  · rw [if_neg hnear] at hop
    simp only [Except.ok.injEq] at hop
    subst hop
    simp only [holds]
    by_cases h1 : op = "$eq"
    · simp only [h1, if_true, heq]
    by_cases h2 : op = "$ne"
    · simp only [h2, if_true, heq]
    by_cases h3 : op = "$gt" ∨ op = "$gte" ∨ op = "$lt" ∨ op = "$lte"
    · simp only [if_neg h1, if_neg h2, if_pos h3, hcmp]
    by_cases h4 : op = "$in"
    · simp only [if_neg h1, if_neg h2, if_neg h3, if_pos h4, pyIn_eq, hstr, anyEq_congr heq]
    by_cases h5 : op = "$nin"
    · simp only [if_neg h1, if_neg h2, if_neg h3, if_neg h4, if_pos h5, pyIn_eq, hstr, anyEq_congr heq]
    by_cases h6 : op = "$regex"
    · simp only [if_neg h1, if_neg h2, if_neg h3, if_neg h4, if_neg h5, if_pos h6, regexHolds_eq, hstr]
    by_cases h7 : op = "$type"
    · simp only [if_neg h1, if_neg h2, if_neg h3, if_neg h4, if_neg h5, if_neg h6, if_pos h7]
      cases typeArg arg with
      | error e => rfl
      | ok t => simp only [hty h7 t]
    · simp only [if_neg h1, if_neg h2, if_neg h3, if_neg h4, if_neg h5, if_neg h6, if_neg h7]

/-! ### looking a filter value up -/

/-- `w == c` depends on a numeric `c` only through its value (for any `w` whatsoever) -/
theorem pyEq_right_num {w : JVal} {c c' : JVal} {p q : Int × Nat}
    (hc : numVal c = some p) (hc' : numVal c' = some q) (hpq : numEq p q = true) :
    pyEq w c = pyEq w c' := by
  rw [pyEq_num_symm_right hc w, pyEq_num_symm_right hc' w]
  have : pyEq c c' = true := by rw [pyEq_of_numVal hc, hc']; exact hpq
  exact pyEq_num_eucl hc this w

/-- the dual lookup `index.get(int(v)) ∪ index.get(_float(v))` for an integer-valued number is
    `==` on the job's value -/
theorem dual_lookup_eq {w v : JVal} {n : Int} (h : intValued v = some n) :
    (slotEq (toIKey w) (.val (.int n)) || slotEq (toIKey w) (.val (.flt n 0 ""))) = ikEq (toIKey w) v := by
  obtain ⟨p, hp, hpn⟩ := intValued_spec h
  cases w with
  | obj kvs => rfl
  | null | bool _ | int _ | flt _ _ _ | str _ | arr _ =>
    simp only [toIKey, slotEq, ikEq]
    rw [pyEq_right_num (c := .int n) (c' := v) (p := (n, 0)) rfl hp (by rw [numEq_symm]; exact hpn),
      pyEq_right_num (c := .flt n 0 "") (c' := v) (p := (n, 0)) rfl hp (by rw [numEq_symm]; exact hpn)]
    cases pyEq _ v <;> simp [slotTag]

/-- a value `==` to a filter value that is not an integer-valued number sits in the slot the
    plain lookup `index.get(v)` probes -/
theorem slotTag_of_pyEq {w v : JVal} (h : intValued v = none)
    (he : pyEq w v = true) : slotTag w = slotTag v := by
  cases hv : numVal v with
  | none =>
    have hnv : isNumber v = false := by
      cases hn : isNumber v with
      | false => rfl
      | true => obtain ⟨p, hp⟩ := (isNumber_iff v).mp hn; rw [hp] at hv; cases hv
    have hnw : isNumber w = false := by rw [isNumber_of_pyEq he]; exact hnv
    have tv : slotTag v = 0 := by cases v <;> first | rfl | (simp [isNumber] at hnv)
    have tw : slotTag w = 0 := by cases w <;> first | rfl | (simp [isNumber] at hnw)
    rw [tv, tw]
  | some p =>
    obtain ⟨m, e⟩ := p
    have hnum : isNumber v = true := (isNumber_iff v).mpr ⟨_, hv⟩
    have hmod : ¬ (m % (2 : Int) ^ e = 0) := by
      intro hz
      unfold intValued at h
      rw [hv] at h
      simp only [hnum, Bool.true_and, beq_iff_eq] at h
      rw [if_pos hz] at h
      cases h
    -- v is not an exact integer, so it is a float, and so is anything equal to it
    have tv : slotTag v = 1 := by
      rcases slotTag_le_one v with t0 | t1
      · have := numVal_nonflt_exp hv t0
        simp only at this
        subst this
        simp at hmod
      · exact t1
    rcases slotTag_le_one w with t0 | t1
    · exfalso
      rw [pyEq_num_symm_right hv w] at he
      obtain ⟨q, hq, hmq⟩ := pyEq_num_true hv he
      have he0 := numVal_nonflt_exp hq t0
      obtain ⟨i, e'⟩ := q
      simp only at he0
      subst he0
      rw [numEq_iff] at hmq
      simp only [pow_zero, mul_one] at hmq
      apply hmod
      rw [hmq]
      exact Int.mul_emod_left i _
    · rw [t1, tv]

theorem single_lookup_eq {w v : JVal} (h : intValued v = none) :
    slotEq (toIKey w) (.val v) = ikEq (toIKey w) v := by
  cases w with
  | obj kvs => rfl
  | null | bool _ | int _ | flt _ _ _ | str _ | arr _ =>
    simp only [toIKey, slotEq, ikEq]
    cases he : pyEq _ v with
    | false => rfl
    | true => simp [slotTag_of_pyEq h he]

/-! ### one flattened atom: index lookup = per-job evaluation -/

theorem idx_ok_reps {nodes : List String} {docs : List (JobId × JVal)} (hfl : OkAt nodes docs)
    {idx : Index} (inv : IdxInv nodes docs idx) : ∀ r ids, (r, ids) ∈ idx → okKey r = true := by
  intro r ids hg
  obtain ⟨j, d, w, h1, h2, h3⟩ := inv.rep r ids hg
  rw [h3]; exact hfl j d w h1 h2

theorem get_mem_iff {nodes : List String} {docs : List (JobId × JVal)} (hu : UniqueIds docs)
    (hfl : OkAt nodes docs) (key : IKey) (i : JobId) :
    i ∈ Index.get key (buildIndex docs nodes) ↔
      ∃ d w, (i, d) ∈ docs ∧ getPath nodes d = some w ∧ slotEq (toIKey w) key = true := by
  have inv := buildIndex_inv hfl
  have hfr := idx_ok_reps hfl inv
  rw [get_spec inv.distinct hfr i]
  constructor
  · rintro ⟨r, ids, hg, hi, hr⟩
    obtain ⟨d, w, h1, h2, h3⟩ := inv.memb r ids hg i hi
    refine ⟨d, w, h1, h2, ?_⟩
    rw [← slotEq_eucl (hfr r ids hg) h3 key]; exact hr
  · rintro ⟨d, w, hd, hw, hk⟩
    obtain ⟨r, ids, hg, hi⟩ := inv.cover i d w hd hw
    refine ⟨r, ids, hg, hi, ?_⟩
    rw [slotEq_eucl (hfr r ids hg) (idx_member hu inv hg hi hd hw) key]; exact hk

theorem atomGood {P : Params} {docs : List (JobId × JVal)} (hu : UniqueIds docs)
    (hP : NearRespectsEq P) (hfl : ∀ nodes, OkAt nodes docs) (k : String) (v : JVal)
    (hwt : ∀ i d, (i, d) ∈ docs → ∃ b, evalAtom P d k v = .ok b)
    (hst : ∃ b, evalAtom P (.obj []) k v = .ok b)
    (hty : ∀ nodes, analyseKey k = .op nodes "$type" → TypeStable docs nodes) :
    AtomGood P docs k v := by
  unfold AtomGood findExpression
  obtain ⟨b0, hst⟩ := hst
  unfold evalAtom at hst
  cases hk : analyseKey k with
  | bad => rw [hk] at hst; cases hst
  | plain nodes =>
    simp only
    have hev : ∀ d, evalAtom P d k v = .ok (evalPlain (getPath nodes d) v) := by
      intro d; unfold evalAtom; rw [hk]
    cases hiv : intValued v with
    | some n =>
      refine ⟨_, rfl, ?_⟩
      intro i
      rw [List.mem_append, get_mem_iff hu (hfl nodes), get_mem_iff hu (hfl nodes)]
      constructor
      · rintro (⟨d, w, hd, hw, hs⟩ | ⟨d, w, hd, hw, hs⟩)
        all_goals
          refine ⟨d, hd, ?_⟩
          show evalAtom P d k v = .ok true
          rw [hev, hw]
          simp only [evalPlain, ← dual_lookup_eq (w := w) hiv, hs, Bool.true_or, Bool.or_true]
      · rintro ⟨d, hd, he⟩
        replace he : evalAtom P d k v = .ok true := he
        rw [hev] at he
        cases hw : getPath nodes d with
        | none => rw [hw] at he; simp [evalPlain] at he
        | some w =>
          rw [hw] at he
          simp only [evalPlain, Except.ok.injEq, ← dual_lookup_eq (w := w) hiv,
            Bool.or_eq_true] at he
          rcases he with he | he
          · exact Or.inl ⟨d, w, hd, hw, he⟩
          · exact Or.inr ⟨d, w, hd, hw, he⟩
    | none =>
      refine ⟨_, rfl, ?_⟩
      intro i
      rw [get_mem_iff hu (hfl nodes)]
      constructor
      · rintro ⟨d, w, hd, hw, hs⟩
        refine ⟨d, hd, ?_⟩
        show evalAtom P d k v = .ok true
        rw [hev, hw]
        simp only [evalPlain, ← single_lookup_eq (w := w) hiv, hs]
      · rintro ⟨d, hd, he⟩
        replace he : evalAtom P d k v = .ok true := he
        rw [hev] at he
        cases hw : getPath nodes d with
        | none => rw [hw] at he; simp [evalPlain] at he
        | some w =>
          rw [hw] at he
          simp only [evalPlain, Except.ok.injEq, ← single_lookup_eq (w := w) hiv] at he
          exact ⟨d, w, hd, hw, he⟩
  | op nodes op =>
    rw [hk] at hst
    simp only at hst ⊢
    have inv := buildIndex_inv (hfl nodes)
    have hfr := idx_ok_reps (hfl nodes) inv
    by_cases hidx : Extracted.INDEX_OPERATORS.contains op = true
    · rw [if_pos hidx] at hst ⊢
      cases hot : opTest P op v with
      | error e => rw [hot] at hst; cases hst
      | ok h =>
        have hev : ∀ d, evalAtom P d k v =
            (match getPath nodes d with | none => .ok false | some w => h (toIKey w)) := by
          intro d; unfold evalAtom; rw [hk]; simp only [if_pos hidx, hot]; cases getPath nodes d <;> rfl
        have hok : ∀ r ids, (r, ids) ∈ buildIndex docs nodes → ∃ b, h r = .ok b := by
          intro r ids hg
          obtain ⟨j, d, w, h1, h2, h3⟩ := inv.rep r ids hg
          obtain ⟨b, hb⟩ := hwt j d h1
          rw [hev, h2] at hb
          exact ⟨b, by rw [h3]; exact hb⟩
        obtain ⟨m, hm, hsel⟩ := matchGroups_spec (h := h) hok
        refine ⟨m, by simp only [findWithOp, hot, hm], ?_⟩
        have hcongr : ∀ r ids, (r, ids) ∈ buildIndex docs nodes → ∀ i ∈ ids, ∀ d w, (i, d) ∈ docs →
            getPath nodes d = some w → h r = h (toIKey w) := by
          intro r ids hg i hi d w hd hw
          refine opTest_congr hP hot (hfr r ids hg) (idx_member hu inv hg hi hd hw) ?_
          intro hopt
          obtain ⟨j, d0, w0, a, b, c⟩ := inv.rep r ids hg
          rw [c]
          have hs := idx_member hu inv hg hi hd hw
          rw [c] at hs
          exact hty nodes (by rw [hopt] at hk; exact hk) j d0 w0 i d w a hd b hw hs
        intro i
        rw [hsel i]
        constructor
        · rintro ⟨r, ids, hg, hi, hr⟩
          obtain ⟨d, w, h1, h2, _⟩ := inv.memb r ids hg i hi
          refine ⟨d, h1, ?_⟩
          show evalAtom P d k v = .ok true
          rw [hev, h2]
          simp only
          rw [← hcongr r ids hg i hi d w h1 h2]; exact hr
        · rintro ⟨d, hd, he⟩
          replace he : evalAtom P d k v = .ok true := he
          rw [hev] at he
          cases hw : getPath nodes d with
          | none => rw [hw] at he; cases he
          | some w =>
            rw [hw] at he
            simp only at he
            obtain ⟨r, ids, hg, hi⟩ := inv.cover i d w hd hw
            exact ⟨r, ids, hg, hi, by rw [hcongr r ids hg i hi d w hd hw]; exact he⟩
    · rw [if_neg hidx] at hst ⊢
      by_cases hex : op = "$exists"
      · rw [if_pos hex] at hst ⊢
        cases v with
        | bool b =>
          simp only
          have hev : ∀ d, evalAtom P d k (.bool b) =
              (match getPath nodes d with | none => .ok (!b) | some _ => .ok b) := by
            intro d; unfold evalAtom; rw [hk]; simp only [if_neg hidx, if_pos hex]; cases getPath nodes d <;> rfl
          refine ⟨_, rfl, ?_⟩
          intro i
          have hmem : i ∈ (buildIndex docs nodes).members ↔
              ∃ d w, (i, d) ∈ docs ∧ getPath nodes d = some w := by
            rw [mem_members]
            constructor
            · rintro ⟨r, ids, hg, hi⟩
              obtain ⟨d, w, h1, h2, _⟩ := inv.memb r ids hg i hi
              exact ⟨d, w, h1, h2⟩
            · rintro ⟨d, w, hd, hw⟩
              exact inv.cover i d w hd hw
          cases b with
          | true =>
            simp only [if_true]
            rw [hmem]
            constructor
            · rintro ⟨d, w, hd, hw⟩
              exact ⟨d, hd, by show evalAtom P d k (.bool true) = .ok true; rw [hev, hw]⟩
            · rintro ⟨d, hd, he⟩
              replace he : evalAtom P d k (.bool true) = .ok true := he
              rw [hev] at he
              cases hw : getPath nodes d with
              | none => rw [hw] at he; simp at he
              | some w => exact ⟨d, w, hd, hw⟩
          | false =>
            simp only [Bool.false_eq_true, if_false]
            rw [mem_diffIds, mem_allIds, hmem]
            constructor
            · rintro ⟨⟨d, hd⟩, hn⟩
              refine ⟨d, hd, ?_⟩
              show evalAtom P d k (.bool false) = .ok true
              rw [hev]
              cases hw : getPath nodes d with
              | none => rfl
              | some w => exact absurd ⟨d, w, hd, hw⟩ hn
            · rintro ⟨d, hd, he⟩
              replace he : evalAtom P d k (.bool false) = .ok true := he
              rw [hev] at he
              refine ⟨⟨d, hd⟩, ?_⟩
              rintro ⟨d', w, hd', hw⟩
              have : d' = d := hu i d' d hd' hd
              subst this
              rw [hw] at he
              simp at he
        | _ => simp at hst
      · rw [if_neg hex] at hst; cases hst

/-! ### assembly over the filter structure -/

mutual
  theorem good_of_wt {P : Params} {docs : List (JobId × JVal)} (hu : UniqueIds docs)
      (hP : NearRespectsEq P) (hfl : ∀ nodes, OkAt nodes docs) :
      ∀ f : Flt, WTon P (DocsAnd0 docs) f → NoClash docs f → Good P docs f
    | .mk atoms n a o, hwt, hnc => by
      obtain ⟨hc1, hc2, hc3, hc4⟩ := hnc
      cases hne : (atoms.isEmpty && n.isNone && a.isNone && o.isNone) with
      | true =>
        simp only [Bool.and_eq_true, List.isEmpty_iff, Option.isNone_iff_eq_none] at hne
        obtain ⟨⟨⟨rfl, rfl⟩, rfl⟩, rfl⟩ := hne
        exact ⟨by simp [flatten], trivial, trivial, trivial⟩
      | false =>
        have parts := fun d hd => (hwt d hd).elim (fun b hb => evalRef_ok_parts hne hb)
        refine ⟨?_, ?_, ?_, ?_⟩
        · intro kv hkv
          refine atomGood hu hP hfl kv.1 kv.2 ?_ ?_ (hc1 kv hkv)
          · intro i d hd
            obtain ⟨⟨b1, h1⟩, _⟩ := parts d (Or.inr ⟨i, hd⟩)
            exact evalAtoms_ok_mem h1 kv hkv
          · obtain ⟨⟨b1, h1⟩, _⟩ := parts (.obj []) (Or.inl rfl)
            exact evalAtoms_ok_mem h1 kv hkv
        · exact good_of_wt_opt hu hP hfl n (fun d hd => (parts d hd).2.1) hc2
        · exact good_of_wt_all hu hP hfl a (fun d hd => (parts d hd).2.2.1) hc3
        · exact good_of_wt_any hu hP hfl o (fun d hd => (parts d hd).2.2.2) hc4
  theorem good_of_wt_opt {P : Params} {docs : List (JobId × JVal)} (hu : UniqueIds docs)
      (hP : NearRespectsEq P) (hfl : ∀ nodes, OkAt nodes docs) :
      ∀ n : Option Flt, (∀ d, DocsAnd0 docs d → ∃ b, evalNot P d n = .ok b) → NoClashOpt docs n →
        GoodOpt P docs n
    | none, _, _ => trivial
    | some f, h, hnc => by
      have hw : WTon P (DocsAnd0 docs) f := by
        intro d hd
        obtain ⟨b, hb⟩ := h d hd
        simp only [evalNot] at hb
        cases h1 : evalRef P d f with
        | error e => rw [h1] at hb; cases hb
        | ok b1 => exact ⟨b1, rfl⟩
      exact ⟨wt_of_wton hw, good_of_wt hu hP hfl f hw hnc⟩
  theorem good_of_wt_all {P : Params} {docs : List (JobId × JVal)} (hu : UniqueIds docs)
      (hP : NearRespectsEq P) (hfl : ∀ nodes, OkAt nodes docs) :
      ∀ a : Option (List Flt), (∀ d, DocsAnd0 docs d → ∃ b, evalAllOpt P d a = .ok b) →
        NoClashOptList docs a → GoodOptList P docs a
    | none, _, _ => trivial
    | some [], h, _ => by
      obtain ⟨b, hb⟩ := h (.obj []) (Or.inl rfl)
      simp [evalAllOpt] at hb
    | some (f :: fs), h, hnc =>
      ⟨by simp, good_of_wt_list hu hP hfl (f :: fs)
        (fun g hg d hd => (h d hd).elim (fun b hb => evalAll_ok_mem hb g hg)) hnc⟩
  theorem good_of_wt_any {P : Params} {docs : List (JobId × JVal)} (hu : UniqueIds docs)
      (hP : NearRespectsEq P) (hfl : ∀ nodes, OkAt nodes docs) :
      ∀ o : Option (List Flt), (∀ d, DocsAnd0 docs d → ∃ b, evalAnyOpt P d o = .ok b) →
        NoClashOptList docs o → GoodOptList P docs o
    | none, _, _ => trivial
    | some [], h, _ => by
      obtain ⟨b, hb⟩ := h (.obj []) (Or.inl rfl)
      simp [evalAnyOpt] at hb
    | some (f :: fs), h, hnc =>
      ⟨by simp, good_of_wt_list hu hP hfl (f :: fs)
        (fun g hg d hd => (h d hd).elim (fun b hb => evalAny_ok_mem hb g hg)) hnc⟩
  theorem good_of_wt_list {P : Params} {docs : List (JobId × JVal)} (hu : UniqueIds docs)
      (hP : NearRespectsEq P) (hfl : ∀ nodes, OkAt nodes docs) :
      ∀ fs : List Flt, (∀ g ∈ fs, WTon P (DocsAnd0 docs) g) → NoClashList docs fs →
        GoodList P docs fs
    | [], _, _ => trivial
    | f :: fs, h, hnc =>
      ⟨wt_of_wton (h f (by simp)), good_of_wt hu hP hfl f (h f (by simp)) hnc.1,
        good_of_wt_list hu hP hfl fs (fun g hg => h g (by simp [hg])) hnc.2⟩
end

/-- `_find_result` on a well-typed, clash-free filter: exactly the jobs `evalRef` accepts -/
theorem findResult_exact {P : Params} {docs : List (JobId × JVal)} (hu : UniqueIds docs)
    (hP : NearRespectsEq P) (hfl : ∀ nodes, OkAt nodes docs) (f : Flt)
    (hwt : WTon P (DocsAnd0 docs) f) (hnc : NoClash docs f) :
    ∃ r, findResult P docs f = .ok r ∧ Sel docs (fun d => evalRef P d f = .ok true) r :=
  findResult_spec hu f (good_of_wt hu hP hfl f hwt hnc)

/-! ### corpus level -/

mutual
  /-- job data in which every mapping that sits inside a list (at any depth) has distinct keys;
      mappings outside lists are only ever descended into, never compared, so nothing is asked of
      them.  Weaker than both `dataFlat` (no mappings in lists) and `keysOK`. -/
  def listsOK : JVal → Bool
    | .obj kvs => listsOKKVs kvs
    | .arr xs => keysOKList xs
    | _ => true
  def listsOKKVs : List (String × JVal) → Bool
    | [] => true
    | (_, v) :: rest => listsOK v && listsOKKVs rest
end

theorem listsOK_lookup : ∀ {kvs : List (String × JVal)} {n : String} {w : JVal},
    listsOKKVs kvs = true → lookupKV n kvs = some w → listsOK w = true
  | [], _, _, _, h => by simp [lookupKV] at h
  | (k, v) :: rest, n, w, hf, h => by
    simp only [listsOKKVs, Bool.and_eq_true] at hf
    simp only [lookupKV] at h
    by_cases hk : n = k
    · rw [if_pos hk] at h; cases h; exact hf.1
    · rw [if_neg hk] at h; exact listsOK_lookup hf.2 h

theorem listsOK_getPath : ∀ {nodes : List String} {d w : JVal},
    listsOK d = true → getPath nodes d = some w → listsOK w = true
  | [], d, w, hf, h => by simp only [getPath, Option.some.injEq] at h; rw [← h]; exact hf
  | n :: ns, .obj kvs, w, hf, h => by
    simp only [getPath] at h
    cases hl : lookupKV n kvs with
    | none => rw [hl] at h; cases h
    | some x =>
      rw [hl] at h
      exact listsOK_getPath (listsOK_lookup (by simpa [listsOK] using hf) hl) h
  | _ :: _, .null, _, _, h => by simp [getPath] at h
  | _ :: _, .bool _, _, _, h => by simp [getPath] at h
  | _ :: _, .int _, _, _, h => by simp [getPath] at h
  | _ :: _, .flt _ _ _, _, _, h => by simp [getPath] at h
  | _ :: _, .str _, _, _, h => by simp [getPath] at h
  | _ :: _, .arr _, _, _, h => by simp [getPath] at h

theorem okKey_of_listsOK {w : JVal} (h : listsOK w = true) : okKey (toIKey w) = true := by
  cases w with
  | obj kvs => rfl
  | arr xs => simpa [toIKey, okKey, keysOK, listsOK] using h
  | _ => rfl

mutual
  theorem listsOK_of_keysOK : ∀ (v : JVal), keysOK v = true → listsOK v = true
    | .null, _ => rfl
    | .bool _, _ => rfl
    | .int _, _ => rfl
    | .flt _ _ _, _ => rfl
    | .str _, _ => rfl
    | .arr xs, h => by simpa [keysOK, listsOK] using h
    | .obj kvs, h => by
      simp only [keysOK, Bool.and_eq_true] at h
      simp only [listsOK]; exact listsOKKVs_of_keysOK kvs h.2
  theorem listsOKKVs_of_keysOK : ∀ (kvs : List (String × JVal)), keysOKKVs kvs = true →
      listsOKKVs kvs = true
    | [], _ => rfl
    | (_, v) :: rest, h => by
      simp only [keysOKKVs, Bool.and_eq_true] at h
      simp only [listsOKKVs, Bool.and_eq_true]
      exact ⟨listsOK_of_keysOK v h.1, listsOKKVs_of_keysOK rest h.2⟩
end

mutual
  theorem listsOK_of_dataFlat : ∀ (v : JVal), dataFlat v = true → listsOK v = true
    | .null, _ => rfl
    | .bool _, _ => rfl
    | .int _, _ => rfl
    | .flt _ _ _, _ => rfl
    | .str _, _ => rfl
    | .arr xs, h => by
      simp only [dataFlat] at h; simp only [listsOK]; exact keysOKList_of_flat xs h
    | .obj kvs, h => by
      simp only [dataFlat] at h; simp only [listsOK]; exact listsOKKVs_of_dataFlat kvs h
  theorem listsOKKVs_of_dataFlat : ∀ (kvs : List (String × JVal)), dataFlatKVs kvs = true →
      listsOKKVs kvs = true
    | [], _ => rfl
    | (_, v) :: rest, h => by
      simp only [dataFlatKVs, Bool.and_eq_true] at h
      simp only [listsOKKVs, Bool.and_eq_true]
      exact ⟨listsOK_of_dataFlat v h.1, listsOKKVs_of_dataFlat rest h.2⟩
end

/-- Every mapping inside a list, anywhere in a job's state point and document, has pairwise
    distinct keys. -/
def CorpusListsOK (c : Corpus) : Prop := ∀ j ∈ c, listsOK (fullDoc j) = true

/-- Every mapping anywhere in a job's state point and document has pairwise distinct keys.
    This is an invariant of Python dicts (and of what `json.loads` returns), not a restriction on
    the data: it only excludes association lists of the model that no Python dict corresponds to. -/
def CorpusKeysNodup (c : Corpus) : Prop := ∀ j ∈ c, keysOK (fullDoc j) = true

theorem corpusListsOK_of_keysNodup {c : Corpus} (h : CorpusKeysNodup c) : CorpusListsOK c :=
  fun j hj => listsOK_of_keysOK _ (h j hj)

/-- the flat case (no mappings inside lists at all) is a special case -/
theorem corpusListsOK_of_flat {c : Corpus} (h : CorpusFlat c) : CorpusListsOK c :=
  fun j hj => listsOK_of_dataFlat _ (h j hj)

theorem listsOK_indexed {j : Job} (h : listsOK (fullDoc j) = true) (b : Bool) :
    listsOK (indexedDoc b j) = true := by
  cases b with
  | true => exact h
  | false =>
    cases hd : j.doc with
    | none => simpa [fullDoc, indexedDoc, hd] using h
    | some x =>
      simp only [fullDoc, indexedDoc, hd, listsOK, listsOKKVs, Bool.and_eq_true, Bool.and_true] at h ⊢
      exact h.1

theorem okAt_indexed {c : Corpus} (h : CorpusListsOK c) (b : Bool) (nodes : List String) :
    OkAt nodes (indexedDocs b c) := by
  intro i d w hd hw
  obtain ⟨j, hj, _, rfl⟩ := mem_indexedDocs.mp hd
  exact okKey_of_listsOK (listsOK_getPath (listsOK_indexed (h j hj) b) hw)

/-- `Project._find_job_ids` for a split filter returns exactly the ids of the jobs whose own
    state point and document satisfy the filter under direct evaluation -/
theorem findFlt_exact_lists {P : Params} {c : Corpus} {f : Flt} (hids : (c.map (·.id)).Nodup)
    (hP : NearRespectsEq P) (hok : CorpusListsOK c) (hwt : WellTyped P c f)
    (hnc : NoBoolIntClash c f) :
    ∃ r, findFlt P c f = .ok r ∧
      ∀ i, i ∈ r ↔ ∃ j ∈ c, j.id = i ∧ evalRef P (fullDoc j) f = .ok true := by
  have hu := uniqueIds_indexed hids (includeDoc f)
  have hfl := okAt_indexed hok (includeDoc f)
  have hw : WTon P (DocsAnd0 (indexedDocs (includeDoc f) c)) f := by
    rintro d (rfl | ⟨i, hd⟩)
    · exact hwt.2
    · obtain ⟨j, hj, _, rfl⟩ := mem_indexedDocs.mp hd
      rw [evalRef_indexed]; exact hwt.1 j hj
  have hn : NoClash (indexedDocs (includeDoc f) c) f := by
    cases hi : includeDoc f with
    | true => exact hnc
    | false => exact noClash_sp_only f (by simpa [includeDoc] using hi) hnc
  obtain ⟨r, hr, hsel⟩ := findResult_exact hu hP hfl f hw hn
  refine ⟨r, hr, ?_⟩
  intro i
  rw [hsel i]
  constructor
  · rintro ⟨d, hd, he⟩
    obtain ⟨j, hj, hji, rfl⟩ := mem_indexedDocs.mp hd
    exact ⟨j, hj, hji, by rw [← evalRef_indexed]; exact he⟩
  · rintro ⟨j, hj, hji, he⟩
    exact ⟨_, mem_indexedDocs.mpr ⟨j, hj, hji, rfl⟩, by show evalRef P _ f = .ok true; rw [evalRef_indexed]; exact he⟩

/-- membership form of exactness: a job of the corpus is selected iff its own data satisfy the
    filter -/
theorem findFlt_mem_iff_lists {P : Params} {c : Corpus} {f : Flt} (hids : (c.map (·.id)).Nodup)
    (hP : NearRespectsEq P) (hok : CorpusListsOK c) (hwt : WellTyped P c f)
    (hnc : NoBoolIntClash c f) :
    ∃ r, findFlt P c f = .ok r ∧ (∀ i ∈ r, i ∈ c.map (·.id)) ∧
      ∀ j ∈ c, (j.id ∈ r ↔ evalRef P (fullDoc j) f = .ok true) := by
  obtain ⟨r, hr, h⟩ := findFlt_exact_lists hids hP hok hwt hnc
  refine ⟨r, hr, ?_, ?_⟩
  · intro i hi
    obtain ⟨j, hj, hji, _⟩ := (h i).mp hi
    exact List.mem_map.mpr ⟨j, hj, hji⟩
  · intro j hj
    rw [h j.id]
    constructor
    · rintro ⟨j', hj', he, hv⟩
      rw [job_unique hids hj hj' he.symm]; exact hv
    · intro hv; exact ⟨j, hj, rfl, hv⟩

/-- `findFlt_exact_lists` under the plain well-formedness of all mappings -/
theorem findFlt_exact {P : Params} {c : Corpus} {f : Flt} (hids : (c.map (·.id)).Nodup)
    (hP : NearRespectsEq P) (hok : CorpusKeysNodup c) (hwt : WellTyped P c f)
    (hnc : NoBoolIntClash c f) :
    ∃ r, findFlt P c f = .ok r ∧
      ∀ i, i ∈ r ↔ ∃ j ∈ c, j.id = i ∧ evalRef P (fullDoc j) f = .ok true :=
  findFlt_exact_lists hids hP (corpusListsOK_of_keysNodup hok) hwt hnc

theorem findFlt_mem_iff {P : Params} {c : Corpus} {f : Flt} (hids : (c.map (·.id)).Nodup)
    (hP : NearRespectsEq P) (hok : CorpusKeysNodup c) (hwt : WellTyped P c f)
    (hnc : NoBoolIntClash c f) :
    ∃ r, findFlt P c f = .ok r ∧ (∀ i ∈ r, i ∈ c.map (·.id)) ∧
      ∀ j ∈ c, (j.id ∈ r ↔ evalRef P (fullDoc j) f = .ok true) :=
  findFlt_mem_iff_lists hids hP (corpusListsOK_of_keysNodup hok) hwt hnc


end Signac.Query.Full

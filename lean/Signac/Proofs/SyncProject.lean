/-
  Job- and project-level composition of the sync model: which destination jobs a project sync
  touches, what a synchronised / cloned job looks like afterwards.  Core only.
-/
import Signac.Proofs.SyncDry
namespace Signac.Sync

/-! ### one job: the document merge only touches the document file and its backup -/

theorem lookupP_congr_head {n : Name} {es es' : Entries} (h : getE n es' = getE n es) (p : Path) :
    lookupP n p es' = lookupP n p es := by
  cases p with
  | nil => simpa [lookupP] using h
  | cons k q => simp only [lookupP, h]

theorem syncJobDirs_lookup (o : Opts) (src dst : Entries) (n : Name) (p : Path)
    (h1 : n ≠ Extracted.FN_JOB_DOCUMENT) (h2 : n ≠ Extracted.FN_JOB_DOCUMENT ++ "~") :
    lookupP n p (syncJobDirs o src dst).d = lookupP n p (walkDir o [] (.dir src) dst).d := by
  apply lookupP_congr_head
  unfold syncJobDirs
  dsimp only
  split
  · rfl
  · exact getE_syncDoc_other o _ src ⟨_, _⟩ n h1 h2

theorem syncJobDirs_walk_ok (o : Opts) (src dst : Entries) (h : (syncJobDirs o src dst).err = none) :
    (walkDir o [] (.dir src) dst).err = none := by
  unfold syncJobDirs at h
  dsimp only at h
  cases he : (walkDir o [] (.dir src) dst).err with
  | none => rfl
  | some e => simp [he] at h

/-! ### the loop over the source jobs -/

/-- root entries other than the workspace are not touched by the job loop -/
theorem syncJobs_root_other (o : Opts) (n : Name) (hn : n ≠ WS) (l : List (Name × Node)) :
    ∀ a, getE n (syncJobs o l a).d = getE n a.d := by
  induction l with
  | nil => intro a; simp [syncJobs]
  | cons hd tl ih =>
    intro a
    obtain ⟨id, sn⟩ := hd
    cases sn with
    | file m => simp only [syncJobs]; exact ih a
    | dir sjob =>
      simp only [syncJobs]
      cases hws : getE WS a.d with
      | none => exact ih a
      | some wsn =>
        cases wsn with
        | file m => exact ih a
        | dir ws =>
          dsimp only
          split
          · cases hj : getE id ws with
            | none =>
              dsimp only
              split
              · exact ih a
              · rw [ih]; exact getE_setE_other hn _ _
            | some dn =>
              cases dn with
              | file m => exact ih a
              | dir djob =>
                dsimp only
                split
                · exact getE_setE_other hn _ _
                · rw [ih]; exact getE_setE_other hn _ _
          · exact ih a

/-- `unselected_never_touched` (and: jobs the source does not have): the job loop leaves every
    destination job alone that is not a selected source job -/
theorem syncJobs_job_other (o : Opts) (id : Name) (l : List (Name × Node))
    (h : ∀ sn, (id, sn) ∈ l → selected o id = false) :
    ∀ a, getE id (wsOf (syncJobs o l a).d) = getE id (wsOf a.d) := by
  induction l with
  | nil => intro a; simp [syncJobs]
  | cons hd tl ih =>
    intro a
    obtain ⟨k, sn⟩ := hd
    have h' : ∀ sn, (id, sn) ∈ tl → selected o id = false :=
      fun sn hm => h sn (List.mem_cons_of_mem _ hm)
    have ih' := ih h'
    cases sn with
    | file m => simp only [syncJobs]; exact ih' a
    | dir sjob =>
      simp only [syncJobs]
      cases hws : getE WS a.d with
      | none => exact ih' a
      | some wsn =>
        cases wsn with
        | file m => exact ih' a
        | dir ws =>
          dsimp only
          by_cases hsel : selected o k = true
          · have hkid : id ≠ k := by
              intro e; subst e
              have := h (.dir sjob) List.mem_cons_self
              rw [hsel] at this; cases this
            simp only [hsel, if_true]
            cases hj : getE k ws with
            | none =>
              dsimp only
              split
              · exact ih' a
              · rw [ih']; exact wsOf_step _ hws hkid
            | some dn =>
              cases dn with
              | file m => exact ih' a
              | dir djob =>
                dsimp only
                split
                · exact wsOf_step _ hws hkid
                · rw [ih']; exact wsOf_step _ hws hkid
          · simp only [hsel]; exact ih' a

theorem syncJobs_ws_dir (o : Opts) (l : List (Name × Node)) :
    ∀ a ws, getE WS a.d = some (.dir ws) → ∃ ws', getE WS (syncJobs o l a).d = some (.dir ws') := by
  induction l with
  | nil => intro a ws h; exact ⟨ws, by simpa [syncJobs] using h⟩
  | cons hd tl ih =>
    intro a ws hws
    obtain ⟨id, sn⟩ := hd
    cases sn with
    | file m => simp only [syncJobs]; exact ih a ws hws
    | dir sjob =>
      simp only [syncJobs, hws]
      split
      · cases hj : getE id ws with
        | none =>
          dsimp only
          split
          · exact ih a ws hws
          · exact ih _ _ (getE_setE_same _ _ _)
        | some dn =>
          cases dn with
          | file m => exact ih a ws hws
          | dir djob =>
            dsimp only
            split
            · exact ⟨_, getE_setE_same _ _ _⟩
            · exact ih _ _ (getE_setE_same _ _ _)
      · exact ih a ws hws

/-- what a selected source job has become in the destination after a successful real run:
    a clone if it did not exist, the result of `sync_jobs` (which succeeded) if it did -/
theorem syncJobs_job (o : Opts) (hdry : o.dry = false) (id : Name) (sjob : Entries) (l : List (Name × Node)) :
    ∀ a ws, (names l).Nodup → getE id l = some (.dir sjob) → selected o id = true →
    getE WS a.d = some (.dir ws) → (syncJobs o l a).err = none →
    (getE id ws = none ∧
      getE id (wsOf (syncJobs o l a).d) = some (.dir (cloneJob o sjob)))
    ∨ (∃ djob, getE id ws = some (.dir djob) ∧ (syncJobDirs o sjob djob).err = none ∧
      getE id (wsOf (syncJobs o l a).d) = some (.dir (syncJobDirs o sjob djob).d))
    ∨ (∃ m, getE id ws = some (.file m)) := by
  induction l with
  | nil => intro a ws _ h; simp [getE] at h
  | cons hd tl ih =>
    intro a ws hnd hl hsel hws hok
    obtain ⟨k, sn⟩ := hd
    have hnd' : (names tl).Nodup := (List.nodup_cons.mp hnd).2
    have hk : k ∉ names tl := (List.nodup_cons.mp hnd).1
    by_cases hkid : k = id
    · subst hkid
      have hsn : sn = .dir sjob := by simpa [getE] using hl
      subst hsn
      have hno : ∀ sn, (k, sn) ∈ tl → selected o k = false := by
        intro sn hm
        exact absurd (List.mem_map_of_mem (f := Prod.fst) hm) hk
      simp only [syncJobs, hws, hsel, if_true] at hok ⊢
      cases hj : getE k ws with
      | none =>
        left
        simp only [hj, hdry, Bool.false_eq_true, if_false] at hok ⊢
        refine ⟨trivial, ?_⟩
        rw [syncJobs_job_other o k tl hno, wsOf_setE_WS, getE_setE_same]
      | some dn =>
        cases dn with
        | file m => right; right; exact ⟨m, rfl⟩
        | dir djob =>
          right; left
          simp only [hj] at hok ⊢
          cases he : (syncJobDirs o sjob djob).err with
          | some e => simp [he] at hok
          | none =>
            simp only [he] at hok ⊢
            refine ⟨djob, rfl, he, ?_⟩
            rw [syncJobs_job_other o k tl hno, wsOf_setE_WS, getE_setE_same]
    · have hl' : getE id tl = some (.dir sjob) := by simpa [getE, hkid] using hl
      have hidk : id ≠ k := fun e => hkid e.symm
      -- one iteration: the accumulator keeps the entry `id` of the workspace
      cases sn with
      | file m =>
        simp only [syncJobs] at hok ⊢
        exact ih a ws hnd' hl' hsel hws hok
      | dir sk =>
        simp only [syncJobs, hws] at hok ⊢
        by_cases hselk : selected o k = true
        · simp only [hselk, if_true] at hok ⊢
          cases hj : getE k ws with
          | none =>
            simp only [hj, hdry, Bool.false_eq_true, if_false] at hok ⊢
            have := ih _ (setE k (.dir (cloneJob o sk)) ws) hnd' hl' hsel
              (getE_setE_same _ _ _) hok
            simpa [getE_setE_other hidk] using this
          | some dn =>
            cases dn with
            | file m =>
              simp only [hj] at hok ⊢
              exact ih a ws hnd' hl' hsel hws hok
            | dir djob =>
              simp only [hj] at hok ⊢
              cases he : (syncJobDirs o sk djob).err with
              | some e => simp [he] at hok
              | none =>
                simp only [he] at hok ⊢
                have := ih _ (setE k (.dir (syncJobDirs o sk djob).d) ws) hnd' hl' hsel
                  (getE_setE_same _ _ _) hok
                simpa [getE_setE_other hidk] using this
        · simp only [hselk] at hok ⊢
          exact ih a ws hnd' hl' hsel hws hok

/-! ### state points -/

theorem cloneIgnored_sp (o : Opts) : cloneIgnored o Extracted.FN_STATE_POINT = false := by
  simp [cloneIgnored]

/-- a cloned job carries the source's state point file (same bytes) -/
theorem clone_sp (o : Opts) (sjob : Entries) (m : FMeta)
    (h : getE Extracted.FN_STATE_POINT sjob = some (.file m)) :
    getE Extracted.FN_STATE_POINT (cloneJob o sjob) = some (.file (touch o.now m)) := by
  rw [cloneJob, getE_copyTop, cloneIgnored_sp]
  simp [h, copyNode]

theorem sp_ne_doc : Extracted.FN_STATE_POINT ≠ Extracted.FN_JOB_DOCUMENT := by decide
theorem sp_ne_doc_bak : Extracted.FN_STATE_POINT ≠ Extracted.FN_JOB_DOCUMENT ++ "~" := by decide

/-- `sync_jobs` never touches the destination's state point file -/
theorem syncJobDirs_sp (o : Opts) (sjob djob : Entries) (m : FMeta) (hw : WFEntries sjob)
    (hsp : o.spPat Extracted.FN_STATE_POINT = true)
    (h : getE Extracted.FN_STATE_POINT djob = some (.file m)) :
    getE Extracted.FN_STATE_POINT (syncJobDirs o sjob djob).d = some (.file m) := by
  have hx : excluded o Extracted.FN_STATE_POINT = true := by simp [excluded, hsp]
  have h1 := syncJobDirs_lookup o sjob djob Extracted.FN_STATE_POINT [] sp_ne_doc sp_ne_doc_bak
  simp only [lookupP] at h1
  rw [h1]
  have := walk_excluded_not_modified o [] Extracted.FN_STATE_POINT [] sjob djob m hw
    (by simpa [lastName] using hx) (by simpa [lookupP] using h)
  simpa [lookupP] using this

end Signac.Sync

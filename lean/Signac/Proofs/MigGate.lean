/- Helper lemmas for C20: the version gate as seen through Project() / get_project /
   init_project (the functions of Signac.Discovery). -/
import Signac.Proofs.DiscLocate
import Signac.Proofs.DiscJob
import Signac.Proofs.MigChain
namespace Signac.Disc
open Signac

theorem openProject_refused (t : Tree) (p : Path) (v : Option Nat) (hc : t.cfg p = some v)
    (hv : v.getD 1 ≠ Mig.SCHEMA) : openProject t p = (.error .incompatible, []) := by
  have hg : ¬ (Mig.gate (v.getD 1) = .ok) := fun h => hv ((Mig.gate_ok_iff _).mp h)
  unfold openProject
  rw [hc]
  simp [hg]

theorem getProject_refused (t : Tree) (p : Path) (v : Option Nat) (hc : t.cfg p = some v)
    (hv : v.getD 1 ≠ Mig.SCHEMA) (hk : t.kind p ≠ .absent) (s : Bool) :
    getProject t p s = (.error .incompatible, []) := by
  have hp : isProject t p = true := by simp [isProject, hc]
  unfold getProject getProjectFrom locateConfigDir
  simp [hk, hp, findProject_self hp, openProject_refused t p v hc hv]

theorem initProject_refused (t : Tree) (p : Path) (v : Option Nat) (hc : t.cfg p = some v)
    (hv : v.getD 1 ≠ Mig.SCHEMA) (hk : t.kind p ≠ .absent) :
    initProject t p = (.error .incompatible, []) := by
  have hp : isProject t p = true := by simp [isProject, hc]
  rw [initProject_existing t p hp hk, openProject_refused t p v hc hv]

theorem olderErr_legacy (t : Tree) (p : Path) (v : Nat) (hr : t.rc p = some v) (hv : v ≠ Mig.SCHEMA) :
    olderErr t p = some .incompatible := by
  simp [olderErr, hr, Mig.raiseIfOlder, hv]

theorem openProject_legacy (t : Tree) (p : Path) (v : Nat) (hc : t.cfg p = none)
    (hr : t.rc p = some v) (hv : v ≠ Mig.SCHEMA) : openProject t p = (.error .incompatible, []) := by
  unfold openProject
  rw [hc]
  simp [olderErr_legacy t p v hr hv]

theorem getProject_nosearch_legacy (t : Tree) (p : Path) (hc : t.cfg p = none) :
    getProject t p false = (.error .lookup, []) := by
  unfold getProject
  by_cases hk : t.kind p = .absent
  · simp [hk]
  · simp [hk, isProject, hc]

theorem initProject_legacy (t : Tree) (p : Path) (v : Nat) (hc : t.cfg p = none)
    (hr : t.rc p = some v) (hv : v ≠ Mig.SCHEMA) : initProject t p = (.error .incompatible, []) := by
  unfold initProject
  rw [getProject_nosearch_legacy t p hc]
  simp [olderErr_legacy t p v hr hv]

theorem findOlder_self (t : Tree) (p : Path) (e : Err) (h : olderErr t p = some e) :
    findOlder t p = some e := by
  cases p <;> simp [findOlder, h]

theorem getProject_search_legacy (t : Tree) (p : Path) (v : Nat)
    (hr : t.rc p = some v) (hv : v ≠ Mig.SCHEMA) (hk : t.kind p ≠ .absent)
    (hnone : ∀ r, r <:+ p → isProject t r = false) :
    getProject t p true = (.error .incompatible, []) := by
  unfold getProject getProjectFrom locateConfigDir
  simp [hk, (findProject_none t p).mpr hnone, findOlder_self t p _ (olderErr_legacy t p v hr hv)]

theorem getProject_never_legacy (t : Tree) (p : Path) (hc : t.cfg p = none) (s : Bool) :
    (getProject t p s).1 ≠ .ok p := by
  intro h
  cases s
  · have := (getProject_nosearch_ok_iff t p p).mp h
    simp [isProject, hc] at this
  · have := (getProject_search_ok_iff t p p).mp h
    have := this.2.1.2.1
    simp [isProject, hc] at this

end Signac.Disc

/-
  Every step of every lifecycle program stays inside the operation's own directories
  (`Op.keys`); with `exec_frame` this gives: all other job directories are untouched under
  every event schedule (crashes, torn writes, any number of faults).
-/
import Signac.Proofs.LifeBasic
namespace Signac.Life

variable {Sp : Type}

abbrev Within (ks : List Key) : Step Sp → Prop := fun s => ∀ k ∈ s.keys, k ∈ ks

macro "prog_all" : tactic => `(tactic| repeat' (first
   | assumption
   | exact Prog.All.done _
   | refine Prog.All.look _ (fun _ => ?_)
   | refine Prog.All.step _ _ (by simp [Within, Step.keys, *]) (fun _ => ?_)
   | split))

theorem seqProg_all {φ : Step Sp → Prop} {onErr : Errno → Prog Sp} {next : Prog Sp}
    (he : ∀ e, Prog.All φ (onErr e)) (hn : Prog.All φ next) :
    ∀ ss : List (Step Sp), (∀ s ∈ ss, φ s) → Prog.All φ (seqProg onErr next ss)
  | [], _ => hn
  | s :: ss, h => by
    simp only [seqProg]
    refine Prog.All.step _ _ (h s (List.mem_cons_self ..)) (fun o => ?_)
    split
    · exact seqProg_all he hn ss (fun s' hs' => h s' (List.mem_cons_of_mem _ hs'))
    · exact he _

theorem saveProg_all (k : Key) (v : Sp) (f : Bool) {ks : List Key} (hk : k ∈ ks) {next : Prog Sp}
    (hn : Prog.All (Within ks) next) : Prog.All (Within ks) (saveProg k v f next) := by
  simp only [saveProg]
  prog_all

theorem loadProg_all (C : Codec Sp) (k : Key) (φ : Step Sp → Prop) : Prog.All φ (loadProg C k) := by
  simp only [loadProg]; prog_all

theorem initProg_all (C : Codec Sp) (k : Key) (v : Sp) (f : Bool) {ks : List Key} (hk : k ∈ ks) :
    Prog.All (Within ks) (initProg C k v f) := by
  simp only [initProg]
  refine Prog.All.look _ (fun _ => ?_)
  split
  · exact .done _
  · split
    · exact saveProg_all k v f hk (loadProg_all C k _)
    · refine Prog.All.step _ _ (by simp [Within, Step.keys, hk]) (fun _ => ?_)
      split
      · exact .done _
      · exact saveProg_all k v f hk (loadProg_all C k _)

theorem rekeyProg_all (C : Codec Sp) (x y : Key) (v : Sp) {ks : List Key} (hx : x ∈ ks) (hy : y ∈ ks) :
    Prog.All (Within ks) (rekeyProg C x y v) := by
  have hi := initProg_all C y v false hy
  simp only [rekeyProg]
  prog_all

theorem moveProg_all (a b : Key) {ks : List Key} (ha : a ∈ ks) (hb : b ∈ ks) :
    Prog.All (Within (Sp := Sp) ks) (moveProg a b) := by
  simp only [moveProg]
  prog_all

theorem copyList_all (src : JobDir Sp) (dst : Key) {ks : List Key} (hd : dst ∈ ks) :
    ∀ (rs : List Ref) (errs : Bool) (failed : List String), Prog.All (Within ks) (copyList src dst rs errs failed)
  | [], errs, failed => by simp only [copyList]; exact .done _
  | r :: rs, errs, failed => by
    have ih := copyList_all src dst hd rs
    simp only [copyList]
    split
    · exact ih _ _
    · split
      · refine Prog.All.step _ _ (by simp [Within, Step.keys, *]) (fun _ => ?_)
        split <;> exact ih _ _
      · refine Prog.All.step _ _ (by simp [Within, Step.keys, *]) (fun _ => ?_)
        split
        · exact ih _ _
        · split
          · exact ih _ _
          · refine Prog.All.step _ _ (by simp [Within, Step.keys, *]) (fun _ => ?_)
            split <;> exact ih _ _

theorem cloneProg_all (src dst : Key) (order : List Ref) {ks : List Key} (hd : dst ∈ ks) :
    Prog.All (Within (Sp := Sp) ks) (cloneProg src dst order) := by
  simp only [cloneProg]
  refine Prog.All.look _ (fun _ => ?_)
  split
  · exact .done _
  · refine Prog.All.step _ _ (by simp [Within, Step.keys, *]) (fun _ => ?_)
    split
    · exact copyList_all _ dst hd _ _ _
    · prog_all

theorem rmOrder_within (k : Key) : ∀ (rs : List Ref) (stack : List String) (s : Step Sp),
    s ∈ rmOrder k rs stack → s.keys = [k]
  | [], stack, s, h => by
    simp only [rmOrder, List.mem_map] at h
    obtain ⟨p, _, rfl⟩ := h; rfl
  | r :: rs, stack, s, h => by
    simp only [rmOrder, List.mem_append, List.mem_map] at h
    rcases h with ⟨p, _, rfl⟩ | h
    · rfl
    · split at h
      · exact rmOrder_within k rs _ s h
      · rcases List.mem_cons.mp h with rfl | h
        · rfl
        · exact rmOrder_within k rs _ s h

theorem rmErr_all (φ : Step Sp → Prop) (e : Errno) : Prog.All φ (rmErr e) := by
  simp only [rmErr]; split <;> exact .done _

theorem removeProg_all (k : Key) (order : List Ref) {ks : List Key} (hk : k ∈ ks) :
    Prog.All (Within (Sp := Sp) ks) (removeProg k order) := by
  simp only [removeProg]
  refine Prog.All.look _ (fun _ => ?_)
  split
  · exact .done _
  · refine seqProg_all (rmErr_all _) (.done _) _ ?_
    intro s hs
    simp only [removeSteps, List.mem_append, List.mem_singleton] at hs
    rcases hs with hs | rfl
    · intro k' hk'; rw [rmOrder_within k _ _ s hs] at hk'; simp at hk'; subst hk'; exact hk
    · intro k' hk'; simp [Step.keys] at hk'; subst hk'; exact hk

theorem clearProg_all (k : Key) (order : List Ref) {ks : List Key} (hk : k ∈ ks) :
    Prog.All (Within (Sp := Sp) ks) (clearProg k order) := by
  simp only [clearProg]
  refine Prog.All.look _ (fun _ => ?_)
  split
  · exact .done _
  · refine seqProg_all (rmErr_all _) (.done _) _ ?_
    intro s hs
    simp only [clearSteps, List.mem_append, List.mem_cons, List.not_mem_nil, or_false] at hs
    rcases hs with hs | rfl | rfl | rfl
    · intro k' hk'; rw [rmOrder_within k _ _ s hs] at hk'; simp at hk'; subst hk'; exact hk
    all_goals (intro k' hk'; simp [Step.keys] at hk'; subst hk'; exact hk)

theorem opProg_all (C : Codec Sp) (op : Op Sp) : Prog.All (Within op.keys) (op.prog C) := by
  cases op with
  | init k v f => exact initProg_all C k v f (by simp [Op.keys])
  | rekey x y v => exact rekeyProg_all C x y v (by simp [Op.keys]) (by simp [Op.keys])
  | move a b => exact moveProg_all a b (by simp [Op.keys]) (by simp [Op.keys])
  | clone s d o => exact cloneProg_all s d o (by simp [Op.keys])
  | remove k o => exact removeProg_all k o (by simp [Op.keys])
  | clear k o => exact clearProg_all k o (by simp [Op.keys])

/-- every directory outside the operation's own ones is untouched, under every event schedule -/
theorem op_frame (C : Codec Sp) (op : Op Sp) (ev : Nat → Option Ev) (w : World Sp) {k : Key}
    (hk : k ∉ op.keys) : (run C ev (op.prog C) w).w k = w k :=
  exec_frame C ev op.keys (opProg_all C op) w {} hk

end Signac.Life

/-
  Helper lemmas for C06 (and the finding F-6b): when `doc` is not among the root keys of a filter
  (with `_root_keys` descending into `$not`), no atom of the filter looks into the job document,
  so indexing state points only is enough.  Core only.
-/
import Signac.Query
namespace Signac.Query
open Signac

theorem takeWhile_append_stop {α : Type} (p : α → Bool) (a : List α) (x : α) (s : List α)
    (hx : p x = false) : List.takeWhile p (a ++ x :: s) = List.takeWhile p a := by
  induction a with
  | nil => simp [List.takeWhile, hx]
  | cons y ys ih =>
    simp only [List.cons_append, List.takeWhile]
    cases p y with
    | true => simp only [ih]
    | false => rfl

theorem headNode_append_dot (a s : List Char) : headNode (a ++ '.' :: s) = headNode a :=
  takeWhile_append_stop _ a '.' s (by decide)

theorem rootOf_dot (key k : String) : rootOf (key ++ "." ++ k) = rootOf key := by
  simp only [rootOf, String.toList_append]
  have : (".": String).toList = ['.'] := rfl
  rw [this, List.append_assoc, List.singleton_append, headNode_append_dot]

mutual
  /-- flattening keeps the first component of the key -/
  theorem flattenVal_root : ∀ (v : JVal) (key : String) (kv : String × JVal),
      kv ∈ flattenVal key v → rootOf kv.1 = rootOf key
    | .obj [], key, kv, h => by
      simp only [flattenVal, List.mem_singleton] at h; rw [h]
    | .obj ((k, v) :: rest), key, kv, h => by
      simp only [flattenVal] at h
      exact flattenKVs_root ((k, v) :: rest) key kv h
    | .null, key, kv, h => by simp only [flattenVal, List.mem_singleton] at h; rw [h]
    | .bool _, key, kv, h => by simp only [flattenVal, List.mem_singleton] at h; rw [h]
    | .int _, key, kv, h => by simp only [flattenVal, List.mem_singleton] at h; rw [h]
    | .flt _ _ _, key, kv, h => by simp only [flattenVal, List.mem_singleton] at h; rw [h]
    | .str _, key, kv, h => by simp only [flattenVal, List.mem_singleton] at h; rw [h]
    | .arr _, key, kv, h => by simp only [flattenVal, List.mem_singleton] at h; rw [h]
  theorem flattenKVs_root : ∀ (kvs : List (String × JVal)) (key : String) (kv : String × JVal),
      kv ∈ flattenKVs key kvs → rootOf kv.1 = rootOf key
    | [], key, kv, h => by simp [flattenKVs] at h
    | (k, v) :: rest, key, kv, h => by
      simp only [flattenKVs, List.mem_append] at h
      rcases h with h | h
      · rw [flattenVal_root v _ kv h, rootOf_dot]
      · exact flattenKVs_root rest key kv h
end

theorem flatten_root : ∀ (atoms : List (String × JVal)) (kv : String × JVal),
    kv ∈ flatten atoms → ∃ a ∈ atoms, rootOf kv.1 = rootOf a.1
  | [], kv, h => by simp [flatten] at h
  | (k, v) :: rest, kv, h => by
    simp only [flatten, List.mem_append] at h
    rcases h with h | h
    · exact ⟨(k, v), by simp, flattenVal_root v k kv h⟩
    · obtain ⟨a, ha, e⟩ := flatten_root rest kv h
      exact ⟨a, by simp [ha], e⟩

theorem splitDot_head : ∀ cs : List Char, ∃ t, splitDot cs = headNode cs :: t
  | [] => ⟨[], rfl⟩
  | c :: cs => by
    obtain ⟨t, ht⟩ := splitDot_head cs
    by_cases hc : c = '.'
    · subst hc
      exact ⟨splitDot cs, by simp [splitDot, headNode, List.takeWhile]⟩
    · refine ⟨t, ?_⟩
      have : (c != '.') = true := by simp [hc]
      simp only [splitDot, if_neg hc, ht, headNode, List.takeWhile, this]

/-- the first component the index path of a key starts with -/
def firstNode : KeyKind → Option String
  | .plain (n :: _) => some n
  | .op (n :: _) _ => some n
  | _ => none

theorem dropLastNodes_head (h : List Char) : ∀ (x : List Char) (t : List (List Char)),
    dropLastNodes (h :: x :: t) = h :: dropLastNodes (x :: t) := by
  intro x t; rfl

/-- the index path of an analysed key is never empty, and it starts with the key's root or `""` -/
theorem analyseKey_first (key : String) :
    (∃ n, firstNode (analyseKey key) = some n ∧ (n = rootOf key ∨ n = "")) ∨ analyseKey key = .bad := by
  unfold analyseKey
  simp only
  obtain ⟨t, ht⟩ := splitDot_head key.toList
  by_cases h0 : countDollar key.toList = 0
  · rw [if_pos h0]
    left
    exact ⟨rootOf key, by simp [nodesOf, ht, firstNode, rootOf], Or.inl rfl⟩
  · rw [if_neg h0]
    by_cases h1 : countDollar key.toList > 1
    · rw [if_pos h1]; right; rfl
    · rw [if_neg h1]
      cases hl : lastNode (splitDot key.toList) with
      | nil => right; rfl
      | cons c rest =>
        by_cases hc : c = '$'
        · subst hc
          left
          simp only
          rw [ht]
          cases t with
          | nil => exact ⟨"", by simp [dropLastNodes, firstNode], Or.inr rfl⟩
          | cons x t' =>
            refine ⟨rootOf key, ?_, Or.inl rfl⟩
            simp [dropLastNodes, firstNode, rootOf]
        · right
          have : ∀ (r : List Char), (match c :: r with
              | '$' :: rest => KeyKind.op
                  (if (dropLastNodes (splitDot key.toList)).isEmpty then [""]
                   else (dropLastNodes (splitDot key.toList)).map String.ofList) (String.ofList ('$' :: rest))
              | _ => KeyKind.bad) = KeyKind.bad := by
            intro r
            split
            · rename_i heq; simp only [List.cons.injEq] at heq; exact absurd heq.1 hc
            · rfl
          exact this rest

theorem getPath_sp_only {n : String} (ns : List String) (hn : n ≠ "doc") (s x : JVal) :
    getPath (n :: ns) (.obj [("sp", s)]) = getPath (n :: ns) (.obj [("sp", s), ("doc", x)]) := by
  simp only [getPath, lookupKV]
  by_cases h : n = "sp"
  · simp [h]
  · simp [h, hn]

/-- an atom's verdict depends on the document only through the value under its index path -/
theorem evalAtom_congr {P : Params} {d d' : JVal} {k : String} {v : JVal}
    (h : ∀ nodes, (analyseKey k = .plain nodes ∨ ∃ op, analyseKey k = .op nodes op) →
      getPath nodes d = getPath nodes d') :
    evalAtom P d k v = evalAtom P d' k v := by
  unfold evalAtom
  cases hk : analyseKey k with
  | bad => rfl
  | plain nodes => simp only [h nodes (Or.inl hk)]
  | op nodes op => simp only [h nodes (Or.inr ⟨op, hk⟩)]

theorem evalAtom_doc_free {P : Params} {k : String} (hk : rootOf k ≠ "doc") (v s x : JVal) :
    evalAtom P (.obj [("sp", s)]) k v = evalAtom P (.obj [("sp", s), ("doc", x)]) k v := by
  apply evalAtom_congr
  intro nodes hn
  rcases analyseKey_first k with ⟨n, hf, hroot⟩ | hbad
  · have hne : n ≠ "doc" := by
      rcases hroot with rfl | rfl
      · exact hk
      · decide
    rcases hn with hn | ⟨op, hn⟩
    · rw [hn] at hf
      cases nodes with
      | nil => simp [firstNode] at hf
      | cons m ms =>
        simp only [firstNode, Option.some.injEq] at hf
        subst hf
        exact getPath_sp_only ms hne s x
    · rw [hn] at hf
      cases nodes with
      | nil => simp [firstNode] at hf
      | cons m ms =>
        simp only [firstNode, Option.some.injEq] at hf
        subst hf
        exact getPath_sp_only ms hne s x
  · rcases hn with hn | ⟨op, hn⟩ <;> rw [hbad] at hn <;> cases hn

theorem evalAtoms_congr {P : Params} {d d' : JVal} : ∀ (l : List (String × JVal)),
    (∀ kv ∈ l, evalAtom P d kv.1 kv.2 = evalAtom P d' kv.1 kv.2) → evalAtoms P d l = evalAtoms P d' l
  | [], _ => rfl
  | (k, v) :: rest, h => by
    simp only [evalAtoms]
    rw [h (k, v) (by simp), evalAtoms_congr rest (fun kv hkv => h kv (by simp [hkv]))]

mutual
  /-- a filter that does not mention `doc` among its root keys (at any depth, `$not` included)
      evaluates the same with and without the job document -/
  theorem evalRef_doc_free {P : Params} (s x : JVal) : ∀ f : Flt, ¬ "doc" ∈ rootKeys f →
      evalRef P (.obj [("sp", s)]) f = evalRef P (.obj [("sp", s), ("doc", x)]) f
    | .mk atoms n a o, h => by
      simp only [rootKeys, List.mem_append, not_or] at h
      obtain ⟨⟨⟨h1, h2⟩, h3⟩, h4⟩ := h
      have e1 : evalAtoms P (.obj [("sp", s)]) (flatten atoms)
          = evalAtoms P (.obj [("sp", s), ("doc", x)]) (flatten atoms) := by
        apply evalAtoms_congr
        intro kv hkv
        obtain ⟨a', ha', hr⟩ := flatten_root atoms kv hkv
        apply evalAtom_doc_free
        rw [hr]
        intro hd
        exact h1 (List.mem_map.mpr ⟨a', ha', hd⟩)
      simp only [evalRef, e1, evalNot_doc_free s x n h2, evalAllOpt_doc_free s x a h3,
        evalAnyOpt_doc_free s x o h4]
  theorem evalNot_doc_free {P : Params} (s x : JVal) : ∀ n : Option Flt, ¬ "doc" ∈ rootKeysOpt n →
      evalNot P (.obj [("sp", s)]) n = evalNot P (.obj [("sp", s), ("doc", x)]) n
    | none, _ => rfl
    | some f, h => by simp only [evalNot, evalRef_doc_free s x f (by simpa [rootKeysOpt] using h)]
  theorem evalAllOpt_doc_free {P : Params} (s x : JVal) : ∀ a : Option (List Flt),
      ¬ "doc" ∈ rootKeysOptList a →
      evalAllOpt P (.obj [("sp", s)]) a = evalAllOpt P (.obj [("sp", s), ("doc", x)]) a
    | none, _ => rfl
    | some [], _ => rfl
    | some (f :: fs), h => by
      simp only [evalAllOpt]
      exact evalAll_doc_free s x (f :: fs) (by simpa [rootKeysOptList] using h)
  theorem evalAll_doc_free {P : Params} (s x : JVal) : ∀ fs : List Flt, ¬ "doc" ∈ rootKeysList fs →
      evalAll P (.obj [("sp", s)]) fs = evalAll P (.obj [("sp", s), ("doc", x)]) fs
    | [], _ => rfl
    | f :: fs, h => by
      simp only [rootKeysList, List.mem_append, not_or] at h
      simp only [evalAll, evalRef_doc_free s x f h.1, evalAll_doc_free s x fs h.2]
  theorem evalAnyOpt_doc_free {P : Params} (s x : JVal) : ∀ o : Option (List Flt),
      ¬ "doc" ∈ rootKeysOptList o →
      evalAnyOpt P (.obj [("sp", s)]) o = evalAnyOpt P (.obj [("sp", s), ("doc", x)]) o
    | none, _ => rfl
    | some [], _ => rfl
    | some (f :: fs), h => by
      simp only [evalAnyOpt]
      exact evalAny_doc_free s x (f :: fs) (by simpa [rootKeysOptList] using h)
  theorem evalAny_doc_free {P : Params} (s x : JVal) : ∀ fs : List Flt, ¬ "doc" ∈ rootKeysList fs →
      evalAny P (.obj [("sp", s)]) fs = evalAny P (.obj [("sp", s), ("doc", x)]) fs
    | [], _ => rfl
    | f :: fs, h => by
      simp only [rootKeysList, List.mem_append, not_or] at h
      simp only [evalAny, evalRef_doc_free s x f h.1, evalAny_doc_free s x fs h.2]
end

/-- what the code indexes is enough: the verdict on the indexed document is the verdict on the
    job's full data -/
theorem evalRef_indexed (P : Params) (j : Job) (f : Flt) :
    evalRef P (indexedDoc (includeDoc f) j) f = evalRef P (fullDoc j) f := by
  cases hi : includeDoc f with
  | true => rfl
  | false =>
    cases hd : j.doc with
    | none => simp only [indexedDoc, fullDoc, hd]
    | some x =>
      simp only [indexedDoc, fullDoc, hd]
      apply evalRef_doc_free
      simpa [includeDoc] using hi

end Signac.Query

/-
  Shape of the digest: 16 bytes, 32 lower-case hex characters.  Core only.
-/
import Signac.Md5
namespace Signac

def hexAlphabet : List Char := "0123456789abcdef".toList

theorem hexDigit_mem (n : Nat) (h : n < 16) : hexDigit n ∈ hexAlphabet := by
  have : ∀ m : Fin 16, hexDigit m.val ∈ hexAlphabet := by decide
  exact this ⟨n, h⟩

theorem md5_length (msg : List UInt8) : (md5 msg).length = 16 := by
  simp [md5, wordBytes]

theorem hexOfBytes_length (bs : List UInt8) : (hexOfBytes bs).length = 2 * bs.length := by
  induction bs with
  | nil => rfl
  | cons b bs ih => simp [hexOfBytes, byteHex, ih]; omega

theorem hexOfBytes_hex (bs : List UInt8) : ∀ c ∈ hexOfBytes bs, c ∈ hexAlphabet := by
  induction bs with
  | nil => intro c h; simp [hexOfBytes] at h
  | cons b bs ih =>
    intro c h
    simp only [hexOfBytes, byteHex, List.cons_append, List.nil_append, List.mem_cons] at h
    rcases h with h | h | h
    · subst h
      apply hexDigit_mem
      have := b.toNat_lt
      omega
    · subst h
      apply hexDigit_mem
      omega
    · exact ih c h

theorem md5hexChars_length (msg : List UInt8) : (md5hexChars msg).length = 32 := by
  simp [md5hexChars, hexOfBytes_length, md5_length]

theorem md5hexChars_hex (msg : List UInt8) : ∀ c ∈ md5hexChars msg, c ∈ hexAlphabet :=
  hexOfBytes_hex _

end Signac

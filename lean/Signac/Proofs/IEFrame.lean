/-
  Helper lemmas for C16: what an import can do to the importing project, for EVERY archive /
  directory tree, schema and destination: existing jobs stay as they are, no id appears twice,
  every write goes below `workspace/<new id>/`, and export members lie below their job's path.
-/
import Signac.ImportExport
import Signac.Proofs.IERoundtrip
namespace Signac.IE
open Signac

/-- a write of the import: `workspace/<id>/<rel>` where `id` is not a job of the destination and
    every component of `rel` is the state point file name or a component of an archive member -/
def FrameOK (files : List (Comps × Content)) (dst : Project) (w : Comps) : Prop :=
  ∃ id rel, w = wsName :: id :: rel ∧ hasId id dst = false ∧
    ∀ c ∈ rel, c = fnSp ∨ ∃ fc ∈ files, c ∈ fc.1

theorem mem_filesUnder {d : Comps} {files : List (Comps × Content)} {x : Comps × Content}
    (h : x ∈ filesUnder d files) : ∃ fc ∈ files, x.1 = fc.1.drop d.length := by
  simp only [filesUnder, List.mem_map, List.mem_filter] at h
  rcases h with ⟨fc, ⟨hfc, _⟩, rfl⟩
  exact ⟨fc, hfc, rfl⟩

theorem writesOf_frame (files : List (Comps × Content)) (dst : Project) (d : Comps) (id : String)
    (hid : hasId id dst = false) : ∀ w ∈ writesOf id (filesUnder d files), FrameOK files dst w := by
  intro w hw
  simp only [writesOf, List.mem_map] at hw
  rcases hw with ⟨x, hx, rfl⟩
  rcases mem_filesUnder hx with ⟨fc, hfc, hrel⟩
  refine ⟨id, x.1, rfl, hid, ?_⟩
  intro c hc
  rw [hrel] at hc
  exact Or.inr ⟨fc, hfc, List.mem_of_mem_drop hc⟩

theorem hasId_append (id : String) (p q : Project) : hasId id (p ++ q) = (hasId id p || hasId id q) := by
  simp [hasId, List.any_append]

theorem hasId_mono {id : String} {p q : Project} (h : hasId id (p ++ q) = false) : hasId id p = false := by
  rw [hasId_append] at h
  cases hp : hasId id p with
  | false => rfl
  | true => simp [hp] at h

/-! ### one `copytree` + `init()` -/

theorem copyInit_proj (hash : JVal → String) (files : List (Comps × Content)) (d : Comps) (id : String)
    (sp : JVal) (r : ImportResult) :
    (copyInit hash files d id sp r).proj = r.proj
    ∨ (hasId id r.proj = false ∧ ∃ fs, (copyInit hash files d id sp r).proj = r.proj ++ [⟨id, fs⟩]) := by
  unfold copyInit
  split
  · exact Or.inl rfl
  · rename_i h
    have h' : hasId id r.proj = false := by
      cases hc : hasId id r.proj with
      | false => rfl
      | true => exact absurd hc h
    refine Or.inr ⟨h', ?_⟩
    dsimp only
    split
    · exact ⟨_, rfl⟩
    · exact ⟨_, rfl⟩

theorem copyInit_writes (hash : JVal → String) (files : List (Comps × Content)) (dst : Project)
    (d : Comps) (id : String) (sp : JVal) (r : ImportResult)
    (hdst : ∃ extra, r.proj = dst ++ extra) (hw : ∀ w ∈ r.writes, FrameOK files dst w) :
    ∀ w ∈ (copyInit hash files d id sp r).writes, FrameOK files dst w := by
  unfold copyInit
  split
  · exact hw
  · rename_i h
    have hid : hasId id dst = false := by
      rcases hdst with ⟨extra, hex⟩
      have h' : hasId id r.proj = false := by
        cases hc : hasId id r.proj with
        | false => rfl
        | true => exact absurd hc h
      rw [hex] at h'
      exact hasId_mono h'
    dsimp only
    split
    · rename_i fs' w' heq
      intro w hw'
      simp only [List.mem_append] at hw'
      rcases hw' with (hw' | hw') | hw'
      · exact hw w hw'
      · exact writesOf_frame files dst d id hid w hw'
      · -- the state point file written by `init()`
        unfold initJob at heq
        split at heq
        · split at heq
          · cases heq; cases hw'
          · cases heq
        · cases heq
        · cases heq
        · cases heq
          simp only [List.mem_singleton] at hw'
          subst hw'
          exact ⟨id, [fnSp], rfl, hid, by intro c hc; left; simpa using hc⟩
    · intro w hw'
      simp only [List.mem_append] at hw'
      rcases hw' with hw' | hw'
      · exact hw w hw'
      · exact writesOf_frame files dst d id hid w hw'

/-- the three facts every copy loop preserves -/
structure Safe (files : List (Comps × Content)) (dst : Project) (r : ImportResult) : Prop where
  keeps : ∃ extra, r.proj = dst ++ extra
  nodup : (r.proj.map (·.id)).Nodup
  frame : ∀ w ∈ r.writes, FrameOK files dst w

theorem nodup_append_fresh {p : Project} {id : String} {fs : List (Comps × Content)}
    (hnd : (p.map (·.id)).Nodup) (hid : hasId id p = false) :
    ((p ++ [(⟨id, fs⟩ : Job)]).map (·.id)).Nodup := by
  rw [List.map_append, List.nodup_append]
  refine ⟨hnd, by simp, ?_⟩
  intro a ha b hb hab
  simp only [List.map_cons, List.map_nil, List.mem_singleton] at hb
  subst hb
  rcases List.mem_map.mp ha with ⟨j, hj, hja⟩
  exact (hasId_false_iff _ p).mp hid j hj (hja.trans hab)

theorem copyInit_safe (hash : JVal → String) (files : List (Comps × Content)) (dst : Project)
    (d : Comps) (id : String) (sp : JVal) (r : ImportResult) (h : Safe files dst r) :
    Safe files dst (copyInit hash files d id sp r) where
  keeps := by
    rcases h.keeps with ⟨extra, hex⟩
    rcases copyInit_proj hash files d id sp r with h' | ⟨_, fs, h'⟩
    · exact ⟨extra, h'.trans hex⟩
    · exact ⟨extra ++ [⟨id, fs⟩], by rw [h', hex, List.append_assoc]⟩
  nodup := by
    rcases copyInit_proj hash files d id sp r with h' | ⟨hid, fs, h'⟩
    · rw [h']; exact h.nodup
    · rw [h']; exact nodup_append_fresh h.nodup hid
  frame := copyInit_writes hash files dst d id sp r h.keeps h.frame

theorem tarCopy_safe (hash : JVal → String) (files : List (Comps × Content)) (dst : Project) :
    ∀ (maps : List (Comps × String × JVal)) (r : ImportResult), Safe files dst r →
      Safe files dst (tarCopy hash files maps r) := by
  intro maps
  induction maps with
  | nil => intro r h; simpa [tarCopy] using h
  | cons m rest ih =>
    intro r h
    obtain ⟨d, id, sp⟩ := m
    simp only [tarCopy]
    split
    · exact copyInit_safe hash files dst d id sp r h
    · exact ih _ (copyInit_safe hash files dst d id sp r h)

theorem crawl_safe (hash : JVal → String) (sf : Comps → Except Err (Option JVal))
    (files : List (Comps × Content)) (dst : Project) :
    ∀ (dirs found : List Comps) (seen : List String) (r : ImportResult), Safe files dst r →
      Safe files dst (crawl hash sf files dirs found seen r) := by
  intro dirs
  induction dirs with
  | nil => intro found seen r h; simpa [crawl] using h
  | cons d rest ih =>
    intro found seen r h
    simp only [crawl]
    split
    · exact ih _ _ _ h
    · split
      · exact ⟨h.keeps, h.nodup, h.frame⟩
      · exact ih _ _ _ h
      · split
        · exact ⟨h.keeps, h.nodup, h.frame⟩
        · split
          · exact copyInit_safe hash files dst d _ _ r h
          · exact ih _ _ _ (copyInit_safe hash files dst d _ _ r h)

/-! ### the analysis loop only maps to fresh ids -/

theorem scan_fresh (pol : Policy) (hash : JVal → String) (sf : Comps → Except Err (Option JVal))
    (dstIds : List String) :
    ∀ (dirs skip : List Comps) (maps out : List (Comps × String × JVal)),
      scan pol hash sf dstIds dirs skip maps = .ok out →
      ∀ m ∈ out, m ∈ maps ∨ dstIds.contains m.2.1 = false := by
  intro dirs
  induction dirs with
  | nil =>
    intro skip maps out h m hm
    simp only [scan] at h
    cases h
    exact Or.inl hm
  | cons d rest ih =>
    intro skip maps out h m hm
    simp only [scan] at h
    split at h
    · exact ih _ _ _ h m hm
    · split at h
      · cases h
      · exact ih _ _ _ h m hm
      · rename_i sp _
        split at h
        · cases h
        · rename_i hc
          rcases ih _ _ _ h m hm with h' | h'
          · rcases List.mem_append.mp h' with h'' | h''
            · exact Or.inl h''
            · simp only [List.mem_singleton] at h''
              subst h''
              right
              cases hcc : dstIds.contains (hash sp) with
              | false => rfl
              | true => exact absurd hcc hc
          · exact Or.inr h'

theorem zipCopy_writes (files : List (Comps × Content)) (dst : Project) :
    ∀ (maps : List (Comps × String × JVal)) (r : ImportResult),
      (∀ m ∈ maps, hasId m.2.1 dst = false) → (∀ w ∈ r.writes, FrameOK files dst w) →
      ∀ w ∈ (zipCopy files maps r).writes, FrameOK files dst w := by
  intro maps
  induction maps with
  | nil => intro r _ hw; simpa [zipCopy] using hw
  | cons m rest ih =>
    intro r hm hw
    obtain ⟨d, id, sp⟩ := m
    simp only [zipCopy]
    apply ih
    · exact fun m' hm' => hm m' (List.mem_cons_of_mem _ hm')
    · intro w hw'
      simp only [List.mem_append] at hw'
      rcases hw' with hw' | hw'
      · exact hw w hw'
      · exact writesOf_frame files dst d id (hm (d, id, sp) List.mem_cons_self) w hw'

theorem hasId_of_not_contains {id : String} {p : Project} (h : (p.map (·.id)).contains id = false) :
    hasId id p = false := by
  rw [hasId_false_iff]
  intro j hj heq
  have : id ∈ p.map (·.id) := List.mem_map.mpr ⟨j, hj, heq⟩
  rw [List.contains_iff_mem.mpr this] at h
  exact absurd h (by decide)

theorem importZip_safe (hash : JVal → String) (schema : Schema) (dst : Project)
    (files : List (Comps × Content)) (hnd : (dst.map (·.id)).Nodup) :
    Safe files dst (importZip hash schema dst files) := by
  unfold importZip
  dsimp only
  split
  · exact ⟨⟨[], by simp⟩, hnd, by intro w hw; cases hw⟩
  · rename_i maps hscan
    split
    · exact ⟨⟨[], by simp⟩, hnd, by intro w hw; cases hw⟩
    · rename_i hids
      have hids' : (maps.map (·.2.1)).Nodup := by
        rw [← idsNodup_iff]
        cases hc : idsNodup (maps.map (·.2.1)) with
        | true => rfl
        | false => simp [hc] at hids
      have hfresh : ∀ m ∈ maps, hasId m.2.1 dst = false := by
        intro m hm
        rcases scan_fresh _ _ _ _ _ _ _ _ hscan m hm with h | h
        · cases h
        · exact hasId_of_not_contains h
      rcases zipCopy_spec files maps ⟨dst, none, []⟩ with ⟨h1, _⟩
      refine ⟨⟨maps.map (toJob files), h1⟩, ?_, zipCopy_writes files dst maps _ hfresh (by intro w hw; cases hw)⟩
      rw [h1, List.map_append, List.nodup_append]
      refine ⟨hnd, by rw [maps_ids]; exact hids', ?_⟩
      intro a ha b hb hab
      rw [maps_ids] at hb
      rcases List.mem_map.mp hb with ⟨m, hm, hmb⟩
      rcases List.mem_map.mp ha with ⟨j, hj, hja⟩
      exact (hasId_false_iff _ _).mp (hfresh m hm) j hj (hja.trans (hab.trans hmb.symm))

theorem importTar_safe (hash : JVal → String) (schema : Schema) (dst : Project)
    (files : List (Comps × Content)) (dirs : List Comps) (hnd : (dst.map (·.id)).Nodup) :
    Safe files dst (importTar hash schema dst files dirs) := by
  have h0 : Safe files dst ⟨dst, none, []⟩ := ⟨⟨[], by simp⟩, hnd, by intro w hw; cases hw⟩
  unfold importTar
  split
  · exact ⟨⟨[], by simp⟩, hnd, by intro w hw; cases hw⟩
  · split
    · exact ⟨⟨[], by simp⟩, hnd, by intro w hw; cases hw⟩
    · exact tarCopy_safe hash files dst _ _ h0

theorem importDir_safe (hash : JVal → String) (schema : Schema) (dst : Project)
    (files : List (Comps × Content)) (order : List Comps) (hnd : (dst.map (·.id)).Nodup) :
    Safe files dst (importDir hash schema dst files order) := by
  unfold importDir
  exact crawl_safe hash _ files dst _ _ _ _ ⟨⟨[], by simp⟩, hnd, by intro w hw; cases hw⟩

/-- nothing of `FrameOK` can leave the job directory when no member name has a `..` component -/
theorem frame_no_dotdot {files : List (Comps × Content)} {dst : Project} {w : Comps}
    (h : FrameOK files dst w) (hfiles : ∀ fc ∈ files, ".." ∉ fc.1) :
    ∃ id rel, w = wsName :: id :: rel ∧ hasId id dst = false ∧ ".." ∉ rel := by
  rcases h with ⟨id, rel, hw, hid, hrel⟩
  refine ⟨id, rel, hw, hid, ?_⟩
  intro hmem
  rcases hrel ".." hmem with h' | ⟨fc, hfc, hc⟩
  · exact absurd h' (by decide)
  · exact hfiles fc hfc hc

/-! ### export -/

theorem exportMembers_under (P : Project) (ds : List Comps) :
    ∀ m ∈ exportMembers P ds, ∃ j d f, (j, d) ∈ P.zip ds ∧ (f, m.2) ∈ j.files ∧ m.1 = d ++ f := by
  intro m hm
  rcases members_path (E := P.zip ds) hm with ⟨e, he, f, c, hf, rfl⟩
  exact ⟨e.1, e.2, f, he, hf, rfl⟩

theorem exportMembers_complete (P : Project) (ds : List Comps) :
    ∀ e ∈ P.zip ds, ∀ fc ∈ e.1.files, (e.2 ++ fc.1, fc.2) ∈ exportMembers P ds := by
  intro e he fc hfc
  unfold exportMembers
  refine List.mem_flatMap.mpr ⟨e, he, ?_⟩
  unfold exportBlock
  exact List.mem_map.mpr ⟨fc, hfc, rfl⟩

end Signac.IE

/- `Job.init` satisfies `InitSpec` under every event schedule. -/
import Signac.Proofs.LifeSave
namespace Signac.Life
variable {Sp : Type}

theorem corrupt_of_sp_none (C : Codec Sp) (w : World Sp) (k : Key) (d : JobDir Sp) (h : w k = some d)
    (hs : d.sp = none) : corruptAt C w k = true := by
  simp [corruptAt, h, JobDir.valid, hs]

theorem not_valid_of_sp_none (C : Codec Sp) (w : World Sp) (k : Key) (d : JobDir Sp) (h : w k = some d)
    (hs : d.sp = none) : validAt C w k = false := by
  simp [validAt, h, JobDir.valid, hs]

theorem corrupt_of_not_valid (C : Codec Sp) (w : World Sp) (k : Key) (d : JobDir Sp) (h : w k = some d)
    (hv : validAt C w k = false) : corruptAt C w k = true := by
  simp only [validAt, h] at hv
  simp [corruptAt, h, hv]

/-- the common part: the directory exists with payload/backup `d`, no state-point file; run
    `save` then the closing `load` -/
theorem init_write (C : Codec Sp) (ev : Nat → Option Ev) (k : Key) (v : Sp) (w : World Sp) (a : Acc Sp)
    (d : JobDir Sp) (hd : w k = some d) (hsp : d.sp = none)
    (Q : Outcome Sp → Prop)
    (hQ : ∀ w' r a' d', w' k = some d' → d'.entries = d.entries → d'.bak = d.bak →
      (d'.sp = none ∨ d'.sp = some (.ok v)) →
      (r = .ok → validAt C w' k = true ∧ a'.faulted = a.faulted) →
      (∀ n, r = .exc n → corruptAt C w' k = true) → Q ⟨w', r, a'⟩) :
    Q (exec C ev (saveProg k v false (loadProg C k)) a w) := by
  refine save_absent C ev Q k v (loadProg C k) w d ?_ ?_ a hd hsp ?_
  · intro w' a' d' h1 h2 _
    exact hQ w' _ a' d' h1 h2.2.1 h2.2.2 (Or.inl h2.1) (by simp) (by simp)
  · intro w' a' d' e h1 h2 _ _
    exact hQ w' _ a' d' h1 h2.2.1 h2.2.2 (Or.inl h2.1) (by simp [osExc])
      (fun _ _ => corrupt_of_sp_none C w' k d' h1 h2.1)
  · intro w' a' d' h1 _ h3
    simp only [loadProg, exec]
    split
    · rename_i hv
      rcases h3 with ⟨h3, hf⟩ | ⟨h3, _⟩
      · simp only [exec]
        exact hQ w' _ a' d' h1 h3.2.1 h3.2.2 (Or.inr h3.1) (fun _ => ⟨hv, hf⟩) (by simp)
      · rw [not_valid_of_sp_none C w' k d' h1 h3.1] at hv; cases hv
    · rename_i hv
      simp only [exec]
      have hc := corrupt_of_not_valid C w' k d' h1 (by simpa using hv)
      rcases h3 with ⟨h3, _⟩ | ⟨h3, _⟩
      · exact hQ w' _ a' d' h1 h3.2.1 h3.2.2 (Or.inr h3.1) (by simp) (fun _ _ => hc)
      · exact hQ w' _ a' d' h1 h3.2.1 h3.2.2 (Or.inl h3.1) (by simp) (fun _ _ => hc)

/-- nothing changed: fine as long as a normal return means "valid and no fault consumed" -/
theorem initSpec_unchanged (C : Codec Sp) (k : Key) (v : Sp) (w : World Sp) (r : Res) (a : Acc Sp)
    (f0 : Bool) (h : r = .ok → validAt C w k = true ∧ a.faulted = f0) : InitSpec C k v w f0 ⟨w, r, a⟩ := by
  simp only [InitSpec, Outcome.faulted]
  refine ⟨?_, fun _ => Or.inl trivial, h, fun _ _ => Or.inl trivial⟩
  cases hw : w k with
  | none => exact Or.inl rfl
  | some d => exact ⟨d, rfl, rfl, rfl⟩

theorem init_exec (C : Codec Sp) (k : Key) (v : Sp) (w : World Sp) (ev : Nat → Option Ev) (a0 : Acc Sp) :
    InitSpec C k v w a0.faulted (exec C ev (initProg C k v false) a0 w) := by
  simp only [initProg]
  rw [exec]
  split
  · -- already valid: nothing happens
    rename_i hv
    simp only [exec]
    exact initSpec_unchanged C k v w _ _ _ (fun _ => ⟨hv, rfl⟩)
  · rename_i hv
    split
    · -- the directory exists
      rename_i hsome
      cases hw : w k with
      | none => simp [hw] at hsome
      | some d =>
        cases hsp : d.sp with
        | some c =>
          -- a (non-validating) state-point file is present: save skips, load raises
          have hhas : hasSpFile w k = true := by simp [hasSpFile, hw, hsp]
          simp only [saveProg]
          rw [exec]
          simp only [hhas, Bool.not_true, Bool.or_self, Bool.false_eq_true, if_false, loadProg]
          rw [exec]
          simp only [hv, Bool.false_eq_true, if_false, exec]
          exact initSpec_unchanged C k v w _ _ _ (by simp)
        | none =>
          refine init_write C ev k v w a0 d hw hsp _ ?_
          intro w' r a' d' h1 h2 h3 h4 h5 h6
          simp only [InitSpec, hw, h1, Outcome.faulted]
          refine ⟨⟨d', rfl, h2, h3⟩, ?_, ?_, fun n hn => Or.inr (h6 n hn)⟩
          · intro hv'
            right
            refine ⟨by simp [hasSpFile, hw, hsp], d', rfl, ?_⟩
            rcases h4 with h4 | h4
            · rw [not_valid_of_sp_none C w' k d' h1 h4] at hv'; cases hv'
            · exact h4
          · intro hr; exact h5 hr
    · -- the directory does not exist: mkdir first
      rename_i hnone
      have hw : w k = none := by
        cases h : w k with
        | none => rfl
        | some d => simp [h] at hnone
      have hQ0 : ∀ a r, r ≠ Res.ok → InitSpec C k v w a0.faulted ⟨w, r, a⟩ :=
        fun a r hr => initSpec_unchanged C k v w r a _ (fun h => absurd h hr)
      refine exec_step C ev _ _ _ _ _ (hQ0 _ _ (by simp)) (fun t => by simpa [tornApply] using hQ0 _ _ (by simp)) ?_ ?_ ?_
      · intro e _
        simp only [exec]
        exact hQ0 _ _ (by simp [osExc])
      · intro w1 hw1
        simp only [apply, hw] at hw1
        cases hw1
        refine init_write C ev k v _ _ {} (upd_same ..) rfl _ ?_
        intro w' r a' d' h1 h2 h3 h4 h5 h6
        simp only [InitSpec, hw, h1, Outcome.faulted]
        refine ⟨Or.inr ⟨d', rfl, h2, h3⟩, ?_, ?_, fun n hn => Or.inr (h6 n hn)⟩
        · intro hv'
          right
          refine ⟨by simp [hasSpFile, hw], d', rfl, ?_⟩
          rcases h4 with h4 | h4
          · rw [not_valid_of_sp_none C w' k d' h1 h4] at hv'; cases hv'
          · exact h4
        · intro hr; exact h5 hr
      · intro e he
        simp only [apply, hw] at he
        cases he

theorem init_spec (C : Codec Sp) (k : Key) (v : Sp) (w : World Sp) (ev : Nat → Option Ev) :
    InitSpec C k v w false (run C ev (initProg C k v false) w) :=
  init_exec C k v w ev {}

end Signac.Life

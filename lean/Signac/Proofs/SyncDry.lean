/-
  Dry runs of the sync model: no step, no change, and the same outcome as the real run.
  Core only.
-/
import Signac.Proofs.SyncPaths
import Signac.Proofs.SyncDoc
namespace Signac.Sync

/-- the same options with `dry_run=True` -/
def Opts.asDry (o : Opts) : Opts := { o with dry := true }

@[simp] theorem asDry_dry (o : Opts) : o.asDry.dry = true := rfl
@[simp] theorem asDry_recursive (o : Opts) : o.asDry.recursive = o.recursive := rfl
@[simp] theorem asDry_docSync (o : Opts) : o.asDry.docSync = o.docSync := rfl
@[simp] theorem asDry_checkSchema (o : Opts) : o.asDry.checkSchema = o.checkSchema := rfl
@[simp] theorem asDry_gate (o : Opts) : o.asDry.gate = o.gate := rfl
@[simp] theorem asDry_deep (o : Opts) : o.asDry.deep = o.deep := rfl
theorem asDry_excluded (o : Opts) (n : Name) : excluded o.asDry n = excluded o n := rfl
theorem asDry_verdict (o : Opts) (p : Path) (a b : FMeta) : verdict o.asDry p a b = verdict o p a b := rfl
theorem asDry_selected (o : Opts) (id : Name) : selected o.asDry id = selected o id := rfl

/-! ### no step, no change -/

theorem phase1_dry (o : Opts) (h : o.dry = true) (dst0 : Entries) (l : Entries) :
    ∀ a, phase1 o dst0 l a = a := by
  induction l with
  | nil => intro a; simp [phase1]
  | cons hd tl ih =>
    intro a
    obtain ⟨n, sn⟩ := hd
    simp only [phase1]
    split
    · exact ih a
    · split
      · rw [h, pPut_dry]; exact ih a
      · exact ih a

theorem phase2_dry (o : Opts) (h : o.dry = true) (sub : Path) (dst0 : Entries) (l : Entries) :
    ∀ a, (phase2 o sub dst0 l a).1 = a := by
  induction l with
  | nil => intro a; simp [phase2]
  | cons hd tl ih =>
    intro a
    obtain ⟨k, sk⟩ := hd
    rcases phase2_cons o sub dst0 k sk tl a with ⟨_, _, _, _, _, _, _, he⟩ | he | ⟨_, _, _, _, _, _, _, he⟩
    · rw [he]
    · rw [he]; exact ih a
    · rw [he, h, pPut_dry]; exact ih a

mutual
  theorem walkDir_dry (o : Opts) (h : o.dry = true) (sub : Path) : (sn : Node) → (des : Entries) →
      (walkDir o sub sn des).d = des ∧ (walkDir o sub sn des).log = []
    | .file _, des => by simp [walkDir]
    | .dir ses, des => by
      have e2 : acc2 o sub ses des = ⟨des, []⟩ := by
        unfold acc2; rw [phase1_dry o h, phase2_dry o h]
      rw [walkDir_dir']
      split
      · simp [e2]
      · split
        · have := walkSubs_dry o h sub des ses (acc2 o sub ses des)
          rw [e2] at this ⊢
          exact this
        · simp [e2]
  theorem walkSubs_dry (o : Opts) (h : o.dry = true) (sub : Path) (dst0 : Entries) :
      (l : List (Name × Node)) → (a : Acc) →
      (walkSubs o sub dst0 l a).d = a.d ∧ (walkSubs o sub dst0 l a).log = a.log
    | [], a => by simp [walkSubs]
    | (n, .file m) :: tl, a => by
      simp only [walkSubs]
      exact walkSubs_dry o h sub dst0 tl a
    | (n, .dir ses) :: tl, a => by
      simp only [walkSubs]
      split
      · rename_i dch _ _ hd
        have hc := walkDir_dry o h (sub ++ [n]) (.dir ses) dch
        have ea : (⟨setE n (.dir (walkDir o (sub ++ [n]) (.dir ses) dch).d) a.d,
            a.log ++ (walkDir o (sub ++ [n]) (.dir ses) dch).log.map (Step.under n)⟩ : Acc) = a := by
          rw [hc.1, hc.2, setE_getE hd]; simp
        have ead := congrArg Acc.d ea
        have eal := congrArg Acc.log ea
        simp only at ead eal
        split
        · exact ⟨ead, eal⟩
        · rw [ea]; exact walkSubs_dry o h sub dst0 tl a
      · exact walkSubs_dry o h sub dst0 tl a
end

theorem withBackup_dry (o : Opts) (h : o.dry = true) (fn : Name) (orig : Node) (r : DocRes) (a : Acc) :
    (withBackup o fn orig r a).d = a.d ∧ (withBackup o fn orig r a).log = a.log := by
  unfold withBackup
  simp only [h, pPut_dry, pDel_dry]
  split <;> simp

theorem inMemory_dry (o : Opts) (h : o.dry = true) (fn : Name) (d : Doc) (r : DocRes) (a : Acc) :
    (inMemory o fn d r a).d = a.d ∧ (inMemory o fn d r a).log = a.log := by
  unfold inMemory
  simp only [h, pPut_dry]
  split <;> simp

theorem syncDoc_dry (o : Opts) (h : o.dry = true) (fn : Name) (src : Entries) (a : Acc) :
    (syncDoc o fn src a).d = a.d ∧ (syncDoc o fn src a).log = a.log := by
  unfold syncDoc
  split
  · simp
  · simp
  · unfold mergeDocs
    dsimp only
    split
    · simp
    · split
      · exact inMemory_dry o h fn _ _ a
      · split
        · simp
        · split
          · simp
          · exact withBackup_dry o h fn _ _ a

theorem syncJobDirs_dry (o : Opts) (h : o.dry = true) (src dst : Entries) :
    (syncJobDirs o src dst).d = dst ∧ (syncJobDirs o src dst).log = [] := by
  have hw := walkDir_dry o h [] (.dir src) dst
  unfold syncJobDirs
  dsimp only
  split
  · exact hw
  · have := syncDoc_dry o h Extracted.FN_JOB_DOCUMENT src ⟨(walkDir o [] (.dir src) dst).d, (walkDir o [] (.dir src) dst).log⟩
    rw [this.1, this.2]; exact hw

theorem syncJobs_dry (o : Opts) (h : o.dry = true) (l : List (Name × Node)) :
    ∀ a, (syncJobs o l a).d = a.d ∧ (syncJobs o l a).log = a.log := by
  induction l with
  | nil => intro a; simp [syncJobs]
  | cons hd tl ih =>
    intro a
    obtain ⟨id, sn⟩ := hd
    cases sn with
    | file m => simp only [syncJobs]; exact ih a
    | dir sjob =>
      simp only [syncJobs]
      cases hws : getE WS a.d with
      | none => exact ih a
      | some wsn =>
        cases wsn with
        | file m => exact ih a
        | dir ws =>
          dsimp only
          split
          · cases hj : getE id ws with
            | none => exact ih a
            | some dn =>
              cases dn with
              | file m => exact ih a
              | dir djob =>
                dsimp only
                have hd := syncJobDirs_dry o h sjob djob
                have ea : (⟨setE WS (.dir (setE id (.dir (syncJobDirs o sjob djob).d) ws)) a.d,
                    a.log ++ (syncJobDirs o sjob djob).log.map (Step.inJob id)⟩ : Acc) = a := by
                  rw [hd.1, hd.2, setE_getE hj, setE_getE hws]; simp
                have ead := congrArg Acc.d ea
                have eal := congrArg Acc.log ea
                simp only at ead eal
                split
                · exact ⟨ead, eal⟩
                · rw [ea]; exact ih a
          · exact ih a

/-- `dry_run_frame`, first half: a dry run performs no mutating step and returns the
    destination unchanged — at every entry point, whatever the outcome -/
theorem run_dry (o : Opts) (h : o.dry = true) (e : Entry) (w : World) :
    (run o e w).log = [] ∧ (run o e w).d = w.dst := by
  cases e with
  | project =>
    simp only [run, syncProjects]
    split
    · simp
    · have hd := syncDoc_dry o h Extracted.FN_PROJECT_DOCUMENT w.src ⟨w.dst, []⟩
      split
      · exact ⟨hd.2, hd.1⟩
      · have := syncJobs_dry o h (wsOf w.src) ⟨(syncDoc o Extracted.FN_PROJECT_DOCUMENT w.src ⟨w.dst, []⟩).d,
          (syncDoc o Extracted.FN_PROJECT_DOCUMENT w.src ⟨w.dst, []⟩).log⟩
        rw [this.1, this.2]; exact ⟨hd.2, hd.1⟩
  | job s d c =>
    simp only [run, syncJobEntry]
    cases hs : getE s (wsOf w.src) with
    | none => simp
    | some sn =>
      cases sn with
      | file m => simp
      | dir sjob =>
        cases hws : getE WS w.dst with
        | none => simp
        | some wsn =>
          cases wsn with
          | file m => simp
          | dir ws =>
            dsimp only
            cases hj : getE d ws with
            | none => simp [h]
            | some dn =>
              cases dn with
              | file m => simp
              | dir djob =>
                dsimp only
                have hd := syncJobDirs_dry o h sjob djob
                rw [hd.1, hd.2, setE_getE hj, setE_getE hws]; simp

/-! ### same outcome as the real run -/

theorem phase2_err_indep (o : Opts) (sub : Path) (dst0 : Entries) (l : Entries) :
    ∀ a a' : Acc, (phase2 o sub dst0 l a).2 = (phase2 o.asDry sub dst0 l a').2 := by
  induction l with
  | nil => intro a a'; simp [phase2]
  | cons hd tl ih =>
    intro a a'
    obtain ⟨k, sk⟩ := hd
    cases sk with
    | dir x => simp only [phase2]; exact ih a a'
    | file ms =>
      cases hd : getE k dst0 with
      | none => simp only [phase2, hd]; exact ih a a'
      | some dn =>
        cases dn with
        | dir x => simp only [phase2, hd]; exact ih a a'
        | file md =>
          simp only [phase2, hd, asDry_excluded, asDry_verdict, asDry_deep]
          by_cases hc : (differs o.deep ms md && !excluded o k) = true
          · simp only [hc, if_true]
            cases hv : verdict o (sub ++ [k]) ms md with
            | none => rfl
            | some b => cases b <;> exact ih _ _
          · simp only [hc]; exact ih a a'

theorem acc2_get_dir (o : Opts) (sub : Path) (ses des : Entries) (n : Name) (dch : Entries)
    (hnd : (names ses).Nodup) (hd : getE n des = some (.dir dch)) :
    getE n (acc2 o sub ses des).d = some (.dir dch) := by
  rw [acc2_get_of_no_conflict o sub ses des n hnd (by intro ms md hc; simp [Conflict, hd] at hc)]
  rw [phase1_get o des n ses hnd]
  cases getE n ses <;> simp [hd]

mutual
  theorem walkDir_err_dry (o : Opts) (sub : Path) : (sn : Node) → (des : Entries) → WFNode sn →
      (walkDir o sub sn des).err = (walkDir o.asDry sub sn des).err
    | .file _, des, _ => by simp [walkDir]
    | .dir ses, des, hw => by
      have hw' : WFEntries ses := by simpa [WFNode] using hw
      have he : err2 o sub ses des = err2 o.asDry sub ses des := by
        unfold err2
        exact phase2_err_indep o sub des ses _ _
      rw [walkDir_dir', walkDir_dir', ← he]
      cases err2 o sub ses des with
      | some e => rfl
      | none =>
        simp only [asDry_recursive]
        by_cases hr : o.recursive = true
        case pos =>
          simp only [hr, if_true]
          exact walkSubs_err_dry o sub des ses (acc2 o sub ses des) (acc2 o.asDry sub ses des) hw'
            (fun k x hk hx => by
              rw [acc2_get_dir o sub ses des k x hw'.nodup hx, acc2_get_dir o.asDry sub ses des k x hw'.nodup hx])
        case neg => simp [hr]
  theorem walkSubs_err_dry (o : Opts) (sub : Path) (dst0 : Entries) : (l : List (Name × Node)) →
      (a a' : Acc) → WFEntries l →
      (∀ k x, k ∈ names l → getE k dst0 = some (.dir x) → getE k a.d = getE k a'.d) →
      (walkSubs o sub dst0 l a).err = (walkSubs o.asDry sub dst0 l a').err
    | [], a, a', _, _ => by simp [walkSubs]
    | (n, .file m) :: tl, a, a', hw, hrel => by
      simp only [walkSubs]
      simp only [WFEntries] at hw
      exact walkSubs_err_dry o sub dst0 tl a a' hw.2.2
        (fun k x hk hx => hrel k x (by simp [names, hk]) hx)
    | (n, .dir ses) :: tl, a, a', hw, hrel => by
      simp only [WFEntries] at hw
      have hrel' : ∀ (b b' : Acc), (∀ k, k ≠ n → getE k b.d = getE k a.d) → (∀ k, k ≠ n → getE k b'.d = getE k a'.d) →
          ∀ k x, k ∈ names tl → getE k dst0 = some (.dir x) → getE k b.d = getE k b'.d := by
        intro b b' hb hb' k x hk hx
        have hkn : k ≠ n := by
          intro e; subst e; exact hw.1 hk
        rw [hb k hkn, hb' k hkn]
        exact hrel k x (by simp [names, hk]) hx
      cases hd0 : getE n dst0 with
      | none =>
        simp only [walkSubs, hd0]
        exact walkSubs_err_dry o sub dst0 tl a a' hw.2.2 (hrel' a a' (fun _ _ => rfl) (fun _ _ => rfl))
      | some dn =>
        cases dn with
        | file m =>
          simp only [walkSubs, hd0]
          exact walkSubs_err_dry o sub dst0 tl a a' hw.2.2 (hrel' a a' (fun _ _ => rfl) (fun _ _ => rfl))
        | dir x =>
          have hag : getE n a.d = getE n a'.d := hrel n x (by simp [names]) hd0
          cases ha : getE n a.d with
          | none =>
            simp only [walkSubs, hd0, ha, ← hag]
            exact walkSubs_err_dry o sub dst0 tl a a' hw.2.2 (hrel' a a' (fun _ _ => rfl) (fun _ _ => rfl))
          | some an =>
            cases an with
            | file m =>
              simp only [walkSubs, hd0, ha, ← hag]
              exact walkSubs_err_dry o sub dst0 tl a a' hw.2.2 (hrel' a a' (fun _ _ => rfl) (fun _ _ => rfl))
            | dir dch =>
              have ha' : getE n a'.d = some (.dir dch) := by rw [← hag]; exact ha
              rw [walkSubs_cons_common o sub dst0 n ses x dch tl a hd0 ha,
                walkSubs_cons_common o.asDry sub dst0 n ses x dch tl a' hd0 ha']
              have hc := walkDir_err_dry o (sub ++ [n]) (.dir ses) dch (by simpa [WFNode] using hw.2.1)
              rw [← hc]
              cases (walkDir o (sub ++ [n]) (.dir ses) dch).err with
              | some e => rfl
              | none =>
                exact walkSubs_err_dry o sub dst0 tl _ _ hw.2.2
                  (hrel' _ _ (fun k hk => getE_subAcc_other hk _ _ _ _ _)
                    (fun k hk => getE_subAcc_other hk _ _ _ _ _))
end

/-! ### documents: the outcome depends on the two documents and two file tests only -/

def mergeErr (ds : DocSync) (s d : Doc) (isf isb : Bool) : Option Err :=
  if pyEq (.obj s) (.obj d) then none
  else if d.isEmpty || !isf then (runDocSync ds s d).err
  else if isb then some .backupExists
  else (runDocSync ds s d).err

theorem withBackup_err (o : Opts) (fn : Name) (orig : Node) (r : DocRes) (a : Acc) :
    (withBackup o fn orig r a).err = r.err := by
  unfold withBackup
  cases r.err <;> simp

theorem inMemory_err (o : Opts) (fn : Name) (d : Doc) (r : DocRes) (a : Acc) :
    (inMemory o fn d r a).err = r.err := by
  unfold inMemory
  cases r.err <;> simp

theorem mergeDocs_err (o : Opts) (ds : DocSync) (fn : Name) (src : Entries) (a : Acc) :
    (mergeDocs o ds fn src a).err =
      mergeErr ds (docOf fn src) (docOf fn a.d) (isFile fn a.d) (isFile (fn ++ "~") a.d) := by
  unfold mergeDocs mergeErr
  dsimp only
  split
  · rfl
  · split
    · exact inMemory_err o fn _ _ a
    · split
      · rfl
      · rename_i h1 h2
        cases hg : getE fn a.d with
        | none =>
          exfalso
          simp [isFile, hg] at h1
        | some orig =>
          simp only
          exact withBackup_err o fn orig _ a

def syncDocErr (ds : DocSync) (s d : Doc) (isf isb : Bool) : Option Err :=
  match ds with
  | .noSync => none
  | .copy => none
  | ds => mergeErr ds s d isf isb

theorem syncDoc_err (o : Opts) (fn : Name) (src : Entries) (a : Acc) :
    (syncDoc o fn src a).err =
      syncDocErr o.docSync (docOf fn src) (docOf fn a.d) (isFile fn a.d) (isFile (fn ++ "~") a.d) := by
  unfold syncDoc syncDocErr
  cases o.docSync with
  | noSync => rfl
  | copy => rfl
  | update => exact mergeDocs_err o _ fn src a
  | byKey ks => exact mergeDocs_err o _ fn src a

/-- the walk leaves an excluded top-level name as a document / a file exactly as it was -/
theorem walk_excluded_top (o : Opts) (sub : Path) (ses des : Entries) (n : Name) (hw : WFEntries ses)
    (hx : excluded o n = true) :
    docOf n (walkDir o sub (.dir ses) des).d = docOf n des ∧
    isFile n (walkDir o sub (.dir ses) des).d = isFile n des := by
  cases hd : getE n des with
  | none =>
    have := walk_excluded_not_created o [] n sub ses des hw (by simpa [lastName] using hx) (by simpa [lookupP] using hd)
    simp only [lookupP] at this
    simp [docOf, isFile, this, hd]
  | some dn =>
    cases dn with
    | file md =>
      have := walk_excluded_not_modified o [] n sub ses des md hw (by simpa [lastName] using hx) (by simpa [lookupP] using hd)
      simp only [lookupP] at this
      simp [docOf, isFile, this, hd]
    | dir x =>
      cases hs : getE n ses with
      | none => simp [docOf, isFile, walkDir_get_absent o sub ses des n hw.nodup hs, hd]
      | some sn =>
        cases sn with
        | file ms =>
          simp [docOf, isFile, walkDir_get_clash o sub ses des n _ _ hw.nodup hs hd (Or.inl ⟨ms, x, rfl, rfl⟩), hd]
        | dir sch =>
          rcases walkDir_get_common o sub ses des n sch x hw.nodup hs hd with ⟨h', _⟩ | ⟨_, h', _⟩ <;>
            simp [docOf, isFile, h', hd]

/-- facts about the exclusion tables that hold for Python's `re.match`: the document file name
    and its backup name match the (implicit) document pattern -/
structure DocPatOk (o : Opts) : Prop where
  doc : o.docPat Extracted.FN_JOB_DOCUMENT = true
  bak : o.docPat (Extracted.FN_JOB_DOCUMENT ++ "~") = true

theorem syncJobDirs_err_dry (o : Opts) (src dst : Entries) (hw : WFEntries src) (hp : DocPatOk o) :
    (syncJobDirs o src dst).err = (syncJobDirs o.asDry src dst).err := by
  have hwalk := walkDir_err_dry o [] (.dir src) dst (by simpa [WFNode] using hw)
  unfold syncJobDirs
  dsimp only
  rw [← hwalk]
  cases he : (walkDir o [] (.dir src) dst).err with
  | some e => rfl
  | none =>
    simp only
    rw [syncDoc_err, syncDoc_err]
    simp only [asDry_docSync]
    cases hds : o.docSync with
    | noSync => rfl
    | copy => rfl
    | update =>
      have hx1 : excluded o Extracted.FN_JOB_DOCUMENT = true := by simp [excluded, hp.doc, hds, DocSync.isCopy]
      have hx2 : excluded o (Extracted.FN_JOB_DOCUMENT ++ "~") = true := by simp [excluded, hp.bak, hds, DocSync.isCopy]
      have d1 := walkDir_dry o.asDry rfl [] (.dir src) dst
      rw [d1.1]
      rw [(walk_excluded_top o [] src dst _ hw hx1).1, (walk_excluded_top o [] src dst _ hw hx1).2,
        (walk_excluded_top o [] src dst _ hw hx2).2]
    | byKey ks =>
      have hx1 : excluded o Extracted.FN_JOB_DOCUMENT = true := by simp [excluded, hp.doc, hds, DocSync.isCopy]
      have hx2 : excluded o (Extracted.FN_JOB_DOCUMENT ++ "~") = true := by simp [excluded, hp.bak, hds, DocSync.isCopy]
      have d1 := walkDir_dry o.asDry rfl [] (.dir src) dst
      rw [d1.1]
      rw [(walk_excluded_top o [] src dst _ hw hx1).1, (walk_excluded_top o [] src dst _ hw hx1).2,
        (walk_excluded_top o [] src dst _ hw hx2).2]

/-! ### project level -/

theorem wsOf_setE_WS (x root : Entries) : wsOf (setE WS (.dir x) root) = x := by
  simp [wsOf, getE_setE_same]

theorem wsOf_step {root ws : Entries} {k id : Name} (c : Node) (hws : getE WS root = some (.dir ws))
    (hk : k ≠ id) : getE k (wsOf (setE WS (.dir (setE id c ws)) root)) = getE k (wsOf root) := by
  rw [wsOf_setE_WS, getE_setE_other hk]
  simp [wsOf, hws]

/-- the two accumulators (real run, dry run) agree on the jobs still to be visited -/
def JobsAgree (tl : List (Name × Node)) (a a' : Acc) : Prop :=
  (∀ id, id ∈ names tl → getE id (wsOf a.d) = getE id (wsOf a'.d)) ∧
  ((∃ ws, getE WS a.d = some (.dir ws)) ↔ (∃ ws, getE WS a'.d = some (.dir ws)))

theorem syncJobs_err_dry (o : Opts) (hp : DocPatOk o) (l : List (Name × Node)) :
    ∀ a a' : Acc, WFEntries l → JobsAgree l a a' →
    (syncJobs o l a).err = (syncJobs o.asDry l a').err := by
  induction l with
  | nil => intro a a' _ _; simp [syncJobs]
  | cons hd tl ih =>
    intro a a' hw hag
    obtain ⟨id, sn⟩ := hd
    simp only [WFEntries] at hw
    have keep : ∀ (b b' : Acc), (∀ k, k ≠ id → getE k (wsOf b.d) = getE k (wsOf a.d)) →
        (∀ k, k ≠ id → getE k (wsOf b'.d) = getE k (wsOf a'.d)) →
        ((∃ ws, getE WS b.d = some (.dir ws)) ↔ (∃ ws, getE WS a.d = some (.dir ws))) →
        ((∃ ws, getE WS b'.d = some (.dir ws)) ↔ (∃ ws, getE WS a'.d = some (.dir ws))) →
        JobsAgree tl b b' := by
      intro b b' hb hb' hwb hwb'
      refine ⟨?_, ?_⟩
      · intro k hk
        have hkn : k ≠ id := by
          intro e; subst e; exact hw.1 hk
        rw [hb k hkn, hb' k hkn]
        exact hag.1 k (by simp [names, hk])
      · rw [hwb, hwb']; exact hag.2
    have same : JobsAgree tl a a' := keep a a' (fun _ _ => rfl) (fun _ _ => rfl) Iff.rfl Iff.rfl
    cases sn with
    | file m => simp only [syncJobs]; exact ih a a' hw.2.2 same
    | dir sjob =>
      have hwj : WFEntries sjob := by simpa [WFNode] using hw.2.1
      -- the workspace directories exist on both sides or on neither
      cases hws : getE WS a.d with
      | none =>
        have hws' : ¬ ∃ ws, getE WS a'.d = some (.dir ws) := by
          rw [← hag.2]; simp [hws]
        simp only [syncJobs, hws]
        cases hws2 : getE WS a'.d with
        | none => exact ih a a' hw.2.2 same
        | some wn =>
          cases wn with
          | file m => exact ih a a' hw.2.2 same
          | dir ws' => exact absurd ⟨ws', hws2⟩ hws'
      | some wsn =>
        cases wsn with
        | file m =>
          have hws' : ¬ ∃ ws, getE WS a'.d = some (.dir ws) := by
            rw [← hag.2]; simp [hws]
          simp only [syncJobs, hws]
          cases hws2 : getE WS a'.d with
          | none => exact ih a a' hw.2.2 same
          | some wn =>
            cases wn with
            | file m => exact ih a a' hw.2.2 same
            | dir ws' => exact absurd ⟨ws', hws2⟩ hws'
        | dir ws =>
          obtain ⟨ws', hws2⟩ := hag.2.mp ⟨ws, hws⟩
          have hid : getE id ws = getE id ws' := by
            have := hag.1 id (by simp [names])
            simpa [wsOf, hws, hws2] using this
          simp only [syncJobs, hws, hws2, asDry_selected, asDry_dry]
          by_cases hsel : selected o id = true
          · simp only [hsel, if_true, ← hid]
            cases hj : getE id ws with
            | none =>
              dsimp only
              by_cases hdry : o.dry = true
              · simp only [hdry, if_true]; exact ih a a' hw.2.2 same
              · simp only [hdry, Bool.false_eq_true, if_false]
                apply ih _ a' hw.2.2
                apply keep _ a' _ (fun _ _ => rfl) _ Iff.rfl
                · intro k hk
                  exact wsOf_step _ hws hk
                · simp [getE_setE_same, hws]
            | some dn =>
              cases dn with
              | file m => exact ih a a' hw.2.2 same
              | dir djob =>
                dsimp only
                rw [← syncJobDirs_err_dry o sjob djob hwj hp]
                cases (syncJobDirs o sjob djob).err with
                | some e => rfl
                | none =>
                  simp only
                  apply ih _ _ hw.2.2
                  apply keep
                  · intro k hk
                    exact wsOf_step _ hws hk
                  · intro k hk
                    exact wsOf_step _ hws2 hk
                  · simp [getE_setE_same, hws]
                  · simp [getE_setE_same, hws2]
          · simp only [hsel]; exact ih a a' hw.2.2 same

/-! ### a fresh destination job cannot make the sync fail -/

theorem walkSubs_no_dirs (o : Opts) (sub : Path) (dst0 : Entries) (hd : ∀ n x, getE n dst0 ≠ some (.dir x))
    (l : Entries) : ∀ a, (walkSubs o sub dst0 l a).err = none := by
  induction l with
  | nil => intro a; simp [walkSubs]
  | cons hd' tl ih =>
    intro a
    obtain ⟨k, sk⟩ := hd'
    rw [walkSubs_cons_skip o sub dst0 k sk tl a (by
      rintro ⟨ses, x, dch, _, h1, _⟩
      exact hd k x h1)]
    exact ih a

theorem walkDir_fresh_ok (o : Opts) (sub : Path) (ses des : Entries)
    (hf : ∀ n md, getE n des = some (.file md) → excluded o n = true)
    (hd : ∀ n x, getE n des ≠ some (.dir x)) :
    (walkDir o sub (.dir ses) des).err = none := by
  rw [walkDir_dir']
  cases he : err2 o sub ses des with
  | some e =>
    exfalso
    obtain ⟨n, ms, md, _, _, h3, _, h5, _⟩ := phase2_err o sub des ses _ e he
    rw [hf n md h3] at h5; cases h5
  | none =>
    simp only
    split
    · exact walkSubs_no_dirs o sub des hd ses _
    · rfl

theorem byKeyItems_fresh (ks : Option (String → Bool)) (root : String) (items : Doc) :
    ∀ st : ByKeySt, (keys items).Nodup → (∀ k, k ∈ keys items → lookupKV k st.dst = none) →
    st.typeErr = false →
    (byKeyItems ks root items st).typeErr = false ∧ (byKeyItems ks root items st).skipped = st.skipped := by
  induction items with
  | nil => intro st _ _ h; simp [byKeyItems, h]
  | cons hd tl ih =>
    intro st hnd hfree hte
    obtain ⟨k, v⟩ := hd
    have hnd' : (keys tl).Nodup := (List.nodup_cons.mp hnd).2
    have hk : k ∉ keys tl := (List.nodup_cons.mp hnd).1
    have h0 : lookupKV k st.dst = none := hfree k (by simp [keys])
    rw [byKeyItems_cons, hte]
    simp only [Bool.false_eq_true, if_false, byKeyStep, h0]
    refine ih ⟨setKV k v st.dst, st.skipped, true, st.typeErr⟩ hnd' ?_ hte
    intro k' hk'
    have : k' ≠ k := by
      intro e; subst e; exact hk hk'
    rw [lookupKV_setKV_other this]
    exact hfree k' (by simp [keys, List.mem_cons, hk'] )

theorem runDocSync_fresh (ds : DocSync) (s : Doc) (hnd : (keys s).Nodup) : (runDocSync ds s []).err = none := by
  cases ds with
  | byKey ks =>
    have := byKeyItems_fresh ks "" s ⟨[], [], false, false⟩ hnd (by intro k _; rfl) rfl
    simp only [runDocSync, this.1, this.2]
    cases ks <;> simp
  | update => simp [runDocSync]
  | noSync => simp [runDocSync]
  | copy => simp [runDocSync]

/-- facts about the exclusion tables that hold for Python's `re.match` -/
structure TablesOk (o : Opts) : Prop extends DocPatOk o where
  sp : o.spPat Extracted.FN_STATE_POINT = true

theorem syncJobDirs_fresh_ok (o : Opts) (sjob : Entries) (spCid : Nat) (hw : WFEntries sjob) (ht : TablesOk o)
    (hdoc : (keys (docOf Extracted.FN_JOB_DOCUMENT sjob)).Nodup) :
    (syncJobDirs o sjob (initJob o.now spCid)).err = none := by
  have hsp : excluded o Extracted.FN_STATE_POINT = true := by simp [excluded, ht.sp]
  have hf : ∀ n md, getE n (initJob o.now spCid) = some (.file md) → excluded o n = true := by
    intro n md h
    by_cases hn : Extracted.FN_STATE_POINT = n
    · subst hn; exact hsp
    · simp [initJob, getE, hn] at h
  have hd : ∀ n x, getE n (initJob o.now spCid) ≠ some (.dir x) := by
    intro n x h
    by_cases hn : Extracted.FN_STATE_POINT = n
    · simp [initJob, getE, hn] at h
    · simp [initJob, getE, hn] at h
  have hwalk := walkDir_fresh_ok o [] sjob (initJob o.now spCid) hf hd
  unfold syncJobDirs
  dsimp only
  rw [hwalk]
  simp only
  rw [syncDoc_err]
  cases hds : o.docSync with
  | noSync => rfl
  | copy => rfl
  | update =>
    have hx1 : excluded o Extracted.FN_JOB_DOCUMENT = true := by simp [excluded, ht.doc, hds, DocSync.isCopy]
    rw [(walk_excluded_top o [] sjob _ _ hw hx1).1]
    have hne : Extracted.FN_STATE_POINT ≠ Extracted.FN_JOB_DOCUMENT := by decide
    have : docOf Extracted.FN_JOB_DOCUMENT (initJob o.now spCid) = [] := by
      simp [docOf, initJob, getE, hne]
    simp [syncDocErr, mergeErr, this, runDocSync]
  | byKey ks =>
    have hx1 : excluded o Extracted.FN_JOB_DOCUMENT = true := by simp [excluded, ht.doc, hds, DocSync.isCopy]
    rw [(walk_excluded_top o [] sjob _ _ hw hx1).1]
    have hne : Extracted.FN_STATE_POINT ≠ Extracted.FN_JOB_DOCUMENT := by decide
    have : docOf Extracted.FN_JOB_DOCUMENT (initJob o.now spCid) = [] := by
      simp [docOf, initJob, getE, hne]
    simp only [syncDocErr, mergeErr, this, List.isEmpty_nil, Bool.true_or, if_true]
    split
    · rfl
    · exact runDocSync_fresh _ _ hdoc

/-- names of the project root the project-document merge may write -/
theorem getE_syncDoc_other (o : Opts) (fn : Name) (src : Entries) (a : Acc) (n : Name)
    (h1 : n ≠ fn) (h2 : n ≠ fn ++ "~") : getE n (syncDoc o fn src a).d = getE n a.d := by
  unfold syncDoc
  split
  · rfl
  · rfl
  · unfold mergeDocs
    dsimp only
    split
    · rfl
    · split
      · unfold inMemory
        split <;> dsimp only <;> split <;> first | rfl | exact getE_pPut_other h1 _ _ _
      · split
        · rfl
        · split
          · rfl
          · unfold withBackup pDel
            dsimp only
            split <;> split <;> split <;>
              simp [getE_pPut_other h1, getE_pPut_other h2, getE_delE_other h2]

theorem pdoc_ne_ws : WS ≠ Extracted.FN_PROJECT_DOCUMENT := by decide
theorem pdoc_bak_ne_ws : WS ≠ Extracted.FN_PROJECT_DOCUMENT ++ "~" := by decide

/-- `dry_run_frame`, second half: a dry run reports exactly what the real run from the same
    state would report (ok, or the same exception), at every entry point -/
theorem run_err_dry (o : Opts) (e : Entry) (w : World) (hw : WFEntries (wsOf w.src))
    (ht : TablesOk o)
    (hdoc : ∀ id sjob, getE id (wsOf w.src) = some (.dir sjob) →
      (keys (docOf Extracted.FN_JOB_DOCUMENT sjob)).Nodup) :
    (run o e w).err = (run o.asDry e w).err := by
  have hp : DocPatOk o := ht.toDocPatOk
  cases e with
  | project =>
    simp only [run, syncProjects, asDry_checkSchema, asDry_gate]
    by_cases hg : (o.checkSchema && o.gate) = true
    · simp only [hg, if_true]
    · simp only [hg, Bool.false_eq_true, if_false]
      have h1 := syncDoc_err o Extracted.FN_PROJECT_DOCUMENT w.src ⟨w.dst, []⟩
      have h2 := syncDoc_err o.asDry Extracted.FN_PROJECT_DOCUMENT w.src ⟨w.dst, []⟩
      simp only [asDry_docSync] at h2
      have he : (syncDoc o Extracted.FN_PROJECT_DOCUMENT w.src ⟨w.dst, []⟩).err =
          (syncDoc o.asDry Extracted.FN_PROJECT_DOCUMENT w.src ⟨w.dst, []⟩).err := by rw [h1, h2]
      rw [← he]
      cases (syncDoc o Extracted.FN_PROJECT_DOCUMENT w.src ⟨w.dst, []⟩).err with
      | some e => rfl
      | none =>
        simp only
        apply syncJobs_err_dry o hp _ _ _ hw
        have g1 := getE_syncDoc_other o Extracted.FN_PROJECT_DOCUMENT w.src ⟨w.dst, []⟩ WS pdoc_ne_ws pdoc_bak_ne_ws
        have g2 := getE_syncDoc_other o.asDry Extracted.FN_PROJECT_DOCUMENT w.src ⟨w.dst, []⟩ WS pdoc_ne_ws pdoc_bak_ne_ws
        refine ⟨?_, ?_⟩
        · intro id _
          simp only [wsOf, g1, g2]
        · simp only [g1, g2]
  | job s d c =>
    simp only [run, syncJobEntry]
    cases hs : getE s (wsOf w.src) with
    | none => rfl
    | some sn =>
      cases sn with
      | file m => rfl
      | dir sjob =>
        have hwj : WFEntries sjob := hw.sub hs
        cases hws : getE WS w.dst with
        | none => rfl
        | some wsn =>
          cases wsn with
          | file m => rfl
          | dir ws =>
            dsimp only
            cases hj : getE d ws with
            | none =>
              dsimp only
              simp only [asDry_dry, if_true]
              by_cases hdry : o.dry = true
              · simp [hdry]
              · simp only [hdry, Bool.false_eq_true, if_false]
                exact syncJobDirs_fresh_ok o sjob c hwj ht (hdoc s sjob hs)
            | some dn =>
              cases dn with
              | file m => rfl
              | dir djob => exact syncJobDirs_err_dry o sjob djob hwj hp

end Signac.Sync

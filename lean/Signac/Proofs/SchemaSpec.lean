/-
  Specification-side vocabulary of C18 (constant key, bool/int clash, "same slot") and the composite
  lemmas that connect `detectSchema` / `reported` with the index lemmas.  Core only.
-/
import Signac.Proofs.SchemaDetect
import Signac.Proofs.SchemaFlatten
import Signac.Proofs.SchemaDiff
namespace Signac.Schema
open Signac

/-- the key is constant over the selection: the first job (in index order) holds a value under it
    and every other job holds a value in the same dict slot (Python hash/==, `_float` wrapper) -/
def ConstKey (k : String) (jobs : List Job) : Prop := ConstSpec (splitKey k) jobs

def isObj : JVal → Bool
  | .obj _ => true
  | _ => false

/-- a bool and an int that compare equal (`True == 1`, `False == 0`) -/
def boolIntClash (a b : JVal) : Bool :=
  match a, b with
  | .bool _, .int _ => pyEq a b
  | .int _, .bool _ => pyEq a b
  | _, _ => false

/-- no two selected jobs hold, under one key, a bool and an `==`-equal int (the class of F-6a) -/
def NoBoolIntClash (jobs : List Job) : Prop :=
  ∀ k, ∀ j1 ∈ jobs, ∀ j2 ∈ jobs, ∀ v1 v2,
    valueAt k j1 = some v1 → valueAt k j2 = some v2 → boolIntClash v1 v2 = false

/-- `r` is the stored key of the slot `v` falls into -/
def SameSlot (r v : JVal) : Prop := r = v ∨ slotEq r v = true

theorem slotEq_typeName {a b : JVal} (h : slotEq a b = true) (hc : boolIntClash a b = false) :
    pyTypeName a = pyTypeName b := by
  cases a <;> cases b <;> simp_all [slotEq, isFlt, pyEq, numVal, boolIntClash, pyTypeName]

theorem keyOf_eq_val {v r : JVal} (h : IKey.val r = keyOf v) : v = r ∧ isObj r = false := by
  cases v <;> simp_all [keyOf, isObj]

theorem keyOf_of_not_obj {v : JVal} (h : isObj v = false) : keyOf v = IKey.val v := by
  cases v <;> simp_all [keyOf, isObj]

/-! ### reported keys -/

theorem mem_schema_keys {excl : Bool} {jobs : List Job} {k : String} :
    k ∈ (detectSchema excl jobs).map Prod.fst ↔
      (∃ j ∈ jobs, ∃ v, (k, v) ∈ flatten j.sp) ∧ ¬ (excl = true ∧ ConstKey k jobs) := by
  rw [detectSchema_keys, List.mem_filter, mem_dottedKeys]
  have : skipped excl jobs k = true ↔ (excl = true ∧ ConstKey k jobs) := by
    simp only [skipped, Bool.and_eq_true, buildIndex, buildFrom_const, ConstKey]
  constructor
  · rintro ⟨h1, h2⟩
    refine ⟨h1, fun hc => ?_⟩
    rw [this.mpr hc] at h2
    simp at h2
  · rintro ⟨h1, h2⟩
    refine ⟨h1, ?_⟩
    cases hs : skipped excl jobs k with
    | true => exact absurd (this.mp hs) h2
    | false => rfl

theorem schema_keys_nodup' (excl : Bool) (jobs : List Job) :
    ((detectSchema excl jobs).map Prod.fst).Nodup := by
  rw [detectSchema_keys]
  exact List.Nodup.sublist List.filter_sublist (nodup_dottedKeys jobs)

/-! ### reported values -/

theorem reported_of_key {excl : Bool} {jobs : List Job} {k : String} (t : String)
    (hk : k ∈ (detectSchema excl jobs).map Prod.fst) :
    reported (detectSchema excl jobs) k t =
      typedLookup (collectByType (slotValues (buildIndex k jobs))) t := by
  rw [reported_eq, detectSchema_eq, find_map_key]
  rw [detectSchema_keys] at hk
  simp only [hk, if_true]

theorem reported_of_not_key {excl : Bool} {jobs : List Job} {k : String} (t : String)
    (hk : k ∉ (detectSchema excl jobs).map Prod.fst) :
    reported (detectSchema excl jobs) k t = [] := by
  rw [reported_eq, detectSchema_eq, find_map_key]
  rw [detectSchema_keys] at hk
  simp only [hk, if_false]

theorem reported_sound {excl : Bool} {jobs : List Job} {k t : String} {r : JVal}
    (h : r ∈ reported (detectSchema excl jobs) k t) :
    pyTypeName r = t ∧ isObj r = false ∧ ∃ j ∈ jobs, valueAt k j = some r := by
  by_cases hk : k ∈ (detectSchema excl jobs).map Prod.fst
  · rw [reported_of_key t hk] at h
    obtain ⟨hin, ht⟩ := collectByType_sound h
    rw [mem_slotValues] at hin
    rcases buildFrom_keys_sound hin with h0 | ⟨j, hj, v, hv, hr⟩
    · simp [Index.keys] at h0
    · obtain ⟨e, hno⟩ := keyOf_eq_val hr
      subst e
      exact ⟨ht, hno, j, hj, hv⟩
  · rw [reported_of_not_key t hk] at h
    simp at h

theorem reported_complete {excl : Bool} {jobs : List Job} {k : String}
    (hk : k ∈ (detectSchema excl jobs).map Prod.fst) {j : Job} (hj : j ∈ jobs) {v : JVal}
    (hv : valueAt k j = some v) (hno : isObj v = false) :
    ∃ r ∈ reported (detectSchema excl jobs) k (pyTypeName r), SameSlot r v := by
  obtain ⟨r, hr, hs⟩ := @buildFrom_keys_complete (splitKey k) jobs [] j v hj hv
  rw [keyOf_of_not_obj hno] at hs
  cases r with
  | dict =>
    rcases hs with hs | hs
    · cases hs
    · simp [IKey.same] at hs
  | val r =>
    refine ⟨r, ?_, ?_⟩
    · rw [reported_of_key _ hk]
      apply collectByType_complete (slotValues_pairwise (buildIndex_distinct k jobs))
      exact mem_slotValues.mpr hr
    · rcases hs with hs | hs
      · cases hs; exact Or.inl rfl
      · exact Or.inr (by simpa [IKey.same] using hs)

theorem reported_complete_typed {excl : Bool} {jobs : List Job} (hclash : NoBoolIntClash jobs)
    {k : String} (hk : k ∈ (detectSchema excl jobs).map Prod.fst) {j : Job} (hj : j ∈ jobs)
    {v : JVal} (hv : valueAt k j = some v) (hno : isObj v = false) :
    ∃ r ∈ reported (detectSchema excl jobs) k (pyTypeName v), SameSlot r v := by
  obtain ⟨r, hr, hs⟩ := reported_complete hk hj hv hno
  have ht : pyTypeName r = pyTypeName v := by
    rcases hs with hs | hs
    · rw [hs]
    · obtain ⟨_, _, j', hj', hv'⟩ := reported_sound hr
      exact slotEq_typeName hs (hclash k j' hj' j hj r v hv' hv)
  rw [ht] at hr
  exact ⟨r, hr, hs⟩

/-- with pairwise separated values `_collect_by_type` is a plain partition by type -/
theorem typedLookup_foldl_eq {vals : List JVal} :
    ∀ {acc : List (String × List JVal)} {seen : List JVal},
      (∀ t, typedLookup acc t = seen.filter (fun v => pyTypeName v == t)) →
      (seen ++ vals).Pairwise SlotApart →
      ∀ t, typedLookup (vals.foldl (fun a v => addTyped v a) acc) t
            = (seen ++ vals).filter (fun v => pyTypeName v == t) := by
  induction vals with
  | nil => intro acc seen h _ t; simpa using h t
  | cons v vs ih =>
    intro acc seen hacc hp t
    simp only [List.foldl_cons]
    have hp' : (seen ++ [v] ++ vs).Pairwise SlotApart := by
      simpa [List.append_assoc] using hp
    have := @ih (addTyped v acc) (seen ++ [v]) ?_ hp' t
    · simpa [List.append_assoc] using this
    · intro t'
      rw [typedLookup_addTyped, hacc t', List.filter_append]
      by_cases e : t' = pyTypeName v
      · subst e
        simp only [if_true, List.filter_cons, beq_self_eq_true, List.filter_nil]
        apply addSet_apart
        intro r hr
        simp only [List.mem_filter, beq_iff_eq] at hr
        refine ⟨?_, hr.2⟩
        rw [List.pairwise_append] at hp
        exact hp.2.2 r hr.1 v (by simp)
      · have : (pyTypeName v == t') = false := by simpa using fun h => e h.symm
        simp [e, this]

theorem collectByType_eq {vals : List JVal} (hp : vals.Pairwise SlotApart) (t : String) :
    typedLookup (collectByType vals) t = vals.filter (fun v => pyTypeName v == t) := by
  have := @typedLookup_foldl_eq vals [] [] (by intro t; simp [typedLookup]) (by simpa using hp) t
  simpa [collectByType] using this

theorem reported_pairwise (excl : Bool) (jobs : List Job) (k t : String) :
    (reported (detectSchema excl jobs) k t).Pairwise SlotApart := by
  by_cases hk : k ∈ (detectSchema excl jobs).map Prod.fst
  · rw [reported_of_key t hk,
      collectByType_eq (slotValues_pairwise (buildIndex_distinct k jobs))]
    exact List.Pairwise.sublist List.filter_sublist (slotValues_pairwise (buildIndex_distinct k jobs))
  · rw [reported_of_not_key t hk]
    exact List.Pairwise.nil

/-! ### a decidable sufficient condition for `NoBoolIntClash` (used for non-vacuity) -/

mutual
  /-- no `bool` is reachable by walking mapping keys -/
  def noBoolVal : JVal → Bool
    | .obj kvs => noBoolKVs kvs
    | .bool _ => false
    | .null => true
    | .int _ => true
    | .flt _ _ _ => true
    | .str _ => true
    | .arr _ => true
  def noBoolKVs : KVs → Bool
    | [] => true
    | (_, v) :: rest => noBoolVal v && noBoolKVs rest
end

theorem noBoolKVs_lookup {kvs : KVs} (h : noBoolKVs kvs = true) {n : String} {w : JVal}
    (hl : lookupKV n kvs = some w) : noBoolVal w = true := by
  induction kvs with
  | nil => simp [lookupKV] at hl
  | cons hd tl ih =>
    obtain ⟨k, v⟩ := hd
    simp only [noBoolKVs, Bool.and_eq_true] at h
    simp only [lookupKV] at hl
    split at hl
    · cases hl; exact h.1
    · exact ih h.2 hl

theorem noBoolVal_getPath : ∀ (nodes : List String) (v w : JVal),
    noBoolVal v = true → getPath nodes v = some w → noBoolVal w = true
  | [], v, w, h, hg => by simp only [getPath] at hg; cases hg; exact h
  | n :: ns, .obj kvs, w, h, hg => by
    simp only [getPath] at hg
    split at hg
    · next u hu =>
      exact noBoolVal_getPath ns u w (noBoolKVs_lookup (by simpa [noBoolVal] using h) hu) hg
    · cases hg
  | _ :: _, .null, _, _, hg => by simp [getPath] at hg
  | _ :: _, .bool _, _, _, hg => by simp [getPath] at hg
  | _ :: _, .int _, _, _, hg => by simp [getPath] at hg
  | _ :: _, .flt _ _ _, _, _, hg => by simp [getPath] at hg
  | _ :: _, .str _, _, _, hg => by simp [getPath] at hg
  | _ :: _, .arr _, _, _, hg => by simp [getPath] at hg

theorem noBoolIntClash_of_noBool {jobs : List Job}
    (h : jobs.all (fun j => noBoolKVs j.sp) = true) : NoBoolIntClash jobs := by
  intro k j1 hj1 j2 hj2 v1 v2 h1 h2
  rw [List.all_eq_true] at h
  have n1 := noBoolVal_getPath _ _ _ (by simpa [noBoolVal] using h j1 hj1) h1
  have n2 := noBoolVal_getPath _ _ _ (by simpa [noBoolVal] using h j2 hj2) h2
  cases v1 <;> cases v2 <;> simp_all [boolIntClash, noBoolVal]

end Signac.Schema

/-
  The cache invariant (every entry of the session cache and of the cache file maps an id to a
  state point hashing to it) and the key-set algebra of update_cache.  Core only.
-/
import Signac.Cache
import Signac.Proofs.WsAssoc
namespace Signac.Cache
open Signac Signac.Ws

section
variable {hash : JVal → String}

abbrev K {β : Type} (l : List (String × β)) : List String := l.map Prod.fst

theorem isSome_iff_mem_keys {β : Type} (k : String) (l : List (String × β)) :
    (alookup k l).isSome = true ↔ k ∈ K l := by
  constructor
  · exact alookup_isSome_mem
  · intro h
    cases hl : alookup k l with
    | none => exact absurd h (alookup_none_not_mem hl)
    | some v => rfl

theorem mem_keys_aset {β : Type} (x k : String) (v : β) (l : List (String × β)) :
    x ∈ K (aset k v l) ↔ x = k ∨ x ∈ K l := by
  by_cases hk : k ∈ K l
  · rw [show K (aset k v l) = K l from aset_keys_of_mem hk]
    constructor
    · exact Or.inr
    · rintro (h | h)
      · exact h ▸ hk
      · exact h
  · rw [show K (aset k v l) = K l ++ [k] from aset_keys_of_not_mem hk]
    simp only [List.mem_append, List.mem_singleton]
    constructor
    · rintro (h | h)
      · exact Or.inr h
      · exact Or.inl h
    · rintro (h | h)
      · exact Or.inr h
      · exact Or.inl h

theorem mem_keys_updateAll (x : String) (b c : List (String × JVal)) :
    x ∈ K (updateAll b c) ↔ x ∈ K b ∨ x ∈ K c := by
  induction c generalizing b with
  | nil => simp [updateAll]
  | cons hd tl ih =>
    obtain ⟨k, v⟩ := hd
    simp only [updateAll, ih, mem_keys_aset, List.map_cons, List.mem_cons]
    constructor
    · rintro ((h | h) | h)
      · exact Or.inr (Or.inl h)
      · exact Or.inl h
      · exact Or.inr (Or.inr h)
    · rintro (h | h | h)
      · exact Or.inl (Or.inr h)
      · exact Or.inl (Or.inl h)
      · exact Or.inr h

theorem mem_keys_dropStale (x : String) (ws : List (String × Dir)) (m : List (String × JVal)) :
    x ∈ K (dropStale ws m) ↔ x ∈ K m ∧ x ∈ K ws := by
  induction m with
  | nil => simp [dropStale]
  | cons hd tl ih =>
    obtain ⟨k, v⟩ := hd
    simp only [dropStale]
    split
    · rename_i hs
      have hk := (isSome_iff_mem_keys k ws).mp hs
      simp only [List.map_cons, List.mem_cons, ih]
      constructor
      · rintro (h | h)
        · exact ⟨Or.inl h, h ▸ hk⟩
        · exact ⟨Or.inr h.1, h.2⟩
      · rintro ⟨h | h, h2⟩
        · exact Or.inl h
        · exact Or.inr ⟨h, h2⟩
    · rename_i hs
      have hk : k ∉ K ws := fun h => hs ((isSome_iff_mem_keys k ws).mpr h)
      simp only [List.map_cons, List.mem_cons, ih]
      constructor
      · rintro ⟨h, h2⟩
        exact ⟨Or.inr h, h2⟩
      · rintro ⟨h | h, h2⟩
        · exact absurd (h ▸ h2) hk
        · exact ⟨h, h2⟩

theorem dropStale_sub (ws : List (String × Dir)) (m : List (String × JVal)) :
    ∀ e, e ∈ dropStale ws m → e ∈ m := by
  induction m with
  | nil => simp [dropStale]
  | cons hd tl ih =>
    obtain ⟨k, v⟩ := hd
    intro e he
    simp only [dropStale] at he
    split at he
    · rcases List.mem_cons.mp he with h | h
      · exact h ▸ List.mem_cons_self
      · exact List.mem_cons_of_mem _ (ih e h)
    · exact List.mem_cons_of_mem _ (ih e he)

/-- all directories of `l` validate -/
def AllValid (hash : JVal → String) (l : List (String × Dir)) : Prop :=
  ∀ id d, (id, d) ∈ l → (loadValid hash d id).isSome = true

theorem addMissing_valid (ws l : List (String × Dir)) (sess : List (String × JVal))
    (h : AllValid hash l) :
    (addMissing hash ws sess l).2 = [] ∧
    ∀ x, x ∈ K (addMissing hash ws sess l).1 ↔ x ∈ K sess ∨ x ∈ K l := by
  induction l generalizing sess with
  | nil => simp [addMissing]
  | cons hd tl ih =>
    obtain ⟨id, d⟩ := hd
    have htl : AllValid hash tl := fun i d' hm => h i d' (List.mem_cons_of_mem _ hm)
    simp only [addMissing]
    split
    · rename_i hs
      have hk := (isSome_iff_mem_keys id sess).mp hs
      refine ⟨(ih sess htl).1, fun x => ?_⟩
      rw [(ih sess htl).2 x]
      simp only [List.map_cons, List.mem_cons]
      constructor
      · rintro (h1 | h1)
        · exact Or.inl h1
        · exact Or.inr (Or.inr h1)
      · rintro (h1 | h1 | h1)
        · exact Or.inl h1
        · exact Or.inl (h1 ▸ hk)
        · exact Or.inr h1
    · have hv := h id d List.mem_cons_self
      cases hl : loadValid hash d id with
      | none => simp [hl] at hv
      | some v =>
        simp only []
        refine ⟨(ih _ htl).1, fun x => ?_⟩
        rw [(ih _ htl).2 x, mem_keys_aset]
        simp only [List.map_cons, List.mem_cons]
        constructor
        · rintro ((h1 | h1) | h1)
          · exact Or.inr (Or.inl h1)
          · exact Or.inl h1
          · exact Or.inr (Or.inr h1)
        · rintro (h1 | h1 | h1)
          · exact Or.inl (Or.inr h1)
          · exact Or.inl (Or.inl h1)
          · exact Or.inr h1

/- ---------- MapInv ---------- -/
def MapInv (hash : JVal → String) (m : List (String × JVal)) : Prop := ∀ id v, (id, v) ∈ m → hash v = id

def CacheInv (hash : JVal → String) (s : St) : Prop :=
  MapInv hash s.session ∧ ∀ c, s.cacheFile = some c → MapInv hash c

theorem mapInv_aset {m : List (String × JVal)} (h : MapInv hash m) {id : String} {v : JVal}
    (hv : hash v = id) : MapInv hash (aset id v m) := by
  intro i w hm
  rcases mem_aset hm with hm | hm
  · simp only [Prod.mk.injEq] at hm; obtain ⟨rfl, rfl⟩ := hm; exact hv
  · exact h i w hm

theorem mapInv_updateAll {b c : List (String × JVal)} (hb : MapInv hash b) (hc : MapInv hash c) :
    MapInv hash (updateAll b c) := by
  induction c generalizing b with
  | nil => exact hb
  | cons hd tl ih =>
    obtain ⟨k, v⟩ := hd
    simp only [updateAll]
    exact ih (mapInv_aset hb (hc k v List.mem_cons_self))
      (fun i w hm => hc i w (List.mem_cons_of_mem _ hm))

theorem loadValid_hash {d : Dir} {id : String} {v : JVal} (h : loadValid hash d id = some v) :
    hash v = id := by
  unfold loadValid at h
  split at h
  · split at h
    · simp only [Option.some.injEq] at h; subst h; assumption
    · simp at h
  · simp at h

theorem mapInv_addMissing (ws l : List (String × Dir)) {sess : List (String × JVal)}
    (h : MapInv hash sess) : MapInv hash (addMissing hash ws sess l).1 := by
  induction l generalizing sess with
  | nil => exact h
  | cons hd tl ih =>
    obtain ⟨id, d⟩ := hd
    simp only [addMissing]
    split
    · exact ih h
    · cases hl : loadValid hash d id with
      | none => simp only []; exact ih h
      | some v => simp only []; exact ih (mapInv_aset h (loadValid_hash hl))

theorem cacheInv_readCache {s : St} (h : CacheInv hash s) : CacheInv hash (readCache s) := by
  unfold readCache
  split
  · rename_i c hc
    exact ⟨mapInv_updateAll h.1 (h.2 c hc), h.2⟩
  · exact h

theorem cacheInv_ensureRead {s : St} (h : CacheInv hash s) : CacheInv hash (ensureRead s) := by
  unfold ensureRead
  split
  · exact h
  · exact cacheInv_readCache h

theorem cacheInv_register {s : St} (h : CacheInv hash s) {id : String} {v : JVal} (hv : hash v = id) :
    CacheInv hash (register s id v) := ⟨mapInv_aset h.1 hv, h.2⟩

theorem cacheInv_initJob {s : St} (h : CacheInv hash s) (sp : JVal) (force : Bool) :
    CacheInv hash (initJob hash s sp force).1 := by
  have h1 := cacheInv_ensureRead h
  simp only [initJob]
  split
  · split
    · exact h1
    · split
      · rename_i v hv
        exact cacheInv_register (s := { ensureRead s with ws := _ }) h1 (loadValid_hash hv)
      · exact h1
  · exact cacheInv_register (s := { ensureRead s with ws := _ }) h1 rfl

theorem cacheInv_removeJob {s : St} (h : CacheInv hash s) (sp : JVal) :
    CacheInv hash (removeJob hash s sp) := cacheInv_ensureRead h

theorem cacheInv_rekeyJob {s : St} (h : CacheInv hash s) (sp : JVal) (k : String) (v : JVal) :
    CacheInv hash (rekeyJob hash s sp k v).1 := by
  have h1 := cacheInv_ensureRead h
  simp only [rekeyJob]
  split
  · exact h1
  · split
    · exact h1
    · split
      · exact h1
      · split
        · exact h1
        · exact cacheInv_register (s := { ensureRead s with ws := _ }) h1 rfl

theorem mapInv_dropStale (ws : List (String × Dir)) {m : List (String × JVal)} (h : MapInv hash m) :
    MapInv hash (dropStale ws m) := fun i v hm => h i v (dropStale_sub ws m _ hm)

theorem cacheInv_updateCache {s : St} (h : CacheInv hash s) : CacheInv hash (updateCache hash s).1 := by
  have h1 := cacheInv_readCache h
  have hsess : MapInv hash
      (addMissing hash (readCache s).ws (dropStale (readCache s).ws (readCache s).session) (readCache s).ws).1 :=
    mapInv_addMissing _ _ (mapInv_dropStale _ h1.1)
  have hfile : ∀ c, (readCache s).cacheFile = some c → MapInv hash c := h1.2
  simp only [updateCache]
  split
  · exact ⟨hsess, hfile⟩
  · split
    · split
      · exact ⟨hsess, hfile⟩
      · exact ⟨hsess, fun c hc => by simp only [Option.some.injEq] at hc; exact hc ▸ hsess⟩
    · exact ⟨hsess, fun c hc => by simp only [Option.some.injEq] at hc; exact hc ▸ hsess⟩

theorem cacheInv_newSession {s : St} (h : CacheInv hash s) : CacheInv hash (newSession s) :=
  ⟨fun _ _ hm => by simp [newSession] at hm, h.2⟩

theorem cacheInv_rmCache {s : St} (h : CacheInv hash s) : CacheInv hash (rmCache s) :=
  ⟨h.1, fun c hc => by simp [rmCache] at hc⟩

/-- A state point handed out for an id — from the session cache, the cache file or the
    workspace — always hashes to that id. -/
theorem getStatepoint_sound {s : St} (h : CacheInv hash s) (id : String) {v : JVal}
    (hr : (getStatepoint hash s id).2 = .ok v) : hash v = id := by
  have h1 := cacheInv_ensureRead h
  simp only [getStatepoint] at hr
  split at hr
  · rename_i w hw
    simp only [Except.ok.injEq] at hr; subst hr
    exact h1.1 _ _ (alookup_some_mem hw)
  · split at hr
    · split at hr
      · rename_i w hw
        simp only [Except.ok.injEq] at hr; subst hr
        exact loadValid_hash hw
      · simp at hr
    · simp at hr

theorem cacheInv_getStatepoint {s : St} (h : CacheInv hash s) (id : String) :
    CacheInv hash (getStatepoint hash s id).1 := by
  have h1 := cacheInv_ensureRead h
  simp only [getStatepoint]
  split
  · exact h1
  · split
    · split
      · rename_i w hw
        exact cacheInv_register h1 (loadValid_hash hw)
      · exact h1
    · exact h1

theorem cacheInv_observeAll {s : St} (h : CacheInv hash s) (ids : List String) :
    CacheInv hash (observeAll hash s ids) := by
  induction ids generalizing s with
  | nil => exact cacheInv_ensureRead h
  | cons id r ih => exact ih (cacheInv_getStatepoint h id)

theorem openById_eq_getStatepoint (s : St) (id : String) :
    openById hash s id = getStatepoint hash s id := rfl

end
end Signac.Cache

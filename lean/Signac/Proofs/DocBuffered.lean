/-
  Buffered runs against unbuffered runs: the simulation invariant `BInv` (one handle object
  per document inside the blocks), preserved by flushes, block entry / exit and operations.
-/
import Signac.Proofs.DocWorld
namespace Signac.Doc
open Signac

/-! ### `jsame` is identity -/
mutual
  theorem jsame_eq : (a b : JVal) → jsame a b = true → a = b
    | .null, b, h => by cases b <;> simp [jsame] at h; rfl
    | .bool x, b, h => by cases b <;> simp [jsame] at h; rw [h]
    | .int x, b, h => by cases b <;> simp [jsame] at h; rw [h]
    | .flt n e r, b, h => by
        cases b <;> simp [jsame] at h
        obtain ⟨⟨h1, h2⟩, h3⟩ := h; rw [h1, h2, h3]
    | .str x, b, h => by cases b <;> simp [jsame] at h; rw [h]
    | .arr xs, b, h => by
        cases b <;> simp only [jsame] at h <;> try (cases h)
        rw [jsameList_eq xs _ h]
    | .obj xs, b, h => by
        cases b <;> simp only [jsame] at h <;> try (cases h)
        rw [jsameObj_eq xs _ h]
  theorem jsameList_eq : (xs ys : List JVal) → jsameList xs ys = true → xs = ys
    | [], ys, h => by cases ys <;> simp [jsameList] at h; rfl
    | x :: xs, ys, h => by
        cases ys with
        | nil => simp [jsameList] at h
        | cons y ys =>
          simp only [jsameList, Bool.and_eq_true] at h
          rw [jsame_eq x y h.1, jsameList_eq xs ys h.2]
  theorem jsameObj_eq : (xs ys : Entries) → jsameObj xs ys = true → xs = ys
    | [], ys, h => by cases ys <;> simp [jsameObj] at h; rfl
    | (k, v) :: xs, ys, h => by
        cases ys with
        | nil => simp [jsameObj] at h
        | cons y ys =>
          obtain ⟨k', v'⟩ := y
          simp only [jsameObj, Bool.and_eq_true, beq_iff_eq] at h
          rw [h.1.1, jsame_eq v v' h.1.2, jsameObj_eq xs ys h.2]
end

theorem sim_to_empty {v : JVal} (h : Sim v (.obj [])) : v = .obj [] := by
  obtain ⟨a, rfl⟩ := h.obj_right
  rw [sim_empty_obj h]

/-! ### what a flush does to the fields -/
theorem flushObj_buf (w : World) (o : Nat) : (flushObj w o).buf = upd w.buf (w.fileOf o) none := by
  unfold flushObj
  split
  · next h => funext g; simp only [upd]; split
              · next hg => rw [hg, h]
              · rfl
  · split <;> rfl

theorem flushObj_fileOf (w : World) (o : Nat) : (flushObj w o).fileOf = w.fileOf := by
  unfold flushObj; split
  · rfl
  · split <;> rfl
theorem flushObj_order (w : World) (o : Nat) : (flushObj w o).order = w.order := by
  unfold flushObj; split
  · rfl
  · split <;> rfl
theorem flushObj_depth (w : World) (o : Nat) : (flushObj w o).depth = w.depth := by
  unfold flushObj; split
  · rfl
  · split <;> rfl

theorem flushList_fileOf (os : List Nat) (w : World) : (flushList os w).fileOf = w.fileOf := by
  induction os generalizing w with
  | nil => rfl
  | cons o os ih => simp only [flushList]; rw [ih, flushObj_fileOf]
theorem flushList_order (os : List Nat) (w : World) : (flushList os w).order = w.order := by
  induction os generalizing w with
  | nil => rfl
  | cons o os ih => simp only [flushList]; rw [ih, flushObj_order]
theorem flushList_depth (os : List Nat) (w : World) : (flushList os w).depth = w.depth := by
  induction os generalizing w with
  | nil => rfl
  | cons o os ih => simp only [flushList]; rw [ih, flushObj_depth]

theorem flushList_buf (os : List Nat) (w : World) (g : Nat) :
    (flushList os w).buf g = if g ∈ os.map w.fileOf then none else w.buf g := by
  induction os generalizing w with
  | nil => simp [flushList]
  | cons o os ih =>
    simp only [flushList]
    rw [ih, flushObj_fileOf, flushObj_buf]
    by_cases h1 : g = w.fileOf o
    · subst h1; simp
    · simp [upd_other _ _ h1, h1]

/-! ### the simulation invariant -/
section
variable (F : Nat → Nat) (rep : Nat → Nat)

/-- the document has a handle object designated for the blocks -/
def Active (f : Nat) : Prop := F (rep f) = f

structure FileInv (wb wu : World) (f : Nat) : Prop where
  cohU : wu.files f = none → Sim (wu.data (rep f)) (.obj [])
  dsim : Sim (wb.data (rep f)) (wu.data (rep f))
  noent : wb.buf f = none →
    CSim (wb.files f) (wu.files f) ∧ (wb.files f = none → Sim (wb.data (rep f)) (.obj []))
  ent : ∀ e, wb.buf f = some e →
    Sim (wb.data (rep f)) e.contents ∧ Sim e.contents (content (wu.files f)) ∧
    (∀ b, e.base = some b → Sim b (content (wb.files f)))
  e1 : wu.files f = none →
    wb.files f = none ∧ wb.data (rep f) = .obj [] ∧ ∀ e, wb.buf f = some e → e = ⟨.obj [], some (.obj [])⟩

structure BInv (wb wu : World) : Prop where
  fob : wb.fileOf = F
  fou : wu.fileOf = F
  du : wu.depth = 0
  wfb : WFWorld wb
  wfu : WFWorld wu
  ord : ∀ o ∈ wb.order, rep (F o) = o
  bufo : ∀ f e, wb.buf f = some e → rep f ∈ wb.order ∧ Active F rep f
  d0 : wb.depth = 0 → ∀ f, wb.buf f = none
  frozen : ∀ f, ¬ Active F rep f → wb.files f = wu.files f
  act : ∀ f, Active F rep f → FileInv rep wb wu f

variable {F rep}

theorem FileInv.congr {wb wu wb' wu' : World} {f : Nat} (h : FileInv rep wb wu f)
    (h1 : wb'.files f = wb.files f) (h2 : wb'.data (rep f) = wb.data (rep f)) (h3 : wb'.buf f = wb.buf f)
    (h4 : wu'.files f = wu.files f) (h5 : wu'.data (rep f) = wu.data (rep f)) : FileInv rep wb' wu' f := by
  constructor
  · rw [h4, h5]; exact h.cohU
  · rw [h2, h5]; exact h.dsim
  · rw [h3, h1, h2, h4]; exact h.noent
  · rw [h3, h1, h2, h4]; exact h.ent
  · rw [h4, h1, h2, h3]; exact h.e1

theorem active_of_rep {o : Nat} (h : rep (F o) = o) : Active F rep (F o) := by
  unfold Active; rw [h]

theorem rep_ne {o g : Nat} (ho : rep (F o) = o) (hg : Active F rep g) (hne : g ≠ F o) : rep g ≠ o := by
  intro e
  apply hne
  unfold Active at hg
  rw [← hg, e]

/-- `BInv` only looks at files, data, fileOf, buf, order of the buffered world (and depth through `d0`) -/
theorem BInv.congrB {wb wu wb' : World} (h : BInv F rep wb wu)
    (h1 : wb'.files = wb.files) (h2 : wb'.data = wb.data) (h3 : wb'.fileOf = wb.fileOf)
    (h4 : wb'.buf = wb.buf) (h5 : wb'.order = wb.order) (h6 : wb'.depth = 0 → ∀ f, wb'.buf f = none) :
    BInv F rep wb' wu := by
  refine ⟨h3 ▸ h.fob, h.fou, h.du, ⟨?_, ?_, ?_⟩, h.wfu, ?_, ?_, h6, ?_, ?_⟩
  · rw [h2]; exact h.wfb.data
  · rw [h1]; exact h.wfb.files
  · rw [h4]; exact h.wfb.buf
  · rw [h5]; exact h.ord
  · rw [h4, h5]; exact h.bufo
  · rw [h1]; exact h.frozen
  · intro f hf
    exact (h.act f hf).congr (by rw [h1]) (by rw [h2]) (by rw [h4]) rfl rfl

theorem changed_empty : changed (.obj []) (some (.obj [])) = false := by decide

/-- flushing one designated object keeps the invariant -/
theorem binv_flushObj {wb wu : World} (h : BInv F rep wb wu) {o : Nat} (ho : rep (F o) = o)
    (hh : (flushObj wb o).hit = false) : BInv F rep (flushObj wb o) wu := by
  have hfo : wb.fileOf o = F o := by rw [h.fob]
  have hact := active_of_rep ho
  cases hb : wb.buf (F o) with
  | none =>
    have : flushObj wb o = wb := by unfold flushObj; rw [hfo, hb]
    rw [this]; exact h
  | some e =>
    have hI := h.act (F o) hact
    have hcoh : wu.files (F o) = none → Sim (wu.data o) (.obj []) := by
      have := hI.cohU; rwa [ho] at this
    have hds : Sim (wb.data o) (wu.data o) := by have := hI.dsim; rwa [ho] at this
    have hent := hI.ent e hb
    rw [ho] at hent
    obtain ⟨e1, e2, e3⟩ := hent
    have he1 : wu.files (F o) = none → wb.files (F o) = none ∧ wb.data o = .obj [] ∧
        ∀ e, wb.buf (F o) = some e → e = ⟨.obj [], some (.obj [])⟩ := by
      have := hI.e1; rwa [ho] at this
    have hwe : WF e.contents := h.wfb.buf _ e hb
    by_cases hc : changed (wb.data o) e.base = true
    · -- the file is written
      have hfl : flushObj wb o =
          { wb with data := upd wb.data o (mergeVal (wb.data o) e.contents),
                    files := upd wb.files (F o) (some (mergeVal (wb.data o) e.contents)),
                    buf := upd wb.buf (F o) none, hit := wb.hit || nullHit (wb.data o) e.contents } := by
        unfold flushObj; rw [hfo, hb]; simp only [hc, if_true]
      rw [hfl] at hh ⊢
      have hnh : nullHit (wb.data o) e.contents = false := by
        simp only [Bool.or_eq_false_iff] at hh; exact hh.2
      have hm : Sim (mergeVal (wb.data o) e.contents) e.contents := merge_sim _ _ (h.wfb.data o) hwe hnh
      have hwm : WF (mergeVal (wb.data o) e.contents) := wf_merge _ _ (h.wfb.data o) hwe
      refine ⟨h.fob, h.fou, h.du, ⟨?_, ?_, ?_⟩, h.wfu, h.ord, ?_, ?_, ?_, ?_⟩
      · intro o'
        show WF (upd wb.data o _ o')
        by_cases hoo : o' = o
        · subst hoo; rw [upd_same]; exact hwm
        · rw [upd_other _ _ hoo]; exact h.wfb.data o'
      · intro f' v hv
        change upd wb.files (F o) _ f' = some v at hv
        by_cases hf' : f' = F o
        · subst hf'; rw [upd_same] at hv; cases hv; exact hwm
        · rw [upd_other _ _ hf'] at hv; exact h.wfb.files f' v hv
      · intro f' e' he'
        change upd wb.buf (F o) none f' = some e' at he'
        by_cases hf' : f' = F o
        · subst hf'; rw [upd_same] at he'; cases he'
        · rw [upd_other _ _ hf'] at he'; exact h.wfb.buf f' e' he'
      · intro f' e' he'
        change upd wb.buf (F o) none f' = some e' at he'
        by_cases hf' : f' = F o
        · subst hf'; rw [upd_same] at he'; cases he'
        · rw [upd_other _ _ hf'] at he'; exact h.bufo f' e' he'
      · intro hd f'
        show upd wb.buf (F o) none f' = none
        by_cases hf' : f' = F o
        · subst hf'; rw [upd_same]
        · rw [upd_other _ _ hf']; exact h.d0 hd f'
      · intro f' hf'
        show upd wb.files (F o) _ f' = wu.files f'
        have : f' ≠ F o := fun e => hf' (e ▸ hact)
        rw [upd_other _ _ this]; exact h.frozen f' hf'
      · intro g hg
        by_cases hgf : g = F o
        · subst hgf
          refine ⟨?_, ?_, ?_, ?_, ?_⟩ <;> rw [ho]
          · exact hcoh
          · show Sim (upd wb.data o _ o) _
            rw [upd_same]
            exact hm.trans (e1.symm.trans hds)
          · intro _
            refine ⟨?_, ?_⟩
            · show Sim (content (upd wb.files (F o) _ (F o))) _
              rw [upd_same]; exact hm.trans e2
            · intro hn
              change upd wb.files (F o) _ (F o) = none at hn
              rw [upd_same] at hn; cases hn
          · intro e' he'
            change upd wb.buf (F o) none (F o) = some e' at he'
            rw [upd_same] at he'; cases he'
          · intro hn
            obtain ⟨_, hd0, he0⟩ := he1 hn
            have := he0 e hb
            rw [hd0, this] at hc
            rw [changed_empty] at hc; cases hc
        · have hr := rep_ne ho hg hgf
          exact (h.act g hg).congr (upd_other _ _ hgf) (upd_other _ _ hr) (upd_other _ _ hgf) rfl rfl
    · -- unchanged: only the buffer entry goes
      have hc' : changed (wb.data o) e.base = false := by simpa using hc
      have hfl : flushObj wb o = { wb with buf := upd wb.buf (F o) none } := by
        unfold flushObj; rw [hfo, hb]; simp only [hc', Bool.false_eq_true, if_false]
      rw [hfl]
      obtain ⟨b, hbase, hdb⟩ : ∃ b, e.base = some b ∧ wb.data o = b := by
        cases hbs : e.base with
        | none => rw [hbs] at hc'; simp [changed] at hc'
        | some b =>
          rw [hbs] at hc'
          simp only [changed, Bool.not_eq_false'] at hc'
          exact ⟨b, rfl, jsame_eq _ _ hc'⟩
      have hbf : Sim b (content (wb.files (F o))) := e3 b hbase
      refine ⟨h.fob, h.fou, h.du, ⟨h.wfb.data, h.wfb.files, ?_⟩, h.wfu, h.ord, ?_, ?_, h.frozen, ?_⟩
      · intro f' e' he'
        change upd wb.buf (F o) none f' = some e' at he'
        by_cases hf' : f' = F o
        · subst hf'; rw [upd_same] at he'; cases he'
        · rw [upd_other _ _ hf'] at he'; exact h.wfb.buf f' e' he'
      · intro f' e' he'
        change upd wb.buf (F o) none f' = some e' at he'
        by_cases hf' : f' = F o
        · subst hf'; rw [upd_same] at he'; cases he'
        · rw [upd_other _ _ hf'] at he'; exact h.bufo f' e' he'
      · intro hd f'
        show upd wb.buf (F o) none f' = none
        by_cases hf' : f' = F o
        · subst hf'; rw [upd_same]
        · rw [upd_other _ _ hf']; exact h.d0 hd f'
      · intro g hg
        by_cases hgf : g = F o
        · subst hgf
          refine ⟨?_, ?_, ?_, ?_, ?_⟩ <;> rw [ho]
          · exact hcoh
          · exact hds
          · intro _
            refine ⟨?_, ?_⟩
            · show Sim (content (wb.files (F o))) _
              exact hbf.symm.trans (hdb ▸ e1.trans e2)
            · intro hn
              show Sim (wb.data o) _
              rw [hdb]
              have := hbf
              rw [hn] at this
              exact this
          · intro e' he'
            change upd wb.buf (F o) none (F o) = some e' at he'
            rw [upd_same] at he'; cases he'
          · intro hn
            obtain ⟨hf0, hd0, _⟩ := he1 hn
            refine ⟨hf0, hd0, ?_⟩
            intro e' he'
            change upd wb.buf (F o) none (F o) = some e' at he'
            rw [upd_same] at he'; cases he'
        · exact (h.act g hg).congr rfl rfl (upd_other _ _ hgf) rfl rfl

theorem binv_flushList {wu : World} (os : List Nat) : ∀ {wb : World}, BInv F rep wb wu →
    (∀ o ∈ os, rep (F o) = o) → (flushList os wb).hit = false → BInv F rep (flushList os wb) wu := by
  induction os with
  | nil => intro wb h _ _; exact h
  | cons o os ih =>
    intro wb h ho hh
    simp only [flushList] at hh ⊢
    have h1 : (flushObj wb o).hit = false := by
      cases hx : (flushObj wb o).hit with
      | false => rfl
      | true => rw [hit_flushList os hx] at hh; cases hh
    exact ih (binv_flushObj h (ho o List.mem_cons_self) h1) (fun o' h' => ho o' (List.mem_cons_of_mem _ h')) hh

theorem flushAll_buf_none {wb wu : World} (h : BInv F rep wb wu) (g : Nat) : (flushAll wb).buf g = none := by
  show (flushList wb.order.reverse wb).buf g = none
  rw [flushList_buf]
  split
  · rfl
  · next hg =>
    cases hb : wb.buf g with
    | none => rfl
    | some e =>
      exfalso
      obtain ⟨h1, h2⟩ := h.bufo g e hb
      apply hg
      rw [h.fob]
      exact List.mem_map.mpr ⟨rep g, List.mem_reverse.mpr h1, h2⟩

theorem binv_flushAll {wb wu : World} (h : BInv F rep wb wu) (hh : (flushAll wb).hit = false) :
    BInv F rep (flushAll wb) wu := by
  have hl : BInv F rep (flushList wb.order.reverse wb) wu :=
    binv_flushList _ h (fun o ho => h.ord o (List.mem_reverse.mp ho)) hh
  have hbn := flushAll_buf_none h
  refine ⟨hl.fob, hl.fou, hl.du, ⟨hl.wfb.data, hl.wfb.files, hl.wfb.buf⟩, hl.wfu, ?_, ?_, ?_, hl.frozen,
    fun f hf => (hl.act f hf).congr rfl rfl rfl rfl rfl⟩
  · intro o ho; cases ho
  · intro f e he
    have := hbn f
    change (flushList wb.order.reverse wb).buf f = none at this
    change (flushList wb.order.reverse wb).buf f = some e at he
    rw [this] at he; cases he
  · intro _ f; exact hbn f

theorem binv_maybeFlush {wb wu : World} (h : BInv F rep wb wu) (hh : (maybeFlush wb).hit = false) :
    BInv F rep (maybeFlush wb) wu := by
  unfold maybeFlush at hh ⊢
  split
  · next hc => rw [if_pos hc] at hh; exact binv_flushAll h hh
  · exact h


/-! ### field lemmas for the stages of a buffered load / save -/
theorem touch_files (w : World) (o : Nat) : (touch w o).files = w.files := by unfold touch; split <;> rfl
theorem touch_data (w : World) (o : Nat) : (touch w o).data = w.data := by unfold touch; split <;> rfl
theorem touch_fileOf (w : World) (o : Nat) : (touch w o).fileOf = w.fileOf := by unfold touch; split <;> rfl
theorem touch_buf (w : World) (o : Nat) : (touch w o).buf = w.buf := by unfold touch; split <;> rfl
theorem touch_depth (w : World) (o : Nat) : (touch w o).depth = w.depth := by unfold touch; split <;> rfl
theorem touch_hit (w : World) (o : Nat) : (touch w o).hit = w.hit := by unfold touch; split <;> rfl
theorem touch_mem (w : World) (o : Nat) : o ∈ (touch w o).order := by
  unfold touch; split
  · next h => simpa using h
  · simp
theorem touch_sub (w : World) (o o' : Nat) (h : o' ∈ w.order) : o' ∈ (touch w o).order := by
  unfold touch; split
  · exact h
  · simp [h]
theorem touch_order_cases (w : World) (o o' : Nat) (h : o' ∈ (touch w o).order) : o' ∈ w.order ∨ o' = o := by
  unfold touch at h; split at h
  · exact Or.inl h
  · simp at h; exact h

theorem binv_touch {wb wu : World} (h : BInv F rep wb wu) {o : Nat} (ho : rep (F o) = o) :
    BInv F rep (touch wb o) wu := by
  refine ⟨by rw [touch_fileOf]; exact h.fob, h.fou, h.du, ⟨?_, ?_, ?_⟩, h.wfu, ?_, ?_, ?_, ?_, ?_⟩
  · rw [touch_data]; exact h.wfb.data
  · rw [touch_files]; exact h.wfb.files
  · rw [touch_buf]; exact h.wfb.buf
  · intro o' ho'
    rcases touch_order_cases _ _ _ ho' with h' | h'
    · exact h.ord o' h'
    · rw [h']; exact ho
  · intro f e he
    rw [touch_buf] at he
    exact ⟨touch_sub _ _ _ (h.bufo f e he).1, (h.bufo f e he).2⟩
  · intro hd f; rw [touch_buf]; rw [touch_depth] at hd; exact h.d0 hd f
  · rw [touch_files]; exact h.frozen
  · intro f hf
    exact (h.act f hf).congr (by rw [touch_files]) (by rw [touch_data]) (by rw [touch_buf]) rfl rfl

/-- replacing the in-memory value of a designated object by a `Sim` one (buffered side) -/
theorem binv_dataB {wb wu : World} (h : BInv F rep wb wu) {o : Nat} (ho : rep (F o) = o) {v : JVal}
    (hv : Sim v (wb.data o)) (hw : WF v) (b : Bool) :
    BInv F rep { wb with data := upd wb.data o v, hit := b } wu := by
  have hact := active_of_rep ho
  refine ⟨h.fob, h.fou, h.du, ⟨?_, h.wfb.files, h.wfb.buf⟩, h.wfu, h.ord, h.bufo, h.d0, h.frozen, ?_⟩
  · intro o'
    show WF (upd wb.data o v o')
    by_cases hoo : o' = o
    · subst hoo; rw [upd_same]; exact hw
    · rw [upd_other _ _ hoo]; exact h.wfb.data o'
  · intro g hg
    by_cases hgf : g = F o
    · subst hgf
      have hI := h.act (F o) hact
      refine ⟨?_, ?_, ?_, ?_, ?_⟩ <;> rw [ho]
      · have := hI.cohU; rwa [ho] at this
      · show Sim (upd wb.data o v o) _
        rw [upd_same]
        have := hI.dsim; rw [ho] at this
        exact hv.trans this
      · intro hb
        have := hI.noent hb; rw [ho] at this
        refine ⟨this.1, fun hn => ?_⟩
        show Sim (upd wb.data o v o) _
        rw [upd_same]; exact hv.trans (this.2 hn)
      · intro e he
        have := hI.ent e he; rw [ho] at this
        refine ⟨?_, this.2.1, this.2.2⟩
        show Sim (upd wb.data o v o) _
        rw [upd_same]; exact hv.trans this.1
      · intro hn
        have := hI.e1 hn; rw [ho] at this
        refine ⟨this.1, ?_, this.2.2⟩
        show upd wb.data o v o = _
        rw [upd_same]
        exact sim_to_empty (this.2.1 ▸ hv)
    · have hr := rep_ne ho hg hgf
      exact (h.act g hg).congr rfl (upd_other _ _ hr) rfl rfl rfl

/-- the same on the unbuffered side -/
theorem binv_dataU {wb wu : World} (h : BInv F rep wb wu) {o : Nat} (ho : rep (F o) = o) {v : JVal}
    (hv : Sim v (wu.data o)) (hw : WF v) (b : Bool) :
    BInv F rep wb { wu with data := upd wu.data o v, hit := b } := by
  have hact := active_of_rep ho
  refine ⟨h.fob, h.fou, h.du, h.wfb, ⟨?_, h.wfu.files, h.wfu.buf⟩, h.ord, h.bufo, h.d0, h.frozen, ?_⟩
  · intro o'
    show WF (upd wu.data o v o')
    by_cases hoo : o' = o
    · subst hoo; rw [upd_same]; exact hw
    · rw [upd_other _ _ hoo]; exact h.wfu.data o'
  · intro g hg
    by_cases hgf : g = F o
    · subst hgf
      have hI := h.act (F o) hact
      refine ⟨?_, ?_, ?_, ?_, ?_⟩ <;> rw [ho]
      · intro hn
        show Sim (upd wu.data o v o) _
        rw [upd_same]
        have := hI.cohU hn; rw [ho] at this
        exact hv.trans this
      · show Sim _ (upd wu.data o v o)
        rw [upd_same]
        have := hI.dsim; rw [ho] at this
        exact this.trans hv.symm
      · have := hI.noent; rwa [ho] at this
      · have := hI.ent; rwa [ho] at this
      · have := hI.e1; rwa [ho] at this
    · have hr := rep_ne ho hg hgf
      exact (h.act g hg).congr rfl rfl rfl rfl (upd_other _ _ hr)

/-- both sides load outside any buffer entry -/
theorem binv_load0 {wb wu : World} (h : BInv F rep wb wu) {o : Nat} (ho : rep (F o) = o)
    (hb : wb.buf (F o) = none) (h1 : (loadU wb o).hit = false) (h2 : (loadU wu o).hit = false) :
    BInv F rep (loadU wb o) (loadU wu o) := by
  have hact := active_of_rep ho
  have hI := h.act (F o) hact
  have hno := hI.noent hb
  rw [ho] at hno
  have hcu := hI.cohU; rw [ho] at hcu
  have hl1 : loadHit (wb.data o) (wb.files (F o)) = false := by
    have := h1; simp only [loadU, Bool.or_eq_false_iff, h.fob] at this; exact this.2
  have hl2 : loadHit (wu.data o) (wu.files (F o)) = false := by
    have := h2; simp only [loadU, Bool.or_eq_false_iff, h.fou] at this; exact this.2
  have hs1 : Sim (loadedFrom (wb.data o) (wb.files (F o))) (content (wb.files (F o))) :=
    loadedFrom_sim (h.wfb.data o) (h.wfb.files _) hl1 hno.2
  have hs2 : Sim (loadedFrom (wu.data o) (wu.files (F o))) (content (wu.files (F o))) :=
    loadedFrom_sim (h.wfu.data o) (h.wfu.files _) hl2 hcu
  have hw1 := wf_loadedFrom (h.wfb.data o) (h.wfb.files (F o))
  have hw2 := wf_loadedFrom (h.wfu.data o) (h.wfu.files (F o))
  have e1 : loadU wb o = { wb with data := upd wb.data o (loadedFrom (wb.data o) (wb.files (F o))),
                                   hit := wb.hit || loadHit (wb.data o) (wb.files (F o)) } := by
    unfold loadU; rw [h.fob]
  have e2 : loadU wu o = { wu with data := upd wu.data o (loadedFrom (wu.data o) (wu.files (F o))),
                                   hit := wu.hit || loadHit (wu.data o) (wu.files (F o)) } := by
    unfold loadU; rw [h.fou]
  rw [e1, e2]
  -- the invariant for file `F o`, everything else by the one-sided lemmas is not enough: do it directly
  refine ⟨h.fob, h.fou, h.du, ⟨?_, h.wfb.files, h.wfb.buf⟩, ⟨?_, h.wfu.files, h.wfu.buf⟩, h.ord, h.bufo,
    h.d0, h.frozen, ?_⟩
  · intro o'
    show WF (upd wb.data o _ o')
    by_cases hoo : o' = o
    · subst hoo; rw [upd_same]; exact hw1
    · rw [upd_other _ _ hoo]; exact h.wfb.data o'
  · intro o'
    show WF (upd wu.data o _ o')
    by_cases hoo : o' = o
    · subst hoo; rw [upd_same]; exact hw2
    · rw [upd_other _ _ hoo]; exact h.wfu.data o'
  · intro g hg
    by_cases hgf : g = F o
    · subst hgf
      refine ⟨?_, ?_, ?_, ?_, ?_⟩ <;> rw [ho]
      · intro hn
        show Sim (upd wu.data o _ o) _
        rw [upd_same, hn]
        have := hs2; rw [hn] at this; exact this
      · show Sim (upd wb.data o _ o) (upd wu.data o _ o)
        rw [upd_same, upd_same]
        exact hs1.trans (hno.1.trans hs2.symm)
      · intro _
        refine ⟨hno.1, fun hn => ?_⟩
        show Sim (upd wb.data o _ o) _
        rw [upd_same, hn]
        have := hs1; rw [hn] at this; exact this
      · intro e he
        change wb.buf (F o) = some e at he
        rw [hb] at he; cases he
      · intro hn
        have := hI.e1 hn; rw [ho] at this
        refine ⟨this.1, ?_, this.2.2⟩
        show upd wb.data o _ o = _
        rw [upd_same, this.1, this.2.1]; rfl
    · have hr := rep_ne ho hg hgf
      exact (h.act g hg).congr rfl (upd_other _ _ hr) rfl rfl (upd_other _ _ hr)

/-- the unbuffered side loads while the buffered side holds a buffer entry -/
theorem binv_loadU_ent {wb wu : World} (h : BInv F rep wb wu) {o : Nat} (ho : rep (F o) = o) {e : Entry}
    (hb : wb.buf (F o) = some e) (h2 : (loadU wu o).hit = false) : BInv F rep wb (loadU wu o) := by
  have hact := active_of_rep ho
  have hI := h.act (F o) hact
  have hent := hI.ent e hb
  rw [ho] at hent
  have hcu := hI.cohU; rw [ho] at hcu
  have hds := hI.dsim; rw [ho] at hds
  have hl2 : loadHit (wu.data o) (wu.files (F o)) = false := by
    have := h2; simp only [loadU, Bool.or_eq_false_iff, h.fou] at this; exact this.2
  have hs2 : Sim (loadedFrom (wu.data o) (wu.files (F o))) (content (wu.files (F o))) :=
    loadedFrom_sim (h.wfu.data o) (h.wfu.files _) hl2 hcu
  have e2 : loadU wu o = { wu with data := upd wu.data o (loadedFrom (wu.data o) (wu.files (F o))),
                                   hit := wu.hit || loadHit (wu.data o) (wu.files (F o)) } := by
    unfold loadU; rw [h.fou]
  rw [e2]
  exact binv_dataU h ho (hs2.trans (hent.2.1.symm.trans (hent.1.symm.trans hds)))
    (wf_loadedFrom (h.wfu.data o) (h.wfu.files (F o))) _


/-! ### a buffered load -/
theorem bufInit_of_some {w : World} {o : Nat} {e : Entry} (h : w.buf (w.fileOf o) = some e) : bufInit w o = w := by
  unfold bufInit; rw [h]

theorem bufInit_of_none {w : World} {o : Nat} (h : w.buf (w.fileOf o) = none) :
    bufInit w o = { loadU w o with
      buf := upd w.buf (w.fileOf o) (some ⟨(loadU w o).data o, some ((loadU w o).data o)⟩) } := by
  unfold bufInit; rw [h]; rfl

theorem bufInit_depth (w : World) (o : Nat) : (bufInit w o).depth = w.depth := by
  unfold bufInit; split <;> rfl
theorem bufInit_fileOf (w : World) (o : Nat) : (bufInit w o).fileOf = w.fileOf := by
  unfold bufInit; split <;> rfl
theorem flushAll_depth (w : World) : (flushAll w).depth = w.depth := flushList_depth _ _
theorem flushAll_fileOf (w : World) : (flushAll w).fileOf = w.fileOf := flushList_fileOf _ _
theorem maybeFlush_depth (w : World) : (maybeFlush w).depth = w.depth := by
  unfold maybeFlush; split
  · exact flushAll_depth w
  · rfl
theorem maybeFlush_fileOf (w : World) : (maybeFlush w).fileOf = w.fileOf := by
  unfold maybeFlush; split
  · exact flushAll_fileOf w
  · rfl
theorem loadB_depth (w : World) (o : Nat) : (loadB w o).depth = w.depth := by
  unfold loadB; simp only; split
  · rw [touch_depth, bufInit_depth]
  · show (maybeFlush _).depth = _; rw [maybeFlush_depth, touch_depth, bufInit_depth]
theorem loadB_fileOf (w : World) (o : Nat) : (loadB w o).fileOf = w.fileOf := by
  unfold loadB; simp only; split
  · rw [touch_fileOf, bufInit_fileOf]
  · show (maybeFlush _).fileOf = _; rw [maybeFlush_fileOf, touch_fileOf, bufInit_fileOf]

/-- a fresh buffer entry holding the designated object's value, then `touch` -/
theorem binv_addEntry {wb wu : World} (h : BInv F rep wb wu) {o : Nat} (ho : rep (F o) = o)
    (hb : wb.buf (F o) = none) (hd : wb.depth ≠ 0) (hs : Sim (wb.data o) (content (wb.files (F o)))) :
    BInv F rep (touch { wb with buf := upd wb.buf (F o) (some ⟨wb.data o, some (wb.data o)⟩) } o) wu := by
  have hact := active_of_rep ho
  have hI := h.act (F o) hact
  have hno := hI.noent hb
  refine ⟨by rw [touch_fileOf]; exact h.fob, h.fou, h.du, ⟨?_, ?_, ?_⟩, h.wfu, ?_, ?_, ?_, ?_, ?_⟩
  · rw [touch_data]; exact h.wfb.data
  · rw [touch_files]; exact h.wfb.files
  · rw [touch_buf]
    intro f' e' he'
    change upd wb.buf (F o) _ f' = some e' at he'
    by_cases hf' : f' = F o
    · subst hf'; rw [upd_same] at he'; cases he'; exact h.wfb.data o
    · rw [upd_other _ _ hf'] at he'; exact h.wfb.buf f' e' he'
  · intro o' ho'
    rcases touch_order_cases _ _ _ ho' with h' | h'
    · exact h.ord o' h'
    · rw [h']; exact ho
  · intro f' e' he'
    rw [touch_buf] at he'
    change upd wb.buf (F o) _ f' = some e' at he'
    by_cases hf' : f' = F o
    · subst hf'; rw [ho]; exact ⟨touch_mem _ _, hact⟩
    · rw [upd_other _ _ hf'] at he'
      exact ⟨touch_sub _ _ _ (h.bufo f' e' he').1, (h.bufo f' e' he').2⟩
  · intro hd'; rw [touch_depth] at hd'; exact absurd hd' hd
  · rw [touch_files]; exact h.frozen
  · intro g hg
    by_cases hgf : g = F o
    · subst hgf
      refine ⟨?_, ?_, ?_, ?_, ?_⟩ <;> rw [ho] <;> try simp only [touch_buf, touch_data, touch_files]
      · have := hI.cohU; rwa [ho] at this
      · have := hI.dsim; rwa [ho] at this
      · intro hn
        change upd wb.buf (F o) _ (F o) = none at hn
        rw [upd_same] at hn; cases hn
      · intro e' he'
        change upd wb.buf (F o) _ (F o) = some e' at he'
        rw [upd_same] at he'; cases he'
        exact ⟨Sim.refl _, hs.trans hno.1, fun b hb' => by cases hb'; exact hs⟩
      · intro hn
        have := hI.e1 hn; rw [ho] at this
        refine ⟨this.1, this.2.1, ?_⟩
        intro e' he'
        change upd wb.buf (F o) _ (F o) = some e' at he'
        rw [upd_same] at he'; cases he'
        rw [this.2.1]
    · exact (h.act g hg).congr (by rw [touch_files]) (by rw [touch_data])
        (by rw [touch_buf]; exact upd_other _ _ hgf) rfl rfl

theorem hit_false_mono {a b : Bool} (m : a = true → b = true) (h : b = false) : a = false := by
  cases a with
  | false => rfl
  | true => rw [m rfl] at h; cases h

/-- stage A of a buffered load: the entry exists afterwards, both sides related -/
theorem binv_stageA {wb wu : World} (h : BInv F rep wb wu) {o : Nat} (ho : rep (F o) = o)
    (hd : wb.depth ≠ 0) (h1 : (touch (bufInit wb o) o).hit = false) (h2 : (loadU wu o).hit = false) :
    BInv F rep (touch (bufInit wb o) o) (loadU wu o) ∧
    ∃ e, (touch (bufInit wb o) o).buf (F o) = some e := by
  have hfo : wb.fileOf o = F o := by rw [h.fob]
  cases hb : wb.buf (F o) with
  | some e =>
    have hbi : bufInit wb o = wb := bufInit_of_some (hfo ▸ hb)
    rw [hbi]
    exact ⟨binv_touch (binv_loadU_ent h ho hb h2) ho, e, by rw [touch_buf]; exact hb⟩
  | none =>
    have hbi := bufInit_of_none (w := wb) (o := o) (hfo ▸ hb)
    rw [hfo] at hbi
    have h1' : (loadU wb o).hit = false := by
      rw [touch_hit, hbi] at h1; exact h1
    have B0 := binv_load0 h ho hb h1' h2
    have hs : Sim ((loadU wb o).data o) (content ((loadU wb o).files (F o))) := by
      have hI := h.act (F o) (active_of_rep ho)
      have hno := hI.noent hb; rw [ho] at hno
      have hl1 : loadHit (wb.data o) (wb.files (F o)) = false := by
        have := h1'; simp only [loadU, Bool.or_eq_false_iff, h.fob] at this; exact this.2
      have := loadedFrom_sim (h.wfb.data o) (h.wfb.files (F o)) hl1 hno.2
      simpa [loadU, h.fob] using this
    have hA := binv_addEntry B0 ho (show (loadU wb o).buf (F o) = none from hb) (show (loadU wb o).depth ≠ 0 from hd) hs
    rw [hbi]
    refine ⟨hA, ⟨(loadU wb o).data o, some ((loadU wb o).data o)⟩, ?_⟩
    rw [touch_buf]
    show upd wb.buf (F o) _ (F o) = _
    rw [upd_same]

theorem binv_loadB {wb wu : World} (h : BInv F rep wb wu) {o : Nat} (ho : rep (F o) = o)
    (hd : wb.depth ≠ 0) (h1 : (loadB wb o).hit = false) (h2 : (loadU wu o).hit = false) :
    BInv F rep (loadB wb o) (loadU wu o) := by
  have hfo : wb.fileOf o = F o := by rw [h.fob]
  have hmono : (touch (bufInit wb o) o).hit = true → (loadB wb o).hit = true := by
    intro hx
    unfold loadB; simp only; split
    · exact hx
    · exact hit_mergeBlob _ _ (hit_maybeFlush hx)
  have hA1 := hit_false_mono hmono h1
  obtain ⟨BA, e, he⟩ := binv_stageA h ho hd hA1 h2
  have hlb : loadB wb o = mergeBlob (maybeFlush (touch (bufInit wb o) o)) o e.contents := by
    unfold loadB; simp only; rw [hfo, he]
  rw [hlb] at h1 ⊢
  have h3 : (maybeFlush (touch (bufInit wb o) o)).hit = false := hit_false_mono (hit_mergeBlob o _) h1
  have BF := binv_maybeFlush BA h3
  have hnh : nullHit ((maybeFlush (touch (bufInit wb o) o)).data o) e.contents = false := by
    have := h1; simp only [mergeBlob, Bool.or_eq_false_iff] at this; exact this.2
  have hact := active_of_rep ho
  have hentA := (BA.act (F o) hact).ent e he; rw [ho] at hentA
  have hdsA := (BA.act (F o) hact).dsim; rw [ho] at hdsA
  have hdsF := (BF.act (F o) hact).dsim; rw [ho] at hdsF
  have hwe : WF e.contents := BA.wfb.buf _ e he
  have hblob : Sim e.contents ((maybeFlush (touch (bufInit wb o) o)).data o) :=
    hentA.1.symm.trans (hdsA.trans hdsF.symm)
  have hm := merge_sim _ _ (BF.wfb.data o) hwe hnh
  exact binv_dataB BF ho (hm.trans hblob) (wf_merge _ _ (BF.wfb.data o) hwe) _

/-! ### a write (set the in-memory value, then save) -/
theorem binv_write0 {wb wu : World} (h : BInv F rep wb wu) {o : Nat} (ho : rep (F o) = o)
    (hd : wb.depth = 0) {v v' : JVal} (hv : Sim v v') (wv : WF v) (wv' : WF v') (b b' : Bool) :
    BInv F rep (saveU (setData wb o v b) o) (saveU (setData wu o v' b') o) := by
  have hact := active_of_rep ho
  have e1 : saveU (setData wb o v b) o = { wb with files := upd wb.files (F o) (some v), data := upd wb.data o v, hit := wb.hit || b } := by
    simp only [saveU, setData, upd_same, h.fob]
  have e2 : saveU (setData wu o v' b') o = { wu with files := upd wu.files (F o) (some v'), data := upd wu.data o v', hit := wu.hit || b' } := by
    simp only [saveU, setData, upd_same, h.fou]
  rw [e1, e2]
  refine ⟨h.fob, h.fou, h.du, ⟨?_, ?_, h.wfb.buf⟩, ⟨?_, ?_, h.wfu.buf⟩, h.ord, h.bufo, h.d0, ?_, ?_⟩
  · intro o'
    show WF (upd wb.data o v o')
    by_cases hoo : o' = o
    · subst hoo; rw [upd_same]; exact wv
    · rw [upd_other _ _ hoo]; exact h.wfb.data o'
  · intro f' x hx
    change upd wb.files (F o) _ f' = some x at hx
    by_cases hf' : f' = F o
    · subst hf'; rw [upd_same] at hx; cases hx; exact wv
    · rw [upd_other _ _ hf'] at hx; exact h.wfb.files f' x hx
  · intro o'
    show WF (upd wu.data o v' o')
    by_cases hoo : o' = o
    · subst hoo; rw [upd_same]; exact wv'
    · rw [upd_other _ _ hoo]; exact h.wfu.data o'
  · intro f' x hx
    change upd wu.files (F o) _ f' = some x at hx
    by_cases hf' : f' = F o
    · subst hf'; rw [upd_same] at hx; cases hx; exact wv'
    · rw [upd_other _ _ hf'] at hx; exact h.wfu.files f' x hx
  · intro f' hf'
    have : f' ≠ F o := fun e => hf' (e ▸ hact)
    show upd wb.files (F o) _ f' = upd wu.files (F o) _ f'
    rw [upd_other _ _ this, upd_other _ _ this]; exact h.frozen f' hf'
  · intro g hg
    by_cases hgf : g = F o
    · subst hgf
      refine ⟨?_, ?_, ?_, ?_, ?_⟩ <;> rw [ho]
      · intro hn
        change upd wu.files (F o) _ (F o) = none at hn
        rw [upd_same] at hn; cases hn
      · show Sim (upd wb.data o v o) (upd wu.data o v' o)
        rw [upd_same, upd_same]; exact hv
      · intro _
        refine ⟨?_, fun hn => ?_⟩
        · show Sim (content (upd wb.files (F o) _ (F o))) (content (upd wu.files (F o) _ (F o)))
          rw [upd_same, upd_same]; exact hv
        · change upd wb.files (F o) _ (F o) = none at hn
          rw [upd_same] at hn; cases hn
      · intro e he
        change wb.buf (F o) = some e at he
        rw [h.d0 hd (F o)] at he; cases he
      · intro hn
        change upd wu.files (F o) _ (F o) = none at hn
        rw [upd_same] at hn; cases hn
    · have hr := rep_ne ho hg hgf
      exact (h.act g hg).congr (upd_other _ _ hgf) (upd_other _ _ hr) rfl (upd_other _ _ hgf) (upd_other _ _ hr)

/-- base recorded for a buffer entry created or overwritten by a save -/
def baseFor (w : World) (f : Nat) : Option JVal :=
  match w.buf f with
  | some e => e.base
  | none => w.files f

theorem bufStore_eq (w : World) (o : Nat) :
    bufStore w o = { w with buf := upd w.buf (w.fileOf o) (some ⟨w.data o, baseFor w (w.fileOf o)⟩) } := by
  unfold bufStore baseFor; split <;> simp_all

theorem bufStore_depth (w : World) (o : Nat) : (bufStore w o).depth = w.depth := by rw [bufStore_eq]
theorem bufStore_fileOf (w : World) (o : Nat) : (bufStore w o).fileOf = w.fileOf := by rw [bufStore_eq]
theorem saveB_depth (w : World) (o : Nat) : (saveB w o).depth = w.depth := by
  unfold saveB; rw [maybeFlush_depth, bufStore_depth, touch_depth]
theorem saveB_fileOf (w : World) (o : Nat) : (saveB w o).fileOf = w.fileOf := by
  unfold saveB; rw [maybeFlush_fileOf, bufStore_fileOf, touch_fileOf]

theorem bufStore_files (w : World) (o : Nat) : (bufStore w o).files = w.files := by rw [bufStore_eq]
theorem bufStore_data (w : World) (o : Nat) : (bufStore w o).data = w.data := by rw [bufStore_eq]
theorem bufStore_order (w : World) (o : Nat) : (bufStore w o).order = w.order := by rw [bufStore_eq]
theorem bufStore_buf (w : World) (o : Nat) :
    (bufStore w o).buf = upd w.buf (w.fileOf o) (some ⟨w.data o, baseFor w (w.fileOf o)⟩) := by
  rw [bufStore_eq]

/-- the buffered side stores `v` in the buffer entry, the unbuffered side writes `v'` to the file -/
theorem binv_stored {wb wu X Y : World} (h : BInv F rep wb wu) {o : Nat} (ho : rep (F o) = o)
    (hd : wb.depth ≠ 0) {v v' : JVal} (hv : Sim v v') (wv : WF v) (wv' : WF v') {bs : Option JVal}
    (hbs : ∀ x, bs = some x → Sim x (content (wb.files (F o))))
    (xf : X.files = wb.files) (xd : X.data = upd wb.data o v) (xfo : X.fileOf = wb.fileOf)
    (xb : X.buf = upd wb.buf (F o) (some ⟨v, bs⟩)) (xdep : X.depth = wb.depth)
    (xo1 : ∀ o', o' ∈ X.order → o' ∈ wb.order ∨ o' = o) (xo2 : o ∈ X.order)
    (xo3 : ∀ o', o' ∈ wb.order → o' ∈ X.order)
    (yf : Y.files = upd wu.files (F o) (some v')) (yd : Y.data = upd wu.data o v')
    (yfo : Y.fileOf = wu.fileOf) (ydep : Y.depth = 0) (yb : Y.buf = wu.buf) : BInv F rep X Y := by
  have hact := active_of_rep ho
  refine ⟨xfo ▸ h.fob, yfo ▸ h.fou, ydep, ⟨?_, ?_, ?_⟩, ⟨?_, ?_, ?_⟩, ?_, ?_, ?_, ?_, ?_⟩
  · intro o'
    rw [xd]
    by_cases hoo : o' = o
    · subst hoo; rw [upd_same]; exact wv
    · rw [upd_other _ _ hoo]; exact h.wfb.data o'
  · rw [xf]; exact h.wfb.files
  · intro f' e' he'
    rw [xb] at he'
    by_cases hf' : f' = F o
    · subst hf'; rw [upd_same] at he'; cases he'; exact wv
    · rw [upd_other _ _ hf'] at he'; exact h.wfb.buf f' e' he'
  · intro o'
    rw [yd]
    by_cases hoo : o' = o
    · subst hoo; rw [upd_same]; exact wv'
    · rw [upd_other _ _ hoo]; exact h.wfu.data o'
  · intro f' x hx
    rw [yf] at hx
    by_cases hf' : f' = F o
    · subst hf'; rw [upd_same] at hx; cases hx; exact wv'
    · rw [upd_other _ _ hf'] at hx; exact h.wfu.files f' x hx
  · rw [yb]; exact h.wfu.buf
  · intro o' ho'
    rcases xo1 o' ho' with h' | h'
    · exact h.ord o' h'
    · rw [h']; exact ho
  · intro f' e' he'
    rw [xb] at he'
    by_cases hf' : f' = F o
    · subst hf'; rw [ho]; exact ⟨xo2, hact⟩
    · rw [upd_other _ _ hf'] at he'
      exact ⟨xo3 _ (h.bufo f' e' he').1, (h.bufo f' e' he').2⟩
  · intro hd'; rw [xdep] at hd'; exact absurd hd' hd
  · intro f' hf'
    have : f' ≠ F o := fun e => hf' (e ▸ hact)
    rw [xf, yf, upd_other _ _ this]; exact h.frozen f' hf'
  · intro g hg
    by_cases hgf : g = F o
    · subst hgf
      refine ⟨?_, ?_, ?_, ?_, ?_⟩ <;> rw [ho]
      · intro hn; rw [yf, upd_same] at hn; cases hn
      · rw [xd, yd, upd_same, upd_same]; exact hv
      · intro hn; rw [xb, upd_same] at hn; cases hn
      · intro e' he'
        rw [xb, upd_same] at he'; cases he'
        refine ⟨?_, ?_, ?_⟩
        · rw [xd, upd_same]; exact Sim.refl _
        · rw [yf, upd_same]; exact hv
        · intro x hx; rw [xf]; exact hbs x hx
      · intro hn; rw [yf, upd_same] at hn; cases hn
    · have hr := rep_ne ho hg hgf
      refine (h.act g hg).congr ?_ ?_ ?_ ?_ ?_
      · rw [xf]
      · rw [xd]; exact upd_other _ _ hr
      · rw [xb]; exact upd_other _ _ hgf
      · rw [yf]; exact upd_other _ _ hgf
      · rw [yd]; exact upd_other _ _ hr

theorem binv_writeB {wb wu : World} (h : BInv F rep wb wu) {o : Nat} (ho : rep (F o) = o)
    (hd : wb.depth ≠ 0) {v v' : JVal} (hv : Sim v v') (wv : WF v) (wv' : WF v') (b b' : Bool)
    (hh : (saveB (setData wb o v b) o).hit = false) :
    BInv F rep (saveB (setData wb o v b) o) (saveU (setData wu o v' b') o) := by
  have hI := h.act (F o) (active_of_rep ho)
  unfold saveB at hh ⊢
  refine binv_maybeFlush ?_ hh
  have hfo : (touch (setData wb o v b) o).fileOf o = F o := by
    rw [touch_fileOf]; show wb.fileOf o = _; rw [h.fob]
  have hbase : ∀ x, baseFor (touch (setData wb o v b) o) (F o) = some x → Sim x (content (wb.files (F o))) := by
    intro x hx
    unfold baseFor at hx
    rw [touch_buf, touch_files] at hx
    change (match wb.buf (F o) with | some e => e.base | none => wb.files (F o)) = some x at hx
    cases hb : wb.buf (F o) with
    | none => rw [hb] at hx; simp only at hx; rw [hx]; exact Sim.refl _
    | some e => rw [hb] at hx; exact (hI.ent e hb).2.2 x hx
  refine binv_stored h ho hd hv wv wv' hbase ?_ ?_ ?_ ?_ ?_ ?_ ?_ ?_ ?_ ?_ ?_ ?_ ?_
  · rw [bufStore_files, touch_files]; rfl
  · rw [bufStore_data, touch_data]; rfl
  · rw [bufStore_fileOf, touch_fileOf]; rfl
  · rw [bufStore_buf, hfo, touch_buf, touch_data]
    show upd wb.buf (F o) (some ⟨upd wb.data o v o, _⟩) = _
    rw [upd_same]
  · rw [bufStore_depth, touch_depth]; rfl
  · intro o' ho'
    rw [bufStore_order] at ho'
    exact touch_order_cases (setData wb o v b) _ _ ho'
  · rw [bufStore_order]; exact touch_mem _ _
  · intro o' ho'
    rw [bufStore_order]; exact touch_sub (setData wb o v b) _ _ ho'
  · show upd wu.files (wu.fileOf o) (some (upd wu.data o v' o)) = _
    rw [upd_same, h.fou]
  · rfl
  · rfl
  · exact h.du
  · rfl


/-! ### one operation on both sides -/
theorem save_depth0 {w : World} (h : w.depth = 0) (o : Nat) : save w o = saveU w o := by simp [save, h]
theorem save_depthS {w : World} (h : w.depth ≠ 0) (o : Nat) : save w o = saveB w o := by simp [save, h]
theorem load_depth0 {w : World} (h : w.depth = 0) (o : Nat) : load w o = loadU w o := by simp [load, h]
theorem load_depthS {w : World} (h : w.depth ≠ 0) (o : Nat) : load w o = loadB w o := by simp [load, h]

theorem setData_eq (w : World) (o : Nat) (v : JVal) (b : Bool) :
    setData w o v b = { w with data := upd w.data o v, hit := w.hit || b } := rfl

/-- the part of an operation after the load -/
theorem binv_afterLoad {Lb Lu : World} (h : BInv F rep Lb Lu) {o : Nat} (ho : rep (F o) = o) (op : DictOp)
    (hop : WFOp op)
    (h1 : (if (memOp op (Lb.data o)).saved then
            save (setData Lb o (memOp op (Lb.data o)).val (opHit op (Lb.data o))) o
          else setData Lb o (memOp op (Lb.data o)).val (opHit op (Lb.data o))).hit = false)
    (h2 : (if (memOp op (Lu.data o)).saved then
            save (setData Lu o (memOp op (Lu.data o)).val (opHit op (Lu.data o))) o
          else setData Lu o (memOp op (Lu.data o)).val (opHit op (Lu.data o))).hit = false) :
    BInv F rep
      (if (memOp op (Lb.data o)).saved then
          save (setData Lb o (memOp op (Lb.data o)).val (opHit op (Lb.data o))) o
        else setData Lb o (memOp op (Lb.data o)).val (opHit op (Lb.data o)))
      (if (memOp op (Lu.data o)).saved then
          save (setData Lu o (memOp op (Lu.data o)).val (opHit op (Lu.data o))) o
        else setData Lu o (memOp op (Lu.data o)).val (opHit op (Lu.data o))) ∧
    OutSim (memOp op (Lb.data o)).out (memOp op (Lu.data o)).out := by
  have hds := (h.act (F o) (active_of_rep ho)).dsim; rw [ho] at hds
  -- ghost flags of the two `setData`
  have hsb : (setData Lb o (memOp op (Lb.data o)).val (opHit op (Lb.data o))).hit = false := by
    split at h1
    · exact hit_false_mono (hit_save o) h1
    · exact h1
  have hsu : (setData Lu o (memOp op (Lu.data o)).val (opHit op (Lu.data o))).hit = false := by
    split at h2
    · exact hit_false_mono (hit_save o) h2
    · exact h2
  have hob : opHit op (Lb.data o) = false := by
    simp only [setData, Bool.or_eq_false_iff] at hsb; exact hsb.2
  have hou : opHit op (Lu.data o) = false := by
    simp only [setData, Bool.or_eq_false_iff] at hsu; exact hsu.2
  have hr := memOp_sim2 op hds (h.wfb.data o) (h.wfu.data o) hop hob hou
  have wv := wf_memOp op (h.wfb.data o) hop
  have wv' := wf_memOp op (h.wfu.data o) hop
  refine ⟨?_, hr.out⟩
  by_cases hs : (memOp op (Lb.data o)).saved = true
  · have hs' : (memOp op (Lu.data o)).saved = true := hr.saved ▸ hs
    rw [if_pos hs] at h1 ⊢
    rw [if_pos hs'] at h2 ⊢
    have hdu : (setData Lu o (memOp op (Lu.data o)).val (opHit op (Lu.data o))).depth = 0 := h.du
    rw [save_depth0 hdu]
    by_cases hd : Lb.depth = 0
    · have hdb : (setData Lb o (memOp op (Lb.data o)).val (opHit op (Lb.data o))).depth = 0 := hd
      rw [save_depth0 hdb]
      exact binv_write0 h ho hd hr.val wv wv' _ _
    · have hdb : (setData Lb o (memOp op (Lb.data o)).val (opHit op (Lb.data o))).depth ≠ 0 := hd
      rw [save_depthS hdb] at h1 ⊢
      exact binv_writeB h ho hd hr.val wv wv' _ _ h1
  · have hsf : (memOp op (Lb.data o)).saved = false := by simpa using hs
    have hs' : (memOp op (Lu.data o)).saved = false := hr.saved ▸ hsf
    rw [if_neg hs]
    rw [if_neg (by simpa using hs')]
    rw [memOp_unsaved op _ hsf, memOp_unsaved op _ hs', setData_eq, setData_eq]
    exact binv_dataU (binv_dataB h ho (Sim.refl _) (h.wfb.data o) _) ho (Sim.refl _) (h.wfu.data o) _

theorem binv_op {wb wu : World} (h : BInv F rep wb wu) {o : Nat} (ho : rep (F o) = o) (op : DictOp)
    (hop : WFOp op) (h1 : (execOp wb o op).1.hit = false) (h2 : (execOp wu o op).1.hit = false) :
    BInv F rep (execOp wb o op).1 (execOp wu o op).1 ∧ OutSim (execOp wb o op).2 (execOp wu o op).2 := by
  unfold execOp at h1 h2 ⊢
  by_cases hl : op.loads = true
  · simp only [hl, if_true] at h1 h2 ⊢
    -- the loads
    have hLb : (load wb o).hit = false := by
      split at h1
      · exact hit_false_mono (fun hx => hit_save o (hit_setData o _ _ hx)) h1
      · exact hit_false_mono (fun hx => hit_setData o _ _ hx) h1
    have hLu : (load wu o).hit = false := by
      split at h2
      · exact hit_false_mono (fun hx => hit_save o (hit_setData o _ _ hx)) h2
      · exact hit_false_mono (fun hx => hit_setData o _ _ hx) h2
    have hL : BInv F rep (load wb o) (load wu o) := by
      rw [load_depth0 h.du] at hLu ⊢
      by_cases hd : wb.depth = 0
      · rw [load_depth0 hd] at hLb ⊢
        exact binv_load0 h ho (h.d0 hd (F o)) hLb hLu
      · rw [load_depthS hd] at hLb ⊢
        exact binv_loadB h ho hd hLb hLu
    exact binv_afterLoad hL ho op hop h1 h2
  · have hl' : op.loads = false := by simpa using hl
    simp only [hl', Bool.false_eq_true, if_false] at h1 h2 ⊢
    have hsb := noload_saved op (wb.data o) hl'
    have hsu := noload_saved op (wu.data o) hl'
    have := binv_afterLoad h ho op hop (by rw [if_pos hsb]; exact h1) (by rw [if_pos hsu]; exact h2)
    rw [if_pos hsb, if_pos hsu] at this
    exact this

/-! ### entering and leaving blocks -/
theorem flushObj_setDepth (w : World) (d : Nat) (o : Nat) :
    flushObj { w with depth := d } o = { flushObj w o with depth := d } := by
  unfold flushObj
  simp only
  split
  · rfl
  · split <;> rfl

theorem flushList_setDepth (os : List Nat) (w : World) (d : Nat) :
    flushList os { w with depth := d } = { flushList os w with depth := d } := by
  induction os generalizing w with
  | nil => rfl
  | cons o os ih => simp only [flushList]; rw [flushObj_setDepth, ih]

theorem flushAll_setDepth (w : World) (d : Nat) :
    flushAll { w with depth := d } = { flushAll w with depth := d } := by
  unfold flushAll
  simp only
  rw [flushList_setDepth]

theorem binv_setCap {wb wu : World} (h : BInv F rep wb wu) (c : Nat) (hh : (setCap wb c).hit = false) :
    BInv F rep (setCap wb c) wu := by
  have h' : BInv F rep { wb with cap := c } wu := h.congrB rfl rfl rfl rfl rfl h.d0
  unfold setCap at hh ⊢
  simp only at hh ⊢
  split
  · next hc => rw [if_pos hc] at hh; exact binv_flushAll h' hh
  · exact h'

theorem binv_enter {wb wu : World} (h : BInv F rep wb wu) (cap : Option Nat)
    (hh : (execCmd wb (.enter cap)).1.hit = false) : BInv F rep (execCmd wb (.enter cap)).1 wu := by
  cases cap with
  | none =>
    exact h.congrB rfl rfl rfl rfl rfl (fun hd => absurd hd (Nat.succ_ne_zero _))
  | some c =>
    have h' : BInv F rep { wb with depth := wb.depth + 1, capStack := some wb.cap :: wb.capStack } wu :=
      h.congrB rfl rfl rfl rfl rfl (fun hd => absurd hd (Nat.succ_ne_zero _))
    exact binv_setCap h' c hh

theorem binv_exitFlush {wb wu : World} (h : BInv F rep wb wu) (hh : (exitFlush wb).hit = false) :
    BInv F rep (exitFlush wb) wu := by
  unfold exitFlush at hh ⊢
  simp only at hh ⊢
  by_cases hd1 : wb.depth - 1 = 0
  · rw [if_pos hd1] at hh ⊢
    rw [flushAll_setDepth] at hh ⊢
    have hb := binv_flushAll h hh
    exact hb.congrB rfl rfl rfl rfl rfl (fun _ f => flushAll_buf_none h f)
  · rw [if_neg hd1]
    exact h.congrB rfl rfl rfl rfl rfl (fun hd' => absurd hd' hd1)

theorem binv_popCap {wb wu : World} (h : BInv F rep wb wu) (hh : (popCap wb).hit = false) :
    BInv F rep (popCap wb) wu := by
  unfold popCap at hh ⊢
  split
  · exact h
  · exact h.congrB rfl rfl rfl rfl rfl h.d0
  · next c st heq =>
    rw [heq] at hh
    exact binv_setCap (h.congrB (wb' := { wb with capStack := st }) rfl rfl rfl rfl rfl h.d0) c hh

theorem binv_exit {wb wu : World} (h : BInv F rep wb wu)
    (hh : (execCmd wb .exit).1.hit = false) : BInv F rep (execCmd wb .exit).1 wu := by
  simp only [execCmd] at hh ⊢
  by_cases hd : wb.depth = 0
  · rw [if_pos hd]; exact h
  · rw [if_neg hd] at hh ⊢
    exact binv_popCap (binv_exitFlush h (hit_false_mono hit_popCap hh)) hh


/-! ### whole programs -/
variable (F rep) in
/-- commands of a block program: no `remove()`, every operation through the designated handle -/
def CmdOK : Cmd → Prop
  | .op o d => rep (F o) = o ∧ WFOp d
  | .rm _ => False
  | .reopen _ => False
  | _ => True

/-- outputs of the program as written against the outputs of its unbuffered counterpart:
    block commands have no counterpart; results of operations are related by `OutSim` -/
inductive OutsRel : List Cmd → List Out → List Out → Prop
  | nil : OutsRel [] [] []
  | block {c : Cmd} {cs : List Cmd} {x : Out} {ob ou : List Out} :
      c.isBlock = true → OutsRel cs ob ou → OutsRel (c :: cs) (x :: ob) ou
  | op {o : Nat} {d : DictOp} {cs : List Cmd} {x y : Out} {ob ou : List Out} :
      OutSim x y → OutsRel cs ob ou → OutsRel (.op o d :: cs) (x :: ob) (y :: ou)
  | obs {c : Cmd} {cs : List Cmd} {x y : Out} {ob ou : List Out} :
      c.isBlock = false → (∀ o d, c ≠ .op o d) → OutsRel cs ob ou → OutsRel (c :: cs) (x :: ob) (y :: ou)

theorem binv_run (cs : List Cmd) : ∀ {wb wu : World}, BInv F rep wb wu → (∀ c ∈ cs, CmdOK F rep c) →
    (run cs wb).1.hit = false → (run (stripBlocks cs) wu).1.hit = false →
    BInv F rep (run cs wb).1 (run (stripBlocks cs) wu).1 ∧
    OutsRel cs (run cs wb).2 (run (stripBlocks cs) wu).2 := by
  induction cs with
  | nil => intro wb wu h _ _ _; exact ⟨h, .nil⟩
  | cons c cs ih =>
    intro wb wu h hc h1 h2
    have hc0 := hc c List.mem_cons_self
    have hcs : ∀ c' ∈ cs, CmdOK F rep c' := fun c' h' => hc c' (List.mem_cons_of_mem _ h')
    rw [run_cons] at h1 ⊢
    have hb1 := hit_false_of_run h1
    cases c with
    | enter cap =>
      have := ih (binv_enter h cap hb1) hcs h1 h2
      exact ⟨this.1, .block rfl this.2⟩
    | exit =>
      have := ih (binv_exit h hb1) hcs h1 h2
      exact ⟨this.1, .block rfl this.2⟩
    | op o d =>
      have hs : stripBlocks (.op o d :: cs) = .op o d :: stripBlocks cs := rfl
      rw [hs, run_cons] at h2 ⊢
      have hb2 := hit_false_of_run h2
      obtain ⟨hB, ho⟩ := binv_op h hc0.1 d hc0.2 hb1 hb2
      have := ih hB hcs h1 h2
      exact ⟨this.1, .op ho this.2⟩
    | file f =>
      have hs : stripBlocks (.file f :: cs) = .file f :: stripBlocks cs := rfl
      rw [hs, run_cons] at h2 ⊢
      have := ih (wb := wb) (wu := wu) h hcs h1 h2
      exact ⟨this.1, .obs rfl (fun _ _ e => by cases e) this.2⟩
    | hit =>
      have hs : stripBlocks (.hit :: cs) = .hit :: stripBlocks cs := rfl
      rw [hs, run_cons] at h2 ⊢
      have := ih (wb := wb) (wu := wu) h hcs h1 h2
      exact ⟨this.1, .obs rfl (fun _ _ e => by cases e) this.2⟩
    | rm f => exact hc0.elim
    | reopen f => exact hc0.elim

/-- the invariant holds between a quiescent world and itself -/
theorem binv_init {w : World} (rep : Nat → Nat) (hd : w.depth = 0) (hb : ∀ f, w.buf f = none)
    (ho : w.order = []) (hw : WFWorld w) (hc : Coherent w) : BInv w.fileOf rep w w := by
  refine ⟨rfl, rfl, hd, hw, hw, ?_, ?_, fun _ => hb, fun _ _ => rfl, ?_⟩
  · intro o h; rw [ho] at h; cases h
  · intro f e he; rw [hb f] at he; cases he
  · intro f hf
    have hcoh : w.files f = none → Sim (w.data (rep f)) (.obj []) := by
      intro hn
      have := hc (rep f)
      unfold Active at hf
      rw [hf] at this
      exact this hn
    refine ⟨hcoh, Sim.refl _, fun _ => ⟨Sim.refl _, hcoh⟩, ?_, ?_⟩
    · intro e he; rw [hb f] at he; cases he
    · intro hn
      refine ⟨hn, sim_to_empty (hcoh hn), ?_⟩
      intro e he; rw [hb f] at he; cases he

/-- at depth 0 the two worlds hold the same documents, and the buffered run never has a file the
    unbuffered run lacks -/
theorem binv_final {wb wu : World} (h : BInv F rep wb wu) (hd : wb.depth = 0) (f : Nat) :
    CSim (wb.files f) (wu.files f) ∧ (wu.files f = none → wb.files f = none) := by
  by_cases hf : Active F rep f
  · have hI := h.act f hf
    exact ⟨(hI.noent (h.d0 hd f)).1, fun hn => (hI.e1 hn).1⟩
  · rw [h.frozen f hf]; exact ⟨Sim.refl _, id⟩

/-! ### files only ever appear (no `remove()` in the program) -/
theorem files_flushObj {w : World} (o f : Nat) (h : (flushObj w o).files f = none) : w.files f = none := by
  unfold flushObj at h
  split at h
  · exact h
  · split at h
    · change upd w.files _ _ f = none at h
      by_cases hf : f = w.fileOf o
      · subst hf; rw [upd_same] at h; cases h
      · rwa [upd_other _ _ hf] at h
    · exact h
theorem files_flushList (os : List Nat) {w : World} (f : Nat) (h : (flushList os w).files f = none) :
    w.files f = none := by
  induction os generalizing w with
  | nil => exact h
  | cons o os ih => exact files_flushObj o f (ih h)
theorem files_flushAll {w : World} (f : Nat) (h : (flushAll w).files f = none) : w.files f = none :=
  files_flushList _ f h
theorem files_maybeFlush {w : World} (f : Nat) (h : (maybeFlush w).files f = none) : w.files f = none := by
  unfold maybeFlush at h; split at h
  · exact files_flushAll f h
  · exact h
theorem files_bufInit {w : World} (o f : Nat) (h : (bufInit w o).files f = none) : w.files f = none := by
  unfold bufInit at h; split at h <;> exact h
theorem files_loadB {w : World} (o f : Nat) (h : (loadB w o).files f = none) : w.files f = none := by
  unfold loadB at h; simp only at h
  split at h
  · rw [touch_files] at h; exact files_bufInit o f h
  · have : (maybeFlush (touch (bufInit w o) o)).files f = none := h
    have := files_maybeFlush f this
    rw [touch_files] at this; exact files_bufInit o f this
theorem files_saveB {w : World} (o f : Nat) (h : (saveB w o).files f = none) : w.files f = none := by
  unfold saveB at h
  have := files_maybeFlush f h
  rw [bufStore_files, touch_files] at this; exact this
theorem files_saveU {w : World} (o f : Nat) (h : (saveU w o).files f = none) : w.files f = none := by
  change upd w.files _ _ f = none at h
  by_cases hf : f = w.fileOf o
  · subst hf; rw [upd_same] at h; cases h
  · rwa [upd_other _ _ hf] at h
theorem files_load {w : World} (o f : Nat) (h : (load w o).files f = none) : w.files f = none := by
  unfold load at h; split at h
  · exact h
  · exact files_loadB o f h
theorem files_save {w : World} (o f : Nat) (h : (save w o).files f = none) : w.files f = none := by
  unfold save at h; split at h
  · exact files_saveU o f h
  · exact files_saveB o f h
theorem files_execOp {w : World} (o : Nat) (op : DictOp) (f : Nat) (h : (execOp w o op).1.files f = none) :
    w.files f = none := by
  unfold execOp at h
  split at h
  · simp only at h
    split at h
    · have := files_save o f h
      exact files_load o f this
    · exact files_load o f h
  · have := files_save o f h
    exact this
theorem files_setCap {w : World} (c f : Nat) (h : (setCap w c).files f = none) : w.files f = none := by
  unfold setCap at h; simp only at h; split at h
  · have := files_flushAll f h
    exact this
  · exact h
theorem files_execCmd {w : World} (c : Cmd) (hc : ∀ g, c ≠ .rm g) (f : Nat)
    (h : (execCmd w c).1.files f = none) : w.files f = none := by
  cases c with
  | op o d => exact files_execOp o d f h
  | enter cap =>
    cases cap with
    | none => exact h
    | some c =>
      have := files_setCap (w := { w with depth := w.depth + 1, capStack := some w.cap :: w.capStack }) c f h
      exact this
  | exit =>
    simp only [execCmd] at h
    split at h
    · exact h
    · have h2 : (exitFlush w).files f = none := by
        unfold popCap at h; split at h
        · exact h
        · exact h
        · have := files_setCap _ f h
          exact this
      unfold exitFlush at h2; simp only at h2; split at h2
      · have := files_flushAll f h2
        exact this
      · exact h2
  | file g => exact h
  | hit => exact h
  | reopen g => exact h
  | rm g => exact absurd rfl (hc g)
theorem files_run (cs : List Cmd) {w : World} (hc : ∀ c ∈ cs, ∀ g, c ≠ .rm g) (f : Nat)
    (h : (run cs w).1.files f = none) : w.files f = none := by
  induction cs generalizing w with
  | nil => exact h
  | cons c cs ih =>
    rw [run_cons] at h
    exact files_execCmd c (hc c List.mem_cons_self) f (ih (fun c' h' => hc c' (List.mem_cons_of_mem _ h')) h)

end
end Signac.Doc

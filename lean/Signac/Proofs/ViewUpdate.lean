/-
  Proofs/ViewUpdate — `updateView` turns the picture of any accepted link set into the picture
  of any other accepted link set, without a failing step.
-/
import Signac.Proofs.ViewSpec
import Signac.Proofs.ViewTrie
namespace Signac.LV

/-! ### small list facts -/

theorem mem_dedupPaths (l : List Path) (p : Path) : p ∈ dedupPaths l ↔ p ∈ l := by
  induction l with
  | nil => simp [dedupPaths]
  | cons x xs ih =>
    simp only [dedupPaths, List.mem_cons, List.mem_filter, ih]
    by_cases h : p = x <;> simp [h]

theorem dedupPaths_nodup (l : List Path) : (dedupPaths l).Nodup := by
  induction l with
  | nil => simp [dedupPaths]
  | cons x xs ih =>
    simp only [dedupPaths, List.nodup_cons, List.mem_filter]
    exact ⟨by simp, ih.filter _⟩

theorem mem_findAllLinks (v : View) (q : Path) :
    q ∈ findAllLinks v ↔ (vget v q).isSome ∧ q.getLast? = some leaf := by
  simp only [findAllLinks, List.mem_map, List.mem_filter]
  constructor
  · rintro ⟨x, ⟨hx, hl⟩, rfl⟩
    exact ⟨vget_isSome_of_mem hx, by simpa using hl⟩
  · rintro ⟨hs, hl⟩
    obtain ⟨e, he⟩ := Option.isSome_iff_exists.mp hs
    exact ⟨(q, e), ⟨mem_of_vget he, by simpa using hl⟩, rfl⟩

/-- in a list sorted by non-increasing length, anything longer than `p` stands before `p` -/
theorem longer_before {l l1 l2 : List Path} {p q : Path}
    (hs : l.Pairwise (fun a b => lenGe a b = true)) (hl : l = l1 ++ p :: l2)
    (hq : q ∈ l) (hlen : p.length < q.length) : q ∈ l1 := by
  subst hl
  rw [List.pairwise_append] at hs
  obtain ⟨_, h2, _⟩ := hs
  rw [List.pairwise_cons] at h2
  simp only [List.mem_append, List.mem_cons] at hq
  rcases hq with h | h | h
  · exact h
  · subst h; omega
  · have := h2.1 q h
    simp only [lenGe, decide_eq_true_eq] at this
    omega

theorem fsPath_plain {p : Path} (h : ∀ c ∈ p, c ≠ "" ∧ c ≠ ".") : fsPath p = p := by
  unfold fsPath
  rw [List.filter_eq_self]
  intro c hc
  have := h c hc
  simp [this.1, this.2]

/-! ### the link steps -/

/-- the `(path, target)` pairs that are linked, for a list of paths -/
def pairsOf (L : List (Path × String)) (ps : List Path) : List (Path × String) :=
  ps.filterMap (fun p => (linkTarget L p).map (fun t => (p, t)))

theorem pairsOf_keys {L : List (Path × String)} {ps : List Path} (h : ∀ p ∈ ps, p ∈ keysOf L) :
    (pairsOf L ps).map (·.1) = ps := by
  induction ps with
  | nil => rfl
  | cons p ps ih =>
    obtain ⟨t, ht⟩ := linkTarget_isSome_of_mem (h p List.mem_cons_self)
    simp only [pairsOf, List.filterMap_cons, ht, Option.map_some, List.map_cons]
    congr 1
    exact ih (fun q hq => h q (List.mem_cons_of_mem _ hq))

theorem linkSteps_eq {L : List (Path × String)} {ps : List Path}
    (h : ∀ p ∈ ps, ∀ c ∈ p, c ≠ "" ∧ c ≠ ".") :
    ps.filterMap (fun p => match linkTarget L p with
      | some t => some (Step.mklink (fsPath p) t)
      | none => none) = (pairsOf L ps).map (fun k => Step.mklink k.1 k.2) := by
  induction ps with
  | nil => rfl
  | cons p ps ih =>
    have ih' := ih (fun q hq => h q (List.mem_cons_of_mem _ hq))
    simp only [pairsOf] at ih' ⊢
    simp only [List.filterMap_cons]
    cases hl : linkTarget L p with
    | none => simpa using ih'
    | some t =>
      simp only [Option.map_some, List.map_cons, fsPath_plain (h p List.mem_cons_self)]
      rw [ih']

theorem linkTarget_pairsOf (L : List (Path × String)) (ps : List Path) (q : Path) :
    linkTarget (pairsOf L ps) q = if q ∈ ps then linkTarget L q else none := by
  induction ps with
  | nil => simp [pairsOf, linkTarget]
  | cons p ps ih =>
    simp only [pairsOf] at ih ⊢
    simp only [List.filterMap_cons]
    cases hl : linkTarget L p with
    | none =>
      simp only [Option.map_none, ih, List.mem_cons]
      by_cases hq : q = p
      · subst hq; simp [hl]
      · simp [hq]
    | some t =>
      simp only [Option.map_some, linkTarget, ih, List.mem_cons]
      by_cases hq : p = q
      · subst hq; simp [hl]
      · have : ¬ q = p := fun e => hq e.symm
        simp [hq, this]

theorem mem_pairsOf {L : List (Path × String)} {ps : List Path} {k : Path × String}
    (h : k ∈ pairsOf L ps) : k.1 ∈ ps ∧ linkTarget L k.1 = some k.2 := by
  simp only [pairsOf, List.mem_filterMap] at h
  obtain ⟨p, hp, hk⟩ := h
  cases hl : linkTarget L p with
  | none => simp [hl] at hk
  | some t =>
    simp only [hl, Option.map_some, Option.some.injEq] at hk
    subst hk
    exact ⟨hp, hl⟩

/-! ### the analysis of a view that is the picture of `L0`, for the new link set `L` -/

def exOf (v : View) : List Path := dedupPaths (findAllLinks v)

def obsOf (v : View) (L : List (Path × String)) : List Path :=
  ((deadBranches [] (colorAll (keysOf L) (buildTree (exOf v)))).filter
    (fun b => !(b = []) && !(b = ["."]))).mergeSort lenGe

theorem analyze_obsolete (v : View) (L : List (Path × String)) : (analyzeView v L).obsolete = obsOf v L := rfl

theorem analyze_stale (v : View) (L : List (Path × String)) :
    (analyzeView v L).stale = (exOf v).filter (fun p =>
      isLinkAt v p && !(keysOf L).contains p && !(obsOf v L).contains p) := rfl

theorem analyze_fresh (v : View) (L : List (Path × String)) :
    (analyzeView v L).fresh = (keysOf L).filter (fun p => !(exOf v).contains p) := rfl

theorem analyze_toUpdate (v : View) (L : List (Path × String)) :
    (analyzeView v L).toUpdate = ((exOf v).filter (fun p => (keysOf L).contains p)).filter (fun p =>
      match linkTarget L p with
      | some t => !(vget v p = some (.link t))
      | none => false) := rfl

theorem mem_exOf (v : View) (q : Path) : q ∈ exOf v ↔ (vget v q).isSome ∧ q.getLast? = some leaf := by
  rw [exOf, mem_dedupPaths, mem_findAllLinks]

set_option linter.unusedSectionVars false
section main
variable {L0 L : List (Path × String)} {v : View}
  (hV0 : Valid L0) (hV : Valid L) (hT : IsTreeOf v L0)
include hV0 hV hT

theorem present_node {q : Path} (h : (vget v q).isSome) : ∃ e ∈ exOf v, q <+: e := by
  obtain ⟨_, k, hk, hp⟩ := tree_present hV0 hT h
  obtain ⟨t, _, hk'⟩ := tree_key hV0 hT hk
  exact ⟨k, (mem_exOf v k).mpr ⟨by simp [hk'], hV0.leafEnd k hk⟩, hp⟩

theorem node_present {q e : Path} (he : e ∈ exOf v) (hp : q <+: e) (hq : q ≠ []) : (vget v q).isSome := by
  obtain ⟨_, k, hk, hek⟩ := tree_present hV0 hT ((mem_exOf v e).mp he).1
  exact tree_prefix_present hV0 hT hq hk (hp.trans hek)

/-- the obsolete paths are exactly the existing entries that no new link path passes through -/
theorem mem_obsOf (q : Path) :
    q ∈ obsOf v L ↔ (vget v q).isSome ∧ ¬ ∃ k ∈ keysOf L, q <+: k := by
  unfold obsOf
  rw [List.mem_mergeSort, List.mem_filter, mem_dead_iff]
  constructor
  · rintro ⟨⟨hn, hc⟩, hf⟩
    simp only [Bool.and_eq_true, Bool.not_eq_true', decide_eq_false_iff_not] at hf
    refine ⟨?_, hc⟩
    rcases hn with e | ⟨e, he, hp⟩
    · exact absurd e hf.1
    · exact node_present hV0 hV hT he hp hf.1
  · rintro ⟨hs, hc⟩
    have hne : q ≠ [] := (tree_present hV0 hT hs).1
    have hdot : q ≠ ["."] := by
      intro e
      have := tree_plain hV0 hT hs "." (by simp [e])
      exact this.2 rfl
    exact ⟨⟨Or.inr (present_node hV0 hV hT hs), hc⟩, by simp [hne, hdot]⟩

theorem obsOf_nodup : (obsOf v L).Nodup := by
  unfold obsOf
  exact (List.mergeSort_perm _ _).nodup_iff.mpr ((dead_nodup _ _).filter _)

theorem obsOf_sorted : (obsOf v L).Pairwise (fun a b => lenGe a b = true) := by
  unfold obsOf
  apply List.pairwise_mergeSort
  · intro a b c h1 h2
    simp only [lenGe, decide_eq_true_eq] at *
    omega
  · intro a b
    simp only [lenGe, Bool.or_eq_true, decide_eq_true_eq]
    omega

/-- whatever lies below a path that no new link path passes through is obsolete itself -/
theorem below_uncoloured {p q : Path} (hp : ¬ ∃ k ∈ keysOf L, p <+: k) (hpq : p <+: q)
    (hs : (vget v q).isSome) : q ∈ obsOf v L := by
  rw [mem_obsOf hV0 hV hT]
  exact ⟨hs, fun ⟨k, hk, hqk⟩ => hp ⟨k, hk, hpq.trans hqk⟩⟩

theorem mem_stale (q : Path) :
    q ∈ (analyzeView v L).stale ↔
      (∃ t, vget v q = some (.link t)) ∧ q ∉ keysOf L ∧ q ∉ obsOf v L := by
  rw [analyze_stale, List.mem_filter, mem_exOf]
  simp only [Bool.and_eq_true, Bool.not_eq_true', List.contains_eq_mem, decide_eq_false_iff_not,
    isLinkAt]
  constructor
  · rintro ⟨_, ⟨h1, h2⟩, h3⟩
    refine ⟨?_, h2, h3⟩
    cases hq : vget v q with
    | none => simp [hq] at h1
    | some e => cases e with
      | dir => simp [hq] at h1
      | link t => exact ⟨t, rfl⟩
  · rintro ⟨⟨t, ht⟩, h2, h3⟩
    refine ⟨⟨by simp [ht], ?_⟩, ⟨by simp [ht], h2⟩, h3⟩
    exact hV0.leafEnd q (tree_link hV0 hT ht).1

theorem mem_toUpdate (q : Path) :
    q ∈ (analyzeView v L).toUpdate ↔
      (vget v q).isSome ∧ ∃ t, linkTarget L q = some t ∧ vget v q ≠ some (.link t) := by
  rw [analyze_toUpdate, List.mem_filter, List.mem_filter, mem_exOf]
  simp only [List.contains_eq_mem, decide_eq_true_eq]
  constructor
  · rintro ⟨⟨⟨hs, _⟩, hk⟩, hc⟩
    obtain ⟨t, ht⟩ := linkTarget_isSome_of_mem hk
    refine ⟨hs, t, ht, ?_⟩
    simpa [ht] using hc
  · rintro ⟨hs, t, ht, hne⟩
    have hk := mem_keys_of_linkTarget ht
    exact ⟨⟨⟨hs, hV.leafEnd q hk⟩, hk⟩, by simpa [ht] using hne⟩

theorem mem_fresh (q : Path) :
    q ∈ (analyzeView v L).fresh ↔ q ∈ keysOf L ∧ vget v q = none := by
  rw [analyze_fresh, List.mem_filter]
  simp only [Bool.not_eq_true', List.contains_eq_mem, decide_eq_false_iff_not, mem_exOf]
  constructor
  · rintro ⟨hk, hn⟩
    refine ⟨hk, ?_⟩
    cases hq : vget v q with
    | none => rfl
    | some e => exact absurd ⟨by simp [hq], hV.leafEnd q hk⟩ hn
  · rintro ⟨hk, hn⟩
    exact ⟨hk, fun h => by simp [hn] at h⟩

/-- **Main lemma.**  If `v` is the picture of an accepted link set `L0` then updating it for an
    accepted link set `L` performs no failing step and yields the picture of `L`. -/
theorem update_correct :
    (updateView v L).2 = none ∧ IsTreeOf (updateView v L).1 L := by
  -- the three removal phases
  have hkeyCol : ∀ k ∈ keysOf L, ∃ k' ∈ keysOf L, k <+: k' := fun k hk => ⟨k, hk, List.prefix_refl _⟩
  obtain ⟨v1, hrun1, hget1⟩ := runSteps_remove (obsOf v L)
    (((analyzeView v L).stale).map Step.remove ++ (((analyzeView v L).toUpdate).map Step.remove ++
      (pairsOf L ((analyzeView v L).fresh ++ (analyzeView v L).toUpdate)).map (fun k => Step.mklink k.1 k.2))) v
    (obsOf_nodup hV0 hV hT)
    (fun p hp => ((mem_obsOf hV0 hV hT p).mp hp).1)
    (by
      intro l1 p l2 hsplit q hpq hs
      have hp : p ∈ obsOf v L := by rw [hsplit]; simp
      have hq := below_uncoloured hV0 hV hT ((mem_obsOf hV0 hV hT p).mp hp).2
        ((properPrefix_iff p q).mp hpq).1 hs
      exact longer_before (obsOf_sorted hV0 hV hT) hsplit hq ((properPrefix_iff p q).mp hpq).2)
  obtain ⟨v2, hrun2, hget2⟩ := runSteps_remove (analyzeView v L).stale
    (((analyzeView v L).toUpdate).map Step.remove ++
      (pairsOf L ((analyzeView v L).fresh ++ (analyzeView v L).toUpdate)).map (fun k => Step.mklink k.1 k.2)) v1
    (by rw [analyze_stale]; exact (dedupPaths_nodup _).filter _)
    (by
      intro p hp
      obtain ⟨⟨t, ht⟩, _, hno⟩ := (mem_stale hV0 hV hT p).mp hp
      rw [hget1]; simp [hno, ht])
    (by
      intro l1 p l2 hsplit q hpq hs
      have hp : p ∈ (analyzeView v L).stale := by rw [hsplit]; simp
      obtain ⟨⟨t, ht⟩, _, _⟩ := (mem_stale hV0 hV hT p).mp hp
      rw [hget1] at hs
      have := tree_link_no_child hV0 hT ht hpq
      by_cases hq : q ∈ obsOf v L <;> simp [hq, this] at hs)
  obtain ⟨v3, hrun3, hget3⟩ := runSteps_remove (analyzeView v L).toUpdate
    ((pairsOf L ((analyzeView v L).fresh ++ (analyzeView v L).toUpdate)).map (fun k => Step.mklink k.1 k.2)) v2
    (by rw [analyze_toUpdate]; exact ((dedupPaths_nodup _).filter _).filter _)
    (by
      intro p hp
      obtain ⟨hs, t, ht, _⟩ := (mem_toUpdate hV0 hV hT p).mp hp
      have hk := mem_keys_of_linkTarget ht
      have h1 : p ∉ obsOf v L := fun h => ((mem_obsOf hV0 hV hT p).mp h).2 (hkeyCol p hk)
      have h2 : p ∉ (analyzeView v L).stale := fun h => ((mem_stale hV0 hV hT p).mp h).2.1 hk
      rw [hget2, hget1]; simp [h1, h2, hs])
    (by
      intro l1 p l2 hsplit q hpq hs
      have hp : p ∈ (analyzeView v L).toUpdate := by rw [hsplit]; simp
      obtain ⟨_, t, ht, _⟩ := (mem_toUpdate hV0 hV hT p).mp hp
      have hk := mem_keys_of_linkTarget ht
      rw [hget2, hget1] at hs
      by_cases hq2 : q ∈ (analyzeView v L).stale
      · simp [hq2] at hs
      · by_cases hq1 : q ∈ obsOf v L
        · simp [hq2, hq1] at hs
        · simp only [hq2, hq1, if_false] at hs
          exfalso
          apply hq1
          rw [mem_obsOf hV0 hV hT]
          refine ⟨hs, ?_⟩
          rintro ⟨k, hk', hqk⟩
          have := hV.noConflict p hk k hk'
          rw [properPrefix_of_proper_of_prefix hpq hqk] at this; cases this)
  -- what is left after the removals
  have hv3 : ∀ q, vget v3 q =
      if q ∈ (analyzeView v L).toUpdate ∨ q ∈ (analyzeView v L).stale ∨ q ∈ obsOf v L then none
      else vget v q := by
    intro q
    rw [hget3, hget2, hget1]
    by_cases h3 : q ∈ (analyzeView v L).toUpdate <;>
      by_cases h2 : q ∈ (analyzeView v L).stale <;>
        by_cases h1 : q ∈ obsOf v L <;> simp [h1, h2, h3]
  -- the link phase
  have hps : ∀ p ∈ (analyzeView v L).fresh ++ (analyzeView v L).toUpdate, p ∈ keysOf L := by
    intro p hp
    rw [List.mem_append] at hp
    rcases hp with hp | hp
    · exact ((mem_fresh hV0 hV hT p).mp hp).1
    · obtain ⟨_, t, ht, _⟩ := (mem_toUpdate hV0 hV hT p).mp hp
      exact mem_keys_of_linkTarget ht
  have hpairs_keys := pairsOf_keys hps
  obtain ⟨v4, hrun4, hget4⟩ := runSteps_mklink
    (pairsOf L ((analyzeView v L).fresh ++ (analyzeView v L).toUpdate)) v3
    (by
      rw [hpairs_keys, List.nodup_append]
      refine ⟨?_, ?_, ?_⟩
      · rw [analyze_fresh]; exact hV.nodup.filter _
      · rw [analyze_toUpdate]; exact ((dedupPaths_nodup _).filter _).filter _
      · intro a ha b hb e
        subst e
        have h1 := ((mem_fresh hV0 hV hT a).mp ha).2
        have h2 := ((mem_toUpdate hV0 hV hT a).mp hb).1
        simp [h1] at h2)
    (by
      intro k hk
      have : k.1 ∈ (pairsOf L _).map (·.1) := List.mem_map_of_mem hk
      rw [hpairs_keys] at this
      exact key_ne_nil hV (hps _ this))
    (by
      intro k hk
      have hm : k.1 ∈ (pairsOf L _).map (·.1) := List.mem_map_of_mem hk
      rw [hpairs_keys, List.mem_append] at hm
      rw [hv3]
      rcases hm with hm | hm
      · have := ((mem_fresh hV0 hV hT k.1).mp hm).2
        by_cases hc : k.1 ∈ (analyzeView v L).toUpdate ∨ k.1 ∈ (analyzeView v L).stale ∨ k.1 ∈ obsOf v L <;>
          simp [hc, this]
      · simp [hm])
    (by
      intro k hk q hq hqk
      have hm : k.1 ∈ (pairsOf L _).map (·.1) := List.mem_map_of_mem hk
      rw [hpairs_keys] at hm
      have hkk := hps _ hm
      rw [hv3]
      by_cases hc : q ∈ (analyzeView v L).toUpdate ∨ q ∈ (analyzeView v L).stale ∨ q ∈ obsOf v L
      · simp [hc]
      · simp only [hc, if_false]
        cases hvq : vget v q with
        | none => simp
        | some e => cases e with
          | dir => simp
          | link t =>
            exfalso
            apply hc
            right
            by_cases ho : q ∈ obsOf v L
            · exact Or.inr ho
            · left
              rw [mem_stale hV0 hV hT]
              refine ⟨⟨t, hvq⟩, ?_, ho⟩
              intro hqk'
              have := hV.noConflict q hqk' k.1 hkk
              rw [hqk] at this; cases this)
    (by
      intro k hk k' hk'
      have hm : k.1 ∈ (pairsOf L _).map (·.1) := List.mem_map_of_mem hk
      have hm' : k'.1 ∈ (pairsOf L _).map (·.1) := List.mem_map_of_mem hk'
      rw [hpairs_keys] at hm hm'
      exact hV.noConflict _ (hps _ hm) _ (hps _ hm'))
  -- assemble the run
  have hsteps : viewSteps v L =
      (obsOf v L).map Step.remove ++ (((analyzeView v L).stale).map Step.remove ++
        (((analyzeView v L).toUpdate).map Step.remove ++
          (pairsOf L ((analyzeView v L).fresh ++ (analyzeView v L).toUpdate)).map
            (fun k => Step.mklink k.1 k.2))) := by
    unfold viewSteps
    simp only [analyze_obsolete, List.map_append, List.append_assoc]
    congr 3
    exact linkSteps_eq (fun p hp => hV.plain p (hps p hp))
  have hrun : updateView v L = (v4, none) := by
    unfold updateView
    rw [hsteps, hrun1, hrun2, hrun3, hrun4]
  rw [hrun]
  refine ⟨rfl, ?_⟩
  -- the final picture
  intro q
  show vget v4 q = specGet L q
  rw [hget4]
  unfold afterLinks
  rw [linkTarget_pairsOf]
  by_cases hq0 : q = []
  · subst hq0
    have h0 : linkTarget L [] = none := linkTarget_none_iff.mpr (fun h => key_ne_nil hV h rfl)
    have : vget v3 [] = none := by
      rw [hv3, tree_root hV0 hT]; simp
    simp [specGet, h0, this]
  · by_cases hlink : q ∈ (analyzeView v L).fresh ++ (analyzeView v L).toUpdate
    · -- freshly linked
      obtain ⟨t, ht⟩ := linkTarget_isSome_of_mem (hps q hlink)
      simp [hlink, ht, specGet, hq0]
    · simp only [hlink, if_false]
      have hany : ((pairsOf L ((analyzeView v L).fresh ++ (analyzeView v L).toUpdate)).any
            (fun k => properPrefix q k.1) = true) ↔
          ∃ k ∈ (analyzeView v L).fresh ++ (analyzeView v L).toUpdate, properPrefix q k = true := by
        rw [any_properPrefix_iff]; unfold keysOf; rw [hpairs_keys]
      cases hl : linkTarget L q with
      | some t =>
        -- a link that is kept
        have hk := mem_keys_of_linkTarget hl
        have hnf : ¬ (vget v q = none) := fun h => hlink (List.mem_append_left _ ((mem_fresh hV0 hV hT q).mpr ⟨hk, h⟩))
        have hs : (vget v q).isSome := by
          cases h : vget v q with
          | none => exact absurd h hnf
          | some _ => rfl
        have hvq : vget v q = some (.link t) := by
          cases Classical.em (vget v q = some (.link t)) with
          | inl h => exact h
          | inr h => exact absurd (List.mem_append_right _ ((mem_toUpdate hV0 hV hT q).mpr ⟨hs, t, hl, h⟩)) hlink
        have hno : ¬ ((pairsOf L ((analyzeView v L).fresh ++ (analyzeView v L).toUpdate)).any
            (fun k => properPrefix q k.1) = true) := by
          rw [hany]
          rintro ⟨k, hk', hp⟩
          have := hV.noConflict q hk k (hps k hk')
          rw [hp] at this; cases this
        have hc : ¬ (q ∈ (analyzeView v L).toUpdate ∨ q ∈ (analyzeView v L).stale ∨ q ∈ obsOf v L) := by
          rintro (h | h | h)
          · exact hlink (List.mem_append_right _ h)
          · exact ((mem_stale hV0 hV hT q).mp h).2.1 hk
          · exact ((mem_obsOf hV0 hV hT q).mp h).2 (hkeyCol q hk)
        simp [hno, hv3, hc, hvq, specGet, hq0, hl]
      | none =>
        have hnk : q ∉ keysOf L := linkTarget_none_iff.mp hl
        by_cases hdir : ∃ k ∈ keysOf L, properPrefix q k = true
        · -- a directory on the way to a link
          obtain ⟨k, hk, hp⟩ := hdir
          have hspec : specGet L q = some .dir := by
            simp [specGet, hq0, hl, any_properPrefix_iff.mpr ⟨k, hk, hp⟩]
          rw [hspec]
          by_cases hmk : ∃ k' ∈ (analyzeView v L).fresh ++ (analyzeView v L).toUpdate, properPrefix q k' = true
          · simp [hq0, hany.mpr hmk]
          · have hno : ¬ ((pairsOf L ((analyzeView v L).fresh ++ (analyzeView v L).toUpdate)).any
                (fun k => properPrefix q k.1) = true) := fun h => hmk (hany.mp h)
            simp only [hno, and_false, if_false]
            -- then `k` is a kept link, so `q` was a directory before and is untouched
            have hkl : k ∉ (analyzeView v L).fresh ++ (analyzeView v L).toUpdate := fun h => hmk ⟨k, h, hp⟩
            have hks : (vget v k).isSome := by
              cases h : vget v k with
              | none => exact absurd (List.mem_append_left _ ((mem_fresh hV0 hV hT k).mpr ⟨hk, h⟩)) hkl
              | some _ => rfl
            obtain ⟨_, k0, hk0, hkk0⟩ := tree_present hV0 hT hks
            have hqd : vget v q = some .dir :=
              tree_dir hV0 hT hq0 hk0 (properPrefix_of_proper_of_prefix hp hkk0)
            have hc : ¬ (q ∈ (analyzeView v L).toUpdate ∨ q ∈ (analyzeView v L).stale ∨ q ∈ obsOf v L) := by
              rintro (h | h | h)
              · obtain ⟨_, t, ht, _⟩ := (mem_toUpdate hV0 hV hT q).mp h
                exact hnk (mem_keys_of_linkTarget ht)
              · obtain ⟨⟨t, ht⟩, _, _⟩ := (mem_stale hV0 hV hT q).mp h
                rw [hqd] at ht; cases ht
              · exact ((mem_obsOf hV0 hV hT q).mp h).2 ⟨k, hk, ((properPrefix_iff q k).mp hp).1⟩
            rw [hv3]; simp [hc, hqd]
        · -- nothing belongs here
          have hspec : specGet L q = none := by
            have : ¬ (L.any (fun x => properPrefix q x.1) = true) := fun h => hdir (any_properPrefix_iff.mp h)
            simp [specGet, hq0, hl, this]
          rw [hspec]
          have hno : ¬ ((pairsOf L ((analyzeView v L).fresh ++ (analyzeView v L).toUpdate)).any
              (fun k => properPrefix q k.1) = true) := by
            rw [hany]; rintro ⟨k, hk, hp⟩; exact hdir ⟨k, hps k hk, hp⟩
          simp only [hno, and_false, if_false]
          rw [hv3]
          by_cases hc : q ∈ (analyzeView v L).toUpdate ∨ q ∈ (analyzeView v L).stale ∨ q ∈ obsOf v L
          · simp [hc]
          · simp only [hc, if_false]
            cases hvq : vget v q with
            | none => simp
            | some e =>
              exfalso
              apply hc
              right; right
              rw [mem_obsOf hV0 hV hT]
              refine ⟨by simp [hvq], ?_⟩
              rintro ⟨k, hk, hqk⟩
              rcases prefix_cases hqk with e' | hp
              · exact hnk (e' ▸ hk)
              · exact hdir ⟨k, hk, hp⟩

end main

/-- On a view that already is the picture of `L` the update performs no step at all. -/
theorem steps_nil_of_tree {L : List (Path × String)} {v : View} (hV : Valid L) (hT : IsTreeOf v L) :
    viewSteps v L = [] := by
  have hobs : obsOf v L = [] := by
    rw [List.eq_nil_iff_forall_not_mem]
    intro q hq
    obtain ⟨hs, hn⟩ := (mem_obsOf hV hV hT q).mp hq
    obtain ⟨_, k, hk, hp⟩ := tree_present hV hT hs
    exact hn ⟨k, hk, hp⟩
  have hstale : (analyzeView v L).stale = [] := by
    rw [List.eq_nil_iff_forall_not_mem]
    intro q hq
    obtain ⟨⟨t, ht⟩, hnk, _⟩ := (mem_stale hV hV hT q).mp hq
    exact hnk (tree_link hV hT ht).1
  have hupd : (analyzeView v L).toUpdate = [] := by
    rw [List.eq_nil_iff_forall_not_mem]
    intro q hq
    obtain ⟨_, t, ht, hne⟩ := (mem_toUpdate hV hV hT q).mp hq
    obtain ⟨t', ht', hv⟩ := tree_key hV hT (mem_keys_of_linkTarget ht)
    rw [ht] at ht'
    cases ht'
    exact hne hv
  have hfresh : (analyzeView v L).fresh = [] := by
    rw [List.eq_nil_iff_forall_not_mem]
    intro q hq
    obtain ⟨hk, hn⟩ := (mem_fresh hV hV hT q).mp hq
    obtain ⟨t, _, hv⟩ := tree_key hV hT hk
    rw [hn] at hv; cases hv
  unfold viewSteps
  simp only [analyze_obsolete, hobs, hstale, hupd, hfresh, List.append_nil, List.map_nil,
    List.filterMap_nil]

theorem valid_nil : Valid [] :=
  ⟨by simp [keysOf], by simp [keysOf], by simp [keysOf], by simp [keysOf]⟩

theorem isTreeOf_nil : IsTreeOf [] [] := by
  intro p; simp [vget, specGet, linkTarget]

/-! ### a fresh prefix, and why ordinary names are needed -/

theorem obsOf_empty (L : List (Path × String)) : obsOf [] L = [] := by
  rw [List.eq_nil_iff_forall_not_mem]
  intro q hq
  unfold obsOf at hq
  rw [List.mem_mergeSort, List.mem_filter, mem_dead_iff] at hq
  obtain ⟨⟨hn, _⟩, hf⟩ := hq
  have hex : exOf [] = [] := rfl
  rw [hex] at hn
  rcases hn with e | ⟨e, he, _⟩
  · simp [e] at hf
  · cases he

/-- into an empty prefix the update just links every path, in order -/
theorem viewSteps_empty (L : List (Path × String)) :
    viewSteps [] L = (keysOf L).filterMap (fun p =>
      match linkTarget L p with
      | some t => some (Step.mklink (fsPath p) t)
      | none => none) := by
  have h2 : (analyzeView [] L).stale = [] := by rw [analyze_stale]; rfl
  have h3 : (analyzeView [] L).toUpdate = [] := by rw [analyze_toUpdate]; rfl
  have h4 : (analyzeView [] L).fresh = keysOf L := by
    rw [analyze_fresh]
    have hex : exOf [] = [] := rfl
    rw [hex]; simp
  unfold viewSteps
  simp only [analyze_obsolete, obsOf_empty, h2, h3, h4, List.append_nil, List.map_nil, List.nil_append]
  rfl

/-- the checks of the tool alone (without "components are ordinary names") -/
structure ValidRaw (L : List (Path × String)) : Prop where
  nodup : (keysOf L).Nodup
  noConflict : ∀ p ∈ keysOf L, ∀ q ∈ keysOf L, properPrefix p q = false
  leafEnd : ∀ p ∈ keysOf L, p.getLast? = some leaf

/-- two raw paths that name the same place (`"/job"`-like `["", "job"]` and `["job"]`) -/
def clashLinks : List (Path × String) := [(["", "job"], "a"), (["job"], "b")]

theorem clashLinks_validRaw : ValidRaw clashLinks := by
  refine ⟨by decide, ?_, ?_⟩
  · intro p hp q hq
    simp only [clashLinks, keysOf, List.map_cons, List.map_nil, List.mem_cons, List.not_mem_nil, or_false] at hp hq
    rcases hp with rfl | rfl <;> rcases hq with rfl | rfl <;> decide
  · intro p hp
    simp only [clashLinks, keysOf, List.map_cons, List.map_nil, List.mem_cons, List.not_mem_nil, or_false] at hp
    rcases hp with rfl | rfl <;> decide

theorem clashLinks_fails : (updateView [] clashLinks).2 = some .exist := by
  unfold updateView
  rw [viewSteps_empty]
  decide

end Signac.LV

/-
  `canon v` has strictly increasing keys in every object at every depth, and
  `canon` is the identity on such values (hence idempotent).  Core only.
-/
import Signac.Proofs.Canon
namespace Signac

abbrev KeysLt (a b : String × JVal) : Prop := a.1 < b.1

mutual
  def SortedDeep : JVal → Prop
    | .arr xs => SortedDeepList xs
    | .obj kvs => kvs.Pairwise KeysLt ∧ SortedDeepObj kvs
    | .null => True
    | .bool _ => True
    | .int _ => True
    | .flt _ _ _ => True
    | .str _ => True
  def SortedDeepList : List JVal → Prop
    | [] => True
    | x :: xs => SortedDeep x ∧ SortedDeepList xs
  def SortedDeepObj : List (String × JVal) → Prop
    | [] => True
    | (_, v) :: r => SortedDeep v ∧ SortedDeepObj r
end

theorem insertKV_mem {k : String} {v : JVal} {l : List (String × JVal)} {x : String × JVal}
    (h : x ∈ insertKV k v l) : x = (k, v) ∨ x ∈ l := by
  induction l with
  | nil => simp [insertKV] at h; exact Or.inl h
  | cons hd tl ih =>
    obtain ⟨k', v'⟩ := hd
    simp only [insertKV] at h
    split at h
    · simp only [List.mem_cons] at h ⊢
      rcases h with h | h | h
      · exact Or.inl h
      · exact Or.inr (Or.inl h)
      · exact Or.inr (Or.inr h)
    · split at h
      · simp only [List.mem_cons] at h ⊢
        rcases h with h | h
        · exact Or.inl h
        · exact Or.inr (Or.inr h)
      · simp only [List.mem_cons] at h ⊢
        rcases h with h | h
        · exact Or.inr (Or.inl h)
        · rcases ih h with h | h
          · exact Or.inl h
          · exact Or.inr (Or.inr h)

theorem insertKV_pairwise (k : String) (v : JVal) (l : List (String × JVal))
    (h : l.Pairwise KeysLt) : (insertKV k v l).Pairwise KeysLt := by
  induction l with
  | nil => simp [insertKV]
  | cons hd tl ih =>
    obtain ⟨k', v'⟩ := hd
    rw [List.pairwise_cons] at h
    rcases str_trichotomy k k' with hk | hk | hk
    · rw [insertKV_lt hk]
      refine List.pairwise_cons.mpr ⟨?_, List.pairwise_cons.mpr h⟩
      intro x hx
      rcases List.mem_cons.mp hx with hx | hx
      · subst hx; exact hk
      · exact String.lt_trans hk (h.1 x hx)
    · subst hk
      rw [insertKV_eq]
      exact List.pairwise_cons.mpr ⟨fun x hx => h.1 x hx, h.2⟩
    · rw [insertKV_gt hk]
      refine List.pairwise_cons.mpr ⟨?_, ih h.2⟩
      intro x hx
      rcases insertKV_mem hx with hx | hx
      · subst hx; exact hk
      · exact h.1 x hx

theorem insertKV_sortedDeepObj (k : String) (v : JVal) (l : List (String × JVal))
    (hv : SortedDeep v) (h : SortedDeepObj l) : SortedDeepObj (insertKV k v l) := by
  induction l with
  | nil => simp [insertKV, SortedDeepObj, hv]
  | cons hd tl ih =>
    obtain ⟨k', v'⟩ := hd
    simp only [SortedDeepObj] at h
    simp only [insertKV]
    split
    · simp [SortedDeepObj, hv, h]
    · split
      · simp [SortedDeepObj, hv, h]
      · simp [SortedDeepObj, h, ih h.2]

mutual
  theorem canon_sorted : (v : JVal) → SortedDeep (canon v)
    | .arr xs => by simp only [canon, SortedDeep]; exact canonList_sorted xs
    | .obj kvs => by
      simp only [canon, SortedDeep]; exact ⟨canonObj_pairwise kvs, canonObj_sorted kvs⟩
    | .null => by simp [canon, SortedDeep]
    | .bool _ => by simp [canon, SortedDeep]
    | .int _ => by simp [canon, SortedDeep]
    | .flt _ _ _ => by simp [canon, SortedDeep]
    | .str _ => by simp [canon, SortedDeep]
  theorem canonList_sorted : (xs : List JVal) → SortedDeepList (canonList xs)
    | [] => by simp [canonList, SortedDeepList]
    | x :: xs => by
      simp only [canonList, SortedDeepList]; exact ⟨canon_sorted x, canonList_sorted xs⟩
  theorem canonObj_sorted : (kvs : List (String × JVal)) → SortedDeepObj (canonObj kvs)
    | [] => by simp [canonObj, SortedDeepObj]
    | (k, v) :: r => by
      simp only [canonObj]
      exact insertKV_sortedDeepObj k _ _ (canon_sorted v) (canonObj_sorted r)
  theorem canonObj_pairwise : (kvs : List (String × JVal)) → (canonObj kvs).Pairwise KeysLt
    | [] => by simp [canonObj]
    | (k, v) :: r => by
      simp only [canonObj]
      exact insertKV_pairwise k _ _ (canonObj_pairwise r)
end

theorem insertKV_head {k : String} {v : JVal} {l : List (String × JVal)}
    (h : ∀ x ∈ l, k < x.1) : insertKV k v l = (k, v) :: l := by
  cases l with
  | nil => rfl
  | cons hd tl =>
    obtain ⟨k', v'⟩ := hd
    exact insertKV_lt (h (k', v') (List.mem_cons_self)) v v' tl

mutual
  theorem canon_of_sorted : (v : JVal) → SortedDeep v → canon v = v
    | .arr xs, h => by
      simp only [SortedDeep] at h; simp only [canon, canonList_of_sorted xs h]
    | .obj kvs, h => by
      simp only [SortedDeep] at h; simp only [canon, canonObj_of_sorted kvs h.1 h.2]
    | .null, _ => rfl
    | .bool _, _ => rfl
    | .int _, _ => rfl
    | .flt _ _ _, _ => rfl
    | .str _, _ => rfl
  theorem canonList_of_sorted : (xs : List JVal) → SortedDeepList xs → canonList xs = xs
    | [], _ => rfl
    | x :: xs, h => by
      simp only [SortedDeepList] at h
      simp only [canonList, canon_of_sorted x h.1, canonList_of_sorted xs h.2]
  theorem canonObj_of_sorted : (kvs : List (String × JVal)) → kvs.Pairwise KeysLt →
      SortedDeepObj kvs → canonObj kvs = kvs
    | [], _, _ => rfl
    | (k, v) :: r, hp, h => by
      simp only [SortedDeepObj] at h
      rw [List.pairwise_cons] at hp
      simp only [canonObj, canon_of_sorted v h.1, canonObj_of_sorted r hp.2 h.2]
      exact insertKV_head hp.1
end

theorem canon_idem (v : JVal) : canon (canon v) = canon v :=
  canon_of_sorted _ (canon_sorted v)

end Signac

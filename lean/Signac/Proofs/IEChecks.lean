/-
  Helper lemmas for C16: split / join are inverse, and the two export checks
  (`_check_path_function_unique`, repaired `_check_directory_structure_validity`)
  accept only injective, component-wise prefix-free path lists.
-/
import Signac.ImportExport
namespace Signac.IE
open Signac

theorem splitC_ne_nil (sep : Char) (s : List Char) : splitC sep s ≠ [] := by
  induction s with
  | nil => simp [splitC]
  | cons c cs ih =>
    simp only [splitC]
    split
    · simp
    · split
      · simp
      · simp

theorem joinC_splitC (sep : Char) (s : List Char) : joinC sep (splitC sep s) = s := by
  induction s with
  | nil => simp [splitC, joinC]
  | cons c cs ih =>
    simp only [splitC]
    split
    · rename_i h
      cases hX : splitC sep cs with
      | nil => exact absurd hX (splitC_ne_nil sep cs)
      | cons b rest =>
        rw [hX] at ih
        simp only [joinC, List.nil_append, ih, h]
    · cases hX : splitC sep cs with
      | nil => exact absurd hX (splitC_ne_nil sep cs)
      | cons h t =>
        rw [hX] at ih
        cases t with
        | nil =>
          simp only [joinC] at ih ⊢
          rw [ih]
        | cons b rest =>
          simp only [joinC] at ih ⊢
          rw [← ih]
          simp

theorem joinSlash_splitSlash (s : String) : joinSlash (splitSlash s) = s := by
  simp only [joinSlash, splitSlash, joinWithChar, splitOnChar, List.map_map]
  have : (String.toList ∘ String.ofList) = (id : List Char → List Char) := by
    funext l
    simp [String.toList_ofList]
  rw [this, List.map_id, joinC_splitC, String.ofList_toList]

theorem splitSlash_injective {a b : String} (h : splitSlash a = splitSlash b) : a = b := by
  rw [← joinSlash_splitSlash a, ← joinSlash_splitSlash b, h]

theorem splitSlash_ne_nil (s : String) : splitSlash s ≠ [] := by
  simp only [splitSlash, splitOnChar]
  intro h
  exact splitC_ne_nil '/' s.toList (List.map_eq_nil_iff.mp h)

/-- component-wise: no path is a prefix of another (in particular no two are equal) -/
def PrefixFree (cs : List Comps) : Prop :=
  cs.Pairwise (fun a b => ¬ a <+: b ∧ ¬ b <+: a)

theorem checkUnique_nodup : ∀ (ps : List String), checkUnique ps = true → ps.Nodup
  | [], _ => List.nodup_nil
  | p :: ps, h => by
    simp only [checkUnique, Bool.and_eq_true, Bool.not_eq_eq_eq_not, Bool.not_true] at h
    refine List.nodup_cons.mpr ⟨?_, checkUnique_nodup ps h.2⟩
    intro hm
    have := List.contains_iff_mem.mpr hm
    rw [this] at h
    exact absurd h.1 (by decide)

theorem mem_properPrefixes {a b : String} (hp : splitSlash a <+: splitSlash b)
    (hne : a ≠ b) : a ∈ properPrefixes b := by
  have hlen := hp.length_le
  have htake := List.prefix_iff_eq_take.mp hp
  have hpos : 0 < (splitSlash a).length := List.length_pos_iff.mpr (splitSlash_ne_nil a)
  have hlt : (splitSlash a).length < (splitSlash b).length := by
    rcases Nat.lt_or_ge (splitSlash a).length (splitSlash b).length with h | h
    · exact h
    · exfalso
      apply hne
      apply splitSlash_injective
      rw [htake, List.take_of_length_le h]
  simp only [properPrefixes, List.mem_map, List.mem_range]
  refine ⟨(splitSlash a).length - 1, by omega, ?_⟩
  have : (splitSlash a).length - 1 + 1 = (splitSlash a).length := by omega
  rw [this, ← htake, joinSlash_splitSlash]

theorem checks_sound (ps : List String) (hu : checkUnique ps = true) (hl : checkLeafNode ps = true) :
    PrefixFree (ps.map splitSlash) := by
  have hnd := checkUnique_nodup ps hu
  simp only [checkLeafNode, List.all_eq_true, Bool.not_eq_eq_eq_not, Bool.not_true] at hl
  have hnot : ∀ a ∈ ps, ∀ b ∈ ps, a ≠ b → ¬ splitSlash a <+: splitSlash b := by
    intro a ha b hb hne hp
    have hmem : a ∈ ps.flatMap properPrefixes :=
      List.mem_flatMap.mpr ⟨b, hb, mem_properPrefixes hp hne⟩
    have := hl a ha
    rw [List.contains_iff_mem.mpr hmem] at this
    exact absurd this (by decide)
  unfold PrefixFree
  rw [List.pairwise_map]
  exact List.Pairwise.imp_of_mem (fun {a b} ha hb (hne : a ≠ b) =>
    ⟨hnot a ha b hb hne, hnot b hb a ha (fun h => hne h.symm)⟩) hnd

end Signac.IE

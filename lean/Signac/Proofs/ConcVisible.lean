/-
  Proofs/ConcVisible — frame facts: who can change a published file, and the visibility of a
  completed document write (C12, "a write completed by one process is seen by every later read").
-/
import Signac.Proofs.ConcInv
namespace Signac.Conc
variable {SP DV : Type} {hash : SP → JobId}

/-- the paths an instruction may modify -/
def writes : Instr SP DV → Path → Prop
  | .mkdir q, p => p = q
  | .openw q, p => p = q
  | .write q _, p => p = q
  | .rename q r, p => p = q ∨ p = r
  | _, _ => False

theorem exec_frame (fs : FS SP DV) (ins : Instr SP DV) (p : Path) (h : ¬ writes ins p) :
    (exec fs ins).1.get p = fs.get p := by
  cases ins with
  | isdir q => simp only [exec]; split <;> rfl
  | isfile q => simp only [exec]; split <;> rfl
  | pexists q => simp only [exec]; split <;> rfl
  | read q => simp only [exec]; split <;> rfl
  | close q => rfl
  | listdir q => simp only [exec]; split <;> rfl
  | mkdir q =>
    simp only [writes] at h
    simp only [exec]; split
    · rfl
    · split
      · simp only [get_set]; split
        · rename_i e; exact absurd e.symm h
        · rfl
      · rfl
  | openw q =>
    simp only [writes] at h
    simp only [exec]; split
    · rfl
    · split
      · simp only [get_set]; split
        · rename_i e; exact absurd e.symm h
        · rfl
      · rfl
  | write q c =>
    simp only [writes] at h
    simp only [exec]; split
    · simp only [get_set]; split
      · rename_i e; exact absurd e.symm h
      · rfl
    · rfl
  | rename q r =>
    simp only [writes, not_or] at h
    simp only [exec]; split
    · split
      · rfl
      · split
        · simp only [get_set, get_del]; split
          · rename_i e; exact absurd e.symm h.2
          · split
            · rename_i e; exact absurd e.symm h.1
            · rfl
        · rfl
    · rfl
    · rfl

/-- a published file is only ever written by the final `rename` of a save of exactly that file -/
theorem next_writes_file {a : Nat} {st : AState SP DV} {ins : Instr SP DV} {i : JobId} {k : Kind}
    (hn : next hash a st = some ins) (hw : writes ins (.file i k)) :
    ∃ c, st.phase = .save .rename i k c := by
  cases hph : st.phase with
  | fin => simp [next, hph] at hn
  | proj n => cases n <;> simp only [next, hph, Option.some.injEq] at hn <;> subst hn <;> simp [writes] at hw
  | lite v => simp only [next, hph, Option.some.injEq] at hn; subst hn; simp [writes] at hw
  | ini n v => cases n <;> simp only [next, hph, Option.some.injEq] at hn <;> subst hn <;> simp [writes] at hw
  | dload v => simp only [next, hph, Option.some.injEq] at hn; subst hn; simp [writes] at hw
  | len => simp only [next, hph, Option.some.injEq] at hn; subst hn; simp [writes] at hw
  | save n j k' c =>
    cases n <;> simp only [next, hph, Option.some.injEq] at hn <;> subst hn <;> simp [writes] at hw
    obtain ⟨rfl, rfl⟩ := hw
    exact ⟨c, rfl⟩

/-- a step of an actor that is not at the final rename of a save of `file i k` leaves it alone -/
theorem sysStep_frame {s : Sys SP DV} {b : Nat} {i : JobId} {k : Kind}
    (h : ∀ st, s.actors[b]? = some st → ∀ c, st.phase ≠ .save .rename i k c) :
    (sysStep hash s b).fs.get (.file i k) = s.fs.get (.file i k) := by
  cases hst : s.actors[b]? with
  | none => rw [sysStep_idle_none hst]
  | some st =>
    cases hn : next hash b st with
    | none => rw [sysStep_idle_fin hst hn]
    | some ins =>
      rw [sysStep_eq hst hn]
      apply exec_frame
      intro hw
      obtain ⟨c, hc⟩ := next_writes_file hn hw
      exact h st hst c hc

/-- the completing step of a save publishes exactly the payload -/
theorem rename_publishes {s : Sys SP DV} (h : SysInv hash s) {a : Nat} {st : AState SP DV}
    {i : JobId} {k : Kind} {c : Content SP DV}
    (hst : s.actors[a]? = some st) (hph : st.phase = .save .rename i k c) :
    (sysStep hash s a).fs.get (.file i k) = some (.file c) := by
  have hinv := h.actors a st hst
  have hn : next hash a st = some (.rename (.tmp i k a) (.file i k)) := by simp [next, hph]
  rw [sysStep_eq hst hn]
  obtain ⟨hc, _⟩ : s.fs.get (.tmp i k a) = some (.file c) ∧ GoodC hash i k c := by
    simpa [hph, PhaseInv] using hinv.phase
  have hjd : IsDir s.fs (.jobdir i) := parent_dir h.fs hc rfl
  have hp : parentOk s.fs (.file i k) = true := by
    rw [parentOk_iff]; intro q hq; cases hq; exact hjd
  rw [exec_rename hc (file_not_dir h.fs i k) hp]
  simp [get_set]

/-- no step of the schedule is the completing rename of a save of `file i k` -/
def NoRenameTo (hash : SP → JobId) (i : JobId) (k : Kind) : Sys SP DV → List Nat → Prop
  | _, [] => True
  | s, b :: rest => (∀ st, s.actors[b]? = some st → ∀ c, st.phase ≠ .save .rename i k c) ∧
      NoRenameTo hash i k (sysStep hash s b) rest

/-- executable form of `NoRenameTo` (for concrete instances) -/
def isRenameOf (i : JobId) (k : Kind) : Phase SP DV → Bool
  | .save .rename j k' _ => decide (j = i) && decide (k' = k)
  | _ => false

def noRenameToB (hash : SP → JobId) (i : JobId) (k : Kind) : Sys SP DV → List Nat → Bool
  | _, [] => true
  | s, b :: rest =>
    (match s.actors[b]? with
     | some st => !isRenameOf i k st.phase
     | none => true) && noRenameToB hash i k (sysStep hash s b) rest

theorem noRenameTo_of_B {i : JobId} {k : Kind} {s : Sys SP DV} {sched : List Nat}
    (h : noRenameToB hash i k s sched = true) : NoRenameTo hash i k s sched := by
  induction sched generalizing s with
  | nil => trivial
  | cons b rest ih =>
    simp only [noRenameToB, Bool.and_eq_true] at h
    refine ⟨?_, ih h.2⟩
    intro st hst c hph
    simp [hst, hph, isRenameOf] at h

theorem run_frame {s : Sys SP DV} {i : JobId} {k : Kind} (sched : List Nat)
    (h : NoRenameTo hash i k s sched) :
    (run hash s sched).fs.get (.file i k) = s.fs.get (.file i k) := by
  induction sched generalizing s with
  | nil => rfl
  | cons b rest ih =>
    obtain ⟨h1, h2⟩ := h
    simp only [run]
    rw [ih h2, sysStep_frame h1]

end Signac.Conc

/- Helper lemmas for C20 (string-typed version gate): `Signac.PyInt.pyInt` parses back every
   number `toString` writes, accepts only digits / underscores / a sign / blanks, and `gateStr`
   agrees with the `Nat` gate.  Core Lean only. -/
import Signac.PyInt
namespace Signac.PyInt
open Signac

/-! ### characters -/

theorem isWs_of_isDigit {c : Char} (h : c.isDigit = true) : isWs c = false := by
  simp only [Char.isDigit, Bool.and_eq_true, decide_eq_true_eq] at h
  have h1 : 48 ≤ c.val.toNat := by
    have := h.1; exact UInt32.le_iff_toNat_le.mp this
  simp only [isWs, Bool.or_eq_false_iff, decide_eq_false_iff_not]
  refine ⟨⟨⟨⟨⟨?_, ?_⟩, ?_⟩, ?_⟩, ?_⟩, ?_⟩ <;> (intro e; subst e; revert h1; decide)

theorem ne_plus_of_isDigit {c : Char} (h : c.isDigit = true) : c ≠ '+' := by
  intro e; subst e; revert h; decide

theorem ne_minus_of_isDigit {c : Char} (h : c.isDigit = true) : c ≠ '-' := by
  intro e; subst e; revert h; decide

/-! ### stripping -/

theorem rstrip_of_noWs : ∀ (l : List Char), (∀ c ∈ l, isWs c = false) → rstrip l = l
  | [], _ => rfl
  | c :: cs, h => by
    have ih := rstrip_of_noWs cs (fun d hd => h d (List.mem_cons_of_mem _ hd))
    have hc : isWs c = false := h c (List.mem_cons_self ..)
    simp only [rstrip, ih]
    cases cs with
    | nil => simp [hc]
    | cons d ds => rfl

theorem strip_of_noWs (l : List Char) (h : ∀ c ∈ l, isWs c = false) : strip l = l := by
  unfold strip
  have : l.dropWhile isWs = l := by
    cases l with
    | nil => rfl
    | cons c cs => simp [List.dropWhile, h c (List.mem_cons_self ..)]
  rw [this, rstrip_of_noWs l h]

theorem mem_dropWhile_or (c : Char) : ∀ (l : List Char), c ∈ l → isWs c = true ∨ c ∈ l.dropWhile isWs
  | [], h => by cases h
  | d :: ds, h => by
    by_cases hd : isWs d = true
    · rw [List.dropWhile_cons_of_pos hd]
      rcases List.mem_cons.mp h with e | e
      · exact Or.inl (e ▸ hd)
      · exact mem_dropWhile_or c ds e
    · rw [List.dropWhile_cons_of_neg hd]; exact Or.inr h

theorem mem_rstrip_or (c : Char) : ∀ (l : List Char), c ∈ l → isWs c = true ∨ c ∈ rstrip l
  | [], h => by cases h
  | d :: ds, h => by
    rcases List.mem_cons.mp h with e | e
    · subst e
      simp only [rstrip]
      split
      · split
        · exact Or.inl ‹_›
        · exact Or.inr (List.mem_cons_self ..)
      · exact Or.inr (List.mem_cons_self ..)
    · rcases mem_rstrip_or c ds e with h1 | h1
      · exact Or.inl h1
      · right
        simp only [rstrip]
        split
        · rename_i he; rw [he] at h1; cases h1
        · exact List.mem_cons_of_mem _ h1

theorem mem_strip_or (c : Char) (l : List Char) (h : c ∈ l) : isWs c = true ∨ c ∈ strip l := by
  rcases mem_dropWhile_or c l h with h1 | h1
  · exact Or.inl h1
  · exact mem_rstrip_or c _ h1

/-! ### the digit loop -/

/-- on a run of digits the loop computes the positional value (`Nat.ofDigitChars` of core) -/
theorem digits_of_allDigits : ∀ (l : List Char) (acc : Nat), (∀ c ∈ l, c.isDigit = true) →
    digits acc l = some (Nat.ofDigitChars 10 l acc)
  | [], acc, _ => by simp [digits]
  | c :: cs, acc, h => by
    have hc : c.isDigit = true := h c (List.mem_cons_self ..)
    have ih := digits_of_allDigits cs (10 * acc + (c.toNat - 48))
      (fun d hd => h d (List.mem_cons_of_mem _ hd))
    rw [digits.eq_def]
    simp only [hc, if_true]
    rw [ih, Nat.ofDigitChars_cons]
    rfl

theorem unsigned_of_allDigits (l : List Char) (hne : l ≠ []) (h : ∀ c ∈ l, c.isDigit = true) :
    unsigned l = some (Nat.ofDigitChars 10 l 0) := by
  cases l with
  | nil => exact absurd rfl hne
  | cons c cs =>
    have hc : c.isDigit = true := h c (List.mem_cons_self ..)
    rw [unsigned, if_pos hc,
      digits_of_allDigits cs _ (fun d hd => h d (List.mem_cons_of_mem _ hd)), Nat.ofDigitChars_cons]
    simp

/-- whatever the loop accepts consists of digits and underscores -/
theorem digits_chars : ∀ (l : List Char) (acc v : Nat), digits acc l = some v →
    ∀ c ∈ l, c.isDigit = true ∨ c = '_'
  | [], _, _, _, c, hc => by cases hc
  | [d], acc, v, h, c, hc => by
    have : c = d := by simpa using hc
    subst this
    by_cases hd : c.isDigit = true
    · exact Or.inl hd
    · rw [digits, if_neg hd] at h
      by_cases hu : c = '_'
      · exact Or.inr hu
      · rw [if_neg hu] at h; cases h
  | d :: e :: es, acc, v, h, c, hc => by
    by_cases hd : d.isDigit = true
    · rw [digits, if_pos hd] at h
      rcases List.mem_cons.mp hc with e1 | e1
      · exact Or.inl (e1 ▸ hd)
      · exact digits_chars (e :: es) _ v h c e1
    · rw [digits, if_neg hd] at h
      by_cases hu : d = '_'
      · rw [if_pos hu] at h
        by_cases he : e.isDigit = true
        · simp only [he, if_true] at h
          rcases List.mem_cons.mp hc with e1 | e1
          · exact Or.inr (e1 ▸ hu)
          · rcases List.mem_cons.mp e1 with e2 | e2
            · exact Or.inl (e2 ▸ he)
            · exact digits_chars es _ v h c e2
        · simp only [he] at h; cases h
      · rw [if_neg hu] at h; cases h

theorem unsigned_chars (l : List Char) (v : Nat) (h : unsigned l = some v) :
    ∀ c ∈ l, c.isDigit = true ∨ c = '_' := by
  cases l with
  | nil => intro c hc; cases hc
  | cons d ds =>
    by_cases hd : d.isDigit = true
    · rw [unsigned, if_pos hd] at h
      intro c hc
      rcases List.mem_cons.mp hc with e | e
      · exact Or.inl (e ▸ hd)
      · exact digits_chars ds _ v h c e
    · rw [unsigned, if_neg hd] at h; cases h

/-! ### `pyIntChars` -/

theorem pyIntChars_of_allDigits (l : List Char) (hne : l ≠ []) (h : ∀ c ∈ l, c.isDigit = true) :
    pyIntChars l = some (Int.ofNat (Nat.ofDigitChars 10 l 0)) := by
  have hs : strip l = l := strip_of_noWs l (fun c hc => isWs_of_isDigit (h c hc))
  have hu := unsigned_of_allDigits l hne h
  cases l with
  | nil => exact absurd rfl hne
  | cons c cs =>
    have hc : c.isDigit = true := h c (List.mem_cons_self ..)
    unfold pyIntChars
    rw [hs]
    split
    · rename_i e; exact absurd (List.cons.inj e).1 (ne_plus_of_isDigit hc)
    · rename_i e; exact absurd (List.cons.inj e).1 (ne_minus_of_isDigit hc)
    · rw [hu]; rfl

theorem pyIntChars_neg_of_allDigits (l : List Char) (hne : l ≠ []) (h : ∀ c ∈ l, c.isDigit = true) :
    pyIntChars ('-' :: l) = some (-(Int.ofNat (Nat.ofDigitChars 10 l 0))) := by
  have hs : strip ('-' :: l) = '-' :: l := strip_of_noWs _ (by
    intro c hc
    rcases List.mem_cons.mp hc with e | e
    · subst e; decide
    · exact isWs_of_isDigit (h c e))
  unfold pyIntChars
  rw [hs]
  simp only [unsigned_of_allDigits l hne h, Option.map_some]

/-- the part of the input that is left after stripping, split into sign and numeral -/
theorem pyIntChars_chars (l : List Char) (v : Int) (h : pyIntChars l = some v) :
    ∀ c ∈ strip l, c.isDigit = true ∨ c = '_' ∨ c = '+' ∨ c = '-' := by
  unfold pyIntChars at h
  split at h
  · rename_i r e
    cases hu : unsigned r with
    | none => rw [hu] at h; cases h
    | some n =>
      intro c hc; rw [e] at hc
      rcases List.mem_cons.mp hc with e1 | e1
      · exact Or.inr (Or.inr (Or.inl e1))
      · rcases unsigned_chars r n hu c e1 with h1 | h1
        · exact Or.inl h1
        · exact Or.inr (Or.inl h1)
  · rename_i r e
    cases hu : unsigned r with
    | none => rw [hu] at h; cases h
    | some n =>
      intro c hc; rw [e] at hc
      rcases List.mem_cons.mp hc with e1 | e1
      · exact Or.inr (Or.inr (Or.inr e1))
      · rcases unsigned_chars r n hu c e1 with h1 | h1
        · exact Or.inl h1
        · exact Or.inr (Or.inl h1)
  · cases hu : unsigned (strip l) with
    | none => rw [hu] at h; cases h
    | some n =>
      intro c hc
      rcases unsigned_chars _ n hu c hc with h1 | h1
      · exact Or.inl h1
      · exact Or.inr (Or.inl h1)

/-! ### strings -/

theorem toList_toString_nat (n : Nat) : (toString n).toList = Nat.toDigits 10 n :=
  Nat.toList_repr

theorem pyInt_toString (n : Nat) : pyInt (toString n) = some (Int.ofNat n) := by
  unfold pyInt
  rw [toList_toString_nat,
    pyIntChars_of_allDigits _ Nat.toDigits_ne_nil
      (fun c hc => Nat.isDigit_of_mem_toDigits (by decide) (by decide) hc),
    Nat.ofDigitChars_ten_toDigits]

theorem pyInt_neg_toString (n : Nat) : pyInt ("-" ++ toString n) = some (-(Int.ofNat n)) := by
  unfold pyInt
  have : ("-" ++ toString n).toList = '-' :: Nat.toDigits 10 n := by
    rw [String.toList_append, toList_toString_nat]; rfl
  rw [this, pyIntChars_neg_of_allDigits _ Nat.toDigits_ne_nil
      (fun c hc => Nat.isDigit_of_mem_toDigits (by decide) (by decide) hc),
    Nat.ofDigitChars_ten_toDigits]

theorem pyInt_chars (s : String) (v : Int) (h : pyInt s = some v) :
    ∀ c ∈ s.toList, c.isDigit = true ∨ c = '_' ∨ c = '+' ∨ c = '-' ∨ isWs c = true := by
  intro c hc
  rcases mem_strip_or c _ hc with h1 | h1
  · exact Or.inr (Or.inr (Or.inr (Or.inr h1)))
  · rcases pyIntChars_chars _ v h c h1 with h2 | h2 | h2 | h2
    · exact Or.inl h2
    · exact Or.inr (Or.inl h2)
    · exact Or.inr (Or.inr (Or.inl h2))
    · exact Or.inr (Or.inr (Or.inr (Or.inl h2)))

/-! ### the gate -/

theorem gateStr_ok_iff (s : String) : gateStr s = .ok ↔ pyInt s = some (Mig.SCHEMA : Int) := by
  unfold gateStr
  cases h : pyInt s with
  | none => simp
  | some v =>
    simp only [Option.some.injEq]
    constructor
    · intro hg
      split at hg
      · cases hg
      · split at hg
        · cases hg
        · omega
    · intro e
      subst e
      simp

theorem gateStr_toString (n : Nat) :
    gateStr (toString n) = (match Mig.gate n with | .ok => .ok | .incompatible => .incompatible) := by
  unfold gateStr Mig.gate
  rw [pyInt_toString]
  simp only [Int.ofNat_eq_natCast, gt_iff_lt, Int.ofNat_lt]
  split
  · rfl
  · split <;> rfl

/-! ### `declared`: the link to the `Nat` typed model -/

theorem declared_toString (n : Nat) : declared (toString n) = some n := by
  unfold declared; rw [pyInt_toString]

theorem declared_eq_some (s : String) (n : Nat) :
    declared s = some n ↔ pyInt s = some (Int.ofNat n) := by
  unfold declared
  cases h : pyInt s with
  | none => simp
  | some v =>
    cases v with
    | ofNat a => simp only [Option.some.injEq]; exact ⟨fun e => e ▸ rfl, fun e => Int.ofNat.inj e⟩
    | negSucc a => simp

/-- whenever the string declares a natural number the string gate is the `Nat` gate on it -/
theorem gateStr_of_declared (s : String) (n : Nat) (h : declared s = some n) :
    gateStr s = (match Mig.gate n with | .ok => .ok | .incompatible => .incompatible) := by
  rw [← gateStr_toString n]
  unfold gateStr
  rw [(declared_eq_some s n).mp h, pyInt_toString]

/-- and otherwise (not a number, or a negative one) the project is refused -/
theorem gateStr_of_not_declared (s : String) (h : declared s = none) : gateStr s ≠ .ok := by
  intro hg
  rw [gateStr_ok_iff] at hg
  have : declared s = some Mig.SCHEMA := (declared_eq_some s _).mpr hg
  rw [h] at this; cases this

/-! ### the digit limit of CPython ≥ 3.11 -/

theorem pyIntLim_zero (s : String) : pyIntLim 0 s = pyInt s := by simp [pyIntLim]

theorem pyIntLim_of_le (lim : Nat) (s : String) (h : digitCount s ≤ 640) :
    pyIntLim lim s = pyInt s := by
  unfold pyIntLim
  rw [if_neg (by omega)]

/-- the limit can only turn an accepted string into a refused one -/
theorem pyIntLim_some (lim : Nat) (s : String) (v : Int) (h : pyIntLim lim s = some v) :
    pyInt s = some v := by
  unfold pyIntLim at h
  split at h
  · cases h
  · exact h

theorem pyIntLim_toString (lim n : Nat) (h : n < 10 ^ 640) :
    pyIntLim lim (toString n) = some (Int.ofNat n) := by
  rw [pyIntLim_of_le, pyInt_toString]
  unfold digitCount
  rw [toList_toString_nat]
  exact Nat.le_trans (List.length_filter_le ..)
    ((Nat.length_toDigits_le_iff (by decide) (by decide)).mpr h)

end Signac.PyInt

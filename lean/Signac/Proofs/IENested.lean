/-
  Helper lemmas for C16: the round trip export ∘ import WITHOUT the restriction `NoNestedSp`.

  A job may hold, in a sub-directory, a file called `signac_statepoint.json` (e.g. a copy of another
  job's directory).  Such a nested directory is never taken for a job because all three analysers
  visit parents first (`sorted(...)` / `os.walk` top-down) and do not look below a directory they have
  identified.  The proofs here therefore use the visiting order:

    * `sortDirs_parentsFirst`: after `sorted`, a directory below a job directory never precedes
      that job directory's sub-directories it lies in — except for the one pair `[""]`, `[]` whose
      joined names are both the empty string; for that pair the (stable) sort keeps the input order.
    * `scan_eqN` / `crawl_specN`: the analysers find exactly the job roots.
-/
import Signac.ImportExport
import Signac.Proofs.IEChecks
import Signac.Proofs.IERoundtrip
namespace Signac.IE
open Signac

/-! ### sorting: parents first -/

/-- what a stable insertion sort guarantees: ordered by `le`, and elements of equal rank keep a
    relation `Q` that held in the input (in input order) -/
theorem pairwise_insertBy {α : Type} {le : α → α → Bool} {Q : α → α → Prop}
    (total : ∀ a b, le a b = true ∨ le b a = true)
    (trans : ∀ a b c, le a b = true → le b c = true → le a c = true)
    (x : α) (S : List α)
    (hS : S.Pairwise (fun a b => le a b = true ∧ (le b a = true → Q a b)))
    (hx : ∀ y ∈ S, le x y = true → le y x = true → Q x y) :
    (insertBy le x S).Pairwise (fun a b => le a b = true ∧ (le b a = true → Q a b)) := by
  induction S with
  | nil => simp [insertBy]
  | cons y ys ih =>
    have hS' := List.pairwise_cons.mp hS
    simp only [insertBy]
    split
    · rename_i hxy
      refine List.pairwise_cons.mpr ⟨?_, hS⟩
      intro z hz
      have hxz : le x z = true := by
        rcases List.mem_cons.mp hz with rfl | hz'
        · exact hxy
        · exact trans _ _ _ hxy (hS'.1 z hz').1
      exact ⟨hxz, fun hzx => hx z hz hxz hzx⟩
    · rename_i hxy
      refine List.pairwise_cons.mpr ⟨?_, ih hS'.2 (fun z hz => hx z (List.mem_cons_of_mem _ hz))⟩
      intro z hz
      rcases (mem_insertBy le x z ys).mp hz with rfl | hz'
      · refine ⟨?_, fun h => absurd h hxy⟩
        rcases total z y with h | h
        · exact absurd h hxy
        · exact h
      · exact hS'.1 z hz'

theorem pairwise_sortBy {α : Type} {le : α → α → Bool} {Q : α → α → Prop}
    (total : ∀ a b, le a b = true ∨ le b a = true)
    (trans : ∀ a b c, le a b = true → le b c = true → le a c = true)
    (l : List α) (hl : l.Pairwise (fun a b => le a b = true → le b a = true → Q a b)) :
    (sortBy le l).Pairwise (fun a b => le a b = true ∧ (le b a = true → Q a b)) := by
  induction l with
  | nil => simp [sortBy]
  | cons x xs ih =>
    have hl' := List.pairwise_cons.mp hl
    simp only [sortBy]
    exact pairwise_insertBy total trans x _ (ih hl'.2)
      (fun y hy => hl'.1 y ((mem_sortBy le y xs).mp hy))

theorem dirLe_total (a b : Comps) : dirLe a b = true ∨ dirLe b a = true := by
  simp only [dirLe, decide_eq_true_eq]
  exact String.le_total _ _

theorem dirLe_trans (a b c : Comps) (h1 : dirLe a b = true) (h2 : dirLe b c = true) : dirLe a c = true := by
  simp only [dirLe, decide_eq_true_eq] at *
  exact String.le_trans h1 h2

theorem joinC_prefix (sep : Char) (b r : List (List Char)) : joinC sep b <+: joinC sep (b ++ r) := by
  induction b with
  | nil => simp [joinC]
  | cons x xs ih =>
    cases xs with
    | nil =>
      cases r with
      | nil => simp
      | cons y ys => simp [joinC]
    | cons x' xs' =>
      simp only [List.cons_append, joinC] at ih ⊢
      exact (List.prefix_append_right_inj x).mpr ((List.prefix_cons_inj sep).mpr ih)

theorem joinC_length_lt (sep : Char) (b : List (List Char)) (hb : b ≠ []) (c : List Char) (r : List (List Char)) :
    (joinC sep b).length < (joinC sep (b ++ c :: r)).length := by
  induction b with
  | nil => exact absurd rfl hb
  | cons x xs ih =>
    cases xs with
    | nil => simp [joinC]
    | cons x' xs' =>
      have := ih (by simp)
      simp only [List.cons_append, joinC, List.length_append, List.length_cons] at this ⊢
      omega

theorem joinC_eq_nil (sep : Char) (c : List Char) (r : List (List Char)) (h : joinC sep (c :: r) = []) :
    c = [] ∧ r = [] := by
  cases r with
  | nil => simpa [joinC] using h
  | cons y ys => simp [joinC] at h

theorem dirLe_of_prefix {a b : Comps} (h : b <+: a) : dirLe b a = true := by
  rcases h with ⟨r, rfl⟩
  simp only [dirLe, decide_eq_true_eq, joinSlash, joinWithChar, List.map_append]
  have hp := joinC_prefix '/' (b.map String.toList) (r.map String.toList)
  have hle : (joinC '/' (b.map String.toList)) ≤ (joinC '/' (b.map String.toList ++ r.map String.toList)) :=
    List.IsPrefix.le hp
  show ¬ (String.ofList _).toList < (String.ofList _).toList
  rw [String.toList_ofList, String.toList_ofList]
  exact hle

/-- the only strict prefix pair whose joined names coincide: the root `[]` and a directory named `""` -/
theorem joinSlash_eq_of_prefix {a b : Comps} (h : b <+: a) (hne : b ≠ a) (heq : joinSlash b = joinSlash a) :
    b = [] ∧ a = [""] := by
  rcases h with ⟨r, rfl⟩
  cases r with
  | nil => simp at hne
  | cons c r' =>
    simp only [joinSlash, joinWithChar, List.map_append, List.map_cons] at heq
    have heq' := congrArg String.toList heq
    rw [String.toList_ofList, String.toList_ofList] at heq'
    cases b with
    | cons x xs =>
      have := joinC_length_lt '/' ((x :: xs).map String.toList) (by simp) c.toList (r'.map String.toList)
      rw [← heq'] at this
      omega
    | nil =>
      simp only [List.map_nil, List.nil_append, joinC] at heq'
      have := joinC_eq_nil '/' c.toList (r'.map String.toList) heq'.symm
      refine ⟨rfl, ?_⟩
      have hc : c = "" := by
        apply String.toList_inj.mp
        simpa using this.1
      have hr : r' = [] := by simpa using this.2
      simp [hc, hr]

/-- `b` comes after `a` and is a strict prefix of `a`, for a `b` of interest (`U b`) -/
def BadPair (U : Comps → Prop) (a b : Comps) : Prop := b <+: a ∧ b ≠ a ∧ U b

/-- After `sorted(dirs)` no directory (of interest) comes after one that lies strictly below it —
    provided that, if the root `[]` is of interest, the input does not list `[""]` before `[]`. -/
theorem sortDirs_parentsFirst (U : Comps → Prop) (l : List Comps)
    (hl : U [] → l.Pairwise (fun a b => ¬ (a = [""] ∧ b = []))) :
    (sortDirs l).Pairwise (fun a b => ¬ BadPair U a b) := by
  have hin : l.Pairwise (fun a b => dirLe a b = true → dirLe b a = true → ¬ BadPair U a b) := by
    have key : ∀ a b : Comps, dirLe a b = true → dirLe b a = true → BadPair U a b →
        a = [""] ∧ b = [] ∧ U [] := by
      intro a b h1 h2 hb
      simp only [dirLe, decide_eq_true_eq] at h1 h2
      have := joinSlash_eq_of_prefix hb.1 hb.2.1 (String.le_antisymm h2 h1)
      exact ⟨this.2, this.1, this.1 ▸ hb.2.2⟩
    by_cases hu : U []
    · refine (hl hu).imp ?_
      intro a b hab h1 h2 hb
      have := key a b h1 h2 hb
      exact hab ⟨this.1, this.2.1⟩
    · exact List.pairwise_of_forall (fun a b h1 h2 hb => hu (key a b h1 h2 hb).2.2)
  have := pairwise_sortBy dirLe_total dirLe_trans l hin
  refine this.imp ?_
  intro a b hT hb
  exact hT.2 (dirLe_of_prefix hb.1) hb

theorem pairwise_not_of_not_mem_right {α : Type} (a0 b0 : α) (l : List α) (h : b0 ∉ l) :
    l.Pairwise (fun a b => ¬ (a = a0 ∧ b = b0)) := by
  induction l with
  | nil => exact List.Pairwise.nil
  | cons x xs ih =>
    refine List.pairwise_cons.mpr ⟨?_, ih (fun hm => h (List.mem_cons_of_mem _ hm))⟩
    intro b hb hab
    exact h (hab.2 ▸ List.mem_cons_of_mem _ hb)

theorem pairwise_not_of_not_mem_left {α : Type} (a0 b0 : α) (l : List α) (h : a0 ∉ l) :
    l.Pairwise (fun a b => ¬ (a = a0 ∧ b = b0)) := by
  induction l with
  | nil => exact List.Pairwise.nil
  | cons x xs ih =>
    refine List.pairwise_cons.mpr ⟨?_, ih (fun hm => h (List.mem_cons_of_mem _ hm))⟩
    intro b _ hab
    exact h (hab.1 ▸ List.mem_cons_self)

/-! ### exports that may hold nested state point files -/

/-- `GoodExport` without the field `nonested` -/
structure GoodExportN (hash : JVal → String) (E : List (Job × Comps)) : Prop where
  ids : E.Pairwise (fun a b => a.1.id ≠ b.1.id)
  pf : E.Pairwise (fun a b => Incomp a.2 b.2)
  sp : ∀ e ∈ E, ∃ v, lookupFile [fnSp] e.1.files = some (.sp v) ∧ hash v = e.1.id
  nonempty : ∀ e ∈ E, ∀ fc ∈ e.1.files, fc.1 ≠ []

theorem GoodExportN.eq_of_prefix {hash : JVal → String} {E : List (Job × Comps)} (G : GoodExportN hash E)
    {a b : Job × Comps} (ha : a ∈ E) (hb : b ∈ E) (h : a.2 <+: b.2) : a = b := by
  rcases pairwise_cases G.pf ha hb with h' | h' | h'
  · exact h'
  · exact absurd h h'.1
  · exact absurd h h'.2

theorem GoodExportN.eq_of_id {hash : JVal → String} {E : List (Job × Comps)} (G : GoodExportN hash E)
    {a b : Job × Comps} (ha : a ∈ E) (hb : b ∈ E) (h : a.1.id = b.1.id) : a = b := by
  rcases pairwise_cases G.ids ha hb with h' | h' | h'
  · exact h'
  · exact absurd h h'
  · exact absurd h.symm h'

/-- two roots above the same directory are the same root -/
theorem GoodExportN.eq_of_under {hash : JVal → String} {E : List (Job × Comps)} (G : GoodExportN hash E)
    {a b : Job × Comps} (ha : a ∈ E) (hb : b ∈ E) {x : Comps} (h1 : a.2 <+: x) (h2 : b.2 <+: x) : a = b := by
  rcases List.prefix_or_prefix_of_prefix h1 h2 with h | h
  · exact G.eq_of_prefix ha hb h
  · exact (G.eq_of_prefix hb ha h).symm

/-- `x` lies in (or is) an exported job directory -/
def Under (E : List (Job × Comps)) (x : Comps) : Prop := ∃ e ∈ E, e.2 <+: x
/-- `x` is an exported job directory -/
def IsRoot (E : List (Job × Comps)) (x : Comps) : Prop := ∃ e ∈ E, e.2 = x

theorem IsRoot.under {E : List (Job × Comps)} {x : Comps} (h : IsRoot E x) : Under E x := by
  rcases h with ⟨e, he, rfl⟩
  exact ⟨e, he, List.prefix_refl _⟩

theorem lookup_members_rootN {E : List (Job × Comps)} (hpf : E.Pairwise (fun a b => Incomp a.2 b.2))
    {e : Job × Comps} (he : e ∈ E) (p : Comps) :
    lookupFile (e.2 ++ p) (members E) = lookupFile p e.1.files := by
  induction E with
  | nil => cases he
  | cons e0 E' ih =>
    have hpf' := List.pairwise_cons.mp hpf
    have hsplit : members (e0 :: E') = exportBlock e0 ++ members E' := by
      simp [members, List.flatMap_cons]
    rw [hsplit, lookupFile_append]
    rcases List.mem_cons.mp he with rfl | he'
    · rw [lookupFile_block]
      cases hl : lookupFile p e.1.files with
      | some c => rfl
      | none => exact lookup_members_none e.2 p E' (fun x hx => hpf'.1 x hx)
    · have hinc : Incomp e.2 e0.2 := (hpf'.1 e he').symm
      have : lookupFile (e.2 ++ p) (exportBlock e0) = none := by
        have := lookup_members_none e.2 p [e0] (by simpa using hinc)
        simpa [members, List.flatMap_cons] using this
      rw [this]
      exact ih hpf'.2 he'

theorem filesUnder_rootN {E : List (Job × Comps)} (hpf : E.Pairwise (fun a b => Incomp a.2 b.2))
    {e : Job × Comps} (he : e ∈ E) : filesUnder e.2 (members E) = e.1.files := by
  induction E with
  | nil => cases he
  | cons e0 E' ih =>
    have hpf' := List.pairwise_cons.mp hpf
    have hsplit : members (e0 :: E') = exportBlock e0 ++ members E' := by
      simp [members, List.flatMap_cons]
    rw [hsplit, filesUnder_append]
    rcases List.mem_cons.mp he with rfl | he'
    · rw [filesUnder_block_self, filesUnder_members_none e.2 E' (fun x hx => hpf'.1 x hx), List.append_nil]
    · have hinc : Incomp e.2 e0.2 := (hpf'.1 e he').symm
      have : filesUnder e.2 (exportBlock e0) = [] := by
        have := filesUnder_members_none e.2 [e0] (by simpa using hinc)
        simpa [members, List.flatMap_cons] using this
      rw [this, List.nil_append]
      exact ih hpf'.2 he'

theorem readSp_rootN {hash : JVal → String} {E : List (Job × Comps)} (G : GoodExportN hash E)
    {e : Job × Comps} (he : e ∈ E) {v : JVal} (hv : lookupFile [fnSp] e.1.files = some (.sp v)) :
    readSp (members E) e.2 = .ok (some v) := by
  unfold readSp
  rw [lookup_members_rootN G.pf he, hv]

/-- a directory that is not inside an exported job directory holds no state point file -/
theorem readSp_outside {hash : JVal → String} {E : List (Job × Comps)} (G : GoodExportN hash E)
    {x : Comps} (hx : ¬ Under E x) : readSp (members E) x = .ok none := by
  unfold readSp
  have : lookupFile (x ++ [fnSp]) (members E) = none := by
    rw [lookupFile_none_iff]
    intro fc hfc heq
    rcases members_path hfc with ⟨e, he, f, c, hf, rfl⟩
    have hne := G.nonempty e he (f, c) hf
    rcases append_singleton_eq hne heq with ⟨g, _, hxg⟩
    exact hx ⟨e, he, hxg ▸ List.prefix_append _ _⟩
  rw [this]

theorem spfile_mem_membersN {hash : JVal → String} {E : List (Job × Comps)} (G : GoodExportN hash E)
    {e : Job × Comps} (he : e ∈ E) : ∃ c, (e.2 ++ [fnSp], c) ∈ members E := by
  rcases G.sp e he with ⟨v, hv, _⟩
  refine ⟨.sp v, ?_⟩
  unfold members
  refine List.mem_flatMap.mpr ⟨e, he, ?_⟩
  unfold exportBlock
  exact List.mem_map.mpr ⟨([fnSp], .sp v), lookupFile_mem hv, rfl⟩

/-- the mapping entry for `d` if `d` is an exported job directory (nested state point files are
    not looked at) -/
def rootMap (hash : JVal → String) (E : List (Job × Comps)) (d : Comps) : Option (Comps × String × JVal) :=
  if E.any (fun e => decide (e.2 = d)) then mapOf hash (members E) d else none

theorem rootMap_root {hash : JVal → String} {E : List (Job × Comps)} (G : GoodExportN hash E)
    {e : Job × Comps} (he : e ∈ E) :
    ∃ v, rootMap hash E e.2 = some (e.2, e.1.id, v) ∧ lookupFile [fnSp] e.1.files = some (.sp v) := by
  rcases G.sp e he with ⟨v, hv, hh⟩
  refine ⟨v, ?_, hv⟩
  have hany : E.any (fun e' => decide (e'.2 = e.2)) = true :=
    List.any_eq_true.mpr ⟨e, he, by simp⟩
  simp only [rootMap, hany, if_true, mapOf, readSp_rootN G he hv, hh]

theorem rootMap_nonroot {hash : JVal → String} {E : List (Job × Comps)}
    {x : Comps} (hx : ¬ IsRoot E x) : rootMap hash E x = none := by
  have hany : E.any (fun e' => decide (e'.2 = x)) = false := by
    rw [List.any_eq_false]
    intro e he h
    exact hx ⟨e, he, by simpa using h⟩
  simp [rootMap, hany]

theorem rootMap_some {hash : JVal → String} {E : List (Job × Comps)} (G : GoodExportN hash E)
    {x : Comps} {m : Comps × String × JVal} (h : rootMap hash E x = some m) :
    ∃ e ∈ E, e.2 = x ∧ m.1 = x ∧ m.2.1 = e.1.id ∧ toJob (members E) m = e.1 := by
  by_cases hex : IsRoot E x
  · rcases hex with ⟨e, he, rfl⟩
    rcases rootMap_root G he with ⟨v, hm, _⟩
    rw [hm] at h
    cases h
    refine ⟨e, he, rfl, rfl, rfl, ?_⟩
    simp only [toJob, filesUnder_rootN G.pf he]
  · rw [rootMap_nonroot hex] at h
    cases h

/-- the jobs rebuilt from the found roots are exactly the exported jobs -/
theorem found_jobsN {hash : JVal → String} {E : List (Job × Comps)} (G : GoodExportN hash E)
    (dirs : List Comps) (hnd : dirs.Nodup) (hall : ∀ e ∈ E, e.2 ∈ dirs) :
    let R := (dirs.filterMap (rootMap hash E)).map (toJob (members E))
    (∀ j, j ∈ R ↔ j ∈ E.map (·.1)) ∧ (R.map (·.id)).Nodup := by
  intro R
  constructor
  · intro j
    simp only [R, List.mem_map, List.mem_filterMap]
    constructor
    · rintro ⟨m, ⟨d, _, hm⟩, rfl⟩
      rcases rootMap_some G hm with ⟨e, he, _, _, _, hj⟩
      exact ⟨e, he, hj.symm⟩
    · rintro ⟨e, he, rfl⟩
      rcases rootMap_root G he with ⟨v, hm, _⟩
      refine ⟨(e.2, e.1.id, v), ⟨e.2, hall e he, hm⟩, ?_⟩
      simp only [toJob, filesUnder_rootN G.pf he]
  · simp only [R, List.map_map]
    unfold List.Nodup
    rw [List.pairwise_map, List.pairwise_filterMap]
    refine List.Pairwise.imp_of_mem ?_ hnd
    intro d d' _ _ hne m hm m' hm'
    simp only [Function.comp, toJob]
    rcases rootMap_some G hm with ⟨e, he, hed, _, hid, _⟩
    rcases rootMap_some G hm' with ⟨e', he', hed', _, hid', _⟩
    rw [hid, hid']
    intro heq
    have := G.eq_of_id he he' heq
    subst this
    exact hne (hed.symm.trans hed')

/-! ### the zip / tar loop -/

/-- The loop of the zip / tar analyser finds exactly the job roots, for every policy that
      * only fires on directories below a remembered one (`hpol`), and
      * does fire on every directory `x` strictly inside a job directory once a "guard" `y` of `x`
        (a relation `W x y`: the job root for zip, the parent directory for tar) has been remembered,
    when the directory list is duplicate-free, lists parents first, and contains a guard for each of
    its directories strictly inside a job directory. -/
theorem scan_eqN {hash : JVal → String} {E : List (Job × Comps)} (G : GoodExportN hash E) (pol : Policy)
    (W : Comps → Comps → Prop)
    (hpol : ∀ skip x, pol.test skip x = true → ∃ s ∈ skip, s <+: x)
    (hW2 : ∀ x y, W x y → y <+: x ∧ y ≠ x ∧ Under E y)
    (hW3 : ∀ skip x y, W x y → y ∈ skip → pol.test skip x = true)
    (hW4 : pol.addSkipped = true ∨ ∀ x y, W x y → IsRoot E y) :
    ∀ (dirs skip : List Comps) (maps : List (Comps × String × JVal)), dirs.Nodup →
      dirs.Pairwise (fun a b => ¬ BadPair (Under E) a b) →
      (∀ s ∈ skip, Under E s ∧ s ∉ dirs) →
      (∀ x ∈ dirs, Under E x → ¬ IsRoot E x → ∃ y, W x y ∧ (y ∈ skip ∨ y ∈ dirs)) →
      scan pol hash (readSp (members E)) [] dirs skip maps
        = .ok (maps ++ dirs.filterMap (rootMap hash E)) := by
  intro dirs
  induction dirs with
  | nil => intro skip maps _ _ _ _; simp [scan]
  | cons d rest ih =>
    intro skip maps hnd hpw hskip hguard
    have hnd' := List.nodup_cons.mp hnd
    have hpw' := List.pairwise_cons.mp hpw
    have hskip' : ∀ s ∈ skip, Under E s ∧ s ∉ rest :=
      fun s hs => ⟨(hskip s hs).1, fun hm => (hskip s hs).2 (List.mem_cons_of_mem _ hm)⟩
    simp only [scan]
    split
    · rename_i htest
      rcases hpol skip d htest with ⟨s, hs, hsd⟩
      rcases (hskip s hs).1 with ⟨r, hr, hrs⟩
      have hnot : ¬ IsRoot E d := by
        rintro ⟨e, he, heq⟩
        have hre : r = e := G.eq_of_prefix hr he (heq ▸ hrs.trans hsd)
        subst hre
        have hsd' : s = d := by
          apply hsd.eq_of_length_le
          have := hrs.length_le
          rw [heq] at this
          exact this
        exact (hskip s hs).2 (hsd' ▸ List.mem_cons_self)
      rw [List.filterMap_cons, rootMap_nonroot hnot]
      apply ih _ _ hnd'.2 hpw'.2
      · intro s' hs'
        split at hs'
        · rcases List.mem_cons.mp hs' with rfl | hs''
          · exact ⟨⟨r, hr, hrs.trans hsd⟩, hnd'.1⟩
          · exact hskip' s' hs''
        · exact hskip' s' hs'
      · intro x hx hux hnr
        rcases hguard x (List.mem_cons_of_mem _ hx) hux hnr with ⟨y, hW, hy⟩
        refine ⟨y, hW, ?_⟩
        rcases hy with hy | hy
        · left
          split
          · exact List.mem_cons_of_mem _ hy
          · exact hy
        · rcases List.mem_cons.mp hy with rfl | hy'
          · rcases hW4 with h4 | h4
            · left
              simp only [h4, if_true]
              exact List.mem_cons_self
            · exact absurd (h4 x y hW) hnot
          · exact Or.inr hy'
    · rename_i htest
      by_cases hex : IsRoot E d
      · rcases hex with ⟨e, he, rfl⟩
        rcases G.sp e he with ⟨v, hv, hh⟩
        rw [readSp_rootN G he hv]
        simp only [List.contains_nil, Bool.false_eq_true, if_false]
        rw [List.filterMap_cons]
        rcases rootMap_root G he with ⟨v', hm, hv'⟩
        have hvv : v' = v := by
          rw [hv] at hv'
          cases hv'
          rfl
        subst hvv
        rw [hm, hh]
        rw [ih (e.2 :: skip) (maps ++ [(e.2, e.1.id, v')]) hnd'.2 hpw'.2]
        · simp
        · intro s' hs'
          rcases List.mem_cons.mp hs' with rfl | hs''
          · exact ⟨⟨e, he, List.prefix_refl _⟩, hnd'.1⟩
          · exact hskip' s' hs''
        · intro x hx hux hnr
          rcases hguard x (List.mem_cons_of_mem _ hx) hux hnr with ⟨y, hW, hy⟩
          refine ⟨y, hW, ?_⟩
          rcases hy with hy | hy
          · exact Or.inl (List.mem_cons_of_mem _ hy)
          · rcases List.mem_cons.mp hy with rfl | hy'
            · exact Or.inl List.mem_cons_self
            · exact Or.inr hy'
      · have hnu : ¬ Under E d := by
          intro hu
          rcases hguard d List.mem_cons_self hu hex with ⟨y, hW, hy⟩
          have h2 := hW2 d y hW
          rcases hy with hy | hy
          · exact htest (hW3 skip d y hW hy)
          · rcases List.mem_cons.mp hy with rfl | hy'
            · exact h2.2.1 rfl
            · exact hpw'.1 y hy' ⟨h2.1, h2.2.1, h2.2.2⟩
        rw [readSp_outside G hnu, List.filterMap_cons, rootMap_nonroot hex]
        apply ih _ _ hnd'.2 hpw'.2 hskip'
        intro x hx hux hnr
        rcases hguard x (List.mem_cons_of_mem _ hx) hux hnr with ⟨y, hW, hy⟩
        refine ⟨y, hW, ?_⟩
        rcases hy with hy | hy
        · exact Or.inl hy
        · rcases List.mem_cons.mp hy with rfl | hy'
          · exact absurd (hW2 x y hW).2.2 hnu
          · exact Or.inr hy'

/-! ### the directory crawl -/

theorem crawl_specN {hash : JVal → String} {E : List (Job × Comps)} (G : GoodExportN hash E) :
    ∀ (dirs found : List Comps) (seen : List String) (r : ImportResult), dirs.Nodup →
      dirs.Pairwise (fun a b => ¬ BadPair (Under E) a b) → r.err = none →
      (∀ f ∈ found, IsRoot E f ∧ f ∉ dirs) →
      (∀ s ∈ seen, ∃ e ∈ E, e.1.id = s ∧ e.2 ∈ found) →
      (∀ j ∈ r.proj, ∃ e ∈ E, e.1.id = j.id ∧ e.2 ∈ found) →
      (∀ x ∈ dirs, ∀ e ∈ E, e.2 <+: x → e.2 ≠ x → e.2 ∈ found ∨ e.2 ∈ dirs) →
      (crawl hash (readSp (members E)) (members E) dirs found seen r).proj
          = r.proj ++ (dirs.filterMap (rootMap hash E)).map (toJob (members E))
        ∧ (crawl hash (readSp (members E)) (members E) dirs found seen r).err = none := by
  intro dirs
  induction dirs with
  | nil => intro found seen r _ _ hr _ _ _ _; simp [crawl, hr]
  | cons d rest ih =>
    intro found seen r hnd hpw hr hfound hseen hproj hguard
    have hnd' := List.nodup_cons.mp hnd
    have hpw' := List.pairwise_cons.mp hpw
    have hfound' : ∀ f ∈ found, IsRoot E f ∧ f ∉ rest :=
      fun f hf => ⟨(hfound f hf).1, fun hm => (hfound f hf).2 (List.mem_cons_of_mem _ hm)⟩
    have hroot_fresh : ∀ e ∈ E, e.2 = d → ∀ e' ∈ E, e'.2 ∈ found → e'.1.id ≠ e.1.id := by
      intro e he hed e' he' hf' hid
      have := G.eq_of_id he' he hid
      subst this
      exact (hfound _ hf').2 (hed ▸ List.mem_cons_self)
    simp only [crawl]
    split
    · rename_i htest
      simp only [List.any_eq_true, isPrefixB, decide_eq_true_eq] at htest
      rcases htest with ⟨s, hs, hsd⟩
      rcases (hfound s hs).1 with ⟨es, hes, hess⟩
      have hnot : ¬ IsRoot E d := by
        rintro ⟨e, he, heq⟩
        have : es = e := G.eq_of_prefix hes he (by rw [hess, heq]; exact hsd)
        subst this
        exact (hfound s hs).2 (by rw [← hess, heq]; exact List.mem_cons_self)
      rw [List.filterMap_cons, rootMap_nonroot hnot]
      refine ih found seen r hnd'.2 hpw'.2 hr hfound' hseen hproj ?_
      intro x hx e he hex hne
      rcases hguard x (List.mem_cons_of_mem _ hx) e he hex hne with h | h
      · exact Or.inl h
      · rcases List.mem_cons.mp h with h' | h'
        · exact absurd ⟨e, he, h'⟩ hnot
        · exact Or.inr h'
    · rename_i htest
      by_cases hex : IsRoot E d
      · rcases hex with ⟨e, he, hed⟩
        rcases G.sp e he with ⟨v, hv, hh⟩
        have hread : readSp (members E) d = .ok (some v) := hed ▸ readSp_rootN G he hv
        have hm : rootMap hash E d = some (d, e.1.id, v) := by
          rcases rootMap_root G he with ⟨v', hm', hv'⟩
          rw [hv] at hv'
          cases hv'
          rw [← hed]
          exact hm'
        have hseenF : seen.contains e.1.id = false := by
          cases hc : seen.contains e.1.id with
          | false => rfl
          | true =>
            rcases hseen _ (List.contains_iff_mem.mp hc) with ⟨e', he', hid', hf'⟩
            exact absurd hid' (hroot_fresh e he hed e' he' hf')
        have hfresh : hasId e.1.id r.proj = false := by
          rw [hasId_false_iff]
          intro j hj heq
          rcases hproj j hj with ⟨e', he', hid', hf'⟩
          exact hroot_fresh e he hed e' he' hf' (hid'.trans heq)
        have hfiles : filesUnder d (members E) = e.1.files := hed ▸ filesUnder_rootN G.pf he
        rw [hread]
        simp only [hh, hseenF, Bool.false_eq_true, if_false, copyInit, hfresh, initJob, hfiles, hv, if_true]
        simp only [hr, Option.isSome_none, Bool.false_eq_true, if_false]
        have := ih (d :: found) (e.1.id :: seen)
          { proj := r.proj ++ [⟨e.1.id, e.1.files⟩], err := none,
            writes := r.writes ++ writesOf e.1.id e.1.files ++ [] } hnd'.2 hpw'.2 rfl
          (by
            intro f hf
            rcases List.mem_cons.mp hf with rfl | hf'
            · exact ⟨⟨e, he, hed⟩, hnd'.1⟩
            · exact hfound' f hf')
          (by
            intro s hs
            rcases List.mem_cons.mp hs with rfl | hs'
            · exact ⟨e, he, rfl, by rw [hed]; exact List.mem_cons_self⟩
            · rcases hseen s hs' with ⟨e', he', hid', hf'⟩
              exact ⟨e', he', hid', List.mem_cons_of_mem _ hf'⟩)
          (by
            intro j hj
            rcases List.mem_append.mp hj with hj' | hj'
            · rcases hproj j hj' with ⟨e', he', hid', hf'⟩
              exact ⟨e', he', hid', List.mem_cons_of_mem _ hf'⟩
            · simp only [List.mem_singleton] at hj'
              subst hj'
              exact ⟨e, he, rfl, by rw [hed]; exact List.mem_cons_self⟩)
          (by
            intro x hx e' he' hex' hne'
            rcases hguard x (List.mem_cons_of_mem _ hx) e' he' hex' hne' with h | h
            · exact Or.inl (List.mem_cons_of_mem _ h)
            · rcases List.mem_cons.mp h with h' | h'
              · exact Or.inl (h' ▸ List.mem_cons_self)
              · exact Or.inr h')
        rcases this with ⟨h1, h2⟩
        rw [h1, h2, List.filterMap_cons, hm]
        simp [toJob, hfiles]
      · have hnu : ¬ Under E d := by
          rintro ⟨e, he, hed⟩
          have hne : e.2 ≠ d := fun h => hex ⟨e, he, h⟩
          rcases hguard d List.mem_cons_self e he hed hne with h | h
          · apply htest
            simp only [List.any_eq_true, isPrefixB, decide_eq_true_eq]
            exact ⟨e.2, h, hed⟩
          · rcases List.mem_cons.mp h with h' | h'
            · exact hne h'
            · exact hpw'.1 e.2 h' ⟨hed, hne, ⟨e, he, List.prefix_refl _⟩⟩
        rw [readSp_outside G hnu, List.filterMap_cons, rootMap_nonroot hex]
        refine ih found seen r hnd'.2 hpw'.2 hr hfound' hseen hproj ?_
        intro x hx e he hex' hne
        rcases hguard x (List.mem_cons_of_mem _ hx) e he hex' hne with h | h
        · exact Or.inl h
        · rcases List.mem_cons.mp h with h' | h'
          · exact absurd ⟨e, he, h'⟩ hex
          · exact Or.inr h'

/-! ### the pair `[""]`, `[]` in the unsorted directory lists -/

/-- the job placed at the archive root (if any) has no entry whose first component is the empty name -/
def TopNamedE (E : List (Job × Comps)) : Prop :=
  ∀ e ∈ E, e.2 = [] → ∀ fc ∈ e.1.files, fc.1.head? ≠ some ""

theorem no_empty_top {hash : JVal → String} {E : List (Job × Comps)} (G : GoodExportN hash E)
    (htop : TopNamedE E) (hu : Under E []) {fc : Comps × Content} (hfc : fc ∈ members E)
    (hp : [""] <+: fc.1) : False := by
  rcases hu with ⟨e, he, hnil⟩
  have he2 : e.2 = [] := List.prefix_nil.mp hnil
  rcases members_path hfc with ⟨e', he', f, c, hf, rfl⟩
  have : e = e' := G.eq_of_prefix he he' (he2 ▸ List.nil_prefix)
  subst this
  simp only [he2, List.nil_append] at hp
  rcases hp with ⟨t, ht⟩
  exact htop e he he2 (f, c) hf (by simp [← ht])

theorem zip_input_ok {hash : JVal → String} {E : List (Job × Comps)} (G : GoodExportN hash E)
    (htop : TopNamedE E) (hu : Under E []) :
    (dedup ((members E).map (fun fc => dirnameC fc.1))).Pairwise (fun a b => ¬ (a = [""] ∧ b = [])) := by
  apply pairwise_not_of_not_mem_left
  intro hm
  simp only [mem_dedup, List.mem_map] at hm
  rcases hm with ⟨fc, hfc, hd⟩
  apply no_empty_top G htop hu hfc
  rw [← hd]
  exact List.dropLast_prefix _

theorem dir_input_ok {hash : JVal → String} {E : List (Job × Comps)} (G : GoodExportN hash E)
    (htop : TopNamedE E) (hu : Under E []) :
    (allDirs (members E)).Pairwise (fun a b => ¬ (a = [""] ∧ b = [])) := by
  apply pairwise_not_of_not_mem_left
  intro hm
  simp only [allDirs, mem_dedup, List.mem_cons, List.mem_flatMap, List.mem_append, List.mem_map,
    List.mem_range] at hm
  rcases hm with hm | ⟨fc, hfc, hm⟩
  · cases hm
  · apply no_empty_top G htop hu hfc
    rcases hm with ⟨i, _, hi⟩ | hm
    · rw [← hi]
      exact List.take_prefix _ _
    · split at hm
      · simp only [List.mem_singleton] at hm
        rw [hm]
        exact List.prefix_refl _
      · cases hm

theorem mem_subDirsOf {s f : Comps} (h : s ∈ subDirsOf f) : s ≠ [] ∧ s <+: f := by
  simp only [subDirsOf, List.mem_map, List.mem_range] at h
  rcases h with ⟨i, hi, rfl⟩
  refine ⟨?_, List.take_prefix _ _⟩
  intro h0
  have := congrArg List.length h0
  simp only [List.length_take, List.length_nil] at this
  omega

theorem subDirsOf_mem {s f : Comps} (h0 : s ≠ []) (hp : s <+: f) (hne : s ≠ f) : s ∈ subDirsOf f := by
  have htake := List.prefix_iff_eq_take.mp hp
  have hpos : 0 < s.length := List.length_pos_iff.mpr h0
  have hlt : s.length < f.length := by
    rcases Nat.lt_or_ge s.length f.length with h | h
    · exact h
    · exact absurd (by rw [htake, List.take_of_length_le h]) hne
  simp only [subDirsOf, List.mem_map, List.mem_range]
  refine ⟨s.length - 1, by omega, ?_⟩
  have : s.length - 1 + 1 = s.length := by omega
  rw [this, ← htake]

theorem mem_entryDirs {s : Comps} {fc : Comps × Content} (hfc : fc.1 ≠ []) (h : s ∈ entryDirs fc) :
    s ≠ [] ∧ s <+: fc.1 := by
  unfold entryDirs at h
  split at h
  · rcases List.mem_append.mp h with h' | h'
    · exact mem_subDirsOf h'
    · simp only [List.mem_singleton] at h'
      subst h'
      exact ⟨hfc, List.prefix_refl _⟩
  · exact mem_subDirsOf h

theorem subDirsOf_sub_entryDirs {s : Comps} {fc : Comps × Content} (h : s ∈ subDirsOf fc.1) :
    s ∈ entryDirs fc := by
  unfold entryDirs
  split
  · exact List.mem_append_left _ h
  · exact h

/-- the directory members of a tar export contain, with every directory strictly inside a job
    directory, its parent directory -/
theorem dirBlock_parent {e : Job × Comps} (hne : ∀ fc ∈ e.1.files, fc.1 ≠ []) {x : Comps}
    (hx : x ∈ dirBlock e) (hxe : x ≠ e.2) : x.dropLast ∈ dirBlock e ∧ e.2 <+: x.dropLast ∧ x ≠ [] := by
  simp only [dirBlock, mem_dedup, List.mem_cons, List.mem_map, List.mem_flatMap] at hx ⊢
  rcases hx with rfl | ⟨s, ⟨fc, hfc, hs⟩, rfl⟩
  · exact absurd rfl hxe
  · have hs' := mem_entryDirs (hne fc hfc) hs
    have hdl : (e.2 ++ s).dropLast = e.2 ++ s.dropLast := List.dropLast_append_of_ne_nil hs'.1
    rw [hdl]
    refine ⟨?_, List.prefix_append _ _, by simp [hs'.1]⟩
    by_cases h0 : s.dropLast = []
    · left
      simp [h0]
    · right
      refine ⟨s.dropLast, ⟨fc, hfc, ?_⟩, rfl⟩
      apply subDirsOf_sub_entryDirs
      apply subDirsOf_mem h0 ((List.dropLast_prefix s).trans hs'.2)
      intro heq
      have h1 := hs'.2.length_le
      have h2 := congrArg List.length heq
      have h3 : 0 < s.length := List.length_pos_iff.mpr hs'.1
      simp only [List.length_dropLast] at h2
      omega

theorem tar_input_ok {hash : JVal → String} {E : List (Job × Comps)} (G : GoodExportN hash E) :
    (dirMembers E).Pairwise (fun a b => ¬ (a = [""] ∧ b = [])) := by
  have hpf := G.pf
  have hne := G.nonempty
  clear G
  induction E with
  | nil => simp [dirMembers]
  | cons e0 E' ih =>
    have hpf' := List.pairwise_cons.mp hpf
    have hsplit : dirMembers (e0 :: E') = dirBlock e0 ++ dirMembers E' := by
      simp [dirMembers, List.flatMap_cons]
    rw [hsplit, List.pairwise_append]
    refine ⟨?_, ih hpf'.2 (fun e he => hne e (List.mem_cons_of_mem _ he)), ?_⟩
    · -- inside one block the root comes first
      have hrest : ([] : Comps) ∉ (e0.1.files.flatMap entryDirs).map (e0.2 ++ ·) := by
        intro hm
        simp only [List.mem_map, List.mem_flatMap] at hm
        rcases hm with ⟨s, ⟨fc, hfc, hs⟩, h0⟩
        have hs' := mem_entryDirs (hne e0 List.mem_cons_self fc hfc) hs
        exact hs'.1 (List.append_eq_nil_iff.mp h0).2
      unfold dirBlock
      simp only [dedup]
      split
      · apply pairwise_not_of_not_mem_right
        rw [mem_dedup]
        exact hrest
      · refine List.pairwise_cons.mpr ⟨?_, ?_⟩
        · intro b hb hab
          rw [mem_dedup] at hb
          exact hrest (hab.2 ▸ hb)
        · apply pairwise_not_of_not_mem_right
          rw [mem_dedup]
          exact hrest
    · intro a ha b hb hab
      simp only [dirMembers, List.mem_flatMap] at hb
      rcases hb with ⟨e', he', hb⟩
      have h1 := mem_dirBlock hb
      rw [hab.2] at h1
      have : e'.2 = [] := List.prefix_nil.mp h1
      exact (hpf'.1 e' he').2 (this ▸ List.nil_prefix)

/-! ### zip -/

theorem zip_dirs_okN {hash : JVal → String} {E : List (Job × Comps)} (G : GoodExportN hash E) :
    let dirs := sortDirs (dedup ((members E).map (fun fc => dirnameC fc.1)))
    dirs.Nodup ∧ ∀ e ∈ E, e.2 ∈ dirs := by
  intro dirs
  refine ⟨nodup_sortBy _ _ (nodup_dedup _), ?_⟩
  intro e he
  rcases spfile_mem_membersN G he with ⟨c, hc⟩
  simp only [dirs, sortDirs, mem_sortBy, mem_dedup, List.mem_map]
  exact ⟨(e.2 ++ [fnSp], c), hc, by simp [dirnameC]⟩

/-- zip without `NoNestedSp`: a nested state point file is harmless because the job root is looked
    at first (`sorted`) and everything below it is skipped -/
theorem zip_roundtripN {hash : JVal → String} {E : List (Job × Comps)} (G : GoodExportN hash E)
    (htop : TopNamedE E) :
    (importZip hash .none [] (members E)).err = none
    ∧ (∀ j, j ∈ (importZip hash .none [] (members E)).proj ↔ j ∈ E.map (·.1))
    ∧ ((importZip hash .none [] (members E)).proj.map (·.id)).Nodup := by
  have hd := zip_dirs_okN G
  have hpw := sortDirs_parentsFirst (Under E) _ (zip_input_ok G htop)
  have hscan := scan_eqN G zipPolicy (fun x y => IsRoot E y ∧ y <+: x ∧ y ≠ x) zipPolicy_ok
    (fun x y h => ⟨h.2.1, h.2.2, h.1.under⟩)
    (by
      intro skip x y h hy
      simp only [zipPolicy, List.any_eq_true, isPrefixB, decide_eq_true_eq]
      exact ⟨y, hy, h.2.1⟩)
    (Or.inr (fun x y h => h.1)) _ [] [] hd.1 hpw (by intro s hs; cases hs)
    (by
      intro x _ hux hnr
      rcases hux with ⟨e, he, hex⟩
      exact ⟨e.2, ⟨⟨e, he, rfl⟩, hex, fun h => hnr ⟨e, he, h⟩⟩, Or.inr (hd.2 e he)⟩)
  have hf := found_jobsN G _ hd.1 hd.2
  simp only [List.nil_append] at hscan
  have hids : idsNodup ((List.filterMap (rootMap hash E)
      (sortDirs (dedup ((members E).map (fun fc => dirnameC fc.1))))).map (·.2.1)) = true := by
    rw [idsNodup_iff, ← maps_ids (members E)]
    exact hf.2
  unfold importZip
  simp only [schemaFn_none, List.map_nil, hscan, hids, Bool.not_true, Bool.false_eq_true, if_false]
  rcases zipCopy_spec (members E) (List.filterMap (rootMap hash E)
      (sortDirs (dedup ((members E).map (fun fc => dirnameC fc.1))))) ⟨[], none, []⟩ with ⟨h1, h2⟩
  rw [h1, h2]
  exact ⟨rfl, hf.1, hf.2⟩

/-! ### tar -/

theorem tar_dirs_okN {hash : JVal → String} {E : List (Job × Comps)} (G : GoodExportN hash E) :
    (sortDirs (dirMembers E)).Nodup ∧ ∀ e ∈ E, e.2 ∈ sortDirs (dirMembers E) := by
  refine ⟨nodup_sortBy _ _ (nodup_dirMembers G.pf), ?_⟩
  intro e he
  simp only [sortDirs, mem_sortBy, dirMembers, List.mem_flatMap]
  exact ⟨e, he, root_mem_dirBlock e⟩

/-- tar without `NoNestedSp` (and without any condition on names): every sub-directory of a job
    directory is skipped because its parent directory — a member of the archive, sorted before it — was
    identified or skipped -/
theorem tar_roundtripN {hash : JVal → String} {E : List (Job × Comps)} (G : GoodExportN hash E) :
    (importTar hash .none [] (members E) (dirMembers E)).err = none
    ∧ (∀ j, j ∈ (importTar hash .none [] (members E) (dirMembers E)).proj ↔ j ∈ E.map (·.1))
    ∧ ((importTar hash .none [] (members E) (dirMembers E)).proj.map (·.id)).Nodup := by
  have hd := tar_dirs_okN G
  have hpw := sortDirs_parentsFirst (Under E) _ (fun _ => tar_input_ok G)
  have hscan := scan_eqN G tarPolicy (fun x y => y = x.dropLast ∧ x ≠ [] ∧ Under E y) tarPolicy_ok
    (by
      rintro x y ⟨rfl, hx, hu⟩
      refine ⟨List.dropLast_prefix _, ?_, hu⟩
      intro h
      have := congrArg List.length h
      have hpos : 0 < x.length := List.length_pos_iff.mpr hx
      simp only [List.length_dropLast] at this
      omega)
    (by
      rintro skip x y ⟨rfl, _, _⟩ hy
      simp only [tarPolicy]
      exact List.contains_iff_mem.mpr hy)
    (Or.inl rfl) _ [] [] hd.1 hpw (by intro s hs; cases hs)
    (by
      intro x hx hux hnr
      rcases hux with ⟨e, he, hex⟩
      simp only [sortDirs, mem_sortBy, dirMembers, List.mem_flatMap] at hx
      rcases hx with ⟨e', he', hx⟩
      have : e = e' := G.eq_of_under he he' hex (mem_dirBlock hx)
      subst this
      have hp := dirBlock_parent (G.nonempty e he) hx (fun h => hnr ⟨e, he, h.symm⟩)
      refine ⟨x.dropLast, ⟨rfl, hp.2.2, ⟨e, he, hp.2.1⟩⟩, Or.inr ?_⟩
      simp only [sortDirs, mem_sortBy, dirMembers, List.mem_flatMap]
      exact ⟨e, he, hp.1⟩)
  have hf := found_jobsN G _ hd.1 hd.2
  simp only [List.nil_append] at hscan
  have hnd : ((List.filterMap (rootMap hash E) (sortDirs (dirMembers E))).map (·.2.1)).Nodup := by
    rw [← maps_ids (members E)]
    exact hf.2
  have hids := (idsNodup_iff _).mpr hnd
  unfold importTar
  simp only [schemaFn_none, List.map_nil, hscan, hids, Bool.not_true, Bool.false_eq_true, if_false]
  have hcopy := tarCopy_spec hash (members E)
    (List.filterMap (rootMap hash E) (sortDirs (dirMembers E))) ⟨[], none, []⟩ rfl
    (by
      intro m hm
      rcases List.mem_filterMap.mp hm with ⟨d, _, hmd⟩
      rcases rootMap_some G hmd with ⟨e, he, hed, hm1, hid, _⟩
      rcases G.sp e he with ⟨v, hv, hh⟩
      refine ⟨v, ?_, by rw [hh, hid]⟩
      rw [hm1, ← hed, filesUnder_rootN G.pf he]
      exact hv)
    (by simpa using hnd)
  rcases hcopy with ⟨h1, h2⟩
  rw [h1, h2]
  exact ⟨rfl, hf.1, hf.2⟩

/-! ### directory -/

theorem walkOrder_okN {hash : JVal → String} {E : List (Job × Comps)} (G : GoodExportN hash E) :
    (walkOrder (members E)).Nodup ∧ ∀ e ∈ E, e.2 ∈ walkOrder (members E) := by
  refine ⟨nodup_sortBy _ _ (nodup_dedup _), ?_⟩
  intro e he
  rcases spfile_mem_membersN G he with ⟨c, hc⟩
  simp only [walkOrder, sortDirs, mem_sortBy, allDirs, mem_dedup, List.mem_cons, List.mem_flatMap]
  refine Or.inr ⟨(e.2 ++ [fnSp], c), hc, List.mem_append_left _ ?_⟩
  exact List.mem_map.mpr ⟨e.2.length, by simp, by simp⟩

/-- directory without `NoNestedSp`, for the model's own (sorted, parents first) visiting order -/
theorem dir_roundtripN {hash : JVal → String} {E : List (Job × Comps)} (G : GoodExportN hash E)
    (htop : TopNamedE E) :
    (importDir hash .none [] (members E) (walkOrder (members E))).err = none
    ∧ (∀ j, j ∈ (importDir hash .none [] (members E) (walkOrder (members E))).proj ↔ j ∈ E.map (·.1))
    ∧ ((importDir hash .none [] (members E) (walkOrder (members E))).proj.map (·.id)).Nodup := by
  have hd := walkOrder_okN G
  have hpw : (walkOrder (members E)).Pairwise (fun a b => ¬ BadPair (Under E) a b) :=
    sortDirs_parentsFirst (Under E) _ (dir_input_ok G htop)
  have hf := found_jobsN G _ hd.1 hd.2
  have hc := crawl_specN G (walkOrder (members E)) [] [] ⟨[], none, []⟩ hd.1 hpw rfl
    (by intro f hf; cases hf) (by intro s hs; cases hs) (by intro j hj; cases hj)
    (fun x _ e he _ _ => Or.inr (hd.2 e he))
  unfold importDir
  rw [schemaFn_none, hc.1, hc.2]
  exact ⟨rfl, hf.1, hf.2⟩

/-! ### from a project and a path list -/

/-- no entry of a job has the empty string as its first path component (a directory or file
    called `""` directly in the job directory: impossible on a file system, possible in the model) -/
def TopNamed (P : Project) : Prop := ∀ j ∈ P, ∀ fc ∈ j.files, fc.1.head? ≠ some ""

theorem goodExportN_of {hash : JVal → String} {P : Project} {ds : List Comps}
    (hwf : WF hash P) (hpf : PrefixFree ds) : GoodExportN hash (P.zip ds) where
  ids := by
    have : P.Pairwise (fun a b => a.id ≠ b.id) := by
      have := hwf.ids
      unfold List.Nodup at this
      rwa [List.pairwise_map] at this
    exact pairwise_zip_left ds this
  pf := pairwise_zip_right P hpf
  sp := fun e he => hwf.sp e.1 (List.of_mem_zip (a := e.1) (b := e.2) he).1
  nonempty := fun e he => hwf.nonempty e.1 (List.of_mem_zip (a := e.1) (b := e.2) he).1

theorem topNamedE_of {P : Project} {ds : List Comps} (h : [] ∈ ds → TopNamed P) : TopNamedE (P.zip ds) := by
  intro e he he2 fc hfc
  have hm := List.of_mem_zip (a := e.1) (b := e.2) he
  exact h (he2 ▸ hm.2) e.1 hm.1 fc hfc

end Signac.IE

/-
  The executable float-token check of Signac/FloatTok.lean decides the hypothesis of the C01
  injectivity theorems.
-/
import Signac.FloatTok
import Signac.Proofs.EncInj
namespace Signac

theorem floatTokB_iff (r : String) : floatTokB r = true ↔ FloatTok r := by
  unfold floatTokB FloatTok floatTokCharsB intTokCharsB floatTokChars
  simp only [Bool.and_eq_true, Bool.not_eq_true', List.isEmpty_eq_false_iff, List.all_eq_true,
    List.contains_eq_mem, decide_eq_true_eq, List.any_eq_true, Bool.not_eq_true', decide_eq_false_iff_not,
    ne_eq, and_assoc]

mutual
  /-- every float leaf's `(num, exp)` is what `fv` reads off its repr -/
  def fvAgreesB (fv : String → Int × Nat) : JVal → Bool
    | .flt n e r => decide (fv r = (n, e))
    | .arr xs => fvAgreesListB fv xs
    | .obj kvs => fvAgreesObjB fv kvs
    | _ => true
  def fvAgreesListB (fv : String → Int × Nat) : List JVal → Bool
    | [] => true
    | x :: xs => fvAgreesB fv x && fvAgreesListB fv xs
  def fvAgreesObjB (fv : String → Int × Nat) : List (String × JVal) → Bool
    | [] => true
    | (_, v) :: rest => fvAgreesB fv v && fvAgreesObjB fv rest
end

mutual
  theorem floatsOk_iff (fv : String → Int × Nat) :
      (v : JVal) → (FloatsOk fv v ↔ floatsTokB v = true ∧ fvAgreesB fv v = true)
    | .flt n e r => by simp [FloatsOk, floatsTokB, fvAgreesB, floatTokB_iff]
    | .arr xs => by simpa [FloatsOk, floatsTokB, fvAgreesB] using floatsOkList_iff fv xs
    | .obj kvs => by simpa [FloatsOk, floatsTokB, fvAgreesB] using floatsOkObj_iff fv kvs
    | .null => by simp [FloatsOk, floatsTokB, fvAgreesB]
    | .bool _ => by simp [FloatsOk, floatsTokB, fvAgreesB]
    | .int _ => by simp [FloatsOk, floatsTokB, fvAgreesB]
    | .str _ => by simp [FloatsOk, floatsTokB, fvAgreesB]
  theorem floatsOkList_iff (fv : String → Int × Nat) :
      (xs : List JVal) → (FloatsOkList fv xs ↔ floatsTokListB xs = true ∧ fvAgreesListB fv xs = true)
    | [] => by simp [FloatsOkList, floatsTokListB, fvAgreesListB]
    | x :: xs => by
      simp only [FloatsOkList, floatsTokListB, fvAgreesListB, Bool.and_eq_true, floatsOk_iff fv x,
        floatsOkList_iff fv xs]
      constructor
      · rintro ⟨⟨a, b⟩, c, d⟩; exact ⟨⟨a, c⟩, b, d⟩
      · rintro ⟨⟨a, c⟩, b, d⟩; exact ⟨⟨a, b⟩, c, d⟩
  theorem floatsOkObj_iff (fv : String → Int × Nat) :
      (kvs : List (String × JVal)) → (FloatsOkObj fv kvs ↔ floatsTokObjB kvs = true ∧ fvAgreesObjB fv kvs = true)
    | [] => by simp [FloatsOkObj, floatsTokObjB, fvAgreesObjB]
    | (k, v) :: r => by
      simp only [FloatsOkObj, floatsTokObjB, fvAgreesObjB, Bool.and_eq_true, floatsOk_iff fv v,
        floatsOkObj_iff fv r]
      constructor
      · rintro ⟨⟨a, b⟩, c, d⟩; exact ⟨⟨a, c⟩, b, d⟩
      · rintro ⟨⟨a, c⟩, b, d⟩; exact ⟨⟨a, b⟩, c, d⟩
end

end Signac

/-
  Helper lemmas for C16, continuing Signac/Proofs/IENested.lean (no `NoNestedSp`):

    * the directory import for ANY admissible visiting order (`ParentsFirst`), not only the model's
      own `walkOrder`;
    * "import never overwrites" (DestinationExistsError) for exports that may hold nested state
      point files: `scan_existsN`, `crawl_existsN`, `zip_existsN`, `tar_existsN`, `dir_existsN`;
    * `PathsWF` (no empty path component) implies `TopNamed`.
-/
import Signac.ImportExport
import Signac.Proofs.IEChecks
import Signac.Proofs.IERoundtrip
import Signac.Proofs.IEExists
import Signac.Proofs.IENested
namespace Signac.IE
open Signac

/-! ### admissible visiting orders -/

/-- A visiting order lists parents before children: no directory is followed, later in the list, by
    one of its proper ancestors.
    `os.walk(top, topdown=True)` ALWAYS produces such an order, whatever the listing order inside
    each directory is: it yields a directory, and only afterwards descends into (a subset of) the
    sub-directories it has just listed, so every proper ancestor of a yielded directory was yielded
    earlier.  `sorted(names)` produces such an order whenever no name component is empty
    (`walkOrder_parentsFirst`). -/
def ParentsFirst (order : List Comps) : Prop :=
  order.Pairwise (fun a b => ¬ (b <+: a ∧ b ≠ a))

theorem ParentsFirst.noBadPair {order : List Comps} (h : ParentsFirst order) (U : Comps → Prop) :
    order.Pairwise (fun a b => ¬ BadPair U a b) :=
  List.Pairwise.imp (fun hab hb => hab ⟨hb.1, hb.2.1⟩) h

/-- the model's own order (`sorted`) is admissible for every tree in which no top-level entry has the
    empty name -/
theorem walkOrder_parentsFirst (files : List (Comps × Content))
    (h : ∀ fc ∈ files, fc.1.head? ≠ some "") : ParentsFirst (walkOrder files) := by
  have hin : (allDirs files).Pairwise (fun a b => ¬ (a = [""] ∧ b = [])) := by
    apply pairwise_not_of_not_mem_left
    intro hm
    simp only [allDirs, mem_dedup, List.mem_cons, List.mem_flatMap, List.mem_append, List.mem_map,
      List.mem_range] at hm
    rcases hm with hm | ⟨fc, hfc, hm⟩
    · cases hm
    · have hp : [""] <+: fc.1 := by
        rcases hm with ⟨i, _, hi⟩ | hm
        · rw [← hi]
          exact List.take_prefix _ _
        · split at hm
          · simp only [List.mem_singleton] at hm
            rw [hm]
            exact List.prefix_refl _
          · cases hm
      rcases hp with ⟨t, ht⟩
      exact h fc hfc (by simp [← ht])
  have := sortDirs_parentsFirst (fun _ => True) (allDirs files) (fun _ => hin)
  exact List.Pairwise.imp (fun hab hb => hab ⟨hb.1, hb.2, trivial⟩) this

/-- directory import without `NoNestedSp`, for every duplicate-free order that reaches every job root
    and in which no directory strictly inside a job directory precedes that job directory -/
theorem dir_roundtrip_order {hash : JVal → String} {E : List (Job × Comps)} (G : GoodExportN hash E)
    (order : List Comps) (hnd : order.Nodup) (hall : ∀ e ∈ E, e.2 ∈ order)
    (hpw : order.Pairwise (fun a b => ¬ BadPair (Under E) a b)) :
    (importDir hash .none [] (members E) order).err = none
    ∧ (∀ j, j ∈ (importDir hash .none [] (members E) order).proj ↔ j ∈ E.map (·.1))
    ∧ ((importDir hash .none [] (members E) order).proj.map (·.id)).Nodup := by
  have hf := found_jobsN G order hnd hall
  have hc := crawl_specN G order [] [] ⟨[], none, []⟩ hnd hpw rfl
    (by intro f hf; cases hf) (by intro s hs; cases hs) (by intro j hj; cases hj)
    (fun x _ e he _ _ => Or.inr (hall e he))
  unfold importDir
  rw [schemaFn_none, hc.1, hc.2]
  exact ⟨rfl, hf.1, hf.2⟩

theorem dir_roundtrip_anyorder {hash : JVal → String} {E : List (Job × Comps)} (G : GoodExportN hash E)
    (order : List Comps) (hnd : order.Nodup) (hpf : ParentsFirst order) (hall : ∀ e ∈ E, e.2 ∈ order) :
    (importDir hash .none [] (members E) order).err = none
    ∧ (∀ j, j ∈ (importDir hash .none [] (members E) order).proj ↔ j ∈ E.map (·.1))
    ∧ ((importDir hash .none [] (members E) order).proj.map (·.id)).Nodup :=
  dir_roundtrip_order G order hnd hall (hpf.noBadPair _)

/-! ### DestinationExistsError: the zip / tar loop -/

theorem scan_existsN {hash : JVal → String} {E : List (Job × Comps)} (G : GoodExportN hash E) (pol : Policy)
    (W : Comps → Comps → Prop)
    (hpol : ∀ skip x, pol.test skip x = true → ∃ s ∈ skip, s <+: x)
    (hW2 : ∀ x y, W x y → y <+: x ∧ y ≠ x ∧ Under E y)
    (hW3 : ∀ skip x y, W x y → y ∈ skip → pol.test skip x = true)
    (hW4 : pol.addSkipped = true ∨ ∀ x y, W x y → IsRoot E y) (dstIds : List String) :
    ∀ (dirs skip : List Comps) (maps : List (Comps × String × JVal)), dirs.Nodup →
      dirs.Pairwise (fun a b => ¬ BadPair (Under E) a b) →
      (∀ s ∈ skip, Under E s ∧ s ∉ dirs) →
      (∀ x ∈ dirs, Under E x → ¬ IsRoot E x → ∃ y, W x y ∧ (y ∈ skip ∨ y ∈ dirs)) →
      (∃ e ∈ E, e.2 ∈ dirs ∧ dstIds.contains e.1.id = true) →
      scan pol hash (readSp (members E)) dstIds dirs skip maps = .error .destinationExists := by
  intro dirs
  induction dirs with
  | nil =>
    intro skip maps _ _ _ _ h
    rcases h with ⟨e, _, h, _⟩
    cases h
  | cons d rest ih =>
    intro skip maps hnd hpw hskip hguard hw
    rcases hw with ⟨ew, hew, hewd, hewc⟩
    have hnd' := List.nodup_cons.mp hnd
    have hpw' := List.pairwise_cons.mp hpw
    have hskip' : ∀ s ∈ skip, Under E s ∧ s ∉ rest :=
      fun s hs => ⟨(hskip s hs).1, fun hm => (hskip s hs).2 (List.mem_cons_of_mem _ hm)⟩
    simp only [scan]
    split
    · rename_i htest
      rcases hpol skip d htest with ⟨s, hs, hsd⟩
      rcases (hskip s hs).1 with ⟨r, hr, hrs⟩
      have hnot : ¬ IsRoot E d := by
        rintro ⟨e, he, heq⟩
        have hre : r = e := G.eq_of_prefix hr he (heq ▸ hrs.trans hsd)
        subst hre
        have hsd' : s = d := by
          apply hsd.eq_of_length_le
          have := hrs.length_le
          rw [heq] at this
          exact this
        exact (hskip s hs).2 (hsd' ▸ List.mem_cons_self)
      have hrest : ew.2 ∈ rest := by
        rcases List.mem_cons.mp hewd with h | h
        · exact absurd ⟨ew, hew, h⟩ hnot
        · exact h
      apply ih _ _ hnd'.2 hpw'.2 _ _ ⟨ew, hew, hrest, hewc⟩
      · intro s' hs'
        split at hs'
        · rcases List.mem_cons.mp hs' with rfl | hs''
          · exact ⟨⟨r, hr, hrs.trans hsd⟩, hnd'.1⟩
          · exact hskip' s' hs''
        · exact hskip' s' hs'
      · intro x hx hux hnr
        rcases hguard x (List.mem_cons_of_mem _ hx) hux hnr with ⟨y, hW, hy⟩
        refine ⟨y, hW, ?_⟩
        rcases hy with hy | hy
        · left
          split
          · exact List.mem_cons_of_mem _ hy
          · exact hy
        · rcases List.mem_cons.mp hy with rfl | hy'
          · rcases hW4 with h4 | h4
            · left
              simp only [h4, if_true]
              exact List.mem_cons_self
            · exact absurd (h4 x y hW) hnot
          · exact Or.inr hy'
    · rename_i htest
      by_cases hex : IsRoot E d
      · rcases hex with ⟨e, he, hed⟩
        rcases G.sp e he with ⟨v, hv, hh⟩
        have hread : readSp (members E) d = .ok (some v) := hed ▸ readSp_rootN G he hv
        rw [hread]
        simp only [hh]
        split
        · rfl
        · rename_i hc
          have hne : ew.2 ≠ d := by
            intro heq
            have : ew = e := G.eq_of_prefix hew he (by rw [heq, hed]; exact List.prefix_refl _)
            subst this
            exact hc hewc
          have hrest : ew.2 ∈ rest := by
            rcases List.mem_cons.mp hewd with h | h
            · exact absurd h hne
            · exact h
          apply ih _ _ hnd'.2 hpw'.2 _ _ ⟨ew, hew, hrest, hewc⟩
          · intro s' hs'
            rcases List.mem_cons.mp hs' with rfl | hs''
            · exact ⟨⟨e, he, by rw [hed]; exact List.prefix_refl _⟩, hnd'.1⟩
            · exact hskip' s' hs''
          · intro x hx hux hnr
            rcases hguard x (List.mem_cons_of_mem _ hx) hux hnr with ⟨y, hW, hy⟩
            refine ⟨y, hW, ?_⟩
            rcases hy with hy | hy
            · exact Or.inl (List.mem_cons_of_mem _ hy)
            · rcases List.mem_cons.mp hy with rfl | hy'
              · exact Or.inl List.mem_cons_self
              · exact Or.inr hy'
      · have hnu : ¬ Under E d := by
          intro hu
          rcases hguard d List.mem_cons_self hu hex with ⟨y, hW, hy⟩
          have h2 := hW2 d y hW
          rcases hy with hy | hy
          · exact htest (hW3 skip d y hW hy)
          · rcases List.mem_cons.mp hy with rfl | hy'
            · exact h2.2.1 rfl
            · exact hpw'.1 y hy' ⟨h2.1, h2.2.1, h2.2.2⟩
        rw [readSp_outside G hnu]
        have hrest : ew.2 ∈ rest := by
          rcases List.mem_cons.mp hewd with h | h
          · exact absurd ⟨ew, hew, h⟩ hex
          · exact h
        apply ih _ _ hnd'.2 hpw'.2 hskip' _ ⟨ew, hew, hrest, hewc⟩
        intro x hx hux hnr
        rcases hguard x (List.mem_cons_of_mem _ hx) hux hnr with ⟨y, hW, hy⟩
        refine ⟨y, hW, ?_⟩
        rcases hy with hy | hy
        · exact Or.inl hy
        · rcases List.mem_cons.mp hy with rfl | hy'
          · exact absurd (hW2 x y hW).2.2 hnu
          · exact Or.inr hy'

theorem zip_existsN {hash : JVal → String} {E : List (Job × Comps)} (G : GoodExportN hash E)
    (htop : TopNamedE E) (dst : Project) (h : ∃ e ∈ E, hasId e.1.id dst = true) :
    importZip hash .none dst (members E) = ⟨dst, some .destinationExists, []⟩ := by
  rcases h with ⟨e, he, hid⟩
  have hd := zip_dirs_okN G
  have hpw := sortDirs_parentsFirst (Under E) _ (zip_input_ok G htop)
  have := scan_existsN G zipPolicy (fun x y => IsRoot E y ∧ y <+: x ∧ y ≠ x) zipPolicy_ok
    (fun x y h => ⟨h.2.1, h.2.2, h.1.under⟩)
    (by
      intro skip x y h hy
      simp only [zipPolicy, List.any_eq_true, isPrefixB, decide_eq_true_eq]
      exact ⟨y, hy, h.2.1⟩)
    (Or.inr (fun x y h => h.1)) (dst.map (·.id)) _ [] [] hd.1 hpw (by intro s hs; cases hs)
    (by
      intro x _ hux hnr
      rcases hux with ⟨e, he, hex⟩
      exact ⟨e.2, ⟨⟨e, he, rfl⟩, hex, fun h => hnr ⟨e, he, h⟩⟩, Or.inr (hd.2 e he)⟩)
    ⟨e, he, hd.2 e he, contains_of_hasId hid⟩
  unfold importZip
  simp only [schemaFn_none, this]

theorem tar_existsN {hash : JVal → String} {E : List (Job × Comps)} (G : GoodExportN hash E)
    (dst : Project) (h : ∃ e ∈ E, hasId e.1.id dst = true) :
    importTar hash .none dst (members E) (dirMembers E) = ⟨dst, some .destinationExists, []⟩ := by
  rcases h with ⟨e, he, hid⟩
  have hd := tar_dirs_okN G
  have hpw := sortDirs_parentsFirst (Under E) _ (fun _ => tar_input_ok G)
  have := scan_existsN G tarPolicy (fun x y => y = x.dropLast ∧ x ≠ [] ∧ Under E y) tarPolicy_ok
    (by
      rintro x y ⟨rfl, hx, hu⟩
      refine ⟨List.dropLast_prefix _, ?_, hu⟩
      intro h
      have := congrArg List.length h
      have hpos : 0 < x.length := List.length_pos_iff.mpr hx
      simp only [List.length_dropLast] at this
      omega)
    (by
      rintro skip x y ⟨rfl, _, _⟩ hy
      simp only [tarPolicy]
      exact List.contains_iff_mem.mpr hy)
    (Or.inl rfl) (dst.map (·.id)) _ [] [] hd.1 hpw (by intro s hs; cases hs)
    (by
      intro x hx hux hnr
      rcases hux with ⟨e, he, hex⟩
      simp only [sortDirs, mem_sortBy, dirMembers, List.mem_flatMap] at hx
      rcases hx with ⟨e', he', hx⟩
      have : e = e' := G.eq_of_under he he' hex (mem_dirBlock hx)
      subst this
      have hp := dirBlock_parent (G.nonempty e he) hx (fun h => hnr ⟨e, he, h.symm⟩)
      refine ⟨x.dropLast, ⟨rfl, hp.2.2, ⟨e, he, hp.2.1⟩⟩, Or.inr ?_⟩
      simp only [sortDirs, mem_sortBy, dirMembers, List.mem_flatMap]
      exact ⟨e, he, hp.1⟩)
    ⟨e, he, hd.2 e he, contains_of_hasId hid⟩
  unfold importTar
  simp only [schemaFn_none, this]

/-! ### DestinationExistsError: the directory crawl -/

theorem crawl_existsN {hash : JVal → String} {E : List (Job × Comps)} (G : GoodExportN hash E) (dst : Project) :
    ∀ (dirs found : List Comps) (seen : List String) (r : ImportResult), dirs.Nodup →
      dirs.Pairwise (fun a b => ¬ BadPair (Under E) a b) → r.err = none →
      (∀ f ∈ found, IsRoot E f ∧ f ∉ dirs) →
      (∀ s ∈ seen, ∃ e ∈ E, e.1.id = s ∧ e.2 ∈ found) →
      (∀ j ∈ r.proj, j ∈ dst ∨ ∃ e ∈ E, e.1.id = j.id ∧ e.2 ∈ found) →
      (∀ j ∈ dst, j ∈ r.proj) →
      (∀ x ∈ dirs, ∀ e ∈ E, e.2 <+: x → e.2 ≠ x → e.2 ∈ found ∨ e.2 ∈ dirs) →
      (∃ e ∈ E, e.2 ∈ dirs ∧ hasId e.1.id dst = true) →
      (crawl hash (readSp (members E)) (members E) dirs found seen r).err = some .destinationExists := by
  intro dirs
  induction dirs with
  | nil =>
    intro found seen r _ _ _ _ _ _ _ _ h
    rcases h with ⟨e, _, h, _⟩
    cases h
  | cons d rest ih =>
    intro found seen r hnd hpw hr hfound hseen hproj hdst hguard hw
    rcases hw with ⟨ew, hew, hewd, hewc⟩
    have hnd' := List.nodup_cons.mp hnd
    have hpw' := List.pairwise_cons.mp hpw
    have hfound' : ∀ f ∈ found, IsRoot E f ∧ f ∉ rest :=
      fun f hf => ⟨(hfound f hf).1, fun hm => (hfound f hf).2 (List.mem_cons_of_mem _ hm)⟩
    have hroot_fresh : ∀ e ∈ E, e.2 = d → ∀ e' ∈ E, e'.2 ∈ found → e'.1.id ≠ e.1.id := by
      intro e he hed e' he' hf' hid
      have := G.eq_of_id he' he hid
      subst this
      exact (hfound _ hf').2 (hed ▸ List.mem_cons_self)
    simp only [crawl]
    split
    · rename_i htest
      simp only [List.any_eq_true, isPrefixB, decide_eq_true_eq] at htest
      rcases htest with ⟨s, hs, hsd⟩
      rcases (hfound s hs).1 with ⟨es, hes, hess⟩
      have hnot : ¬ IsRoot E d := by
        rintro ⟨e, he, heq⟩
        have : es = e := G.eq_of_prefix hes he (by rw [hess, heq]; exact hsd)
        subst this
        exact (hfound s hs).2 (by rw [← hess, heq]; exact List.mem_cons_self)
      have hrest : ew.2 ∈ rest := by
        rcases List.mem_cons.mp hewd with h | h
        · exact absurd ⟨ew, hew, h⟩ hnot
        · exact h
      refine ih found seen r hnd'.2 hpw'.2 hr hfound' hseen hproj hdst ?_ ⟨ew, hew, hrest, hewc⟩
      intro x hx e he hex hne
      rcases hguard x (List.mem_cons_of_mem _ hx) e he hex hne with h | h
      · exact Or.inl h
      · rcases List.mem_cons.mp h with h' | h'
        · exact absurd ⟨e, he, h'⟩ hnot
        · exact Or.inr h'
    · rename_i htest
      by_cases hex : IsRoot E d
      · rcases hex with ⟨e, he, hed⟩
        rcases G.sp e he with ⟨v, hv, hh⟩
        have hread : readSp (members E) d = .ok (some v) := hed ▸ readSp_rootN G he hv
        have hseenF : seen.contains e.1.id = false := by
          cases hc : seen.contains e.1.id with
          | false => rfl
          | true =>
            rcases hseen _ (List.contains_iff_mem.mp hc) with ⟨e', he', hid', hf'⟩
            exact absurd hid' (hroot_fresh e he hed e' he' hf')
        have hfiles : filesUnder d (members E) = e.1.files := hed ▸ filesUnder_rootN G.pf he
        rw [hread]
        simp only [hh, hseenF, Bool.false_eq_true, if_false, copyInit]
        cases hhas : hasId e.1.id r.proj with
        | true => simp
        | false =>
          simp only [Bool.false_eq_true, if_false, initJob, hfiles, hv, hh, if_true]
          simp only [hr, Option.isSome_none, Bool.false_eq_true, if_false]
          have hne : ew.2 ≠ d := by
            intro heq
            have : ew = e := G.eq_of_prefix hew he (by rw [heq, hed]; exact List.prefix_refl _)
            subst this
            simp only [hasId, List.any_eq_true, decide_eq_true_eq] at hewc
            rcases hewc with ⟨j, hj, hjid⟩
            have := (hasId_false_iff _ _).mp hhas j (hdst j hj)
            exact this hjid
          have hrest : ew.2 ∈ rest := by
            rcases List.mem_cons.mp hewd with h | h
            · exact absurd h hne
            · exact h
          apply ih (d :: found) (e.1.id :: seen)
            { proj := r.proj ++ [⟨e.1.id, e.1.files⟩], err := none,
              writes := r.writes ++ writesOf e.1.id e.1.files ++ [] } hnd'.2 hpw'.2 rfl
          · intro f hf
            rcases List.mem_cons.mp hf with rfl | hf'
            · exact ⟨⟨e, he, hed⟩, hnd'.1⟩
            · exact hfound' f hf'
          · intro s hs
            rcases List.mem_cons.mp hs with rfl | hs'
            · exact ⟨e, he, rfl, by rw [hed]; exact List.mem_cons_self⟩
            · rcases hseen s hs' with ⟨e', he', hid', hf'⟩
              exact ⟨e', he', hid', List.mem_cons_of_mem _ hf'⟩
          · intro j hj
            rcases List.mem_append.mp hj with hj' | hj'
            · rcases hproj j hj' with h | ⟨e', he', hid', hf'⟩
              · exact Or.inl h
              · exact Or.inr ⟨e', he', hid', List.mem_cons_of_mem _ hf'⟩
            · simp only [List.mem_singleton] at hj'
              subst hj'
              exact Or.inr ⟨e, he, rfl, by rw [hed]; exact List.mem_cons_self⟩
          · intro j hj
            exact List.mem_append_left _ (hdst j hj)
          · intro x hx e' he' hex' hne'
            rcases hguard x (List.mem_cons_of_mem _ hx) e' he' hex' hne' with h | h
            · exact Or.inl (List.mem_cons_of_mem _ h)
            · rcases List.mem_cons.mp h with h' | h'
              · exact Or.inl (h' ▸ List.mem_cons_self)
              · exact Or.inr h'
          · exact ⟨ew, hew, hrest, hewc⟩
      · have hnu : ¬ Under E d := by
          rintro ⟨e, he, hed⟩
          have hne : e.2 ≠ d := fun h => hex ⟨e, he, h⟩
          rcases hguard d List.mem_cons_self e he hed hne with h | h
          · apply htest
            simp only [List.any_eq_true, isPrefixB, decide_eq_true_eq]
            exact ⟨e.2, h, hed⟩
          · rcases List.mem_cons.mp h with h' | h'
            · exact hne h'
            · exact hpw'.1 e.2 h' ⟨hed, hne, ⟨e, he, List.prefix_refl _⟩⟩
        rw [readSp_outside G hnu]
        have hrest : ew.2 ∈ rest := by
          rcases List.mem_cons.mp hewd with h | h
          · exact absurd ⟨ew, hew, h⟩ hex
          · exact h
        refine ih found seen r hnd'.2 hpw'.2 hr hfound' hseen hproj hdst ?_ ⟨ew, hew, hrest, hewc⟩
        intro x hx e he hex' hne
        rcases hguard x (List.mem_cons_of_mem _ hx) e he hex' hne with h | h
        · exact Or.inl h
        · rcases List.mem_cons.mp h with h' | h'
          · exact absurd ⟨e, he, h'⟩ hex
          · exact Or.inr h'

theorem dir_exists_order {hash : JVal → String} {E : List (Job × Comps)} (G : GoodExportN hash E)
    (dst : Project) (order : List Comps) (hnd : order.Nodup) (hall : ∀ e ∈ E, e.2 ∈ order)
    (hpw : order.Pairwise (fun a b => ¬ BadPair (Under E) a b))
    (h : ∃ e ∈ E, hasId e.1.id dst = true) :
    (importDir hash .none dst (members E) order).err = some .destinationExists := by
  rcases h with ⟨e, he, hid⟩
  unfold importDir
  rw [schemaFn_none]
  exact crawl_existsN G dst order [] [] ⟨dst, none, []⟩ hnd hpw rfl
    (by intro f hf; cases hf) (by intro s hs; cases hs) (fun j hj => Or.inl hj) (fun j hj => hj)
    (fun x _ e he _ _ => Or.inr (hall e he))
    ⟨e, he, hall e he, hid⟩

theorem dir_existsN {hash : JVal → String} {E : List (Job × Comps)} (G : GoodExportN hash E)
    (dst : Project) (order : List Comps) (hnd : order.Nodup) (hpf : ParentsFirst order)
    (hall : ∀ e ∈ E, e.2 ∈ order) (h : ∃ e ∈ E, hasId e.1.id dst = true) :
    (importDir hash .none dst (members E) order).err = some .destinationExists :=
  dir_exists_order G dst order hnd hall (hpf.noBadPair _) h

/-- the model's own order, for exports whose root job (if any) is `TopNamed` -/
theorem walkOrder_noBadPair {hash : JVal → String} {E : List (Job × Comps)} (G : GoodExportN hash E)
    (htop : TopNamedE E) : (walkOrder (members E)).Pairwise (fun a b => ¬ BadPair (Under E) a b) :=
  sortDirs_parentsFirst (Under E) _ (dir_input_ok G htop)

/-! ### well-formed paths -/

/-- no path component of any entry of any job is the empty string (true of every file system) -/
def PathsWF (P : Project) : Prop := ∀ j ∈ P, ∀ fc ∈ j.files, "" ∉ fc.1

theorem topNamed_of_pathsWF {P : Project} (h : PathsWF P) : TopNamed P := by
  intro j hj fc hfc hhead
  apply h j hj fc hfc
  cases hfc1 : fc.1 with
  | nil => rw [hfc1] at hhead; cases hhead
  | cons c cs =>
    rw [hfc1] at hhead
    simp only [List.head?_cons, Option.some.injEq] at hhead
    rw [hhead]
    exact List.mem_cons_self

/-- prefix-free path lists with two or more entries do not contain the target root -/
theorem root_not_mem_of_two {ds : List Comps} (hpf : PrefixFree ds) (h2 : 2 ≤ ds.length) : [] ∉ ds := by
  intro hmem
  match ds, h2, hpf, hmem with
  | [], h2, _, _ => simp at h2
  | [_], h2, _, _ => simp at h2
  | a :: b :: r, _, hpf, hmem =>
    unfold PrefixFree at hpf
    have h1 := List.pairwise_cons.mp hpf
    rcases List.mem_cons.mp hmem with h | h
    · exact (h1.1 b List.mem_cons_self).1 (h ▸ List.nil_prefix)
    · exact (h1.1 [] h).2 List.nil_prefix

/-- the member list of an export of a `PathsWF` project to paths without empty components has no
    top-level entry with the empty name: the model's `walkOrder` is then `ParentsFirst` -/
theorem walkOrder_export_parentsFirst {P : Project} {ds : List Comps}
    (hp : PathsWF P) (hds : ∀ d ∈ ds, d.head? ≠ some "") :
    ParentsFirst (walkOrder (exportMembers P ds)) := by
  apply walkOrder_parentsFirst
  intro fc hfc
  rcases members_path (E := P.zip ds) hfc with ⟨e, he, f, c, hf, rfl⟩
  have hm := List.of_mem_zip (a := e.1) (b := e.2) he
  cases he2 : e.2 with
  | nil =>
    simp only [List.nil_append]
    exact topNamed_of_pathsWF hp e.1 hm.1 (f, c) hf
  | cons x xs =>
    have := hds e.2 hm.2
    rw [he2] at this
    simpa using this

end Signac.IE

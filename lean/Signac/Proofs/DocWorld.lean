/-
  World-level facts: the ghost flag `hit` is monotone; invariants of unbuffered runs;
  `doc_refines_dict` (unbuffered runs through any number of handle objects refine plain dicts)
  and `read_sees_last_write`.
-/
import Signac.Proofs.DocOps
namespace Signac.Doc
open Signac

/-- the document a file cell stands for: no file = empty document -/
def content : Option JVal → JVal
  | none => .obj []
  | some v => v

/-- same document (`Sim`), an absent file being the empty document -/
def CSim (a b : Option JVal) : Prop := Sim (content a) (content b)

structure WFWorld (w : World) : Prop where
  data : ∀ o, WF (w.data o)
  files : ∀ f v, w.files f = some v → WF v
  buf : ∀ f e, w.buf f = some e → WF e.contents

def WFCmd : Cmd → Prop
  | .op _ d => WFOp d
  | _ => True

/-- a handle whose file does not exist holds the empty document -/
def Coherent (w : World) : Prop := ∀ o, w.files (w.fileOf o) = none → Sim (w.data o) (.obj [])

/-! ### `upd` -/
@[simp] theorem upd_same {α : Type} (f : Nat → α) (i : Nat) (v : α) : upd f i v i = v := by simp [upd]
theorem upd_other {α : Type} (f : Nat → α) {i j : Nat} (v : α) (h : j ≠ i) : upd f i v j = f j := by
  simp [upd, h]
@[simp] theorem upd_upd {α : Type} (f : Nat → α) (i : Nat) (a b : α) : upd (upd f i a) i b = upd f i b := by
  funext j; simp only [upd]; split <;> rfl

/-! ### the ghost flag only ever goes up -/
theorem hit_loadU {w : World} (o : Nat) (h : w.hit = true) : (loadU w o).hit = true := by simp [loadU, h]
theorem hit_saveU {w : World} (o : Nat) (h : w.hit = true) : (saveU w o).hit = true := by simp [saveU, h]
theorem hit_touch {w : World} (o : Nat) (h : w.hit = true) : (touch w o).hit = true := by
  unfold touch; split <;> exact h
theorem hit_flushObj {w : World} (o : Nat) (h : w.hit = true) : (flushObj w o).hit = true := by
  unfold flushObj; split
  · exact h
  · split
    · show (w.hit || _) = true; simp [h]
    · exact h
theorem hit_flushList (os : List Nat) {w : World} (h : w.hit = true) : (flushList os w).hit = true := by
  induction os generalizing w with
  | nil => exact h
  | cons o os ih => exact ih (hit_flushObj o h)
theorem hit_flushAll {w : World} (h : w.hit = true) : (flushAll w).hit = true := by
  show (flushList w.order.reverse w).hit = true
  exact hit_flushList _ h
theorem hit_maybeFlush {w : World} (h : w.hit = true) : (maybeFlush w).hit = true := by
  unfold maybeFlush; split
  · exact hit_flushAll h
  · exact h
theorem hit_bufInit {w : World} (o : Nat) (h : w.hit = true) : (bufInit w o).hit = true := by
  unfold bufInit; split
  · exact h
  · exact hit_loadU o h
theorem hit_mergeBlob {w : World} (o : Nat) (b : JVal) (h : w.hit = true) : (mergeBlob w o b).hit = true := by
  show (w.hit || _) = true; simp [h]
theorem hit_loadB {w : World} (o : Nat) (h : w.hit = true) : (loadB w o).hit = true := by
  unfold loadB
  simp only
  split
  · exact hit_touch _ (hit_bufInit o h)
  · exact hit_mergeBlob _ _ (hit_maybeFlush (hit_touch _ (hit_bufInit o h)))
theorem hit_bufStore {w : World} (o : Nat) (h : w.hit = true) : (bufStore w o).hit = true := by
  unfold bufStore; split <;> exact h
theorem hit_saveB {w : World} (o : Nat) (h : w.hit = true) : (saveB w o).hit = true :=
  hit_maybeFlush (hit_bufStore o (hit_touch o h))
theorem hit_load {w : World} (o : Nat) (h : w.hit = true) : (load w o).hit = true := by
  unfold load; split
  · exact hit_loadU o h
  · exact hit_loadB o h
theorem hit_save {w : World} (o : Nat) (h : w.hit = true) : (save w o).hit = true := by
  unfold save; split
  · exact hit_saveU o h
  · exact hit_saveB o h
theorem hit_setData {w : World} (o : Nat) (d : JVal) (b : Bool) (h : w.hit = true) :
    (setData w o d b).hit = true := by simp [setData, h]
theorem hit_execOp {w : World} (o : Nat) (op : DictOp) (h : w.hit = true) : (execOp w o op).1.hit = true := by
  unfold execOp
  split
  · simp only
    split
    · exact hit_save _ (hit_setData _ _ _ (hit_load o h))
    · exact hit_setData _ _ _ (hit_load o h)
  · exact hit_save _ (hit_setData _ _ _ h)
theorem hit_setCap {w : World} (c : Nat) (h : w.hit = true) : (setCap w c).hit = true := by
  unfold setCap; simp only; split
  · exact hit_flushAll h
  · exact h
theorem hit_exitFlush {w : World} (h : w.hit = true) : (exitFlush w).hit = true := by
  unfold exitFlush; simp only; split
  · exact hit_flushAll h
  · exact h
theorem hit_popCap {w : World} (h : w.hit = true) : (popCap w).hit = true := by
  unfold popCap; split
  · exact h
  · exact h
  · exact hit_setCap _ h
theorem hit_execCmd {w : World} (c : Cmd) (h : w.hit = true) : (execCmd w c).1.hit = true := by
  cases c with
  | op o d => exact hit_execOp o d h
  | enter cap =>
    cases cap with
    | none => exact h
    | some c => exact hit_setCap c h
  | exit =>
    simp only [execCmd]
    split
    · exact h
    · exact hit_popCap (hit_exitFlush h)
  | file f => exact h
  | rm f => exact h
  | hit => exact h
  | reopen f => exact h

theorem run_nil (w : World) : run [] w = (w, []) := rfl
theorem run_cons (c : Cmd) (cs : List Cmd) (w : World) :
    run (c :: cs) w = ((run cs (execCmd w c).1).1, (execCmd w c).2 :: (run cs (execCmd w c).1).2) := rfl

theorem hit_run (cs : List Cmd) {w : World} (h : w.hit = true) : (run cs w).1.hit = true := by
  induction cs generalizing w with
  | nil => exact h
  | cons c cs ih => rw [run_cons]; exact ih (hit_execCmd c h)

theorem hit_false_of_run {cs : List Cmd} {w : World} (h : (run cs w).1.hit = false) : w.hit = false := by
  cases hw : w.hit with
  | false => rfl
  | true => rw [hit_run cs hw] at h; cases h

/-! ### loading -/
theorem loadedFrom_sim {d : JVal} {f : Option JVal} (hd : WF d) (hf : ∀ v, f = some v → WF v)
    (hh : loadHit d f = false) (hc : f = none → Sim d (.obj [])) : Sim (loadedFrom d f) (content f) := by
  cases f with
  | none => exact hc rfl
  | some v => exact merge_sim d v hd (hf v rfl) hh

theorem wf_loadedFrom {d : JVal} {f : Option JVal} (hd : WF d) (hf : ∀ v, f = some v → WF v) :
    WF (loadedFrom d f) := by
  cases f with
  | none => exact hd
  | some v => exact wf_merge d v hd (hf v rfl)

theorem memOp_noload_sim (op : DictOp) (d s : JVal) (hl : op.loads = false) (hd : WF d) (hop : WFOp op)
    (hh : opHit op d = false) : ResSim (memOp op d) (plainOp op s) := by
  cases op <;> simp [DictOp.loads] at hl
  · exact ⟨.none, Sim.refl _, rfl⟩
  · exact ⟨.none, merge_sim _ _ hd hop hh, rfl⟩

/-! ### the specification: one plain dict per document -/
def specCmd (fileOf : Nat → Nat) (S : Nat → JVal) : Cmd → (Nat → JVal) × Out
  | .op o d => (upd S (fileOf o) (plainOp d (S (fileOf o))).val, (plainOp d (S (fileOf o))).out)
  | .file f => (S, .val (S f))
  | .rm f => (upd S f (.obj []), .none)
  | .hit => (S, .val (.bool false))
  | .enter _ => (S, .none)
  | .exit => (S, .none)
  | .reopen _ => (S, .none)

def specRun (fileOf : Nat → Nat) : List Cmd → (Nat → JVal) → (Nat → JVal) × List Out
  | [], S => (S, [])
  | c :: cs, S => ((specRun fileOf cs (specCmd fileOf S c).1).1,
                   (specCmd fileOf S c).2 :: (specRun fileOf cs (specCmd fileOf S c).1).2)

/-- outputs agree: same kind, values `Sim`; an absent file reads as the empty document -/
def OutSimF (a b : Out) : Prop := OutSim a b ∨ (a = .none ∧ ∃ s, b = .val s ∧ Sim (.obj []) s)

def Cmd.isBlock : Cmd → Bool
  | .enter _ => true
  | .exit => true
  | _ => false

/-- invariant of an unbuffered run against its specification -/
structure UInv (w : World) (S : Nat → JVal) : Prop where
  depth : w.depth = 0
  wf : WFWorld w
  coh : Coherent w
  sim : ∀ f, Sim (content (w.files f)) (S f)

/-- the in-memory value an operation acts on (after the load, if the operation loads) -/
def opData (w : World) (o : Nat) (op : DictOp) : JVal :=
  if op.loads then loadedFrom (w.data o) (w.files (w.fileOf o)) else w.data o

def opLoadHit (w : World) (o : Nat) (op : DictOp) : Bool :=
  op.loads && loadHit (w.data o) (w.files (w.fileOf o))

theorem noload_saved (op : DictOp) (d : JVal) (h : op.loads = false) : (memOp op d).saved = true := by
  cases op <;> simp [DictOp.loads] at h <;> rfl

/-- an operation outside buffered blocks, spelled out -/
theorem execOp_depth0 {w : World} (h : w.depth = 0) (o : Nat) (op : DictOp) :
    execOp w o op =
      ({ w with
          files := if (memOp op (opData w o op)).saved then
                     upd w.files (w.fileOf o) (some (memOp op (opData w o op)).val) else w.files,
          data := upd w.data o (memOp op (opData w o op)).val,
          hit := w.hit || (opLoadHit w o op || opHit op (opData w o op)) },
       (memOp op (opData w o op)).out) := by
  unfold execOp opData opLoadHit
  cases hl : op.loads with
  | true =>
    simp only [if_true, load, save, h, loadU, saveU, setData, upd_same, upd_upd, Bool.true_and, Bool.or_assoc]
    split <;> simp_all
  | false =>
    have := noload_saved op (w.data o) hl
    simp [save, h, saveU, setData, this]

theorem wf_opData {w : World} (hw : WFWorld w) (o : Nat) (op : DictOp) : WF (opData w o op) := by
  unfold opData; split
  · exact wf_loadedFrom (hw.data o) (hw.files _)
  · exact hw.data o

/-- what the operation does to its in-memory value is what a plain dict does to the document -/
theorem opData_res {w : World} {S : Nat → JVal} (I : UInv w S) (o : Nat) (op : DictOp) (hop : WFOp op)
    (h1 : opLoadHit w o op = false) (h2 : opHit op (opData w o op) = false) :
    ResSim (memOp op (opData w o op)) (plainOp op (S (w.fileOf o))) := by
  cases hl : op.loads with
  | true =>
    have hd : opData w o op = loadedFrom (w.data o) (w.files (w.fileOf o)) := by simp [opData, hl]
    have hh : loadHit (w.data o) (w.files (w.fileOf o)) = false := by simpa [opLoadHit, hl] using h1
    have hs : Sim (opData w o op) (S (w.fileOf o)) :=
      hd ▸ (loadedFrom_sim (I.wf.data o) (I.wf.files _) hh (I.coh o)).trans (I.sim _)
    exact memOp_plain_sim op hs (wf_opData I.wf o op) hop h2
  | false =>
    exact memOp_noload_sim op _ _ hl (wf_opData I.wf o op) hop h2

theorem uinv_op {w : World} {S : Nat → JVal} (I : UInv w S) (o : Nat) (op : DictOp) (hop : WFOp op)
    (hh : (execOp w o op).1.hit = false) :
    UInv (execOp w o op).1 (specCmd w.fileOf S (.op o op)).1 ∧
    OutSim (execOp w o op).2 (specCmd w.fileOf S (.op o op)).2 ∧ (execOp w o op).1.fileOf = w.fileOf := by
  rw [execOp_depth0 I.depth] at hh ⊢
  simp only [Bool.or_eq_false_iff] at hh
  have hr := opData_res I o op hop hh.2.1 hh.2.2
  have hwd := wf_opData I.wf o op
  have hwr : WF (memOp op (opData w o op)).val := wf_memOp op hwd hop
  refine ⟨⟨I.depth, ⟨?_, ?_, I.wf.buf⟩, ?_, ?_⟩, hr.out, rfl⟩
  · intro o'
    show WF (upd w.data o _ o')
    by_cases ho : o' = o
    · subst ho; rw [upd_same]; exact hwr
    · rw [upd_other _ _ ho]; exact I.wf.data o'
  · intro f' v hv
    change (if _ then upd w.files (w.fileOf o) _ else w.files) f' = some v at hv
    split at hv
    · by_cases hf' : f' = w.fileOf o
      · subst hf'; rw [upd_same] at hv; cases hv; exact hwr
      · rw [upd_other _ _ hf'] at hv; exact I.wf.files f' v hv
    · exact I.wf.files f' v hv
  · intro o' hn
    change (if _ then upd w.files (w.fileOf o) _ else w.files) (w.fileOf o') = none at hn
    show Sim (upd w.data o _ o') _
    by_cases hs : (memOp op (opData w o op)).saved = true
    · rw [if_pos hs] at hn
      by_cases hf' : w.fileOf o' = w.fileOf o
      · rw [hf', upd_same] at hn; cases hn
      · rw [upd_other _ _ hf'] at hn
        have ho : o' ≠ o := fun e => hf' (e ▸ rfl)
        rw [upd_other _ _ ho]; exact I.coh o' hn
    · rw [if_neg hs] at hn
      by_cases ho : o' = o
      · subst ho
        rw [upd_same, memOp_unsaved op _ (by simpa using hs)]
        have hl : op.loads = true := by
          cases hl : op.loads with
          | true => rfl
          | false => exact absurd (noload_saved op _ hl) hs
        simp only [opData, hl, if_true, hn, loadedFrom]
        exact I.coh o' hn
      · rw [upd_other _ _ ho]; exact I.coh o' hn
  · intro f'
    change Sim (content ((if _ then upd w.files (w.fileOf o) _ else w.files) f'))
      (upd S (w.fileOf o) (plainOp op (S (w.fileOf o))).val f')
    by_cases hs : (memOp op (opData w o op)).saved = true
    · rw [if_pos hs]
      by_cases hf' : f' = w.fileOf o
      · subst hf'; rw [upd_same, upd_same]; exact hr.val
      · rw [upd_other _ _ hf', upd_other _ _ hf']; exact I.sim f'
    · rw [if_neg hs]
      have hs' : (plainOp op (S (w.fileOf o))).saved = false := by
        rw [← hr.saved]; simpa using hs
      by_cases hf' : f' = w.fileOf o
      · subst hf'; rw [upd_same, plainOp_unsaved op _ hs']; exact I.sim _
      · rw [upd_other _ _ hf']; exact I.sim f'

theorem uinv_cmd {w : World} {S : Nat → JVal} (I : UInv w S) (c : Cmd) (hb : c.isBlock = false)
    (hc : WFCmd c) (hh : (execCmd w c).1.hit = false) :
    UInv (execCmd w c).1 (specCmd w.fileOf S c).1 ∧ OutSimF (execCmd w c).2 (specCmd w.fileOf S c).2 ∧
    (execCmd w c).1.fileOf = w.fileOf := by
  cases c with
  | op o d =>
    obtain ⟨h1, h2, h3⟩ := uinv_op I o d hc hh
    exact ⟨h1, Or.inl h2, h3⟩
  | enter cap => simp [Cmd.isBlock] at hb
  | exit => simp [Cmd.isBlock] at hb
  | file f =>
    refine ⟨I, ?_, rfl⟩
    show OutSimF (match w.files f with | none => Out.none | some v => Out.val v) (Out.val (S f))
    have := I.sim f
    cases hf : w.files f with
    | none => rw [hf] at this; exact Or.inr ⟨rfl, _, rfl, this⟩
    | some v => rw [hf] at this; exact Or.inl (.val this)
  | hit =>
    refine ⟨I, Or.inl ?_, rfl⟩
    show OutSim (Out.val (.bool w.hit)) (Out.val (.bool false))
    have : w.hit = false := hh
    rw [this]; exact .val (Sim.refl _)
  | reopen f =>
    refine ⟨⟨I.depth, ⟨?_, I.wf.files, I.wf.buf⟩, ?_, I.sim⟩, Or.inl .none, rfl⟩
    · intro o
      show WF (if w.fileOf o = f then JVal.obj [] else w.data o)
      split
      · exact wf_empty
      · exact I.wf.data o
    · intro o hn
      show Sim (if w.fileOf o = f then JVal.obj [] else w.data o) _
      split
      · exact Sim.refl _
      · exact I.coh o hn
  | rm f =>
    refine ⟨⟨I.depth, ⟨?_, ?_, I.wf.buf⟩, ?_, ?_⟩, Or.inl .none, rfl⟩
    · intro o
      show WF (if w.fileOf o = f then JVal.obj [] else w.data o)
      split
      · exact wf_empty
      · exact I.wf.data o
    · intro f' v hv
      change upd w.files f none f' = some v at hv
      by_cases hf' : f' = f
      · subst hf'; rw [upd_same] at hv; cases hv
      · rw [upd_other _ _ hf'] at hv; exact I.wf.files f' v hv
    · intro o hn
      change upd w.files f none (w.fileOf o) = none at hn
      show Sim (if w.fileOf o = f then JVal.obj [] else w.data o) _
      split
      · exact Sim.refl _
      · next hne => rw [upd_other _ _ hne] at hn; exact I.coh o hn
    · intro f'
      show Sim (content (upd w.files f none f')) (upd S f (.obj []) f')
      by_cases hf' : f' = f
      · subst hf'; rw [upd_same, upd_same]; exact Sim.refl _
      · rw [upd_other _ _ hf', upd_other _ _ hf']; exact I.sim f'

theorem specRun_cons (fileOf : Nat → Nat) (c : Cmd) (cs : List Cmd) (S : Nat → JVal) :
    specRun fileOf (c :: cs) S = ((specRun fileOf cs (specCmd fileOf S c).1).1,
      (specCmd fileOf S c).2 :: (specRun fileOf cs (specCmd fileOf S c).1).2) := rfl

theorem uinv_run (cs : List Cmd) : ∀ (w : World) (S : Nat → JVal), UInv w S →
    (∀ c ∈ cs, c.isBlock = false ∧ WFCmd c) → (run cs w).1.hit = false →
    UInv (run cs w).1 (specRun w.fileOf cs S).1 ∧
    List.Forall₂ OutSimF (run cs w).2 (specRun w.fileOf cs S).2 := by
  induction cs with
  | nil => intro w S I _ _; exact ⟨I, .nil⟩
  | cons c cs ih =>
    intro w S I hc hh
    rw [run_cons] at hh ⊢
    rw [specRun_cons]
    have hc0 := hc c List.mem_cons_self
    obtain ⟨I', ho, hf⟩ := uinv_cmd I c hc0.1 hc0.2 (hit_false_of_run hh)
    have := ih (execCmd w c).1 _ I' (fun c' h' => hc c' (List.mem_cons_of_mem _ h')) hh
    rw [hf] at this
    exact ⟨this.1, .cons ho this.2⟩

/-! ### a read through any other handle sees what is on disk -/
theorem read_from_disk {w : World} (hd : w.depth = 0) (hw : WFWorld w) (o' : Nat) {v : JVal}
    (hv : w.files (w.fileOf o') = some v) (hh : (execOp w o' .read).1.hit = false) :
    ∃ x, (execOp w o' .read).2 = .val x ∧ Sim x v := by
  rw [execOp_depth0 hd] at hh ⊢
  simp only [Bool.or_eq_false_iff] at hh
  have hl : loadHit (w.data o') (w.files (w.fileOf o')) = false := by
    simpa [opLoadHit, DictOp.loads] using hh.2.1
  refine ⟨opData w o' .read, rfl, ?_⟩
  have : opData w o' .read = mergeVal (w.data o') v := by simp [opData, DictOp.loads, hv, loadedFrom]
  rw [this]
  rw [hv] at hl
  exact merge_sim _ _ (hw.data o') (hw.files _ v hv) hl

theorem saved_on_disk {w : World} (hd : w.depth = 0) (o : Nat) (op : DictOp)
    (hs : (memOp op (opData w o op)).saved = true) :
    (execOp w o op).1.files (w.fileOf o) = some ((execOp w o op).1.data o) ∧
    (execOp w o op).1.depth = 0 ∧ (execOp w o op).1.fileOf = w.fileOf := by
  rw [execOp_depth0 hd]
  refine ⟨?_, hd, rfl⟩
  show (if _ then upd w.files (w.fileOf o) _ else w.files) (w.fileOf o) = some (upd w.data o _ o)
  rw [if_pos hs, upd_same, upd_same]

theorem wfWorld_execOp0 {w : World} (hd : w.depth = 0) (hw : WFWorld w) (o : Nat) (op : DictOp)
    (hop : WFOp op) : WFWorld (execOp w o op).1 := by
  rw [execOp_depth0 hd]
  have hwr : WF (memOp op (opData w o op)).val := wf_memOp op (wf_opData hw o op) hop
  refine ⟨?_, ?_, hw.buf⟩
  · intro o'
    show WF (upd w.data o _ o')
    by_cases ho : o' = o
    · subst ho; rw [upd_same]; exact hwr
    · rw [upd_other _ _ ho]; exact hw.data o'
  · intro f' v hv
    change (if _ then upd w.files (w.fileOf o) _ else w.files) f' = some v at hv
    split at hv
    · by_cases hf' : f' = w.fileOf o
      · subst hf'; rw [upd_same] at hv; cases hv; exact hwr
      · rw [upd_other _ _ hf'] at hv; exact hw.files f' v hv
    · exact hw.files f' v hv

end Signac.Doc

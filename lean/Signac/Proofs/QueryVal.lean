/-
  Helper lemmas for C06, value layer: Python `==` / ordering on JSON-born values is compatible
  with itself (`a == b → (a == c) = (b == c)`, `a == b → cmp a c = cmp b c`, symmetry), for
  values whose lists hold no mappings.  These are what makes "one representative per dict
  slot" a sound way to evaluate an operator for all jobs in the slot.
-/
import Signac.Query
import Mathlib.Tactic.LinearCombination
import Mathlib.Tactic.Linarith
namespace Signac.Query
open Signac

theorem two_pow_pos (e : Nat) : (0 : Int) < (2 : Int) ^ e := by positivity

theorem numEq_iff (p q : Int × Nat) : numEq p q = true ↔ p.1 * (2 : Int) ^ q.2 = q.1 * (2 : Int) ^ p.2 := by
  simp [numEq]

theorem numLt_iff (p q : Int × Nat) : numLt p q = true ↔ p.1 * (2 : Int) ^ q.2 < q.1 * (2 : Int) ^ p.2 := by
  simp [numLt]

theorem numEq_symm (p q : Int × Nat) : numEq p q = numEq q p := by
  rw [Bool.eq_iff_iff, numEq_iff, numEq_iff]
  exact eq_comm

theorem numEq_refl (p : Int × Nat) : numEq p p = true := by
  rw [numEq_iff]

theorem numEq_eucl {p q : Int × Nat} (h : numEq p q = true) (s : Int × Nat) :
    numEq p s = numEq q s := by
  rw [numEq_iff] at h
  rw [Bool.eq_iff_iff, numEq_iff, numEq_iff]
  have hA := two_pow_pos p.2
  have hB := two_pow_pos q.2
  constructor
  · intro h1
    exact mul_left_cancel₀ (ne_of_gt hA) (by linear_combination (-(2 : Int) ^ s.2) * h + (2 : Int) ^ q.2 * h1)
  · intro h1
    exact mul_left_cancel₀ (ne_of_gt hB) (by linear_combination ((2 : Int) ^ s.2) * h + (2 : Int) ^ p.2 * h1)

theorem numLt_congr_left {p q : Int × Nat} (h : numEq p q = true) (s : Int × Nat) :
    numLt p s = numLt q s := by
  rw [numEq_iff] at h
  rw [Bool.eq_iff_iff, numLt_iff, numLt_iff]
  have hA := two_pow_pos p.2
  have hB := two_pow_pos q.2
  have hC := two_pow_pos s.2
  constructor
  · intro h1
    by_contra hc
    simp only [not_lt] at hc
    nlinarith [mul_lt_mul_of_pos_right h1 hB, mul_le_mul_of_nonneg_right hc (le_of_lt hA)]
  · intro h1
    by_contra hc
    simp only [not_lt] at hc
    nlinarith [mul_lt_mul_of_pos_right h1 hA, mul_le_mul_of_nonneg_right hc (le_of_lt hB)]

mutual
  /-- a value without mappings (what a list in job data is assumed to hold) -/
  def flatVal : JVal → Bool
    | .arr xs => flatList xs
    | .obj _ => false
    | _ => true
  def flatList : List JVal → Bool
    | [] => true
    | x :: xs => flatVal x && flatList xs
end

/-- Python `==` of a number with anything -/
theorem pyEq_of_numVal {a : JVal} {p : Int × Nat} (h : numVal a = some p) (c : JVal) :
    pyEq a c = (match numVal c with | some q => numEq p q | none => false) := by
  cases a with
  | null => simp [numVal] at h
  | str s => simp [numVal] at h
  | arr xs => simp [numVal] at h
  | obj kvs => simp [numVal] at h
  | bool b =>
    cases b <;> simp only [numVal, Option.some.injEq] at h <;> subst h <;> cases c <;> rfl
  | int i =>
    simp only [numVal, Option.some.injEq] at h; subst h; cases c <;> rfl
  | flt n e r =>
    simp only [numVal, Option.some.injEq] at h; subst h; cases c <;> rfl

/-- anything that is not a number is `!=` every number -/
theorem numVal_bool (b : Bool) : numVal (.bool b) = some (if b then (1, 0) else (0, 0)) := by
  cases b <;> rfl

theorem pyEq_nonnum_num {a c : JVal} (ha : numVal a = none) {q : Int × Nat} (hc : numVal c = some q) :
    pyEq a c = false := by
  cases a with
  | bool b => rw [numVal_bool] at ha; cases ha
  | int i => cases ha
  | flt n e r => cases ha
  | null => cases c <;> first | rfl | (simp [numVal] at hc)
  | str s => cases c <;> first | rfl | (simp [numVal] at hc)
  | arr xs => cases c <;> first | rfl | (simp [numVal] at hc)
  | obj kvs => cases c <;> first | rfl | (simp [numVal] at hc)

theorem pyEq_num_symm {a : JVal} {p : Int × Nat} (h : numVal a = some p) (c : JVal) :
    pyEq a c = pyEq c a := by
  rw [pyEq_of_numVal h]
  cases hc : numVal c with
  | none => exact (pyEq_nonnum_num hc h).symm
  | some q => rw [pyEq_of_numVal hc, h]; exact numEq_symm p q

mutual
  theorem pyEq_symm_flat : ∀ (a : JVal), flatVal a = true → ∀ c, pyEq a c = pyEq c a
    | .null, _, c => by cases c <;> rfl
    | .bool b, _, c => pyEq_num_symm (numVal_bool b) c
    | .int i, _, c => pyEq_num_symm (p := (i, 0)) rfl c
    | .flt n e r, _, c => pyEq_num_symm (p := (n, e)) rfl c
    | .str s, _, c => by
      cases c with
      | str t => simp only [pyEq]; rw [Bool.eq_iff_iff]; simp only [beq_iff_eq]; exact eq_comm
      | bool b => cases b <;> rfl
      | _ => rfl
    | .arr xs, h, c => by
      cases c with
      | arr ys => simp only [pyEq]; exact pyEqList_symm_flat xs (by simpa [flatVal] using h) ys
      | bool b => cases b <;> rfl
      | _ => rfl
    | .obj _, h, _ => by simp [flatVal] at h
  theorem pyEqList_symm_flat : ∀ (xs : List JVal), flatList xs = true → ∀ ys, pyEqList xs ys = pyEqList ys xs
    | [], _, ys => by cases ys <;> rfl
    | x :: xs, h, ys => by
      cases ys with
      | nil => rfl
      | cons y ys =>
        simp only [flatList, Bool.and_eq_true] at h
        simp only [pyEqList]
        rw [pyEq_symm_flat x h.1 y, pyEqList_symm_flat xs h.2 ys]
end

/-- a number is `==` only to numbers of the same value -/
theorem pyEq_num_true {a b : JVal} {p : Int × Nat} (h : numVal a = some p) (hab : pyEq a b = true) :
    ∃ q, numVal b = some q ∧ numEq p q = true := by
  rw [pyEq_of_numVal h] at hab
  cases hb : numVal b with
  | none => rw [hb] at hab; cases hab
  | some q => rw [hb] at hab; exact ⟨q, rfl, hab⟩

theorem pyEq_num_eucl {a b : JVal} {p : Int × Nat} (h : numVal a = some p) (hab : pyEq a b = true)
    (c : JVal) : pyEq a c = pyEq b c := by
  obtain ⟨q, hb, hpq⟩ := pyEq_num_true h hab
  rw [pyEq_of_numVal h, pyEq_of_numVal hb]
  cases numVal c with
  | none => rfl
  | some s => exact numEq_eucl hpq s

/-- Python ordering of a number with anything -/
theorem pyCmp_of_numVal {a : JVal} {p : Int × Nat} (h : numVal a = some p) (c : JVal) :
    pyCmp a c = (match numVal c with
      | some q => if numLt p q then .lt else if numEq p q then .eq else .gt
      | none => .typeError) := by
  cases a with
  | null => simp [numVal] at h
  | str s => simp [numVal] at h
  | arr xs => simp [numVal] at h
  | obj kvs => simp [numVal] at h
  | bool b =>
    cases b <;> simp only [numVal, Option.some.injEq] at h <;> subst h <;> cases c <;> rfl
  | int i =>
    simp only [numVal, Option.some.injEq] at h; subst h; cases c <;> rfl
  | flt n e r =>
    simp only [numVal, Option.some.injEq] at h; subst h; cases c <;> rfl

theorem pyCmp_num_congr {a b : JVal} {p : Int × Nat} (h : numVal a = some p) (hab : pyEq a b = true)
    (c : JVal) : pyCmp a c = pyCmp b c := by
  obtain ⟨q, hb, hpq⟩ := pyEq_num_true h hab
  rw [pyCmp_of_numVal h, pyCmp_of_numVal hb]
  cases numVal c with
  | none => rfl
  | some s => simp only [numEq_eucl hpq s, numLt_congr_left hpq s]

theorem pyEq_null_true {b : JVal} (h : pyEq .null b = true) : b = .null := by
  cases b <;> first | rfl | (simp [pyEq] at h)

theorem pyEq_str_true {s : String} {b : JVal} (h : pyEq (.str s) b = true) : b = .str s := by
  cases b with
  | str t => simp only [pyEq, beq_iff_eq] at h; rw [h]
  | _ => simp [pyEq] at h


theorem pyEq_arr_true {xs : List JVal} {b : JVal} (h : pyEq (.arr xs) b = true) :
    ∃ ys, b = .arr ys ∧ pyEqList xs ys = true := by
  cases b with
  | arr ys => exact ⟨ys, rfl, by simpa [pyEq] using h⟩
  | _ => simp [pyEq] at h

mutual
  /-- `a == b → (a == c) = (b == c)` -/
  theorem pyEq_eucl_flat : ∀ (a : JVal), flatVal a = true → ∀ b c, pyEq a b = true → pyEq a c = pyEq b c
    | .null, _, b, c, h => by rw [pyEq_null_true h]
    | .bool x, _, b, c, h => pyEq_num_eucl (numVal_bool x) h c
    | .int i, _, b, c, h => pyEq_num_eucl (p := (i, 0)) rfl h c
    | .flt n e r, _, b, c, h => pyEq_num_eucl (p := (n, e)) rfl h c
    | .str s, _, b, c, h => by rw [pyEq_str_true h]
    | .arr xs, hf, b, c, h => by
      obtain ⟨ys, rfl, hl⟩ := pyEq_arr_true h
      cases c with
      | arr zs => simp only [pyEq]; exact pyEqList_eucl_flat xs (by simpa [flatVal] using hf) ys zs hl
      | _ => rfl
    | .obj _, hf, _, _, _ => by simp [flatVal] at hf
  theorem pyEqList_eucl_flat : ∀ (xs : List JVal), flatList xs = true → ∀ ys zs,
      pyEqList xs ys = true → pyEqList xs zs = pyEqList ys zs
    | [], _, ys, zs, h => by
      cases ys with
      | nil => rfl
      | cons y ys => simp [pyEqList] at h
    | x :: xs, hf, ys, zs, h => by
      cases ys with
      | nil => simp [pyEqList] at h
      | cons y ys =>
        simp only [pyEqList, Bool.and_eq_true] at h
        simp only [flatList, Bool.and_eq_true] at hf
        cases zs with
        | nil => rfl
        | cons z zs =>
          simp only [pyEqList]
          rw [pyEq_eucl_flat x hf.1 y z h.1, pyEqList_eucl_flat xs hf.2 ys zs h.2]
end

mutual
  /-- `a == b → cmp a c = cmp b c` (including "unorderable") -/
  theorem pyCmp_congr_flat : ∀ (a : JVal), flatVal a = true → ∀ b c, pyEq a b = true → pyCmp a c = pyCmp b c
    | .null, _, b, c, h => by rw [pyEq_null_true h]
    | .bool x, _, b, c, h => pyCmp_num_congr (numVal_bool x) h c
    | .int i, _, b, c, h => pyCmp_num_congr (p := (i, 0)) rfl h c
    | .flt n e r, _, b, c, h => pyCmp_num_congr (p := (n, e)) rfl h c
    | .str s, _, b, c, h => by rw [pyEq_str_true h]
    | .arr xs, hf, b, c, h => by
      obtain ⟨ys, rfl, hl⟩ := pyEq_arr_true h
      cases c with
      | arr zs => simp only [pyCmp]; exact pyCmpList_congr_flat xs (by simpa [flatVal] using hf) ys zs hl
      | _ => rfl
    | .obj _, hf, _, _, _ => by simp [flatVal] at hf
  theorem pyCmpList_congr_flat : ∀ (xs : List JVal), flatList xs = true → ∀ ys zs,
      pyEqList xs ys = true → pyCmpList xs zs = pyCmpList ys zs
    | [], _, ys, zs, h => by
      cases ys with
      | nil => rfl
      | cons y ys => simp [pyEqList] at h
    | x :: xs, hf, ys, zs, h => by
      cases ys with
      | nil => simp [pyEqList] at h
      | cons y ys =>
        simp only [pyEqList, Bool.and_eq_true] at h
        simp only [flatList, Bool.and_eq_true] at hf
        cases zs with
        | nil => rfl
        | cons z zs =>
          simp only [pyCmpList]
          rw [pyEq_eucl_flat x hf.1 y z h.1, pyCmp_congr_flat x hf.1 y z h.1,
            pyCmpList_congr_flat xs hf.2 ys zs h.2]
end

end Signac.Query
